(* Common/Base.v — numbers, results, list helpers shared by every model.
   Style: stdlib only, N for every usize/u64, nat only for list lengths and fuel. *)
From Coq Require Export List NArith ZArith Arith Lia Bool.
From Coq Require Export ZifyBool ZifyNat ZifyN.
Export ListNotations.
Open Scope N_scope.

Ltac Zify.zify_post_hook ::= Z.div_mod_to_equations.

Global Arguments N.add : simpl never.
Global Arguments N.sub : simpl never.
Global Arguments N.mul : simpl never.
Global Arguments N.div : simpl never.
Global Arguments N.modulo : simpl never.
Global Arguments N.eqb : simpl never.
Global Arguments N.ltb : simpl never.
Global Arguments N.leb : simpl never.
Global Arguments N.pow : simpl never.
Global Arguments N.of_nat : simpl never.
Global Arguments N.to_nat : simpl never.

(* A Rust call either returns, returns an error of kind E, or panics.  Panic is a
   constructor of its own: "never panics" is a statement about the range. *)
Inductive res (E A : Type) : Type :=
| Ok (a : A)
| Err (e : E)
| Panic.
Arguments Ok {E A} a.
Arguments Err {E A} e.
Arguments Panic {E A}.

Definition bind {E A B} (r : res E A) (f : A -> res E B) : res E B :=
  match r with Ok a => f a | Err e => Err e | Panic => Panic end.
Notation "'let!' x ':=' r 'in' k" := (bind r (fun x => k))
  (at level 200, x pattern, r at level 100, k at level 200, right associativity).

Definition is_ok {E A} (r : res E A) : bool := match r with Ok _ => true | _ => false end.
Definition is_panic {E A} (r : res E A) : bool := match r with Panic => true | _ => false end.

Definition u64_max : N := 18446744073709551615.
Definition two64 : N := 18446744073709551616.
Definition fits64 (n : N) : bool := n <? two64.

Definition len {A} (l : list A) : N := N.of_nat (length l).

Lemma len_app {A} (a b : list A) : len (a ++ b) = len a + len b.
Proof. unfold len. rewrite app_length. lia. Qed.
Lemma len_nil {A} : len (@nil A) = 0. Proof. reflexivity. Qed.
Lemma len_cons {A} (x : A) l : len (x :: l) = 1 + len l.
Proof. unfold len. cbn [length]. lia. Qed.

(* slices in N coordinates *)
Definition take {A} (n : N) (l : list A) : list A := firstn (N.to_nat n) l.
Definition drop {A} (n : N) (l : list A) : list A := skipn (N.to_nat n) l.
Definition slice {A} (from to : N) (l : list A) : list A := take (to - from) (drop from l).

Lemma len_take {A} n (l : list A) : len (take n l) = N.min n (len l).
Proof. unfold len, take. rewrite firstn_length. lia. Qed.
Lemma len_drop {A} n (l : list A) : len (drop n l) = len l - n.
Proof. unfold len, drop. rewrite skipn_length. lia. Qed.
Lemma len_repeat {A} (x : A) n : len (repeat x n) = N.of_nat n.
Proof. unfold len. now rewrite repeat_length. Qed.
Lemma take_app_exact {A} (a b : list A) n : n = len a -> take n (a ++ b) = a.
Proof.
  intros ->. unfold take, len. rewrite Nat2N.id.
  rewrite firstn_app, Nat.sub_diag, firstn_all. cbn. now rewrite app_nil_r.
Qed.
Lemma drop_app_exact {A} (a b : list A) n : n = len a -> drop n (a ++ b) = b.
Proof.
  intros ->. unfold drop, len. rewrite Nat2N.id.
  rewrite skipn_app, Nat.sub_diag, skipn_all. reflexivity.
Qed.
Lemma take_drop {A} n (l : list A) : take n l ++ drop n l = l.
Proof. apply firstn_skipn. Qed.

Fixpoint nth_opt {A} (l : list A) (n : nat) : option A :=
  match l, n with
  | [], _ => None
  | x :: _, O => Some x
  | _ :: t, S k => nth_opt t k
  end.
Definition get {A} (l : list A) (i : N) : option A := nth_opt l (N.to_nat i).

Lemma nth_opt_nth_error {A} (l : list A) n : nth_opt l n = nth_error l n.
Proof. revert n; induction l; destruct n; cbn; auto. Qed.

Fixpoint set_nth {A} (l : list A) (n : nat) (x : A) : list A :=
  match l, n with
  | [], _ => []
  | _ :: t, O => x :: t
  | h :: t, S k => h :: set_nth t k x
  end.

Fixpoint seqN (from : N) (count : nat) : list N :=
  match count with O => [] | S k => from :: seqN (from + 1) k end.

Lemma seqN_length from n : length (seqN from n) = n.
Proof. revert from; induction n; cbn; intros; auto. Qed.
Lemma in_seqN x from n : In x (seqN from n) <-> from <= x < from + N.of_nat n.
Proof.
  revert from; induction n; intros from; cbn [seqN In].
  - lia.
  - rewrite IHn. lia.
Qed.

Lemma len_slice {A} f t (l : list A) : len (slice f t l) = N.min (t - f) (len l - f).
Proof. unfold slice. now rewrite len_take, len_drop. Qed.

Lemma firstn_app_le {A} n (a b : list A) : (n <= length a)%nat -> firstn n (a ++ b) = firstn n a.
Proof.
  intros H. rewrite firstn_app. replace (n - length a)%nat with O by lia.
  cbn. now rewrite app_nil_r.
Qed.
Lemma skipn_app_ge {A} n (a b : list A) : (length a <= n)%nat -> skipn n (a ++ b) = skipn (n - length a) b.
Proof.
  intros H. rewrite skipn_app. rewrite (skipn_all2 a) by lia. reflexivity.
Qed.
Lemma skipn_app_le {A} n (a b : list A) : (n <= length a)%nat -> skipn n (a ++ b) = skipn n a ++ b.
Proof.
  intros H. rewrite skipn_app. replace (n - length a)%nat with O by lia. reflexivity.
Qed.

Lemma slice_app_l {A} f t (a b : list A) : t <= len a -> slice f t (a ++ b) = slice f t a.
Proof.
  unfold slice, take, drop, len. intros H.
  destruct (N.le_gt_cases f t) as [Hft|Hft].
  - rewrite skipn_app_le by lia. apply firstn_app_le. rewrite skipn_length. lia.
  - replace (N.to_nat (t - f)) with O by lia. reflexivity.
Qed.
Lemma slice_app_r {A} f t (a b : list A) : len a <= f -> slice f t (a ++ b) = slice (f - len a) (t - len a) b.
Proof.
  unfold slice, take, drop, len. intros H.
  rewrite skipn_app_ge by lia.
  replace (N.to_nat f - length a)%nat with (N.to_nat (f - N.of_nat (length a))) by lia.
  f_equal. lia.
Qed.
Lemma slice_all {A} (a : list A) n : n = len a -> slice 0 n a = a.
Proof.
  intros ->. unfold slice, take, drop, len. cbn [N.to_nat skipn].
  replace (N.to_nat (N.of_nat (length a) - 0)) with (length a) by lia. apply firstn_all.
Qed.
Lemma slice_prefix {A} n (a b : list A) : n = len a -> slice 0 n (a ++ b) = a.
Proof. intros ->. rewrite slice_app_l by lia. now apply slice_all. Qed.

