(* Common/LE.v — bytes as N below 256, little-endian integer codecs. *)
From Anydb Require Import Common.Base.

Definition byte_ok (b : N) : bool := b <? 256.
Definition bytes_ok (l : list N) : bool := forallb byte_ok l.

Fixpoint le_enc (w : nat) (v : N) : list N :=
  match w with
  | O => []
  | S k => (v mod 256) :: le_enc k (v / 256)
  end.

Fixpoint le_dec (l : list N) : N :=
  match l with
  | [] => 0
  | b :: t => b + 256 * le_dec t
  end.

Lemma le_enc_length w v : length (le_enc w v) = w.
Proof. revert v; induction w; cbn; intros; auto. Qed.

Lemma le_enc_len w v : len (le_enc w v) = N.of_nat w.
Proof. unfold len. now rewrite le_enc_length. Qed.

Lemma le_enc_bytes_ok w v : bytes_ok (le_enc w v) = true.
Proof.
  revert v; induction w; cbn; intros; auto.
  rewrite IHw. unfold byte_ok. rewrite andb_true_r.
  apply N.ltb_lt. apply N.mod_lt. lia.
Qed.

Lemma le_dec_enc w v : v < 256 ^ N.of_nat w -> le_dec (le_enc w v) = v.
Proof.
  revert v; induction w; intros v Hv.
  - cbn in *. change (256 ^ N.of_nat 0) with 1 in Hv. lia.
  - cbn [le_enc le_dec]. rewrite IHw.
    + pose proof (N.div_mod v 256). lia.
    + replace (N.of_nat (S w)) with (N.succ (N.of_nat w)) in Hv by lia.
      rewrite N.pow_succ_r' in Hv.
      apply N.div_lt_upper_bound; lia.
Qed.

Lemma le_dec_bound l : bytes_ok l = true -> le_dec l < 256 ^ len l.
Proof.
  induction l as [|b t IH]; intros H.
  - cbn. change (256 ^ len []) with 1. lia.
  - cbn [bytes_ok forallb] in H. apply andb_true_iff in H as [Hb Ht].
    specialize (IH Ht). cbn [le_dec]. rewrite len_cons.
    replace (1 + len t) with (N.succ (len t)) by lia.
    rewrite N.pow_succ_r'. unfold byte_ok in Hb. apply N.ltb_lt in Hb. nia.
Qed.

Lemma le_enc_dec l : bytes_ok l = true -> le_enc (length l) (le_dec l) = l.
Proof.
  induction l as [|b t IH]; intros H; cbn [length le_enc le_dec]; auto.
  cbn [bytes_ok forallb] in H. apply andb_true_iff in H as [Hb Ht].
  unfold byte_ok in Hb. apply N.ltb_lt in Hb.
  replace ((b + 256 * le_dec t) mod 256) with b.
  2:{ lia. }
  replace ((b + 256 * le_dec t) / 256) with (le_dec t).
  2:{ lia. }
  now rewrite IH.
Qed.

(* widths used by the code *)
Definition enc_u64 := le_enc 8.
Definition enc_u32 := le_enc 4.
Definition two32 : N := 4294967296.

Lemma pow256_8 : 256 ^ N.of_nat 8 = two64. Proof. reflexivity. Qed.
Lemma pow256_4 : 256 ^ N.of_nat 4 = two32. Proof. reflexivity. Qed.

Lemma dec_enc_u64 v : v < two64 -> le_dec (enc_u64 v) = v.
Proof. intros. apply le_dec_enc. now rewrite pow256_8. Qed.
Lemma dec_enc_u32 v : v < two32 -> le_dec (enc_u32 v) = v.
Proof. intros. apply le_dec_enc. now rewrite pow256_4. Qed.

Lemma bytes_ok_app a b : bytes_ok (a ++ b) = bytes_ok a && bytes_ok b.
Proof. apply forallb_app. Qed.
Lemma bytes_ok_repeat0 n : bytes_ok (repeat 0 n) = true.
Proof. induction n; cbn; auto. Qed.
Lemma bytes_ok_take n l : bytes_ok l = true -> bytes_ok (take n l) = true.
Proof.
  unfold take. generalize (N.to_nat n) as k. intros k; revert l.
  induction k; intros [|x l] H; cbn in *; auto.
  apply andb_true_iff in H as [-> H]. cbn. auto.
Qed.
Lemma bytes_ok_drop n l : bytes_ok l = true -> bytes_ok (drop n l) = true.
Proof.
  unfold drop. generalize (N.to_nat n) as k. intros k; revert l.
  induction k; intros [|x l] H; cbn in *; auto.
  apply andb_true_iff in H as [_ H]. auto.
Qed.

Lemma le_dec_bound_take w l : bytes_ok l = true -> le_dec (take (N.of_nat w) l) < 256 ^ N.of_nat w.
Proof.
  intros H. pose proof (le_dec_bound _ (bytes_ok_take (N.of_nat w) l H)) as B.
  rewrite len_take in B.
  eapply N.lt_le_trans; [exact B|]. apply N.pow_le_mono_r; lia.
Qed.
