(* Codec/Utf8.v — well-formed UTF-8 byte sequences (Unicode Table 3-7), the rule
   String::from_utf8 implements: no overlong forms, no surrogates, nothing above U+10FFFF. *)
From Anydb Require Import Common.Base Common.LE.

Inductive ust := U0 | UC1 | UC2 | UE0 | UED | UC3 | UF0 | UF4.

Definition inr (lo hi b : N) : bool := (lo <=? b) && (b <=? hi).

Definition ustep (s : ust) (b : N) : option ust :=
  match s with
  | U0 =>
      if b <=? 127 then Some U0
      else if inr 194 223 b then Some UC1
      else if b =? 224 then Some UE0
      else if inr 225 236 b then Some UC2
      else if b =? 237 then Some UED
      else if inr 238 239 b then Some UC2
      else if b =? 240 then Some UF0
      else if inr 241 243 b then Some UC3
      else if b =? 244 then Some UF4
      else None
  | UC1 => if inr 128 191 b then Some U0 else None
  | UC2 => if inr 128 191 b then Some UC1 else None
  | UE0 => if inr 160 191 b then Some UC1 else None
  | UED => if inr 128 159 b then Some UC1 else None
  | UC3 => if inr 128 191 b then Some UC2 else None
  | UF0 => if inr 144 191 b then Some UC2 else None
  | UF4 => if inr 128 143 b then Some UC2 else None
  end.

Fixpoint urun (s : ust) (l : list N) : bool :=
  match l with
  | [] => match s with U0 => true | _ => false end
  | b :: t => match ustep s b with Some s' => urun s' t | None => false end
  end.

Definition utf8_valid (l : list N) : bool := urun U0 l.

Lemma urun_app s a b : urun s a = true -> urun s (a ++ b) = urun U0 b.
Proof.
  revert s; induction a as [|x a IH]; intros s H; cbn in *.
  - destruct s; try discriminate; reflexivity.
  - destruct (ustep s x); try discriminate. now apply IH.
Qed.

Lemma utf8_valid_app a b : utf8_valid a = true -> utf8_valid b = true -> utf8_valid (a ++ b) = true.
Proof. unfold utf8_valid; intros Ha Hb. now rewrite urun_app. Qed.

Definition ascii (l : list N) : bool := forallb (fun b => b <=? 127) l.

Lemma ascii_utf8 l : ascii l = true -> utf8_valid l = true.
Proof.
  unfold utf8_valid. induction l as [|b t IH]; cbn; auto.
  intros H. apply andb_true_iff in H as [Hb Ht]. rewrite Hb. auto.
Qed.

(* char::is_control on a valid string: C0 (00-1F), DEL (7F) and C1 (U+0080..U+009F = C2 80..C2 9F). *)
Fixpoint has_control (l : list N) : bool :=
  match l with
  | [] => false
  | b :: t =>
      if (b <=? 31) || (b =? 127) then true
      else if b =? 194 then
        match t with
        | c :: t' => if inr 128 159 c then true else has_control t'
        | [] => false
        end
      else has_control t
  end.
