(* Codec/CodecDigest.v — digests of the decoders' and encoders' results on a byte list.  Used ONLY by the
   cross-check of the extraction (DESIGN.md 2.2, tools/x_crosscheck.py codec): the same definition is
   evaluated by the extracted OCaml code and by vm_compute inside Coq.  Definitions only. *)
From Anydb Require Import Common.Base Common.LE Gen.Consts Codec.Utf8 Codec.Meta Codec.Vecdb.

Definition cd_two64 : N := 18446744073709551616.
Definition cd_mix (h v : N) : N := (N.lxor h (v mod cd_two64) * 1099511628211) mod cd_two64.
Definition cd_list (h : N) (l : list N) : N := fold_left cd_mix l (cd_mix h (len l)).
Definition cd_h0 : N := 14695981039346656037.

Definition cd_merr (e : meta_err) : N :=
  match e with InvalidMetadataSize => 0 | EmptyMetadata => 1 | CorruptedMetadata => 2 | InvalidRegionId => 3 end.
Definition cd_verr (e : verr) : N :=
  match e with WrongLength => 0 | InvalidFormat => 1 | Overflow => 2 | Underflow => 3 end.

Definition cd_res {E A} (fe : E -> N) (fa : N -> A -> N) (r : res E A) : N :=
  match r with
  | Ok a => fa (cd_mix cd_h0 1) a
  | Err e => cd_mix (cd_mix cd_h0 2) (fe e)
  | Panic => cd_mix cd_h0 3
  end.

Definition cd_meta (h : N) (m : meta) : N :=
  let h := cd_list (cd_list h [m_start m; m_len m; m_reserved m]) (m_id m) in
  (* re-encoding of what was decoded, and the two validity predicates *)
  cd_mix (cd_mix (cd_list h (meta_to_bytes m)) (if valid_new m then 1 else 0)) (if valid_dec m then 1 else 0).

Definition cd_meta_dec (bs : list N) : N := cd_mix (cd_res cd_merr cd_meta (meta_from_bytes bs)) (meta_alloc bs).

Definition cd_fill (bs : list N) : N :=
  cd_res cd_merr (fun h l => fold_left (fun h o => match o with None => cd_mix h 0 | Some m => cd_meta (cd_mix h 1) m end)
                                      l (cd_mix h (len l)))
         (fill_file bs).

Definition cd_hdr_dec (bs : list N) : N :=
  cd_res cd_verr (fun h x => cd_mix (cd_list (cd_list h [h_hv x; h_vv x; h_cv x; h_stamp x; h_format x]) (header_to_bytes x))
                                    (if valid_header x then 1 else 0))
         (header_from_bytes bs).

Definition cd_page_dec (bs : list N) : N :=
  cd_res cd_verr (fun h p => cd_list (cd_list h [p_start p; p_bytes p; p_values p; if page_is_raw p then 1 else 0;
                                                  page_values_count p; page_end p; if valid_page p then 1 else 0])
                                     (page_to_bytes p))
         (page_from_bytes bs).

Definition cd_num_dec (w : nat) (bs : list N) : N :=
  cd_res cd_verr (fun h v => cd_list (cd_mix h v) (num_to_bytes w v)) (num_from_bytes w bs).

Definition cd_arr_dec (n : nat) (bs : list N) : N := cd_res cd_verr cd_list (arr_from_bytes n bs).

Definition cd_utf8 (bs : list N) : N :=
  cd_mix (cd_mix cd_h0 (if utf8_valid bs then 1 else 0)) (if has_control bs then 1 else 0).
