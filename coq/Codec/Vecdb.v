(* Codec/Vecdb.v — vecdb on-disk records: vector header, Format byte, page-index entry,
   numeric / byte-array values (L0).  Transcribed from base/header/inner.rs,
   base/format/bytes.rs, variants/compressed/inner/page/bytes.rs, bytes/{numeric,array}.rs. *)
From Anydb Require Import Common.Base Common.LE Gen.Consts Gen.Sizes.

Inductive verr := WrongLength | InvalidFormat | Overflow | Underflow.

(* ---- numeric values: every width, little endian, value = bit pattern --------------- *)
Definition num_to_bytes (w : nat) (v : N) : list N := le_enc w v.
Definition num_from_bytes (w : nat) (bs : list N) : res verr N :=
  if len bs =? N.of_nat w then Ok (le_dec bs) else Err WrongLength.

(* ---- [u8; n] ------------------------------------------------------------------------ *)
Definition arr_to_bytes (a : list N) : list N := a.
Definition arr_from_bytes (n : nat) (bs : list N) : res verr (list N) :=
  if len bs =? N.of_nat n then Ok bs else Err WrongLength.

(* ---- Format -------------------------------------------------------------------------- *)
Definition format_code_ok (c : N) : bool :=
  (c =? FORMAT_BYTES) || (c =? FORMAT_ZEROCOPY) || (c =? FORMAT_PCO) || (c =? FORMAT_LZ4) || (c =? FORMAT_ZSTD).
Definition format_to_bytes (c : N) : list N := [c].
Definition format_from_bytes (bs : list N) : res verr N :=
  match bs with
  | [b] => if format_code_ok b then Ok b else Err InvalidFormat
  | _ => Err WrongLength
  end.

(* ---- HeaderInner ---------------------------------------------------------------------- *)
Record header := mkHeader { h_hv : N; h_vv : N; h_cv : N; h_stamp : N; h_format : N }.

Definition header_to_bytes (h : header) : list N :=
  enc_u32 (h_hv h) ++ enc_u32 (h_vv h) ++ enc_u32 (h_cv h) ++ enc_u64 (h_stamp h)
  ++ format_to_bytes (h_format h) ++ repeat 0 (N.to_nat (HEADER_OFFSET - HDR_END_FORMAT)).

Definition valid_header (h : header) : bool :=
  (h_hv h <? two32) && (h_vv h <? two32) && (h_cv h <? two32) && (h_stamp h <? two64)
  && format_code_ok (h_format h).

Definition header_from_bytes (bs : list N) : res verr header :=
  if len bs <? HEADER_OFFSET then Err WrongLength else
  let! hv := num_from_bytes 4 (slice HDR_OFF_HEADER_VERSION HDR_END_HEADER_VERSION bs) in
  let! vv := num_from_bytes 4 (slice HDR_OFF_VEC_VERSION HDR_END_VEC_VERSION bs) in
  let! cv := num_from_bytes 4 (slice HDR_OFF_COMPUTED_VERSION HDR_END_COMPUTED_VERSION bs) in
  let! st := num_from_bytes 8 (slice HDR_OFF_STAMP HDR_END_STAMP bs) in
  let! f := format_from_bytes (slice HDR_OFF_FORMAT HDR_END_FORMAT bs) in
  Ok (mkHeader hv vv cv st f).

(* ---- Page -------------------------------------------------------------------------------- *)
Record page := mkPage { p_start : N; p_bytes : N; p_values : N }.   (* p_values carries RAW_FLAG *)

Definition page_to_bytes (p : page) : list N :=
  enc_u64 (p_start p) ++ enc_u32 (p_bytes p) ++ enc_u32 (p_values p).
Definition valid_page (p : page) : bool :=
  (p_start p <? two64) && (p_bytes p <? two32) && (p_values p <? two32).
Definition page_from_bytes (bs : list N) : res verr page :=
  if len bs <? SIZE_OF_PAGE then Err WrongLength else
  let! s := num_from_bytes 8 (slice PAGE_OFF_START PAGE_END_START bs) in
  let! b := num_from_bytes 4 (slice PAGE_OFF_BYTES PAGE_END_BYTES bs) in
  let! v := num_from_bytes 4 (slice PAGE_OFF_VALUES PAGE_END_VALUES bs) in
  Ok (mkPage s b v).

Definition page_is_raw (p : page) : bool := RAW_FLAG <=? p_values p.
Definition page_values_count (p : page) : N := if page_is_raw p then p_values p - RAW_FLAG else p_values p.
Definition page_end (p : page) : N := p_start p + p_bytes p.
