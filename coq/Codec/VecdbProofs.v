(* Codec/VecdbProofs.v — round trip and totality of the vecdb record codecs. *)
From Anydb Require Import Common.Base Common.LE Gen.Consts Gen.Sizes Codec.Vecdb.

(* ---- numeric values, every width ---------------------------------------------------- *)
Theorem num_roundtrip w v : v < 256 ^ N.of_nat w -> num_from_bytes w (num_to_bytes w v) = Ok v.
Proof.
  intros H. unfold num_from_bytes, num_to_bytes. rewrite le_enc_len, N.eqb_refl.
  now rewrite le_dec_enc.
Qed.

Theorem num_total w bs :
  match num_from_bytes w bs with
  | Ok v => v < 256 ^ N.of_nat w \/ bytes_ok bs = false
  | Err e => e = WrongLength /\ len bs <> N.of_nat w
  | Panic => False
  end.
Proof.
  unfold num_from_bytes. destruct (len bs =? N.of_nat w) eqn:E.
  - destruct (bytes_ok bs) eqn:B; [left|now right].
    apply N.eqb_eq in E. rewrite <- E. now apply le_dec_bound.
  - split; auto. lia.
Qed.

(* re-encoding a decoded value gives back the input bytes: no information is lost *)
Theorem num_decode_encode w bs v :
  bytes_ok bs = true -> num_from_bytes w bs = Ok v -> num_to_bytes w v = bs.
Proof.
  unfold num_from_bytes, num_to_bytes. intros B. destruct (len bs =? N.of_nat w) eqn:E; [|discriminate].
  intros [= <-]. apply N.eqb_eq in E. unfold len in E.
  replace w with (length bs) by lia. now apply le_enc_dec.
Qed.

Theorem arr_roundtrip n a : len a = N.of_nat n -> arr_from_bytes n (arr_to_bytes a) = Ok a.
Proof. intros H. unfold arr_from_bytes, arr_to_bytes. now rewrite H, N.eqb_refl. Qed.

Theorem arr_total n bs :
  match arr_from_bytes n bs with
  | Ok a => a = bs /\ len a = N.of_nat n
  | Err e => e = WrongLength
  | Panic => False
  end.
Proof. unfold arr_from_bytes. destruct (len bs =? N.of_nat n) eqn:E; auto. split; auto. lia. Qed.

(* ---- Format -------------------------------------------------------------------------- *)
Theorem format_roundtrip c : format_code_ok c = true -> format_from_bytes (format_to_bytes c) = Ok c.
Proof. intros H. cbn. now rewrite H. Qed.

Theorem format_total bs :
  match format_from_bytes bs with
  | Ok c => format_code_ok c = true
  | Err _ => True
  | Panic => False
  end.
Proof.
  unfold format_from_bytes. destruct bs as [|b [|? ?]]; auto.
  destruct (format_code_ok b) eqn:E; auto.
Qed.

(* the five codes are pairwise distinct (so as u8 / from_bytes are inverse bijections) *)
Lemma format_codes_distinct :
  NoDup [FORMAT_BYTES; FORMAT_ZEROCOPY; FORMAT_PCO; FORMAT_LZ4; FORMAT_ZSTD].
Proof.
  repeat constructor; cbn; intros H;
    repeat (destruct H as [H|H]; [discriminate H|]); exact H.
Qed.

(* ---- Header ---------------------------------------------------------------------------- *)
Lemma hdr_layout :
  HDR_OFF_HEADER_VERSION = 0 /\ HDR_END_HEADER_VERSION = 4 /\ HDR_OFF_VEC_VERSION = 4 /\
  HDR_END_VEC_VERSION = 8 /\ HDR_OFF_COMPUTED_VERSION = 8 /\ HDR_END_COMPUTED_VERSION = 12 /\
  HDR_OFF_STAMP = 12 /\ HDR_END_STAMP = 20 /\ HDR_OFF_FORMAT = 20 /\ HDR_END_FORMAT = 21 /\
  21 <= HEADER_OFFSET.
Proof. repeat split; try reflexivity. now vm_compute. Qed.

Lemma len_enc_u32 v : len (enc_u32 v) = 4.
Proof. unfold enc_u32. now rewrite le_enc_len. Qed.
Lemma len_enc_u64 v : len (enc_u64 v) = 8.
Proof. unfold enc_u64. now rewrite le_enc_len. Qed.

Theorem header_roundtrip h : valid_header h = true -> header_from_bytes (header_to_bytes h) = Ok h.
Proof.
  unfold valid_header. rewrite !andb_true_iff. intros ((((H1 & H2) & H3) & H4) & H5).
  unfold header_from_bytes, header_to_bytes.
  destruct hdr_layout as (-> & -> & -> & -> & -> & -> & -> & -> & -> & -> & HO).
  set (pad := repeat 0 _).
  assert (Hlen : len (enc_u32 (h_hv h) ++ enc_u32 (h_vv h) ++ enc_u32 (h_cv h) ++ enc_u64 (h_stamp h)
                    ++ format_to_bytes (h_format h) ++ pad) = HEADER_OFFSET).
  { rewrite !len_app, !len_enc_u32, len_enc_u64. subst pad. rewrite len_repeat. unfold format_to_bytes.
    rewrite len_cons, len_nil. lia. }
  rewrite Hlen, N.ltb_irrefl.
  (* field 0 *)
  rewrite (slice_prefix 4) by now rewrite len_enc_u32.
  rewrite (slice_app_r 4 8) by (rewrite len_enc_u32; lia). rewrite len_enc_u32.
  change (4 - 4) with 0; change (8 - 4) with 4.
  rewrite (slice_prefix 4) by now rewrite len_enc_u32.
  rewrite (slice_app_r 8 12) by (rewrite len_enc_u32; lia). rewrite len_enc_u32.
  rewrite (slice_app_r (8 - 4)) by (rewrite len_enc_u32; lia). rewrite len_enc_u32.
  change (8 - 4 - 4) with 0; change (12 - 4 - 4) with 4.
  rewrite (slice_prefix 4) by now rewrite len_enc_u32.
  rewrite (slice_app_r 12 20) by (rewrite len_enc_u32; lia). rewrite len_enc_u32.
  rewrite (slice_app_r (12 - 4)) by (rewrite len_enc_u32; lia). rewrite len_enc_u32.
  rewrite (slice_app_r (12 - 4 - 4)) by (rewrite len_enc_u32; lia). rewrite len_enc_u32.
  change (12 - 4 - 4 - 4) with 0; change (20 - 4 - 4 - 4) with 8.
  rewrite (slice_prefix 8) by now rewrite len_enc_u64.
  rewrite (slice_app_r 20 21) by (rewrite len_enc_u32; lia). rewrite len_enc_u32.
  rewrite (slice_app_r (20 - 4)) by (rewrite len_enc_u32; lia). rewrite len_enc_u32.
  rewrite (slice_app_r (20 - 4 - 4)) by (rewrite len_enc_u32; lia). rewrite len_enc_u32.
  rewrite (slice_app_r (20 - 4 - 4 - 4)) by (rewrite len_enc_u64; lia). rewrite len_enc_u64.
  change (20 - 4 - 4 - 4 - 8) with 0; change (21 - 4 - 4 - 4 - 8) with 1.
  rewrite (slice_prefix 1) by reflexivity.
  unfold enc_u32, enc_u64.
  rewrite !num_roundtrip by (try rewrite pow256_4; try rewrite pow256_8; lia).
  cbn [bind]. rewrite format_roundtrip by assumption. cbn [bind].
  destruct h; reflexivity.
Qed.

Theorem header_total bs :
  match header_from_bytes bs with
  | Ok h => bytes_ok bs = true -> valid_header h = true
  | Err _ => True
  | Panic => False
  end.
Proof.
  unfold header_from_bytes.
  destruct hdr_layout as (-> & -> & -> & -> & -> & -> & -> & -> & -> & -> & HO).
  destruct (len bs <? HEADER_OFFSET) eqn:L; [exact I|].
  unfold num_from_bytes. rewrite !len_slice.
  replace (N.min (4 - 0) (len bs - 0) =? N.of_nat 4) with true by lia.
  replace (N.min (8 - 4) (len bs - 4) =? N.of_nat 4) with true by lia.
  replace (N.min (12 - 8) (len bs - 8) =? N.of_nat 4) with true by lia.
  replace (N.min (20 - 12) (len bs - 12) =? N.of_nat 8) with true by lia.
  cbn [bind].
  pose proof (format_total (slice 20 21 bs)) as F.
  destruct (format_from_bytes (slice 20 21 bs)) as [c|e|]; cbn [bind]; auto.
  intros B. unfold valid_header; cbn [h_hv h_vv h_cv h_stamp h_format]. rewrite F, andb_true_r.
  assert (S : forall f t, bytes_ok (slice f t bs) = true).
  { intros. unfold slice. apply bytes_ok_take. now apply bytes_ok_drop. }
  assert (Bd : forall f t w, len (slice f t bs) = N.of_nat w -> le_dec (slice f t bs) < 256 ^ N.of_nat w).
  { intros f t w E. rewrite <- E. apply le_dec_bound, S. }
  pose proof (Bd 0 4 4%nat) as B1. pose proof (Bd 4 8 4%nat) as B2.
  pose proof (Bd 8 12 4%nat) as B3. pose proof (Bd 12 20 8%nat) as B4.
  rewrite pow256_4 in *. rewrite pow256_8 in *.
  rewrite len_slice in *.
  repeat (apply andb_true_iff; split); apply N.ltb_lt;
    [apply B1|apply B2|apply B3|apply B4]; lia.
Qed.

(* ---- Page --------------------------------------------------------------------------------- *)
Lemma page_layout :
  PAGE_OFF_START = 0 /\ PAGE_END_START = 8 /\ PAGE_OFF_BYTES = 8 /\ PAGE_END_BYTES = 12 /\
  PAGE_OFF_VALUES = 12 /\ PAGE_END_VALUES = 16 /\ SIZE_OF_PAGE = 16.
Proof. repeat split; reflexivity. Qed.

Theorem page_roundtrip p : valid_page p = true -> page_from_bytes (page_to_bytes p) = Ok p.
Proof.
  unfold valid_page. rewrite !andb_true_iff. intros ((H1 & H2) & H3).
  unfold page_from_bytes, page_to_bytes.
  destruct page_layout as (-> & -> & -> & -> & -> & -> & ->).
  rewrite !len_app, len_enc_u64, !len_enc_u32. change (8 + (4 + 4) <? 16) with false. cbv iota.
  rewrite (slice_prefix 8) by now rewrite len_enc_u64.
  rewrite (slice_app_r 8 12) by (rewrite len_enc_u64; lia). rewrite len_enc_u64.
  change (8 - 8) with 0; change (12 - 8) with 4.
  rewrite (slice_prefix 4) by now rewrite len_enc_u32.
  rewrite (slice_app_r 12 16) by (rewrite len_enc_u64; lia). rewrite len_enc_u64.
  rewrite (slice_app_r (12 - 8)) by (rewrite len_enc_u32; lia). rewrite len_enc_u32.
  change (12 - 8 - 4) with 0; change (16 - 8 - 4) with 4.
  rewrite (slice_all _ 4) by now rewrite len_enc_u32.
  unfold enc_u32, enc_u64.
  rewrite !num_roundtrip by (try rewrite pow256_4; try rewrite pow256_8; lia).
  cbn [bind]. destruct p; reflexivity.
Qed.

Theorem page_total bs :
  match page_from_bytes bs with
  | Ok p => bytes_ok bs = true -> valid_page p = true
  | Err e => e = WrongLength
  | Panic => False
  end.
Proof.
  unfold page_from_bytes.
  destruct page_layout as (-> & -> & -> & -> & -> & -> & ->).
  destruct (len bs <? 16) eqn:L; [reflexivity|].
  unfold num_from_bytes. rewrite !len_slice.
  replace (N.min (8 - 0) (len bs - 0) =? N.of_nat 8) with true by lia.
  replace (N.min (12 - 8) (len bs - 8) =? N.of_nat 4) with true by lia.
  replace (N.min (16 - 12) (len bs - 12) =? N.of_nat 4) with true by lia.
  cbn [bind]. intros B. unfold valid_page; cbn [p_start p_bytes p_values].
  assert (S : forall f t, bytes_ok (slice f t bs) = true).
  { intros. unfold slice. apply bytes_ok_take. now apply bytes_ok_drop. }
  assert (Bd : forall f t w, len (slice f t bs) = N.of_nat w -> le_dec (slice f t bs) < 256 ^ N.of_nat w).
  { intros f t w E. rewrite <- E. apply le_dec_bound, S. }
  pose proof (Bd 0 8 8%nat) as B1. pose proof (Bd 8 12 4%nat) as B2. pose proof (Bd 12 16 4%nat) as B3.
  rewrite pow256_4 in *. rewrite pow256_8 in *. rewrite len_slice in *.
  repeat (apply andb_true_iff; split); apply N.ltb_lt; [apply B1|apply B2|apply B3]; lia.
Qed.

(* raw flag and count decompose the stored field *)
Lemma page_values_decompose p :
  p_values p < two32 ->
  p_values p = page_values_count p + (if page_is_raw p then RAW_FLAG else 0) /\ page_values_count p < RAW_FLAG.
Proof.
  unfold page_values_count, page_is_raw, two32. intros H.
  assert (RAW_FLAG = 2147483648) by reflexivity.
  destruct (RAW_FLAG <=? p_values p) eqn:E; lia.
Qed.

Example header_example : valid_header (mkHeader 2 4 0 77 65) = true. Proof. now vm_compute. Qed.
Example page_example : valid_page (mkPage 32 100 (RAW_FLAG + 5)) = true. Proof. now vm_compute. Qed.
