(* Codec/Meta.v — rawdb RegionMetadata::{to_bytes, from_bytes} and Regions::fill (L0).
   Transcribed from crates/rawdb/src/region_metadata.rs and regions.rs; the offsets, sizes
   and limits come from Gen/Consts.v (regenerated from the source on every run). *)
From Anydb Require Import Common.Base Common.LE Codec.Utf8 Gen.Consts.

Inductive meta_err := InvalidMetadataSize | EmptyMetadata | CorruptedMetadata | InvalidRegionId.

Record meta := mkMeta { m_start : N; m_len : N; m_reserved : N; m_id : list N }.

Definition meta_to_bytes (m : meta) : list N :=
  enc_u64 (m_start m) ++ enc_u64 (m_len m) ++ enc_u64 (m_reserved m)
  ++ enc_u64 (len (m_id m)) ++ m_id m
  ++ repeat 0 (N.to_nat (SIZE_OF_REGION_METADATA - META_OFF_ID - len (m_id m))).

(* what RegionMetadata::new / validate_id assert *)
Definition valid_new (m : meta) : bool :=
  (m_start m mod PAGE_SIZE =? 0) && (PAGE_SIZE <=? m_reserved m)
  && (m_reserved m mod PAGE_SIZE =? 0) && (m_len m <=? m_reserved m)
  && (0 <? len (m_id m)) && (len (m_id m) <=? MAX_REGION_ID_LEN)
  && utf8_valid (m_id m) && negb (has_control (m_id m))
  && bytes_ok (m_id m)
  && fits64 (m_start m) && fits64 (m_reserved m).

(* the validity rules a decoded value satisfies *)
Definition valid_dec (m : meta) : bool :=
  (m_start m mod PAGE_SIZE =? 0) && (PAGE_SIZE <=? m_reserved m)
  && (m_reserved m mod PAGE_SIZE =? 0) && (m_len m <=? m_reserved m)
  && (len (m_id m) <=? MAX_REGION_ID_LEN) && utf8_valid (m_id m).

Definition field (off fin : N) (bs : list N) : N := le_dec (slice off fin bs).

Definition meta_from_bytes (bs : list N) : res meta_err meta :=
  if negb (len bs =? SIZE_OF_REGION_METADATA) then Err InvalidMetadataSize else
  let start := field META_OFF_START META_END_START bs in
  let ln := field META_OFF_LEN META_END_LEN bs in
  let reserved := field META_OFF_RESERVED META_END_RESERVED bs in
  let id_len := field META_OFF_ID_LEN META_END_ID_LEN bs in
  if (start =? 0) && (ln =? 0) && (reserved =? 0) && (id_len =? 0) then Err EmptyMetadata else
  if MAX_REGION_ID_LEN <? id_len then Err CorruptedMetadata else
  if SIZE_OF_REGION_METADATA <? META_OFF_ID + id_len then Err CorruptedMetadata else
  let id := slice META_OFF_ID (META_OFF_ID + id_len) bs in
  if negb (utf8_valid id) then Err InvalidRegionId else
  if negb (start mod PAGE_SIZE =? 0) then Err CorruptedMetadata else
  if reserved <? PAGE_SIZE then Err CorruptedMetadata else
  if negb (reserved mod PAGE_SIZE =? 0) then Err CorruptedMetadata else
  if reserved <? ln then Err CorruptedMetadata else
  Ok (mkMeta start ln reserved id).

(* heap allocation requested by from_bytes: the id copy (bytes[32..32+id_len].to_vec()) *)
Definition meta_alloc (bs : list N) : N :=
  if negb (len bs =? SIZE_OF_REGION_METADATA) then 0 else
  let id_len := field META_OFF_ID_LEN META_END_ID_LEN bs in
  if MAX_REGION_ID_LEN <? id_len then 0 else id_len.

(* Regions::fill: slot i of the regions file is decoded; invalid slots are skipped *)
Fixpoint chunks_fuel {A} (fuel : nat) (sz : N) (l : list A) : list (list A) :=
  match fuel with
  | O => []
  | S k => match l with [] => [] | _ => take sz l :: chunks_fuel k sz (drop sz l) end
  end.

Definition fill_slot (slot : list N) : option meta :=
  match meta_from_bytes slot with Ok m => Some m | _ => None end.

Definition fill (slots : list (list N)) : list (option meta) := map fill_slot slots.

(* Regions::fill on the flat regions file *)
Definition slot_of (bs : list N) (i : N) : list N :=
  slice (i * SIZE_OF_REGION_METADATA) ((i + 1) * SIZE_OF_REGION_METADATA) bs.

Definition fill_file (bs : list N) : res meta_err (list (option meta)) :=
  if negb (len bs mod SIZE_OF_REGION_METADATA =? 0) then Err CorruptedMetadata
  else Ok (map (fun i => fill_slot (slot_of bs i))
               (seqN 0 (N.to_nat (len bs / SIZE_OF_REGION_METADATA)))).

Definition fill_get (bs : list N) (i : N) : option meta :=
  match fill_file bs with
  | Ok l => match get l i with Some o => o | None => None end
  | _ => None
  end.

