(* Codec/MetaProofs.v — round trip, totality, allocation bound and frame property of the
   region-metadata codec.  The constants are used through the facts below, which are
   re-checked against Gen/Consts.v (i.e. against the source) on every run. *)
From Anydb Require Import Common.Base Common.LE Codec.Utf8 Gen.Consts Codec.Meta.

(* --- facts about the generated constants the proofs rely on ------------------------ *)
Lemma check_order : META_CHECK_ORDER_AS_MODELLED = true. Proof. reflexivity. Qed.
Lemma page_pos : 0 < PAGE_SIZE. Proof. reflexivity. Qed.
Lemma meta_layout :
  META_OFF_START = 0 /\ META_END_START = 8 /\ META_OFF_LEN = 8 /\ META_END_LEN = 16 /\
  META_OFF_RESERVED = 16 /\ META_END_RESERVED = 24 /\ META_OFF_ID_LEN = 24 /\
  META_END_ID_LEN = 32 /\ META_OFF_ID = 32.
Proof. repeat split; reflexivity. Qed.
Lemma id_fits : 32 + MAX_REGION_ID_LEN <= SIZE_OF_REGION_METADATA.
Proof. now vm_compute. Qed.
Lemma size_fits64 : SIZE_OF_REGION_METADATA < two64. Proof. reflexivity. Qed.

Opaque PAGE_SIZE SIZE_OF_REGION_METADATA MAX_REGION_ID_LEN.

Ltac layout := destruct meta_layout as (-> & -> & -> & -> & -> & -> & -> & -> & ->).

Lemma len_enc_u64 v : len (enc_u64 v) = 8.
Proof. unfold enc_u64. now rewrite le_enc_len. Qed.

(* --- field extraction from an encoding ---------------------------------------------- *)
Section Fields.
  Variables (a b c d : N) (id pad : list N).
  Let bs := enc_u64 a ++ enc_u64 b ++ enc_u64 c ++ enc_u64 d ++ id ++ pad.

  Lemma f0 : slice 0 8 bs = enc_u64 a.
  Proof. subst bs. apply slice_prefix. now rewrite len_enc_u64. Qed.
  Lemma f1 : slice 8 16 bs = enc_u64 b.
  Proof.
    subst bs. rewrite slice_app_r by (rewrite len_enc_u64; lia). rewrite len_enc_u64.
    change (8 - 8) with 0. change (16 - 8) with 8. apply slice_prefix. now rewrite len_enc_u64.
  Qed.
  Lemma f2 : slice 16 24 bs = enc_u64 c.
  Proof.
    subst bs. do 2 (rewrite slice_app_r by (rewrite len_enc_u64; lia); rewrite len_enc_u64).
    change (16 - 8 - 8) with 0. change (24 - 8 - 8) with 8. apply slice_prefix. now rewrite len_enc_u64.
  Qed.
  Lemma f3 : slice 24 32 bs = enc_u64 d.
  Proof.
    subst bs. do 3 (rewrite slice_app_r by (rewrite len_enc_u64; lia); rewrite len_enc_u64).
    change (24 - 8 - 8 - 8) with 0. change (32 - 8 - 8 - 8) with 8. apply slice_prefix. now rewrite len_enc_u64.
  Qed.
  Lemma f4 : slice 32 (32 + len id) bs = id.
  Proof.
    subst bs. do 4 (rewrite slice_app_r by (rewrite len_enc_u64; lia); rewrite len_enc_u64).
    replace (32 - 8 - 8 - 8 - 8) with 0 by lia.
    replace (32 + len id - 8 - 8 - 8 - 8) with (len id) by lia.
    now apply slice_prefix.
  Qed.
  Lemma flen : len bs = 32 + len id + len pad.
  Proof. subst bs. rewrite !len_app, !len_enc_u64. lia. Qed.
End Fields.

Lemma le_fits64 a b : a <=? b = true -> fits64 b = true -> a < two64.
Proof. unfold fits64. lia. Qed.

(* --- C17: round trip ---------------------------------------------------------------- *)
Theorem meta_roundtrip m : valid_new m = true -> meta_from_bytes (meta_to_bytes m) = Ok m.
Proof.
  unfold valid_new. intros H.
  rewrite !andb_true_iff in H.
  destruct H as ((((((((((Hsal & Hrmin) & Hral) & Hlr) & Hidpos) & Hidmax) & Hu) & Hc) & Hbok) & Hs64) & Hr64).
  pose proof id_fits as Hfit. pose proof page_pos as Hpp. pose proof size_fits64 as Hsz64.
  assert (Hl64 : m_len m < two64) by (eapply le_fits64; eauto).
  unfold fits64 in *.
  unfold meta_from_bytes, meta_to_bytes, field. layout.
  set (pad := repeat 0 _).
  rewrite flen. subst pad. rewrite len_repeat.
  replace (32 + len (m_id m) + N.of_nat (N.to_nat (SIZE_OF_REGION_METADATA - 32 - len (m_id m))))
    with SIZE_OF_REGION_METADATA by lia.
  rewrite N.eqb_refl. cbn [negb].
  rewrite f0, f1, f2, f3.
  rewrite !dec_enc_u64 by lia.
  rewrite f4, Hu. cbn [negb].
  replace (m_reserved m =? 0) with false by lia.
  rewrite !andb_false_r, andb_false_l.
  replace (MAX_REGION_ID_LEN <? len (m_id m)) with false by lia.
  replace (SIZE_OF_REGION_METADATA <? 32 + len (m_id m)) with false by lia.
  rewrite Hsal, Hral. cbn [negb].
  replace (m_reserved m <? PAGE_SIZE) with false by lia.
  replace (m_reserved m <? m_len m) with false by lia.
  destruct m; reflexivity.
Qed.

(* --- C17: totality — an error or a valid value, never a panic ----------------------- *)
Theorem meta_total bs :
  match meta_from_bytes bs with
  | Ok m => valid_dec m = true
  | Err _ => True
  | Panic => False
  end.
Proof.
  unfold meta_from_bytes.
  repeat match goal with
  | |- match (if ?c then _ else _) with _ => _ end => destruct c eqn:?; [exact I|]
  end.
  unfold valid_dec; cbn [m_start m_len m_reserved m_id].
  repeat match goal with H : negb _ = false |- _ => apply negb_false_iff in H end.
  rewrite len_slice.
  repeat (apply andb_true_iff; split); auto; lia.
Qed.

Corollary meta_never_panics bs : is_panic (meta_from_bytes bs) = false.
Proof. pose proof (meta_total bs). destruct (meta_from_bytes bs); auto; contradiction. Qed.

(* --- C17: allocation bound ---------------------------------------------------------- *)
Theorem meta_alloc_bounded bs : meta_alloc bs <= len bs.
Proof.
  unfold meta_alloc. pose proof id_fits.
  destruct (negb (len bs =? SIZE_OF_REGION_METADATA)) eqn:Hsz; [lia|].
  destruct (MAX_REGION_ID_LEN <? _) eqn:Hid; lia.
Qed.

(* --- Regions::fill on the flat regions file ---------------------------------------- *)
Lemma get_map_seqN {B} (f : N -> B) n i : i < N.of_nat n -> get (map f (seqN 0 n)) i = Some (f i).
Proof.
  unfold get. intros H.
  assert (G : forall from k, (k < n)%nat -> nth_opt (map f (seqN from n)) k = Some (f (from + N.of_nat k))).
  { clear. induction n; intros from k Hk; [lia|].
    destruct k; cbn [seqN map nth_opt].
    - f_equal. f_equal. lia.
    - rewrite IHn by lia. f_equal. f_equal. lia. }
  rewrite G by lia. f_equal. f_equal. lia.
Qed.

(* frame property: slot i decodes from its own 4096 bytes only; garbage or zeroed bytes
   in any other slot neither hide nor alter it, and an invalid slot yields None (skipped). *)
Theorem fill_frame bs bs' i :
  len bs = len bs' -> slot_of bs i = slot_of bs' i -> fill_get bs i = fill_get bs' i.
Proof.
  intros Hl Hs. unfold fill_get, fill_file. rewrite <- Hl.
  destruct (negb (_ =? 0)); auto.
  destruct (N.lt_ge_cases i (len bs / SIZE_OF_REGION_METADATA)) as [Hi|Hi].
  - rewrite !get_map_seqN by lia. now rewrite Hs.
  - assert (G : forall (f : N -> option meta) n, N.of_nat n <= i -> get (map f (seqN 0 n)) i = None).
    { clear. intros f n H. unfold get.
      rewrite nth_opt_nth_error. apply nth_error_None. rewrite map_length, seqN_length. lia. }
    rewrite !G by lia. reflexivity.
Qed.

Theorem fill_skips_invalid bs i :
  i < len bs / SIZE_OF_REGION_METADATA -> len bs mod SIZE_OF_REGION_METADATA = 0 ->
  fill_get bs i = match meta_from_bytes (slot_of bs i) with Ok m => Some m | _ => None end.
Proof.
  intros Hi Hm. unfold fill_get, fill_file. rewrite Hm. cbn [N.eqb negb].
  rewrite N.eqb_refl. cbn [negb]. rewrite get_map_seqN by lia. reflexivity.
Qed.

(* non-vacuity: a concrete valid entry *)
Example valid_example :
  valid_new (mkMeta 8192 5 4096 [97; 98; 99]) = true.
Proof. now vm_compute. Qed.
