(* Lazy/LazyFromProofs.v — PROOF file: every read path of LazyVecFrom1/2/3 equals the defining formula
   `compute(i, s1[i], …)` over the in-range indices, for all sources (any lengths, equal or not), all
   counting flags, all ranges and all sorted index lists.  No read path can panic (the results are
   plain lists/options: there is no Panic in their type). *)
From Coq Require Import Sorting.Sorted.
From Anydb Require Import Common.Base Lazy.LazyBase Lazy.LazyBaseProofs Lazy.LazyFrom.

(* the defining formulas: defined where every source has the index *)
Definition F1 {A B} (f : N -> A -> B) (s : list A) (i : N) : option B :=
  match get s i with Some v => Some (f i v) | None => None end.
Definition F2 {A1 A2 B} (f : N -> A1 -> A2 -> B) (s1 : list A1) (s2 : list A2) (i : N) : option B :=
  match get s1 i, get s2 i with Some a, Some b => Some (f i a b) | _, _ => None end.
Definition F3 {A1 A2 A3 B} (f : N -> A1 -> A2 -> A3 -> B) (s1 : list A1) (s2 : list A2) (s3 : list A3) (i : N)
  : option B :=
  match get s1 i, get s2 i, get s3 i with Some a, Some b, Some c => Some (f i a b c) | _, _, _ => None end.

(* the index list of a range request against a vector of length n *)
Definition range_idx (n from to : N) : list N := seqN from (N.to_nat (N.min to n - from)).

Lemma src_range_as_ovals {A} (s : list A) from to :
  src_range s from to = ovals (get s) (seqN from (N.to_nat (to - from))).
Proof.
  destruct (N.le_gt_cases to from) as [H|H].
  - rewrite src_range_nil by exact H. replace (N.to_nat (to - from)) with O by lia. reflexivity.
  - rewrite <- src_range_ovals. f_equal. lia.
Qed.

Lemma ovals_get_none_from {A} (s : list A) from n : get s from = None -> ovals (get s) (seqN from n) = [].
Proof.
  intros G. apply ovals_none. intros i Hi. apply in_seqN in Hi.
  apply get_none_iff. apply get_none_iff in G. lia.
Qed.
Lemma ovals_get_none_sorted {A} (s : list A) i tl :
  get s i = None -> Forall (N.le i) tl -> ovals (get s) tl = [].
Proof.
  intros G H. apply ovals_none. intros j Hj. rewrite Forall_forall in H. specialize (H j Hj).
  apply get_none_iff. apply get_none_iff in G. lia.
Qed.

(* ---------------------------------------------------------------- From1 *)
Section P1.
  Context {A B : Type} (f : N -> A -> B) (s : list A).

  Lemma F1_none_from from n : get s from = None -> ovals (F1 f s) (seqN from n) = [].
  Proof.
    intros G. apply ovals_none. intros i Hi. apply in_seqN in Hi. unfold F1.
    assert (E : get s i = None) by (apply get_none_iff; apply get_none_iff in G; lia). now rewrite E.
  Qed.

  Lemma mapi_ovals1 n from :
    mapi_from from f (ovals (get s) (seqN from n)) = ovals (F1 f s) (seqN from n).
  Proof.
    revert from; induction n as [|n IH]; intros from; [reflexivity|].
    cbn [seqN]. rewrite !ovals_cons. unfold F1 at 1. destruct (get s from) as [v|] eqn:G.
    - cbn [mapi_from]. f_equal. apply IH.
    - assert (G' : get s (from + 1) = None) by (apply get_none_iff; apply get_none_iff in G; lia).
      rewrite ovals_get_none_from, F1_none_from by exact G'. reflexivity.
  Qed.

  Lemma f1_for_each_spec from to : f1_for_each f s from to = ovals (F1 f s) (range_idx (f1_len s) from to).
  Proof. unfold f1_for_each, range_idx. cbv zeta. rewrite src_range_as_ovals. apply mapi_ovals1. Qed.
  Lemma f1_read_into_spec from to : f1_read_into f s from to = ovals (F1 f s) (range_idx (f1_len s) from to).
  Proof.
    unfold f1_read_into. cbv zeta. rewrite f1_for_each_spec. unfold range_idx. f_equal. f_equal. lia.
  Qed.
  Lemma f1_try_fold_spec from to : f1_try_fold f s from to = ovals (F1 f s) (range_idx (f1_len s) from to).
  Proof.
    unfold f1_try_fold, range_idx. cbv zeta. destruct (N.min to (f1_len s) <=? from) eqn:E.
    - replace (N.to_nat (N.min to (f1_len s) - from)) with O by lia. reflexivity.
    - rewrite src_range_as_ovals. apply mapi_ovals1.
  Qed.
  Lemma f1_one_spec i : f1_one f s i = F1 f s i.
  Proof. unfold f1_one, src_one, F1. now rewrite getb_get. Qed.
  Lemma F1_out_of_range i : f1_len s <= i -> F1 f s i = None.
  Proof. intros H. unfold F1. apply get_none_iff in H. now rewrite H. Qed.

  Lemma f1_sorted_spec idx : StronglySorted N.le idx -> f1_sorted f s idx = ovals (F1 f s) idx.
  Proof.
    unfold f1_sorted. rewrite src_sorted_ovals.
    induction 1 as [|i tl Hs IH Hall]; [reflexivity|].
    rewrite !ovals_cons. unfold F1 at 1. destruct (get s i) as [v|] eqn:G.
    - cbn [combine map fst snd]. f_equal. exact IH.
    - rewrite (ovals_get_none_sorted s i tl G Hall). cbn [combine map].
      symmetry. apply ovals_none. intros j Hj. rewrite Forall_forall in Hall. specialize (Hall j Hj).
      unfold F1. assert (E : get s j = None) by (apply get_none_iff; apply get_none_iff in G; lia). now rewrite E.
  Qed.
End P1.

(* ---------------------------------------------------------------- From2 *)
Section P2.
  Context {A1 A2 B : Type} (f : N -> A1 -> A2 -> B) (c1 c2 : bool) (s1 : list A1) (s2 : list A2).

  Lemma F2_none_ge i j : i <= j -> get s1 i = None \/ get s2 i = None -> F2 f s1 s2 j = None.
  Proof.
    intros Hij [G|G]; apply get_none_iff in G; unfold F2.
    - assert (E : get s1 j = None) by (apply get_none_iff; lia). now rewrite E.
    - assert (E : get s2 j = None) by (apply get_none_iff; lia). rewrite E. now destruct (get s1 j).
  Qed.

  Lemma mapi_ovals2 n from :
    mapi_from from (fun i p => f i (fst p) (snd p))
      (combine (ovals (get s1) (seqN from n)) (ovals (get s2) (seqN from n)))
    = ovals (F2 f s1 s2) (seqN from n).
  Proof.
    revert from; induction n as [|n IH]; intros from; [reflexivity|].
    cbn [seqN]. rewrite !ovals_cons. unfold F2 at 1.
    destruct (get s1 from) as [a|] eqn:G1; [destruct (get s2 from) as [b|] eqn:G2|].
    - cbn [combine mapi_from fst snd]. f_equal. apply IH.
    - assert (G' : get s2 (from + 1) = None) by (apply get_none_iff; apply get_none_iff in G2; lia).
      rewrite (ovals_get_none_from s2) by exact G'. 
      replace (combine (a :: ovals (get s1) (seqN (from + 1) n)) []) with (@nil (A1 * A2)) by reflexivity.
      cbn [mapi_from]. symmetry. apply ovals_none. intros j Hj. apply in_seqN in Hj.
      apply (F2_none_ge from); [lia|now right].
    - assert (G' : get s1 (from + 1) = None) by (apply get_none_iff; apply get_none_iff in G1; lia).
      rewrite (ovals_get_none_from s1) by exact G'. cbn [combine mapi_from].
      symmetry. apply ovals_none. intros j Hj. apply in_seqN in Hj.
      apply (F2_none_ge from); [lia|now left].
  Qed.

  Let L := f2_len c1 c2 s1 s2.

  Lemma f2_for_each_spec from to : f2_for_each f c1 c2 s1 s2 from to = ovals (F2 f s1 s2) (range_idx L from to).
  Proof. unfold f2_for_each, range_idx. cbv zeta. rewrite !src_range_as_ovals. apply mapi_ovals2. Qed.
  Lemma f2_read_into_spec from to : f2_read_into f c1 c2 s1 s2 from to = ovals (F2 f s1 s2) (range_idx L from to).
  Proof.
    unfold f2_read_into. cbv zeta. rewrite f2_for_each_spec. unfold range_idx, L. f_equal. f_equal. lia.
  Qed.
  Lemma f2_try_fold_spec from to : f2_try_fold f c1 c2 s1 s2 from to = ovals (F2 f s1 s2) (range_idx L from to).
  Proof.
    unfold f2_try_fold, range_idx, L. cbv zeta. destruct (N.min to (f2_len c1 c2 s1 s2) <=? from) eqn:E.
    - replace (N.to_nat (N.min to (f2_len c1 c2 s1 s2) - from)) with O by lia. reflexivity.
    - rewrite !src_range_as_ovals. apply mapi_ovals2.
  Qed.
  Lemma f2_one_spec i : f2_one f c1 c2 s1 s2 i = if i <? L then F2 f s1 s2 i else None.
  Proof.
    unfold f2_one, src_one, F2, L. rewrite !getb_get.
    destruct (f2_len c1 c2 s1 s2 <=? i) eqn:E.
    - replace (i <? f2_len c1 c2 s1 s2) with false by lia. reflexivity.
    - replace (i <? f2_len c1 c2 s1 s2) with true by lia. destruct (get s1 i); reflexivity.
  Qed.
  (* when every source governs the length, the formula is defined exactly below len() *)
  Lemma F2_defined i : c1 = true -> c2 = true -> i < L -> exists v, F2 f s1 s2 i = Some v.
  Proof.
    unfold L, f2_len. intros -> -> H.
    destruct (get_lt_some s1 i) as [a Ga]; [lia|]. destruct (get_lt_some s2 i) as [b Gb]; [lia|].
    unfold F2. rewrite Ga, Gb. eauto.
  Qed.
  Lemma F2_out_of_range i :
    len s1 <= usize_max -> len s2 <= usize_max ->          (* vector lengths are usize values *)
    (c1 = true \/ c2 = true) -> L <= i -> F2 f s1 s2 i = None.
  Proof.
    unfold L, f2_len. intros Hl1 Hl2 Hc H. apply (F2_none_ge i); [lia|].
    destruct c1, c2; try (destruct Hc; discriminate); cbv beta iota in H.
    - destruct (N.le_gt_cases (len s1) i); [left|right]; apply get_none_iff; lia.
    - left. apply get_none_iff. lia.
    - right. apply get_none_iff. lia.
  Qed.

  Lemma f2_sorted_spec idx : StronglySorted N.le idx -> f2_sorted f s1 s2 idx = ovals (F2 f s1 s2) idx.
  Proof.
    unfold f2_sorted. cbv zeta. rewrite !src_sorted_ovals.
    induction 1 as [|i tl Hs IH Hall]; [reflexivity|].
    rewrite !ovals_cons. unfold F2 at 1.
    assert (Hnone : get s1 i = None \/ get s2 i = None -> ovals (F2 f s1 s2) tl = []).
    { intros Hn. apply ovals_none. intros j Hj. rewrite Forall_forall in Hall. specialize (Hall j Hj).
      apply (F2_none_ge i); assumption. }
    destruct (get s1 i) as [a|] eqn:G1; [destruct (get s2 i) as [b|] eqn:G2|].
    - cbn [combine map fst snd]. f_equal. exact IH.
    - rewrite (ovals_get_none_sorted s2 i tl G2 Hall).
      replace (combine (a :: ovals (get s1) tl) []) with (@nil (A1 * A2)) by reflexivity.
      cbn [combine map]. symmetry. apply Hnone. now right.
    - rewrite (ovals_get_none_sorted s1 i tl G1 Hall). cbn [combine map].
      symmetry. apply Hnone. now left.
  Qed.
End P2.

(* ---------------------------------------------------------------- From3 *)
Section P3.
  Context {A1 A2 A3 B : Type} (f : N -> A1 -> A2 -> A3 -> B) (c1 c2 c3 : bool)
          (s1 : list A1) (s2 : list A2) (s3 : list A3).

  Lemma F3_none_ge i j :
    i <= j -> get s1 i = None \/ get s2 i = None \/ get s3 i = None -> F3 f s1 s2 s3 j = None.
  Proof.
    intros Hij [G|[G|G]]; apply get_none_iff in G; unfold F3.
    - assert (E : get s1 j = None) by (apply get_none_iff; lia). now rewrite E.
    - assert (E : get s2 j = None) by (apply get_none_iff; lia). rewrite E. now destruct (get s1 j).
    - assert (E : get s3 j = None) by (apply get_none_iff; lia). rewrite E.
      destruct (get s1 j); [destruct (get s2 j)|]; reflexivity.
  Qed.

  Lemma mapi_ovals3 n from :
    mapi_from from (fun i p => f i (fst (fst p)) (snd (fst p)) (snd p))
      (combine (combine (ovals (get s1) (seqN from n)) (ovals (get s2) (seqN from n))) (ovals (get s3) (seqN from n)))
    = ovals (F3 f s1 s2 s3) (seqN from n).
  Proof.
    revert from; induction n as [|n IH]; intros from; [reflexivity|].
    cbn [seqN]. rewrite !ovals_cons. unfold F3 at 1.
    assert (Hnone : get s1 from = None \/ get s2 from = None \/ get s3 from = None ->
                    ovals (F3 f s1 s2 s3) (seqN (from + 1) n) = []).
    { intros Hn. apply ovals_none. intros j Hj. apply in_seqN in Hj. apply (F3_none_ge from); [lia|exact Hn]. }
    assert (Hs : forall {X} (s : list X), get s from = None -> ovals (get s) (seqN (from + 1) n) = []).
    { intros X s G. apply ovals_get_none_from. apply get_none_iff. apply get_none_iff in G. lia. }
    destruct (get s1 from) as [a|] eqn:G1; [destruct (get s2 from) as [b|] eqn:G2; [destruct (get s3 from) as [c|] eqn:G3|]|].
    - cbn [combine mapi_from fst snd]. f_equal. apply IH.
    - rewrite (Hs _ s3 G3), Hnone by auto.
      cbn [combine]. destruct (combine (ovals (get s1) (seqN (from + 1) n)) (ovals (get s2) (seqN (from + 1) n))); reflexivity.
    - rewrite (Hs _ s2 G2), Hnone by auto. reflexivity.
    - rewrite (Hs _ s1 G1), Hnone by auto. reflexivity.
  Qed.

  Let L := f3_len c1 c2 c3 s1 s2 s3.

  Lemma f3_for_each_spec from to :
    f3_for_each f c1 c2 c3 s1 s2 s3 from to = ovals (F3 f s1 s2 s3) (range_idx L from to).
  Proof. unfold f3_for_each, range_idx. cbv zeta. rewrite !src_range_as_ovals. apply mapi_ovals3. Qed.
  Lemma f3_read_into_spec from to :
    f3_read_into f c1 c2 c3 s1 s2 s3 from to = ovals (F3 f s1 s2 s3) (range_idx L from to).
  Proof.
    unfold f3_read_into. cbv zeta. rewrite f3_for_each_spec. unfold range_idx, L. f_equal. f_equal. lia.
  Qed.
  Lemma f3_try_fold_spec from to :
    f3_try_fold f c1 c2 c3 s1 s2 s3 from to = ovals (F3 f s1 s2 s3) (range_idx L from to).
  Proof.
    unfold f3_try_fold, range_idx, L. cbv zeta. destruct (N.min to (f3_len c1 c2 c3 s1 s2 s3) <=? from) eqn:E.
    - replace (N.to_nat (N.min to (f3_len c1 c2 c3 s1 s2 s3) - from)) with O by lia. reflexivity.
    - rewrite !src_range_as_ovals. apply mapi_ovals3.
  Qed.
  Lemma f3_one_spec i : f3_one f c1 c2 c3 s1 s2 s3 i = if i <? L then F3 f s1 s2 s3 i else None.
  Proof.
    unfold f3_one, src_one, F3, L. rewrite !getb_get.
    destruct (f3_len c1 c2 c3 s1 s2 s3 <=? i) eqn:E.
    - replace (i <? f3_len c1 c2 c3 s1 s2 s3) with false by lia. reflexivity.
    - replace (i <? f3_len c1 c2 c3 s1 s2 s3) with true by lia.
      destruct (get s1 i); [destruct (get s2 i)|]; reflexivity.
  Qed.
  Lemma F3_defined i : c1 = true -> c2 = true -> c3 = true -> i < L -> exists v, F3 f s1 s2 s3 i = Some v.
  Proof.
    unfold L, f3_len. intros -> -> -> H.
    destruct (get_lt_some s1 i) as [a Ga]; [lia|]. destruct (get_lt_some s2 i) as [b Gb]; [lia|].
    destruct (get_lt_some s3 i) as [c Gc]; [lia|].
    unfold F3. rewrite Ga, Gb, Gc. eauto.
  Qed.

  Lemma f3_sorted_spec idx :
    StronglySorted N.le idx -> f3_sorted f s1 s2 s3 idx = ovals (F3 f s1 s2 s3) idx.
  Proof.
    unfold f3_sorted. cbv zeta. rewrite !src_sorted_ovals.
    induction 1 as [|i tl Hs IH Hall]; [reflexivity|].
    rewrite !ovals_cons. unfold F3 at 1.
    assert (Hnone : get s1 i = None \/ get s2 i = None \/ get s3 i = None -> ovals (F3 f s1 s2 s3) tl = []).
    { intros Hn. apply ovals_none. intros j Hj. rewrite Forall_forall in Hall. specialize (Hall j Hj).
      apply (F3_none_ge i); assumption. }
    destruct (get s1 i) as [a|] eqn:G1; [destruct (get s2 i) as [b|] eqn:G2; [destruct (get s3 i) as [c|] eqn:G3|]|].
    - cbn [combine map fst snd]. f_equal. exact IH.
    - rewrite (ovals_get_none_sorted s3 i tl G3 Hall), Hnone by auto.
      cbn [combine]. destruct (combine (ovals (get s1) tl) (ovals (get s2) tl)); reflexivity.
    - rewrite (ovals_get_none_sorted s2 i tl G2 Hall), Hnone by auto. reflexivity.
    - rewrite (ovals_get_none_sorted s1 i tl G1 Hall), Hnone by auto. reflexivity.
  Qed.
End P3.


(* ---------------------------------------------------------------- cursor().get over FromN vectors
   (all sources governing the length: the formula is defined exactly below len()) *)
Lemma from1_cursor_spec {A B} (f : N -> A -> B) s idx :
  cursor_gets (f1_len s) (fun a b => Ok (f1_read_into f s a b)) cursor_new idx = Ok (map (F1 f s) idx).
Proof.
  apply (cursor_gets_spec (f1_len s) (F1 f s)); [| | |apply cinv_new].
  - intros i Hi. unfold f1_len in Hi. destruct (get_lt_some s i Hi) as [v Hv]. unfold F1. rewrite Hv. eauto.
  - apply F1_out_of_range.
  - intros a b. now rewrite f1_read_into_spec.
Qed.
Lemma from2_cursor_spec {A1 A2 B} (f : N -> A1 -> A2 -> B) s1 s2 idx :
  len s1 <= usize_max -> len s2 <= usize_max ->
  cursor_gets (f2_len true true s1 s2) (fun a b => Ok (f2_read_into f true true s1 s2 a b)) cursor_new idx
  = Ok (map (F2 f s1 s2) idx).
Proof.
  intros H1 H2. apply (cursor_gets_spec (f2_len true true s1 s2) (F2 f s1 s2)); [| | |apply cinv_new].
  - intros i Hi. now apply (F2_defined f true true).
  - intros i Hi. apply (F2_out_of_range f true true); auto.
  - intros a b. now rewrite f2_read_into_spec.
Qed.
Lemma from3_cursor_spec {A1 A2 A3 B} (f : N -> A1 -> A2 -> A3 -> B) s1 s2 s3 idx :
  cursor_gets (f3_len true true true s1 s2 s3) (fun a b => Ok (f3_read_into f true true true s1 s2 s3 a b)) cursor_new idx
  = Ok (map (F3 f s1 s2 s3) idx).
Proof.
  apply (cursor_gets_spec (f3_len true true true s1 s2 s3) (F3 f s1 s2 s3)); [| | |apply cinv_new].
  - intros i Hi. now apply (F3_defined f true true true).
  - intros i Hi. unfold f3_len in Hi. apply (F3_none_ge f s1 s2 s3 i i); [lia|].
    destruct (N.le_gt_cases (len s1) i); [left; apply get_none_iff; lia|].
    destruct (N.le_gt_cases (len s2) i); [right; left; apply get_none_iff; lia|].
    right; right. apply get_none_iff. lia.
  - intros a b. now rewrite f3_read_into_spec.
Qed.

(* the hypotheses are satisfiable: unequal lengths, a non-governing source *)
Example from2_example :
  f2_read_into (fun i a b => (Z.of_N i + a * b)%Z) true false [1;2;3]%Z [10;20]%Z 0 9 = [10; 41]%Z.
Proof. vm_compute. reflexivity. Qed.
