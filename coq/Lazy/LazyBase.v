(* Lazy/LazyBase.v — shared part of the C15 models (L6, lazy vectors): MODEL file, definitions only.

   * element evaluation results `ev` (a value or a panic) and the two ways a stream of them is
     consumed (to the end / with early exit after k accepted elements);
   * the contract of a stored source as the lazy vectors use it (a clean BytesVec/PcoVec without
     holes, seen through its read-only clone): `len`, `collect_range_dyn`, `collect_one_at`,
     `read_sorted_at`.  These four are ASSUMED of the sources (they are C08's subject) and are
     validated by the differential runs against real BytesVec / PcoVec sources;
   * integer element arithmetic of u64 / i64 / u32 on Z (wrapping, checked);
   * the default methods of `ReadableVec` (traits/readable.rs) and `Cursor` (cursor.rs), written
     over the overridable primitives, transcribed branch for branch. *)
From Anydb Require Import Common.Base Gen.LazyConsts.

(* ---- one element of a lazily evaluated range: a value, or the evaluation panics ---------- *)
Inductive ev (A : Type) : Type := EV (a : A) | EP.
Arguments EV {A} a.
Arguments EP {A}.

(* bounds-checked indexing: like Base.get, but never converts an out-of-range index to nat *)
Definition getb {A} (l : list A) (i : N) : option A := if i <? len l then get l i else None.

(* consuming the whole stream: the first EP is a panic of the whole call *)
Fixpoint run_all {A} (l : list (ev A)) : res unit (list A) :=
  match l with
  | [] => Ok []
  | EV a :: t => match run_all t with Ok r => Ok (a :: r) | Err e => Err e | Panic => Panic end
  | EP :: _ => Panic
  end.

(* try_fold with a closure that accepts k elements and returns Err on the next one: element
   number k (0-based) is still evaluated before the closure sees it. *)
Definition run_stop {A} (k : N) (l : list (ev A)) : res unit (list A * bool) :=
  match run_all (take (N.min (k + 1) (len l)) l) with
  | Ok r => Ok (take (N.min k (len r)) r, k <? len r)
  | Err e => Err e
  | Panic => Panic
  end.

(* ---- the stored source as seen by a lazy vector ------------------------------------------ *)
Section Source.
  Context {A : Type}.
  (* ReadOnlyRawVec::read_into_at (raw/inner/read_only/readable.rs:30): clamp both ends, nothing when from >= to *)
  Definition src_range (s : list A) (from to : N) : list A :=
    let l := len s in
    let f := N.min from l in
    let t := N.min to l in
    if t <=? f then [] else slice f t s.
  Definition src_one (s : list A) (i : N) : option A := getb s i.
  (* default read_sorted_into_at over a hole-free stored vector: out-of-range positions are skipped *)
  Definition src_sorted (s : list A) (idx : list N) : list A :=
    flat_map (fun i => match getb s i with Some v => [v] | None => [] end) idx.
End Source.

(* ---- integer elements ---------------------------------------------------------------------- *)
Inductive ety := U64 | I64 | U32.
Definition ety_lo (t : ety) : Z := match t with U64 => 0 | I64 => -9223372036854775808 | U32 => 0 end%Z.
Definition ety_hi (t : ety) : Z :=
  match t with U64 => 18446744073709551615 | I64 => 9223372036854775807 | U32 => 4294967295 end%Z.
Definition ety_mod (t : ety) : Z := (ety_hi t - ety_lo t + 1)%Z.
Definition in_range (t : ety) (z : Z) : bool := ((ety_lo t <=? z) && (z <=? ety_hi t))%Z.
(* wrapping_* : reduce into the type's range *)
Definition wrapz (t : ety) (z : Z) : Z := ((z - ety_lo t) mod ety_mod t + ety_lo t)%Z.
(* checked_sub(..).unwrap_or_default() *)
Definition checked_sub_or0 (t : ety) (a b : Z) : Z := if in_range t (a - b)%Z then (a - b)%Z else 0%Z.
Definition ety_size (t : ety) : N := match t with U64 => 8 | I64 => 8 | U32 => 4 end.

Definition usize_max : N := u64_max.
Definition isize_max : N := 9223372036854775807.

(* ---- default methods of ReadableVec ---------------------------------------------------------
   `rd from to` stands for the vector's own `read_into_at` on an empty buffer. *)
Section Api.
  Context {T : Type}.
  Variable esz : N.                                   (* size_of::<T>() *)
  Variable vlen : N.                                  (* self.len() *)
  Variable rd : N -> N -> res unit (list T).          (* read_into_at *)
  Variable fold : N -> N -> res unit (list T).        (* fold_range_at, observed with a collecting closure *)
  Variable one : N -> res unit (option T).            (* collect_one_at *)

  (* Vec::with_capacity(n) panics with "capacity overflow" when n * size_of::<T>() > isize::MAX
     (cannot happen for a vector whose len() * size_of::<T>() fits isize) *)
  Definition cap_overflows (n : N) : bool := isize_max <? n * esz.

  (* readable.rs:251 collect_range_dyn: with_capacity(to.min(self.len()).saturating_sub(from)), then read_into_at *)
  Definition collect_range_dyn (from to : N) : res unit (list T) :=
    if cap_overflows (N.min to vlen - from) then Panic else rd from to.
  (* readable.rs:259 collect_range_at = collect_range_dyn *)
  Definition collect_range_at := collect_range_dyn.
  (* readable.rs:286 collect *)
  Definition collect_all : res unit (list T) := collect_range_at 0 vlen.

  (* traits/any.rs:5 i64_to_usize *)
  Definition i64_to_usize (i : Z) (l : N) : N :=
    if (0 <=? i)%Z then N.min (Z.to_N i) l
    else let v := (Z.of_N l + i)%Z in if (v <? 0)%Z then 0 else Z.to_N v.
  (* readable.rs:300 collect_signed_range *)
  Definition collect_signed_range (from to : option Z) : res unit (list T) :=
    let f := match from with Some i => i64_to_usize i vlen | None => 0 end in
    let t := match to with Some i => i64_to_usize i vlen | None => vlen end in
    collect_range_at f t.

  (* readable.rs:336/342 collect_first / collect_last *)
  Definition collect_first : res unit (option T) := one 0.
  Definition collect_last : res unit (option T) := if 0 <? vlen then one (vlen - 1) else Ok None.

  (* readable.rs:403/431 min_at / max_at: a fold keeping the current value on ties *)
  Variable le : T -> T -> bool.
  Definition min_of (l : list T) : option T :=
    fold_left (fun acc v => match acc with Some c => if le c v then Some c else Some v | None => Some v end) l None.
  Definition max_of (l : list T) : option T :=
    fold_left (fun acc v => match acc with Some c => if le v c then Some c else Some v | None => Some v end) l None.
  Definition min_at (from to : N) : res unit (option T) :=
    match fold from to with Ok l => Ok (min_of l) | Err e => Err e | Panic => Panic end.
  Definition max_at (from to : N) : res unit (option T) :=
    match fold from to with Ok l => Ok (max_of l) | Err e => Err e | Panic => Panic end.
End Api.

(* readable.rs:459 sum_at on integers: `acc += v` panics on overflow when overflow checks are on
   and wraps otherwise; None when the range is empty *)
Definition sum_of (ovf : bool) (t : ety) (l : list Z) : res unit (option Z) :=
  match l with
  | [] => Ok None
  | _ => fold_left (fun acc v =>
           match acc with
           | Ok (Some a) => if in_range t (a + v)%Z then Ok (Some (a + v)%Z)
                            else if ovf then Panic else Ok (Some (wrapz t (a + v)%Z))
           | r => r
           end) l (Ok (Some 0%Z))
  end.
Definition sum_at (ovf : bool) (t : ety) (fold : N -> N -> res unit (list Z)) (from to : N) : res unit (option Z) :=
  match fold from to with Ok l => sum_of ovf t l | Err e => Err e | Panic => Panic end.
(* f64 sums of exactly representable integers (DeltaChange over u32): never overflow *)
Definition sum_exact (l : list Z) : option Z :=
  match l with [] => None | _ => Some (fold_left Z.add l 0%Z) end.

(* ---- Cursor (cursor.rs) over a vector given by its read_into_at and its len() ---------------- *)
Section Cursor.
  Context {T : Type}.
  Variable clen : N.                                   (* source.len() captured by Cursor::new *)
  Variable rd : N -> N -> res unit (list T).

  Record cursor := mkCursor { c_start : N; c_buf : list T }.
  Definition cursor_new : cursor := mkCursor 0 [].

  (* cursor.rs:77 get + cursor.rs:139 ensure_buffered_at *)
  Definition cursor_get (c : cursor) (index : N) : res unit (cursor * option T) :=
    if clen <=? index then Ok (c, None) else
    let buf_end := c_start c + len (c_buf c) in
    if (c_start c <=? index) && (index <? buf_end) then
      match getb (c_buf c) (index - c_start c) with
      | Some v => Ok (c, Some v)
      | None => Panic
      end
    else
      let aligned := index / READ_CHUNK_SIZE * READ_CHUNK_SIZE in
      let e := N.min (aligned + READ_CHUNK_SIZE) clen in
      match rd aligned e with
      | Ok buf =>
          let c' := mkCursor aligned buf in
          match buf with
          | [] => Ok (c', None)
          | _ => match getb buf (index - aligned) with
                 | Some v => Ok (c', Some v)
                 | None => Panic                       (* self.buf[local]: index out of bounds *)
                 end
          end
      | Err e => Err e
      | Panic => Panic
      end.

  (* a sequence of get calls on one cursor *)
  Fixpoint cursor_gets (c : cursor) (idx : list N) : res unit (list (option T)) :=
    match idx with
    | [] => Ok []
    | i :: t => match cursor_get c i with
                | Ok (c', o) => match cursor_gets c' t with Ok r => Ok (o :: r) | Err e => Err e | Panic => Panic end
                | Err e => Err e
                | Panic => Panic
                end
    end.

  (* readable.rs:360 default read_sorted_into_at: a fresh cursor, values that exist are pushed *)
  Definition default_read_sorted (idx : list N) : res unit (list T) :=
    match cursor_gets cursor_new idx with
    | Ok os => Ok (flat_map (fun o => match o with Some v => [v] | None => [] end) os)
    | Err e => Err e
    | Panic => Panic
    end.
End Cursor.
Arguments mkCursor {T} _ _.
Arguments c_start {T} _.
Arguments c_buf {T} _.

(* map with the running position, as `enumerate()` + `from + local` *)
Fixpoint mapi_from {A B} (pos : N) (f : N -> A -> B) (l : list A) : list B :=
  match l with [] => [] | a :: t => f pos a :: mapi_from (pos + 1) f t end.
