(* Lazy/LazyAggProofs.v — PROOF file for LazyAggVec<Sparse> and for the ReadableVec default wrappers.
   For ALL sources and ALL mappings (any length, first-indexes past the end of the source, not even
   monotone): every range read, collect_one_at and the (cursor based) read_sorted_at over ANY index list
   return the group formula `Aspec`, and nothing panics.  (Before /repo commit 19edab9 a first-index past
   the end of the source made Sparse::try_fold index `values[vi]` out of bounds.) *)
From Anydb Require Import Common.Base Lazy.LazyBase Lazy.LazyBaseProofs Lazy.LazyFromProofs Lazy.LazyAgg.

(* group idx = source positions [mapping[idx], mapping[idx+1]) ∩ [0, len src) (last group: to the end);
   value = Some (last source element of the group), None for a group without source elements *)
Definition Aspec (src : list Z) (mapping : list N) (idx : N) : option (option Z) :=
  match get mapping idx with
  | None => None
  | Some cur =>
      let n := len src in
      let next := N.min (match get mapping (idx + 1) with Some h => h | None => n end) n in
      if next <=? cur then Some None else Some (get src (next - 1))
  end.

Section PA.
  Variables (src : list Z) (mapping : list N).

  Lemma Aspec_out_of_range i : a_len mapping <= i -> Aspec src mapping i = None.
  Proof. unfold a_len, Aspec. intros H. apply get_none_iff in H. now rewrite H. Qed.
  Lemma Aspec_in_range i : i < a_len mapping -> exists v, Aspec src mapping i = Some v.
  Proof.
    unfold a_len, Aspec. intros H. destruct (get_lt_some mapping i H) as [c Hc]. rewrite Hc. cbv zeta.
    destruct (_ <=? c); eauto.
  Qed.

  Lemma agg_one_spec i : a_one src mapping i = Ok (Aspec src mapping i).
  Proof.
    unfold a_one, Aspec, a_len, src_one. rewrite !getb_get.
    destruct (len mapping <=? i) eqn:E.
    { assert (G : get mapping i = None) by (apply get_none_iff; lia). now rewrite G. }
    destruct (get_lt_some mapping i) as [cur Hc]; [lia|]. rewrite Hc. cbv zeta.
    set (nx := N.min _ (len src)).
    destruct (nx =? 0) eqn:E0.
    - cbn [orb]. replace (nx <=? cur) with true by lia. reflexivity.
    - cbn [orb]. destruct (nx <=? cur); reflexivity.
  Qed.

  (* a slot evaluated against the list of requested source positions instead of the values read *)
  Definition slot_val (ind : list N) (slot : option N) : ev (option Z) :=
    match slot with
    | None => EV None
    | Some vi => match get ind vi with
                 | Some x => match get src x with Some v => EV (Some v) | None => EP end
                 | None => EP
                 end
    end.

  Lemma a_build_spec idxs : forall ind sm,
    Forall (fun i => i < len mapping) idxs ->
    exists ind' sm',
      a_build mapping (len src) idxs ind sm = Some (ind ++ ind', sm ++ sm') /\
      Forall (fun x => x < len src) ind' /\
      forall tail, map (slot_val (ind ++ ind' ++ tail)) sm' = map EV (ovals (Aspec src mapping) idxs).
  Proof.
    induction idxs as [|idx tl IH]; intros ind sm Hall.
    - exists [], []. cbn [a_build]. rewrite !app_nil_r. repeat split; auto.
    - inversion Hall as [|? ? Hidx Htl]; subst. cbn [a_build]. rewrite !getb_get.
      destruct (get_lt_some mapping idx Hidx) as [cur Hc]. rewrite Hc.
      rewrite ovals_cons. unfold Aspec at 1. rewrite Hc. cbv zeta.
      set (nx := N.min _ (len src)).
      destruct ((nx =? 0) || (nx <=? cur)) eqn:Eg.
      + replace (nx <=? cur) with true by lia.
        destruct (IH ind (sm ++ [None]) Htl) as [ind' [sm' [Hb [Hf Hm]]]].
        exists ind', (None :: sm'). rewrite Hb. rewrite <- app_assoc. cbn [app].
        repeat split; auto. intros tail. cbn [map slot_val]. f_equal. apply Hm.
      + replace (nx <=? cur) with false by lia.
        destruct (IH (ind ++ [nx - 1]) (sm ++ [Some (len ind)]) Htl) as [ind' [sm' [Hb [Hf Hm]]]].
        exists ((nx - 1) :: ind'), (Some (len ind) :: sm'). rewrite Hb. rewrite <- !app_assoc. cbn [app].
        assert (Hx : nx - 1 < len src) by (unfold nx in *; lia).
        repeat split; [constructor; auto|]. intros tail. cbn [map slot_val].
        replace (ind ++ nx - 1 :: ind' ++ tail) with ((ind ++ [nx - 1]) ++ ind' ++ tail)
          by (rewrite <- app_assoc; reflexivity).
        assert (Hl : len ind < len (ind ++ [nx - 1])) by (rewrite len_app, len_cons, len_nil; lia).
        rewrite (get_app_l (ind ++ [nx - 1]) (ind' ++ tail) (len ind) Hl), get_snoc.
        destruct (get_lt_some src (nx - 1) Hx) as [v Hv]. rewrite Hv. f_equal. apply Hm.
  Qed.

  Lemma a_try_fold_spec from to :
    to <= len mapping ->
    a_try_fold src mapping from to
    = map EV (ovals (Aspec src mapping) (seqN from (N.to_nat (to - from)))).
  Proof.
    intros Hto. unfold a_try_fold. cbv zeta.
    destruct (a_build_spec (seqN from (N.to_nat (to - from))) [] []) as [ind' [sm' [Hb [Hf Hm]]]].
    { apply Forall_seqN. intros i Hi. lia. }
    rewrite Hb. cbn [app]. specialize (Hm []). rewrite app_nil_r in Hm. cbn [app] in Hm.
    rewrite <- Hm. apply map_ext_in. intros [vi|] _; [|reflexivity].
    cbn [slot_val]. rewrite getb_get, src_sorted_ovals.
    rewrite get_ovals_total.
    - destruct (get ind' vi); [|reflexivity]. now destruct (get src n).
    - eapply Forall_impl; [|exact Hf]. intros x Hx. now apply get_lt_some.
  Qed.

  (* read_into_at, for_each_range_dyn_at, fold_range_at, try_fold_range_at: every element is the formula *)
  Lemma agg_range_spec from to :
    a_range src mapping from to
    = map EV (ovals (Aspec src mapping) (range_idx (a_len mapping) from to)).
  Proof.
    unfold a_range, range_idx, a_len. cbv zeta.
    destruct (N.min to (len mapping) <=? from) eqn:E.
    - replace (N.to_nat (N.min to (len mapping) - from)) with O by lia. reflexivity.
    - apply a_try_fold_spec. lia.
  Qed.
  Lemma agg_range_run from to :
    run_all (a_range src mapping from to) = Ok (ovals (Aspec src mapping) (range_idx (a_len mapping) from to)).
  Proof. rewrite agg_range_spec. apply run_all_EV. Qed.
  Lemma agg_range_stop from to k :
    run_stop k (a_try_fold_range src mapping from to)
    = Ok (take k (ovals (Aspec src mapping) (range_idx (a_len mapping) from to)),
          k <? len (ovals (Aspec src mapping) (range_idx (a_len mapping) from to))).
  Proof. unfold a_try_fold_range. rewrite agg_range_spec. apply run_stop_EV. Qed.

  (* read_sorted_at (default: a Cursor over the vector itself) and cursor().get, for any index list *)
  Lemma agg_sorted_spec idx : a_sorted src mapping idx = Ok (ovals (Aspec src mapping) idx).
  Proof.
    unfold a_sorted. apply default_read_sorted_spec.
    - apply Aspec_in_range.
    - apply Aspec_out_of_range.
    - intros f t. unfold a_read_into. apply agg_range_run.
  Qed.
  Lemma agg_cursor_spec idx :
    cursor_gets (a_len mapping) (fun f t => run_all (a_read_into src mapping f t)) cursor_new idx
    = Ok (map (Aspec src mapping) idx).
  Proof.
    apply (cursor_gets_spec (a_len mapping) (Aspec src mapping)); [apply Aspec_in_range|apply Aspec_out_of_range| |apply cinv_new].
    intros f t. unfold a_read_into. apply agg_range_run.
  Qed.
End PA.

(* a mapping that knows first-indexes past the end of the source, a duplicate (empty group) *)
Example agg_example :
  run_all (a_range [7; 8; 9]%Z [0; 2; 2; 5; 9] 0 99) = Ok [Some 8; None; Some 9; None; None]%Z.
Proof. vm_compute. reflexivity. Qed.

(* ---- ReadableVec::collect_range_dyn (readable.rs:251) ------------------------------------------------
   the capacity is computed from the clamped range: for every vector whose len() * size_of::<T>() fits
   isize (any vector that can be collected at all) every request is passed through to read_into_at *)
Lemma collect_range_ok {T} esz vlen (rd : N -> N -> res unit (list T)) from to :
  vlen * esz <= isize_max -> collect_range_at esz vlen rd from to = rd from to.
Proof.
  intros H. unfold collect_range_at, collect_range_dyn, cap_overflows.
  replace (isize_max <? (N.min to vlen - from) * esz) with false by nia. reflexivity.
Qed.
Lemma collect_signed_ok {T} esz vlen (rd : N -> N -> res unit (list T)) from to :
  vlen * esz <= isize_max ->
  exists f t', f <= vlen /\ t' <= vlen /\ collect_signed_range esz vlen rd from to = rd f t'.
Proof.
  intros H. unfold collect_signed_range.
  set (f := match from with Some i => i64_to_usize i vlen | None => 0 end).
  set (t' := match to with Some i => i64_to_usize i vlen | None => vlen end).
  assert (Hb : forall i, i64_to_usize i vlen <= vlen).
  { intros i. unfold i64_to_usize. destruct (0 <=? i)%Z eqn:E0; [lia|]. destruct (Z.of_N vlen + i <? 0)%Z eqn:E; lia. }
  assert (Hf : f <= vlen) by (unfold f; destruct from; [apply Hb|lia]).
  assert (Ht : t' <= vlen) by (unfold t'; destruct to; [apply Hb|lia]).
  exists f, t'. repeat split; try assumption. now apply collect_range_ok.
Qed.
Lemma collect_all_ok {T} esz vlen (rd : N -> N -> res unit (list T)) :
  vlen * esz <= isize_max -> collect_all esz vlen rd = rd 0 vlen.
Proof. intros H. unfold collect_all. now apply collect_range_ok. Qed.
(* the huge request that used to panic with "capacity overflow" *)
Example collect_range_huge_to :
  collect_range_at 8 3 (fun _ _ => Ok [1; 2; 3]%Z) 0 usize_max = Ok [1; 2; 3]%Z.
Proof. vm_compute. reflexivity. Qed.
