(* Lazy/LazyAggProofs.v — PROOF file for LazyAggVec<Sparse> and for the ReadableVec default wrappers.
   Proved: collect_one_at equals the group formula for every mapping whose first-indexes stay within the
   source (`wf_map`; monotonicity is not needed); the full statements (all monotone mappings, all ranges)
   are refuted by the faithful model: a first-index past the end of the source makes Sparse::try_fold
   index `values[vi]` out of bounds (read_sorted_at dropped the position) while Sparse::collect_one
   answers None for a group that holds source elements.
   NOT proved here (missing): the range reads / sorted reads of LazyAggVec equal the formula under
   wf_map (only validated differentially). *)
From Anydb Require Import Common.Base Lazy.LazyBase Lazy.LazyBaseProofs Lazy.LazyFromProofs Lazy.LazyAgg.

(* group idx = source positions [mapping[idx], mapping[idx+1]) ∩ [0, len src) (last group: to the end);
   value = Some (last source element of the group), None for a group without source elements *)
Definition Aspec (src : list Z) (mapping : list N) (idx : N) : option (option Z) :=
  match get mapping idx with
  | None => None
  | Some cur =>
      let n := len src in
      let next := N.min (match get mapping (idx + 1) with Some h => h | None => n end) n in
      if next <=? cur then Some None else Some (get src (next - 1))
  end.

Definition wf_map (src : list Z) (mapping : list N) : Prop :=
  forall j v, get mapping j = Some v -> v <= len src.
Definition mono_map (mapping : list N) : Prop :=
  forall i j a b, i <= j -> get mapping i = Some a -> get mapping j = Some b -> a <= b.

Lemma agg_one_spec src mapping i : wf_map src mapping -> a_one src mapping i = Ok (Aspec src mapping i).
Proof.
  intros WF. unfold a_one, Aspec, a_len, src_one. rewrite !getb_get.
  destruct (len mapping <=? i) eqn:E.
  { assert (G : get mapping i = None) by (apply get_none_iff; lia). now rewrite G. }
  destruct (get_lt_some mapping i) as [cur Hc]; [lia|]. rewrite Hc. cbv zeta.
  set (nr := match get mapping (i + 1) with Some h => h | None => len src end).
  assert (Hnr : nr <= len src).
  { unfold nr. destruct (get mapping (i + 1)) eqn:G; [apply (WF _ _ G)|lia]. }
  replace (N.min nr (len src)) with nr by lia.
  destruct (nr =? 0) eqn:E0.
  - cbn [orb]. replace (nr <=? cur) with true by lia. reflexivity.
  - cbn [orb]. destruct (nr <=? cur); reflexivity.
Qed.

Lemma Aspec_out_of_range src mapping i : a_len mapping <= i -> Aspec src mapping i = None.
Proof. unfold a_len, Aspec. intros H. apply get_none_iff in H. now rewrite H. Qed.
Lemma Aspec_in_range src mapping i : i < a_len mapping -> exists v, Aspec src mapping i = Some v.
Proof.
  unfold a_len, Aspec. intros H. destruct (get_lt_some mapping i H) as [c Hc]. rewrite Hc. cbv zeta.
  destruct (_ <=? c); eauto.
Qed.

(* ---- full statements and refutations ------------------------------------------------------------ *)
Definition agg_range_full : Prop :=
  forall src mapping from to, mono_map mapping ->
    run_all (a_range src mapping from to) = Ok (ovals (Aspec src mapping) (range_idx (a_len mapping) from to)).
Definition agg_one_full : Prop :=
  forall src mapping i, mono_map mapping -> a_one src mapping i = Ok (Aspec src mapping i).

Lemma mono_0_2 : mono_map [0; 2].
Proof.
  intros i j a b Hij Ha Hb.
  pose proof (get_some_lt _ _ _ Ha) as La. pose proof (get_some_lt _ _ _ Hb) as Lb.
  unfold len in La, Lb. cbn in La, Lb.
  assert (Hi : i = 0 \/ i = 1) by lia. assert (Hj : j = 0 \/ j = 1) by lia.
  destruct Hi as [-> | ->]; vm_compute in Ha; inversion Ha; subst a;
  destruct Hj as [-> | ->]; vm_compute in Hb; inversion Hb; subst b; lia.
Qed.

(* the mapping knows a first-index (2) past the end of the one-element source *)
Lemma agg_mapping_past_end_refuted :
  exists src mapping,
    mono_map mapping /\
    run_all (a_range src mapping 0 1) = Panic /\            (* every range read and, through the cursor, read_sorted_at *)
    a_sorted src mapping [0] = Panic /\
    a_one src mapping 0 = Ok (Some None) /\                  (* collect_one_at: "empty group" *)
    Aspec src mapping 0 = Some (Some 7%Z).                   (* the group holds source element 0 *)
Proof. exists [7%Z], [0; 2]. split; [apply mono_0_2|vm_compute; auto]. Qed.

Lemma agg_range_full_refuted : ~ agg_range_full.
Proof.
  intros H. destruct agg_mapping_past_end_refuted as [src [m [Hm [Hp _]]]].
  rewrite (H src m 0 1 Hm) in Hp. discriminate.
Qed.
Lemma agg_one_full_refuted : ~ agg_one_full.
Proof.
  intros H. destruct agg_mapping_past_end_refuted as [src [m [Hm [_ [_ [H1 H2]]]]]].
  rewrite (H src m 0 Hm), H2 in H1. discriminate.
Qed.

(* ---- ReadableVec::collect_range_dyn (readable.rs:277): capacity computed before clamping ---------- *)
Definition collect_range_full : Prop :=
  forall (T : Type) esz (rd : N -> N -> res unit (list T)) from to,
    collect_range_at esz rd from to = rd from to.

Lemma collect_range_huge_to_refuted :
  exists (rd : N -> N -> res unit (list Z)),
    rd 0 usize_max = Ok [] /\ collect_range_at 8 rd 0 usize_max = Panic.
Proof. exists (fun _ _ => Ok []). split; vm_compute; reflexivity. Qed.

Lemma collect_range_full_refuted : ~ collect_range_full.
Proof.
  intros H. destruct collect_range_huge_to_refuted as [rd [H1 H2]].
  rewrite (H Z 8 rd 0 usize_max), H1 in H2. discriminate.
Qed.

(* the restricted statement: requests whose width fits an allocation are passed through unchanged *)
Lemma collect_range_ok {T} esz (rd : N -> N -> res unit (list T)) from to :
  (to - from) * esz <= isize_max -> collect_range_at esz rd from to = rd from to.
Proof.
  intros H. unfold collect_range_at, collect_range_dyn, cap_overflows.
  replace (isize_max <? (to - from) * esz) with false by lia. reflexivity.
Qed.
Lemma collect_signed_ok {T} esz vlen (rd : N -> N -> res unit (list T)) from to :
  vlen * esz <= isize_max ->
  exists f t', f <= vlen /\ t' <= vlen /\ collect_signed_range esz vlen rd from to = rd f t'.
Proof.
  intros H. unfold collect_signed_range.
  set (f := match from with Some i => i64_to_usize i vlen | None => 0 end).
  set (t' := match to with Some i => i64_to_usize i vlen | None => vlen end).
  assert (Hb : forall i, i64_to_usize i vlen <= vlen).
  { intros i. unfold i64_to_usize. destruct (0 <=? i)%Z eqn:E0; [lia|]. destruct (Z.of_N vlen + i <? 0)%Z eqn:E; lia. }
  assert (Hf : f <= vlen) by (unfold f; destruct from; [apply Hb|lia]).
  assert (Ht : t' <= vlen) by (unfold t'; destruct to; [apply Hb|lia]).
  exists f, t'. repeat split; try assumption. apply collect_range_ok. nia.
Qed.
