(* Lazy/LazyDelta.v — MODEL of LazyDeltaVec<I,S,T,Op> (variants/lazy/delta/{mod,readable,any_vec,sub,change}.rs)
   for Op = DeltaSub (integers, checked_sub().unwrap_or_default()) and Op = DeltaChange over u32 (the
   difference of two u32 is exact in f64 and is carried as an integer).
   `ovf` = integer overflow checks are compiled in (debug profile): DeltaChange keeps the default
   Op::count = `h - start`, which panics when start > h (without checks it wraps; the value is unused);
   DeltaSub::count = `(h + 1).saturating_sub(start)` never panics. *)
From Anydb Require Import Common.Base Lazy.LazyBase.

Inductive dop := DSub | DChg.

(* sub.rs:14 ago_index = start.checked_sub(1); op.rs:10 default = Some(start) *)
Definition ago_index (op : dop) (start : N) : option N :=
  match op with
  | DSub => if start =? 0 then None else Some (start - 1)
  | DChg => Some start
  end.
(* sub.rs:19 T::default(); op.rs:16 unreachable!() *)
Definition ago_default (op : dop) : ev Z := match op with DSub => EV 0%Z | DChg => EP end.
(* sub.rs:24 `(h + 1).saturating_sub(start)` (h < len: h + 1 cannot overflow), op.rs:25 `h - start`:
   evaluated for every element although unused *)
Definition count_panics (ovf : bool) (op : dop) (h start : N) : bool :=
  match op with DSub => false | DChg => ovf && (h <? start) end.
(* sub.rs:29 / change.rs:12 *)
Definition combine (t : ety) (op : dop) (current ago : Z) : Z :=
  match op with
  | DSub => checked_sub_or0 t current ago
  | DChg => (current - ago)%Z
  end.

Section Delta.
  Variable ovf : bool.
  Variable t : ety.
  Variable op : dop.
  Variable src : list Z.
  Variable starts : list N.            (* (self.window_starts)() *)

  (* delta/any_vec.rs:25: source.len().min((self.window_starts)().len()) *)
  Definition d_len : N := N.min (len src) (len starts).

  (* delta/mod.rs:66 bulk_try_fold: one element of the loop `for i in from..to` *)
  Definition d_elem (read_from : N) (data : list Z) (i : N) : ev Z :=
    match getb starts i with
    | None => EP                                               (* starts[i] *)
    | Some start =>
        match getb data (i - read_from) with
        | None => EP                                           (* source_data[i - read_from] *)
        | Some current =>
            let ago :=
              match ago_index op start with
              | Some idx =>
                  (* idx - read_from: underflow panics (checks on) or wraps to an index far out of bounds *)
                  if idx <? read_from then EP else
                  match getb data (idx - read_from) with Some a => EV a | None => EP end
              | None => ago_default op
              end in
            match ago with
            | EP => EP
            | EV a => if count_panics ovf op i start then EP else EV (combine t op current a)
            end
        end
    end.

  Definition d_bulk (from to : N) : list (ev Z) :=
    if to <=? from then [] else
    match getb starts from with
    | None => [EP]                                             (* starts[from] *)
    | Some s0 =>
        let read_from := N.min (match ago_index op s0 with Some a => a | None => 0 end) from in
        let data := src_range src read_from to in
        map (d_elem read_from data) (seqN from (N.to_nat (to - from)))
    end.

  (* delta/readable.rs:14/25/35/52: read_into_at, for_each_range_dyn_at, fold_range_at and
     try_fold_range_at all clamp `to` by len() and starts.len(), return when from >= to, and call
     bulk_try_fold *)
  Definition d_range (from to : N) : list (ev Z) :=
    let to := N.min (N.min to d_len) (len starts) in
    if to <=? from then [] else d_bulk from to.
  Definition d_read_into := d_range.
  Definition d_for_each := d_range.
  Definition d_fold := d_range.
  Definition d_try_fold := d_range.

  (* delta/readable.rs:70 collect_one_at *)
  Definition d_one (index : N) : res unit (option Z) :=
    if d_len <=? index then Ok None else
    if len starts <=? index then Ok None else
    match getb starts index with
    | None => Panic
    | Some start =>
        match src_one src index with
        | None => Ok None
        | Some current =>
            match ago_index op start with
            | Some idx =>
                match src_one src idx with
                | None => Ok None
                | Some ago => if count_panics ovf op index start then Panic else Ok (Some (combine t op current ago))
                end
            | None =>
                match ago_default op with
                | EP => Panic
                | EV ago => if count_panics ovf op index start then Panic else Ok (Some (combine t op current ago))
                end
            end
        end
    end.

  (* ---- delta/readable.rs:88 read_sorted_into_at ------------------------------------------- *)
  Definition read := (N * (N * bool))%type.                  (* (position, slot, is_current) *)
  Definition r_pos (r : read) : N := fst r.
  Definition r_slot (r : read) : N := fst (snd r).
  Definition r_cur (r : read) : bool := snd (snd r).

  (* lines 97-105: None = starts[h] out of bounds (cannot happen: h < len <= starts.len()) *)
  Fixpoint d_reads (l : N) (slot : N) (idx : list N) : option (list read) :=
    match idx with
    | [] => Some []
    | h :: tl =>
        match d_reads l (slot + 1) tl with
        | None => None
        | Some rest =>
            if h <? l then
              match getb starts h with
              | None => None
              | Some st =>
                  match ago_index op st with
                  | Some a => Some ((h, (slot, true)) :: (a, (slot, false)) :: rest)
                  | None => Some ((h, (slot, true)) :: rest)
                  end
              end
            else Some rest
        end
    end.

  (* line 106 sort_unstable_by_key(|r| r.0): the order of equal keys is unspecified; the model uses
     insertion sort (one admissible outcome); the theorems quantify over every sorted permutation *)
  Fixpoint ins_read (r : read) (l : list read) : list read :=
    match l with
    | [] => [r]
    | x :: tl => if r_pos r <=? r_pos x then r :: l else x :: ins_read r tl
    end.
  Definition sort_reads (l : list read) : list read := fold_right ins_read [] l.

  (* lines 108-115: de-duplicated positions and, per read, the index of its position *)
  Definition last_opt {A} (l : list A) : option A := match rev l with [] => None | x :: _ => Some x end.
  Definition d_dedup_step (acc : list N * list N) (r : read) : list N * list N :=
    let (positions, val_indices) := acc in
    let positions' :=
      match last_opt positions with
      | Some p => if p =? r_pos r then positions else positions ++ [r_pos r]
      | None => positions ++ [r_pos r]
      end in
    (positions', val_indices ++ [len positions' - 1]).
  Definition d_dedup (reads : list read) : list N * list N := fold_left d_dedup_step reads ([], []).

  (* lines 119-131: current_vi / ago_vi, vec![0; count] then indexed stores *)
  Definition set_at (l : list N) (i : N) (v : N) : option (list N) :=
    if i <? len l then Some (set_nth l (N.to_nat i) v) else None.
  Fixpoint d_fill (reads : list read) (vis : list N) (cur ago : list N) : option (list N * list N) :=
    match reads, vis with
    | [], _ => Some (cur, ago)
    | r :: rt, vi :: vt =>
        if r_cur r then
          match set_at cur (r_slot r) vi with Some c' => d_fill rt vt c' ago | None => None end
        else
          match set_at ago (r_slot r) vi with Some a' => d_fill rt vt cur a' | None => None end
    | _ :: _, [] => None                                     (* val_indices[i]: same length as reads *)
    end.

  (* lines 133-145: the output loop *)
  Fixpoint d_emit (l : N) (vals : list Z) (cur ago : list N) (slot : N) (idx : list N) : list (ev Z) :=
    match idx with
    | [] => []
    | h :: tl =>
        if l <=? h then d_emit l vals cur ago (slot + 1) tl else
        let e :=
          match getb starts h with
          | None => EP
          | Some start =>
              match getb cur slot with
              | None => EP
              | Some cvi =>
                  match getb vals cvi with
                  | None => EP                               (* vals[current_vi[slot]] *)
                  | Some current =>
                      let a :=
                        match ago_index op start with
                        | Some _ =>
                            match getb ago slot with
                            | None => EP
                            | Some avi => match getb vals avi with Some a => EV a | None => EP end
                            end
                        | None => ago_default op
                        end in
                      match a with
                      | EP => EP
                      | EV a => if count_panics ovf op h start then EP else EV (combine t op current a)
                      end
                  end
              end
          end in
        e :: d_emit l vals cur ago (slot + 1) tl
    end.

  (* the part after sorting, for any arrangement `sorted` of the reads *)
  Definition d_sorted_with (idx : list N) (sorted : list read) : res unit (list Z) :=
    let l := N.min d_len (len starts) in
    let count := length idx in
    let (positions, val_indices) := d_dedup sorted in
    let vals := src_sorted src positions in
    match d_fill sorted val_indices (repeat 0 count) (repeat 0 count) with
    | None => Panic
    | Some (cur, ago) => run_all (d_emit l vals cur ago 0 idx)
    end.

  Definition d_sorted (idx : list N) : res unit (list Z) :=
    match idx with
    | [] => Ok []                                              (* line 89 *)
    | _ =>
        let l := N.min d_len (len starts) in
        match d_reads l 0 idx with
        | None => Panic
        | Some reads => d_sorted_with idx (sort_reads reads)
        end
    end.
End Delta.
