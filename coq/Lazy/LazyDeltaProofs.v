(* Lazy/LazyDeltaProofs.v — PROOF file for LazyDeltaVec.
   delta_range_spec / delta_one_spec: for all sources, all monotone window-start mappings whose
   windows do not start after their index (`wf_starts`), of any length (shorter or longer than the
   source), all ranges: every element of every range read evaluates to the defining formula (no
   panic), and collect_one_at returns the formula or nothing out of range.
   The full statement (all monotone mappings) is refuted: see the *_refuted lemmas. *)
From Anydb Require Import Common.Base Lazy.LazyBase Lazy.LazyBaseProofs Lazy.LazyFromProofs Lazy.LazyDelta.

(* the defining formula of index h *)
Definition Dspec (t : ety) (op : dop) (src : list Z) (starts : list N) (h : N) : option Z :=
  if (h <? len src) && (h <? len starts) then
    match get starts h, get src h with
    | Some start, Some cur =>
        match ago_index op start with
        | Some a => match get src a with Some ago => Some (combine t op cur ago) | None => None end
        | None => Some (combine t op cur 0%Z)
        end
    | _, _ => None
    end
  else None.

(* monotone, and no window starts after its own index; an inclusive window (DeltaSub) may be empty
   (start = h + 1) only when `h - start` is allowed to wrap (no overflow checks) *)
Definition start_cap (ovf : bool) (op : dop) (h : N) : N :=
  if ovf then h else match op with DSub => h + 1 | DChg => h end.
Definition wf_starts (ovf : bool) (op : dop) (src : list Z) (starts : list N) : Prop :=
  (forall i j a b, i <= j -> get starts i = Some a -> get starts j = Some b -> a <= b) /\
  (forall h st, h < len src -> get starts h = Some st -> st <= start_cap ovf op h).
(* all monotone mappings: the property's quantifier *)
Definition mono_starts (starts : list N) : Prop :=
  forall i j a b, i <= j -> get starts i = Some a -> get starts j = Some b -> a <= b.

Lemma nth_error_firstn_lt {A} (l : list A) n k : (k < n)%nat -> nth_error (firstn n l) k = nth_error l k.
Proof.
  revert n k; induction l as [|x l IH]; intros [|n] [|k] H; cbn; try reflexivity; try lia.
  apply IH. lia.
Qed.
Lemma nth_error_skipn_add {A} (l : list A) n k : nth_error (skipn n l) k = nth_error l (n + k).
Proof.
  revert l; induction n as [|n IH]; intros l; [reflexivity|].
  destruct l as [|x l]; cbn [skipn Nat.add nth_error].
  - now destruct k.
  - apply IH.
Qed.

Lemma get_src_range {A} (s : list A) a b i :
  a <= i -> i < b -> b <= len s -> getb (src_range s a b) (i - a) = get s i.
Proof.
  intros Hai Hib Hbl. rewrite getb_get. unfold src_range. cbv zeta.
  replace (N.min a (len s)) with a by lia. replace (N.min b (len s)) with b by lia.
  destruct (b <=? a) eqn:E; [lia|].
  unfold get, slice, take, drop. rewrite !nth_opt_nth_error.
  rewrite nth_error_firstn_lt by lia. rewrite nth_error_skipn_add. f_equal. lia.
Qed.

Lemma map_EV_ovals {B} (g : N -> ev B) (F : N -> option B) l :
  (forall i, In i l -> exists v, F i = Some v /\ g i = EV v) -> map g l = map EV (ovals F l).
Proof.
  induction l as [|i tl IH]; intros H; [reflexivity|].
  destruct (H i (or_introl eq_refl)) as [v [HF Hg]].
  rewrite ovals_cons, HF. cbn [map]. rewrite Hg. f_equal. apply IH. intros j Hj. apply H. now right.
Qed.

Section PD.
  Variables (ovf : bool) (t : ety) (op : dop) (src : list Z) (starts : list N).
  Hypothesis WF : wf_starts ovf op src starts.

  Let L := N.min (len src) (len starts).

  Lemma cap_le h : start_cap ovf op h <= h + 1.
  Proof. unfold start_cap. destruct ovf, op; lia. Qed.

  Lemma d_elem_spec from to s0 i :
    from <= i -> i < to -> to <= len src -> to <= len starts -> get starts from = Some s0 ->
    let read_from := N.min (match ago_index op s0 with Some a => a | None => 0 end) from in
    exists v, Dspec t op src starts i = Some v /\
              d_elem ovf t op starts read_from (src_range src read_from to) i = EV v.
  Proof.
    intros Hfi Hit Hts Htm Hs0 read_from. destruct WF as [Hmono Hcap].
    destruct (get_lt_some starts i) as [start Hst]; [lia|].
    destruct (get_lt_some src i) as [cur Hcur]; [lia|].
    pose proof (Hmono from i s0 start Hfi Hs0 Hst) as Hss.
    pose proof (Hcap i start ltac:(lia) Hst) as Hc. pose proof (cap_le i) as Hc1.
    assert (Hrf : read_from <= from) by (unfold read_from; lia).
    unfold d_elem, Dspec. rewrite getb_get, Hst.
    rewrite (get_src_range src read_from to i) by lia. rewrite Hcur.
    replace ((i <? len src) && (i <? len starts)) with true by lia.
    assert (Hcnt : count_panics ovf i start = false).
    { unfold count_panics. unfold start_cap in Hc. destruct ovf; [cbn [andb]; lia|reflexivity]. }
    destruct (ago_index op start) as [idx|] eqn:Hago.
    - assert (Hidx : read_from <= idx /\ idx < to).
      { unfold read_from. unfold ago_index in *. unfold start_cap in Hc. destruct op.
        - destruct (start =? 0) eqn:E0; [discriminate|]. inversion Hago; subst idx.
          destruct (s0 =? 0) eqn:E1; destruct ovf; lia.
        - inversion Hago; subst idx. destruct ovf; lia. }
      destruct Hidx as [Hi1 Hi2].
      replace (idx <? read_from) with false by lia.
      rewrite (get_src_range src read_from to idx) by lia.
      destruct (get_lt_some src idx) as [ago Hagov]; [lia|]. rewrite Hagov, Hcnt. eauto.
    - destruct op; cbn [ago_index] in Hago; [|discriminate].
      cbn [ago_default]. rewrite Hcnt. eauto.
  Qed.

  (* all four range methods (read_into_at, for_each_range_dyn_at, fold_range_at, try_fold_range_at) *)
  Lemma delta_range_spec from to :
    d_range ovf t op src starts from to = map EV (ovals (Dspec t op src starts) (range_idx L from to)).
  Proof.
    unfold d_range, range_idx, d_len, L. cbv zeta.
    replace (N.min (N.min to (len src)) (len starts)) with (N.min to (N.min (len src) (len starts))) by lia.
    set (to' := N.min to (N.min (len src) (len starts))).
    destruct (to' <=? from) eqn:E.
    - replace (N.to_nat (to' - from)) with O by lia. reflexivity.
    - unfold d_bulk. rewrite E.
      destruct (get_lt_some starts from) as [s0 Hs0]; [unfold to' in *; lia|].
      rewrite getb_get, Hs0.
      apply map_EV_ovals. intros i Hi. apply in_seqN in Hi.
      apply (d_elem_spec from to' s0 i); unfold to' in *; try lia. exact Hs0.
  Qed.

  (* consumed to the end: the formula values, no panic; with early exit after k: their first k *)
  Lemma delta_range_run from to :
    run_all (d_range ovf t op src starts from to) = Ok (ovals (Dspec t op src starts) (range_idx L from to)).
  Proof. rewrite delta_range_spec. apply run_all_EV. Qed.
  Lemma delta_range_stop from to k :
    run_stop k (d_try_fold ovf t op src starts from to)
    = Ok (take k (ovals (Dspec t op src starts) (range_idx L from to)),
          k <? len (ovals (Dspec t op src starts) (range_idx L from to))).
  Proof. unfold d_try_fold. rewrite delta_range_spec. apply run_stop_EV. Qed.

  Lemma delta_one_spec i : d_one ovf t op src starts i = Ok (Dspec t op src starts i).
  Proof.
    destruct WF as [Hmono Hcap]. unfold d_one, Dspec, d_len, src_one. rewrite !getb_get.
    destruct (len src <=? i) eqn:E1.
    { replace (i <? len src) with false by lia. reflexivity. }
    destruct (len starts <=? i) eqn:E2.
    { replace (i <? len starts) with false by lia. now rewrite andb_false_r. }
    replace ((i <? len src) && (i <? len starts)) with true by lia.
    destruct (get_lt_some starts i) as [start Hst]; [lia|]. rewrite Hst.
    destruct (get_lt_some src i) as [cur Hcur]; [lia|]. rewrite Hcur.
    pose proof (Hcap i start ltac:(lia) Hst) as Hc.
    assert (Hcnt : count_panics ovf i start = false).
    { unfold count_panics. unfold start_cap in Hc. destruct ovf; [cbn [andb]; lia|reflexivity]. }
    destruct (ago_index op start) as [idx|] eqn:Hago.
    - rewrite getb_get. destruct (get src idx); [now rewrite Hcnt|reflexivity].
    - destruct op; cbn [ago_index] in Hago; [|discriminate]. cbn [ago_default]. now rewrite Hcnt.
  Qed.

  Lemma Dspec_out_of_range i : L <= i -> Dspec t op src starts i = None.
  Proof.
    unfold L, Dspec. intros H.
    replace ((i <? len src) && (i <? len starts)) with false by lia. reflexivity.
  Qed.
  Lemma Dspec_in_range i : i < L -> exists v, Dspec t op src starts i = Some v.
  Proof.
    intros H. unfold L in H.
    destruct (get_lt_some starts i) as [s0 Hs0]; [lia|].
    destruct (d_elem_spec i (i + 1) s0 i) as [v [Hv _]]; try lia; try exact Hs0.
    eauto.
  Qed.
End PD.

(* ---- the full statement and its refutations -------------------------------------------------- *)
(* "for ALL monotone window-start mappings every range read is the formula and does not panic" *)
Definition delta_range_full : Prop :=
  forall ovf t op src starts from to, mono_starts starts ->
    run_all (d_range ovf t op src starts from to)
    = Ok (ovals (Dspec t op src starts) (range_idx (N.min (len src) (len starts)) from to)).

(* 1. an empty inclusive window (start = h + 1) with overflow checks on: `h - start + 1` panics,
      although the formula (cum[h] - cum[h] = 0) is defined *)
Lemma delta_empty_window_refuted :
  exists src starts from to,
    mono_starts starts /\
    run_all (d_range true U64 DSub src starts from to) = Panic /\
    ovals (Dspec U64 DSub src starts) (range_idx (N.min (len src) (len starts)) from to) = [0%Z] /\
    (* the same request without overflow checks is fine *)
    run_all (d_range false U64 DSub src starts from to) = Ok [0%Z].
Proof.
  exists [5%Z], [1], 0, 1. split; [|vm_compute; auto].
  intros i j a b Hij Ha Hb.
  destruct (N.eq_dec i 0) as [->|Hn]; [|apply get_some_lt in Ha; unfold len in Ha; cbn in Ha; lia].
  destruct (N.eq_dec j 0) as [->|Hn]; [|apply get_some_lt in Hb; unfold len in Hb; cbn in Hb; lia].
  rewrite Ha in Hb. inversion Hb. lia.
Qed.

(* 2. a window start running ahead of the index (monotone!): the bulk read indexes the collected
      slice out of bounds, whatever the build profile, while collect_one_at returns the formula *)
Lemma delta_start_after_index_refuted :
  exists src starts,
    mono_starts starts /\
    run_all (d_range false U64 DSub src starts 0 1) = Panic /\
    d_one false U64 DSub src starts 0 = Ok (Some 0%Z) /\
    Dspec U64 DSub src starts 0 = Some 0%Z.
Proof.
  exists [1; 2; 3]%Z, [3; 3; 3]. split; [|vm_compute; auto].
  intros i j a b Hij Ha Hb.
  assert (Hv : forall k v, get [3; 3; 3] k = Some v -> v = 3).
  { intros k v H. pose proof (get_some_lt _ _ _ H) as Hl. unfold len in Hl. cbn in Hl.
    assert (Hk : k = 0 \/ k = 1 \/ k = 2) by lia. destruct Hk as [-> | [-> | ->]]; vm_compute in H; now inversion H. }
  rewrite (Hv _ _ Ha), (Hv _ _ Hb). lia.
Qed.

Lemma delta_range_full_refuted : ~ delta_range_full.
Proof.
  intros H. destruct delta_start_after_index_refuted as [src [starts [Hm [Hp _]]]].
  rewrite (H false U64 DSub src starts 0 1 Hm) in Hp. discriminate.
Qed.

(* the hypotheses are satisfiable: a sliding window of width 2 over a cumulative source, a mapping
   longer than the source *)
Example wf_example : wf_starts true DSub [1; 3; 6; 10]%Z [0; 0; 1; 2; 3; 4].
Proof.
  split.
  - intros i j a b Hij Ha Hb.
    pose proof (get_some_lt _ _ _ Ha) as La. pose proof (get_some_lt _ _ _ Hb) as Lb.
    unfold len in La, Lb. cbn in La, Lb.
    assert (Hi : i = 0 \/ i = 1 \/ i = 2 \/ i = 3 \/ i = 4 \/ i = 5) by lia.
    assert (Hj : j = 0 \/ j = 1 \/ j = 2 \/ j = 3 \/ j = 4 \/ j = 5) by lia.
    destruct Hi as [->|[->|[->|[-> | [-> | ->]]]]]; vm_compute in Ha; inversion Ha; subst a;
    destruct Hj as [->|[->|[->|[-> | [-> | ->]]]]]; vm_compute in Hb; inversion Hb; subst b; lia.
  - intros h st Hh Hs. unfold len in Hh. cbn in Hh. unfold start_cap.
    assert (Hi : h = 0 \/ h = 1 \/ h = 2 \/ h = 3) by lia.
    destruct Hi as [->|[-> | [-> | ->]]]; vm_compute in Hs; inversion Hs; lia.
Qed.
