(* Lazy/LazyDeltaProofs.v — PROOF file for LazyDeltaVec (DeltaSub on integers, DeltaChange on u32).
   For all sources, all monotone window-start mappings whose windows do not start after their index
   (`wf_starts`: DeltaSub start <= h + 1, i.e. empty windows included; DeltaChange start <= h), of any
   length (shorter or longer than the source), with or without overflow checks:
     * every element of every range read (read_into_at, for_each_range_dyn_at, fold_range_at,
       try_fold_range_at incl. early exit) evaluates to the defining formula, nothing panics;
     * collect_one_at returns the formula, or nothing out of range;
     * read_sorted_into_at returns the formula over ANY index list, for EVERY arrangement of the reads that
       sort_unstable_by_key may produce (every permutation), in particular for the model's insertion sort;
     * cursor reads return the formula.
   A window start beyond index + 1 is outside the property (not a window); `delta_start_cap_needed` shows
   that the hypothesis cannot be dropped. *)
From Coq Require Import Sorting.Permutation.
From Anydb Require Import Common.Base Lazy.LazyBase Lazy.LazyBaseProofs Lazy.LazyFromProofs Lazy.LazyDelta.

(* the defining formula of index h *)
Definition Dspec (t : ety) (op : dop) (src : list Z) (starts : list N) (h : N) : option Z :=
  if (h <? len src) && (h <? len starts) then
    match get starts h, get src h with
    | Some start, Some cur =>
        match ago_index op start with
        | Some a => match get src a with Some ago => Some (combine t op cur ago) | None => None end
        | None => Some (combine t op cur 0%Z)
        end
    | _, _ => None
    end
  else None.

(* monotone, and no window starts after its own index; an inclusive window (DeltaSub) may be empty
   (start = h + 1) *)
Definition start_cap (op : dop) (h : N) : N := match op with DSub => h + 1 | DChg => h end.
Definition wf_starts (op : dop) (src : list Z) (starts : list N) : Prop :=
  (forall i j a b, i <= j -> get starts i = Some a -> get starts j = Some b -> a <= b) /\
  (forall h st, h < len src -> get starts h = Some st -> st <= start_cap op h).
Definition mono_starts (starts : list N) : Prop :=
  forall i j a b, i <= j -> get starts i = Some a -> get starts j = Some b -> a <= b.

Lemma nth_error_firstn_lt {A} (l : list A) n k : (k < n)%nat -> nth_error (firstn n l) k = nth_error l k.
Proof.
  revert n k; induction l as [|x l IH]; intros [|n] [|k] H; cbn; try reflexivity; try lia.
  apply IH. lia.
Qed.
Lemma nth_error_skipn_add {A} (l : list A) n k : nth_error (skipn n l) k = nth_error l (n + k).
Proof.
  revert l; induction n as [|n IH]; intros l; [reflexivity|].
  destruct l as [|x l]; cbn [skipn Nat.add nth_error].
  - now destruct k.
  - apply IH.
Qed.

Lemma get_src_range {A} (s : list A) a b i :
  a <= i -> i < b -> b <= len s -> getb (src_range s a b) (i - a) = get s i.
Proof.
  intros Hai Hib Hbl. rewrite getb_get. unfold src_range. cbv zeta.
  replace (N.min a (len s)) with a by lia. replace (N.min b (len s)) with b by lia.
  destruct (b <=? a) eqn:E; [lia|].
  unfold get, slice, take, drop. rewrite !nth_opt_nth_error.
  rewrite nth_error_firstn_lt by lia. rewrite nth_error_skipn_add. f_equal. lia.
Qed.

Lemma map_EV_ovals {B} (g : N -> ev B) (F : N -> option B) l :
  (forall i, In i l -> exists v, F i = Some v /\ g i = EV v) -> map g l = map EV (ovals F l).
Proof.
  induction l as [|i tl IH]; intros H; [reflexivity|].
  destruct (H i (or_introl eq_refl)) as [v [HF Hg]].
  rewrite ovals_cons, HF. cbn [map]. rewrite Hg. f_equal. apply IH. intros j Hj. apply H. now right.
Qed.

Section PD.
  Variables (ovf : bool) (t : ety) (op : dop) (src : list Z) (starts : list N).
  Hypothesis WF : wf_starts op src starts.

  Let L := N.min (len src) (len starts).
  Let D := Dspec t op src starts.

  (* what well-formedness gives for one index *)
  Lemma wf_facts h st :
    h < L -> get starts h = Some st ->
    count_panics ovf op h st = false /\
    (forall a, ago_index op st = Some a -> a <= h /\ a < len src) /\
    (ago_index op st = None -> op = DSub).
  Proof.
    intros Hh Hst. destruct WF as [_ Hcap]. unfold L in Hh.
    pose proof (Hcap h st ltac:(lia) Hst) as Hc. unfold start_cap in Hc.
    unfold count_panics, ago_index. destruct op.
    - split; [reflexivity|]. split; [|reflexivity]. intros a Ha. destruct (st =? 0) eqn:E; [discriminate|].
      inversion Ha; subst a. lia.
    - split; [destruct ovf; cbn [andb]; lia|]. split; [|discriminate].
      intros a Ha. inversion Ha; subst a. lia.
  Qed.

  Lemma d_elem_spec from to s0 i :
    from <= i -> i < to -> to <= len src -> to <= len starts -> get starts from = Some s0 ->
    let read_from := N.min (match ago_index op s0 with Some a => a | None => 0 end) from in
    exists v, D i = Some v /\
              d_elem ovf t op starts read_from (src_range src read_from to) i = EV v.
  Proof.
    intros Hfi Hit Hts Htm Hs0 read_from. pose proof WF as [Hmono _].
    destruct (get_lt_some starts i) as [start Hst]; [lia|].
    destruct (get_lt_some src i) as [cur Hcur]; [lia|].
    pose proof (Hmono from i s0 start Hfi Hs0 Hst) as Hss.
    destruct (wf_facts i start ltac:(unfold L; lia) Hst) as [Hcnt [Hago Hnone]].
    assert (Hrf : read_from <= from) by (unfold read_from; lia).
    unfold d_elem, D, Dspec. rewrite getb_get, Hst.
    rewrite (get_src_range src read_from to i) by lia. rewrite Hcur.
    replace ((i <? len src) && (i <? len starts)) with true by lia.
    destruct (ago_index op start) as [idx|] eqn:Hagoi.
    - destruct (Hago idx eq_refl) as [Hi2 Hi3].
      assert (Hi1 : read_from <= idx).
      { unfold read_from. unfold ago_index in *. destruct op.
        - destruct (start =? 0) eqn:E0; [discriminate|]. inversion Hagoi; subst idx.
          destruct (s0 =? 0) eqn:E1; lia.
        - inversion Hagoi; subst idx. lia. }
      replace (idx <? read_from) with false by lia.
      rewrite (get_src_range src read_from to idx) by lia.
      destruct (get_lt_some src idx) as [ago Hagov]; [lia|]. rewrite Hagov, Hcnt. eauto.
    - rewrite (Hnone eq_refl) in *. cbn [ago_default]. rewrite Hcnt. eauto.
  Qed.

  (* all four range methods (read_into_at, for_each_range_dyn_at, fold_range_at, try_fold_range_at) *)
  Lemma delta_range_spec from to :
    d_range ovf t op src starts from to = map EV (ovals D (range_idx L from to)).
  Proof.
    unfold d_range, range_idx, d_len, L. cbv zeta.
    replace (N.min (N.min to (N.min (len src) (len starts))) (len starts))
      with (N.min to (N.min (len src) (len starts))) by lia.
    set (to' := N.min to (N.min (len src) (len starts))).
    destruct (to' <=? from) eqn:E.
    - replace (N.to_nat (to' - from)) with O by lia. reflexivity.
    - unfold d_bulk. rewrite E.
      destruct (get_lt_some starts from) as [s0 Hs0]; [unfold to' in *; lia|].
      rewrite getb_get, Hs0.
      apply map_EV_ovals. intros i Hi. apply in_seqN in Hi.
      apply (d_elem_spec from to' s0 i); unfold to' in *; try lia. exact Hs0.
  Qed.

  Lemma delta_range_run from to :
    run_all (d_range ovf t op src starts from to) = Ok (ovals D (range_idx L from to)).
  Proof. rewrite delta_range_spec. apply run_all_EV. Qed.
  Lemma delta_range_stop from to k :
    run_stop k (d_try_fold ovf t op src starts from to)
    = Ok (take k (ovals D (range_idx L from to)), k <? len (ovals D (range_idx L from to))).
  Proof. unfold d_try_fold. rewrite delta_range_spec. apply run_stop_EV. Qed.

  Lemma Dspec_out_of_range i : L <= i -> D i = None.
  Proof.
    unfold L, D, Dspec. intros H.
    replace ((i <? len src) && (i <? len starts)) with false by lia. reflexivity.
  Qed.
  Lemma Dspec_in_range i : i < L -> exists v, D i = Some v.
  Proof.
    intros H. unfold L in H.
    destruct (get_lt_some starts i) as [s0 Hs0]; [lia|].
    destruct (d_elem_spec i (i + 1) s0 i) as [v [Hv _]]; try lia; try exact Hs0.
    eauto.
  Qed.

  Lemma delta_one_spec i : d_one ovf t op src starts i = Ok (D i).
  Proof.
    unfold d_one, d_len, src_one.
    destruct (N.min (len src) (len starts) <=? i) eqn:E1.
    { rewrite Dspec_out_of_range by (unfold L; lia). reflexivity. }
    destruct (len starts <=? i) eqn:E2; [lia|].
    rewrite !getb_get. unfold D, Dspec.
    replace ((i <? len src) && (i <? len starts)) with true by lia.
    destruct (get_lt_some starts i) as [start Hst]; [lia|]. rewrite Hst.
    destruct (get_lt_some src i) as [cur Hcur]; [lia|]. rewrite Hcur.
    destruct (wf_facts i start ltac:(unfold L; lia) Hst) as [Hcnt [Hago Hnone]].
    destruct (ago_index op start) as [idx|] eqn:Hagoi.
    - rewrite getb_get. destruct (get src idx); [now rewrite Hcnt|reflexivity].
    - rewrite (Hnone eq_refl) in *. cbn [ago_default]. now rewrite Hcnt.
  Qed.

  (* cursor().get over the vector: its len() is L *)
  Lemma delta_cursor_spec idx :
    cursor_gets (d_len src starts) (fun f t' => run_all (d_read_into ovf t op src starts f t')) cursor_new idx
    = Ok (map D idx).
  Proof.
    apply (cursor_gets_spec L D); [apply Dspec_in_range|apply Dspec_out_of_range| |apply cinv_new].
    intros f t'. unfold d_read_into. apply delta_range_run.
  Qed.

  (* ---------------------------------------------------------------- read_sorted_into_at *)
  (* 1. the reads built from the index list *)
  Lemma d_reads_spec idx : forall slot0,
    exists reads, d_reads op starts L slot0 idx = Some reads /\
      Forall (fun r => (slot0 <= r_slot r /\ r_slot r < slot0 + len idx) /\ r_pos r < len src) reads /\
      NoDup (map snd reads).
  Proof.
    induction idx as [|h tl IH]; intros slot0.
    - exists []. cbn [d_reads map]. repeat split; [constructor|constructor].
    - destruct (IH (slot0 + 1)) as [rest [Hr [Hf Hn]]]. cbn [d_reads]. rewrite Hr.
      assert (Hf' : Forall (fun r => (slot0 <= r_slot r /\ r_slot r < slot0 + len (h :: tl)) /\ r_pos r < len src) rest).
      { eapply Forall_impl; [|exact Hf]. intros r [[H1 H2] H3]. rewrite len_cons. repeat split; lia. }
      assert (Hnot : forall b, ~ In (slot0, b) (map snd rest)).
      { intros b Hin. apply in_map_iff in Hin as [r [Hs Hin]]. rewrite Forall_forall in Hf.
        destruct (Hf r Hin) as [[H1 _] _]. unfold r_slot in H1. rewrite Hs in H1. cbn [fst] in H1. lia. }
      destruct (h <? L) eqn:Eh; [|exists rest; auto].
      destruct (get_lt_some starts h) as [st Hst]; [unfold L in Eh; lia|].
      rewrite getb_get, Hst.
      destruct (wf_facts h st ltac:(lia) Hst) as [_ [Hago _]].
      assert (Hh : h < len src) by (unfold L in Eh; lia).
      assert (Hs0 : (slot0 <= slot0 /\ slot0 < slot0 + len (h :: tl))) by (rewrite len_cons; lia).
      destruct (ago_index op st) as [a|] eqn:Ea.
      + destruct (Hago a eq_refl) as [_ Ha].
        eexists. split; [reflexivity|]. split.
        * constructor; [cbn; auto|]. constructor; [cbn; auto|]. exact Hf'.
        * cbn [map snd]. constructor.
          { intros [Heq|Hin]; [discriminate|]. exact (Hnot true Hin). }
          constructor; [apply Hnot|exact Hn].
      + eexists. split; [reflexivity|]. split.
        * constructor; [cbn; auto|]. exact Hf'.
        * cbn [map snd]. constructor; [apply Hnot|exact Hn].
  Qed.

  (* 2. positions / val_indices: every read finds its own position, however the reads are arranged *)
  Lemma last_opt_get {A} (l : list A) p : last_opt l = Some p -> 0 < len l /\ get l (len l - 1) = Some p.
  Proof.
    unfold last_opt. destruct (rev l) as [|x r] eqn:E; [discriminate|]. intros H; inversion H; subst x.
    assert (Hl : l = rev r ++ [p]).
    { pose proof (rev_involutive l) as Hri. rewrite E in Hri. cbn [rev] in Hri. now symmetry. }
    subst l. assert (Hlen : len (rev r ++ [p]) = len (rev r) + 1) by (rewrite len_app; unfold len; cbn [length]; lia).
    rewrite Hlen. replace (len (rev r) + 1 - 1) with (len (rev r)) by lia. split; [lia|apply get_snoc].
  Qed.

  Lemma dedup_step_spec P V (r : read) : exists e,
    d_dedup_step (P, V) r = (P ++ e, V ++ [len (P ++ e) - 1]) /\
    get (P ++ e) (len (P ++ e) - 1) = Some (r_pos r) /\ 0 < len (P ++ e) /\
    (forall x, In x e -> x = r_pos r).
  Proof.
    unfold d_dedup_step.
    assert (Hsnoc : exists e, (P ++ [r_pos r], V ++ [len (P ++ [r_pos r]) - 1]) = (P ++ e, V ++ [len (P ++ e) - 1]) /\
              get (P ++ e) (len (P ++ e) - 1) = Some (r_pos r) /\ 0 < len (P ++ e) /\ (forall x, In x e -> x = r_pos r)).
    { exists [r_pos r].
      assert (Hlen : len (P ++ [r_pos r]) = len P + 1) by (rewrite len_app; unfold len; cbn [length]; lia).
      rewrite Hlen. replace (len P + 1 - 1) with (len P) by lia. split; [reflexivity|]. split; [apply get_snoc|]. split; [lia|].
      intros x [Hx|[]]. now symmetry. }
    destruct (last_opt P) as [p|] eqn:El; [|exact Hsnoc].
    destruct (p =? r_pos r) eqn:Ep; [|exact Hsnoc].
    exists []. rewrite app_nil_r. destruct (last_opt_get P p El) as [H0 Hg].
    repeat split; auto. - rewrite Hg. f_equal. lia. - intros x [].
  Qed.

  Lemma dedup_spec rs : forall P V, exists Pe Ve,
    fold_left d_dedup_step rs (P, V) = (P ++ Pe, V ++ Ve) /\
    length Ve = length rs /\
    (forall x, In x Pe -> exists r, In r rs /\ x = r_pos r) /\
    forall tail, Forall2 (fun r vi => get (P ++ Pe ++ tail) vi = Some (r_pos r)) rs Ve.
  Proof.
    induction rs as [|r rt IH]; intros P V.
    - exists [], []. cbn [fold_left]. rewrite !app_nil_r. repeat split; auto. intros x [].
    - destruct (dedup_step_spec P V r) as [e [Hs [Hg [H0 He]]]].
      cbn [fold_left]. rewrite Hs.
      destruct (IH (P ++ e) (V ++ [len (P ++ e) - 1])) as [Pe [Ve [Hf [Hl [Hin Hall]]]]].
      exists (e ++ Pe), ((len (P ++ e) - 1) :: Ve). rewrite Hf, <- !app_assoc. cbn [app length].
      repeat split; [now rewrite Hl| |].
      + intros x Hx. apply in_app_or in Hx as [Hx|Hx].
        * exists r. split; [now left|now apply He].
        * destruct (Hin x Hx) as [r' [Hr' Hx']]. exists r'. split; [now right|exact Hx'].
      + intros tail. constructor.
        * replace (P ++ (e ++ Pe) ++ tail) with ((P ++ e) ++ Pe ++ tail) by (now rewrite <- !app_assoc).
          rewrite get_app_l by lia. exact Hg.
        * specialize (Hall tail).
          replace (P ++ (e ++ Pe) ++ tail) with ((P ++ e) ++ Pe ++ tail) by (now rewrite <- !app_assoc).
          exact Hall.
  Qed.

  (* 3. current_vi / ago_vi *)
  Lemma nth_opt_set_nth_same (l : list N) n x : (n < length l)%nat -> nth_opt (set_nth l n x) n = Some x.
  Proof. revert n; induction l as [|a l IH]; intros [|n] H; cbn in *; try lia; [reflexivity|apply IH; lia]. Qed.
  Lemma nth_opt_set_nth_other (l : list N) n m x : n <> m -> nth_opt (set_nth l n x) m = nth_opt l m.
  Proof.
    revert n m; induction l as [|a l IH]; intros [|n] [|m] H; cbn; try reflexivity; try congruence.
    apply IH. congruence.
  Qed.
  Lemma length_set_nth (l : list N) n x : length (set_nth l n x) = length l.
  Proof. revert n; induction l as [|a l IH]; intros [|n]; cbn; auto. Qed.

  Lemma set_at_spec l i v : i < len l -> exists l',
    set_at l i v = Some l' /\ len l' = len l /\ get l' i = Some v /\ (forall j, j <> i -> get l' j = get l j).
  Proof.
    intros H. unfold set_at. replace (i <? len l) with true by lia. eexists. split; [reflexivity|].
    unfold len, get in *. rewrite length_set_nth. repeat split.
    - apply nth_opt_set_nth_same. lia.
    - intros j Hj. apply nth_opt_set_nth_other. lia.
  Qed.

  Lemma d_fill_spec rs : forall vis cur ago,
    length vis = length rs ->
    Forall (fun r => r_slot r < len cur /\ r_slot r < len ago) rs ->
    NoDup (map snd rs) ->
    exists cur' ago', d_fill rs vis cur ago = Some (cur', ago') /\
      len cur' = len cur /\ len ago' = len ago /\
      (forall r vi, In (r, vi) (List.combine rs vis) ->
         if r_cur r then get cur' (r_slot r) = Some vi else get ago' (r_slot r) = Some vi) /\
      (forall s, ~ In (s, true) (map snd rs) -> get cur' s = get cur s) /\
      (forall s, ~ In (s, false) (map snd rs) -> get ago' s = get ago s).
  Proof.
    induction rs as [|r rt IH]; intros vis cur ago Hlen Hsl Hnd.
    - exists cur, ago. cbn [d_fill List.combine]. repeat split; auto. intros r vi [].
    - destruct vis as [|vi vt]; [discriminate|]. cbn [length] in Hlen.
      inversion Hsl as [|? ? [Hc Ha] Hsl']; subst. cbn [map] in Hnd. inversion Hnd as [|? ? Hnotin Hnd']; subst.
      destruct r as [pos [slot b]]. cbn [d_fill]. unfold r_cur, r_slot in *. cbn [fst snd] in *.
      destruct b.
      + destruct (set_at_spec cur slot vi Hc) as [cur1 [Hs [Hl1 [Hg1 Ho1]]]]. rewrite Hs.
        destruct (IH vt cur1 ago ltac:(lia)) as [cur' [ago' [Hf [Hlc [Hla [Hin [Hfc Hfa]]]]]]]; [|exact Hnd'|].
        { eapply Forall_impl; [|exact Hsl']. intros r [H1 H2]. rewrite Hl1. auto. }
        exists cur', ago'. rewrite Hf. repeat split; [lia|lia| | |].
        * intros r vi' [Heq|Hin']; [|now apply Hin]. inversion Heq; subst. cbn [fst snd].
          rewrite Hfc by exact Hnotin. exact Hg1.
        * intros s Hs'. cbn [map snd In] in Hs'. rewrite Hfc by tauto. apply Ho1.
          intros ->. apply Hs'. now left.
        * intros s Hs'. apply Hfa. cbn [map snd In] in Hs'. tauto.
      + destruct (set_at_spec ago slot vi Ha) as [ago1 [Hs [Hl1 [Hg1 Ho1]]]]. rewrite Hs.
        destruct (IH vt cur ago1 ltac:(lia)) as [cur' [ago' [Hf [Hlc [Hla [Hin [Hfc Hfa]]]]]]]; [|exact Hnd'|].
        { eapply Forall_impl; [|exact Hsl']. intros r [H1 H2]. rewrite Hl1. auto. }
        exists cur', ago'. rewrite Hf. repeat split; [lia|lia| | |].
        * intros r vi' [Heq|Hin']; [|now apply Hin]. inversion Heq; subst. cbn [fst snd].
          rewrite Hfa by exact Hnotin. exact Hg1.
        * intros s Hs'. apply Hfc. cbn [map snd In] in Hs'. tauto.
        * intros s Hs'. cbn [map snd In] in Hs'. rewrite Hfa by tauto. apply Ho1.
          intros ->. apply Hs'. now left.
  Qed.

  Lemma in_combine_exists {A B} (l : list A) (m : list B) a :
    In a l -> length m = length l -> exists b, In (a, b) (List.combine l m).
  Proof.
    revert m; induction l as [|x l IH]; intros [|y m] Hin Hlen; try discriminate; [destruct Hin|].
    destruct Hin as [->|Hin]; [exists y; now left|].
    destruct (IH m Hin ltac:(cbn in Hlen; lia)) as [b Hb]. exists b. now right.
  Qed.
  Lemma Forall2_combine {A B} (P : A -> B -> Prop) l m a b : Forall2 P l m -> In (a, b) (List.combine l m) -> P a b.
  Proof.
    induction 1 as [|x y l m Hxy _ IH]; intros Hin; [destruct Hin|].
    destruct Hin as [Heq|Hin]; [inversion Heq; now subst|now apply IH].
  Qed.

  (* 4. the output loop, given that every read finds its value through current_vi / ago_vi *)
  Lemma d_emit_spec vals cur ago (rs : list read) :
    (forall r, In r rs -> exists vi,
        (if r_cur r then get cur (r_slot r) else get ago (r_slot r)) = Some vi /\
        getb vals vi = get src (r_pos r)) ->
    forall idx slot0 reads, d_reads op starts L slot0 idx = Some reads -> incl reads rs ->
    d_emit ovf t op starts L vals cur ago slot0 idx = map EV (ovals D idx).
  Proof.
    intros Hlook. induction idx as [|h tl IH]; intros slot0 reads Hr Hincl; [reflexivity|].
    cbn [d_reads] in Hr. destruct (d_reads op starts L (slot0 + 1) tl) as [rest|] eqn:Erest; [|discriminate].
    cbn [d_emit]. rewrite ovals_cons.
    destruct (h <? L) eqn:Eh.
    - replace (L <=? h) with false by lia.
      destruct (get_lt_some starts h) as [st Hst]; [unfold L in Eh; lia|].
      rewrite getb_get, Hst in Hr. rewrite getb_get, Hst.
      destruct (wf_facts h st ltac:(lia) Hst) as [Hcnt [Hago Hnone]].
      destruct (get_lt_some src h) as [cv Hcv]; [unfold L in Eh; lia|].
      assert (HD : D h = match ago_index op st with
                         | Some a => match get src a with Some av => Some (combine t op cv av) | None => None end
                         | None => Some (combine t op cv 0%Z) end).
      { unfold D, Dspec. replace ((h <? len src) && (h <? len starts)) with true by (unfold L in Eh; lia).
        now rewrite Hst, Hcv. }
      destruct (ago_index op st) as [a|] eqn:Ea.
      + inversion Hr; subst reads.
        destruct (Hlook (h, (slot0, true))) as [cvi [Hc1 Hc2]]; [apply Hincl; now left|].
        destruct (Hlook (a, (slot0, false))) as [avi [Ha1 Ha2]]; [apply Hincl; right; now left|].
        unfold r_cur, r_slot, r_pos in *. cbn [fst snd] in *.
        rewrite !getb_get, Hc1, Hc2, Hcv, Ha1, Ha2.
        destruct (Hago a eq_refl) as [_ Hal]. destruct (get_lt_some src a Hal) as [av Hav].
        rewrite Hav in *. rewrite Hcnt, HD. cbn [map]. f_equal.
        apply (IH (slot0 + 1) rest Erest). intros r Hin. apply Hincl. right. now right.
      + inversion Hr; subst reads.
        destruct (Hlook (h, (slot0, true))) as [cvi [Hc1 Hc2]]; [apply Hincl; now left|].
        unfold r_cur, r_slot, r_pos in *. cbn [fst snd] in *.
        rewrite !getb_get, Hc1, Hc2, Hcv. rewrite (Hnone eq_refl) in *. cbn [ago_default].
        rewrite Hcnt, HD. cbn [map]. f_equal.
        apply (IH (slot0 + 1) rest Erest). intros r Hin. apply Hincl. now right.
    - replace (L <=? h) with true by lia. inversion Hr; subst reads.
      rewrite Dspec_out_of_range by lia. now apply (IH (slot0 + 1) rest).
  Qed.

  (* 5. everything after the sort, for EVERY arrangement of the reads *)
  Lemma delta_sorted_with_spec idx reads rs :
    d_reads op starts L 0 idx = Some reads -> Permutation reads rs ->
    d_sorted_with ovf t op src starts idx rs = Ok (ovals D idx).
  Proof.
    intros Hr Hperm.
    destruct (d_reads_spec idx 0) as [reads' [Hr' [Hprops Hnd]]]. rewrite Hr in Hr'. inversion Hr'; subst reads'.
    assert (Hprops' : Forall (fun r => (0 <= r_slot r /\ r_slot r < 0 + len idx) /\ r_pos r < len src) rs)
      by (eapply Permutation_Forall; eassumption).
    assert (Hnd' : NoDup (map snd rs)) by (eapply Permutation_NoDup; [apply Permutation_map; exact Hperm|exact Hnd]).
    unfold d_sorted_with. cbv zeta.
    replace (N.min (d_len src starts) (len starts)) with L by (unfold d_len, L; lia).
    unfold d_dedup. destruct (dedup_spec rs [] []) as [Pe [Ve [Hf [Hl [Hin Hall]]]]].
    rewrite Hf. cbn [app].
    assert (Hslots : Forall (fun r => r_slot r < len (repeat 0 (length idx)) /\ r_slot r < len (repeat 0 (length idx))) rs).
    { eapply Forall_impl; [|exact Hprops']. intros r [[_ H2] _]. rewrite len_repeat. unfold len in H2. lia. }
    destruct (d_fill_spec rs Ve _ _ Hl Hslots Hnd') as [cur [ago [Hfill [_ [_ [Hlk _]]]]]].
    rewrite Hfill.
    assert (Hpos : Forall (fun x => exists v, get src x = Some v) Pe).
    { apply Forall_forall. intros x Hx. destruct (Hin x Hx) as [r [Hr1 ->]].
      rewrite Forall_forall in Hprops'. apply get_lt_some. apply (Hprops' r Hr1). }
    rewrite (d_emit_spec (src_sorted src Pe) cur ago rs) with (reads := reads).
    - apply run_all_EV.
    - intros r Hr1. destruct (in_combine_exists rs Ve r Hr1 Hl) as [vi Hvi]. exists vi. split.
      + pose proof (Hlk r vi Hvi) as Hk. destruct (r_cur r); exact Hk.
      + specialize (Hall []). rewrite app_nil_r in Hall. cbn [app] in Hall.
        pose proof (Forall2_combine _ _ _ _ _ Hall Hvi) as Hg.
        rewrite getb_get, src_sorted_ovals, get_ovals_total by exact Hpos. now rewrite Hg.
    - exact Hr.
    - intros r Hr1. eapply Permutation_in; eassumption.
  Qed.

  (* the model's sort is one such arrangement *)
  Lemma ins_read_perm r l : Permutation (r :: l) (ins_read r l).
  Proof.
    induction l as [|x tl IH]; cbn [ins_read]; [reflexivity|].
    destruct (r_pos r <=? r_pos x); [reflexivity|].
    etransitivity; [apply perm_swap|]. now constructor.
  Qed.
  Lemma sort_reads_perm l : Permutation l (sort_reads l).
  Proof.
    unfold sort_reads. induction l as [|r tl IH]; cbn [fold_right]; [reflexivity|].
    etransitivity; [|apply ins_read_perm]. now constructor.
  Qed.

  Lemma delta_sorted_spec idx : d_sorted ovf t op src starts idx = Ok (ovals D idx).
  Proof.
    unfold d_sorted. destruct idx as [|i0 tl]; [reflexivity|]. cbv zeta.
    replace (N.min (d_len src starts) (len starts)) with L by (unfold d_len, L; lia).
    destruct (d_reads_spec (i0 :: tl) 0) as [reads [Hr _]]. rewrite Hr.
    apply (delta_sorted_with_spec (i0 :: tl) reads); [exact Hr|apply sort_reads_perm].
  Qed.
End PD.

(* every outcome of sort_unstable_by_key is a permutation of the reads: the result does not depend on it *)
Lemma delta_sorted_any_order ovf t op src starts idx reads rs :
  wf_starts op src starts ->
  d_reads op starts (N.min (len src) (len starts)) 0 idx = Some reads -> Permutation reads rs ->
  d_sorted_with ovf t op src starts idx rs = Ok (ovals (Dspec t op src starts) idx).
Proof. intros WF. now apply delta_sorted_with_spec. Qed.

(* ---- why the cap on the window start is a hypothesis ---------------------------------------------
   a start running ahead of the index by more than an empty window (monotone!) is not a window; the
   bulk read then indexes the collected slice out of bounds while collect_one_at still answers *)
Lemma delta_start_cap_needed :
  exists src starts,
    mono_starts starts /\ ~ wf_starts DSub src starts /\
    run_all (d_range false U64 DSub src starts 0 1) = Panic /\
    d_one false U64 DSub src starts 0 = Ok (Some 0%Z).
Proof.
  exists [1; 2; 3]%Z, [3; 3; 3]. split; [|split; [|vm_compute; auto]].
  - intros i j a b Hij Ha Hb.
    assert (Hv : forall k v, get [3; 3; 3] k = Some v -> v = 3).
    { intros k v H. pose proof (get_some_lt _ _ _ H) as Hl. unfold len in Hl. cbn in Hl.
      assert (Hk : k = 0 \/ k = 1 \/ k = 2) by lia. destruct Hk as [-> | [-> | ->]]; vm_compute in H; now inversion H. }
    rewrite (Hv _ _ Ha), (Hv _ _ Hb). lia.
  - intros [_ Hcap]. specialize (Hcap 0 3). unfold len, start_cap in Hcap. cbn in Hcap.
    specialize (Hcap ltac:(lia) eq_refl). lia.
Qed.

(* empty windows (start = h + 1) are fine with and without overflow checks (before /repo commit
   a89006f `h - start + 1` panicked when checks were on) *)
Example delta_empty_window ovf : run_all (d_range ovf U64 DSub [5%Z] [1] 0 1) = Ok [0%Z].
Proof. destruct ovf; vm_compute; reflexivity. Qed.

(* the hypotheses are satisfiable: a sliding window of width 2 over a cumulative source, with an empty
   window, a mapping longer than the source *)
Example wf_example : wf_starts DSub [1; 3; 6; 10]%Z [0; 0; 1; 4; 4; 4].
Proof.
  split.
  - intros i j a b Hij Ha Hb.
    pose proof (get_some_lt _ _ _ Ha) as La. pose proof (get_some_lt _ _ _ Hb) as Lb.
    unfold len in La, Lb. cbn in La, Lb.
    assert (Hi : i = 0 \/ i = 1 \/ i = 2 \/ i = 3 \/ i = 4 \/ i = 5) by lia.
    assert (Hj : j = 0 \/ j = 1 \/ j = 2 \/ j = 3 \/ j = 4 \/ j = 5) by lia.
    destruct Hi as [-> | [-> | [-> | [-> | [-> | ->]]]]]; vm_compute in Ha; inversion Ha; subst a;
    destruct Hj as [-> | [-> | [-> | [-> | [-> | ->]]]]]; vm_compute in Hb; inversion Hb; subst b; lia.
  - intros h st Hh Hs. unfold len in Hh. cbn in Hh. unfold start_cap.
    assert (Hi : h = 0 \/ h = 1 \/ h = 2 \/ h = 3) by lia.
    destruct Hi as [-> | [-> | [-> | ->]]]; vm_compute in Hs; inversion Hs; lia.
Qed.
Example sorted_example :
  d_sorted true U64 DSub [1; 3; 6; 10]%Z [0; 0; 1; 4; 4; 4] [0; 2; 2; 3; 7] = Ok [1; 5; 5; 0]%Z.
Proof. vm_compute. reflexivity. Qed.
