(* Lazy/LazyBaseProofs.v — PROOF file: lemmas about the source contract, element streams and the
   specification vocabulary shared by the C15 theorems. *)
From Anydb Require Import Common.Base Gen.LazyConsts Lazy.LazyBase.

(* "map formula over the indices at which it is defined" *)
Definition ovals {B} (F : N -> option B) (idx : list N) : list B :=
  flat_map (fun i => match F i with Some v => [v] | None => [] end) idx.

Lemma ovals_cons {B} (F : N -> option B) i tl :
  ovals F (i :: tl) = match F i with Some v => v :: ovals F tl | None => ovals F tl end.
Proof. unfold ovals. cbn [flat_map]. destruct (F i); reflexivity. Qed.

Lemma get_none_iff {A} (s : list A) i : get s i = None <-> len s <= i.
Proof.
  unfold get, len. rewrite nth_opt_nth_error, nth_error_None. lia.
Qed.
Lemma get_some_lt {A} (s : list A) i v : get s i = Some v -> i < len s.
Proof.
  intros H. destruct (N.lt_ge_cases i (len s)) as [Hl|Hl]; [exact Hl|].
  apply get_none_iff in Hl. congruence.
Qed.
Lemma get_lt_some {A} (s : list A) i : i < len s -> exists v, get s i = Some v.
Proof.
  intros H. destruct (get s i) eqn:E; [eauto|]. apply get_none_iff in E. lia.
Qed.
Lemma getb_get {A} (l : list A) i : getb l i = get l i.
Proof.
  unfold getb. destruct (i <? len l) eqn:E; [reflexivity|].
  symmetry. apply get_none_iff. lia.
Qed.

Lemma nth_error_skipn_cons {A} (s : list A) n v :
  nth_error s n = Some v -> skipn n s = v :: skipn (S n) s.
Proof.
  revert n; induction s as [|x s IH]; intros [|n] H; cbn in *; try discriminate.
  - now inversion H.
  - now apply IH.
Qed.

Lemma src_range_nil {A} (s : list A) from to : to <= from -> src_range s from to = [].
Proof.
  intros H. unfold src_range. cbv zeta.
  destruct (N.min to (len s) <=? N.min from (len s)) eqn:E; [reflexivity|lia].
Qed.

Lemma src_range_step {A} (s : list A) from to : from < to ->
  src_range s from to =
  match get s from with Some v => v :: src_range s (from + 1) to | None => [] end.
Proof.
  intros Hft. destruct (get s from) as [v|] eqn:G.
  - pose proof (get_some_lt _ _ _ G) as Hl.
    unfold src_range. cbv zeta.
    replace (N.min from (len s)) with from by lia.
    replace (N.min (from + 1) (len s)) with (from + 1) by lia.
    set (t := N.min to (len s)).
    assert (Ht : from < t) by (unfold t; lia).
    destruct (t <=? from) eqn:E1; [lia|].
    unfold slice, take, drop.
    unfold get in G. rewrite nth_opt_nth_error in G.
    rewrite (nth_error_skipn_cons _ _ _ G).
    replace (N.to_nat (t - from)) with (S (N.to_nat (t - (from + 1)))) by lia.
    cbn [firstn]. f_equal.
    destruct (t <=? from + 1) eqn:E2.
    + replace (N.to_nat (t - (from + 1))) with O by lia. reflexivity.
    + replace (N.to_nat (from + 1)) with (S (N.to_nat from)) by lia. reflexivity.
  - apply get_none_iff in G. unfold src_range. cbv zeta.
    destruct (N.min to (len s) <=? N.min from (len s)) eqn:E; [reflexivity|lia].
Qed.

(* src_range is "the source values at from, from+1, … while they exist" *)
Lemma src_range_ovals {A} (s : list A) n from :
  src_range s from (from + N.of_nat n) = ovals (get s) (seqN from n).
Proof.
  revert from; induction n as [|n IH]; intros from.
  - cbn [seqN ovals flat_map]. apply src_range_nil. lia.
  - cbn [seqN]. rewrite ovals_cons, src_range_step by lia.
    destruct (get s from) as [v|] eqn:G.
    + f_equal. replace (from + N.of_nat (S n)) with (from + 1 + N.of_nat n) by lia. apply IH.
    + (* beyond the end: everything after is undefined as well *)
      clear IH. revert from G. induction n as [|n IHn]; intros from G; [reflexivity|].
      cbn [seqN]. rewrite ovals_cons.
      assert (G' : get s (from + 1) = None) by (apply get_none_iff; apply get_none_iff in G; lia).
      rewrite G'. apply IHn. exact G'.
Qed.

Lemma ovals_none {B} (F : N -> option B) idx : (forall i, In i idx -> F i = None) -> ovals F idx = [].
Proof.
  induction idx as [|i tl IH]; intros H; [reflexivity|].
  rewrite ovals_cons, (H i) by (left; reflexivity). apply IH. intros j Hj. apply H. now right.
Qed.

Lemma ovals_ext {B} (F G : N -> option B) idx : (forall i, In i idx -> F i = G i) -> ovals F idx = ovals G idx.
Proof.
  induction idx as [|i tl IH]; intros H; [reflexivity|].
  rewrite !ovals_cons, (H i) by (left; reflexivity).
  rewrite IH by (intros j Hj; apply H; now right). reflexivity.
Qed.

Lemma ovals_app {B} (F : N -> option B) a b : ovals F (a ++ b) = ovals F a ++ ovals F b.
Proof. unfold ovals. apply flat_map_app. Qed.

Lemma src_sorted_ovals {A} (s : list A) idx : src_sorted s idx = ovals (get s) idx.
Proof.
  unfold src_sorted, ovals. apply flat_map_ext. intros i. now rewrite getb_get.
Qed.

(* element streams *)
Lemma run_all_EV {A} (l : list A) : run_all (map EV l) = Ok l.
Proof. induction l as [|a l IH]; cbn [map run_all]; [reflexivity|]. now rewrite IH. Qed.

Lemma take_map {A B} (f : A -> B) n l : take n (map f l) = map f (take n l).
Proof. unfold take. apply firstn_map. Qed.

Lemma run_stop_EV {A} (k : N) (l : list A) :
  run_stop k (map EV l) = Ok (take k l, k <? len l).
Proof.
  unfold run_stop. rewrite take_map, run_all_EV.
  assert (Hlen : len (map (@EV A) l) = len l) by (unfold len; now rewrite map_length).
  rewrite Hlen, len_take.
  f_equal. f_equal.
  - unfold take. rewrite firstn_firstn.
    destruct (N.le_gt_cases (len l) k) as [H|H].
    + rewrite !firstn_all2; [reflexivity| |]; unfold len in *; lia.
    + f_equal. lia.
  - lia.
Qed.

Lemma seqN_app from a b : seqN from (a + b) = seqN from a ++ seqN (from + N.of_nat a) b.
Proof.
  revert from; induction a as [|a IH]; intros from; cbn [seqN Nat.add app].
  - f_equal. lia.
  - f_equal. rewrite IH. f_equal. f_equal. lia.
Qed.

Lemma Forall_seqN (P : N -> Prop) from n :
  (forall i, from <= i < from + N.of_nat n -> P i) -> Forall P (seqN from n).
Proof. intros H. apply Forall_forall. intros x Hx. apply H. now apply in_seqN. Qed.

(* ---- indexing lemmas ------------------------------------------------------------------------ *)
Lemma get_cons {A} (x : A) l i : get (x :: l) i = if i =? 0 then Some x else get l (i - 1).
Proof.
  unfold get. destruct (i =? 0) eqn:E.
  - replace (N.to_nat i) with O by lia. reflexivity.
  - replace (N.to_nat i) with (S (N.to_nat (i - 1))) by lia. reflexivity.
Qed.
Lemma get_app_l {A} (a b : list A) i : i < len a -> get (a ++ b) i = get a i.
Proof.
  intros H. unfold get, len in *. rewrite !nth_opt_nth_error. apply nth_error_app1. lia.
Qed.
Lemma get_app_r {A} (a b : list A) j : get (a ++ b) (len a + j) = get b j.
Proof.
  unfold get, len. rewrite !nth_opt_nth_error. rewrite nth_error_app2 by lia. f_equal. lia.
Qed.
Lemma get_snoc {A} (a : list A) x : get (a ++ [x]) (len a) = Some x.
Proof. replace (len a) with (len a + 0) by lia. rewrite get_app_r. reflexivity. Qed.
Lemma get_in {A} (l : list A) i v : get l i = Some v -> In v l.
Proof. unfold get. rewrite nth_opt_nth_error. apply nth_error_In. Qed.
Lemma get_seqN a k j : j < N.of_nat k -> get (seqN a k) j = Some (a + j).
Proof.
  revert a j; induction k as [|k IH]; intros a j H; [lia|].
  cbn [seqN]. rewrite get_cons. destruct (j =? 0) eqn:E.
  - f_equal. lia.
  - rewrite IH by lia. f_equal. lia.
Qed.

(* a list of formula values over indices where the formula is defined is indexed like the index list *)
Lemma get_ovals_total {B} (F : N -> option B) l j :
  Forall (fun x => exists v, F x = Some v) l ->
  get (ovals F l) j = match get l j with Some x => F x | None => None end.
Proof.
  intros H. revert j. induction H as [|x tl [v Hv] _ IH]; intros j.
  - unfold get. cbn. now destruct (N.to_nat j).
  - rewrite ovals_cons, Hv, !get_cons. destruct (j =? 0); [now rewrite Hv|apply IH].
Qed.
Lemma len_ovals_total {B} (F : N -> option B) l :
  Forall (fun x => exists v, F x = Some v) l -> len (ovals F l) = len l.
Proof.
  induction 1 as [|x tl [v Hv] _ IH]; [reflexivity|].
  rewrite ovals_cons, Hv, !len_cons, IH. reflexivity.
Qed.

Lemma flat_map_opt_map {B} (F : N -> option B) idx :
  flat_map (fun o : option B => match o with Some v => [v] | None => [] end) (map F idx) = ovals F idx.
Proof. unfold ovals. induction idx as [|i tl IH]; [reflexivity|]. cbn [map flat_map]. now rewrite IH. Qed.

(* ---- Cursor and the default read_sorted_into_at over any vector whose read_into_at is the formula ---- *)
Section CursorSpec.
  Context {T : Type} (n : N) (F : N -> option T) (rd : N -> N -> res unit (list T)).
  Hypothesis Fdef : forall i, i < n -> exists v, F i = Some v.
  Hypothesis Fnone : forall i, n <= i -> F i = None.
  Hypothesis Hrd : forall f t, rd f t = Ok (ovals F (seqN f (N.to_nat (N.min t n - f)))).

  Definition cinv (c : cursor) : Prop :=
    exists k, c_buf c = ovals F (seqN (c_start c) k) /\ c_start c + N.of_nat k <= n.

  Lemma seq_defined a k : a + N.of_nat k <= n -> Forall (fun x => exists v, F x = Some v) (seqN a k).
  Proof. intros H. apply Forall_seqN. intros i Hi. apply Fdef. lia. Qed.

  Lemma cursor_get_spec c i : cinv c -> exists c', cursor_get n rd c i = Ok (c', F i) /\ cinv c'.
  Proof.
    intros [k [Hb Hk]]. unfold cursor_get.
    destruct (n <=? i) eqn:E.
    { exists c. rewrite Fnone by lia. split; [reflexivity|exists k; auto]. }
    pose proof (seq_defined _ _ Hk) as Hdef.
    assert (Hlen : len (c_buf c) = N.of_nat k).
    { rewrite Hb, len_ovals_total by exact Hdef. unfold len. now rewrite seqN_length. }
    rewrite Hlen.
    destruct ((c_start c <=? i) && (i <? c_start c + N.of_nat k)) eqn:Ein.
    - rewrite getb_get, Hb, get_ovals_total by exact Hdef.
      rewrite get_seqN by lia. replace (c_start c + (i - c_start c)) with i by lia.
      destruct (Fdef i) as [v Hv]; [lia|]. rewrite Hv. exists c. split; [reflexivity|exists k; auto].
    - set (aligned := i / READ_CHUNK_SIZE * READ_CHUNK_SIZE).
      set (e := N.min (aligned + READ_CHUNK_SIZE) n).
      assert (Hal : aligned <= i /\ i < aligned + READ_CHUNK_SIZE).
      { unfold aligned, READ_CHUNK_SIZE. lia. }
      rewrite Hrd. replace (N.min e n) with e by (unfold e; lia).
      set (k' := N.to_nat (e - aligned)).
      assert (Hk' : aligned + N.of_nat k' <= n /\ i - aligned < N.of_nat k') by (unfold k', e; lia).
      pose proof (seq_defined aligned k' (proj1 Hk')) as Hdef'.
      assert (Hg : getb (ovals F (seqN aligned k')) (i - aligned) = F i).
      { rewrite getb_get, get_ovals_total by exact Hdef'. rewrite get_seqN by lia. f_equal. lia. }
      destruct (Fdef i) as [v Hv]; [lia|].
      destruct (ovals F (seqN aligned k')) as [|b0 bt] eqn:Eb.
      + pose proof (len_ovals_total F _ Hdef') as Hl. rewrite Eb in Hl.
        unfold len in Hl. rewrite seqN_length in Hl. cbn [length] in Hl. lia.
      + rewrite Hg, Hv. eexists. split; [reflexivity|].
        exists k'. cbn [c_start c_buf]. split; [now rewrite Eb|lia].
  Qed.

  Lemma cursor_gets_spec idx c : cinv c -> cursor_gets n rd c idx = Ok (map F idx).
  Proof.
    revert c; induction idx as [|i tl IH]; intros c Hc; [reflexivity|].
    cbn [cursor_gets map]. destruct (cursor_get_spec c i Hc) as [c' [Hg Hc']].
    rewrite Hg, (IH c' Hc'). reflexivity.
  Qed.

  Lemma cinv_new : cinv cursor_new.
  Proof using. clear Hrd Fnone Fdef rd. exists O. cbn. split; [reflexivity|lia]. Qed.

  (* any index list, in any order *)
  Lemma default_read_sorted_spec idx : default_read_sorted n rd idx = Ok (ovals F idx).
  Proof.
    unfold default_read_sorted. rewrite (cursor_gets_spec idx _ cinv_new). now rewrite flat_map_opt_map.
  Qed.
End CursorSpec.
