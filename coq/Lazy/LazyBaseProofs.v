(* Lazy/LazyBaseProofs.v — PROOF file: lemmas about the source contract, element streams and the
   specification vocabulary shared by the C15 theorems. *)
From Anydb Require Import Common.Base Lazy.LazyBase.

(* "map formula over the indices at which it is defined" *)
Definition ovals {B} (F : N -> option B) (idx : list N) : list B :=
  flat_map (fun i => match F i with Some v => [v] | None => [] end) idx.

Lemma ovals_cons {B} (F : N -> option B) i tl :
  ovals F (i :: tl) = match F i with Some v => v :: ovals F tl | None => ovals F tl end.
Proof. unfold ovals. cbn [flat_map]. destruct (F i); reflexivity. Qed.

Lemma get_none_iff {A} (s : list A) i : get s i = None <-> len s <= i.
Proof.
  unfold get, len. rewrite nth_opt_nth_error, nth_error_None. lia.
Qed.
Lemma get_some_lt {A} (s : list A) i v : get s i = Some v -> i < len s.
Proof.
  intros H. destruct (N.lt_ge_cases i (len s)) as [Hl|Hl]; [exact Hl|].
  apply get_none_iff in Hl. congruence.
Qed.
Lemma get_lt_some {A} (s : list A) i : i < len s -> exists v, get s i = Some v.
Proof.
  intros H. destruct (get s i) eqn:E; [eauto|]. apply get_none_iff in E. lia.
Qed.
Lemma getb_get {A} (l : list A) i : getb l i = get l i.
Proof.
  unfold getb. destruct (i <? len l) eqn:E; [reflexivity|].
  symmetry. apply get_none_iff. lia.
Qed.

Lemma nth_error_skipn_cons {A} (s : list A) n v :
  nth_error s n = Some v -> skipn n s = v :: skipn (S n) s.
Proof.
  revert n; induction s as [|x s IH]; intros [|n] H; cbn in *; try discriminate.
  - now inversion H.
  - now apply IH.
Qed.

Lemma src_range_nil {A} (s : list A) from to : to <= from -> src_range s from to = [].
Proof.
  intros H. unfold src_range. cbv zeta.
  destruct (N.min to (len s) <=? N.min from (len s)) eqn:E; [reflexivity|lia].
Qed.

Lemma src_range_step {A} (s : list A) from to : from < to ->
  src_range s from to =
  match get s from with Some v => v :: src_range s (from + 1) to | None => [] end.
Proof.
  intros Hft. destruct (get s from) as [v|] eqn:G.
  - pose proof (get_some_lt _ _ _ G) as Hl.
    unfold src_range. cbv zeta.
    replace (N.min from (len s)) with from by lia.
    replace (N.min (from + 1) (len s)) with (from + 1) by lia.
    set (t := N.min to (len s)).
    assert (Ht : from < t) by (unfold t; lia).
    destruct (t <=? from) eqn:E1; [lia|].
    unfold slice, take, drop.
    unfold get in G. rewrite nth_opt_nth_error in G.
    rewrite (nth_error_skipn_cons _ _ _ G).
    replace (N.to_nat (t - from)) with (S (N.to_nat (t - (from + 1)))) by lia.
    cbn [firstn]. f_equal.
    destruct (t <=? from + 1) eqn:E2.
    + replace (N.to_nat (t - (from + 1))) with O by lia. reflexivity.
    + replace (N.to_nat (from + 1)) with (S (N.to_nat from)) by lia. reflexivity.
  - apply get_none_iff in G. unfold src_range. cbv zeta.
    destruct (N.min to (len s) <=? N.min from (len s)) eqn:E; [reflexivity|lia].
Qed.

(* src_range is "the source values at from, from+1, … while they exist" *)
Lemma src_range_ovals {A} (s : list A) n from :
  src_range s from (from + N.of_nat n) = ovals (get s) (seqN from n).
Proof.
  revert from; induction n as [|n IH]; intros from.
  - cbn [seqN ovals flat_map]. apply src_range_nil. lia.
  - cbn [seqN]. rewrite ovals_cons, src_range_step by lia.
    destruct (get s from) as [v|] eqn:G.
    + f_equal. replace (from + N.of_nat (S n)) with (from + 1 + N.of_nat n) by lia. apply IH.
    + (* beyond the end: everything after is undefined as well *)
      clear IH. revert from G. induction n as [|n IHn]; intros from G; [reflexivity|].
      cbn [seqN]. rewrite ovals_cons.
      assert (G' : get s (from + 1) = None) by (apply get_none_iff; apply get_none_iff in G; lia).
      rewrite G'. apply IHn. exact G'.
Qed.

Lemma ovals_none {B} (F : N -> option B) idx : (forall i, In i idx -> F i = None) -> ovals F idx = [].
Proof.
  induction idx as [|i tl IH]; intros H; [reflexivity|].
  rewrite ovals_cons, (H i) by (left; reflexivity). apply IH. intros j Hj. apply H. now right.
Qed.

Lemma ovals_ext {B} (F G : N -> option B) idx : (forall i, In i idx -> F i = G i) -> ovals F idx = ovals G idx.
Proof.
  induction idx as [|i tl IH]; intros H; [reflexivity|].
  rewrite !ovals_cons, (H i) by (left; reflexivity).
  rewrite IH by (intros j Hj; apply H; now right). reflexivity.
Qed.

Lemma ovals_app {B} (F : N -> option B) a b : ovals F (a ++ b) = ovals F a ++ ovals F b.
Proof. unfold ovals. apply flat_map_app. Qed.

Lemma src_sorted_ovals {A} (s : list A) idx : src_sorted s idx = ovals (get s) idx.
Proof.
  unfold src_sorted, ovals. apply flat_map_ext. intros i. now rewrite getb_get.
Qed.

(* element streams *)
Lemma run_all_EV {A} (l : list A) : run_all (map EV l) = Ok l.
Proof. induction l as [|a l IH]; cbn [map run_all]; [reflexivity|]. now rewrite IH. Qed.

Lemma take_map {A B} (f : A -> B) n l : take n (map f l) = map f (take n l).
Proof. unfold take. apply firstn_map. Qed.

Lemma run_stop_EV {A} (k : N) (l : list A) :
  run_stop k (map EV l) = Ok (take k l, k <? len l).
Proof.
  unfold run_stop. rewrite take_map, run_all_EV.
  assert (Hlen : len (map (@EV A) l) = len l) by (unfold len; now rewrite map_length).
  rewrite Hlen, len_take.
  f_equal. f_equal.
  - unfold take. rewrite firstn_firstn.
    destruct (N.le_gt_cases (len l) k) as [H|H].
    + rewrite !firstn_all2; [reflexivity| |]; unfold len in *; lia.
    + f_equal. lia.
  - lia.
Qed.

Lemma seqN_app from a b : seqN from (a + b) = seqN from a ++ seqN (from + N.of_nat a) b.
Proof.
  revert from; induction a as [|a IH]; intros from; cbn [seqN Nat.add app].
  - f_equal. lia.
  - f_equal. rewrite IH. f_equal. f_equal. lia.
Qed.

Lemma Forall_seqN (P : N -> Prop) from n :
  (forall i, from <= i < from + N.of_nat n -> P i) -> Forall P (seqN from n).
Proof. intros H. apply Forall_forall. intros x Hx. apply H. now apply in_seqN. Qed.
