(* Lazy/LazyAgg.v — MODEL of LazyAggVec<I, Option<T>, SI, SI, T, Sparse>
   (variants/lazy/agg/{mod,readable,any_vec,fold,sparse}.rs).  Output index idx covers the source
   positions [mapping[idx], mapping[idx+1]) (the last one up to source.len()); its value is
   Some(last source value of the group) or None for an empty group. *)
From Anydb Require Import Common.Base Lazy.LazyBase.

Section Agg.
  Variable src : list Z.
  Variable mapping : list N.            (* (self.mapping)() *)

  (* agg/any_vec.rs:29 *)
  Definition a_len : N := len mapping.

  (* sparse.rs:24-40: the loop building `indices` and `slot_map` (next_first clamped by `.min(source_len)`);
     None = mapping[idx] out of bounds *)
  Fixpoint a_build (source_len : N) (idxs : list N) (indices : list N) (slot_map : list (option N))
    : option (list N * list (option N)) :=
    match idxs with
    | [] => Some (indices, slot_map)
    | idx :: tl =>
        match getb mapping idx with
        | None => None
        | Some current_first =>
            let next_first := N.min (match getb mapping (idx + 1) with Some h => h | None => source_len end) source_len in
            if (next_first =? 0) || (next_first <=? current_first) then
              a_build source_len tl indices (slot_map ++ [None])
            else
              a_build source_len tl (indices ++ [next_first - 1]) (slot_map ++ [Some (len indices)])
        end
    end.

  (* sparse.rs:12 try_fold (from < to <= mapping.len() at every call site) *)
  Definition a_try_fold (from to : N) : list (ev (option Z)) :=
    let source_len := len src in
    match a_build source_len (seqN from (N.to_nat (to - from))) [] [] with
    | None => [EP]
    | Some (indices, slot_map) =>
        let values := src_sorted src indices in
        map (fun slot => match slot with
                         | None => EV None
                         | Some vi => match getb values vi with Some v => EV (Some v) | None => EP end   (* values[vi] *)
                         end) slot_map
    end.

  (* agg/readable.rs:14/24/34/50: all four clamp by mapping.len(), return when from >= to, then
     Strat::fold / Strat::try_fold (fold.rs:20 fold = try_fold with an infallible closure) *)
  Definition a_range (from to : N) : list (ev (option Z)) :=
    let to := N.min to a_len in
    if to <=? from then [] else a_try_fold from to.
  Definition a_read_into := a_range.
  Definition a_for_each := a_range.
  Definition a_fold := a_range.
  Definition a_try_fold_range := a_range.

  (* agg/readable.rs:63 collect_one_at + sparse.rs:47 collect_one *)
  Definition a_one (index : N) : res unit (option (option Z)) :=
    if a_len <=? index then Ok None else
    match getb mapping index with
    | None => Panic
    | Some current_first =>
        let source_len := len src in
        let next_first := N.min (match getb mapping (index + 1) with Some h => h | None => source_len end) source_len in
        if (next_first =? 0) || (next_first <=? current_first) then Ok (Some None)
        else Ok (Some (src_one src (next_first - 1)))
    end.

  (* read_sorted_into_at is not overridden: readable.rs:360 default over a Cursor on the vector itself *)
  Definition a_sorted (idx : list N) : res unit (list (option Z)) :=
    default_read_sorted a_len (fun f t => run_all (a_read_into f t)) idx.
End Agg.

(* ordering of Option<T> (derived PartialOrd: None < Some) as min_at / max_at use it *)
Definition optz_le (a b : option Z) : bool :=
  match a, b with
  | None, _ => true
  | Some _, None => false
  | Some x, Some y => (x <=? y)%Z
  end.
