(* Lazy/LazyFrom.v — MODEL of LazyVecFrom1 / From2 / From3 (variants/lazy/from{1,2,3}/{any_vec,readable}.rs).
   Sources are lists; `f` is the vector's `compute` function pointer (total).  Every read method is
   transcribed branch for branch; none of them can panic on a hole-free source, so the results are
   plain lists / options. *)
From Anydb Require Import Common.Base Lazy.LazyBase.

Section From1.
  Context {A B : Type}.
  Variable f : N -> A -> B.
  Variable s : list A.

  (* from1/any_vec.rs:25 *)
  Definition f1_len : N := len s.
  (* from1/readable.rs:22 for_each_range_dyn_at: to clamped, the source iterates [from,to) itself *)
  Definition f1_for_each (from to : N) : list B :=
    let to := N.min to f1_len in
    mapi_from from f (src_range s from to).
  (* from1/readable.rs:15 read_into_at: clamp, reserve(to.saturating_sub(from)), for_each_range_dyn_at *)
  Definition f1_read_into (from to : N) : list B :=
    let to := N.min to f1_len in
    f1_for_each from to.
  (* from1/readable.rs:44 try_fold_range_at (fold_range_at delegates to it) *)
  Definition f1_try_fold (from to : N) : list B :=
    let to := N.min to f1_len in
    if to <=? from then [] else
    mapi_from from f (src_range s from to).
  Definition f1_fold := f1_try_fold.
  (* from1/readable.rs:66 collect_one_at: no own bound check *)
  Definition f1_one (index : N) : option B :=
    match src_one s index with Some v => Some (f index v) | None => None end.
  (* from1/readable.rs:71 read_sorted_into_at: indices zipped with what the source returned *)
  Definition f1_sorted (idx : list N) : list B :=
    map (fun p => f (fst p) (snd p)) (combine idx (src_sorted s idx)).
End From1.

Section From2.
  Context {A1 A2 B : Type}.
  Variable f : N -> A1 -> A2 -> B.
  Variables (c1 c2 : bool).            (* s1_counts / s2_counts: the source has the vector's index type *)
  Variable s1 : list A1.
  Variable s2 : list A2.

  (* from2/any_vec.rs:29 *)
  Definition f2_len : N :=
    N.min (if c1 then len s1 else usize_max) (if c2 then len s2 else usize_max).
  (* from2/readable.rs:23 *)
  Definition f2_for_each (from to : N) : list B :=
    let to := N.min to f2_len in
    let buf1 := src_range s1 from to in
    let buf2 := src_range s2 from to in
    mapi_from from (fun i p => f i (fst p) (snd p)) (combine buf1 buf2).
  Definition f2_read_into (from to : N) : list B :=
    let to := N.min to f2_len in
    f2_for_each from to.
  (* from2/readable.rs:49 *)
  Definition f2_try_fold (from to : N) : list B :=
    let to := N.min to f2_len in
    if to <=? from then [] else
    let buf1 := src_range s1 from to in
    let buf2 := src_range s2 from to in
    mapi_from from (fun i p => f i (fst p) (snd p)) (combine buf1 buf2).
  Definition f2_fold := f2_try_fold.
  (* from2/readable.rs:72 *)
  Definition f2_one (index : N) : option B :=
    if f2_len <=? index then None else
    match src_one s1 index with
    | None => None
    | Some v1 => match src_one s2 index with None => None | Some v2 => Some (f index v1 v2) end
    end.
  (* from2/readable.rs:81 *)
  Definition f2_sorted (idx : list N) : list B :=
    let vals1 := src_sorted s1 idx in
    let vals2 := src_sorted s2 idx in
    map (fun p => f (fst p) (fst (snd p)) (snd (snd p))) (combine idx (combine vals1 vals2)).
End From2.

Section From3.
  Context {A1 A2 A3 B : Type}.
  Variable f : N -> A1 -> A2 -> A3 -> B.
  Variables (c1 c2 c3 : bool).
  Variable s1 : list A1.
  Variable s2 : list A2.
  Variable s3 : list A3.

  (* from3/any_vec.rs:31 *)
  Definition f3_len : N :=
    N.min (N.min (if c1 then len s1 else usize_max) (if c2 then len s2 else usize_max))
          (if c3 then len s3 else usize_max).
  (* from3/readable.rs:26 *)
  Definition f3_for_each (from to : N) : list B :=
    let to := N.min to f3_len in
    let buf1 := src_range s1 from to in
    let buf2 := src_range s2 from to in
    let buf3 := src_range s3 from to in
    mapi_from from (fun i p => f i (fst (fst p)) (snd (fst p)) (snd p)) (combine (combine buf1 buf2) buf3).
  Definition f3_read_into (from to : N) : list B :=
    let to := N.min to f3_len in
    f3_for_each from to.
  (* from3/readable.rs:54 *)
  Definition f3_try_fold (from to : N) : list B :=
    let to := N.min to f3_len in
    if to <=? from then [] else
    let buf1 := src_range s1 from to in
    let buf2 := src_range s2 from to in
    let buf3 := src_range s3 from to in
    mapi_from from (fun i p => f i (fst (fst p)) (snd (fst p)) (snd p)) (combine (combine buf1 buf2) buf3).
  Definition f3_fold := f3_try_fold.
  (* from3/readable.rs:80 *)
  Definition f3_one (index : N) : option B :=
    if f3_len <=? index then None else
    match src_one s1 index with
    | None => None
    | Some v1 =>
        match src_one s2 index with
        | None => None
        | Some v2 => match src_one s3 index with None => None | Some v3 => Some (f index v1 v2 v3) end
        end
    end.
  (* from3/readable.rs:90 *)
  Definition f3_sorted (idx : list N) : list B :=
    let vals1 := src_sorted s1 idx in
    let vals2 := src_sorted s2 idx in
    let vals3 := src_sorted s3 idx in
    map (fun p => f (fst p) (fst (fst (snd p))) (snd (fst (snd p))) (snd (snd p)))
        (combine idx (combine (combine vals1 vals2) vals3)).
End From3.

(* the compute functions the harness installs (explicitly wrapping: the same in every build profile) *)
Definition cf1 (t : ety) (i : N) (a : Z) : Z := wrapz t (wrapz t (a * 3) + wrapz t (Z.of_N i))%Z.
Definition cf2 (t : ety) (i : N) (a b : Z) : Z :=
  wrapz t (wrapz t (a - wrapz t (b * 5)) + wrapz t (Z.of_N i))%Z.
Definition cf3 (t : ety) (i : N) (a b c : Z) : Z :=
  wrapz t (wrapz t (wrapz t (a + wrapz t (b * 7)) - c) + wrapz t (wrapz t (Z.of_N i) * 2))%Z.
