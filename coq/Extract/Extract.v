(* Extract/Extract.v — extraction of the executable definitions to OCaml.
   Only ExtrOcamlBasic is used: its Extract Inductive for bool, option, unit, list, prod,
   sumbool, sumor and Extract Inlined Constant for andb, orb.  Numbers stay Coq's binary
   positive / N / Z; no Extract Constant or Extract Inductive of our own. *)
From Coq Require Import ExtrOcamlBasic.
From Anydb Require Import Common.Base Common.LE Codec.Utf8 Gen.Consts Gen.Sizes
  Codec.Meta Codec.Vecdb.
Extraction Language OCaml.
Extraction "../ocaml/model.ml"
  le_enc le_dec bytes_ok utf8_valid has_control
  meta_to_bytes meta_from_bytes valid_new valid_dec meta_alloc fill_file
  header_to_bytes header_from_bytes valid_header format_from_bytes
  page_to_bytes page_from_bytes page_is_raw page_values_count page_end valid_page
  num_to_bytes num_from_bytes arr_from_bytes.
