(* Eager/EDriverProofs.v — PROOFS about the driver model: the generic theorem C06_driver.
   Invariant (DESIGN.md B.4): the output is the prefix of the from-scratch outputs of the sources
   of the last call; truncate_if_needed(max_from) with agreeing sources below max_from keeps it a
   prefix for the new sources (causality); every batch extends the prefix (resume_ok); when the
   call returns Ok the loop exit condition forces length = target. *)
From Anydb Require Import Common.Base Eager.EDriver.

Section Proofs.
Context {Src St Out : Type}.
Variable m : method Src St Out.
Variable agree : nat -> Src -> Src -> Prop.

Notation steps := (steps m).
Notation scratch_run := (scratch_run m).

Lemma steps_S src st i n :
  steps src st i (S n) =
  match step m src st i with
  | Ok (st', o) => let '(os, r) := steps src st' (S i) n in (o :: os, r)
  | Err e => ([], Err e)
  | Panic => ([], Panic)
  end.
Proof. reflexivity. Qed.
Lemma steps_O src st i : steps src st i 0 = ([], Ok st).
Proof. reflexivity. Qed.

Lemma steps_split src st i a b :
  steps src st i (a + b) =
  let '(o1, r1) := steps src st i a in
  match r1 with
  | Ok st1 => let '(o2, r2) := steps src st1 (i + a) b in (o1 ++ o2, r2)
  | Err e => (o1, Err e)
  | Panic => (o1, Panic)
  end.
Proof.
  revert st i. induction a as [|a IH]; intros st i.
  - cbn [Nat.add]. rewrite steps_O. replace (i + 0)%nat with i by lia.
    destruct (steps src st i b) as [o2 r2]. reflexivity.
  - cbn [Nat.add]. rewrite !steps_S. destruct (step m src st i) as [[st' o]| |]; try reflexivity.
    rewrite IH. destruct (steps src st' (S i) a) as [o1 r1].
    replace (i + S a)%nat with (S i + a)%nat by lia.
    destruct r1 as [st1| |]; try reflexivity.
    destruct (steps src st1 (S i + a) b) as [o2 r2]. reflexivity.
Qed.

Lemma steps_prefix src st i n outs r :
  steps src st i n = (outs, r) ->
  (length outs <= n)%nat /\ (exists st', steps src st i (length outs) = (outs, Ok st')) /\
  (forall st', r = Ok st' -> length outs = n /\ steps src st i n = (outs, Ok st')).
Proof.
  revert st i outs r. induction n as [|n IH]; intros st i outs r H.
  - cbn in H. inversion H; subst. cbn. split; [lia|]. split; [eauto|].
    intros s2 E2. inversion E2; subst. auto.
  - rewrite steps_S in H. destruct (step m src st i) as [[st1 o]| |] eqn:Es.
    + destruct (steps src st1 (S i) n) as [os r1] eqn:E1. inversion H; subst.
      destruct (IH _ _ _ _ E1) as (Hl & (st' & Hp) & Hok).
      cbn [length]. split; [lia|]. split.
      * exists st'. rewrite steps_S. rewrite Es, Hp. reflexivity.
      * intros st2 E. destruct (Hok _ E) as [Hn Hs]. split; [lia|].
        rewrite steps_S. rewrite Es, E1. subst r. reflexivity.
    + inversion H; subst. cbn. split; [lia|]. split; [eauto|discriminate].
    + inversion H; subst. cbn. split; [lia|]. split; [eauto|discriminate].
Qed.

Lemma steps_firstn src st i n outs st' k :
  steps src st i n = (outs, Ok st') -> (k <= n)%nat ->
  exists st'', steps src st i k = (firstn k outs, Ok st'').
Proof.
  intros H Hk. replace n with (k + (n - k))%nat in H by lia. rewrite steps_split in H.
  destruct (steps src st i k) as [o1 r1] eqn:E1.
  destruct (steps_prefix _ _ _ _ _ _ E1) as (Hl & _ & Hok).
  destruct r1 as [st1| |]; try (inversion H; fail).
  destruct (Hok _ eq_refl) as [Hlen _].
  destruct (steps src st1 (i + k) (n - k)) as [o2 r2]. inversion H; subst.
  exists st1. rewrite firstn_app. replace (length o1 - length o1)%nat with O by lia.
  cbn [firstn]. rewrite app_nil_r, firstn_all. reflexivity.
Qed.

Lemma scratch_run_inv src n st outs :
  scratch_run src n = Ok (st, outs) <->
  exists st0, recover m src [] 0 None = Ok st0 /\ steps src st0 0 n = (outs, Ok st).
Proof.
  unfold EDriver.scratch_run, bind. split.
  - destruct (recover m src [] 0 None) as [st0| |]; try discriminate.
    destruct (steps src st0 0 n) as [o r] eqn:E. destruct r; try discriminate.
    intros H. inversion H; subst. eauto.
  - intros (st0 & -> & ->). reflexivity.
Qed.

Lemma scratch_run_length src n st outs : scratch_run src n = Ok (st, outs) -> length outs = n.
Proof.
  intros H. apply scratch_run_inv in H. destruct H as (st0 & _ & H).
  destruct (steps_prefix _ _ _ _ _ _ H) as (_ & _ & Hok). now destruct (Hok _ eq_refl).
Qed.

Lemma scratch_run_firstn src n st outs k :
  scratch_run src n = Ok (st, outs) -> (k <= n)%nat -> exists st', scratch_run src k = Ok (st', firstn k outs).
Proof.
  intros H Hk. apply scratch_run_inv in H. destruct H as (st0 & Hr & H).
  destruct (steps_firstn _ _ _ _ _ _ _ H Hk) as [st' H']. exists st'. apply scratch_run_inv. eauto.
Qed.

(* "l is a prefix of what a from-scratch run over src produces" *)
Definition good (src : Src) (l : list Out) : Prop :=
  (length l <= target m src)%nat /\ (l = [] \/ exists st, scratch_run src (length l) = Ok (st, l)).

Definition cok (src : Src) (l : list Out) (c : option St) : Prop :=
  match c with None => True | Some st => scratch_run src (length l) = Ok (st, l) end.

Lemma good_nil src : good src [].
Proof. split; cbn; [lia|auto]. Qed.

Lemma good_unique src l1 l2 : good src l1 -> good src l2 -> length l1 = length l2 -> l1 = l2.
Proof.
  intros [_ [->|[s1 H1]]] [_ [->|[s2 H2]]] Hl; auto.
  - destruct l2; [auto|discriminate].
  - destruct l1; [auto|discriminate].
  - rewrite Hl in H1. rewrite H1 in H2. now inversion H2.
Qed.

Lemma good_scratch src l : good src l -> length l = target m src -> scratch m src = Ok l.
Proof.
  intros [_ Hg] Hl. unfold scratch. destruct (Nat.eqb (target m src) 0) eqn:E.
  - apply Nat.eqb_eq in E. destruct l; [reflexivity|cbn in Hl; lia].
  - apply Nat.eqb_neq in E. destruct Hg as [->|[st H]]; [cbn in Hl; lia|].
    rewrite <- Hl, H. reflexivity.
Qed.

(* fields other than stored/pushed *)
Definition meta_eq (v v' : vec Out) : Prop :=
  vv v' = vv v /\ cv v' = cv v /\ modified v' = modified v /\ disk v' = disk v /\
  disk_cv v' = disk_cv v /\ mem_real v' = mem_real v /\ pages_dirty v' = pages_dirty v.

Lemma meta_eq_refl v : meta_eq v v. Proof. unfold meta_eq; tauto. Qed.

Lemma push_all_ok v os :
  exists v', push_all v (vlen v) os = Ok v' /\ stored v' = stored v /\ pushed v' = pushed v ++ os /\ meta_eq v v'.
Proof.
  destruct os as [|o t].
  - exists v. cbn. rewrite app_nil_r. auto using meta_eq_refl.
  - unfold push_all. rewrite Nat.eqb_refl. eexists. split; [reflexivity|]. cbn. unfold meta_eq. cbn. tauto.
Qed.

Variable Dom : Src -> Prop.
Hypothesis ROK : resume_ok_on m Dom.

Lemma contents_length (v : vec Out) : length (contents v) = vlen v.
Proof. unfold contents, vlen. now rewrite app_length. Qed.

Ltac six := split; [|split; [|split; [|split; [|split]]]].

Lemma batch_spec src cap c v v' c' r :
  Dom src -> good src (contents v) -> cok src (contents v) c ->
  batch m src cap c v = (v', c', r) ->
  stored v' = stored v /\ (exists outs, pushed v' = pushed v ++ outs) /\ meta_eq v v' /\
  good src (contents v') /\ cok src (contents v') c' /\
  (r = Ok tt -> vlen v' = Nat.max (vlen v) (Nat.min (vlen v + cap)%nat (target m src))).
Proof.
  intros HD Hg Hc H. unfold batch in H.
  set (from := vlen v) in *. set (e := Nat.min (from + cap)%nat (target m src)) in *.
  destruct (Nat.leb e from) eqn:Ee.
  - inversion H; subst. six; auto using meta_eq_refl.
    + exists []. now rewrite app_nil_r.
    + intros _. apply Nat.leb_le in Ee. fold from. lia.
  - apply Nat.leb_gt in Ee. assert (Hft : (from < target m src)%nat) by lia.
    (* the recovered state is the scratch state at [from] *)
    assert (Hrec : forall st, recover m src (contents v) from c = Ok st -> scratch_run src from = Ok (st, contents v)).
    { intros st Hr. destruct (Nat.eq_dec from 0) as [Hz|Hnz].
      - assert (Hnil : contents v = []).
        { pose proof (contents_length v) as Hl. fold from in Hl. rewrite Hz in Hl.
          destruct (contents v); [reflexivity|discriminate]. }
        rewrite Hnil in *. rewrite Hz in *. destruct c as [sc|].
        + cbn in Hc. destruct (ROK _ _ _ _ HD Hc Hft) as [_ H2]. rewrite H2 in Hr. inversion Hr; subst. exact Hc.
        + apply scratch_run_inv. exists st. split; [exact Hr|reflexivity].
      - destruct Hg as [_ [Hnil|[st1 H1]]].
        { exfalso. pose proof (contents_length v) as Hl. rewrite Hnil in Hl. cbn in Hl. fold from in Hl. lia. }
        rewrite contents_length in H1. fold from in H1. destruct c as [sc|].
        + cbn in Hc. rewrite contents_length in Hc. fold from in Hc. rewrite Hc in H1. inversion H1; subst.
          destruct (ROK _ _ _ _ HD Hc Hft) as [_ H2]. rewrite H2 in Hr. inversion Hr; subst. exact Hc.
        + destruct (ROK _ _ _ _ HD H1 Hft) as [H2 _]. rewrite (H2 ltac:(lia)) in Hr. inversion Hr; subst. exact H1. }
    destruct (recover m src (contents v) from c) as [st| |] eqn:Er.
    2,3: inversion H; subst; six; auto using meta_eq_refl; try exact I;
         [exists []; now rewrite app_nil_r | discriminate].
    specialize (Hrec st eq_refl).
    destruct (steps src st from (e - from)) as [outs rs] eqn:Es.
    destruct (push_all_ok v outs) as (v1 & Ep & Hs & Hp & Hm). fold from in Ep. rewrite Ep in H.
    destruct (steps_prefix _ _ _ _ _ _ Es) as (Hlen & (stp & Hpre) & Hok).
    (* scratch state after the pushed outputs *)
    assert (Hnew : scratch_run src (from + length outs) = Ok (stp, contents v ++ outs)).
    { apply scratch_run_inv in Hrec. destruct Hrec as (st0 & Hr0 & Hst).
      apply scratch_run_inv. exists st0. split; [exact Hr0|].
      rewrite steps_split, Hst. cbn [Nat.add]. rewrite Hpre. reflexivity. }
    assert (Hc1 : contents v1 = contents v ++ outs).
    { unfold contents. rewrite Hs, Hp. now rewrite app_assoc. }
    assert (Hl1 : length (contents v1) = (from + length outs)%nat).
    { rewrite Hc1, app_length, contents_length. reflexivity. }
    assert (Hg1 : good src (contents v1)).
    { split; [rewrite Hl1; lia|]. right. exists stp. rewrite Hl1, Hc1. exact Hnew. }
    destruct rs as [st'| |].
    + inversion H; subst. destruct (Hok _ eq_refl) as [Hn Hfull].
      six; auto. { eauto. }
      * assert (stp = st') by (rewrite Hn in Hpre; rewrite Hfull in Hpre; now inversion Hpre).
        subst stp. cbn. rewrite Hl1, Hc1. exact Hnew.
      * intros _. rewrite <- contents_length, Hl1. fold from. lia.
    + inversion H; subst. six; auto; try exact I; [eauto|discriminate].
    + inversion H; subst. six; auto; try exact I; [eauto|discriminate].
Qed.

Lemma write_contents (v : vec Out) : contents (write v) = contents v.
Proof.
  unfold write, contents. destruct (_ && _); cbn; [reflexivity|]. now rewrite app_nil_r.
Qed.

(* what both formats guarantee about the disk image: the stored part is a prefix of what is on disk,
   and unless the page index has a pending change, write()'s notion of the on-disk length is exact *)
Definition dinv (v : vec Out) : Prop :=
  (pages_dirty v = false -> mem_real v = length (disk v)) /\ stored v = firstn (length (stored v)) (disk v).

Lemma write_dinv v : dinv v -> dinv (write v).
Proof.
  intros [H1 H2]. unfold write, dinv. destruct (_ && _) eqn:E; cbn.
  - apply andb_prop in E. destruct E as [_ Ed]. apply negb_true_iff in Ed. auto.
  - split; [reflexivity|]. now rewrite firstn_all.
Qed.

Lemma reimport_write_contents v : dinv v -> contents (reimport (write v)) = contents v.
Proof.
  intros [H1 H2]. unfold write, reimport, contents. destruct (_ && _) eqn:E; cbn.
  - apply andb_prop in E. destruct E as [E Ed]. apply andb_prop in E. destruct E as [Ea Eb].
    apply negb_true_iff in Ed. apply Nat.eqb_eq in Ea, Eb.
    rewrite app_nil_r. destruct (pushed v); [|discriminate]. rewrite app_nil_r.
    rewrite H2. rewrite Eb, (H1 Ed). now rewrite firstn_all.
  - now rewrite app_nil_r.
Qed.

Lemma reimport_dinv v : dinv (reimport v).
Proof. unfold reimport, dinv. cbn. split; [reflexivity|]. now rewrite firstn_all. Qed.

Lemma dinv_meta v v' : dinv v -> stored v' = stored v -> meta_eq v v' -> dinv v'.
Proof. unfold dinv, meta_eq. intros [A B] Hs (_&_&_&Hd&_&Hm&Hp). rewrite Hs, Hd, Hm, Hp. auto. Qed.

Lemma repeat_loop_spec src cap fuel : Dom src -> (1 <= cap)%nat ->
  forall c v v' r,
  good src (contents v) -> cok src (contents v) c ->
  repeat_loop m src cap fuel c v = (v', r) ->
  good src (contents v') /\ (dinv v -> dinv v') /\ vv v' = vv v /\ cv v' = cv v /\
  (r = Ok tt -> vlen v' = target m src).
Proof.
  intros HD Hcap. induction fuel as [|f IH]; intros c v v' r Hg Hc H.
  - cbn in H. inversion H; subst. split; [auto|]. split; [auto|]. split; [auto|]. split; [auto|discriminate].
  - cbn [repeat_loop] in H. destruct (batch m src cap c v) as [[v1 c1] r1] eqn:Eb.
    destruct (batch_spec _ _ _ _ _ _ _ HD Hg Hc Eb) as (Hs & (outs & Hp) & Hm & Hg1 & Hc1 & Hlen).
    assert (Hd1 : dinv v -> dinv v1) by (intros D; eapply dinv_meta; eauto).
    destruct Hm as (Hvv & Hcv & _).
    destruct r1 as [[]| |].
    2,3: inversion H; subst; split; [auto|]; split; [auto|]; split; [auto|]; split; [auto|discriminate].
    set (v2 := if is_dirty v1 then write v1 else v1) in *.
    assert (Hc2 : contents v2 = contents v1) by (unfold v2; destruct (is_dirty v1); auto using write_contents).
    assert (Hd2 : dinv v1 -> dinv v2) by (unfold v2; destruct (is_dirty v1); auto using write_dinv).
    assert (Hm2 : vv v2 = vv v1 /\ cv v2 = cv v1).
    { unfold v2. destruct (is_dirty v1); auto. unfold write. destruct (_ && _); cbn; auto. }
    destruct Hm2 as [Hm2a Hm2b].
    destruct (Nat.leb cap (length (pushed v1))) eqn:El.
    + assert (Hg2 : good src (contents v2)) by now rewrite Hc2.
      assert (Hcc : cok src (contents v2) c1) by now rewrite Hc2.
      destruct (IH _ _ _ _ Hg2 Hcc H) as (A & B & C & D & E).
      split; [auto|]. split; [auto|]. split; [congruence|]. split; [congruence|auto].
    + inversion H; subst v' r. apply Nat.leb_gt in El.
      split; [now rewrite Hc2|]. split; [auto|]. split; [congruence|]. split; [congruence|].
      intros _. specialize (Hlen eq_refl).
      rewrite <- contents_length, Hc2, contents_length, Hlen.
      destruct Hg as [Hle _]. rewrite contents_length in Hle.
      assert (length (pushed v1) = length (pushed v) + length outs)%nat by (rewrite Hp, app_length; lia).
      assert (vlen v1 = vlen v + length outs)%nat by (unfold vlen; rewrite Hs, Hp, app_length; lia).
      lia.
Qed.

Lemma truncate_contents (v : vec Out) k : contents (truncate_if_needed v k) = firstn k (contents v).
Proof.
  unfold truncate_if_needed, contents, vlen.
  destruct (Nat.leb _ k) eqn:E1.
  - apply Nat.leb_le in E1. rewrite firstn_all2; [reflexivity|rewrite app_length; lia].
  - destruct (Nat.leb k (length (stored v))) eqn:E2; cbn.
    + apply Nat.leb_le in E2. rewrite app_nil_r. now rewrite firstn_app_le.
    + apply Nat.leb_gt in E2. rewrite firstn_app. rewrite (firstn_all2 (stored v)) by lia. reflexivity.
Qed.

Lemma truncate_dinv v k : dinv v -> dinv (truncate_if_needed v k).
Proof.
  intros [A B]. unfold truncate_if_needed. destruct (Nat.leb _ k); [split; auto|].
  destruct (Nat.leb k (length (stored v))) eqn:E; unfold dinv; cbn; [|auto].
  apply Nat.leb_le in E. split; [auto|]. rewrite firstn_length. rewrite Nat.min_l by lia.
  rewrite B at 1. rewrite firstn_firstn. f_equal. lia.
Qed.

Lemma validate_contents c (v : vec Out) dep :
  contents (validate c v dep) = contents v \/ contents (validate c v dep) = [].
Proof.
  unfold validate. destruct (_ =? _); [auto|]. destruct (Nat.eqb _ 0) eqn:E; [left; reflexivity|right; reflexivity].
Qed.

Lemma validate_dinv c (v : vec Out) dep : dinv v -> dinv (validate c v dep).
Proof.
  intros [A B]. unfold validate. destruct (_ =? _); [split; auto|].
  destruct (Nat.eqb _ 0); [split; cbn; auto|]. unfold reset, dinv. cbn. destruct c; [split; [discriminate|reflexivity]|auto].
Qed.

Hypothesis CAUS : causal_on m agree Dom.

Lemma good_truncate p src mf l : Dom p -> Dom src -> good p l -> agree mf p src -> good src (firstn mf l).
Proof.
  intros Dp Ds [Hle Hg] Ha. destruct (CAUS _ _ _ Dp Ds Ha) as [Hmin Hrun].
  set (k := length (firstn mf l)). assert (Hk : k = Nat.min mf (length l)) by apply firstn_length.
  split; [fold k; lia|].
  destruct (Nat.eq_dec k 0) as [Hz|Hnz].
  - left. unfold k in Hz. destruct (firstn mf l); [reflexivity|discriminate].
  - right. destruct Hg as [->|[st H]]; [cbn in Hk; rewrite Nat.min_0_r in Hk; lia|].
    destruct (scratch_run_firstn _ _ _ _ k H ltac:(lia)) as [st' H'].
    exists st'. fold k. rewrite <- Hrun by lia. rewrite H'. f_equal. f_equal.
    rewrite Hk. destruct (le_lt_dec mf (length l)).
    + now rewrite Nat.min_l by lia.
    + rewrite Nat.min_r by lia. rewrite firstn_all, firstn_all2 by lia. reflexivity.
Qed.

Lemma compute_call_spec compressed src dep mf cap v v' r :
  Dom src -> (1 <= cap)%nat ->
  (contents v = [] \/ exists p, Dom p /\ good p (contents v) /\ agree mf p src) ->
  compute_call m compressed src dep mf cap v = (v', r) ->
  good src (contents v') /\ (r = Ok tt -> vlen v' = target m src) /\
  (dinv v -> dinv v').
Proof.
  intros HD Hcap Hprev H. unfold compute_call in H.
  set (v1 := validate compressed v dep) in *. set (v2 := truncate_if_needed v1 mf) in *.
  assert (Hg2 : good src (contents v2)).
  { unfold v2. rewrite truncate_contents. destruct (validate_contents compressed v dep) as [E|E]; fold v1 in E; rewrite E.
    - destruct Hprev as [->|(p & Dp & Hg & Ha)]; [rewrite firstn_nil; apply good_nil|]. eapply good_truncate; eauto.
    - rewrite firstn_nil. apply good_nil. }
  destruct (repeat_loop_spec src cap _ HD Hcap None v2 v' r Hg2 I H) as (A & B & _ & _ & E).
  split; [auto|]. split; [auto|]. intros D. apply B. unfold v2. apply truncate_dinv. unfold v1. now apply validate_dinv.
Qed.

(* ------------------------------------------------------------------ histories *)
Definition hinv (s : hstate (Src:=Src) (Out:=Out)) : Prop :=
  dinv (fst s) /\
  match snd s with
  | None => contents (fst s) = []
  | Some (p, r) => Dom p /\ good p (contents (fst s)) /\ (r = Ok tt -> vlen (fst s) = target m p)
  end.

Lemma hist_step compressed s o :
  hinv s -> op_ok agree s o -> in_dom Dom [o] -> hinv (apply_op m compressed s o).
Proof.
  intros [Hd Hs] Hv Hin. destruct s as [v last]. cbn [fst snd] in *.
  destruct o as [src dep mf cap| | |own]; cbn [apply_op fst snd].
  - destruct Hv as [Hcap Hag]. cbn [snd] in Hag. destruct Hin as [HD _].
    destruct (compute_call m compressed src dep mf cap v) as [v' r] eqn:E.
    assert (Hprev : contents v = [] \/ exists p, Dom p /\ good p (contents v) /\ agree mf p src).
    { destruct last as [[p r0]|]; cbn in *; [right; exists p; tauto|left; exact Hs]. }
    destruct (compute_call_spec _ _ _ _ _ _ _ _ HD Hcap Hprev E) as (A & B & C).
    split; cbn [fst snd]; auto.
  - split; cbn [fst snd]; [apply write_dinv; auto|].
    destruct last as [[p r0]|]; rewrite write_contents; auto.
    destruct Hs as (Dp & A & B). split; [auto|]. split; auto.
    intros Hr. rewrite <- contents_length, write_contents, contents_length. auto.
  - split; cbn [fst snd]; [apply reimport_dinv|].
    destruct last as [[p r0]|]; rewrite reimport_write_contents by assumption; auto.
    destruct Hs as (Dp & A & B). split; [auto|]. split; auto. intros Hr.
    rewrite <- contents_length, reimport_write_contents, contents_length by assumption. auto.
  - destruct (own =? vv (write v)).
    + split; cbn [fst snd]; [apply reimport_dinv|].
      destruct last as [[p r0]|]; rewrite reimport_write_contents by assumption; auto.
      destruct Hs as (Dp & A & B). split; [auto|]. split; auto. intros Hr.
      rewrite <- contents_length, reimport_write_contents, contents_length by assumption. auto.
    + split; cbn [fst snd]; [split; reflexivity|reflexivity].
Qed.

Lemma hist_inv compressed h : forall s,
  hinv s -> valid m agree compressed s h -> in_dom Dom h -> hinv (run_hist m compressed h s).
Proof.
  induction h as [|o t IH]; intros s Hi Hv Hin; [exact Hi|].
  cbn [run_hist fold_left]. destruct Hv as [Ho Hv]. apply IH; auto.
  - apply hist_step; auto. destruct o; cbn in *; tauto.
  - destruct o; cbn in Hin; tauto.
Qed.

Lemma hinv_init own : hinv (new_vec own, None).
Proof. split; cbn; [split; reflexivity|reflexivity]. Qed.

(* The generic theorem, both storage formats.  For every history (calls on arbitrary successive
   admissible sources with a valid max_from and any cap >= 1 per call, redundant calls, writes,
   flush + re-imports, own-version changes), after a call that returned Ok the stored result is the
   from-scratch result over the sources of that call and has the target length. *)
Theorem C06_driver_gen compressed h own :
  valid m agree compressed (new_vec own, None) h -> in_dom Dom h ->
  let s := run_hist m compressed h (new_vec own, None) in
  match snd s with
  | Some (src, Ok _) => scratch m src = Ok (contents (fst s)) /\ length (contents (fst s)) = target m src
  | _ => True
  end.
Proof.
  intros Hv Hin s. pose proof (hist_inv compressed h _ (hinv_init own) Hv Hin) as [_ Hs].
  fold s in Hs. destruct (snd s) as [[src [[]| |]]|]; auto.
  destruct Hs as (_ & Hg & Hl). specialize (Hl eq_refl). rewrite <- contents_length in Hl.
  split; [apply good_scratch; auto|auto].
Qed.

(* independence of the batch split: same sources, different histories / caps *)
Corollary C06_batch_split_gen compressed h1 h2 own src :
  valid m agree compressed (new_vec own, None) h1 -> in_dom Dom h1 ->
  valid m agree compressed (new_vec own, None) h2 -> in_dom Dom h2 ->
  let s1 := run_hist m compressed h1 (new_vec own, None) in
  let s2 := run_hist m compressed h2 (new_vec own, None) in
  snd s1 = Some (src, Ok tt) -> snd s2 = Some (src, Ok tt) -> contents (fst s1) = contents (fst s2).
Proof.
  intros V1 I1 V2 I2 s1 s2 E1 E2.
  pose proof (C06_driver_gen compressed h1 own V1 I1) as A. pose proof (C06_driver_gen compressed h2 own V2 I2) as B.
  cbv zeta in A, B. fold s1 in A. fold s2 in B. rewrite E1 in A. rewrite E2 in B.
  destruct A as [A _]. destruct B as [B _]. rewrite A in B. now inversion B.
Qed.

End Proofs.

(* ---------------------------------------------------------------- final forms *)
Definition C06_conclusion {Src St Out} (m : method Src St Out) (s : hstate (Src:=Src) (Out:=Out)) : Prop :=
  match snd s with
  | Some (src, Ok _) => scratch m src = Ok (contents (fst s)) /\ length (contents (fst s)) = target m src
  | _ => True
  end.

Lemma in_dom_true {Src} (h : list (op Src)) : in_dom (fun _ => True) h.
Proof. induction h as [|o t IH]; [exact I|]. destruct o; cbn; auto. Qed.

(* with a domain of admissible sources *)
Theorem C06_driver_on {Src St Out} (m : method Src St Out) (agree : nat -> Src -> Src -> Prop) (D : Src -> Prop) :
  resume_ok_on m D -> causal_on m agree D ->
  forall compressed h own, valid m agree compressed (new_vec own, None) h -> in_dom D h ->
  C06_conclusion m (run_hist m compressed h (new_vec own, None)).
Proof. intros R C compressed h own V Hin. exact (C06_driver_gen m agree D R C compressed h own V Hin). Qed.

Theorem C06_driver_all {Src St Out} (m : method Src St Out) (agree : nat -> Src -> Src -> Prop) :
  resume_ok m -> causal m agree ->
  forall compressed h own, valid m agree compressed (new_vec own, None) h ->
  C06_conclusion m (run_hist m compressed h (new_vec own, None)).
Proof. intros R C compressed h own V. exact (C06_driver_gen m agree _ R C compressed h own V (in_dom_true h)). Qed.

Theorem C06_batch_split_all {Src St Out} (m : method Src St Out) (agree : nat -> Src -> Src -> Prop) :
  resume_ok m -> causal m agree ->
  forall compressed h1 h2 own src,
  valid m agree compressed (new_vec own, None) h1 -> valid m agree compressed (new_vec own, None) h2 ->
  snd (run_hist m compressed h1 (new_vec own, None)) = Some (src, Ok tt) ->
  snd (run_hist m compressed h2 (new_vec own, None)) = Some (src, Ok tt) ->
  contents (fst (run_hist m compressed h1 (new_vec own, None))) =
  contents (fst (run_hist m compressed h2 (new_vec own, None))).
Proof.
  intros R C compressed h1 h2 own src V1 V2 E1 E2.
  exact (C06_batch_split_gen m agree _ R C compressed h1 h2 own src V1 (in_dom_true h1) V2 (in_dom_true h2) E1 E2).
Qed.
