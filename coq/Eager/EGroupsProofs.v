(* Eager/EGroupsProofs.v — PROOFS for F7 (index-group aggregates).  The output index space (groups)
   differs from the index space of the element source, so "the sources agree below d" is taken
   semantically: the from-scratch outputs of the two source snapshots agree below d — which is how
   the harness computes the first changed index for these methods.  Causality is then immediate;
   the content is resume_ok. *)
From Anydb Require Import Common.Base Eager.EDriver Eager.EDriverProofs Eager.EFamilies Eager.EFamiliesProofs.

Definition agree_scratch {St} (m : method srcs St N) (d : nat) (a b : srcs) : Prop :=
  Nat.min d (target m a) = Nat.min d (target m b) /\
  forall k, (k <= d)%nat -> (k <= target m a)%nat -> (0 < k)%nat -> scratch_run m a k = scratch_run m b k.

Lemma agree_scratch_causal {St} (m : method srcs St N) (D : srcs -> Prop) : causal_on m (agree_scratch m) D.
Proof. intros d a b _ _ H. exact H. Qed.

Definition f7_statement {St} (m : method srcs St N) (D : srcs -> Prop) : Prop :=
  resume_ok_on m D /\
  forall compressed h own, valid m (agree_scratch m) compressed (new_vec own, None) h -> in_dom D h ->
    C06_conclusion m (run_hist m compressed h (new_vec own, None)).

Lemma f7_stateless tgt f : f7_statement (stateless tgt f) (fun _ => True).
Proof.
  pose proof (stateless_resume_ok tgt f) as R. split; [exact R|]. intros compressed h own V Hin.
  exact (C06_driver_on _ _ _ R (agree_scratch_causal _ _) compressed h own V Hin).
Qed.

Theorem count_fi_closed : f7_statement m_count_fi (fun _ => True).
Proof. apply f7_stateless. Qed.
Theorem fcount_fi_closed : f7_statement m_fcount_fi (fun _ => True).
Proof. apply f7_stateless. Qed.
(* modelled under the precondition "keys non-decreasing" (EFamilies.v), where the cursor is stateless *)
Theorem indirect_closed : f7_statement m_indirect (fun _ => True).
Proof. apply f7_stateless. Qed.

(* compute_sum_from_indexes: consistent group layout first[g+1] = first[g] + count[g] *)
Definition groups_ok (s : srcs) : Prop :=
  (slen s 2 <= slen s 1)%nat /\
  forall g, (S g < slen s 1)%nat -> at_ (sn s 1) (S g) = at_ (sn s 1) g + at_ (sn s 2) g.

Lemma sum_fi_steps keep src : groups_ok src -> forall n i outs st',
  (i + n < slen src 1)%nat ->
  steps (sum_from_indexes keep) src (N.to_nat (at_ (sn src 1) i)) i n = (outs, Ok st') ->
  st' = N.to_nat (at_ (sn src 1) (i + n)).
Proof.
  intros [_ Hg]. induction n as [|n IH]; intros i outs st' Hb H.
  - cbn in H. inversion H. now rewrite Nat.add_0_r.
  - rewrite steps_S in H. cbn [sum_from_indexes step] in H. cbv zeta in H.
    replace (N.to_nat (at_ (sn src 2) i) + N.to_nat (at_ (sn src 1) i))%nat
      with (N.to_nat (at_ (sn src 1) (S i))) in H by (rewrite Hg by lia; lia).
    destruct (Nat.leb _ _); [|inversion H].
    destruct (steps (sum_from_indexes keep) src (N.to_nat (at_ (sn src 1) (S i))) (S i) n) as [os r] eqn:E.
    inversion H; subst. replace (i + S n)%nat with (S i + n)%nat by lia. eapply IH; [|exact E]. lia.
Qed.

Lemma sum_fi_resume_ok keep : resume_ok_on (sum_from_indexes keep) groups_ok.
Proof.
  intros src k st outs Hd H Hk. apply scratch_run_inv in H. destruct H as (st0 & H0 & Hs).
  cbn in H0. inversion H0; subst st0. cbn [target sum_from_indexes] in Hk.
  apply (sum_fi_steps keep src Hd k 0%nat) in Hs; [|destruct Hd; lia]. cbn [Nat.add] in Hs. subst st.
  split; [intros _|]; reflexivity.
Qed.

Theorem sum_fi_closed : f7_statement m_sum_fi groups_ok.
Proof.
  pose proof (sum_fi_resume_ok (fun _ => true)) as R. split; [exact R|]. intros compressed h own V Hin.
  exact (C06_driver_on _ _ _ R (agree_scratch_causal _ _) compressed h own V Hin).
Qed.
Theorem fsum_fi_closed : f7_statement m_fsum_fi groups_ok.
Proof.
  pose proof (sum_fi_resume_ok (fun v => v mod 2 =? 0)) as R. split; [exact R|]. intros compressed h own V Hin.
  exact (C06_driver_on _ _ _ R (agree_scratch_causal _ _) compressed h own V Hin).
Qed.

(* compute_first_per_index (own resume logic, EFamilies.fpi_call): the faithful model refutes both
   clauses of the property *)
Definition fpi_other1 : list N := [2; 3; 3; 4].
(* a batch that reaches the limit (cap = 1 element) with max_from = 0 below the last stored value:
   every iteration restarts at item 0 and pushes >= cap elements again *)
Theorem fpi_batch_limit_refuted :
  snd (fpi_call false fpi_other1 1 0 1 (new_vec 0)) = Err OutOfFuel /\
  snd (fpi_call false fpi_other1 1 0 100 (new_vec 0)) = Ok tt.
Proof. vm_compute. auto. Qed.

(* truncation + regrowth into a higher group, restart at the first changed item (a group boundary):
   other [0,1,2] -> [0,3]; the entry of the vanished group 2 stays *)
Theorem fpi_regrowth_refuted :
  let v1 := fst (fpi_call false [0; 1; 2] 1 0 100 (new_vec 0)) in
  let v2 := fst (fpi_call false [0; 3] 1 1 100 v1) in
  contents v1 = [0; 1; 2] /\ contents v2 = [0; 1; 2; 1] /\ fpi_scratch [0; 3] = [0; 1; 1; 1].
Proof. vm_compute. auto. Qed.
