(* Eager/EFamilies.v — MODEL (definitions only): the closures of the compute_* method families,
   transcribed from crates/vecdb/src/variants/eager/compute/{transforms,arithmetic,cumulative,
   lookback,aggregates,statistics}.rs as instances of EDriver.method.

   Sources of a call: the list of source vectors (u64 sources first, then usize sources, in the
   order of the Rust arguments) and one numeric parameter w (window / lookback length / `from` /
   number of `others`).  Values are N (u64/usize without overflow: the differential generator keeps
   values < 2^20; Rust `+ - *` that would overflow are outside the modelled domain, `checked_sub`
   + unwrap/expect = Panic, checked_sub + `?` = Err Underflow, `/ 0` = Panic, debug-build
   `attempt to subtract with overflow` = Panic).  The user closures are the ones the harness passes
   (harness/src/eng_eager.rs). *)
From Anydb Require Import Common.Base Eager.EDriver.

Definition srcs : Type := list (list N) * N.
Definition sn (s : srcs) (j : nat) : list N := nth j (fst s) [].
Definition par (s : srcs) : N := snd s.
Definition at_ (l : list N) (i : nat) : N := nth i l 0.
Definition slen (s : srcs) (j : nat) : nat := length (sn s j).
Definition ni (i : nat) : N := N.of_nat i.

Definition tgt1 (s : srcs) := slen s 0.
Definition tgt2 (s : srcs) := Nat.min (slen s 0) (slen s 1).
Definition tgt3 (s : srcs) := Nat.min (tgt2 s) (slen s 2).
Definition tgt4 (s : srcs) := Nat.min (tgt3 s) (slen s 3).
Definition nothers (s : srcs) : nat := if par s <=? 1 then 1%nat else if par s =? 2 then 2%nat else 3%nat.
Definition tgt_others (s : srcs) :=
  match nothers s with 1%nat => tgt1 s | 2%nat => tgt2 s | _ => tgt3 s end.

(* ---------------------------------------------------------------- generic shapes *)
(* F1/F3: no running state; the closure is a function of the sources at index i *)
Definition stateless (tgt : srcs -> nat) (f : srcs -> nat -> res eerr N) : method srcs unit N :=
  {| target := tgt;
     recover := fun _ _ _ _ => Ok tt;
     step := fun s => let g := f s in fun _ i => let! o := g i in Ok (tt, o) |}.

(* F2 (+ rolling_count): the running value IS the last output.  [keep]: the value lives in a
   closure-captured Option that survives batches of one call (all_time_*, cumulative_count_from);
   otherwise it is re-read from the last output at every batch (cumulative*, rolling_count). *)
Definition prev_out (init : N) (outs : list N) (k : nat) : N :=
  match k with O => init | S k' => at_ outs k' end.
Definition running (tgt : srcs -> nat) (init : srcs -> N) (upd : srcs -> N -> nat -> res eerr N) (keep : bool)
  : method srcs N N :=
  {| target := tgt;
     recover := fun s outs k c =>
       match c with
       | Some st => if keep then Ok st else Ok (prev_out (init s) outs k)
       | None => Ok (prev_out (init s) outs k)
       end;
     step := fun s => let g := upd s in fun st i => let! v := g st i in Ok (v, v) |}.

Definition ok (n : N) : res eerr N := Ok n.

(* ---------------------------------------------------------------- F1 stateless transforms *)
(* transforms.rs:12 compute_to / :42 compute_range with t = |i| (i, i*i+3) *)
Definition m_to := stateless tgt1 (fun _ i => ok (ni i * ni i + 3)).
Definition m_range := m_to.
(* transforms.rs:57 compute_from_index *)
Definition m_from_index := stateless tgt1 (fun _ i => ok (ni i)).
(* transforms.rs:76 compute_transform with t = a*3+i *)
Definition m_transform := stateless tgt1 (fun s i => ok (at_ (sn s 0) i * 3 + ni i)).
(* transforms.rs:104 compute_transform2 with t = a*2+b+i *)
Definition m_transform2 := stateless tgt2 (fun s i => ok (at_ (sn s 0) i * 2 + at_ (sn s 1) i + ni i)).
(* transforms.rs:143 compute_binary with F::apply(a,b) = a*5+b *)
Definition m_binary := stateless tgt2 (fun s i => ok (at_ (sn s 0) i * 5 + at_ (sn s 1) i)).
(* transforms.rs:165 compute_transform3 / :217 compute_transform4 *)
Definition m_transform3 := stateless tgt3 (fun s i =>
  ok (at_ (sn s 0) i + 2 * at_ (sn s 1) i + 3 * at_ (sn s 2) i + ni i)).
Definition m_transform4 := stateless tgt4 (fun s i =>
  ok (at_ (sn s 0) i + 2 * at_ (sn s 1) i + 3 * at_ (sn s 2) i + 4 * at_ (sn s 3) i + ni i)).
(* arithmetic.rs *)
Definition m_add := stateless tgt2 (fun s i => ok (at_ (sn s 0) i + at_ (sn s 1) i)).
Definition m_subtract := stateless tgt2 (fun s i =>
  let a := at_ (sn s 0) i in let b := at_ (sn s 1) i in if b <=? a then Ok (a - b) else Panic).
Definition m_multiply := stateless tgt2 (fun s i => ok (at_ (sn s 0) i * at_ (sn s 1) i)).
Definition m_divide := stateless tgt2 (fun s i =>
  let a := at_ (sn s 0) i in let b := at_ (sn s 1) i in if b =? 0 then Panic else Ok (a / b)).
Definition m_percentage := stateless tgt2 (fun s i =>
  let a := at_ (sn s 0) i in let b := at_ (sn s 1) i in if b =? 0 then Panic else Ok (a * 100 / b)).
Definition m_percentage_diff := stateless tgt2 (fun s i =>
  let a := at_ (sn s 0) i in let b := at_ (sn s 1) i in
  if b =? 0 then Panic else let v := a * 100 / b in if v <? 100 then Panic else Ok (v - 100)).
(* aggregates.rs:13 compute_aggregate_of_others over the first `nothers` sources *)
Definition others_at (s : srcs) (i : nat) : list N :=
  map (fun j => at_ (sn s j) i) (seq 0 (nothers s)).
Definition fold1 (f : N -> N -> N) (l : list N) : N :=
  match l with [] => 0 | x :: t => fold_left f t x end.
Definition m_sum_of_others := stateless tgt_others (fun s i => ok (fold1 N.add (others_at s i))).
Definition m_min_of_others := stateless tgt_others (fun s i => ok (fold1 N.min (others_at s i))).
Definition m_max_of_others := stateless tgt_others (fun s i => ok (fold1 N.max (others_at s i))).

(* ---------------------------------------------------------------- F2 running value = last output *)
(* cumulative.rs:16 compute_cumulative *)
Definition m_cumulative := running tgt1 (fun _ => 0) (fun s st i => ok (st + at_ (sn s 0) i)) false.
(* cumulative.rs:52 / :75 *)
Definition m_cum_binary := running tgt2 (fun _ => 0)
  (fun s st i => ok (st + (at_ (sn s 0) i + at_ (sn s 1) i))) false.
Definition m_cum_tbinary := running tgt2 (fun _ => 0)
  (fun s st i => ok (st + (at_ (sn s 0) i * 2 + at_ (sn s 1) i))) false.
(* cumulative.rs:205 compute_cumulative_count_from (predicate v % 3 == 0); :128 = from 0 *)
Definition pred3 (v : N) : bool := v mod 3 =? 0.
Definition m_cum_count_from := running tgt1 (fun _ => 0)
  (fun s st i => ok (if (par s <=? ni i) && pred3 (at_ (sn s 0) i) then st + 1 else st)) true.
Definition m_cum_count := running tgt1 (fun _ => 0)
  (fun s st i => ok (if pred3 (at_ (sn s 0) i) then st + 1 else st)) true.
(* statistics.rs:1004 compute_all_time_extreme with exclude_default = false: prev := extreme *)
Definition m_ath := running tgt1 (fun s => at_ (sn s 0) 0) (fun s st i => ok (N.max st (at_ (sn s 0) i))) true.
Definition m_atl := running tgt1 (fun s => at_ (sn s 0) 0) (fun s st i => ok (N.min st (at_ (sn s 0) i))) true.
(* statistics.rs:1118 compute_all_time_extreme_from *)
Definition m_ath_from := running tgt1 (fun _ => 0)
  (fun s st i => ok (if par s <=? ni i then N.max st (at_ (sn s 0) i) else st)) true.
Definition m_atl_from := running tgt1 (fun _ => 0)
  (fun s st i => ok (if par s <=? ni i then N.min st (at_ (sn s 0) i) else st)) true.

(* statistics.rs:1004 with exclude_default = true (compute_all_time_low_): the running value is
   NOT the emitted value — when the extreme is the default the closure emits the default but
   remembers the non-default v (or keeps prev); on resume prev is re-read from the last output. *)
Definition m_atl_ex : method srcs N N :=
  {| target := tgt1;
     recover := fun s outs k c =>
       match c with
       | Some st => Ok st
       | None => Ok (prev_out (at_ (sn s 0) 0) outs k)
       end;
     step := fun s prev i =>
       let v := at_ (sn s 0) i in
       let extreme := N.min prev v in
       let prev' := if negb (extreme =? 0) then extreme else if negb (v =? 0) then v else prev in
       Ok (prev', extreme) |}.

(* ---------------------------------------------------------------- F3 fixed lookback *)
(* lookback.rs:13 compute_with_lookback + :84 compute_change: prev_batch[prev_idx] = source[i - len] *)
Definition m_change := stateless tgt1 (fun s i =>
  if ni i <? par s then Ok 0 else
  let cur := at_ (sn s 0) i in let prev := at_ (sn s 0) (N.to_nat (ni i - par s)) in
  if prev <=? cur then Ok (cur - prev) else Panic).
(* lookback.rs:330 compute_lookback: output[i] = source[window_starts[i]].  Modelled under the
   documented precondition (starts non-decreasing, starts[i] <= i); outside it the real code indexes
   relative to the batch's first start and may panic depending on the batch split. *)
Definition m_lookback := stateless tgt2 (fun s => let n0 := slen s 0 in fun i =>
  let st := N.to_nat (at_ (sn s 1) i) in
  if Nat.ltb st n0 then Ok (at_ (sn s 0) st) else Panic).

(* ---------------------------------------------------------------- F4 fixed window *)
(* statistics.rs:119 compute_sum: prev_sum re-read from the last output per batch, leaving cursor
   persists across the batches of one call (position only moves forward) *)
Definition m_sum : method srcs (N * nat) N :=
  {| target := tgt1;
     recover := fun s outs k c =>
       let pos0 := match c with Some (_, p) => p | None => O end in
       Ok (prev_out 0 outs k, Nat.max pos0 (N.to_nat (ni k - par s)));
     step := fun s => let n0 := slen s 0 in fun st i =>
       let '(ps, pos) := st in
       let v := at_ (sn s 0) i in
       if par s <=? ni i then
         if Nat.ltb pos n0 then
           let old := at_ (sn s 0) pos in
           if old <=? ps then let sum := ps - old + v in Ok ((sum, S pos), sum) else Err Underflow
         else Panic
       else let sum := ps + v in Ok ((sum, pos), sum) |}.
(* cumulative.rs:145 compute_rolling_count (predicate v % 2 == 0) *)
Definition pred2 (v : N) : bool := v mod 2 =? 0.
Definition m_rolling_count := running tgt1 (fun _ => 0)
  (fun s st i =>
     let! c1 := if par s <=? ni i then
                  if pred2 (at_ (sn s 0) (N.to_nat (ni i - par s))) then (if st =? 0 then Panic else Ok (st - 1)) else Ok st
                else Ok st in
     ok (if pred2 (at_ (sn s 0) i) then c1 + 1 else c1)) false.

(* ---------------------------------------------------------------- F5 monotonic deque *)
Fixpoint pop_front_while (w : N) (i : nat) (d : list (nat * N)) : list (nat * N) :=
  match d with
  | (idx, v) :: t => if (w <=? ni i) && (ni idx <=? ni i - w) then pop_front_while w i t else d
  | [] => []
  end.
(* the deque is kept in reverse for pop_back: rev-represented helper *)
Fixpoint pop_back_rev (should_pop : N -> N -> bool) (value : N) (r : list (nat * N)) : list (nat * N) :=
  match r with
  | (idx, v) :: t => if should_pop v value then pop_back_rev should_pop value t else r
  | [] => []
  end.
Definition pop_back_while (should_pop : N -> N -> bool) (value : N) (d : list (nat * N)) :=
  rev (pop_back_rev should_pop value (rev d)).
(* statistics.rs:32 update_deque *)
Definition update_deque (should_pop : N -> N -> bool) (w : N) (d : list (nat * N)) (i : nat) (value : N) :=
  pop_back_while should_pop value (pop_front_while w i d) ++ [(i, value)].
Fixpoint rebuild (should_pop : N -> N -> bool) (w : N) (l : list N) (d : list (nat * N)) (i n : nat) :=
  match n with
  | O => d
  | S n' => rebuild should_pop w l (update_deque should_pop w d i (at_ l i)) (S i) n'
  end.
(* statistics.rs:18 compute_monotonic_window: deque rebuilt over [skip - window, skip) per batch *)
Definition monotonic (should_pop : N -> N -> bool) : method srcs (list (nat * N)) N :=
  {| target := tgt1;
     recover := fun s outs k c =>
       let start := N.to_nat (ni k - par s) in
       Ok (rebuild should_pop (par s) (sn s 0) [] start (k - start));
     step := fun s d i =>
       let d' := update_deque should_pop (par s) d i (at_ (sn s 0) i) in
       match d' with (_, v) :: _ => Ok (d', v) | [] => Panic end |}.
Definition m_max := monotonic (fun v value => v <? value).
Definition m_min := monotonic (fun v value => value <? v).

(* ---------------------------------------------------------------- F6 variable windows *)
(* statistics.rs:172 compute_rolling_sum(window_starts = source 1, values = source 0) *)
Fixpoint sum_range (l : list N) (from n : nat) : N :=
  match n with O => 0 | S n' => at_ l from + sum_range l (S from) n' end.
Definition m_rolling_sum : method srcs (N * N * nat) N :=
  {| target := tgt2;
     recover := fun s outs k c =>
       let pos0 := match c with Some (_, _, p) => p | None => O end in
       match k with
       | O => Ok (0, 0, pos0)
       | S k' => let ps := at_ (sn s 1) k' in
                 Ok (at_ outs k', ps, Nat.min (Nat.max pos0 (N.to_nat ps)) (slen s 0))
       end;
     step := fun s => let n0 := slen s 0 in fun st i =>
       let '(rs, prev_start, pos) := st in
       let rs1 := rs + at_ (sn s 0) i in
       let start := at_ (sn s 1) i in
       if prev_start <? start then
         let n := N.to_nat (start - prev_start) in
         let n' := Nat.min n (n0 - pos) in                  (* Cursor::fold clips at len *)
         let leaving := sum_range (sn s 0) pos n' in
         if leaving <=? rs1 then let r := rs1 - leaving in Ok ((r, start, (n' + pos)%nat), r) else Panic
       else Ok ((rs1, prev_start, pos), rs1) |}.
(* statistics.rs:578 compute_rolling_monotonic_from_starts *)
Fixpoint pop_front_lt (ws : N) (d : list (nat * N)) : list (nat * N) :=
  match d with
  | (idx, v) :: t => if ni idx <? ws then pop_front_lt ws t else d
  | [] => []
  end.
Fixpoint rebuild_fs (should_pop : N -> N -> bool) (l : list N) (d : list (nat * N)) (i n : nat) :=
  match n with
  | O => d
  | S n' => rebuild_fs should_pop l (pop_back_while should_pop (at_ l i) d ++ [(i, at_ l i)]) (S i) n'
  end.
Definition monotonic_fs (should_pop : N -> N -> bool) : method srcs (list (nat * N)) N :=
  {| target := tgt2;
     recover := fun s outs k c =>
       match k with
       | O => Ok []
       | S k' => let ws := N.to_nat (at_ (sn s 1) k') in
                 Ok (rebuild_fs should_pop (sn s 0) [] ws (k - ws))
       end;
     step := fun s d i =>
       let value := at_ (sn s 0) i in
       let d1 := pop_front_lt (at_ (sn s 1) i) d in
       let d' := pop_back_while should_pop value d1 ++ [(i, value)] in
       match d' with (_, v) :: _ => Ok (d', v) | [] => Panic end |}.
Definition m_rolling_max_fs := monotonic_fs (fun back new => back <=? new).
Definition m_rolling_min_fs := monotonic_fs (fun back new => new <=? back).

(* ---------------------------------------------------------------- F7 index-group aggregates *)
(* aggregates.rs:196 compute_sum_from_indexes(first_indexes = source 1, indexes_count = source 2,
   source = source 0): per batch pos = first_indexes[skip], then the source is consumed
   sequentially, one group of indexes_count[g] elements per output (zero-count groups emit the
   default).  Modelled for sources that hold every group completely (pos + count <= len); outside
   that the real closure stops pushing early, which this step function cannot express (Panic). *)
Definition group_sum (keep : N -> bool) (l : list N) (from n : nat) : N :=
  fold_left N.add (map (fun v => if keep v then v else 0) (firstn n (skipn from l))) 0.
Definition sum_from_indexes (keep : N -> bool) : method srcs nat N :=
  {| target := fun s => slen s 2;
     recover := fun s outs k c => Ok (N.to_nat (at_ (sn s 1) k));
     step := fun s => let n0 := slen s 0 in fun pos g =>
       let c := N.to_nat (at_ (sn s 2) g) in
       let pos' := (c + pos)%nat in       (* small operand first: unary addition copies its first argument *)
       if Nat.leb pos' n0 then Ok (pos', group_sum keep (sn s 0) pos c) else Panic |}.
Definition m_sum_fi := sum_from_indexes (fun _ => true).
Definition m_fsum_fi := sum_from_indexes (fun v => v mod 2 =? 0).        (* harness filter: even values *)

(* aggregates.rs:391 compute_count_from_indexes_with(first_indexes = source 1, other_to_else =
   source 0): out[g] = count_fn(first[g], first[g+1] or other_to_else.len() for the last group);
   `next_first - first` is an unchecked usize subtraction *)
Definition next_first (s : srcs) (n1 : nat) (other_len : N) (g : nat) : N :=
  if Nat.ltb (S g) n1 then at_ (sn s 1) (S g) else other_len.
Definition m_count_fi := stateless (fun s => slen s 1) (fun s =>
  let n1 := slen s 1 in let ol := ni (slen s 0) in fun g =>
  let f := at_ (sn s 1) g in let n := next_first s n1 ol g in if f <=? n then Ok (n - f) else Panic).
(* filtered variant with filter = |i| i % 2 == 0: number of even i in [first, next) *)
Definition evens_below (n : N) : N := (n + 1) / 2.
Definition m_fcount_fi := stateless (fun s => slen s 1) (fun s =>
  let n1 := slen s 1 in let ol := ni (slen s 0) in fun g =>
  let f := at_ (sn s 1) g in let n := next_first s n1 ol g in
  Ok (if f <=? n then evens_below n - evens_below f else 0)).

(* transforms.rs:268 compute_indirect_sequential(source1 = keys = source 1, source2 = source 0):
   out[i] = source2[source1[i]].  Modelled under the documented precondition (keys non-decreasing),
   where the persistent cursor and the duplicate-key shortcut return exactly source2[key]. *)
Definition m_indirect := stateless (fun s => slen s 1) (fun s => let n0 := slen s 0 in fun i =>
  let k := N.to_nat (at_ (sn s 1) i) in if Nat.ltb k n0 then Ok (at_ (sn s 0) k) else Panic).

(* transforms.rs:316 compute_first_per_index(other: item -> group, non-decreasing): only the
   from-scratch semantics is modelled (the method has its own resume logic outside compute_init):
   out[g] = the first item whose group is >= g, for g <= last group. *)
Fixpoint first_ge (l : list N) (g : N) (j : nat) : N :=
  match l with [] => ni j | x :: t => if g <=? x then ni j else first_ge t g (S j) end.
Definition fpi_scratch (other : list N) : list N :=
  match other with
  | [] => []
  | _ => map (fun g => first_ge other (ni g) 0) (seq 0 (S (N.to_nat (last other 0))))
  end.

Definition vecN := vec N.

(* compute_first_per_index as the code runs it (transforms.rs:316-371): NOT through compute_init.
   validate_computed_version_or_reset(other.version()), then repeat_until_complete of a closure
   that (1) restarts at skip = min(last stored VALUE, max_from) — an item position — when the
   vector is non-empty, (2) bounds the batch by batch_end(other.len()), i.e. by
   min(self.len() + cap, other.len()) although self.len() counts groups and other.len() items,
   (3) truncates the output to the group of the first item of the batch, (4) for each item of a
   new group pushes its position, padding skipped groups with the same position. *)
Definition vpush (v : vecN) (o : N) : vecN :=
  mkVec (stored v) (pushed v ++ [o]) (vv v) (cv v) (modified v) (disk v) (disk_cv v) (mem_real v) (pages_dirty v).
Fixpoint pad_to (v : vecN) (i : nat) (x : N) (fuel : nat) : vecN :=
  match fuel with
  | O => v
  | S f => if Nat.ltb (vlen v) i then pad_to (vpush v x) i x f else v
  end.
Fixpoint fpi_items (v : vecN) (prev : option N) (items : list N) (pos : nat) : vecN :=
  match items with
  | [] => v
  | g :: t =>
    let same := match prev with Some p => p =? g | None => false end in
    if same then fpi_items v prev t (S pos) else
    let i := N.to_nat g in
    let x := ni pos in
    let write_it := match nth_error (contents v) i with None => true | Some old => x <? old end in
    let v' := if write_it then vpush (pad_to v i x (S i)) x else v in
    fpi_items v' (Some g) t (S pos)
  end.
Definition fpi_batch (other : list N) (mf cap : nat) (v : vecN) : vecN :=
  let len := vlen v in
  let skip := if Nat.ltb 0 len then Nat.min (N.to_nat (last (contents v) 0)) mf else O in
  let e := Nat.min (len + cap) (length other) in
  if Nat.leb e skip then v else
  let batch := firstn (e - skip) (skipn skip other) in
  let v1 := match batch with g :: _ => truncate_if_needed v (N.to_nat g) | [] => v end in
  fpi_items v1 None batch skip.
Fixpoint fpi_loop (other : list N) (mf cap fuel : nat) (v : vecN) : vecN * res eerr unit :=
  match fuel with
  | O => (v, Err OutOfFuel)        (* the real loop does not terminate *)
  | S f =>
    let v1 := fpi_batch other mf cap v in
    let limit := Nat.leb cap (length (pushed v1)) in
    let v2 := if is_dirty v1 then write v1 else v1 in
    if limit then fpi_loop other mf cap f v2 else (v2, Ok tt)
  end.
Definition fpi_call (compressed : bool) (other : list N) (dep : N) (mf cap : nat) (v : vecN) : vecN * res eerr unit :=
  fpi_loop other mf cap (2 * (length other + vlen v) + 8) (validate compressed v dep).

(* ---------------------------------------------------------------- dispatch for the differential engine *)
Inductive mid :=
| Mto | Mrange | Mfrom_index | Mtransform | Mtransform2 | Mbinary | Mtransform3 | Mtransform4
| Madd | Msubtract | Mmultiply | Mdivide | Mpercentage | Mpercentage_diff
| Msum_of_others | Mmin_of_others | Mmax_of_others
| Mcumulative | Mcum_binary | Mcum_tbinary | Mcum_count | Mcum_count_from
| Math | Matl | Matl_ex | Math_from | Matl_from
| Mchange | Mlookback | Msum | Mrolling_count | Mmax | Mmin
| Mrolling_sum | Mrolling_max_fs | Mrolling_min_fs
| Msum_fi | Mfsum_fi | Mcount_fi | Mfcount_fi | Mindirect.

Definition with_method {R : Type} (id : mid) (k : forall St, method srcs St N -> R) : R :=
  match id with
  | Mto => k _ m_to | Mrange => k _ m_range | Mfrom_index => k _ m_from_index
  | Mtransform => k _ m_transform | Mtransform2 => k _ m_transform2 | Mbinary => k _ m_binary
  | Mtransform3 => k _ m_transform3 | Mtransform4 => k _ m_transform4
  | Madd => k _ m_add | Msubtract => k _ m_subtract | Mmultiply => k _ m_multiply
  | Mdivide => k _ m_divide | Mpercentage => k _ m_percentage | Mpercentage_diff => k _ m_percentage_diff
  | Msum_of_others => k _ m_sum_of_others | Mmin_of_others => k _ m_min_of_others
  | Mmax_of_others => k _ m_max_of_others
  | Mcumulative => k _ m_cumulative | Mcum_binary => k _ m_cum_binary | Mcum_tbinary => k _ m_cum_tbinary
  | Mcum_count => k _ m_cum_count | Mcum_count_from => k _ m_cum_count_from
  | Math => k _ m_ath | Matl => k _ m_atl | Matl_ex => k _ m_atl_ex
  | Math_from => k _ m_ath_from | Matl_from => k _ m_atl_from
  | Mchange => k _ m_change | Mlookback => k _ m_lookback
  | Msum => k _ m_sum | Mrolling_count => k _ m_rolling_count
  | Mmax => k _ m_max | Mmin => k _ m_min
  | Mrolling_sum => k _ m_rolling_sum
  | Mrolling_max_fs => k _ m_rolling_max_fs | Mrolling_min_fs => k _ m_rolling_min_fs
  | Msum_fi => k _ m_sum_fi | Mfsum_fi => k _ m_fsum_fi
  | Mcount_fi => k _ m_count_fi | Mfcount_fi => k _ m_fcount_fi | Mindirect => k _ m_indirect
  end.

Definition call_by_id (id : mid) (compressed : bool) (s : srcs) (dep : N) (mf cap : nat) (v : vecN)
  : vecN * res eerr unit :=
  with_method id (fun St m => compute_call m compressed s dep mf cap v).
Definition call_by_id_fail (id : mid) (fail : option nat) (compressed : bool) (s : srcs) (dep : N) (mf cap : nat) (v : vecN)
  : vecN * res eerr unit :=
  with_method id (fun St m => compute_call (with_fail fail m) compressed s dep mf cap v).
Definition vec_hand_push (v : vecN) (os : list N) : vecN := hand_push v os.
Definition scratch_by_id (id : mid) (s : srcs) : res eerr (list N) :=
  with_method id (fun St m => scratch m s).
Definition target_by_id (id : mid) (s : srcs) : nat := with_method id (fun St m => target m s).
(* length of the vector right before the first batch of a call (for the evaluated-index log) *)
Definition resume_len (compressed : bool) (dep : N) (mf : nat) (v : vecN) : nat :=
  vlen (truncate_if_needed (validate compressed v dep) mf).
Definition vec_write (v : vecN) : vecN := write v.
Definition vec_reimport (v : vecN) : vecN := reimport v.
Definition vec_new (own : N) : vecN := new_vec own.
Definition vec_contents (v : vecN) : list N := contents v.
