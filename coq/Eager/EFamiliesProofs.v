(* Eager/EFamiliesProofs.v — PROOFS: resume_ok and causality for the method families, the
   refutation of compute_all_time_low_(exclude_default = true), and the instances of the generic
   theorem. *)
From Anydb Require Import Common.Base Eager.EDriver Eager.EDriverProofs Eager.EFamilies Eager.EVersion.

(* "the sources of a and b agree below index d" (same parameter, same number of sources) *)
Definition agree_srcs (d : nat) (a b : srcs) : Prop :=
  par a = par b /\ forall j, firstn d (sn a j) = firstn d (sn b j).

Lemma nth_firstn_lt {A} (l : list A) d i x : (i < d)%nat -> nth i (firstn d l) x = nth i l x.
Proof.
  revert d i. induction l as [|h t IH]; intros d i Hi.
  - rewrite firstn_nil. reflexivity.
  - destruct d; [lia|]. destruct i; cbn; [reflexivity|]. apply IH. lia.
Qed.

Lemma agree_at d a b j i : agree_srcs d a b -> (i < d)%nat -> at_ (sn a j) i = at_ (sn b j) i.
Proof.
  intros [_ H] Hi. unfold at_. rewrite <- (nth_firstn_lt (sn a j) d) by exact Hi.
  rewrite <- (nth_firstn_lt (sn b j) d) by exact Hi. now rewrite H.
Qed.

Lemma agree_slen d a b j : agree_srcs d a b -> Nat.min d (slen a j) = Nat.min d (slen b j).
Proof.
  intros [_ H]. unfold slen. rewrite <- !firstn_length. now rewrite H.
Qed.

Lemma agree_par d a b : agree_srcs d a b -> par a = par b.
Proof. now intros [H _]. Qed.

(* ---------------------------------------------------------------- locality => causality *)
Section Local.
Context {St : Type}.
Variable m : method srcs St N.

Definition local : Prop :=
  forall d a b, agree_srcs d a b ->
    Nat.min d (target m a) = Nat.min d (target m b) /\
    ((0 < d)%nat -> recover m a [] 0 None = recover m b [] 0 None) /\
    (forall i st, (i < d)%nat -> step m a st i = step m b st i).

Lemma local_steps d a b : (forall i st, (i < d)%nat -> step m a st i = step m b st i) ->
  forall n st i, (i + n <= d)%nat -> steps m a st i n = steps m b st i n.
Proof.
  intros H. induction n as [|n IH]; intros st i Hi; [reflexivity|].
  rewrite !steps_S. rewrite H by lia. destruct (step m b st i) as [[st' o]| |]; try reflexivity.
  rewrite IH by lia. reflexivity.
Qed.

Lemma local_causal : local -> causal m agree_srcs.
Proof.
  intros L d a b _ _ Ha. destruct (L d a b Ha) as (Ht & Hr & Hs). split; [exact Ht|].
  intros k Hk _ Hpos. unfold scratch_run. rewrite Hr by lia.
  destruct (recover m b [] 0 None) as [st0| |]; try reflexivity. cbn [bind].
  rewrite (local_steps d a b Hs) by lia. reflexivity.
Qed.
End Local.

(* ---------------------------------------------------------------- stateless (F1, F3) *)
Lemma stateless_resume_ok tgt f : resume_ok (stateless tgt f).
Proof. intros src k [] outs _ _ _. split; reflexivity. Qed.

Lemma stateless_local tgt f :
  (forall d a b, agree_srcs d a b -> Nat.min d (tgt a) = Nat.min d (tgt b)) ->
  (forall d a b i, agree_srcs d a b -> (i < d)%nat -> f a i = f b i) ->
  local (stateless tgt f).
Proof.
  intros Ht Hf d a b Ha. split; [apply Ht; exact Ha|]. split; [reflexivity|].
  intros i st Hi. cbn. now rewrite (Hf d a b i Ha Hi).
Qed.

(* ---------------------------------------------------------------- running value = last output (F2) *)
Lemma prev_out_cons st v os n : prev_out st (v :: os) (S n) = prev_out v os n.
Proof. destruct n; reflexivity. Qed.

Lemma running_steps tgt init upd keep src : forall n st i outs st',
  steps (running tgt init upd keep) src st i n = (outs, Ok st') -> st' = prev_out st outs n.
Proof.
  induction n as [|n IH]; intros st i outs st' H.
  - cbn in H. now inversion H.
  - rewrite steps_S in H. cbn [running step] in H. destruct (upd src st i) as [v| |]; cbn [bind] in H; try (inversion H; fail).
    destruct (steps (running tgt init upd keep) src v (S i) n) as [os r] eqn:E.
    inversion H; subst. rewrite prev_out_cons. eapply IH; eauto.
Qed.

Lemma running_resume_ok tgt init upd keep : resume_ok (running tgt init upd keep).
Proof.
  intros src k st outs _ H _. apply scratch_run_inv in H. destruct H as (st0 & H0 & Hs).
  cbn in H0. inversion H0; subst st0. apply running_steps in Hs. subst st.
  split; [intros _; reflexivity|]. cbn. destruct keep; reflexivity.
Qed.

Lemma running_local tgt init upd keep :
  (forall d a b, agree_srcs d a b -> Nat.min d (tgt a) = Nat.min d (tgt b)) ->
  (forall d a b, agree_srcs d a b -> (0 < d)%nat -> init a = init b) ->
  (forall d a b i st, agree_srcs d a b -> (i < d)%nat -> upd a st i = upd b st i) ->
  local (running tgt init upd keep).
Proof.
  intros Ht Hi Hu d a b Ha. split; [apply Ht; exact Ha|]. split.
  - intros Hd. cbn. now rewrite (Hi d a b Ha Hd).
  - intros i st Hlt. cbn. now rewrite (Hu d a b i st Ha Hlt).
Qed.

(* ---------------------------------------------------------------- targets *)
Lemma tgt1_min d a b : agree_srcs d a b -> Nat.min d (tgt1 a) = Nat.min d (tgt1 b).
Proof. intros H. unfold tgt1. exact (agree_slen d a b 0 H). Qed.
Lemma tgt2_min d a b : agree_srcs d a b -> Nat.min d (tgt2 a) = Nat.min d (tgt2 b).
Proof.
  intros H. unfold tgt2. pose proof (agree_slen d a b 0 H). pose proof (agree_slen d a b 1 H). lia.
Qed.
Lemma tgt3_min d a b : agree_srcs d a b -> Nat.min d (tgt3 a) = Nat.min d (tgt3 b).
Proof.
  intros H. unfold tgt3. pose proof (tgt2_min d a b H). pose proof (agree_slen d a b 2 H). lia.
Qed.
Lemma tgt4_min d a b : agree_srcs d a b -> Nat.min d (tgt4 a) = Nat.min d (tgt4 b).
Proof.
  intros H. unfold tgt4. pose proof (tgt3_min d a b H). pose proof (agree_slen d a b 3 H). lia.
Qed.
Lemma tgt_others_min d a b : agree_srcs d a b -> Nat.min d (tgt_others a) = Nat.min d (tgt_others b).
Proof.
  intros H. unfold tgt_others, nothers. rewrite (agree_par d a b H).
  destruct (par b <=? 1); [now apply tgt1_min|]. destruct (par b =? 2); [now apply tgt2_min|now apply tgt3_min].
Qed.

Ltac at_rw Ha := repeat match goal with
  | |- context [at_ (sn ?a ?j) ?i] =>
    lazymatch type of Ha with agree_srcs _ a _ => rewrite (agree_at _ a _ j i Ha) by (unfold ni; lia) end
  end.
Ltac loc := intros d a b i Ha Hi; cbv beta; try rewrite (agree_par d a b Ha); at_rw Ha; reflexivity.
Ltac locu := intros d a b i st Ha Hi; cbv beta; try rewrite (agree_par d a b Ha); at_rw Ha; reflexivity.

(* ---------------------------------------------------------------- the closed families *)
Definition closed (id : mid) : bool :=
  match id with
  | Matl_ex | Mlookback | Msum | Mmax | Mmin | Mrolling_sum | Mrolling_max_fs | Mrolling_min_fs
  | Msum_fi | Mfsum_fi | Mcount_fi | Mfcount_fi | Mindirect => false
  | _ => true
  end.

Lemma others_at_local d a b i : agree_srcs d a b -> (i < d)%nat -> others_at a i = others_at b i.
Proof.
  intros Ha Hi. unfold others_at, nothers. rewrite (agree_par d a b Ha).
  apply map_ext. intros j. now apply (agree_at d a b j i Ha).
Qed.

Theorem closed_resume_ok_causal id : closed id = true ->
  with_method id (fun St m => resume_ok m /\ causal m agree_srcs).
Proof.
  destruct id; cbn [closed with_method]; intros H; try discriminate H; clear H;
  (split; [first [apply stateless_resume_ok | apply running_resume_ok]|]); apply local_causal.
  (* F1 *)
  - apply stateless_local; [apply tgt1_min|loc].
  - apply stateless_local; [apply tgt1_min|loc].
  - apply stateless_local; [apply tgt1_min|loc].
  - apply stateless_local; [apply tgt1_min|loc].
  - apply stateless_local; [apply tgt2_min|loc].
  - apply stateless_local; [apply tgt2_min|loc].
  - apply stateless_local; [apply tgt3_min|loc].
  - apply stateless_local; [apply tgt4_min|loc].
  - apply stateless_local; [apply tgt2_min|loc].
  - apply stateless_local; [apply tgt2_min|loc].
  - apply stateless_local; [apply tgt2_min|loc].
  - apply stateless_local; [apply tgt2_min|loc].
  - apply stateless_local; [apply tgt2_min|loc].
  - apply stateless_local; [apply tgt2_min|loc].
  - apply stateless_local; [apply tgt_others_min|]. intros d a b i Ha Hi. cbv beta. now rewrite (others_at_local d a b i Ha Hi).
  - apply stateless_local; [apply tgt_others_min|]. intros d a b i Ha Hi. cbv beta. now rewrite (others_at_local d a b i Ha Hi).
  - apply stateless_local; [apply tgt_others_min|]. intros d a b i Ha Hi. cbv beta. now rewrite (others_at_local d a b i Ha Hi).
  (* F2 *)
  - apply running_local; [apply tgt1_min|reflexivity|locu].
  - apply running_local; [apply tgt2_min|reflexivity|locu].
  - apply running_local; [apply tgt2_min|reflexivity|locu].
  - apply running_local; [apply tgt1_min|reflexivity|locu].
  - apply running_local; [apply tgt1_min|reflexivity|locu].
  - apply running_local; [apply tgt1_min| |locu]. intros d a b Ha Hd. cbv beta. now rewrite (agree_at d a b 0 0 Ha Hd).
  - apply running_local; [apply tgt1_min| |locu]. intros d a b Ha Hd. cbv beta. now rewrite (agree_at d a b 0 0 Ha Hd).
  - apply running_local; [apply tgt1_min|reflexivity|locu].
  - apply running_local; [apply tgt1_min|reflexivity|locu].
  (* F3 change *)
  - apply stateless_local; [apply tgt1_min|loc].
  (* F4 rolling_count *)
  - apply running_local; [apply tgt1_min|reflexivity|locu].
Qed.

(* lookback is stateless in the model (under its documented precondition), so resume_ok holds;
   causality does not: output i reads source[window_starts[i]], which the model does not bound. *)
Lemma lookback_resume_ok : resume_ok m_lookback.
Proof. apply stateless_resume_ok. Qed.

(* ---------------------------------------------------------------- compute_all_time_low_(exclude_default) *)
Definition atl_src : srcs := ([[5; 0; 3]], 0).
Definition atl_src0 : srcs := ([[5; 0]], 0).

Lemma atl_ex_resume_refuted : ~ resume_ok m_atl_ex.
Proof.
  intros H. destruct (H atl_src 2%nat 5 [5; 0] I eq_refl ltac:(cbn; lia)) as [H1 _].
  specialize (H1 ltac:(lia)). vm_compute in H1. discriminate H1.
Qed.

Lemma agree_atl : agree_srcs 2 atl_src0 atl_src.
Proof. split; [reflexivity|]. intros [|[|j]]; reflexivity. Qed.

Definition atl_hist : list (op srcs) := [OCompute atl_src0 0 0 1; OCompute atl_src 0 2 1].

(* source [5,0] computed, then the source grows to [5,0,3] and the call resumes at index 2
   (max_from = 2 = first changed index): the result is [5,0,0], a from-scratch run gives [5,0,3] *)
Theorem atl_ex_refuted :
  exists h, valid m_atl_ex agree_srcs false (new_vec 0, None) h /\
    let s := run_hist m_atl_ex false h (new_vec 0, None) in
    snd s = Some (atl_src, Ok tt) /\ contents (fst s) = [5; 0; 0] /\ scratch m_atl_ex atl_src = Ok [5; 0; 3].
Proof.
  exists atl_hist. split.
  - cbn [valid atl_hist op_ok snd]. split; [split; [lia|exact I]|].
    split; [|exact I]. split; [lia|]. vm_compute apply_op. exact agree_atl.
  - vm_compute. auto.
Qed.

(* ---------------------------------------------------------------- compressed reset + flush + re-import *)
Definition pco_a : srcs := ([[1]], 0).
Definition pco_b : srcs := ([[]], 0).
Definition pco_hist : list (op srcs) :=
  [OCompute pco_a 1 0 5; OCompute pco_b 2 0 5; OReimport; OCompute pco_b 2 5 5].

Lemma agree_refl d a : agree_srcs d a a.
Proof. split; reflexivity. Qed.
Lemma agree_zero a b : par a = par b -> agree_srcs 0 a b.
Proof. intros H. split; [exact H|reflexivity]. Qed.

(* Regression for the repaired compressed write() (commit faf2fd7): a version change that leaves
   nothing to compute, followed by flush + re-import and a redundant call, leaves the vector empty
   under the new recorded version (before the repair the discarded [3] was back). *)
Example compressed_reimport_regression :
  let s := run_hist m_to true pco_hist (new_vec 0, None) in
  snd s = Some (pco_b, Ok tt) /\ contents (fst s) = [] /\ scratch m_to pco_b = Ok [] /\ cv (fst s) = 2.
Proof. vm_compute. auto. Qed.

(* ---------------------------------------------------------------- methods with a precondition on the sources *)
Lemma resume_ok_weaken {St} (m : method srcs St N) (D : srcs -> Prop) : resume_ok m -> resume_ok_on m D.
Proof. intros H src k st outs _. apply H. exact I. Qed.

Section LocalOn.
Context {St : Type}.
Variable m : method srcs St N.
Variable D : srcs -> Prop.

Definition local_on : Prop :=
  forall d a b, D a -> D b -> agree_srcs d a b ->
    Nat.min d (target m a) = Nat.min d (target m b) /\
    ((0 < d)%nat -> recover m a [] 0 None = recover m b [] 0 None) /\
    (forall i st, (i < d)%nat -> step m a st i = step m b st i).

Lemma local_on_causal : local_on -> causal_on m agree_srcs D.
Proof.
  intros L d a b Da Db Ha. destruct (L d a b Da Db Ha) as (Ht & Hr & Hs). split; [exact Ht|].
  intros k Hk _ Hpos. unfold scratch_run. rewrite Hr by lia.
  destruct (recover m b [] 0 None) as [st0| |]; try reflexivity. cbn [bind].
  rewrite (local_steps m d a b Hs) by lia. reflexivity.
Qed.
End LocalOn.

(* compute_lookback: window starts never point forward (documented precondition) *)
Definition starts_ok (s : srcs) : Prop := forall i, (i < slen s 1)%nat -> (N.to_nat (at_ (sn s 1) i) <= i)%nat.

Lemma start_le s i : starts_ok s -> (N.to_nat (at_ (sn s 1) i) <= i)%nat.
Proof.
  intros H. destruct (Nat.lt_ge_cases i (slen s 1)) as [Hlt|Hge]; [now apply H|].
  unfold at_, slen in *. rewrite nth_overflow by lia. cbn. lia.
Qed.

Definition lookback_f (s : srcs) (i : nat) : res eerr N :=
  let st := N.to_nat (at_ (sn s 1) i) in
  if Nat.ltb st (slen s 0) then Ok (at_ (sn s 0) st) else Panic.

Lemma lookback_f_local d a b i : starts_ok b -> agree_srcs d a b -> (i < d)%nat -> lookback_f a i = lookback_f b i.
Proof.
  intros Db Ha Hi. unfold lookback_f. rewrite (agree_at d a b 1 i Ha Hi).
  pose proof (start_le b i Db) as Hle. set (k := N.to_nat (at_ (sn b 1) i)) in *.
  pose proof (agree_slen d a b 0 Ha) as Hm.
  rewrite (agree_at d a b 0 k Ha) by lia.
  replace (Nat.ltb k (slen a 0)) with (Nat.ltb k (slen b 0)); [reflexivity|].
  destruct (Nat.ltb k (slen b 0)) eqn:E1, (Nat.ltb k (slen a 0)) eqn:E2; try reflexivity;
  try apply Nat.ltb_lt in E1; try apply Nat.ltb_lt in E2; try apply Nat.ltb_ge in E1; try apply Nat.ltb_ge in E2; lia.
Qed.

Lemma lookback_local : local_on m_lookback starts_ok.
Proof.
  intros d a b Da Db Ha. split; [now apply tgt2_min|]. split; [reflexivity|].
  intros i st Hi. change (step m_lookback a st i) with (let! o := lookback_f a i in Ok (tt, o)).
  change (step m_lookback b st i) with (let! o := lookback_f b i in Ok (tt, o)).
  now rewrite (lookback_f_local d a b i Db Ha Hi).
Qed.

Theorem lookback_closed :
  resume_ok_on m_lookback starts_ok /\ causal_on m_lookback agree_srcs starts_ok /\
  forall compressed h own, valid m_lookback agree_srcs compressed (new_vec own, None) h -> in_dom starts_ok h ->
    C06_conclusion m_lookback (run_hist m_lookback compressed h (new_vec own, None)).
Proof.
  assert (R : resume_ok_on m_lookback starts_ok) by (apply resume_ok_weaken, stateless_resume_ok).
  assert (C : causal_on m_lookback agree_srcs starts_ok) by (apply local_on_causal, lookback_local).
  split; [exact R|]. split; [exact C|]. intros compressed h own V Hin.
  exact (C06_driver_on m_lookback agree_srcs starts_ok R C compressed h own V Hin).
Qed.

(* compute_all_time_low_(exclude_default = true) outside the known class: sources without a default
   (zero) value.  Then the remembered value always equals the emitted one. *)
Definition nozero (s : srcs) : Prop := forall i, (i < slen s 0)%nat -> at_ (sn s 0) i <> 0.

Lemma atl_ex_steps src : nozero src -> forall n st i outs st',
  (i + n <= slen src 0)%nat -> st <> 0 ->
  steps m_atl_ex src st i n = (outs, Ok st') -> st' <> 0 /\ st' = prev_out st outs n.
Proof.
  intros Hnz. induction n as [|n IH]; intros st i outs st' Hb Hst H.
  - cbn in H. inversion H; subst. auto.
  - rewrite steps_S in H. cbn [m_atl_ex step] in H.
    assert (Hv : at_ (sn src 0) i <> 0) by (apply Hnz; lia).
    assert (He : N.min st (at_ (sn src 0) i) <> 0) by lia.
    apply N.eqb_neq in He. rewrite He in H. cbn [negb] in H.
    destruct (steps m_atl_ex src (N.min st (at_ (sn src 0) i)) (S i) n) as [os r] eqn:E.
    inversion H; subst. rewrite prev_out_cons. eapply IH; eauto; [lia|]. now apply N.eqb_neq.
Qed.

Lemma atl_ex_resume_ok_nozero : resume_ok_on m_atl_ex nozero.
Proof.
  intros src k st outs Hnz H Hk. apply scratch_run_inv in H. destruct H as (st0 & H0 & Hs).
  cbn in H0. inversion H0; subst st0. cbn [target m_atl_ex] in Hk. unfold tgt1 in Hk.
  assert (Hb : (0 + k <= slen src 0)%nat) by lia.
  assert (H00 : at_ (sn src 0) 0 <> 0) by (apply Hnz; lia).
  destruct (atl_ex_steps src Hnz k _ 0%nat outs st Hb H00 Hs) as [_ ->].
  split; [intros _; reflexivity|reflexivity].
Qed.

Lemma atl_ex_local : local m_atl_ex.
Proof.
  intros d a b Ha. split; [now apply tgt1_min|]. split.
  - intros Hd. cbn. now rewrite (agree_at d a b 0 0 Ha Hd).
  - intros i st Hi. cbn. now rewrite (agree_at d a b 0 i Ha Hi).
Qed.

Theorem atl_ex_outside_known_class :
  forall compressed h own, valid m_atl_ex agree_srcs compressed (new_vec own, None) h -> in_dom nozero h ->
    C06_conclusion m_atl_ex (run_hist m_atl_ex compressed h (new_vec own, None)).
Proof.
  intros compressed h own V Hin.
  refine (C06_driver_on m_atl_ex agree_srcs nozero atl_ex_resume_ok_nozero _ compressed h own V Hin).
  intros d a b _ _ Ha. exact (local_causal m_atl_ex atl_ex_local d a b I I Ha).
Qed.

(* the witness of atl_ex_refuted is inside the known class *)
Lemma atl_hist_in_known_class : ~ in_dom nozero atl_hist.
Proof. intros [H _]. apply (H 1%nat); [cbn; lia|reflexivity]. Qed.

(* ---------------------------------------------------------------- locality relative to a state invariant *)
Section LocalInv.
Context {St : Type}.
Variable m : method srcs St N.
Variable D : srcs -> Prop.
Variable Inv : srcs -> nat -> St -> Prop.

Definition local_inv : Prop :=
  forall d a b, D a -> D b -> agree_srcs d a b ->
    Nat.min d (target m a) = Nat.min d (target m b) /\
    ((0 < d)%nat -> recover m a [] 0 None = recover m b [] 0 None) /\
    (forall st0, recover m b [] 0 None = Ok st0 -> Inv b 0 st0) /\
    (forall i st, (i < d)%nat -> Inv b i st -> step m a st i = step m b st i) /\
    (forall i st st' o, Inv b i st -> step m b st i = Ok (st', o) -> Inv b (S i) st').

Lemma local_inv_steps d a b :
  (forall i st, (i < d)%nat -> Inv b i st -> step m a st i = step m b st i) ->
  (forall i st st' o, Inv b i st -> step m b st i = Ok (st', o) -> Inv b (S i) st') ->
  forall n st i, (i + n <= d)%nat -> Inv b i st -> steps m a st i n = steps m b st i n.
Proof.
  intros H Hp. induction n as [|n IH]; intros st i Hi Hinv; [reflexivity|].
  rewrite !steps_S. rewrite H by (lia || assumption). destruct (step m b st i) as [[st' o]| |] eqn:E; try reflexivity.
  rewrite IH; [reflexivity|lia|eapply Hp; eauto].
Qed.

Lemma local_inv_causal : local_inv -> causal_on m agree_srcs D.
Proof.
  intros L d a b Da Db Ha. destruct (L d a b Da Db Ha) as (Ht & Hr & Hi0 & Hs & Hp). split; [exact Ht|].
  intros k Hk _ Hpos. unfold scratch_run. rewrite Hr by lia.
  destruct (recover m b [] 0 None) as [st0| |] eqn:E; try reflexivity. cbn [bind].
  rewrite (local_inv_steps d a b Hs Hp) by (lia || auto). reflexivity.
Qed.
End LocalInv.

(* ---------------------------------------------------------------- F4 compute_sum *)
Definition wsub (s : srcs) (k : nat) : nat := N.to_nat (ni k - par s).

Lemma sum_steps src : forall n ps pos i outs st',
  pos = wsub src i ->
  steps m_sum src (ps, pos) i n = (outs, Ok st') ->
  st' = (prev_out ps outs n, wsub src (i + n)).
Proof.
  induction n as [|n IH]; intros ps pos i outs st' Hpos H.
  - cbn in H. inversion H; subst. cbn. now rewrite Nat.add_0_r.
  - rewrite steps_S in H. cbn [m_sum step] in H.
    destruct (par src <=? ni i) eqn:Ew.
    + destruct (Nat.ltb pos (slen src 0)); [|inversion H].
      destruct (at_ (sn src 0) pos <=? ps); [|inversion H].
      destruct (steps m_sum src (ps - at_ (sn src 0) pos + at_ (sn src 0) i, S pos) (S i) n) as [os r] eqn:E.
      inversion H; subst. rewrite prev_out_cons. replace (i + S n)%nat with (S i + n)%nat by lia.
      eapply IH; [|exact E]. unfold wsub, ni in *. lia.
    + destruct (steps m_sum src (ps + at_ (sn src 0) i, pos) (S i) n) as [os r] eqn:E.
      inversion H; subst. rewrite prev_out_cons. replace (i + S n)%nat with (S i + n)%nat by lia.
      eapply IH; [|exact E]. unfold wsub, ni in *. lia.
Qed.

Lemma sum_resume_ok : resume_ok m_sum.
Proof.
  intros src k st outs _ H _. apply scratch_run_inv in H. destruct H as (st0 & H0 & Hs).
  cbn in H0. inversion H0; subst st0.
  apply (sum_steps src k 0 _ 0%nat) in Hs; [|reflexivity]. subst st. cbn [Nat.add].
  split; [intros _; cbn; reflexivity|]. cbn [recover m_sum]. fold (wsub src k). now rewrite Nat.max_id.
Qed.

(* the leaving cursor never runs ahead of the index being evaluated *)
Definition sum_inv (s : srcs) (i : nat) (st : N * nat) : Prop := (snd st <= i)%nat.

Lemma sum_local : local_inv m_sum (fun _ => True) sum_inv.
Proof.
  intros d a b _ _ Ha. split; [now apply tgt1_min|]. split.
  { intros _. cbn. now rewrite (agree_par d a b Ha). }
  split. { intros st0 H. cbn in H. inversion H. unfold sum_inv. cbn. lia. }
  split.
  - intros i [ps pos] Hi Hinv. unfold sum_inv in Hinv. cbn [snd] in Hinv. cbn [step m_sum].
    rewrite (agree_par d a b Ha). rewrite (agree_at d a b 0 i Ha Hi). rewrite (agree_at d a b 0 pos Ha) by lia.
    pose proof (agree_slen d a b 0 Ha) as Hm.
    replace (Nat.ltb pos (slen a 0)) with (Nat.ltb pos (slen b 0)); [reflexivity|].
    destruct (Nat.ltb pos (slen b 0)) eqn:E1, (Nat.ltb pos (slen a 0)) eqn:E2; try reflexivity;
    try apply Nat.ltb_lt in E1; try apply Nat.ltb_lt in E2; try apply Nat.ltb_ge in E1; try apply Nat.ltb_ge in E2; lia.
  - intros i [ps pos] st' o Hinv H. unfold sum_inv in *. cbn [snd] in Hinv. cbn [step m_sum] in H.
    destruct (par b <=? ni i).
    + destruct (Nat.ltb pos (slen b 0)); [|inversion H]. destruct (_ <=? ps); inversion H; subst. cbn. lia.
    + inversion H; subst. cbn. lia.
Qed.

Theorem sum_closed :
  resume_ok m_sum /\ causal m_sum agree_srcs /\
  forall compressed h own, valid m_sum agree_srcs compressed (new_vec own, None) h ->
    C06_conclusion m_sum (run_hist m_sum compressed h (new_vec own, None)).
Proof.
  pose proof sum_resume_ok as R. pose proof (local_inv_causal m_sum _ sum_inv sum_local) as C.
  split; [exact R|]. split; [exact C|]. intros compressed h own V. exact (C06_driver_all m_sum agree_srcs R C compressed h own V).
Qed.

(* ---------------------------------------------------------------- final forms for Props/C06.v *)
Definition C06_closed_statement : Prop :=
  forall id, closed id = true ->
  with_method id (fun St m =>
    resume_ok m /\ causal m agree_srcs /\
    forall compressed h own, valid m agree_srcs compressed (new_vec own, None) h ->
      C06_conclusion m (run_hist m compressed h (new_vec own, None))).

Theorem C06_closed_methods : C06_closed_statement.
Proof.
  intros id Hc. pose proof (closed_resume_ok_causal id Hc) as H.
  destruct id; cbn [closed] in Hc; try discriminate Hc; cbn [with_method] in *; destruct H as [R C];
  (split; [exact R|split; [exact C|]]); intros compressed h own V; apply (C06_driver_all _ agree_srcs R C compressed h own V).
Qed.

Example closed_count : length (filter closed
  [Mto; Mrange; Mfrom_index; Mtransform; Mtransform2; Mbinary; Mtransform3; Mtransform4; Madd; Msubtract;
   Mmultiply; Mdivide; Mpercentage; Mpercentage_diff; Msum_of_others; Mmin_of_others; Mmax_of_others;
   Mcumulative; Mcum_binary; Mcum_tbinary; Mcum_count; Mcum_count_from; Math; Matl; Matl_ex; Math_from;
   Matl_from; Mchange; Mlookback; Msum; Mrolling_count; Mmax; Mmin; Mrolling_sum; Mrolling_max_fs;
   Mrolling_min_fs]) = 28%nat.
Proof. reflexivity. Qed.

