(* Eager/EVersion.v — MODEL (definitions only) for C19: the driver of EDriver.v run on outputs that
   carry two ghost tags: the combined version (header.vec_version + dependency version,
   traits/writable.rs:192) under which the element was produced, and the serial number of the
   compute call that evaluated it (the "log of evaluated indices": index i was evaluated by call n
   iff the element stored at i carries serial n). *)
From Anydb Require Import Common.Base Eager.EDriver.

Section Version.
Context {Src St Out : Type}.

Definition tag : Type := (N * nat)%type.
Definition tout : Type := (Out * tag)%type.
Definition tver (x : tout) : N := fst (snd x).
Definition tserial (x : tout) : nat := snd (snd x).

(* the same method, producing tagged outputs; recovery reads the untagged values *)
Definition tagm (m : method Src St Out) (t : tag) : method Src St tout :=
  {| target := target m;
     recover := fun src outs k c => recover m src (map fst outs) k c;
     step := fun src st i => let! p := step m src st i in Ok (fst p, (snd p, t)) |}.

(* the n-th compute call on v *)
Definition compute_tagged (m : method Src St Out) (compressed : bool) (src : Src) (dep : N) (max_from cap : nat)
  (serial : nat) (v : vec tout) : vec tout * res eerr unit :=
  compute_call (tagm m (vv v + dep, serial)) compressed src dep max_from cap v.

Definition push_tagged (v : vec tout) (os : list Out) : vec tout :=
  hand_push v (map (fun o => (o, (cv v, O))) os).

Variable m : method Src St Out.

(* History alphabet.  A compute call may be made with a user closure that fails at index [fail]
   (the call returns Err before its write: the values computed so far stay unwritten), and values
   may be pushed by hand without a write: the caller presents them as results under the currently
   recorded version, so they carry that version as their tag (and the serial of no call). *)
Inductive vop :=
| VCompute (src : Src) (dep : N) (max_from cap : nat) (fail : option nat)
| VPush (os : list Out)
| VWrite
| VReimport
| VReimportOwn (own : N).

Definition vstate : Type := (vec tout * nat)%type.

Definition vapply (compressed : bool) (s : vstate) (o : vop) : vstate :=
  match o with
  | VCompute src dep mf cap fail =>
    (fst (compute_tagged (with_fail fail m) compressed src dep mf cap (S (snd s)) (fst s)), S (snd s))
  | VPush os => (push_tagged (fst s) os, snd s)
  | VWrite => (write (fst s), snd s)
  | VReimport => (reimport (write (fst s)), snd s)
  | VReimportOwn own =>
    let v' := write (fst s) in
    if own =? vv v' then (reimport v', snd s) else (new_vec own, snd s)
  end.

Definition vrun (compressed : bool) (h : list vop) (s : vstate) : vstate := fold_left (vapply compressed) h s.

End Version.
