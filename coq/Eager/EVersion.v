(* Eager/EVersion.v — MODEL (definitions only) for C19: the driver of EDriver.v run on outputs that
   carry two ghost tags: the combined version (header.vec_version + dependency version,
   traits/writable.rs:192) under which the element was produced, and the serial number of the
   compute call that evaluated it (the "log of evaluated indices": index i was evaluated by call n
   iff the element stored at i carries serial n). *)
From Anydb Require Import Common.Base Eager.EDriver.

Section Version.
Context {Src St Out : Type}.

Definition tag : Type := (N * nat)%type.
Definition tout : Type := (Out * tag)%type.
Definition tver (x : tout) : N := fst (snd x).
Definition tserial (x : tout) : nat := snd (snd x).

Variable m : method Src St Out.

(* the same method, producing tagged outputs; recovery reads the untagged values *)
Definition tagm (t : tag) : method Src St tout :=
  {| target := target m;
     recover := fun src outs k c => recover m src (map fst outs) k c;
     step := fun src st i => let! p := step m src st i in Ok (fst p, (snd p, t)) |}.

(* the n-th compute call on v *)
Definition compute_tagged (compressed : bool) (src : Src) (dep : N) (max_from cap : nat) (serial : nat)
  (v : vec tout) : vec tout * res eerr unit :=
  compute_call (tagm (vv v + dep, serial)) compressed src dep max_from cap v.

Inductive vop :=
| VCompute (src : Src) (dep : N) (max_from cap : nat)
| VWrite
| VReimport
| VReimportOwn (own : N).

Definition vstate : Type := (vec tout * nat)%type.

Definition vapply (compressed : bool) (s : vstate) (o : vop) : vstate :=
  match o with
  | VCompute src dep mf cap => (fst (compute_tagged compressed src dep mf cap (snd s) (fst s)), S (snd s))
  | VWrite => (write (fst s), snd s)
  | VReimport => (reimport (write (fst s)), snd s)
  | VReimportOwn own =>
    let v' := write (fst s) in
    if own =? vv v' then (reimport v', snd s) else (new_vec own, snd s)
  end.

Definition vrun (compressed : bool) (h : list vop) (s : vstate) : vstate := fold_left (vapply compressed) h s.

End Version.
