(* Eager/ERollingProofs.v — PROOFS for F6: variable windows from a window-starts vector
   (compute_rolling_sum statistics.rs:172, compute_rolling_{max,min}_from_starts statistics.rs:578),
   under the documented precondition: window starts are non-decreasing and never point forward. *)
From Anydb Require Import Common.Base Eager.EDriver Eager.EDriverProofs Eager.EFamilies Eager.EFamiliesProofs
  Eager.EDequeProofs.

Definition starts_mono (s : srcs) : Prop :=
  starts_ok s /\ forall i j, (i <= j)%nat -> (j < slen s 1)%nat -> at_ (sn s 1) i <= at_ (sn s 1) j.

Definition start_at (s : srcs) (k : nat) : N := match k with O => 0 | S k' => at_ (sn s 1) k' end.

Lemma start_at_le s k : starts_mono s -> (k <= slen s 1)%nat -> (N.to_nat (start_at s k) <= k)%nat.
Proof.
  intros [Hok _] Hk. destruct k; cbn; [lia|]. pose proof (Hok k ltac:(lia)). lia.
Qed.

(* ---------------------------------------------------------------- compute_rolling_sum *)
Lemma rsum_steps src : starts_mono src -> forall n rs i outs st',
  (i + n <= tgt2 src)%nat ->
  steps m_rolling_sum src (rs, start_at src i, N.to_nat (start_at src i)) i n = (outs, Ok st') ->
  st' = (prev_out rs outs n, start_at src (i + n), N.to_nat (start_at src (i + n))).
Proof.
  intros [Hok Hmono]. induction n as [|n IH]; intros rs i outs st' Hb H.
  - cbn in H. inversion H; subst. cbn. now rewrite Nat.add_0_r.
  - unfold tgt2 in Hb. rewrite steps_S in H. cbn [m_rolling_sum step] in H.
    assert (Hsi : (N.to_nat (at_ (sn src 1) i) <= i)%nat) by (apply Hok; lia).
    assert (Hge : start_at src i <= at_ (sn src 1) i).
    { destruct i; cbn [start_at]; [lia|]. apply Hmono; lia. }
    replace (i + S n)%nat with (S i + n)%nat by lia.
    destruct (start_at src i <? at_ (sn src 1) i) eqn:Elt.
    + apply N.ltb_lt in Elt.
      set (nn := N.to_nat (at_ (sn src 1) i - start_at src i)) in *.
      assert (Hmin : Nat.min nn (slen src 0 - N.to_nat (start_at src i)) = nn) by (unfold nn; lia).
      rewrite Hmin in H.
      destruct (_ <=? _) in H; [|inversion H].
      match type of H with context [steps _ _ (?r, _, ?p) _ _] => set (r1 := r) in *; set (p1 := p) in * end.
      replace p1 with (N.to_nat (start_at src (S i))) in H by (unfold p1, nn; cbn [start_at]; lia).
      change (at_ (sn src 1) i) with (start_at src (S i)) in H at 1.
      destruct (steps m_rolling_sum src (r1, start_at src (S i), N.to_nat (start_at src (S i))) (S i) n) as [os r] eqn:E.
      inversion H; subst. rewrite prev_out_cons. eapply IH; [|exact E]. unfold tgt2. lia.
    + apply N.ltb_ge in Elt. assert (Heq : start_at src i = start_at src (S i)) by (cbn [start_at]; lia).
      rewrite Heq in H.
      destruct (steps m_rolling_sum src (rs + at_ (sn src 0) i, start_at src (S i), N.to_nat (start_at src (S i))) (S i) n) as [os r] eqn:E.
      inversion H; subst. rewrite prev_out_cons. eapply IH; [|exact E]. unfold tgt2. lia.
Qed.

Lemma rsum_resume_ok : resume_ok_on m_rolling_sum starts_mono.
Proof.
  intros src k st outs Hd H Hk. apply scratch_run_inv in H. destruct H as (st0 & H0 & Hs).
  cbn in H0. inversion H0; subst st0. cbn [target m_rolling_sum] in Hk.
  change (0, 0, 0%nat) with (0, start_at src 0, N.to_nat (start_at src 0)) in Hs.
  apply (rsum_steps src Hd k 0 0%nat) in Hs; [|lia]. cbn [Nat.add] in Hs. subst st.
  pose proof (start_at_le src k Hd ltac:(unfold tgt2 in Hk; lia)) as Hle.
  unfold tgt2 in Hk.
  destruct k as [|k'].
  - split; [lia|reflexivity].
  - cbn [start_at] in *. split; [intros _|]; cbn [recover m_rolling_sum prev_out]; repeat f_equal; lia.
Qed.

Fixpoint sum_range_local (la lb : list N) from n d :
  firstn d la = firstn d lb -> (from + n <= d)%nat -> sum_range la from n = sum_range lb from n.
Proof.
  intros Hf Hb. destruct n as [|n]; [reflexivity|]. cbn [sum_range].
  rewrite (sum_range_local la lb (S from) n d Hf) by lia. f_equal.
  unfold at_. rewrite <- (nth_firstn_lt la d) by lia. rewrite <- (nth_firstn_lt lb d) by lia. now rewrite Hf.
Qed.

Definition rsum_inv (s : srcs) (i : nat) (st : N * N * nat) : Prop :=
  let '(_, ps, pos) := st in (pos <= N.to_nat ps)%nat /\ (N.to_nat ps <= i)%nat.

Lemma rsum_local : local_inv m_rolling_sum starts_mono rsum_inv.
Proof.
  intros d a b Da Db Ha. split; [now apply tgt2_min|]. split; [reflexivity|].
  split. { intros st0 H. cbn in H. inversion H. cbn. lia. }
  destruct Db as [Dok Dmono]. split.
  - intros i [[rs ps] pos] Hi [Hp1 Hp2]. cbn [step m_rolling_sum].
    rewrite (agree_at d a b 0 i Ha Hi), (agree_at d a b 1 i Ha Hi).
    pose proof (start_le b i Dok) as Hsl. set (start := at_ (sn b 1) i) in *.
    destruct (ps <? start) eqn:Elt; [|reflexivity]. apply N.ltb_lt in Elt.
    pose proof (agree_slen d a b 0 Ha) as Hm.
    assert (Hn : Nat.min (N.to_nat (start - ps)) (slen a 0 - pos) = Nat.min (N.to_nat (start - ps)) (slen b 0 - pos)) by lia.
    rewrite Hn. set (n' := Nat.min _ (slen b 0 - pos)).
    destruct Ha as [_ Hf]. rewrite (sum_range_local (sn a 0) (sn b 0) pos n' d (Hf 0%nat)) by (unfold n'; lia).
    reflexivity.
  - intros i [[rs ps] pos] st' o [Hp1 Hp2] H. cbn [step m_rolling_sum] in H.
    pose proof (start_le b i Dok) as Hsl. set (start := at_ (sn b 1) i) in *.
    destruct (ps <? start) eqn:Elt.
    + apply N.ltb_lt in Elt. destruct (_ <=? _) in H; inversion H; subst. cbn. lia.
    + inversion H; subst. cbn. lia.
Qed.

Theorem rolling_sum_closed :
  resume_ok_on m_rolling_sum starts_mono /\ causal_on m_rolling_sum agree_srcs starts_mono /\
  forall compressed h own, valid m_rolling_sum agree_srcs compressed (new_vec own, None) h -> in_dom starts_mono h ->
    C06_conclusion m_rolling_sum (run_hist m_rolling_sum compressed h (new_vec own, None)).
Proof.
  pose proof rsum_resume_ok as R. pose proof (local_inv_causal m_rolling_sum _ rsum_inv rsum_local) as C.
  split; [exact R|]. split; [exact C|]. intros compressed h own V Hin.
  exact (C06_driver_on m_rolling_sum agree_srcs starts_mono R C compressed h own V Hin).
Qed.

(* ---------------------------------------------------------------- compute_rolling_{max,min}_from_starts *)
Section DequeFs.
Variable sp : N -> N -> bool.
Variable l : list N.        (* values *)
Variable ws : list N.       (* window starts *)
Notation dq := (list (nat * N)).

Lemma pfl_unfold s (x : nat * N) t :
  pop_front_lt s (x :: t) = if ni (fst x) <? s then pop_front_lt s t else x :: t.
Proof. destruct x as [idx v]. reflexivity. Qed.

Lemma pfl_app s (d e : dq) :
  (forall x y, In x d -> In y e -> (fst x < fst y)%nat) ->
  exists d1, incl d1 d /\ pop_front_lt s (d ++ e) = d1 ++ pop_front_lt s e.
Proof.
  induction d as [|x t IH]; intros Hb.
  - exists []. split; [apply incl_refl|reflexivity].
  - cbn [app]. rewrite pfl_unfold. destruct (ni (fst x) <? s) eqn:Ec.
    + destruct IH as (d1 & Hi & He); [intros; apply Hb; cbn; auto|].
      exists d1. split; [apply incl_tl; exact Hi|exact He].
    + exists (x :: t). split; [apply incl_refl|]. cbn [app]. f_equal. f_equal.
      destruct e as [|y e']; [reflexivity|]. rewrite pfl_unfold.
      assert (Hlt : (fst x < fst y)%nat) by (apply Hb; cbn; auto).
      replace (ni (fst y) <? s) with false; [reflexivity|].
      symmetry. apply N.ltb_ge. apply N.ltb_ge in Ec. unfold ni in *. lia.
Qed.

Lemma pfl_all s (d e : dq) :
  (forall x, In x d -> ni (fst x) < s) -> pop_front_lt s (d ++ e) = pop_front_lt s e.
Proof.
  induction d as [|x t IH]; intros H; [reflexivity|]. cbn [app]. rewrite pfl_unfold.
  replace (ni (fst x) <? s) with true by (symmetry; apply N.ltb_lt; apply H; cbn; auto).
  apply IH. intros; apply H; cbn; auto.
Qed.

Lemma pfl_id s (e : dq) : (forall x, In x e -> s <= ni (fst x)) -> pop_front_lt s e = e.
Proof.
  destruct e as [|x t]; intros H; [reflexivity|]. rewrite pfl_unfold.
  replace (ni (fst x) <? s) with false; [reflexivity|]. symmetry. apply N.ltb_ge. apply H. cbn; auto.
Qed.

Lemma pfl_incl s (d : dq) : incl (pop_front_lt s d) d.
Proof.
  induction d as [|x t IH]; [apply incl_refl|]. rewrite pfl_unfold. destruct (_ <? _).
  - apply incl_tl. exact IH.
  - apply incl_refl.
Qed.

(* one step of the running deque, and the fold over [i, i+n) *)
Definition upd_fs (d : dq) (i : nat) : dq :=
  pop_back_while sp (at_ l i) (pop_front_lt (at_ ws i) d) ++ [(i, at_ l i)].
Fixpoint run_fs (d : dq) (i n : nat) : dq :=
  match n with O => d | S n' => run_fs (upd_fs d i) (S i) n' end.

Lemma upd_fs_incl d i x : In x (upd_fs d i) -> In x d \/ x = (i, at_ l i).
Proof.
  unfold upd_fs. intros H. apply in_app_or in H. destruct H as [H|[H|[]]]; [left|right; now symmetry].
  apply pbw_incl in H. now apply pfl_incl in H.
Qed.

Lemma upd_fs_app (d e : dq) i :
  (forall x y, In x d -> In y e -> (fst x < fst y)%nat) ->
  exists d', incl d' d /\ upd_fs (d ++ e) i = d' ++ upd_fs e i.
Proof.
  intros Hb. unfold upd_fs. destruct (pfl_app (at_ ws i) d e Hb) as (d1 & Hi1 & E1). rewrite E1.
  destruct (pbw_app sp (at_ l i) d1 (pop_front_lt (at_ ws i) e)) as (d2 & Hi2 & E2). rewrite E2.
  exists d2. split; [eapply incl_tran; eauto|]. now rewrite app_assoc.
Qed.

Lemma run_fs_split n1 : forall n2 d i, run_fs d i (n1 + n2) = run_fs (run_fs d i n1) (i + n1) n2.
Proof.
  induction n1 as [|n1 IH]; intros n2 d i; cbn [Nat.add run_fs].
  - now rewrite Nat.add_0_r.
  - rewrite IH. f_equal. lia.
Qed.
Lemma run_fs_last d i n : run_fs d i (S n) = upd_fs (run_fs d i n) (i + n).
Proof. replace (S n) with (n + 1)%nat by lia. rewrite run_fs_split. reflexivity. Qed.

Lemma run_fs_all_lt n : forall d i, all_lt i d -> all_lt (i + n) (run_fs d i n).
Proof.
  induction n as [|n IH]; intros d i H; cbn [run_fs]; [now rewrite Nat.add_0_r|].
  replace (i + S n)%nat with (S i + n)%nat by lia. apply IH.
  intros x Hx. apply upd_fs_incl in Hx. destruct Hx as [Hx| ->]; [apply H in Hx; lia|cbn; lia].
Qed.

Lemma run_fs_all_ge a n : forall e i, all_ge a e -> (a <= i)%nat -> all_ge a (run_fs e i n).
Proof.
  induction n as [|n IH]; intros e i He Hai; cbn [run_fs]; [exact He|]. apply IH; [|lia].
  intros x Hx. apply upd_fs_incl in Hx. destruct Hx as [Hx| ->]; [now apply He|cbn; lia].
Qed.

Lemma run_fs_app a n : forall d e i, all_lt a d -> all_ge a e -> (a <= i)%nat ->
  exists d', incl d' d /\ run_fs (d ++ e) i n = d' ++ run_fs e i n.
Proof.
  induction n as [|n IH]; intros d e i Hd He Hai; cbn [run_fs].
  - exists d. split; [apply incl_refl|reflexivity].
  - destruct (upd_fs_app d e i) as (d' & Hi & E).
    { intros x y Hx Hy. apply Hd in Hx. apply He in Hy. lia. }
    rewrite E. destruct (IH d' (upd_fs e i) (S i)) as (d'' & Hi2 & E2).
    + intros x Hx. apply Hd. now apply Hi.
    + intros x Hx. apply upd_fs_incl in Hx. destruct Hx as [Hx| ->]; [now apply He|cbn; lia].
    + lia.
    + exists d''. split; [eapply incl_tran; eauto|exact E2].
Qed.

(* without front pops the running deque over [a, a+n) is the rebuilt one, when no start exceeds a *)
Lemma run_fs_rebuild a : forall n e i, all_ge a e -> (a <= i)%nat ->
  (forall j, (i <= j < i + n)%nat -> at_ ws j <= ni a) ->
  run_fs e i n = rebuild_fs sp l e i n.
Proof.
  induction n as [|n IH]; intros e i He Hai Hws; cbn [run_fs rebuild_fs]; [reflexivity|].
  assert (Hu : upd_fs e i = pop_back_while sp (at_ l i) e ++ [(i, at_ l i)]).
  { unfold upd_fs. rewrite pfl_id; [reflexivity|]. intros x Hx. apply He in Hx.
    pose proof (Hws i ltac:(lia)). unfold ni in *. lia. }
  rewrite Hu. apply IH; [|lia|intros; apply Hws; lia].
  intros x Hx. apply in_app_or in Hx. destruct Hx as [Hx|[<-|[]]]; [apply pbw_incl in Hx; now apply He|cbn; lia].
Qed.

Lemma rebuild_fs_last d i n :
  rebuild_fs sp l d i (S n) =
  pop_back_while sp (at_ l (i + n)) (rebuild_fs sp l d i n) ++ [((i + n)%nat, at_ l (i + n))].
Proof.
  revert d i. induction n as [|n IH]; intros d i.
  - cbn. now rewrite Nat.add_0_r.
  - cbn [rebuild_fs] in *. rewrite IH. replace (S i + n)%nat with (i + S n)%nat by lia. reflexivity.
Qed.

(* the deque of a from-scratch run at k equals the deque rebuilt over [ws[k-1], k) *)
Lemma run_fs_window k :
  (1 <= k)%nat ->
  (N.to_nat (at_ ws (k - 1)) <= k - 1)%nat ->
  (forall j, (j <= k - 1)%nat -> at_ ws j <= at_ ws (k - 1)) ->
  run_fs [] 0 k = rebuild_fs sp l [] (N.to_nat (at_ ws (k - 1))) (k - N.to_nat (at_ ws (k - 1))).
Proof.
  intros Hk Hle Hmono. set (a := N.to_nat (at_ ws (k - 1))) in *.
  destruct (k - a)%nat as [|n'] eqn:En; [lia|].
  replace k with (a + S n')%nat at 1 by lia. rewrite run_fs_split. cbn [Nat.add].
  rewrite run_fs_last, rebuild_fs_last.
  destruct (run_fs_app a n' (run_fs [] 0 a) [] a) as (d' & Hi & E).
  { apply (run_fs_all_lt a [] 0%nat). intros x []. }
  { intros x []. }
  { lia. }
  rewrite app_nil_r in E. rewrite E.
  assert (Hreb : run_fs [] a n' = rebuild_fs sp l [] a n').
  { apply (run_fs_rebuild a); [intros x []|lia|].
    intros j Hj. pose proof (Hmono j ltac:(lia)). unfold a, ni. lia. }
  unfold upd_fs. replace (a + n')%nat with (k - 1)%nat by lia.
  rewrite pfl_all.
  - rewrite pfl_id; [now rewrite Hreb|].
    intros x Hx. pose proof (run_fs_all_ge a n' [] a ltac:(intros y []) ltac:(lia) x Hx). unfold a, ni in *. lia.
  - intros x Hx. apply Hi in Hx.
    pose proof (run_fs_all_lt a [] 0%nat ltac:(intros y []) x Hx) as Hlt. cbn [Nat.add] in Hlt.
    unfold a, ni in *. lia.
Qed.
End DequeFs.

Lemma monotonic_fs_steps sp src : forall n d i outs d',
  steps (monotonic_fs sp) src d i n = (outs, Ok d') -> d' = run_fs sp (sn src 0) (sn src 1) d i n.
Proof.
  induction n as [|n IH]; intros d i outs d' H.
  - cbn in H. now inversion H.
  - rewrite steps_S in H. cbn [monotonic_fs step] in H. cbn [run_fs]. unfold upd_fs.
    destruct (pop_back_while sp (at_ (sn src 0) i) (pop_front_lt (at_ (sn src 1) i) d) ++ [(i, at_ (sn src 0) i)]) as [|[j v] t] eqn:Eu; [inversion H|].
    destruct (steps (monotonic_fs sp) src ((j, v) :: t) (S i) n) as [os r] eqn:E.
    inversion H; subst. eapply IH; eauto.
Qed.

Lemma monotonic_fs_resume_ok sp : resume_ok_on (monotonic_fs sp) starts_mono.
Proof.
  intros src k st outs [Hok Hmono] H Hk. apply scratch_run_inv in H. destruct H as (st0 & H0 & Hs).
  cbn in H0. inversion H0; subst st0. apply monotonic_fs_steps in Hs. subst st.
  cbn [target monotonic_fs] in Hk. unfold tgt2 in Hk.
  assert (E : forall c, (0 < k)%nat -> recover (monotonic_fs sp) src outs k c =
                 Ok (run_fs sp (sn src 0) (sn src 1) [] 0 k)).
  { intros c Hpos. destruct k as [|k']; [lia|]. cbn [recover monotonic_fs]. f_equal. symmetry.
    pose proof (run_fs_window sp (sn src 0) (sn src 1) (S k') ltac:(lia)) as W.
    replace (S k' - 1)%nat with k' in W by lia. apply W.
    - apply Hok. lia.
    - intros j Hj. apply Hmono; lia. }
  split; [intros Hpos; now apply E|].
  destruct (Nat.eq_dec k 0) as [->|Hnz]; [reflexivity|apply E; lia].
Qed.

Lemma monotonic_fs_local sp : local (monotonic_fs sp).
Proof.
  intros d a b Ha. split; [now apply tgt2_min|]. split; [reflexivity|].
  intros i st Hi. cbn. now rewrite (agree_at d a b 0 i Ha Hi), (agree_at d a b 1 i Ha Hi).
Qed.

Definition monotonic_fs_statement (sp : N -> N -> bool) : Prop :=
  resume_ok_on (monotonic_fs sp) starts_mono /\ causal_on (monotonic_fs sp) agree_srcs starts_mono /\
  forall compressed h own, valid (monotonic_fs sp) agree_srcs compressed (new_vec own, None) h -> in_dom starts_mono h ->
    C06_conclusion (monotonic_fs sp) (run_hist (monotonic_fs sp) compressed h (new_vec own, None)).

Theorem monotonic_fs_closed sp : monotonic_fs_statement sp.
Proof.
  pose proof (monotonic_fs_resume_ok sp) as R.
  pose proof (causal_weaken _ starts_mono (local_causal _ (monotonic_fs_local sp))) as C.
  split; [exact R|]. split; [exact C|]. intros compressed h own V Hin.
  exact (C06_driver_on (monotonic_fs sp) agree_srcs starts_mono R C compressed h own V Hin).
Qed.

Theorem rolling_max_fs_closed : monotonic_fs_statement (fun back new => back <=? new).
Proof. exact (monotonic_fs_closed _). Qed.
Theorem rolling_min_fs_closed : monotonic_fs_statement (fun back new => new <=? back).
Proof. exact (monotonic_fs_closed _). Qed.
