(* Eager/EDequeProofs.v — PROOFS for F5 (compute_max / compute_min, statistics.rs:18
   compute_monotonic_window): the deque rebuilt over [skip - window, skip) equals the deque a
   from-scratch run holds at skip.  Shape of the argument: a deque d ++ e whose old part d has only
   indices below a and whose new part e has only indices >= a evolves as d' ++ (evolution of e alone)
   with d' a remnant of d; at the last step before skip every remnant of d is popped at the front. *)
From Anydb Require Import Common.Base Eager.EDriver Eager.EDriverProofs Eager.EFamilies Eager.EFamiliesProofs.

Section Deque.
Variable sp : N -> N -> bool.
Variable w : N.
Variable l : list N.

Notation dq := (list (nat * N)).
Definition fcond (i : nat) (x : nat * N) : bool := (w <=? ni i) && (ni (fst x) <=? ni i - w).

Lemma pfw_unfold i (x : nat * N) t :
  pop_front_while w i (x :: t) = if fcond i x then pop_front_while w i t else x :: t.
Proof. destruct x as [idx v]. reflexivity. Qed.

Lemma pfw_incl i (d : dq) : incl (pop_front_while w i d) d.
Proof.
  induction d as [|x t IH]; [apply incl_refl|]. rewrite pfw_unfold. destruct (fcond i x).
  - apply incl_tl. exact IH.
  - apply incl_refl.
Qed.

Lemma pfw_app i (d e : dq) :
  (forall x y, In x d -> In y e -> (fst x < fst y)%nat) ->
  exists d1, incl d1 d /\ pop_front_while w i (d ++ e) = d1 ++ pop_front_while w i e.
Proof.
  induction d as [|x t IH]; intros Hb.
  - exists []. split; [apply incl_refl|reflexivity].
  - cbn [app]. rewrite pfw_unfold. destruct (fcond i x) eqn:Ec.
    + destruct IH as (d1 & Hi & He); [intros; apply Hb; cbn; auto|].
      exists d1. split; [apply incl_tl; exact Hi|exact He].
    + exists (x :: t). split; [apply incl_refl|]. cbn [app]. f_equal. f_equal.
      destruct e as [|y e']; [reflexivity|]. rewrite pfw_unfold.
      assert (Hlt : (fst x < fst y)%nat) by (apply Hb; cbn; auto).
      replace (fcond i y) with false; [reflexivity|].
      unfold fcond, ni in *. destruct (w <=? N.of_nat i) eqn:E1; cbn [andb] in *; [|reflexivity].
      symmetry. apply N.leb_gt. apply N.leb_gt in Ec. lia.
Qed.

Lemma pfw_all i (d e : dq) :
  (forall x, In x d -> fcond i x = true) -> pop_front_while w i (d ++ e) = pop_front_while w i e.
Proof.
  induction d as [|x t IH]; intros H; [reflexivity|]. cbn [app]. rewrite pfw_unfold.
  rewrite (H x) by (cbn; auto). apply IH. intros; apply H; cbn; auto.
Qed.

Lemma pbr_unfold v (x : nat * N) t :
  pop_back_rev sp v (x :: t) = if sp (snd x) v then pop_back_rev sp v t else x :: t.
Proof. destruct x as [idx u]. reflexivity. Qed.

Lemma pbr_incl v (r : dq) : incl (pop_back_rev sp v r) r.
Proof.
  induction r as [|x t IH]; [apply incl_refl|]. rewrite pbr_unfold. destruct (sp _ _).
  - apply incl_tl. exact IH.
  - apply incl_refl.
Qed.

Lemma pbr_app v (r1 r2 : dq) :
  exists r2', incl r2' r2 /\ pop_back_rev sp v (r1 ++ r2) = pop_back_rev sp v r1 ++ r2'.
Proof.
  induction r1 as [|x t IH].
  - exists (pop_back_rev sp v r2). split; [apply pbr_incl|reflexivity].
  - cbn [app]. rewrite !pbr_unfold. destruct (sp _ _); [exact IH|].
    exists r2. split; [apply incl_refl|reflexivity].
Qed.

Lemma pbw_incl v (d : dq) : incl (pop_back_while sp v d) d.
Proof.
  unfold pop_back_while. intros x Hx. apply in_rev in Hx. apply pbr_incl in Hx. now apply in_rev in Hx.
Qed.

Lemma pbw_app v (d e : dq) :
  exists d2, incl d2 d /\ pop_back_while sp v (d ++ e) = d2 ++ pop_back_while sp v e.
Proof.
  unfold pop_back_while. rewrite rev_app_distr.
  destruct (pbr_app v (rev e) (rev d)) as (r2' & Hi & He). exists (rev r2'). split.
  - intros x Hx. apply in_rev in Hx. apply Hi in Hx. now apply in_rev in Hx.
  - rewrite He. now rewrite rev_app_distr.
Qed.

Notation upd d i := (update_deque sp w d i (at_ l i)).

Lemma upd_incl (e : dq) i x : In x (upd e i) -> In x e \/ x = (i, at_ l i).
Proof.
  unfold update_deque. intros H. apply in_app_or in H. destruct H as [H|[H|[]]]; [left|right; now symmetry].
  apply pbw_incl in H. now apply pfw_incl in H.
Qed.

Lemma upd_app (d e : dq) i :
  (forall x y, In x d -> In y e -> (fst x < fst y)%nat) ->
  exists d', incl d' d /\ upd (d ++ e) i = d' ++ upd e i.
Proof.
  intros Hb. unfold update_deque. destruct (pfw_app i d e Hb) as (d1 & Hi1 & E1). rewrite E1.
  destruct (pbw_app (at_ l i) d1 (pop_front_while w i e)) as (d2 & Hi2 & E2). rewrite E2.
  exists d2. split; [eapply incl_tran; eauto|]. now rewrite app_assoc.
Qed.

Notation rb d i n := (rebuild sp w l d i n).

Lemma rb_split n1 : forall n2 d i, rb d i (n1 + n2) = rb (rb d i n1) (i + n1) n2.
Proof.
  induction n1 as [|n1 IH]; intros n2 d i; cbn [Nat.add rebuild].
  - now rewrite Nat.add_0_r.
  - rewrite IH. f_equal. lia.
Qed.

Lemma rb_last d i n : rb d i (S n) = upd (rb d i n) (i + n).
Proof. replace (S n) with (n + 1)%nat by lia. rewrite rb_split. reflexivity. Qed.

Definition all_lt (a : nat) (d : dq) : Prop := forall x, In x d -> (fst x < a)%nat.
Definition all_ge (a : nat) (d : dq) : Prop := forall x, In x d -> (a <= fst x)%nat.

Lemma rb_all_lt n : forall d i, all_lt i d -> all_lt (i + n) (rb d i n).
Proof.
  induction n as [|n IH]; intros d i H; cbn [rebuild]; [now rewrite Nat.add_0_r|].
  replace (i + S n)%nat with (S i + n)%nat by lia. apply IH.
  intros x Hx. apply upd_incl in Hx. destruct Hx as [Hx| ->]; [apply H in Hx; lia|cbn; lia].
Qed.

Lemma rb_app a n : forall d e i, all_lt a d -> all_ge a e -> (a <= i)%nat ->
  exists d', incl d' d /\ rb (d ++ e) i n = d' ++ rb e i n.
Proof.
  induction n as [|n IH]; intros d e i Hd He Hai; cbn [rebuild].
  - exists d. split; [apply incl_refl|reflexivity].
  - destruct (upd_app d e i) as (d' & Hi & E).
    { intros x y Hx Hy. apply Hd in Hx. apply He in Hy. lia. }
    rewrite E. destruct (IH d' (upd e i) (S i)) as (d'' & Hi2 & E2).
    + intros x Hx. apply Hd. now apply Hi.
    + intros x Hx. apply upd_incl in Hx. destruct Hx as [Hx| ->]; [now apply He|cbn; lia].
    + lia.
    + exists d''. split; [eapply incl_tran; eauto|exact E2].
Qed.

(* the deque of a from-scratch run at k equals the deque rebuilt over the last window *)
Lemma rebuild_window k : 1 <= w -> (1 <= k)%nat ->
  rb [] 0 k = rb [] (N.to_nat (ni k - w)) (k - N.to_nat (ni k - w)).
Proof.
  intros Hw Hk. set (a := N.to_nat (ni k - w)).
  assert (Ha : (a < k)%nat) by (unfold a, ni; lia).
  destruct (k - a)%nat as [|n'] eqn:En; [lia|].
  replace k with (a + S n')%nat at 1 by lia. rewrite rb_split. cbn [Nat.add].
  rewrite !rb_last.
  destruct (rb_app a n' (rb [] 0 a) [] a) as (d' & Hi & E).
  { apply (rb_all_lt a [] 0%nat). intros x []. }
  { intros x []. }
  { lia. }
  rewrite app_nil_r in E. rewrite E. unfold update_deque.
  rewrite pfw_all; [reflexivity|].
  intros x Hx. apply Hi in Hx.
  destruct (Nat.eq_dec a 0) as [Hz|Hnz]; [rewrite Hz in Hx; cbn in Hx; destruct Hx|].
  pose proof (rb_all_lt a [] 0%nat ltac:(intros y []) x Hx) as Hlt. cbn [Nat.add] in Hlt.
  unfold fcond. apply andb_true_intro. unfold a, ni in *. split; [apply N.leb_le|apply N.leb_le]; lia.
Qed.
End Deque.

(* ---------------------------------------------------------------- the method *)
Lemma monotonic_steps sp src : forall n d i outs d',
  steps (monotonic sp) src d i n = (outs, Ok d') -> d' = rebuild sp (par src) (sn src 0) d i n.
Proof.
  induction n as [|n IH]; intros d i outs d' H.
  - cbn in H. now inversion H.
  - rewrite steps_S in H. cbn [monotonic step] in H. cbn [rebuild].
    destruct (update_deque sp (par src) d i (at_ (sn src 0) i)) as [|[j v] t] eqn:Eu; [inversion H|].
    destruct (steps (monotonic sp) src ((j, v) :: t) (S i) n) as [os r] eqn:E.
    inversion H; subst. eapply IH; eauto.
Qed.

Definition window_pos (s : srcs) : Prop := 1 <= par s.

Lemma monotonic_resume_ok sp : resume_ok_on (monotonic sp) window_pos.
Proof.
  intros src k st outs Hw H _. apply scratch_run_inv in H. destruct H as (st0 & H0 & Hs).
  cbn in H0. inversion H0; subst st0. apply monotonic_steps in Hs. subst st.
  assert (E : forall c, (0 < k)%nat -> recover (monotonic sp) src outs k c =
                 Ok (rebuild sp (par src) (sn src 0) [] 0 k)).
  { intros c Hk. cbn [recover monotonic]. f_equal. symmetry. apply rebuild_window; [exact Hw|lia]. }
  split; [intros Hk; now apply E|].
  destruct (Nat.eq_dec k 0) as [->|Hnz]; [reflexivity|apply E; lia].
Qed.

Lemma monotonic_local sp : local (monotonic sp).
Proof.
  intros d a b Ha. split; [now apply tgt1_min|]. split; [reflexivity|].
  intros i st Hi. cbn. rewrite (agree_par d a b Ha). now rewrite (agree_at d a b 0 i Ha Hi).
Qed.

Lemma causal_weaken {St} (m : method srcs St N) (D : srcs -> Prop) : causal m agree_srcs -> causal_on m agree_srcs D.
Proof. intros H d a b _ _ Ha. exact (H d a b I I Ha). Qed.

Definition monotonic_statement (sp : N -> N -> bool) : Prop :=
  resume_ok_on (monotonic sp) window_pos /\ causal_on (monotonic sp) agree_srcs window_pos /\
  forall compressed h own, valid (monotonic sp) agree_srcs compressed (new_vec own, None) h -> in_dom window_pos h ->
    C06_conclusion (monotonic sp) (run_hist (monotonic sp) compressed h (new_vec own, None)).

Theorem monotonic_closed sp : monotonic_statement sp.
Proof.
  pose proof (monotonic_resume_ok sp) as R.
  pose proof (causal_weaken _ window_pos (local_causal _ (monotonic_local sp))) as C.
  split; [exact R|]. split; [exact C|]. intros compressed h own V Hin.
  exact (C06_driver_on (monotonic sp) agree_srcs window_pos R C compressed h own V Hin).
Qed.

Theorem max_closed : monotonic_statement (fun v value => v <? value).
Proof. exact (monotonic_closed _). Qed.
Theorem min_closed : monotonic_statement (fun v value => value <? v).
Proof. exact (monotonic_closed _). Qed.
