(* Eager/EVersionProofs.v — PROOFS for C19 over the tagged driver of EVersion.v. *)
From Anydb Require Import Common.Base Eager.EDriver Eager.EDriverProofs Eager.EVersion.

Section Struct.
(* structural facts about one call, for any method and any property of the produced elements *)
Context {Src St Out : Type}.
Variable m : method Src St Out.
Variable P : Out -> Prop.
Hypothesis HP : forall src st i st' o, step m src st i = Ok (st', o) -> P o.

Lemma steps_Forall src : forall n st i outs r, steps m src st i n = (outs, r) -> Forall P outs.
Proof.
  induction n as [|n IH]; intros st i outs r H.
  - cbn in H. inversion H. constructor.
  - rewrite steps_S in H. destruct (step m src st i) as [[st' o]| |] eqn:E; try (inversion H; constructor; fail).
    destruct (steps m src st' (S i) n) as [os r1] eqn:E1. inversion H; subst.
    constructor; [eapply HP; eauto|eapply IH; eauto].
Qed.

Lemma batch_struct src cap c v v' c' r :
  batch m src cap c v = (v', c', r) ->
  stored v' = stored v /\ (exists outs, pushed v' = pushed v ++ outs /\ Forall P outs) /\ meta_eq v v'.
Proof.
  unfold batch. intros H.
  assert (Hsame : stored v = stored v /\ (exists outs, pushed v = pushed v ++ outs /\ Forall P outs) /\ meta_eq v v).
  { split; [reflexivity|]. split; [exists []; rewrite app_nil_r; auto|apply meta_eq_refl]. }
  destruct (Nat.leb _ _); [inversion H; subst; exact Hsame|].
  destruct (recover m src (contents v) (vlen v) c) as [st| |]; try (inversion H; subst; exact Hsame).
  destruct (steps m src st (vlen v) _) as [outs rs] eqn:Es.
  destruct (push_all_ok v outs) as (v1 & Ep & Hs & Hp & Hm). rewrite Ep in H.
  pose proof (steps_Forall _ _ _ _ _ _ Es) as HF.
  assert (Hres : stored v1 = stored v /\ (exists outs, pushed v1 = pushed v ++ outs /\ Forall P outs) /\ meta_eq v v1).
  { split; [exact Hs|]. split; [eauto|exact Hm]. }
  destruct rs; inversion H; subst; exact Hres.
Qed.

(* an invariant J closed under "append P-elements to pushed" and under write() survives the loop;
   the contents only grow, by P-elements *)
Variable J : vec Out -> Prop.
Hypothesis J_push : forall v v' outs, J v -> stored v' = stored v -> pushed v' = pushed v ++ outs ->
  meta_eq v v' -> Forall P outs -> J v'.
Hypothesis J_write : forall v, J v -> J (write v).

Lemma loop_struct src cap : forall fuel c v v' r,
  repeat_loop m src cap fuel c v = (v', r) -> J v ->
  J v' /\ exists outs, contents v' = contents v ++ outs /\ Forall P outs.
Proof.
  induction fuel as [|f IH]; intros c v v' r H HJ; cbn [repeat_loop] in H.
  - inversion H; subst. split; [exact HJ|]. exists []. rewrite app_nil_r. auto.
  - destruct (batch m src cap c v) as [[v1 c1] r1] eqn:Eb.
    destruct (batch_struct _ _ _ _ _ _ _ Eb) as (Hs & (outs & Hp & HF) & Hm).
    assert (HJ1 : J v1) by (eapply J_push; eauto).
    assert (Hc1 : contents v1 = contents v ++ outs).
    { unfold contents. rewrite Hs, Hp. now rewrite app_assoc. }
    destruct r1 as [[]| |].
    2,3: inversion H; subst; split; [exact HJ1|eauto].
    set (v2 := if is_dirty v1 then write v1 else v1) in *.
    assert (HJ2 : J v2) by (unfold v2; destruct (is_dirty v1); auto).
    assert (Hc2 : contents v2 = contents v1) by (unfold v2; destruct (is_dirty v1); auto using write_contents).
    destruct (Nat.leb cap (length (pushed v1))).
    + destruct (IH _ _ _ _ H HJ2) as (A & outs2 & B & C). split; [exact A|].
      exists (outs ++ outs2). rewrite B, Hc2, Hc1, app_assoc. split; [reflexivity|]. apply Forall_app; auto.
    + inversion H; subst. split; [exact HJ2|]. exists outs. rewrite Hc2, Hc1. auto.
Qed.
End Struct.

Lemma tr_contents {Out} (v : vec Out) k : contents (truncate_if_needed v k) = firstn k (contents v).
Proof. exact (truncate_contents (Src:=unit) (fun _ _ _ => True) v k). Qed.
Lemma tr_dinv {Out} (v : vec Out) k : dinv v -> dinv (truncate_if_needed v k).
Proof. exact (truncate_dinv (Src:=unit) (fun _ _ _ => True) v k). Qed.

Section C19.
Context {Src St Out : Type}.
Variable m : method Src St Out.
Notation tout := (@tout Out).

(* the C19 invariant: header bookkeeping (both formats) *)
Definition hdr_ok (v : vec tout) : Prop := modified v = false -> disk_cv v = cv v.
(* every element in memory carries the header's computed version *)
Definition mem_ok (v : vec tout) : Prop := Forall (fun x => tver x = cv v) (contents v).
(* the disk image is consistent with its own header and with the stored prefix (both formats) *)
Definition disk_ok (v : vec tout) : Prop :=
  dinv v /\ Forall (fun x => tver x = disk_cv v) (disk v).
Definition tinv (v : vec tout) : Prop := hdr_ok v /\ mem_ok v /\ disk_ok v.

Lemma tagm_step_tag t : forall src st i st' o,
  step (tagm m t) src st i = Ok (st', o) -> snd o = t.
Proof.
  intros src st i st' o H. cbn in H. destruct (step m src st i) as [[s1 o1]| |]; cbn in H; inversion H. reflexivity.
Qed.

Lemma write_hdr_ok (v : vec tout) : hdr_ok v -> hdr_ok (write v).
Proof.
  intros Hh. unfold hdr_ok, write. destruct (_ && _); cbn; intros _; destruct (modified v) eqn:E; auto.
Qed.

Lemma write_cv (v : vec tout) : cv (write v) = cv v /\ vv (write v) = vv v.
Proof. unfold write. destruct (_ && _); cbn; auto. Qed.

(* C19_persist: the recorded version survives write() and flush + re-import, on both formats *)
Lemma persist_write_reimport (v : vec tout) : hdr_ok v -> cv (reimport (write v)) = cv v.
Proof.
  intros H. unfold reimport, write. destruct (_ && _); cbn; destruct (modified v) eqn:E; auto.
Qed.

Lemma write_tinv (v : vec tout) : tinv v -> tinv (write v).
Proof.
  intros (Hh & Hm & [Hd Hk]). split; [apply write_hdr_ok; exact Hh|]. split.
  - unfold mem_ok. rewrite write_contents. destruct (write_cv v) as [-> _]. exact Hm.
  - split; [now apply write_dinv|].
    unfold write. destruct (_ && _) eqn:E; cbn.
    + (* nothing to write: stored = disk, whose elements carry cv *)
      apply andb_prop in E. destruct E as [E Ed]. apply andb_prop in E. destruct E as [Ea Eb].
      apply negb_true_iff in Ed. apply Nat.eqb_eq in Ea, Eb. destruct Hd as [H1 H2].
      assert (Hsd : stored v = disk v) by (rewrite H2, Eb, (H1 Ed); apply firstn_all).
      assert (Hmem : Forall (fun x => tver x = cv v) (disk v)).
      { rewrite <- Hsd. unfold mem_ok, contents in Hm. apply Forall_app in Hm. tauto. }
      destruct (modified v) eqn:Em; [exact Hmem|]. rewrite (Hh Em). exact Hmem.
    + unfold mem_ok, contents in Hm. destruct (modified v) eqn:Em; [exact Hm|]. rewrite (Hh Em). exact Hm.
Qed.

Lemma reimport_tinv (v : vec tout) : tinv v -> tinv (reimport v).
Proof.
  intros (Hh & Hm & [Hd Hk]). split; [intros _; reflexivity|]. split.
  - unfold mem_ok, reimport, contents. cbn. rewrite app_nil_r. exact Hk.
  - split; [apply reimport_dinv|exact Hk].
Qed.

Lemma push_tinv t (v v' : vec tout) outs :
  cv v = t -> tinv v -> stored v' = stored v -> pushed v' = pushed v ++ outs -> meta_eq v v' ->
  Forall (fun x => tver x = t) outs -> cv v' = t /\ tinv v'.
Proof.
  intros Ht (Hh & Hm & [Hd Hk]) Hs Hp Hmeta HF. pose proof Hmeta as (Hvv & Hcv & Hmod & Hdisk & Hdcv & Hreal & Hpd).
  split; [congruence|]. split; [unfold hdr_ok; rewrite Hmod, Hdcv, Hcv; exact Hh|]. split.
  - unfold mem_ok, contents in *. rewrite Hs, Hp, Hcv, app_assoc. apply Forall_app. split; [exact Hm|].
    rewrite Ht. exact HF.
  - split; [eapply dinv_meta; eauto|]. rewrite Hdisk, Hdcv. exact Hk.
Qed.

Lemma Forall_firstn {A} (Q : A -> Prop) n l : Forall Q l -> Forall Q (firstn n l).
Proof. revert n. induction l; intros [|n] H; cbn; auto. inversion H; subst. constructor; auto. Qed.

Lemma truncate_meta (v : vec tout) k :
  cv (truncate_if_needed v k) = cv v /\ vv (truncate_if_needed v k) = vv v /\
  modified (truncate_if_needed v k) = modified v /\ disk (truncate_if_needed v k) = disk v /\
  disk_cv (truncate_if_needed v k) = disk_cv v.
Proof. unfold truncate_if_needed. destruct (Nat.leb _ _); [auto 6|]. destruct (Nat.leb _ _); cbn; auto 6. Qed.

Lemma truncate_tinv (v : vec tout) k : tinv v -> tinv (truncate_if_needed v k).
Proof.
  intros (Hh & Hm & [Hd Hk]). destruct (truncate_meta v k) as (A & B & C & D & E).
  split; [unfold hdr_ok; rewrite C, E, A; exact Hh|]. split.
  - unfold mem_ok. rewrite tr_contents, A. now apply Forall_firstn.
  - split; [now apply tr_dinv|]. rewrite D, E. exact Hk.
Qed.

Lemma validate_tinv c (v : vec tout) dep :
  tinv v -> tinv (validate c v dep) /\ cv (validate c v dep) = vv v + dep /\ vv (validate c v dep) = vv v.
Proof.
  intros (Hh & Hm & [Hd Hk]). unfold validate. destruct (vv v + dep =? cv v) eqn:E.
  - apply N.eqb_eq in E. split; [split; [exact Hh|split; [exact Hm|split; [exact Hd|exact Hk]]]|auto].
  - set (v1 := mkVec _ _ _ _ _ _ _ _ _).
    assert (T1 : forall v2 : vec tout, contents v2 = [] -> stored v2 = [] -> modified v2 = true -> disk v2 = disk v ->
                  disk_cv v2 = disk_cv v ->
                  (pages_dirty v2 = true \/ (mem_real v2 = mem_real v /\ pages_dirty v2 = pages_dirty v)) -> tinv v2).
    { intros v2 Hc Hs Hmod Hdisk Hdcv Hreal. split; [intros Hf; congruence|]. split; [unfold mem_ok; rewrite Hc; constructor|].
      split; [|rewrite Hdisk, Hdcv; exact Hk]. destruct Hd as [D1 D2]. split; [|rewrite Hs; reflexivity].
      destruct Hreal as [Hp|[Hr Hp]]; [congruence|]. rewrite Hr, Hp, Hdisk. exact D1. }
    destruct (Nat.eqb (vlen v1) 0) eqn:Ez.
    + split; [|auto]. apply Nat.eqb_eq in Ez. unfold vlen, v1 in Ez. cbn in Ez.
      assert (stored v = []) by (destruct (stored v); [auto|cbn in Ez; lia]).
      assert (pushed v = []) by (destruct (pushed v); [auto|cbn in Ez; lia]).
      apply T1; unfold v1; cbn; auto. unfold contents; cbn. now rewrite H, H0.
    + split; [|auto]. apply T1; try reflexivity. unfold reset. cbn. destruct c; auto.
Qed.

(* the invariant through a whole call *)
Lemma compute_tinv c src dep mf cap serial (v : vec tout) :
  tinv v -> tinv (fst (compute_tagged m c src dep mf cap serial v)).
Proof.
  intros HT. unfold compute_tagged, compute_call.
  destruct (validate_tinv c v dep HT) as (T1 & Hcv & Hvv).
  set (t := (vv v + dep, serial)).
  set (v1 := validate c v dep) in *. set (v2 := truncate_if_needed v1 mf).
  assert (T2 : tinv v2) by (apply truncate_tinv; exact T1).
  assert (Hcv2 : cv v2 = vv v + dep) by (unfold v2; destruct (truncate_meta v1 mf) as (A & _); congruence).
  destruct (repeat_loop (tagm m t) src cap _ None v2) as [v' r] eqn:E. cbn [fst].
  pose (J := fun x : vec tout => cv x = vv v + dep /\ tinv x).
  destruct (loop_struct (tagm m t) (fun x => tver x = vv v + dep)
              ltac:(intros s0 st i st' o H; unfold tver; rewrite (tagm_step_tag t _ _ _ _ _ H); reflexivity)
              J
              ltac:(intros x x' outs [Hx Tx] Hs Hp Hm HF; unfold J; eapply push_tinv; eauto)
              ltac:(intros x [Hx Tx]; split; [destruct (write_cv x) as [-> _]; exact Hx|apply write_tinv; exact Tx])
              src cap _ None v2 v' r E (conj Hcv2 T2)) as ([_ T'] & _).
  exact T'.
Qed.

Lemma hdr_ok_call compressed src dep mf cap serial (v : vec tout) :
  hdr_ok v -> hdr_ok (fst (compute_tagged m compressed src dep mf cap serial v)).
Proof.
  intros Hh. unfold compute_tagged, compute_call.
  set (t := (vv v + dep, serial)). set (v1 := validate compressed v dep). set (v2 := truncate_if_needed v1 mf).
  assert (H1 : hdr_ok v1).
  { unfold v1, validate. destruct (_ =? _); [exact Hh|]. destruct (Nat.eqb _ 0); unfold hdr_ok, reset; cbn; discriminate. }
  assert (H2 : hdr_ok v2).
  { unfold v2. destruct (truncate_meta v1 mf) as (A & B & C & D & E). unfold hdr_ok. rewrite C, E, A. exact H1. }
  destruct (repeat_loop (tagm m t) src cap _ None v2) as [v' r] eqn:E. cbn [fst].
  destruct (loop_struct (tagm m t) (fun _ => True) (fun _ _ _ _ _ _ => I) hdr_ok
              ltac:(intros x x' outs Hx _ _ (_ & Hcv & Hmod & _ & Hdcv & _) _; unfold hdr_ok; rewrite Hmod, Hdcv, Hcv; exact Hx)
              ltac:(intros x Hx; apply write_hdr_ok; exact Hx)
              src cap _ None v2 v' r E H2) as (T' & _).
  exact T'.
Qed.

(* one call: what is kept and what is new (both formats) *)
Lemma call_shape compressed src dep mf cap serial (v : vec tout) :
  let v' := fst (compute_tagged m compressed src dep mf cap serial v) in
  exists outs, Forall (fun x => snd x = (vv v + dep, serial)) outs /\
    contents v' = firstn mf (contents (validate compressed v dep)) ++ outs /\ cv v' = vv v + dep.
Proof.
  unfold compute_tagged, compute_call.
  set (t := (vv v + dep, serial)). set (v1 := validate compressed v dep). set (v2 := truncate_if_needed v1 mf).
  assert (Hcv1 : cv v1 = vv v + dep).
  { unfold v1, validate. destruct (_ =? _) eqn:E; [apply N.eqb_eq in E; auto|]. destruct (Nat.eqb _ 0); reflexivity. }
  assert (Hcv2 : cv v2 = vv v + dep) by (unfold v2; destruct (truncate_meta v1 mf) as (A & _); congruence).
  destruct (repeat_loop (tagm m t) src cap _ None v2) as [v' r] eqn:E. cbn [fst].
  destruct (loop_struct (tagm m t) (fun x => snd x = t) (tagm_step_tag t) (fun x => cv x = vv v + dep)
              ltac:(intros x x' outs Hx _ _ (_ & Hcv & _) _; congruence)
              ltac:(intros x Hx; destruct (write_cv x) as [-> _]; exact Hx)
              src cap _ None v2 v' r E Hcv2) as (Hcv' & outs & Hc & HF).
  exists outs. split; [exact HF|]. split; [|exact Hcv']. rewrite Hc. unfold v2. now rewrite tr_contents.
Qed.

(* C19_discard: presented version differs from the recorded one => nothing older survives: every
   element of the result was evaluated by this call, under the presented version, which is recorded *)
Theorem discard compressed src dep mf cap serial (v : vec tout) :
  vv v + dep <> cv v ->
  let v' := fst (compute_tagged m compressed src dep mf cap serial v) in
  Forall (fun x => snd x = (vv v + dep, serial)) (contents v') /\ cv v' = vv v + dep.
Proof.
  intros Hne. destruct (call_shape compressed src dep mf cap serial v) as (outs & HF & Hc & Hcv).
  cbv zeta. split; [|exact Hcv]. rewrite Hc.
  assert (contents (validate compressed v dep) = []) as ->.
  { unfold validate. apply N.eqb_neq in Hne. rewrite Hne. destruct (Nat.eqb _ 0) eqn:Ez; [|reflexivity].
    apply Nat.eqb_eq in Ez. unfold vlen in Ez. cbn in Ez. unfold contents; cbn.
    destruct (stored v); [|cbn in Ez; lia]. destruct (pushed v); [reflexivity|cbn in Ez; lia]. }
  rewrite firstn_nil. exact HF.
Qed.

(* C19_no_recompute: presented version equal to the recorded one => the elements below
   min(max_from, length) are the very same tagged elements: neither altered nor re-evaluated
   (an element evaluated by this call would carry this call's serial) *)
Theorem no_recompute compressed src dep mf cap serial (v : vec tout) :
  vv v + dep = cv v ->
  let v' := fst (compute_tagged m compressed src dep mf cap serial v) in
  firstn (Nat.min mf (vlen v)) (contents v') = firstn (Nat.min mf (vlen v)) (contents v) /\ cv v' = cv v.
Proof.
  intros He. destruct (call_shape compressed src dep mf cap serial v) as (outs & HF & Hc & Hcv).
  cbv zeta. split; [|congruence]. rewrite Hc.
  assert (validate compressed v dep = v) as -> by (unfold validate; apply N.eqb_eq in He; now rewrite He).
  rewrite <- contents_length. rewrite firstn_app.
  replace (Nat.min mf (length (contents v)) - length (firstn mf (contents v)))%nat with O by (rewrite firstn_length; lia).
  cbn [firstn]. rewrite app_nil_r, firstn_firstn. f_equal. lia.
Qed.


(* a state that holds results only in the pushed buffer (nothing stored yet): the instance of
   [discard] that a reset conditional on stored_len() != 0 would break *)
Theorem discard_unwritten compressed src dep mf cap serial (v : vec tout) :
  stored v = [] -> pushed v <> [] -> vv v + dep <> cv v ->
  let v' := fst (compute_tagged m compressed src dep mf cap serial v) in
  Forall (fun x => snd x = (vv v + dep, serial)) (contents v') /\ cv v' = vv v + dep.
Proof. intros _ _ Hne. now apply discard. Qed.

(* hand-pushed values: presented under the recorded version *)
Lemma push_tagged_tinv (v : vec tout) os : tinv v -> tinv (push_tagged v os).
Proof.
  intros HT. unfold push_tagged.
  destruct (push_tinv (cv v) v (hand_push v (map (fun o => (o, (cv v, O))) os)) (map (fun o => (o, (cv v, O))) os)
              eq_refl HT eq_refl eq_refl) as [_ T'].
  - unfold meta_eq, hand_push. cbn. tauto.
  - apply Forall_forall. intros x Hx. apply in_map_iff in Hx. destruct Hx as (o & <- & _). reflexivity.
  - exact T'.
Qed.

Lemma push_tagged_hdr_ok (v : vec tout) os : hdr_ok v -> hdr_ok (push_tagged v os).
Proof. intros H. unfold push_tagged, hand_push, hdr_ok in *. cbn. exact H. Qed.

End C19.

Section C19Hist.
Context {Src St Out : Type}.
Variable m : method Src St Out.
Notation tout := (@tout Out).

Definition vinit (own : N) : @vstate Out := (new_vec own, O).

Lemma tinv_new own : tinv (new_vec own : vec tout).
Proof.
  split; [intros _; reflexivity|]. split; [constructor|]. split; [split; reflexivity|constructor].
Qed.

Lemma vapply_tinv c s o : tinv (fst s) -> tinv (fst (vapply m c s o)).
Proof.
  intros HT. destruct o as [src dep mf cap fail|os| | |own]; cbn [vapply fst].
  - now apply compute_tinv.
  - now apply push_tagged_tinv.
  - now apply write_tinv.
  - apply reimport_tinv. now apply write_tinv.
  - destruct (own =? vv (write (fst s))); cbn [fst]; [apply reimport_tinv; now apply write_tinv|apply tinv_new].
Qed.

(* C19_no_mix (both formats): after any history, every element in memory carries the header's
   computed version, and every element on disk carries the version recorded on disk *)
Theorem no_mix c h own :
  let v := fst (vrun m c h (vinit own)) in
  Forall (fun x => tver x = cv v) (contents v) /\ Forall (fun x => tver x = disk_cv v) (disk v).
Proof.
  assert (H : forall h s, tinv (fst s) -> tinv (fst (vrun m c h s))).
  { induction h0 as [|o t IH]; intros s Hs; [exact Hs|]. cbn [vrun fold_left]. apply IH. now apply vapply_tinv. }
  intros v. destruct (H h (vinit own) (tinv_new own)) as (_ & Hm & [_ Hk]). split; assumption.
Qed.

(* C19_persist: on both formats, after any history the header bookkeeping is consistent, so the
   recorded version survives write and flush + re-import *)
Theorem persist compressed h own :
  let v := fst (vrun m compressed h (vinit own)) in
  cv (write v) = cv v /\ cv (reimport (write v)) = cv v.
Proof.
  assert (H : forall h s, hdr_ok (fst s) -> hdr_ok (fst (vrun m compressed h s))).
  { induction h0 as [|o t IH]; intros s Hs; [exact Hs|]. cbn [vrun fold_left]. apply IH.
    destruct o as [src dep mf cap fail|os| | |own']; cbn [vapply fst].
    - now apply hdr_ok_call.
    - now apply push_tagged_hdr_ok.
    - now apply write_hdr_ok.
    - intros _. reflexivity.
    - destruct (own' =? vv (write (fst s))); cbn [fst]; intros _; reflexivity. }
  intros v. split; [apply write_cv|]. apply persist_write_reimport. apply H. intros _. reflexivity.
Qed.

End C19Hist.
