(* Eager/EDriver.v — MODEL (definitions only) of the driver common to every EagerVec::compute_*:
     compute_init                      variants/eager/mod.rs:44
       validate_computed_version_or_reset   traits/writable.rs:191
       truncate_if_needed(max_from)         traits/writable.rs:137, base/read_write.rs:198 (truncate_pushed)
       repeat_until_complete                variants/eager/mod.rs:64
     batch_end                         variants/eager/mod.rs:56   (the batch limit is the parameter cap >= 1,
                                        cap = MAX_CACHE_SIZE.div_ceil(size_of::<T>()))
     batch_limit_reached               traits/writable.rs:157     (pushed_len * SIZE_OF_T >= MAX_CACHE_SIZE
                                                                   <-> pushed_len >= cap)
     checked_push_at                   traits/writable.rs:121
     write / header persistence        variants/raw/inner/read_write/any_stored_vec.rs:50,
                                        variants/compressed/inner/read_write/any_stored_vec.rs:51,
                                        base/read_write.rs:133 (write_header_if_needed), base/header/mod.rs
   The output vector is abstract: stored part, pushed (unwritten) part, in-memory header
   computed_version, and what is on disk.  Indices and lengths are nat (list positions); values and
   versions are N. *)
From Anydb Require Import Common.Base.

Inductive eerr := Underflow | UnexpectedIndex | InvalidArgument | OutOfFuel.

Section Driver.
Context {Src St Out : Type}.

(* A compute method.  [recover src outs k carried]: the running state with which the closure starts
   a batch at index k, given the current output prefix [outs] (length k) and the state [carried]
   that closure-captured variables hold from an earlier batch of the same call (None in the first
   batch of a call: captured Options are None, cursors are at 0).  [step src st i] evaluates index
   i.  [target] is the length of the shortest governing source. *)
Record method := {
  target : Src -> nat;
  recover : Src -> list Out -> nat -> option St -> res eerr St;
  step : Src -> St -> nat -> res eerr (St * Out);
}.

(* The stored vector as far as the driver can tell. *)
Record vec := mkVec {
  stored : list Out;      (* [0, stored_len) as seen in memory *)
  pushed : list Out;      (* unwritten tail *)
  vv : N;                 (* header.vec_version *)
  cv : N;                 (* header.computed_version, in memory *)
  modified : bool;        (* Header::modified *)
  disk : list Out;        (* values persisted in the region / page index *)
  disk_cv : N;            (* computed_version persisted in the header on disk *)
  mem_real : nat;         (* real_stored_len() as write() computes it: raw = region length,
                             compressed = in-memory page index (emptied by reset()) *)
  pages_dirty : bool;     (* compressed: Pages::has_changes(), the in-memory page index differs from
                             what Pages::flush last wrote (pages.rs:98); always false for raw *)
}.

Definition contents (v : vec) : list Out := stored v ++ pushed v.
Definition vlen (v : vec) : nat := (length (stored v) + length (pushed v))%nat.

Definition new_vec (own : N) : vec := mkVec [] [] own 0 false [] 0 0 false.

(* WritableVec::push + checked_push_at: index must equal len() *)
Definition checked_push_at (v : vec) (i : nat) (o : Out) : res eerr vec :=
  if Nat.eqb i (vlen v) then
    Ok (mkVec (stored v) (pushed v ++ [o]) (vv v) (cv v) (modified v) (disk v) (disk_cv v) (mem_real v) (pages_dirty v))
  else Err UnexpectedIndex.

(* truncate_if_needed_at: base/read_write.rs:198 truncate_pushed + update_stored_len *)
Definition truncate_if_needed (v : vec) (index : nat) : vec :=
  if Nat.leb (vlen v) index then v else
  if Nat.leb index (length (stored v)) then
    mkVec (firstn index (stored v)) [] (vv v) (cv v) (modified v) (disk v) (disk_cv v) (mem_real v) (pages_dirty v)
  else
    mkVec (stored v) (firstn (index - length (stored v))%nat (pushed v)) (vv v) (cv v) (modified v)
          (disk v) (disk_cv v) (mem_real v) (pages_dirty v).

(* reset(): raw clears holes/updated, truncates to 0, reset_base; compressed additionally empties the
   in-memory page index (pages.write().reset() = Pages::truncate(0), which marks the index changed)
   so that real_stored_len() becomes 0 and has_changes() true. *)
Definition reset (compressed : bool) (v : vec) : vec :=
  mkVec [] [] (vv v) (cv v) (modified v) (disk v) (disk_cv v) (if compressed then O else mem_real v)
        (if compressed then true else pages_dirty v).

(* validate_computed_version_or_reset(dep_version) *)
Definition validate (compressed : bool) (v : vec) (dep : N) : vec :=
  let version := vv v + dep in
  if version =? cv v then v else
  let v1 := mkVec (stored v) (pushed v) (vv v) version true (disk v) (disk_cv v) (mem_real v) (pages_dirty v) in
  if Nat.eqb (vlen v1) 0 then v1 else reset compressed v1.

(* write(): header first (write_header_if_needed), then data unless nothing changed.  The early
   return of the compressed write() is only taken when the page index has no pending change
   (compressed/inner/read_write/any_stored_vec.rs:68, since commit faf2fd7). *)
Definition write (v : vec) : vec :=
  let dcv := if modified v then cv v else disk_cv v in
  if Nat.eqb (length (pushed v)) 0 && Nat.eqb (length (stored v)) (mem_real v) && negb (pages_dirty v) then
    mkVec (stored v) (pushed v) (vv v) (cv v) false (disk v) dcv (mem_real v) false
  else
    let all := stored v ++ pushed v in
    mkVec all [] (vv v) (cv v) false all dcv (length all) false.

Definition is_dirty (v : vec) : bool := negb (Nat.eqb (length (pushed v)) 0).

(* values pushed by hand (WritableVec::push, no write): they stay in the pushed buffer *)
Definition hand_push (v : vec) (os : list Out) : vec :=
  mkVec (stored v) (pushed v ++ os) (vv v) (cv v) (modified v) (disk v) (disk_cv v) (mem_real v) (pages_dirty v).

(* flush + drop + import of the same name and version: the state is what is on disk *)
Definition reimport (v : vec) : vec :=
  mkVec (disk v) [] (vv v) (disk_cv v) false (disk v) (disk_cv v) (length (disk v)) false.

Variable m : method.

(* the closure body's loop over [i, i+n): outputs pushed so far are kept when a step fails.
   ([step m src] is applied to the sources once per loop, so that what a closure computes before
   its loop — lengths of the sources — is also computed once in the extracted code.) *)
Fixpoint steps_with (f : St -> nat -> res eerr (St * Out)) (st : St) (i n : nat) : list Out * res eerr St :=
  match n with
  | O => ([], Ok st)
  | S n' =>
    match f st i with
    | Ok (st', o) => let '(os, r) := steps_with f st' (S i) n' in (o :: os, r)
    | Err e => ([], Err e)
    | Panic => ([], Panic)
    end
  end.
Definition steps (src : Src) : St -> nat -> nat -> list Out * res eerr St := steps_with (step m src).

(* checked_push_at for the outputs of one batch, index i, i+1, ...: the j-th push sees
   len() = vlen v + j, so all index checks succeed iff the first one does *)
Definition push_all (v : vec) (i : nat) (os : list Out) : res eerr vec :=
  match os with
  | [] => Ok v
  | _ :: _ =>
    if Nat.eqb i (vlen v) then
      Ok (mkVec (stored v) (pushed v ++ os) (vv v) (cv v) (modified v) (disk v) (disk_cv v) (mem_real v) (pages_dirty v))
    else Err UnexpectedIndex
  end.

(* one invocation of the closure handed to compute_init *)
Definition batch (src : Src) (cap : nat) (carried : option St) (v : vec)
  : vec * option St * res eerr unit :=
  let from := vlen v in
  let e := Nat.min (from + cap)%nat (target m src) in          (* batch_end(target) *)
  if Nat.leb e from then (v, carried, Ok tt) else
  match recover m src (contents v) from carried with
  | Ok st =>
    let '(outs, r) := steps src st from (e - from)%nat in
    match push_all v from outs with
    | Ok v' =>
      match r with
      | Ok st' => (v', Some st', Ok tt)
      | Err er => (v', None, Err er)
      | Panic => (v', None, Panic)
      end
    | Err er => (v, None, Err er)
    | Panic => (v, None, Panic)
    end
  | Err er => (v, None, Err er)
  | Panic => (v, None, Panic)
  end.

(* repeat_until_complete *)
Fixpoint repeat_loop (src : Src) (cap fuel : nat) (carried : option St) (v : vec) : vec * res eerr unit :=
  match fuel with
  | O => (v, Err OutOfFuel)
  | S f =>
    let '(v1, c1, r) := batch src cap carried v in
    match r with
    | Ok _ =>
      let limit := Nat.leb cap (length (pushed v1)) in           (* batch_limit_reached() *)
      let v2 := if is_dirty v1 then write v1 else v1 in
      if limit then repeat_loop src cap f c1 v2 else (v2, Ok tt)
    | Err er => (v1, Err er)
    | Panic => (v1, Panic)
    end
  end.

(* compute_init *)
Definition compute_call (compressed : bool) (src : Src) (dep : N) (max_from cap : nat) (v : vec)
  : vec * res eerr unit :=
  let v1 := validate compressed v dep in
  let v2 := truncate_if_needed v1 max_from in
  repeat_loop src cap (target m src + 2)%nat None v2.

(* the from-scratch evaluation: the state and outputs of the first n indices *)
Definition scratch_run (src : Src) (n : nat) : res eerr (St * list Out) :=
  let! st0 := recover m src [] 0 None in
  let '(outs, r) := steps src st0 0 n in
  let! st := r in Ok (st, outs).

(* one call on the empty vector with cap = infinity: the closure returns at once when there is
   nothing to do (skip >= end), otherwise it recovers at 0 and evaluates [0, target) *)
Definition scratch (src : Src) : res eerr (list Out) :=
  if Nat.eqb (target m src) 0 then Ok [] else
  let! p := scratch_run src (target m src) in Ok (snd p).

(* histories *)
Inductive op :=
| OCompute (src : Src) (dep : N) (max_from cap : nat)
| OWrite
| OReimport                (* flush + drop + import *)
| OReimportOwn (own : N).  (* flush + drop + forced_import with another own version *)

Definition hstate : Type := vec * option (Src * res eerr unit).

Definition apply_op (compressed : bool) (s : hstate) (o : op) : hstate :=
  match o with
  | OCompute src dep mf cap =>
    let '(v', r) := compute_call compressed src dep mf cap (fst s) in (v', Some (src, r))
  | OWrite => (write (fst s), snd s)
  | OReimport => (reimport (write (fst s)), snd s)
  | OReimportOwn own =>
    let v' := write (fst s) in
    if own =? vv v' then (reimport v', snd s) else (new_vec own, None)
  end.

Definition run_hist (compressed : bool) (h : list op) (s : hstate) : hstate :=
  fold_left (apply_op compressed) h s.

(* A history is valid when every call has cap >= 1 and passes a max_from below which the sources of
   the previous call on this vector and the sources of this call agree ("max_from <= first changed
   index").  [agree] is the per-family notion of "same sources below index d". *)
Variable agree : nat -> Src -> Src -> Prop.

Definition op_ok (s : hstate) (o : op) : Prop :=
  match o with
  | OCompute src _ mf cap =>
    (1 <= cap)%nat /\ match snd s with None => True | Some (p, _) => agree mf p src end
  | _ => True
  end.

Fixpoint valid (compressed : bool) (s : hstate) (h : list op) : Prop :=
  match h with
  | [] => True
  | o :: t => op_ok s o /\ valid compressed (apply_op compressed s o) t
  end.

(* The two per-method obligations of the generic theorem, relative to a domain D of admissible
   sources (a method's documented precondition on its inputs, e.g. "window starts are
   non-decreasing and starts[i] <= i"; fun _ => True when there is none). *)
Definition resume_ok_on (D : Src -> Prop) : Prop :=
  forall src k st outs, D src ->
    scratch_run src k = Ok (st, outs) -> (k < target m src)%nat ->
    ((0 < k)%nat -> recover m src outs k None = Ok st) /\ recover m src outs k (Some st) = Ok st.

Definition causal_on (D : Src -> Prop) : Prop :=
  forall d a b, D a -> D b -> agree d a b ->
    Nat.min d (target m a) = Nat.min d (target m b) /\
    forall k, (k <= d)%nat -> (k <= target m a)%nat -> (0 < k)%nat -> scratch_run a k = scratch_run b k.

Definition resume_ok : Prop := resume_ok_on (fun _ => True).
Definition causal : Prop := causal_on (fun _ => True).

(* every call of the history is made on admissible sources *)
Fixpoint in_dom (D : Src -> Prop) (h : list op) : Prop :=
  match h with
  | [] => True
  | OCompute src _ _ _ :: t => D src /\ in_dom D t
  | _ :: t => in_dom D t
  end.

End Driver.

(* a user closure that fails at index j (it returns a wrong index, so checked_push fails with
   UnexpectedIndex): `f(self)?` returns before the write and the values computed so far stay in
   the pushed buffer *)
Definition with_fail {Src St Out : Type} (j : option nat) (m : method (Src:=Src) (St:=St) (Out:=Out))
  : method (Src:=Src) (St:=St) (Out:=Out) :=
  {| target := target m;
     recover := recover m;
     step := fun src => let f := step m src in fun st i =>
       match j with
       | Some k => if Nat.eqb i k then Err UnexpectedIndex else f st i
       | None => f st i
       end |}.

Arguments method : clear implicits.
Arguments vec : clear implicits.
Arguments op : clear implicits.
