(* Vec/RdRefuted.v — concrete witnesses (closed by vm_compute) for the statements that the faithful
   model refutes.  Each is also a replay in corpus/C08 or corpus/C20. *)
From Anydb Require Import Common.Base Gen.Consts Gen.Sizes Vec.RdModel Vec.RdCursor Vec.RdProofs.

(* finding 6 and its variants: p:4 w d:1 — cursor and sorted reads over a deleted slot *)
Definition w_holed : rstate := mk 8 true [10; 11; 12; 13] 4 [] [1] [].
Lemma w_holed_wf : wf w_holed. Proof. reflexivity. Qed.
Theorem read_sorted_refuted_panic : wf w_holed /\ fst (read_sorted (raw_rvec w_holed) [3]) = RPanic.
Proof. split; [exact w_holed_wf | vm_compute; reflexivity]. Qed.
Theorem read_sorted_refuted_wrong :
  wf w_holed /\ fst (read_sorted (raw_rvec w_holed) [2]) = ROk [13] /\ expected_one w_holed 2 = Some 12.
Proof. split; [exact w_holed_wf | vm_compute; auto]. Qed.
Theorem cursor_fold_refuted_hang :
  wf w_holed /\ fst (fst (cursor_fold (raw_rvec w_holed) cursor_new 4)) = CHang.
Proof. split; [exact w_holed_wf | vm_compute; reflexivity]. Qed.

(* CachedVec keyed on (len, version): p:3 w ; cached read ; u:1 ; the next cached read is the old snapshot *)
Definition w_before : rstate := mk 8 true [10; 11; 12] 3 [] [] [].
Definition w_after : rstate := mk 8 true [10; 11; 12] 3 [] [] [(1, 21)].
Theorem cached_refuted_stale :
  exists k, snd (fst (materialize (raw_rvec w_before) None)) = k
  /\ fst (fst (materialize (raw_rvec w_after) k)) = ROk [10; 11; 12]
  /\ expected w_after 0 3 = [10; 21; 12].
Proof. eexists. vm_compute. auto. Qed.
(* a snapshot holds the non-deleted elements only: index-addressed reads through it are shifted *)
Theorem cached_refuted_shift :
  fst (fst (materialize (raw_rvec w_holed) None)) = ROk [10; 12; 13]
  /\ cached_one [10; 12; 13] 1 = Some 12 /\ expected_one w_holed 1 = None.
Proof. vm_compute. auto. Qed.
(* the lean clone carries neither deleted slots nor the overlay *)
Theorem clone_ignores_holes_refuted :
  wf w_holed /\ fst (run (ro_collect_one w_holed 1)) = ROk [11] /\ expected_one w_holed 1 = None.
Proof. split; [exact w_holed_wf | vm_compute; auto]. Qed.

(* the repaired paths on the former witnesses *)
Example fold_dirty_past_stored_fixed :
  let w := mk 8 true [10; 11; 12] 3 [13; 14; 15] [] [(1, 21)] in
  wf w /\ fst (run (read_into_at w 4 6)) = ROk [14; 15] /\ expected w 4 6 = [14; 15].
Proof. cbv zeta. split; [reflexivity | vm_compute; auto]. Qed.
Example read_at_once_buffered_fixed :
  let w := mk 8 true [10; 11; 12] 3 [13; 14; 15] [] [] in
  wf w /\ run (read_at_once w 4) = (ROk [14], []).
Proof. cbv zeta. split; [reflexivity | vm_compute; auto]. Qed.
