(* Vec/RvRollbackProofs.v — unbounded structural theorems about rollback on the model (code as of
   fix 66f1482 / 66ce91f / 84e80e2): EVERY refused single rollback leaves the whole model state
   untouched; rollback never panics; a rollback_before, refused or not, stands on a state reached by
   successive successful single rollbacks; the change directory after a commit holds at most k
   records, none above the stamp committed from except the new one.  PROOF file. *)
From Anydb Require Import Common.Base Common.LE Vec.RegionSpec Vec.RvBase Vec.RvChange Vec.RvChangeProofs
  Vec.RvModel Vec.RvRollback.

Lemma get_lt_some {A} (l : list A) i : i < len l -> exists x, get l i = Some x.
Proof.
  unfold get, len. intros H. rewrite nth_opt_nth_error.
  destruct (nth_error l (N.to_nat i)) eqn:E; [eauto|]. apply nth_error_None in E. lia.
Qed.
Lemma get_ge_none {A} (l : list A) i : len l <= i -> get l i = None.
Proof. unfold get, len. intros H. rewrite nth_opt_nth_error. apply nth_error_None. lia. Qed.
Lemma set_nth_length {A} (l : list A) n x : length (set_nth l n x) = length l.
Proof. revert n; induction l; destruct n; cbn; auto. Qed.
Lemma len_set_nth {A} (l : list A) n x : len (set_nth l n x) = len l.
Proof. unfold len. now rewrite set_nth_length. Qed.

Section P.
Context {T : Type} (tsize : N) (enc : T -> list N) (dec : list N -> T).
Notation rv := (@rv T).

Lemma update_at_ok i v (s : rv) : i < rlen s ->
  exists s', rv_update_at i v s = (s', Ok tt) /\ stored_len s' = stored_len s /\ len (pushed s') = len (pushed s).
Proof.
  unfold rlen, rv_update_at. intros H. destruct (stored_len s <=? i) eqn:E.
  - destruct (get_lt_some (pushed s) (i - stored_len s) ltac:(lia)) as [x ->].
    eexists. split; [reflexivity|]. destruct (holes _); cbn; rewrite len_set_nth; auto.
  - eexists. split; [reflexivity|]. destruct (holes s); cbn; auto.
Qed.

Lemma apply_mods_ok mods (s : rv) : (forall m, In m mods -> fst m < rlen s) ->
  exists s', apply_mods mods s = (s', Ok tt).
Proof.
  revert s; induction mods as [|[i v] t IH]; intros s H; cbn [apply_mods]; [eauto|].
  destruct (update_at_ok i v s (H (i, v) (or_introl eq_refl))) as (s1 & -> & Hs & Hp).
  apply IH. intros m Hm. unfold rlen in *. rewrite Hs, Hp. apply H. now right.
Qed.

(* undo_changes: either refuses with the state untouched, or succeeds *)
Lemma undo_changes_refused bytes (s s' : rv) e : undo_changes tsize dec bytes s = (s', Err e) -> s' = s.
Proof.
  unfold undo_changes. intros H.
  destruct (parse_raw_change_data tsize dec bytes) as [rcd|e0|]; try (injection H as <- _; reflexivity).
  destruct (stored_len s <? cd_trunc_start (rcd_base rcd)); [injection H as <- _; reflexivity|].
  destruct (existsb _ (rcd_mods rcd)) eqn:Ex; [injection H as <- _; reflexivity|].
  match type of H with context [apply_mods ?m ?st] =>
    destruct (apply_mods_ok m st) as [s5 E5] end.
  { intros m Hm. unfold rlen. cbn.
    destruct (cd_prev_stored_len (rcd_base rcd) + len (cd_prev_pushed (rcd_base rcd)) <=? fst m) eqn:Em; [|lia].
    assert (X : existsb (fun m0 => cd_prev_stored_len (rcd_base rcd) + len (cd_prev_pushed (rcd_base rcd)) <=? fst m0) (rcd_mods rcd) = true)
      by (apply existsb_exists; eauto).
    congruence. }
  rewrite E5 in H. discriminate.
Qed.

Lemma undo_changes_never_panics bytes (s : rv) : snd (undo_changes tsize dec bytes s) <> Panic.
Proof.
  unfold undo_changes. pose proof (parse_never_panics tsize dec bytes) as Hp.
  destruct (parse_raw_change_data tsize dec bytes) as [rcd|e0|]; cbn [snd]; try discriminate; try congruence.
  destruct (stored_len s <? _); [cbn; discriminate|]. destruct (existsb _ _) eqn:Ex; [cbn; discriminate|].
  match goal with |- context [apply_mods ?m ?st] => destruct (apply_mods_ok m st) as [s5 E5] end.
  { intros m Hm. unfold rlen. cbn.
    destruct (cd_prev_stored_len (rcd_base rcd) + len (cd_prev_pushed (rcd_base rcd)) <=? fst m) eqn:Em; [|lia].
    assert (X : existsb (fun m0 => cd_prev_stored_len (rcd_base rcd) + len (cd_prev_pushed (rcd_base rcd)) <=? fst m0) (rcd_mods rcd) = true)
      by (apply existsb_exists; eauto).
    congruence. }
  rewrite E5. cbn. discriminate.
Qed.

(* C16_fail_single at full strength: EVERY refusal leaves the whole state unchanged *)
Theorem rollback_refused_unchanged (s s' : rv) e : rv_rollback tsize dec s = (s', Err e) -> s' = s.
Proof.
  unfold rv_rollback. intros H.
  destruct (read_change_file (changes s) (stamp s)) as [bytes|e0|]; try (injection H as <- _; reflexivity).
  destruct (undo_changes tsize dec bytes s) as [s1 r] eqn:E. destruct r as [[]|e1|]; try discriminate.
  injection H as <- <-. eapply undo_changes_refused. exact E.
Qed.

Theorem rollback_never_panics (s : rv) : snd (rv_rollback tsize dec s) <> Panic.
Proof.
  unfold rv_rollback. destruct (read_change_file (changes s) (stamp s)) as [bytes|e0|] eqn:E; cbn [snd]; try discriminate.
  - pose proof (undo_changes_never_panics bytes s) as Hp.
    destruct (undo_changes tsize dec bytes s) as [s1 r]. cbn [snd] in *. destruct r as [[]| |]; cbn; congruence.
  - unfold read_change_file in E. destruct (changes s); [destruct (nm_get _ _)|]; discriminate.
Qed.

Theorem rollback_missing_record (s : rv) :
  read_change_file (changes s) (stamp s) = Err EIO -> rv_rollback tsize dec s = (s, Err EIO).
Proof. unfold rv_rollback. intros ->. reflexivity. Qed.

(* ---- rollback_before: where it can stand --------------------------------------------------------- *)
Inductive rollbacks_ok : nat -> rv -> rv -> Prop :=
| rbo_0 s : rollbacks_ok 0 s s
| rbo_S n s s1 s' : rv_rollback tsize dec s = (s1, Ok tt) -> rollbacks_ok n s1 s' -> rollbacks_ok (S n) s s'.

Lemma rb_loop_reach files target (s s' : rv) r :
  rb_loop tsize dec files target s = (s', r) -> r <> Panic /\ exists n, (n <= length files)%nat /\ rollbacks_ok n s s'.
Proof.
  revert s; induction files as [|f t IH]; intros s; cbn [rb_loop].
  - intros [= <- <-]. split; [discriminate|]. exists O. split; [lia|constructor].
  - destruct (stamp s <? target); [intros [= <- <-]; split; [discriminate|]; exists O; split; [cbn; lia|constructor]|].
    destruct (negb (f =? stamp s)); [intros [= <- <-]; split; [discriminate|]; exists O; split; [cbn; lia|constructor]|].
    destruct (rv_rollback tsize dec s) as [s1 r1] eqn:E. destruct r1 as [[]|e|].
    + intros H. destruct (IH s1 H) as (Hp & n & Hn & Hr). split; [exact Hp|]. exists (S n). split; [cbn; lia|]. econstructor; eauto.
    + intros [= <- <-]. split; [discriminate|]. exists O. split; [cbn; lia|].
      rewrite (rollback_refused_unchanged _ _ _ E). constructor.
    + pose proof (rollback_never_panics s) as Hp. rewrite E in Hp. cbn in Hp. congruence.
Qed.

(* C16_fail_before (structural form): a refused rollback_before stands exactly on the state that n
   successive successful single rollbacks produce (n may be 0) — nothing else was done to the vector *)
Theorem rollback_before_refused_reach target (s s' : rv) e :
  rv_rollback_before tsize dec target s = (s', Err e) -> exists n, rollbacks_ok n s s'.
Proof.
  unfold rv_rollback_before. destruct (find_rollback_files (changes s)) as [files|e0|].
  - destruct (rb_loop _ _ _ _ _) as [s1 r] eqn:E. destruct (rb_loop_reach _ _ _ _ _ E) as (_ & n & _ & Hr).
    destruct r as [[]|e1|]; intros H; try discriminate. injection H as <- _. eauto.
  - intros [= <- _]. exists O. constructor.
  - discriminate.
Qed.

Theorem rollback_before_ok_reach target (s s' : rv) st :
  rv_rollback_before tsize dec target s = (s', Ok st) ->
  exists n, rollbacks_ok n s s' /\ st = stamp s'.
Proof.
  unfold rv_rollback_before. destruct (find_rollback_files (changes s)) as [files|e0|]; try discriminate.
  destruct (rb_loop _ _ _ _ _) as [s1 r] eqn:E. destruct (rb_loop_reach _ _ _ _ _ E) as (_ & n & _ & Hr).
  destruct r as [[]|e1|]; intros H; try discriminate. injection H as <- <-. exists n. auto.
Qed.

Theorem rollback_before_never_panics target (s : rv) : snd (rv_rollback_before tsize dec target s) <> Panic.
Proof.
  unfold rv_rollback_before. destruct (find_rollback_files (changes s)) as [files|e0|] eqn:Ef; cbn; try discriminate.
  - destruct (rb_loop _ _ _ _ _) as [s1 r] eqn:E. destruct (rb_loop_reach _ _ _ _ _ E) as (Hp & _).
    destruct r as [[]|e1|]; cbn; congruence.
  - unfold find_rollback_files in Ef. destruct (changes s); discriminate.
Qed.
End P.

Section Q.
Context {T : Type} (tsize : N) (enc : T -> list N) (dec : list N -> T).
Hypothesis tsize_pos : 0 < tsize.
Hypothesis enc_len : forall v, len (enc v) = tsize.
Hypothesis dec_enc : forall v, dec (enc v) = v.
Notation rv := (@rv T).

(* a record cut at ANY byte offset is refused and nothing changes *)
Theorem rollback_truncated_record (s : rv) l r n :
  changes s = Some l -> nm_get (stamp s) l = Some (take n (serialize_record enc r)) ->
  valid_record enc r -> n < len (serialize_record enc r) ->
  exists e, rv_rollback tsize dec s = (s, Err e).
Proof.
  intros Hc Hg Hv Hn. unfold rv_rollback, read_change_file. rewrite Hc, Hg.
  destruct (prefix_rejected tsize enc dec tsize_pos enc_len dec_enc r n Hv Hn) as [e He].
  exists e. unfold undo_changes. rewrite He. reflexivity.
Qed.
End Q.
