(* Vec/RvSpec.v — the reference vector of C03/C04/C16: a growable list of optional values, a
   stamp, and a stack of committed snapshots bounded by the retention k.  SPEC file. *)
From Anydb Require Import Common.Base Vec.RvBase Vec.RvChange Vec.RvModel Vec.RvRollback.

Section SPEC.
Context {T : Type}.

Record snapshot := mkSnap { sn_contents : list (option T); sn_stamp : N }.

Record sv := mkSv {
  contents : list (option T);
  sstamp : N;
  base : snapshot;              (* the state as of the last commit / rollback / import: S_n *)
  committed : list snapshot;    (* S_{n-1}, S_{n-2}, … : what successive rollbacks restore *)
  sk : N }.

Definition sv_init (k0 : N) : sv := mkSv [] 0 (mkSnap [] 0) [] k0.

Definition set_contents c (a : sv) := mkSv c (sstamp a) (base a) (committed a) (sk a).

Definition slen (a : sv) : N := len (contents a).

Fixpoint first_none (l : list (option T)) (i : N) : option N :=
  match l with
  | [] => None
  | None :: _ => Some i
  | Some _ :: t => first_none t (i + 1)
  end.

Definition sv_rollback (a : sv) : sv * bool :=
  match committed a with
  | [] => (a, false)
  | s :: rest => (mkSv (sn_contents s) (sn_stamp s) s rest (sk a), true)
  end.

Fixpoint sv_rollback_before (fuel : nat) (target : N) (a : sv) : sv :=
  match fuel with
  | O => a
  | S f => if sstamp a <? target then a
           else match committed a with
                | [] => a
                | _ => sv_rollback_before f target (fst (sv_rollback a))
                end
  end.

(* the obvious step function.  Results: the same [ores] as the model. *)
Definition sstep (a : sv) (o : op (T:=T)) : sv * ores (T:=T) :=
  match o with
  | Push v => (set_contents (contents a ++ [Some v]) a, RUnit)
  | Truncate i => (if i <? slen a then set_contents (take i (contents a)) a else a, RUnit)
  | Write | Flush => (a, RBool true)           (* the boolean is not part of the spec (see C03 statement) *)
  | Reset => (mkSv [] 0 (mkSnap [] 0) [] (sk a), RUnit)
  | ResetUnsaved => (a, RUnit)                 (* outside C03's operation list; not compared *)
  | Reimport => (a, RUnit)
  | Update i v =>
    if i <? slen a then (set_contents (set_nth (contents a) (N.to_nat i) (Some v)) a, RUnit)
    else (a, RErr EIndexTooHigh)
  | Delete i =>
    (if i <? slen a then set_contents (set_nth (contents a) (N.to_nat i) None) a else a, RUnit)
  | Take i =>
    match get (contents a) i with
    | Some (Some v) => (set_contents (set_nth (contents a) (N.to_nat i) None) a, RVal (Some v))
    | _ => (a, RVal None)
    end
  | Fill v =>
    match first_none (contents a) 0 with
    | Some h => (set_contents (set_nth (contents a) (N.to_nat h) (Some v)) a, RIdx h)
    | None => (set_contents (contents a ++ [Some v]) a, RIdx (slen a))
    end
  | Commit st =>
    if sk a =? 0 then (mkSv (contents a) st (base a) (committed a) (sk a), RUnit)
    else (mkSv (contents a) st (mkSnap (contents a) st) (take (sk a) (base a :: committed a)) (sk a), RUnit)
  | StampedWrite st => (mkSv (contents a) st (base a) (committed a) (sk a), RUnit)
  | Rollback => let '(a', ok) := sv_rollback a in (a', if ok then RUnit else RErr EIO)
  | RollbackBefore st =>
    let a' := sv_rollback_before (S (length (committed a))) st a in (a', RStamp (sstamp a'))
  | FDelete _ | FTruncate _ _ | FOverwrite _ _ _ => (a, RUnit)
  end.

Fixpoint srun (a : sv) (h : list op) : sv :=
  match h with [] => a | o :: t => srun (fst (sstep a o)) t end.
End SPEC.
Arguments snapshot : clear implicits.
Arguments sv : clear implicits.
