(* Vec/RdCompProofs.v — the compressed vector's read paths.  The codec hypothesis (C07: a page decodes
   to the values that were compressed into it) is built into the state description: pg_vals IS what
   the page decodes to.  C20 is judged against the page entries: every fetch is a page's byte range,
   which cwf_b places inside the region.
   Proved for all well-formed states and all from/to: read_stored_pages_into, read_into_at (read-write
   and lean clone), collect-style paths built on it, with both the result (C08) and the fetched
   ranges (C20). *)
From Anydb Require Import Common.Base Gen.Consts Gen.Sizes Vec.RdModel Vec.RdCursor Vec.RdComp Vec.RdProofs
  Vec.RdCursorProofs.

Definition cwf (c : cstate) : Prop := cwf_b c = true.
Definition in_cregion (c : cstate) (a : acc) : Prop := fst a + snd a <= c_rlen c.
Definition cgood (c : cstate) := goodP (in_cregion c).
Definition G (c : cstate) (k : N) : list N := opt_list (cview c k).

Lemma cexpected_eq c from to :
  cexpected c from to =
  flat_map (G c) (seqN (N.min from (clen c)) (N.to_nat (N.min to (clen c) - N.min from (clen c)))).
Proof. reflexivity. Qed.

(* ------------------------------------------------------------------ the page index *)
Lemma pages_ok_get pp rl : forall ps i p, pages_ok pp rl ps = true -> get ps i = Some p ->
  pg_start p + pg_bytes p <= rl /\ len (pg_vals p) <= pp /\ (i + 1 < len ps -> len (pg_vals p) = pp).
Proof.
  induction ps as [|q ps IH]; intros i p H Hg; [unfold get in Hg; destruct (N.to_nat i); discriminate|].
  cbn [pages_ok] in H. apply andb_prop in H as [H H3]. apply andb_prop in H as [H1 H2].
  rewrite get_cons in Hg. destruct (N.eqb_spec i 0) as [->|Hi].
  - inversion Hg; subst q. split; [lia|]. destruct ps as [|r ps].
    + split; [lia|]. unfold len; cbn [length]. lia.
    + apply andb_prop in H2 as [H2 _]. split; [lia|]. intros _. lia.
  - destruct (IH (i - 1) p H3 Hg) as (A & B & C). split; [auto|split; [auto|]].
    rewrite len_cons. intros. apply C. lia.
Qed.
Lemma pages_ok_total pp rl : forall ps, pages_ok pp rl ps = true ->
  total_vals ps <= len ps * pp
  /\ (forall p, get ps (len ps - 1) = Some p -> total_vals ps = (len ps - 1) * pp + len (pg_vals p)).
Proof.
  induction ps as [|q ps IH]; intros H.
  - split; [cbn; lia|]. intros p Hg. unfold get in Hg. cbn in Hg. discriminate.
  - cbn [pages_ok] in H. apply andb_prop in H as [H H3]. apply andb_prop in H as [H1 H2].
    destruct (IH H3) as [A B]. cbn [total_vals fold_right]. fold (total_vals ps). rewrite (len_cons q ps).
    destruct ps as [|r ps'].
    + change (len (@nil page)) with 0 in *. cbn [total_vals fold_right]. split; [lia|].
      intros p Hg. replace (1 + 0 - 1) with 0 in Hg by lia. rewrite get_cons, N.eqb_refl in Hg.
      inversion Hg; subst. lia.
    + apply andb_prop in H2 as [H2 _]. set (L := len (r :: ps')) in *.
      assert (1 <= L) by (subst L; rewrite len_cons; lia).
      split; [nia|].
      intros p Hg. rewrite get_cons in Hg.
      replace (1 + L - 1 =? 0) with false in Hg by lia. replace (1 + L - 1 - 1) with (L - 1) in Hg by lia.
      rewrite (B p Hg). nia.
Qed.

Definition sum_bytes (l : list page) : N := fold_right (fun p a => pg_bytes p + a) 0 l.
Lemma refill_total_bounds : forall l acc, acc <= refill_total l acc /\ refill_total l acc <= acc + sum_bytes l.
Proof.
  induction l as [|p l IH]; intros acc; cbn [refill_total sum_bytes fold_right]; [lia|].
  fold (sum_bytes l). destruct (BUFFER_SIZE <? acc + pg_bytes p); [lia|].
  destruct (IH (acc + pg_bytes p)). lia.
Qed.
Lemma sum_bytes_firstn : forall n l, sum_bytes (firstn n l) <= sum_bytes l.
Proof.
  induction n; intros l; destruct l; cbn [firstn sum_bytes fold_right]; try lia.
  fold (sum_bytes (firstn n l)) (sum_bytes l). specialize (IHn l). lia.
Qed.
Lemma pages_ok_skipn pp rl : forall n l, pages_ok pp rl l = true -> pages_ok pp rl (skipn n l) = true.
Proof.
  induction n; intros l H; [exact H|]. destruct l; [exact H|]. cbn [skipn]. apply IHn.
  cbn [pages_ok] in H. apply andb_prop in H as [_ H]. exact H.
Qed.
(* pages follow one another: a run of pages ends where its last page ends, inside the region *)
Lemma pages_chain pp rl : forall r p, pages_ok pp rl (p :: r) = true -> pg_start p + sum_bytes (p :: r) <= rl.
Proof.
  induction r as [|q r IH]; intros p H.
  - cbn [pages_ok] in H. cbn [sum_bytes fold_right]. lia.
  - cbn [pages_ok] in H. apply andb_prop in H as [H H3]. apply andb_prop in H as [H1 H2].
    apply andb_prop in H2 as [_ H2]. specialize (IH q H3).
    cbn [sum_bytes fold_right] in *. fold (sum_bytes r) in *. lia.
Qed.

Section Pages.
  Variable c : cstate.
  Hypothesis W : cwf c.
  Let pp := per_page c.
  Let ps := c_pages c.

  Lemma cwf_parts : 0 < c_sz c /\ 1 <= pp /\ pages_ok pp (c_rlen c) ps = true /\ c_stored c <= total_vals ps.
  Proof.
    unfold cwf, cwf_b in W. apply andb_prop in W as [H H4]. apply andb_prop in H as [H H3].
    apply andb_prop in H as [H1 H2]. subst pp ps. unfold per_page.
    repeat split; auto; try lia; try (apply N.div_le_lower_bound; lia).
  Qed.
  Lemma stored_pages : c_stored c <= len ps * pp.
  Proof. destruct cwf_parts as (_ & _ & H & Hs). pose proof (proj1 (pages_ok_total _ _ _ H)). lia. Qed.

  (* the page that holds a stored index, and the element's place in it *)
  Lemma page_exists pidx : pidx * pp < c_stored c -> exists p, get ps pidx = Some p.
  Proof.
    intros H. apply get_some. pose proof stored_pages. destruct cwf_parts as (_ & Hpp & _). nia.
  Qed.
  Lemma page_view pidx p k : get ps pidx = Some p -> k < pp -> pidx * pp + k < c_stored c ->
    cview c (pidx * pp + k) = get (pg_vals p) k.
  Proof.
    intros Hg Hk Hs. destruct cwf_parts as (_ & Hpp & _).
    unfold cview. replace (pidx * pp + k <? c_stored c) with true by lia. fold pp ps.
    rewrite !nth_n_get.
    replace ((pidx * pp + k) / pp) with pidx by (rewrite N.div_add_l by lia; rewrite N.div_small by lia; lia).
    replace ((pidx * pp + k) mod pp) with k
      by (rewrite N.add_comm, N.mod_add by lia; now rewrite N.mod_small by lia).
    rewrite Hg. apply nth_n_get.
  Qed.
  (* a page covers its whole index range below stored_len *)
  Lemma page_covers pidx p t : get ps pidx = Some p -> t <= c_stored c -> pidx * pp < t ->
    N.min (t - pidx * pp) (len (pg_vals p)) = N.min t (pidx * pp + pp) - pidx * pp
    /\ len (pg_vals p) <= pp /\ pg_start p + pg_bytes p <= c_rlen c.
  Proof.
    intros Hg Ht Hlt. destruct cwf_parts as (_ & Hpp & Hok & Hst).
    destruct (pages_ok_get _ _ _ _ _ Hok Hg) as (A & B & C). fold ps in C.
    split; [|auto].
    destruct (N.lt_ge_cases (pidx + 1) (len ps)) as [Hl|Hl].
    - rewrite (C Hl). lia.
    - assert (pidx = len ps - 1) by (pose proof (get_some_lt _ _ _ Hg); lia). subst pidx.
      pose proof (proj2 (pages_ok_total _ _ _ Hok) p Hg). fold ps in H. lia.
  Qed.

  (* the part of a page that a request [f, t) takes *)
  Lemma page_slice_good pidx p f t : get ps pidx = Some p -> f < t -> t <= c_stored c ->
    pidx * pp < t -> f < pidx * pp + pp ->
    cgood c (map Yield (slice (f - pidx * pp) (N.min (t - pidx * pp) (len (pg_vals p))) (pg_vals p)))
      (flat_map (G c) (seqN (N.max f (pidx * pp)) (N.to_nat (N.min t (pidx * pp + pp) - N.max f (pidx * pp)))))
    /\ f - pidx * pp <= N.min (t - pidx * pp) (len (pg_vals p))
    /\ N.min (t - pidx * pp) (len (pg_vals p)) = N.min t (pidx * pp + pp) - pidx * pp
    /\ pg_start p + pg_bytes p <= c_rlen c.
  Proof.
    intros Hg Hft Ht Hlt Hf. destruct (page_covers pidx p t Hg Ht Hlt) as (Hlt' & Hcnt & Hend).
    set (pst := pidx * pp) in *. set (lf := f - pst). set (lt := N.min (t - pst) (len (pg_vals p))) in *.
    split; [|split; [subst lf; lia|split; [exact Hlt'|exact Hend]]].
    eapply goodP_eq; [|apply goodP_yields].
    rewrite slice_flat.
    replace (N.max f pst) with (pst + lf) by (subst lf; lia).
    rewrite (seqN_shift (G c) pst).
    replace (N.to_nat (N.min t (pst + pp) - (pst + lf))) with (N.to_nat (lt - lf)) by (subst lf; lia).
    apply flat_map_ext_in. intros k Hk. apply in_seqN in Hk. unfold G.
    subst pst. rewrite (page_view pidx p k Hg) by (subst lf; lia). reflexivity.
  Qed.

  (* one page of read_stored_pages_into *)
  Lemma page_body_good pidx p f t : get ps pidx = Some p -> f < t -> t <= c_stored c ->
    pidx * pp < t -> f < pidx * pp + pp ->
    cgood c
      (page_fetch p ::
       (if negb (pg_raw p) && (f - pidx * pp =? 0)
        then map Yield (take (N.min (t - pidx * pp) (len (pg_vals p))) (pg_vals p))
        else if N.min (t - pidx * pp) (len (pg_vals p)) <? f - pidx * pp then [Boom]
             else map Yield (slice (f - pidx * pp) (N.min (t - pidx * pp) (len (pg_vals p))) (pg_vals p))))
      (flat_map (G c) (seqN (N.max f (pidx * pp)) (N.to_nat (N.min t (pidx * pp + pp) - N.max f (pidx * pp))))).
  Proof.
    intros Hg Hft Ht Hlt Hf.
    destruct (page_slice_good pidx p f t Hg Hft Ht Hlt Hf) as (Hbody & Hle & _ & Hend).
    set (lf := f - pidx * pp) in *. set (lt := N.min (t - pidx * pp) (len (pg_vals p))) in *.
    apply goodP_fetch; [unfold in_cregion; cbn; lia|].
    destruct (negb (pg_raw p) && (lf =? 0)) eqn:Hfast.
    - apply andb_prop in Hfast as [_ Hz]. assert (lf = 0) by lia.
      replace (take lt (pg_vals p)) with (slice lf lt (pg_vals p)); [exact Hbody|].
      rewrite H. unfold slice, drop. cbn [N.to_nat skipn]. now rewrite N.sub_0_r.
    - replace (lt <? lf) with false by lia. exact Hbody.
  Qed.

  (* read_stored_pages_into: the pages from pidx on *)
  Lemma pages_into_good f t : f < t -> t <= c_stored c ->
    forall m pidx, f / pp <= pidx -> pidx + N.of_nat m = (t - 1) / pp + 1 ->
    cgood c (pages_into c f t pidx (map (fun i => nth_n ps i) (seqN pidx m)))
      (flat_map (G c) (seqN (N.max f (pidx * pp)) (N.to_nat (t - N.max f (pidx * pp))))).
  Proof.
    intros Hft Ht. destruct cwf_parts as (_ & Hpp & _).
    assert (Hsp : f / pp * pp <= f /\ f < f / pp * pp + pp).
    { pose proof (N.div_mod' f pp). pose proof (N.mod_lt f pp ltac:(lia)). nia. }
    assert (Hep : (t - 1) / pp * pp <= t - 1 /\ t - 1 < (t - 1) / pp * pp + pp).
    { pose proof (N.div_mod' (t - 1) pp). pose proof (N.mod_lt (t - 1) pp ltac:(lia)). nia. }
    induction m as [|m IH]; intros pidx Hlo Hhi.
    - cbn. replace (N.to_nat (t - N.max f (pidx * pp))) with O by nia. apply goodP_nil.
    - cbn [seqN map pages_into]. rewrite nth_n_get.
      assert (Hlt : pidx * pp < t) by nia.
      destruct (page_exists pidx ltac:(lia)) as [p Hg]. fold ps. rewrite Hg. fold pp.
      assert (Hf : f < pidx * pp + pp) by nia.
      rewrite (seqN_split (N.max f (pidx * pp)) (N.min t (pidx * pp + pp)) t) by lia.
      rewrite flat_map_app. rewrite app_comm_cons. apply goodP_app.
      + apply page_body_good; auto.
      + specialize (IH (pidx + 1) ltac:(lia) ltac:(lia)).
        destruct (N.le_gt_cases t (pidx * pp + pp)) as [Hl|Hg'].
        * replace (N.to_nat (t - N.min t (pidx * pp + pp))) with O by lia.
          replace (N.to_nat (t - N.max f ((pidx + 1) * pp))) with O in IH by nia. exact IH.
        * replace (N.min t (pidx * pp + pp)) with (N.max f ((pidx + 1) * pp)) by nia. exact IH.
  Qed.
  Theorem read_stored_pages_into_good f t : f < t -> t <= c_stored c ->
    cgood c (read_stored_pages_into c f t) (flat_map (G c) (seqN f (N.to_nat (t - f)))).
  Proof.
    intros Hft Ht. destruct cwf_parts as (_ & Hpp & _). unfold read_stored_pages_into, page_opts. fold pp ps.
    assert (Hsp : f / pp * pp <= f) by (pose proof (N.div_mod' f pp); nia).
    assert (Hle : f / pp <= (t - 1) / pp) by (apply N.div_le_mono; lia).
    pose proof (pages_into_good f t Hft Ht (N.to_nat ((t - 1) / pp + 1 - f / pp)) (f / pp) ltac:(lia) ltac:(lia)) as H.
    replace (N.max f (f / pp * pp)) with f in H by lia. exact H.
  Qed.

  (* the pushed tail *)
  Lemma cpushed_slice_good f t : f <= t -> t <= clen c ->
    cgood c (cpushed_slice c f t)
      (flat_map (G c) (seqN (N.max f (c_stored c)) (N.to_nat (t - N.max f (c_stored c))))).
  Proof.
    intros Hft Ht. unfold cpushed_slice, clen in *.
    destruct (N.ltb_spec (c_stored c) t) as [Hs|Hs].
    - replace (N.min (t - c_stored c) (len (c_pushed c))) with (t - c_stored c) by lia.
      replace (t - c_stored c <? N.max f (c_stored c) - c_stored c) with false by lia.
      rewrite (slice_scan _ _ _ (N.max f (c_stored c))).
      replace (N.to_nat (t - N.max f (c_stored c)))
        with (N.to_nat (t - c_stored c - (N.max f (c_stored c) - c_stored c))) by lia.
      apply scan_range_good. intros k Hk. unfold G, cview.
      replace (N.max f (c_stored c) + k <? c_stored c) with false by lia. rewrite nth_n_get.
      replace (N.max f (c_stored c) + k - c_stored c) with (N.max f (c_stored c) - c_stored c + k) by lia.
      apply goodP_yields.
    - replace (N.to_nat (t - N.max f (c_stored c))) with O by lia. apply goodP_nil.
  Qed.

  (* ReadableVec::read_into_at of the compressed vector *)
  Theorem cread_into_at_good from to : cgood c (cread_into_at c from to) (cexpected c from to).
  Proof.
    rewrite cexpected_eq. unfold cread_into_at.
    set (f := N.min from (clen c)). set (t := N.min to (clen c)).
    assert (Ht : t <= clen c) by (subst t; lia).
    destruct (N.leb_spec t f) as [Hle|Hlt]; [replace (N.to_nat (t - f)) with O by lia; apply goodP_nil|].
    rewrite (seqN_split f (N.max f (N.min t (c_stored c))) t) by lia. rewrite flat_map_app.
    apply goodP_app.
    - destruct (N.ltb_spec f (c_stored c)) as [Hs|Hs].
      + replace (N.to_nat (N.max f (N.min t (c_stored c)) - f)) with (N.to_nat (N.min t (c_stored c) - f)) by lia.
        apply read_stored_pages_into_good; lia.
      + replace (N.to_nat (N.max f (N.min t (c_stored c)) - f)) with O by lia. apply goodP_nil.
    - destruct (N.le_gt_cases t (c_stored c)) as [Hts|Hts].
      + unfold cpushed_slice. replace (c_stored c <? t) with false by lia.
        replace (N.to_nat (t - N.max f (N.min t (c_stored c)))) with O by lia. apply goodP_nil.
      + replace (N.max f (N.min t (c_stored c))) with (N.max f (c_stored c)) by lia.
        apply cpushed_slice_good; lia.
  Qed.
  (* the lean clone's read_into_at: the stored part only *)
  Theorem cro_read_into_good from to :
    cgood c (cro_read_into c from to)
      (flat_map (G c) (seqN (N.min from (c_stored c))
                            (N.to_nat (N.min to (c_stored c) - N.min from (c_stored c))))).
  Proof.
    unfold cro_read_into. set (f := N.min from (c_stored c)). set (t := N.min to (c_stored c)).
    destruct (N.leb_spec t f) as [Hle|Hlt]; [replace (N.to_nat (t - f)) with O by lia; apply goodP_nil|].
    apply read_stored_pages_into_good; subst f t; lia.
  Qed.

  (* CompressedMmapSource::{fold, try_fold}: the page walk from position pos *)
  Lemma cmmap_loop_good strict end_ : end_ <= c_stored c ->
    forall fuel pidx pos, pos <= end_ -> (pos < end_ -> pidx = pos / pp) ->
    (pos < end_ -> len ps + 1 <= N.of_nat fuel + pidx) ->
    cgood c (cmmap_loop fuel strict c pos end_ pidx (pidx * pp) (pos - pidx * pp))
      (flat_map (G c) (seqN pos (N.to_nat (end_ - pos)))).
  Proof.
    intros Hend. destruct cwf_parts as (_ & Hpp & _).
    induction fuel as [|fuel IH]; intros pidx pos Hpe Hpi Hfu.
    - cbn. destruct (N.lt_ge_cases pos end_) as [Hlt|Hge].
      + specialize (Hpi Hlt). specialize (Hfu Hlt).
        destruct (page_exists pidx) as [p Hg]; [subst pidx; pose proof (N.div_mod' pos pp); nia|].
        pose proof (get_some_lt _ _ _ Hg). cbn in Hfu. lia.
      + replace (N.to_nat (end_ - pos)) with O by lia. apply goodP_nil.
    - cbn [cmmap_loop]. destruct (N.leb_spec end_ pos) as [Hge|Hlt].
      + replace (N.to_nat (end_ - pos)) with O by lia. apply goodP_nil.
      + specialize (Hpi Hlt). specialize (Hfu Hlt).
        assert (Hdm : pidx * pp <= pos /\ pos < pidx * pp + pp).
        { subst pidx. pose proof (N.div_mod' pos pp). pose proof (N.mod_lt pos pp ltac:(lia)). nia. }
        destruct (page_exists pidx ltac:(lia)) as [p Hg]. rewrite nth_n_get. fold ps. rewrite Hg.
        destruct (page_slice_good pidx p pos end_ Hg Hlt Hend ltac:(lia) ltac:(lia)) as (Hbody & Hle & Hpe' & Hin).
        set (pe := N.min (end_ - pidx * pp) (len (pg_vals p))) in *.
        apply goodP_fetch; [unfold in_cregion; cbn; lia|].
        replace (strict && (pe <? pos - pidx * pp)) with false by (destruct strict; cbn; lia).
        rewrite (seqN_split pos (N.min end_ (pidx * pp + pp)) end_) by lia. rewrite flat_map_app.
        apply goodP_app.
        * replace (N.max pos (pidx * pp)) with pos in Hbody by lia. exact Hbody.
        * fold pp. replace (pidx * pp + pe) with (N.min end_ (pidx * pp + pp)) by lia.
          replace (pidx * pp + pp) with ((pidx + 1) * pp) by lia.
          set (pos' := N.min end_ ((pidx + 1) * pp)).
          assert (H0 : 0 = pos' - (pidx + 1) * pp \/ end_ <= pos') by (subst pos'; lia).
          destruct (N.lt_ge_cases pos' end_) as [Hl|Hg'].
          -- replace 0 with (pos' - (pidx + 1) * pp) by (subst pos'; lia).
             apply IH; [lia| |].
             ++ intros _. subst pos'. replace (N.min end_ ((pidx + 1) * pp)) with ((pidx + 1) * pp) by lia.
                now rewrite N.div_mul by lia.
             ++ intros _. lia.
          -- replace (N.to_nat (end_ - pos')) with O by lia.
             destruct fuel; cbn [cmmap_loop]; [apply goodP_nil|].
             replace (end_ <=? pos') with true by lia. apply goodP_nil.
  Qed.
  Theorem cmmap_src_good strict f t : f <= t -> t <= c_stored c ->
    cgood c (cmmap_src strict c (c_stored c) f t) (flat_map (G c) (seqN f (N.to_nat (t - f)))).
  Proof.
    intros Hft Ht. unfold cmmap_src. fold pp ps.
    replace (N.min f (c_stored c)) with f by lia. replace (N.min t (c_stored c)) with t by lia.
    apply cmmap_loop_good; auto.
    intros _. unfold len, ps. generalize (f / pp). intros. lia.
  Qed.

  (* CompressedIoSource: the same page walk, pages served from a file buffer that is refilled with as
     many whole pages as fit.  Needs every page to fit the buffer and to be non-empty on disk
     (otherwise refill_buffer gives up and the scan silently stops). *)
  Definition io_sized : Prop :=
    forall i p, get ps i = Some p -> 0 < pg_bytes p /\ pg_bytes p <= BUFFER_SIZE.

  Lemma refill_ok pidx p b : io_sized -> get ps pidx = Some p -> pidx < b ->
    let total := refill_total (slice pidx b ps) 0 in
    0 < total /\ pg_start p + total <= c_rlen c.
  Proof.
    intros Hio Hg Hb total. destruct cwf_parts as (_ & _ & Hok & _). destruct (Hio pidx p Hg) as [Hb0 Hb1].
    pose proof (drop_step ps pidx) as Hd. rewrite Hg in Hd.
    destruct (drop pidx ps) as [|p0 r] eqn:Edrop; [destruct Hd; discriminate|].
    destruct Hd as [Hp _]. inversion Hp; subst p0.
    assert (Hsl : slice pidx b ps = p :: firstn (N.to_nat (b - pidx) - 1) r).
    { unfold slice, take. rewrite Edrop. replace (N.to_nat (b - pidx)) with (S (N.to_nat (b - pidx) - 1)) by lia.
      cbn [firstn]. do 2 f_equal. lia. }
    subst total. rewrite Hsl. cbn [refill_total].
    replace (BUFFER_SIZE <? 0 + pg_bytes p) with false by lia.
    destruct (refill_total_bounds (firstn (N.to_nat (b - pidx) - 1) r) (0 + pg_bytes p)) as [Hlo Hhi].
    split; [lia|].
    pose proof (sum_bytes_firstn (N.to_nat (b - pidx) - 1) r).
    assert (Hch : pg_start p + sum_bytes (p :: r) <= c_rlen c).
    { apply (pages_chain pp). rewrite <- Edrop. unfold drop. now apply pages_ok_skipn. }
    cbn [sum_bytes fold_right] in Hch. fold (sum_bytes r) in Hch. lia.
  Qed.

  Lemma cio_loop_good strict end_ : io_sized -> end_ <= c_stored c ->
    forall fuel pidx pos bstart blen, pos <= end_ -> (pos < end_ -> pidx = pos / pp) ->
    (pos < end_ -> len ps + 1 <= N.of_nat fuel + pidx) ->
    cgood c (cio_loop fuel strict c pos end_ pidx (pidx * pp) (pos - pidx * pp) bstart blen)
      (flat_map (G c) (seqN pos (N.to_nat (end_ - pos)))).
  Proof.
    intros Hio Hend. destruct cwf_parts as (_ & Hpp & _).
    induction fuel as [|fuel IH]; intros pidx pos bstart blen Hpe Hpi Hfu.
    - cbn. destruct (N.lt_ge_cases pos end_) as [Hlt|Hge].
      + specialize (Hpi Hlt). specialize (Hfu Hlt).
        destruct (page_exists pidx) as [p Hg]; [subst pidx; pose proof (N.div_mod' pos pp); nia|].
        pose proof (get_some_lt _ _ _ Hg). cbn in Hfu. lia.
      + replace (N.to_nat (end_ - pos)) with O by lia. apply goodP_nil.
    - cbn [cio_loop]. destruct (N.leb_spec end_ pos) as [Hge|Hlt].
      + replace (N.to_nat (end_ - pos)) with O by lia. apply goodP_nil.
      + specialize (Hpi Hlt). specialize (Hfu Hlt).
        assert (Hdm : pidx * pp <= pos /\ pos < pidx * pp + pp).
        { subst pidx. pose proof (N.div_mod' pos pp). pose proof (N.mod_lt pos pp ltac:(lia)). nia. }
        destruct (page_exists pidx ltac:(lia)) as [p Hg]. rewrite nth_n_get. fold ps. rewrite Hg.
        destruct (page_slice_good pidx p pos end_ Hg Hlt Hend ltac:(lia) ltac:(lia)) as (Hbody & Hle & Hpe' & Hin).
        set (pe := N.min (end_ - pidx * pp) (len (pg_vals p))) in *.
        replace (end_ =? 0) with false by lia. fold pp.
        set (mp := N.min ((end_ - 1) / pp) (len ps - 1)).
        assert (Hmp : pidx < mp + 1).
        { pose proof (get_some_lt _ _ _ Hg). subst mp pidx.
          assert (pos / pp <= (end_ - 1) / pp) by (apply N.div_le_mono; lia). lia. }
        destruct (refill_ok pidx p (mp + 1) Hio Hg Hmp) as [Htot Hfetch].
        set (total := refill_total (slice pidx (mp + 1) ps) 0) in *.
        set (inb := (0 <? blen) && (bstart <=? pg_start p) && (pg_start p + pg_bytes p <=? bstart + blen)).
        replace (negb inb && (total =? 0)) with false by (destruct inb; cbn; lia).
        assert (Hrest : cgood c
          (if strict && (pe <? pos - pidx * pp) then [Boom]
           else map Yield (slice (pos - pidx * pp) pe (pg_vals p)) ++
                cio_loop fuel strict c (pidx * pp + pe) end_ (pidx + 1) (pidx * pp + pp) 0
                  (if inb then bstart else pg_start p) (if inb then blen else total))
          (flat_map (G c) (seqN pos (N.to_nat (end_ - pos))))).
        { replace (strict && (pe <? pos - pidx * pp)) with false by (destruct strict; cbn; lia).
          rewrite (seqN_split pos (N.min end_ (pidx * pp + pp)) end_) by lia. rewrite flat_map_app.
          apply goodP_app.
          * replace (N.max pos (pidx * pp)) with pos in Hbody by lia. exact Hbody.
          * replace (pidx * pp + pe) with (N.min end_ (pidx * pp + pp)) by lia.
            replace (pidx * pp + pp) with ((pidx + 1) * pp) by lia.
            set (pos' := N.min end_ ((pidx + 1) * pp)).
            destruct (N.lt_ge_cases pos' end_) as [Hl|Hg'].
            -- replace 0 with (pos' - (pidx + 1) * pp) by (subst pos'; lia).
               apply IH; [lia| |].
               ++ intros _. subst pos'. replace (N.min end_ ((pidx + 1) * pp)) with ((pidx + 1) * pp) by lia.
                  now rewrite N.div_mul by lia.
               ++ intros _. lia.
            -- replace (N.to_nat (end_ - pos')) with O by lia.
               destruct fuel; cbn [cio_loop]; [apply goodP_nil|].
               replace (end_ <=? pos') with true by lia. apply goodP_nil. }
        destruct inb; cbn [app]; [exact Hrest|].
        apply goodP_fetch; [unfold in_cregion; cbn; lia|exact Hrest].
  Qed.
  Theorem cio_src_good strict f t : io_sized -> f <= t -> t <= c_stored c ->
    cgood c (cio_src strict c (c_stored c) f t) (flat_map (G c) (seqN f (N.to_nat (t - f)))).
  Proof.
    intros Hio Hft Ht. unfold cio_src. fold pp ps.
    replace (N.min f (c_stored c)) with f by lia. replace (N.min t (c_stored c)) with t by lia.
    apply cio_loop_good; auto.
    intros _. unfold len, ps. generalize (f / pp). intros. lia.
  Qed.

  (* fold_source dispatch and the entry points built on it *)
  Theorem cfold_source_good strict f t : io_sized -> f <= t -> t <= c_stored c ->
    cgood c (cfold_source strict c (c_stored c) f t) (flat_map (G c) (seqN f (N.to_nat (t - f)))).
  Proof.
    intros. unfold cfold_source. replace (t <? f) with false by lia.
    destruct (c_xo c <? (t - f) * c_sz c); [now apply cio_src_good|now apply cmmap_src_good].
  Qed.
  Lemma cfold_pushed_good strict f t : f <= t -> t <= clen c -> c_stored c < t ->
    cgood c (cfold_pushed strict c f t)
      (flat_map (G c) (seqN (N.max f (c_stored c)) (N.to_nat (t - N.max f (c_stored c))))).
  Proof.
    intros Hft Ht Hs. pose proof (cpushed_slice_good f t Hft Ht) as H.
    unfold cpushed_slice in H. replace (c_stored c <? t) with true in H by lia.
    unfold cfold_pushed, clen in *.
    destruct (N.leb_spec t (N.max f (c_stored c))) as [Hle|Hlt].
    - replace (N.to_nat (t - N.max f (c_stored c))) with O by lia. apply goodP_nil.
    - replace (N.min (t - c_stored c) (len (c_pushed c)) <? N.max f (c_stored c) - c_stored c) with false in * by lia.
      rewrite andb_false_r. exact H.
  Qed.
  Theorem cfold_range_at_good strict from to : io_sized ->
    cgood c (cfold_range_at strict c from to) (cexpected c from to).
  Proof.
    intros Hio. rewrite cexpected_eq. unfold cfold_range_at.
    set (f := N.min from (clen c)). set (t := N.min to (clen c)).
    assert (Ht : t <= clen c) by (subst t; lia).
    destruct (N.leb_spec t f) as [Hle|Hlt]; [replace (N.to_nat (t - f)) with O by lia; apply goodP_nil|].
    destruct (N.leb_spec t (c_stored c)) as [Hts|Hts]; [apply cfold_source_good; auto; lia|].
    rewrite (seqN_split f (N.max f (c_stored c)) t) by lia. rewrite flat_map_app.
    apply goodP_app.
    - destruct (N.ltb_spec f (c_stored c)) as [Hs|Hs].
      + replace (N.max f (c_stored c)) with (c_stored c) by lia. apply cfold_source_good; auto; lia.
      + replace (N.to_nat (N.max f (c_stored c) - f)) with O by lia. apply goodP_nil.
    - apply cfold_pushed_good; lia.
  Qed.
  Theorem cfold_stored_good io from to : io_sized ->
    cgood c (cfold_stored io c from to)
      (flat_map (G c) (seqN (N.min from (c_stored c))
                            (N.to_nat (N.min to (c_stored c) - N.min from (c_stored c))))).
  Proof.
    intros Hio. unfold cfold_stored. set (f := N.min from (c_stored c)). set (t := N.min to (c_stored c)).
    destruct (N.leb_spec t f) as [Hle|Hlt]; [replace (N.to_nat (t - f)) with O by lia; apply goodP_nil|].
    destruct io; [apply cio_src_good|apply cmmap_src_good]; auto; subst f t; lia.
  Qed.
  Theorem cro_fold_range_good strict from to : io_sized ->
    cgood c (cro_fold_range strict c from to)
      (flat_map (G c) (seqN (N.min from (c_stored c))
                            (N.to_nat (N.min to (c_stored c) - N.min from (c_stored c))))).
  Proof.
    intros Hio. unfold cro_fold_range. set (f := N.min from (c_stored c)). set (t := N.min to (c_stored c)).
    destruct (N.leb_spec t f) as [Hle|Hlt]; [replace (N.to_nat (t - f)) with O by lia; apply goodP_nil|].
    apply cfold_source_good; auto; subst f t; lia.
  Qed.

  (* default collect_one_at over the compressed fold *)
  Theorem ccollect_one_at_good i : io_sized ->
    cgood c (ccollect_one_at c i) (if i <? clen c then G c i else []).
  Proof.
    intros Hio. unfold ccollect_one_at. destruct (N.leb_spec (clen c) i) as [Hl|Hl].
    - replace (i <? clen c) with false by lia. apply goodP_nil.
    - replace (i <? clen c) with true by lia.
      pose proof (cfold_range_at_good false i (i + 1) Hio) as H. rewrite cexpected_eq in H.
      replace (N.min i (clen c)) with i in H by lia. replace (N.min (i + 1) (clen c)) with (i + 1) in H by lia.
      replace (N.to_nat (i + 1 - i)) with 1%nat in H by lia. cbn [seqN flat_map] in H. now rewrite app_nil_r in H.
  Qed.

  (* every stored index has an element: compressed vectors have no deleted slots *)
  Lemma cview_full k : k < clen c -> cview c k <> None.
  Proof.
    intros Hk. destruct cwf_parts as (_ & Hpp & Hok & Hst). unfold clen in Hk.
    destruct (N.lt_ge_cases k (c_stored c)) as [Hs|Hs].
    - pose proof (N.div_mod' k pp). pose proof (N.mod_lt k pp ltac:(lia)).
      destruct (page_exists (k / pp) ltac:(nia)) as [p Hg].
      replace k with (k / pp * pp + k mod pp) by lia.
      rewrite (page_view (k / pp) p (k mod pp) Hg) by lia.
      destruct (page_covers (k / pp) p (k + 1) Hg ltac:(lia) ltac:(nia)) as (Hc & _ & _).
      destruct (get_some (pg_vals p) (k mod pp)) as [x ->]; [lia|discriminate].
    - unfold cview. replace (k <? c_stored c) with false by lia. rewrite nth_n_get.
      destruct (get_some (c_pushed c) (k - c_stored c)) as [x ->]; [lia|discriminate].
  Qed.
  Lemma cview_out k : clen c <= k -> cview c k = None.
  Proof.
    intros Hk. unfold cview, clen in *. replace (k <? c_stored c) with false by lia.
    rewrite nth_n_get. apply get_none. lia.
  Qed.
End Pages.

(* ------------------------------------------------------------------ cursor, sorted reads and CachedVec over a
   compressed vector: instances of the generic theorems (no deleted slots exist here) *)
Section CompGeneric.
  Variable c : cstate.
  Hypothesis W : cwf c.
  Lemma comp_read : forall f t,
    goodP (in_cregion c) (v_read_into (comp_rvec c) f t)
      (flat_map (E (cview c)) (seqN (N.min f (v_len (comp_rvec c)))
         (N.to_nat (N.min t (v_len (comp_rvec c)) - N.min f (v_len (comp_rvec c)))))).
  Proof. intros f t. apply (cread_into_at_good c W f t). Qed.
  Ltac comp_hyps := first [exact (cview_full c W) | exact (cview_out c) | exact comp_read].

  Theorem comp_read_sorted idx :
    exists a, read_sorted (comp_rvec c) idx = (ROk (flat_map (fun i => opt_list (cview c i)) idx), a)
              /\ Forall (in_cregion c) a.
  Proof. eapply (read_sorted_spec (comp_rvec c) (cview c) (in_cregion c)); comp_hyps. Qed.
  Theorem comp_cursor_get cu i : Inv (comp_rvec c) (cview c) cu ->
    exists cu' a, cursor_get (comp_rvec c) cu i = (COpt (cview c i), cu', a)
      /\ Inv (comp_rvec c) (cview c) cu' /\ cu_pos cu' = cu_pos cu /\ Forall (in_cregion c) a.
  Proof. intros I. eapply (cursor_get_spec (comp_rvec c) (cview c) (in_cregion c)); try comp_hyps. exact I. Qed.
  Theorem comp_cursor_fold k : clen c <= u64_max ->
    exists cu' a, cursor_fold (comp_rvec c) cursor_new k = (CList (cexpected c 0 k), cu', a)
      /\ cu_pos cu' = N.min k (clen c) /\ Forall (in_cregion c) a.
  Proof.
    intros H.
    edestruct (cursor_fold_spec (comp_rvec c) (cview c) (in_cregion c)) with (c := cursor_new) (k := k)
      as (cu' & a & E1 & _ & Hp & F); try comp_hyps;
      [eapply (Inv_new (comp_rvec c) (cview c)); comp_hyps|cbn; lia|exact H|].
    cbn [cu_pos cursor_new] in *.
    assert (Ht : N.min (sat_add 0 k) (v_len (comp_rvec c)) = N.min k (clen c)).
    { unfold sat_add, comp_rvec, v_len. lia. }
    rewrite Ht in *. exists cu', a. split; [|auto].
    rewrite E1. rewrite cexpected_eq. do 2 f_equal.
    replace (N.min 0 (clen c)) with 0 by lia. now rewrite N.sub_0_r.
  Qed.
  Theorem comp_cached_fresh from to :
    exists d a, materialize (comp_rvec c) None = (ROk d, Some (clen c, d), a) /\ Forall (in_cregion c) a
      /\ cached_fold d from to = cexpected c from to /\ cached_read_into d from to = cexpected c from to.
  Proof.
    edestruct (materialize_fresh (comp_rvec c) (cview c) (in_cregion c)) as (a & M & F); try comp_hyps.
    exists (data (comp_rvec c) (cview c)), a. split; [exact M|]. split; [exact F|]. split.
    - erewrite (cached_fold_fresh (comp_rvec c) (cview c)); try comp_hyps. apply cexpected_eq.
    - erewrite (cached_read_into_fresh (comp_rvec c) (cview c)); try comp_hyps. apply cexpected_eq.
  Qed.
End CompGeneric.
