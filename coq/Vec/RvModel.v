(* Vec/RvModel.v — executable model of ReadWriteRawVec (BytesVec / ZeroCopyVec and EagerVec
   wrappers of them), everything except rollback.  MODEL file: definitions only.
   Transcribed branch for branch from
     crates/vecdb/src/variants/raw/inner/read_write/mod.rs          (import_with, update_at, delete_at, take_at,
                                                                   fill_first_hole_or_push, truncate_dirty_at, get_any_or_read_at)
     crates/vecdb/src/variants/raw/inner/read_write/any_stored_vec.rs (write)
     crates/vecdb/src/variants/raw/inner/read_write/writable.rs     (truncate_if_needed_at, reset, reset_unsaved)
     crates/vecdb/src/base/read_write.rs                            (truncate_pushed, reset_base, write_header_if_needed)
     crates/vecdb/src/base/header/mod.rs                            (update_stamp / modified)
   over the abstract rawdb of Vec/RegionSpec.v (value-level view of the main region: RvBase.vreg). *)
From Anydb Require Import Common.Base Common.LE Vec.RegionSpec Vec.RvBase Vec.RvChange.

Section RV.
Context {T : Type} (tsize : N) (enc : T -> list N) (dec : list N -> T).

(* the value of never-written reserved bytes (fresh file space is zero) *)
Definition zero_val : T := dec (repeat 0 (N.to_nat tsize)).

Record rv := mkRv {
  reg : vreg T;                 (* main region after the header: valid values + stale tail *)
  hdr_disk : N;                 (* stamp field of the header bytes on disk *)
  stored_len : N;
  pushed : list T; prev_pushed : list T;
  prev_stored_len : N;
  holes : nset; prev_holes : nset;
  updated : nmap T; prev_updated : nmap T;
  has_stored_holes : bool;
  holes_region : option (list N);   (* region "<name>_holes": the usize values it stores *)
  stamp : N; hdr_modified : bool;
  changes : cdir;
  k : N;                        (* saved_stamped_changes *)
  stale_reads : N               (* ghost: number of reads that went behind the valid region length *)
}.

Definition disk (s : rv) : list T := vr_disk (reg s).
Definition real_stored_len (s : rv) : N := vr_len (reg s).
Definition rlen (s : rv) : N := stored_len s + len (pushed s).     (* AnyVec::len, base/read_write.rs:94 *)

(* functional record update helpers *)
Definition set_reg r (s : rv) := mkRv r (hdr_disk s) (stored_len s) (pushed s) (prev_pushed s) (prev_stored_len s) (holes s) (prev_holes s) (updated s) (prev_updated s) (has_stored_holes s) (holes_region s) (stamp s) (hdr_modified s) (changes s) (k s) (stale_reads s).
Definition set_stored_len n (s : rv) := mkRv (reg s) (hdr_disk s) n (pushed s) (prev_pushed s) (prev_stored_len s) (holes s) (prev_holes s) (updated s) (prev_updated s) (has_stored_holes s) (holes_region s) (stamp s) (hdr_modified s) (changes s) (k s) (stale_reads s).
Definition set_pushed p (s : rv) := mkRv (reg s) (hdr_disk s) (stored_len s) p (prev_pushed s) (prev_stored_len s) (holes s) (prev_holes s) (updated s) (prev_updated s) (has_stored_holes s) (holes_region s) (stamp s) (hdr_modified s) (changes s) (k s) (stale_reads s).
Definition set_prev_pushed p (s : rv) := mkRv (reg s) (hdr_disk s) (stored_len s) (pushed s) p (prev_stored_len s) (holes s) (prev_holes s) (updated s) (prev_updated s) (has_stored_holes s) (holes_region s) (stamp s) (hdr_modified s) (changes s) (k s) (stale_reads s).
Definition set_prev_stored_len n (s : rv) := mkRv (reg s) (hdr_disk s) (stored_len s) (pushed s) (prev_pushed s) n (holes s) (prev_holes s) (updated s) (prev_updated s) (has_stored_holes s) (holes_region s) (stamp s) (hdr_modified s) (changes s) (k s) (stale_reads s).
Definition set_holes h (s : rv) := mkRv (reg s) (hdr_disk s) (stored_len s) (pushed s) (prev_pushed s) (prev_stored_len s) h (prev_holes s) (updated s) (prev_updated s) (has_stored_holes s) (holes_region s) (stamp s) (hdr_modified s) (changes s) (k s) (stale_reads s).
Definition set_prev_holes h (s : rv) := mkRv (reg s) (hdr_disk s) (stored_len s) (pushed s) (prev_pushed s) (prev_stored_len s) (holes s) h (updated s) (prev_updated s) (has_stored_holes s) (holes_region s) (stamp s) (hdr_modified s) (changes s) (k s) (stale_reads s).
Definition set_updated u (s : rv) := mkRv (reg s) (hdr_disk s) (stored_len s) (pushed s) (prev_pushed s) (prev_stored_len s) (holes s) (prev_holes s) u (prev_updated s) (has_stored_holes s) (holes_region s) (stamp s) (hdr_modified s) (changes s) (k s) (stale_reads s).
Definition set_prev_updated u (s : rv) := mkRv (reg s) (hdr_disk s) (stored_len s) (pushed s) (prev_pushed s) (prev_stored_len s) (holes s) (prev_holes s) (updated s) u (has_stored_holes s) (holes_region s) (stamp s) (hdr_modified s) (changes s) (k s) (stale_reads s).
Definition set_hsh b (s : rv) := mkRv (reg s) (hdr_disk s) (stored_len s) (pushed s) (prev_pushed s) (prev_stored_len s) (holes s) (prev_holes s) (updated s) (prev_updated s) b (holes_region s) (stamp s) (hdr_modified s) (changes s) (k s) (stale_reads s).
Definition set_holes_region r (s : rv) := mkRv (reg s) (hdr_disk s) (stored_len s) (pushed s) (prev_pushed s) (prev_stored_len s) (holes s) (prev_holes s) (updated s) (prev_updated s) (has_stored_holes s) r (stamp s) (hdr_modified s) (changes s) (k s) (stale_reads s).
Definition set_hdr (d : N) (st : N) (m : bool) (s : rv) := mkRv (reg s) d (stored_len s) (pushed s) (prev_pushed s) (prev_stored_len s) (holes s) (prev_holes s) (updated s) (prev_updated s) (has_stored_holes s) (holes_region s) st m (changes s) (k s) (stale_reads s).
Definition set_changes c (s : rv) := mkRv (reg s) (hdr_disk s) (stored_len s) (pushed s) (prev_pushed s) (prev_stored_len s) (holes s) (prev_holes s) (updated s) (prev_updated s) (has_stored_holes s) (holes_region s) (stamp s) (hdr_modified s) c (k s) (stale_reads s).
Definition add_stale n (s : rv) := mkRv (reg s) (hdr_disk s) (stored_len s) (pushed s) (prev_pushed s) (prev_stored_len s) (holes s) (prev_holes s) (updated s) (prev_updated s) (has_stored_holes s) (holes_region s) (stamp s) (hdr_modified s) (changes s) (k s) (stale_reads s + n).

(* first import of a fresh name: base/read_write.rs:35-66 (region created, header written with
   Stamp::default()), raw/.../mod.rs:77-121 *)
Definition rv_init (k0 : N) : rv :=
  mkRv (mkVreg [] []) 0 0 [] [] 0 [] [] [] [] false None 0 false None k0 0.

(* header/mod.rs:44 update_stamp *)
Definition update_stamp (st : N) (s : rv) : rv :=
  if stamp s =? st then s else set_hdr (hdr_disk s) st true s.
(* base/read_write.rs:133 write_header_if_needed; header/inner.rs:30 write = region.write_at(bytes, 0):
   never out of bounds (0 <= len) *)
Definition write_header_if_needed (s : rv) : rv :=
  if hdr_modified s then set_hdr (stamp s) (stamp s) false s else s.

(* unchecked_read_at (mod.rs:211): pointer arithmetic, no bounds check *)
Definition phys_read (s : rv) (i : N) : T := vr_read zero_val (reg s) i.
Definition is_stale (s : rv) (i : N) : N := if i <? real_stored_len s then 0 else 1.

(* mod.rs:260 get_any_or_read_at; second component: 1 if the read went behind the valid length *)
Definition get_any_or_read_at (s : rv) (i : N) : option T * N :=
  if negb (match holes s with [] => true | _ => false end) && ns_mem i (holes s) then (None, 0)
  else if stored_len s <=? i then (get (pushed s) (i - stored_len s), 0)
  else match nm_get i (updated s) with
       | Some v => (Some v, 0)
       | None => (Some (phys_read s i), is_stale s i)
       end.

(* the logical view: collect_holed (mod.rs:280) *)
Definition view_at (s : rv) (i : N) : option T := fst (get_any_or_read_at s i).
Definition view (s : rv) : list (option T) := map (view_at s) (seqN 0 (N.to_nat (rlen s))).

(* WritableVec::push, writable.rs:14 *)
Definition rv_push (v : T) (s : rv) : rv := set_pushed (pushed s ++ [v]) s.

(* mod.rs:406 truncate_dirty_at: split_off(&index) when the last (largest) key is >= index.
   On a BTreeSet/BTreeMap that is the same as keeping the keys < index (when no key is >= index
   the filter is the identity), which is how it is written here. *)
Definition truncate_dirty_at (index : N) (s : rv) : rv :=
  set_updated (nm_below index (updated s)) (set_holes (ns_below index (holes s)) s).

(* base/read_write.rs:198 truncate_pushed *)
Definition truncate_pushed (index : N) (s : rv) : rv * bool :=
  let sl := stored_len s in
  let l := sl + len (pushed s) in
  if l <=? index then (s, false)
  else
    let s' := if index <=? sl then set_pushed [] s else set_pushed (take (index - sl) (pushed s)) s in
    (s', index <? sl).

(* writable.rs:23 truncate_if_needed_at *)
Definition rv_truncate (index : N) (s : rv) : rv :=
  let s1 := truncate_dirty_at index s in
  let '(s2, upd) := truncate_pushed index s1 in
  if upd then set_stored_len index s2 else s2.

(* mod.rs:306 update_at *)
Definition rv_update_at (index : N) (v : T) (s : rv) : rv * res verr unit :=
  let sl := stored_len s in
  if sl <=? index then
    match get (pushed s) (index - sl) with
    | None => (s, Err EIndexTooHigh)
    | Some _ =>
      let s0 := set_pushed (set_nth (pushed s) (N.to_nat (index - sl)) v) s in
      (* mod.rs:321-324 (fix 008f3d2): like the stored branch, an updated slot is no longer deleted *)
      (match holes s0 with [] => s0 | _ => set_holes (ns_remove index (holes s0)) s0 end, Ok tt)
    end
  else
    let s1 := match holes s with [] => s | _ => set_holes (ns_remove index (holes s)) s end in
    (set_updated (nm_insert index v (updated s1)) s1, Ok tt).

(* mod.rs:350 unchecked_delete_at *)
Definition unchecked_delete_at (index : N) (s : rv) : rv :=
  let s1 := match updated s with [] => s | _ => set_updated (nm_remove index (updated s)) s end in
  set_holes (ns_insert index (holes s1)) s1.
(* mod.rs:336 delete_at *)
Definition rv_delete_at (index : N) (s : rv) : rv :=
  if index <? rlen s then unchecked_delete_at index s else s.

(* mod.rs:380 take_at *)
Definition rv_take_at (index : N) (s : rv) : rv * option T :=
  let '(o, st) := get_any_or_read_at s index in
  let s0 := add_stale st s in
  match o with
  | Some _ => (unchecked_delete_at index s0, o)
  | None => (s0, None)
  end.

(* mod.rs:367 fill_first_hole_or_push: pop_first, then update(hole, value)? *)
Definition rv_fill (v : T) (s : rv) : rv * res verr N :=
  match ns_min (holes s) with
  | Some h =>
    let s1 := set_holes (ns_remove h (holes s)) s in
    let '(s2, r) := rv_update_at h v s1 in
    match r with Ok _ => (s2, Ok h) | Err e => (s2, Err e) | Panic => (s2, Panic) end
  | None =>
    let s1 := set_pushed (pushed s ++ [v]) s in (s1, Ok (rlen s1 - 1))
  end.

(* base/read_write.rs:215 reset_base (fs::remove_dir_all of the changes directory if it exists) *)
Definition reset_base (s : rv) : rv :=
  let s1 := set_prev_pushed [] (set_pushed [] s) in
  let s2 := set_prev_stored_len 0 (set_stored_len 0 s1) in
  set_changes None (update_stamp 0 s2).
(* writable.rs:33 reset *)
Definition rv_reset (s : rv) : rv :=
  let s1 := set_prev_holes [] (set_holes [] s) in
  let s2 := set_prev_updated [] (set_updated [] s1) in
  reset_base (rv_truncate 0 s2).
(* writable.rs:40 reset_unsaved *)
Definition rv_reset_unsaved (s : rv) : rv :=
  let s1 := set_pushed [] s in
  let s2 := set_prev_holes [] (set_holes [] s1) in
  set_prev_updated [] (set_updated [] s2).

(* ---- write(), any_stored_vec.rs:50-165 ------------------------------------------------------ *)
(* the `expanded` loop: region.write_at per entry, `?` on the first failure; the map was already
   taken out of the vector (take_current), so the remaining entries are dropped with it *)
Fixpoint write_at_each (r : vreg T) (l : list (N * T)) : vreg T * bool :=   (* false = Err WriteOutOfBounds *)
  match l with
  | [] => (r, true)
  | (i, v) :: t => match vr_write_at r i [v] with None => (r, false) | Some r' => write_at_each r' t end
  end.
(* region.rs:71 batch_write_each: assert!(end_offset <= region_len) per entry, then in-place write *)
Fixpoint batch_write_each (r : vreg T) (l : list (N * T)) : option (vreg T) :=     (* None = panic *)
  match l with
  | [] => Some r
  | (i, v) :: t =>
    if i <? vr_len r then
      match vr_write_at r i [v] with None => None | Some r' => batch_write_each r' t end
    else None
  end.

(* any_stored_vec.rs:71-85 (repair of findings 3/4): when `expanded` (stored_len above the on-disk length,
   the state a rollback of a truncating commit leaves), ONE contiguous truncate_write at real_stored_len of
   updated[i] for i in real_stored_len..stored_len — SIZE_OF_T zero bytes ([zero_val]) for an index that is
   not in `updated` (a deleted slot).  Afterwards the region backs every stored slot. *)
Definition extend_vals (s : rv) : list T :=
  map (fun i => match nm_get i (updated s) with Some v => v | None => zero_val end)
      (seqN (real_stored_len s) (N.to_nat (stored_len s - real_stored_len s))).
Definition write_extend (s : rv) : rv * option verr :=
  if real_stored_len s <? stored_len s then                              (* expanded *)
    match vr_truncate_write (reg s) (real_stored_len s) (extend_vals s) with
    | None => (s, Some EWriteOutOfBounds)                                (* `?` *)
    | Some r' => (set_reg r' s, None)
    end
  else (s, None).

(* any_stored_vec.rs:87-116: the pushed values / the truncation.  [truncated] is computed by the code before
   the extension step; an expanded state is not truncated before it and has stored_len = real_stored_len
   after it, so recomputing it here on the extended state gives the same boolean *)
Definition write_data (s : rv) : rv * option verr :=
  let sl := stored_len s in
  let pushed_len := len (pushed s) in
  let truncated := sl <? real_stored_len s in
  let has_new_data := negb (pushed_len =? 0) in
  if has_new_data then
    let taken := pushed s in
    let s1 := set_pushed [] s in                                         (* mem::take BEFORE the fallible call *)
    match vr_truncate_write (reg s1) sl taken with
    | None => (s1, Some EWriteOutOfBounds)
    | Some r' => (set_stored_len (sl + pushed_len) (set_reg r' s1), None)
    end
  else if truncated then
    match vr_truncate (reg s) sl with
    | None => (s, Some ETruncateInvalid)
    | Some r' => (set_reg r' s, None)
    end
  else (s, None).

(* any_stored_vec.rs:118-142: the updates; [expanded] was computed before write_extend / write_data
   (since the repair every entry of the expanded loop is in bounds: the region was extended first) *)
Definition write_updates (expanded : bool) (s1 : rv) : rv * res verr unit :=
  match updated s1 with
  | [] => (s1, Ok tt)
  | upd =>
    let s2 := set_updated [] s1 in                                       (* take_current *)
    if expanded then
      match write_at_each (reg s2) upd with
      | (r', false) => (set_reg r' s2, Err EWriteOutOfBounds)     (* the entries written so far stay written *)
      | (r', true) => (set_reg r' s2, Ok tt)
      end
    else
      match batch_write_each (reg s2) upd with
      | None => (s2, Panic)
      | Some r' => (set_reg r' s2, Ok tt)
      end
  end.

(* any_stored_vec.rs:144-162: the holes region *)
Definition write_holes (had_holes : bool) (s2 : rv) : rv * res verr bool :=
  match holes s2 with
  | _ :: _ =>
    (* create_region_if_needed, then truncate_write(0, bytes): cannot fail in the abstract db *)
    (set_holes_region (Some (holes s2)) (set_hsh true s2), Ok true)
  | [] =>
    if had_holes then
      let s3 := set_hsh false s2 in
      match holes_region s3 with
      | None => (s3, Err ERegionNotFound)                                  (* db.remove_region -> RegionNotFound *)
      | Some _ => (set_holes_region None s3, Ok true)
      end
    else (s2, Ok true)
  end.

Definition rv_write (s0 : rv) : rv * res verr bool :=
  let s := write_header_if_needed s0 in                                   (* :51 *)
  let sl := stored_len s in
  let real := real_stored_len s in
  let truncated := sl <? real in
  let expanded := real <? sl in
  let has_new_data := negb (len (pushed s) =? 0) in
  let has_updated_data := match updated s with [] => false | _ => true end in
  let has_holes := match holes s with [] => false | _ => true end in
  let had_holes := has_stored_holes s in
  if negb truncated && negb expanded && negb has_new_data && negb has_updated_data && negb has_holes && negb had_holes
  then (s, Ok false)                                                       (* :66-69 *)
  else
  match write_extend s with                                                (* :71-85 *)
  | (se, Some e) => (se, Err e)                                            (* `?` *)
  | (se, None) =>
    match write_data se with
    | (s1, Some e) => (s1, Err e)                                          (* `?` *)
    | (s1, None) =>
      match write_updates expanded s1 with
      | (s2, Err e) => (s2, Err e)
      | (s2, Panic) => (s2, Panic)
      | (s2, Ok _) => write_holes had_holes s2
      end
    end
  end.

(* ---- re-import of an existing vector: raw/.../mod.rs:77-121, base/read_write.rs:35-66,
   header/inner.rs:35 import_and_verify (same version and format: the stamp comes from disk).
   Everything in memory is dropped; nothing is written. *)
Definition rv_reimport (s : rv) : rv :=
  let hs := match holes_region s with Some l => ns_of_list l | None => [] end in
  let real := real_stored_len s in
  mkRv (reg s) (hdr_disk s) real [] [] real hs hs [] []
       (match holes_region s with Some _ => true | None => false end) (holes_region s)
       (hdr_disk s) false (changes s) (k s) (stale_reads s).
End RV.
