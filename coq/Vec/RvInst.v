(* Vec/RvInst.v — instantiation of the raw-vector model for fixed-width little-endian elements
   (u8/u16/u32/u64/i64 as bit patterns, [u8; w] as the LE number of its bytes), used by the
   extraction (engine `rawvec`) and by the vm_compute witnesses. *)
From Anydb Require Import Common.Base Common.LE Vec.RegionSpec Vec.RvBase Vec.RvChange Vec.RvModel
  Vec.RvRollback Vec.RvSpec.

Definition w_size (w : nat) : N := N.of_nat w.
Definition w_enc (w : nat) (v : N) : list N := le_enc w v.
Definition w_dec (bs : list N) : N := le_dec bs.

Definition w_rv := @rv N.
Definition w_op := @op N.
Definition w_init (k0 : N) : w_rv := rv_init k0.
Definition w_step (w : nat) (s : w_rv) (o : w_op) : w_rv * @ores N := step (w_size w) (w_enc w) w_dec s o.
Definition w_view (w : nat) (s : w_rv) : list (option N) := view (w_size w) w_dec s.
Definition w_run (w : nat) (s : w_rv) (h : list w_op) : w_rv := run (w_size w) (w_enc w) w_dec s h.
Definition w_parse (w : nat) (bs : list N) := parse_raw_change_data (w_size w) w_dec bs.
Definition w_serialize (w : nat) (r : @crecord N) : list N := serialize_record (w_enc w) r.

Definition w_sv := sv N.
Definition w_sinit (k0 : N) : w_sv := sv_init k0.
Definition w_sstep (a : w_sv) (o : w_op) : w_sv * @ores N := sstep a o.

(* u64 *)
Definition u64_step := w_step 8.
Definition u64_view := w_view 8.
Definition u64_run := w_run 8.
