(* Vec/RvChain.v — the unbounded commit / rollback proof for raw vectors (code as of 397122a + the repair of write()
   for stored_len above the on-disk length).
   Ghost levels: one per retained snapshot, carrying the UNDERLYING values (also under deleted slots),
   the deleted set, the stamp and the lowest stored length a representative may have.  A change record
   is correct (RecOK) when it carries exactly what separates two adjacent levels.  PROOF file. *)
From Anydb Require Import Common.Base Common.LE Vec.RegionSpec Vec.RvBase Vec.RvChange Vec.RvChangeProofs
  Vec.RvModel Vec.RvRollback Vec.RvSpec Vec.RvRollbackProofs Vec.RvRefine.

Local Arguments ns_mem : simpl never.
Local Arguments nm_get : simpl never.

(* ---- small lemmas ------------------------------------------------------------------------------------ *)
Section AUX.
Context {T : Type}.
Lemma nm_get_insert_run (vals : list T) : forall start (m : nmap T) i,
  nm_get i (insert_run start vals m) =
  if (start <=? i) && (i <? start + len vals) then get vals (i - start) else nm_get i m.
Proof.
  induction vals as [|v t IH]; intros start m i; cbn [insert_run].
  - rewrite len_nil. destruct ((start <=? i) && (i <? start + 0)) eqn:E; [lia|reflexivity].
  - rewrite IH, nm_get_insert, len_cons.
    destruct (start + 1 <=? i) eqn:E1, (i <? start + 1 + len t) eqn:E2; cbn [andb].
    + destruct (start <=? i) eqn:E3; [|lia]. destruct (i <? start + (1 + len t)) eqn:E4; [|lia]. cbn [andb].
      rewrite !get_nth_error. replace (N.to_nat (i - start)) with (S (N.to_nat (i - (start + 1)))) by lia. reflexivity.
    + destruct (i =? start) eqn:E5; [lia|]. destruct (i <? start + (1 + len t)) eqn:E4; [lia|]. now rewrite andb_false_r.
    + destruct (i =? start) eqn:E5.
      * apply N.eqb_eq in E5. subst. destruct (start <=? start) eqn:E3; [|lia].
        destruct (start <? start + (1 + len t)) eqn:E4; [|lia]. cbn [andb]. now rewrite N.sub_diag.
      * destruct (start <=? i) eqn:E3; [lia|]. reflexivity.
    + destruct (i =? start) eqn:E5.
      * apply N.eqb_eq in E5. subst. destruct (start <=? start) eqn:E3; [|lia].
        destruct (start <? start + (1 + len t)) eqn:E4; [|lia]. cbn [andb]. now rewrite N.sub_diag.
      * destruct (start <=? i) eqn:E3; [lia|]. reflexivity.
Qed.
Lemma get_in {A} (l : list A) n x : get l n = Some x -> In x l.
Proof. rewrite get_nth_error. apply nth_error_In. Qed.
Lemma in_get {A} (l : list A) x : In x l -> exists n, get l n = Some x.
Proof.
  intros H. apply In_nth_error in H as [n Hn]. exists (N.of_nat n). rewrite get_nth_error, Nat2N.id. exact Hn.
Qed.
Lemma get_combine {A B} (a : list A) (b : list B) n x y : get a n = Some x -> get b n = Some y -> get (combine a b) n = Some (x, y).
Proof.
  rewrite !get_nth_error. generalize (N.to_nat n) as k. revert b; induction a as [|p a IH]; intros [|q b] [|k]; cbn; try discriminate.
  - intros [= ->] [= ->]. reflexivity.
  - apply IH.
Qed.
Lemma in_combine_get {A B} (a : list A) (b : list B) x y : In (x, y) (combine a b) -> exists n, get a n = Some x /\ get b n = Some y.
Proof.
  revert b; induction a as [|p a IH]; intros b H; destruct b as [|q b]; cbn [combine In] in H; try contradiction.
  destruct H as [[= -> ->]|H]; [exists 0; auto|]. destruct (IH _ H) as (n & H1 & H2). exists (n + 1).
  rewrite !get_nth_error in *. replace (N.to_nat (n + 1)) with (S (N.to_nat n)) by lia. auto.
Qed.
End AUX.

Section CH.
Context {T : Type} (tsize : N) (enc : T -> list N) (dec : list N -> T).
Hypothesis tsize_pos : 0 < tsize.
Hypothesis enc_len : forall v, len (enc v) = tsize.
Hypothesis dec_enc : forall v, dec (enc v) = v.
Notation rv := (@rv T).
Notation view_at := (view_at tsize dec).
Notation phys_read := (phys_read tsize dec).
Notation uopt := (uopt tsize dec).
Notation R := (@R T tsize dec).

(* ---- ghosts ------------------------------------------------------------------------------------------ *)
Record ghost := mkG { gU : list T; gH : nset; gst : N; glo : N }.
Definition g_wf (g : ghost) : Prop := forall i, ns_mem i (gH g) = true -> i < len (gU g).
Definition mview (g : ghost) (i : N) : option T := if ns_mem i (gH g) then None else get (gU g) i.
Definition g_snap (g : ghost) (S : snapshot T) : Prop :=
  sn_stamp S = gst g /\ len (sn_contents S) = len (gU g) /\
  forall i, i < len (gU g) -> get (sn_contents S) i = Some (mview g i).

(* the committed baseline of a state: prev_updated over the disk *)
Definition pu (s : rv) (i : N) : T := match nm_get i (prev_updated s) with Some v => v | None => phys_read s i end.
Definition BaseRep (s : rv) (g : ghost) : Prop :=
  prev_pushed s = [] /\ prev_stored_len s = len (gU g) /\
  (forall i, i < len (gU g) -> get (gU g) i = Some (pu s i)) /\
  (forall i, ns_mem i (prev_holes s) = ns_mem i (gH g)) /\
  glo g <= prev_stored_len s /\
  (forall i, nm_get i (prev_updated s) <> None -> i < prev_stored_len s) /\
  g_wf g /\ stamp s = gst g.
(* nothing was edited since the baseline was taken *)
Definition Clean (s : rv) : Prop :=
  prev_stored_len s = stored_len s /\ pushed s = [] /\ prev_holes s = holes s /\ prev_updated s = updated s.

(* after a rollback made the vector longer than the region, the part of the baseline behind the region's end is
   in prev_updated (the record of the truncating commit carried it); edits never touch prev_updated *)
Definition Over (s : rv) : Prop :=
  forall i, real_stored_len s <= i -> i < stored_len s -> nm_get i (prev_updated s) <> None.

(* a record that leads from level gc back to level gp *)
Definition RecOK (r : @crecord T) (gp gc : ghost) : Prop :=
  r_stamp r = gst gp /\ r_prev_stored_len r = len (gU gp) /\ r_prev_pushed r = [] /\
  len (r_trunc r) <= r_prev_stored_len r /\ glo gc = r_prev_stored_len r - len (r_trunc r) /\
  (forall j, j < len (r_trunc r) -> get (r_trunc r) j = get (gU gp) (glo gc + j)) /\
  len (r_mod_idx r) = len (r_mod_vals r) /\
  (forall n i, get (r_mod_idx r) n = Some i -> i < r_prev_stored_len r /\ get (r_mod_vals r) n = get (gU gp) i) /\
  (forall i, ns_mem i (ns_of_list (r_prev_holes r)) = ns_mem i (gH gp)) /\
  (forall i, i < glo gc -> ~ In i (r_mod_idx r) -> get (gU gc) i = get (gU gp) i) /\
  glo gp <= r_prev_stored_len r /\ g_wf gp.

(* ---- apply_mods on stored indices ------------------------------------------------------------------- *)
Lemma apply_mods_stored (mods : list (N * T)) : forall (s : rv),
  (forall m, In m mods -> fst m < stored_len s) ->
  exists s', apply_mods mods s = (s', Ok tt) /\
    stored_len s' = stored_len s /\ pushed s' = pushed s /\ reg s' = reg s /\
    hdrf s' = hdrf s /\ holef s' = holef s /\ prevf s' = prevf s /\
    (forall i, ~ In i (map fst mods) -> nm_get i (updated s') = nm_get i (updated s)) /\
    (forall i, In i (map fst mods) -> exists v, In (i, v) mods /\ nm_get i (updated s') = Some v) /\
    (holes s = [] -> holes s' = []).
Proof.
  induction mods as [|[i v] t IH]; intros s H; cbn [apply_mods].
  - exists s. repeat split; auto. intros i [].
  - assert (Hi : i < stored_len s) by (apply (H (i, v)); now left).
    unfold rv_update_at. destruct (stored_len s <=? i) eqn:E; [lia|].
    set (s1 := match holes s with [] => s | _ :: _ => set_holes (ns_remove i (holes s)) s end).
    set (s2 := set_updated (nm_insert i v (updated s1)) s1).
    assert (F : stored_len s2 = stored_len s /\ pushed s2 = pushed s /\ reg s2 = reg s /\ hdrf s2 = hdrf s /\
                holef s2 = holef s /\ prevf s2 = prevf s /\ updated s2 = nm_insert i v (updated s) /\ (holes s = [] -> holes s2 = [])).
    { unfold s2, s1. destruct (holes s) eqn:Eh; cbn; repeat split; auto. discriminate. }
    destruct F as (F1 & F2 & F3 & F4 & F5 & F6 & F7 & F8). clearbody s2. clear s1.
    destruct (IH s2) as (s' & -> & G1 & G2 & G3 & G4 & G5 & G6 & G7 & G8 & G9).
    { intros m Hm. rewrite F1. apply H. now right. }
    exists s'. split; [reflexivity|]. repeat split; try congruence.
    + intros j Hj. cbn [map fst In] in Hj. rewrite G7 by tauto. rewrite F7, nm_get_insert.
      destruct (j =? i) eqn:Ej; [apply N.eqb_eq in Ej; subst; tauto|reflexivity].
    + intros j Hj. cbn [map fst In] in Hj.
      destruct (in_dec N.eq_dec j (map fst t)) as [Hin|Hnin].
      * destruct (G8 j Hin) as (w & Hw & Hg). exists w. split; [now right|exact Hg].
      * destruct Hj as [<-|Hj]; [|tauto]. exists v. split; [now left|]. rewrite G7 by exact Hnin.
        rewrite F7, nm_get_insert, N.eqb_refl. reflexivity.
    + intros Hh. apply G9. apply F8. exact Hh.
Qed.

Lemma NoDup_insert_run (vals : list T) : forall start (m : nmap T), NoDup (nm_keys m) -> NoDup (nm_keys (insert_run start vals m)).
Proof. induction vals; intros; cbn [insert_run]; auto. apply IHvals. now apply NoDup_keys_insert. Qed.

Lemma apply_mods_NoDup (mods : list (N * T)) : forall (s : rv),
  (forall m, In m mods -> fst m < stored_len s) -> NoDup (nm_keys (updated s)) -> NoDup (nm_keys (updated (fst (apply_mods mods s)))).
Proof.
  induction mods as [|[i v] t IH]; intros s H Hd; cbn [apply_mods]; [exact Hd|].
  assert (Hi : i < stored_len s) by (apply (H (i, v)); now left).
  unfold rv_update_at. destruct (stored_len s <=? i) eqn:E; [lia|].
  set (s1 := match holes s with [] => s | _ :: _ => set_holes (ns_remove i (holes s)) s end).
  assert (F : stored_len s1 = stored_len s /\ updated s1 = updated s) by (unfold s1; destruct (holes s); auto).
  destruct F as [F1 F2]. clearbody s1.
  specialize (IH (set_updated (nm_insert i v (updated s1)) s1)).
  destruct (apply_mods t _) as [s' r] eqn:Ea. destruct r as [[]|e|]; cbn [fst] in *; apply IH; cbn;
    try (intros m Hm; rewrite F1; apply H; now right); try (rewrite F2; now apply NoDup_keys_insert).
Qed.

(* ---- the undo lemma: a correct record applied to a clean representative of level gc yields a clean
   representative of level gp --------------------------------------------------------------------------- *)
Definition final_of (s1 : rv) : rv := save_rollback_state s1.

Lemma undo_ok (s : rv) (r : @crecord T) gp gc :
  BaseRep s gc -> Clean s -> Over s -> RecOK r gp gc -> valid_record enc r ->
  exists s1, undo_changes tsize dec (serialize_record enc r) s = (s1, Ok tt) /\
    let s' := save_rollback_state s1 in
    BaseRep s' gp /\ Clean s' /\ rlen s' = len (gU gp) /\
    (forall i, i < len (gU gp) -> view_at s' i = mview gp i) /\
    changes s' = changes s /\ k s' = k s /\ reg s' = reg s /\ holef s' = holef s /\
    stored_len s' = len (gU gp) /\
    (hdr_modified s' = false -> hdr_disk s' = stamp s' \/ (hdr_modified s = false /\ hdr_disk s' = hdr_disk s /\ stamp s' = stamp s)) /\
    (NoDup (nm_keys (updated s)) -> NoDup (nm_keys (updated s'))) /\
    (forall i, nm_get i (updated s') <> None -> i < stored_len s') /\
    Over s'.
Proof.
  intros (B1 & B2 & B3 & B4 & B5 & B6 & B7 & B8) (C1 & C2 & C3 & C4) Hov
         (K1 & K2 & K3 & K4 & K5 & K6 & K7 & K8 & K9 & K10 & K11 & K12) Hv.
  unfold undo_changes. rewrite (parse_serialize tsize enc dec tsize_pos enc_len dec_enc r Hv).
  unfold project_record. cbn [rcd_base rcd_mods rcd_prev_holes cd_prev_stamp cd_prev_stored_len cd_trunc_start cd_trunc_vals cd_prev_pushed].
  set (psl := r_prev_stored_len r) in *. set (ts := psl - len (r_trunc r)) in *.
  assert (Hts : ts <= stored_len s) by lia.
  destruct (stored_len s <? ts) eqn:E1; [lia|]. rewrite K3, len_nil, N.add_0_r.
  assert (Hmods : forall m, In m (combine (r_mod_idx r) (r_mod_vals r)) -> fst m < psl).
  { intros [i v] Hm. destruct (in_combine_get _ _ _ _ Hm) as (n & H1 & H2). cbn. apply (K8 n i H1). }
  destruct (existsb (fun m => psl <=? fst m) (combine (r_mod_idx r) (r_mod_vals r))) eqn:E2.
  { apply existsb_exists in E2 as (m & Hm & Hle). specialize (Hmods m Hm). lia. }
  (* the state before the modifications are replayed *)
  set (s1 := if psl <? stored_len s then truncate_dirty_at psl s else s).
  match goal with |- context [apply_mods _ ?x] => set (s4 := x) end.
  assert (F4 : stored_len s4 = psl /\ pushed s4 = [] /\ prev_pushed s4 = [] /\ reg s4 = reg s /\ changes s4 = changes s /\ k s4 = k s /\
               holef s4 = holef s /\ stamp s4 = r_stamp r /\ hdr_disk s4 = hdr_disk s /\
               (hdr_modified s4 = false -> hdr_modified s = false /\ stamp s = r_stamp r) /\
               updated s4 = insert_run ts (r_trunc r) (updated s1) /\
               updated s1 = (if psl <? stored_len s then nm_below psl (updated s) else updated s) /\
               holes s4 = (if psl <? stored_len s then ns_below psl (holes s) else holes s) /\
               prev_holes s4 = prev_holes s).
  { unfold s4, s1, update_stamp. destruct (psl <? stored_len s); cbn;
      match goal with |- context [stamp ?x =? r_stamp r] => destruct (stamp x =? r_stamp r) eqn:Es end; cbn; repeat split; auto;
      try (apply N.eqb_eq in Es; cbn in Es; auto); try discriminate. }
  destruct F4 as (G1 & G2 & G3 & G4 & G5 & G6 & G7 & G8 & G9 & G10 & G11 & G12 & G13 & G14). clearbody s4.
  destruct (apply_mods_stored (combine (r_mod_idx r) (r_mod_vals r)) s4) as (s5 & Ha & H1 & H2 & H3 & H4 & H5 & H6 & H7 & H8 & H9).
  { intros m Hm. rewrite G1. now apply Hmods. }
  rewrite Ha. eexists. split; [reflexivity|]. cbv zeta.
  set (ph := ns_of_list (r_prev_holes r)) in *.
  match goal with |- context [if ?c then set_prev_holes ph (set_holes ph s5) else s5] =>
    set (s6 := if c then set_prev_holes ph (set_holes ph s5) else s5) end.
  assert (F6 : stored_len s6 = psl /\ pushed s6 = [] /\ reg s6 = reg s /\ changes s6 = changes s /\ k s6 = k s /\ holef s6 = holef s /\
               stamp s6 = r_stamp r /\ hdr_disk s6 = hdr_disk s /\ hdr_modified s6 = hdr_modified s4 /\ updated s6 = updated s5 /\
               (forall i, ns_mem i (holes s6) = ns_mem i ph)).
  { unfold hdrf, holef, prevf in *. injection H4 as A1 A2 A3. injection H5 as A4 A5. injection H6 as A6 A7 A8 A9 A10 A11.
    unfold s6. destruct (_ || _ || _) eqn:Eo; cbn; repeat split; try congruence.
    apply orb_false_iff in Eo as [Eo Eo3]. apply orb_false_iff in Eo as [Eo1 Eo2].
    assert (Hph : ph = []) by (destruct ph; [reflexivity|discriminate]).
    assert (Hh5 : holes s5 = []) by (destruct (holes s5); [reflexivity|discriminate]).
    intros i. now rewrite Hph, Hh5. }
  destruct F6 as (L1 & L2 & L3 & L4 & L5 & L6 & L7 & L8 & L9 & L10 & L11). clearbody s6.
  (* lookups in the final updated map *)
  assert (Upd : forall i, i < psl -> exists x, get (gU gp) i = Some x /\
                  (match nm_get i (updated s5) with Some v => v | None => phys_read s i end) = x).
  { intros i Hi. destruct (get_lt_some (gU gp) i) as [x Hx]; [unfold psl in Hi; lia|]. exists x. split; [exact Hx|].
    destruct (in_dec N.eq_dec i (map fst (combine (r_mod_idx r) (r_mod_vals r)))) as [Hin|Hnin].
    - destruct (H8 i Hin) as (v & Hvm & ->). destruct (in_combine_get _ _ _ _ Hvm) as (n & Hn1 & Hn2).
      destruct (K8 n i Hn1) as [_ Hg]. rewrite Hn2, Hx in Hg. now injection Hg.
    - rewrite H7 by exact Hnin. rewrite G11, nm_get_insert_run.
      destruct ((ts <=? i) && (i <? ts + len (r_trunc r))) eqn:Er.
      + apply andb_true_iff in Er as [Er1 Er2]. rewrite K6 by lia. rewrite K5. fold psl. fold ts.
        replace (ts + (i - ts)) with i by lia. now rewrite Hx.
      + assert (Hlt : i < ts) by (destruct (ts <=? i) eqn:Ea; [cbn in Er; lia|lia]).
        assert (Hu1 : nm_get i (updated s1) = nm_get i (updated s)).
        { rewrite G12. destruct (psl <? stored_len s); auto. rewrite nm_get_below. destruct (i <? psl) eqn:Eb; [reflexivity|lia]. }
        rewrite Hu1.
        assert (Hnot : ~ In i (r_mod_idx r)).
        { intros Hin. apply Hnin. apply in_get in Hin as [n Hn]. destruct (get_lt_some (r_mod_vals r) n) as [v Hvn].
          { rewrite <- K7. eapply get_len_some; eauto. }
          apply in_map_iff. exists (i, v). split; auto. eapply get_in. eapply get_combine; eauto. }
        pose proof (K10 i ltac:(rewrite K5; fold psl; fold ts; lia) Hnot) as Hun.
        rewrite Hx in Hun. rewrite (B3 i) in Hun by lia. injection Hun as Hun. rewrite <- Hun.
        unfold pu. now rewrite C4. }
  assert (Keys : forall i, nm_get i (updated s5) <> None -> i < psl).
  { intros i Hi. destruct (in_dec N.eq_dec i (map fst (combine (r_mod_idx r) (r_mod_vals r)))) as [Hin|Hnin].
    - apply in_map_iff in Hin as ([j v] & <- & Hm). now apply Hmods.
    - rewrite H7 in Hi by exact Hnin. rewrite G11, nm_get_insert_run in Hi.
      destruct ((ts <=? i) && (i <? ts + len (r_trunc r))) eqn:Er; [lia|].
      rewrite G12 in Hi. destruct (psl <? stored_len s) eqn:Eb.
      + rewrite nm_get_below in Hi. destruct (i <? psl) eqn:Ec; [lia|congruence].
      + assert (i < prev_stored_len s) by (apply B6; now rewrite C4). lia. }
  unfold save_rollback_state. cbn [stored_len pushed holes updated set_prev_updated set_prev_holes set_prev_pushed set_prev_stored_len].
  match goal with |- BaseRep ?x gp /\ _ => set (sf := x) end.
  assert (Ff : stored_len sf = psl /\ pushed sf = [] /\ prev_pushed sf = [] /\ prev_stored_len sf = psl /\ reg sf = reg s /\
               holes sf = holes s6 /\ prev_holes sf = holes s6 /\ updated sf = updated s5 /\ prev_updated sf = updated s5 /\
               stamp sf = r_stamp r /\ changes sf = changes s /\ k sf = k s /\ holef sf = holef s /\ hdr_disk sf = hdr_disk s /\
               hdr_modified sf = hdr_modified s4).
  { unfold sf, holef in *. cbn. repeat split; congruence. }
  destruct Ff as (M1 & M2 & M3 & M4 & M5 & M6 & M7 & M8 & M9 & M10 & M11 & M12 & M13 & M14 & M15). clearbody sf.
  assert (Pu : forall i, i < psl -> exists x, get (gU gp) i = Some x /\ pu sf i = x).
  { intros i Hi. destruct (Upd i Hi) as (x & Hx & He). exists x. split; auto. unfold pu, RvModel.phys_read in *. now rewrite M9, M5. }
  split; [|split; [|split; [|split; [|split; [|split; [|split; [|split; [|split; [|split; [|split; [|split]]]]]]]]]]].
  - unfold BaseRep. rewrite M3, M4, M7, M9, M10. fold psl in K2.
    split; [reflexivity|]. split; [exact K2|]. split.
    { intros i Hi. destruct (Pu i ltac:(lia)) as (x & Hx & He). rewrite Hx. now rewrite He. }
    split; [intros i; rewrite L11; apply K9|]. split; [exact K11|]. split; [exact Keys|]. split; [exact K12|exact K1].
  - unfold Clean. rewrite M1, M2, M4, M6, M7, M8, M9. auto.
  - unfold rlen. rewrite M1, M2, len_nil. fold psl in K2. lia.
  - intros i Hi. rewrite view_at_uopt. unfold mview. rewrite M6, L11, K9.
    destruct (ns_mem i (gH gp)); [reflexivity|]. unfold RvRefine.uopt. rewrite M1.
    destruct (psl <=? i) eqn:Ea; [fold psl in K2; lia|].
    destruct (Upd i ltac:(lia)) as (x & Hx & He). rewrite Hx, M8. unfold RvModel.phys_read in *. rewrite M5.
    destruct (nm_get i (updated s5)); now rewrite He.
  - exact M11.
  - exact M12.
  - exact M5.
  - exact M13.
  - transitivity psl; [exact L1|exact K2].
  - rewrite M15, M14, M10. intros Hm. destruct (G10 Hm) as [Hm0 Hst]. right. repeat split; auto; congruence.
  - intros Hd. try rewrite M8. try rewrite L10.
    pose proof (apply_mods_NoDup (combine (r_mod_idx r) (r_mod_vals r)) s4) as Hn. rewrite Ha in Hn. cbn [fst] in Hn.
    apply Hn.
    + intros m Hm. rewrite G1. now apply Hmods.
    + rewrite G11. apply NoDup_insert_run. rewrite G12. destruct (psl <? stored_len s); auto.
      unfold nm_below. now apply NoDup_keys_filter.
  - intros i Hi. try rewrite M1. try rewrite L1. try rewrite M8 in Hi. try rewrite L10 in Hi. now apply Keys.
  - (* Over: every restored slot behind the region's end is in the overlay *)
    unfold Over, real_stored_len. rewrite M1, M5, M9. intros i A1 A2.
    destruct (in_dec N.eq_dec i (map fst (combine (r_mod_idx r) (r_mod_vals r)))) as [Hin|Hnin].
    + destruct (H8 i Hin) as (v & _ & ->). discriminate.
    + rewrite H7 by exact Hnin. rewrite G11, nm_get_insert_run.
      destruct ((ts <=? i) && (i <? ts + len (r_trunc r))) eqn:Er.
      * apply andb_true_iff in Er as [Er1 Er2]. destruct (get_lt_some (r_trunc r) (i - ts)) as [x ->]; [lia|discriminate].
      * assert (Hlt : i < ts) by (destruct (ts <=? i) eqn:Ea; [cbn in Er; lia|lia]).
        rewrite G12. assert (Hu : nm_get i (updated s) <> None).
        { rewrite <- C4. apply Hov; [exact A1|lia]. }
        destruct (psl <? stored_len s); [|exact Hu]. rewrite nm_get_below. destruct (i <? psl) eqn:Eb; [exact Hu|lia].
Qed.

(* ---- the chain of retained records and the change directory --------------------------------------------- *)
(* Fd: the files of the chain, newest first; file i leads from level i back to level i+1 *)
Fixpoint chain_ok (g0 : ghost) (rest : list ghost) (Fd : list (N * list N)) : Prop :=
  match rest, Fd with
  | [], [] => True
  | g1 :: rest', (st, bytes) :: Fd' =>
    st = gst g0 /\ gst g1 < gst g0 /\
    (exists r, bytes = serialize_record enc r /\ valid_record enc r /\ RecOK r g1 g0) /\
    chain_ok g1 rest' Fd'
  | _, _ => False
  end.
(* the directory: the chain's files in ascending order, then files above the current stamp (left by
   rolled-back commits; the next commit removes them, no rollback ever reads them) *)
Definition Dir (s : rv) (g0 : ghost) (rest : list ghost) : Prop :=
  match changes s with
  | None => rest = []
  | Some l => exists Fd fut, chain_ok g0 rest Fd /\ l = rev Fd ++ fut /\ forall p, In p fut -> stamp s < fst p
  end.

Definition K (s : rv) (a : sv T) : Prop :=
  R s a /\ sstamp a = sn_stamp (base a) /\ k s = sk a /\ 0 < k s /\ len (committed a) <= sk a /\
  stored_len s <= prev_stored_len s /\ Over s /\
  exists g0 rest, g_snap g0 (base a) /\ Forall2 g_snap rest (committed a) /\ BaseRep s g0 /\ Dir s g0 rest.

Lemma chain_ok_len g0 rest Fd : chain_ok g0 rest Fd -> length Fd = length rest.
Proof.
  revert g0 Fd; induction rest as [|g1 rest IH]; intros g0 [|[st b] Fd]; cbn [chain_ok]; try tauto.
  intros (_ & _ & _ & H). cbn. f_equal. eapply IH; eauto.
Qed.
Lemma chain_ok_stamps g0 rest Fd : chain_ok g0 rest Fd -> forall p, In p Fd -> fst p <= gst g0.
Proof.
  revert g0 Fd; induction rest as [|g1 rest IH]; intros g0 [|[st b] Fd]; cbn [chain_ok]; try tauto.
  - intros _ p [].
  - intros (-> & Hlt & _ & H) p [<-|Hp]; [cbn; lia|]. specialize (IH _ _ H p Hp). lia.
Qed.
Lemma chain_ok_tail_lt g0 g1 rest st b Fd : chain_ok g0 (g1 :: rest) ((st, b) :: Fd) -> forall p, In p Fd -> fst p < st.
Proof.
  cbn [chain_ok]. intros (-> & Hlt & _ & H) p Hp. pose proof (chain_ok_stamps _ _ _ H p Hp). lia.
Qed.

Lemma nm_get_skip {A} (l1 l2 : list (N * A)) x : (forall p, In p l1 -> fst p <> x) -> nm_get x (l1 ++ l2) = nm_get x l2.
Proof.
  induction l1 as [|[k0 v] t IH]; intros H; [reflexivity|]. cbn [app]. unfold nm_get at 1. fold (nm_get x (t ++ l2)).
  destruct (x =? k0) eqn:E.
  - apply N.eqb_eq in E. exfalso. apply (H (k0, v)); [now left|]. cbn. congruence.
  - apply IH. intros p Hp. apply H. now right.
Qed.
Lemma nm_get_none_all {A} (l : list (N * A)) x : (forall p, In p l -> fst p <> x) -> nm_get x l = None.
Proof. intros H. rewrite <- (app_nil_r l). rewrite nm_get_skip by exact H. reflexivity. Qed.
Lemma nm_get_head {A} (l : list (N * A)) x v : nm_get x ((x, v) :: l) = Some v.
Proof. unfold nm_get. now rewrite N.eqb_refl. Qed.

(* ---- C04_rollback_step ----------------------------------------------------------------------------------- *)
Theorem rollback_step (s : rv) a : K s a -> Clean s ->
  match committed a with
  | [] => rv_rollback tsize dec s = (s, Err EIO)
  | Sn :: rest' =>
    exists s', rv_rollback tsize dec s = (s', Ok tt) /\ K s' (fst (sv_rollback a)) /\ Clean s' /\
               view tsize dec s' = sn_contents Sn /\ stamp s' = sn_stamp Sn /\
               (Inv s -> Inv s')
  end.
Proof.
  intros (HR & Hst & Hk & Hkp & Hlen & Hsl & Hov & g0 & rest & Hg0 & Hgr & HB & HD) HC.
  pose proof HB as (B1 & B2 & B3 & B4 & B5 & B6 & B7 & B8).
  unfold rv_rollback. destruct (committed a) as [|Sn rest'] eqn:Ec.
  - inversion Hgr; subst. unfold Dir in HD. unfold read_change_file. destruct (changes s) as [l|]; [|reflexivity].
    destruct HD as (Fd & fut & Hch & -> & Hfut). destruct Fd; [|destruct p; contradiction]. cbn [rev app].
    rewrite nm_get_none_all; [reflexivity|]. intros p Hp. specialize (Hfut p Hp). lia.
  - inversion Hgr as [|g1 Sn' rest_g rest_S Hg1 Hgr']; subst.
    unfold Dir in HD. destruct (changes s) as [l|] eqn:Ech; [|discriminate].
    destruct HD as (Fd & fut & Hch & -> & Hfut). destruct Fd as [|[st bytes] Fd']; [contradiction|].
    pose proof Hch as Hch0. cbn [chain_ok] in Hch. destruct Hch as (-> & Hlt & (r & -> & Hv & Hrec) & Hch').
    unfold read_change_file. cbn [rev]. rewrite <- app_assoc. rewrite nm_get_skip.
    2:{ intros p Hp. apply in_rev in Hp. pose proof (chain_ok_tail_lt _ _ _ _ _ _ Hch0 p Hp). lia. }
    cbn [app]. rewrite B8, nm_get_head.
    destruct (undo_ok s r g1 g0 HB HC Hov Hrec Hv) as (s1 & -> & HB' & HC' & L' & V' & Ch' & K' & Rg' & Hf' & Sl' & Hd' & Nd' & Ky' & Ov').
    set (s' := save_rollback_state s1) in *. exists s'. split; [reflexivity|].
    destruct Hg1 as (Gs & Gl & Gv).
    assert (HR' : R s' (fst (sv_rollback a))).
    { unfold sv_rollback. rewrite Ec. cbn [fst]. unfold RvRefine.R, slen. cbn [contents sstamp].
      destruct HB' as (_ & _ & _ & _ & _ & _ & _ & St'). split; [congruence|]. split; [congruence|].
      intros i Hi. rewrite V' by lia. apply Gv. lia. }
    split.
    { unfold K. unfold sv_rollback. rewrite Ec. cbn [fst contents sstamp base committed sk].
      split; [pose proof HR' as HR2; unfold sv_rollback in HR2; rewrite Ec in HR2; exact HR2|]. split; [reflexivity|]. split; [congruence|]. split; [congruence|].
      split; [rewrite len_cons in Hlen; lia|]. split; [destruct HC' as (E1 & _); lia|]. split; [exact Ov'|].
      exists g1, rest_g. split; [repeat split; auto|]. split; [exact Hgr'|]. split; [exact HB'|].
      unfold Dir. rewrite Ch', Ech. exists Fd', ((gst g0, serialize_record enc r) :: fut).
      split; [exact Hch'|]. split; [cbn [rev]; rewrite <- app_assoc; reflexivity|].
      destruct HB' as (_ & _ & _ & _ & _ & _ & _ & St'). rewrite St'.
      intros p [<-|Hp]; [cbn; lia|]. specialize (Hfut p Hp). lia. }
    split; [exact HC'|]. split.
    { pose proof (R_view tsize dec s' _ HR') as Hv'. unfold sv_rollback in Hv'. rewrite Ec in Hv'. cbn in Hv'. now symmetry. }
    split; [destruct HB' as (_ & _ & _ & _ & _ & _ & _ & St'); congruence|].
    intros (I1 & I2 & I3 & I4 & I5 & I6).
    destruct HC as (C1 & C2 & C3 & C4). destruct HR as (_ & R2 & _).
    unfold RvRefine.Inv. rewrite L'.
    split; [intros i A1 A2; left; destruct HC' as (_ & _ & _ & E4); rewrite <- E4; now apply Ov'|].
    split; [exact Ky'|]. split; [apply Nd'; exact I3|]. split.
    { intros i Hi. destruct HB' as (_ & _ & _ & Hh & _ & _ & Hwf & _). destruct HC' as (_ & _ & E3 & _).
      rewrite <- E3, Hh in Hi. apply Hwf. exact Hi. }
    split.
    { unfold holef in Hf'. injection Hf' as E1 E2. unfold s'. cbn. unfold s' in E1, E2. cbn in E1, E2. rewrite E1, E2. exact I5. }
    intros Hm. destruct (Hd' Hm) as [H|(H1 & H2 & H3)]; [exact H|]. rewrite H2, H3. apply I6. exact H1.
Qed.

(* ---- list facts for the directory update -------------------------------------------------------------------- *)
Lemma take_cons_pos {A} (n : N) (x : A) l : 0 < n -> take n (x :: l) = x :: take (n - 1) l.
Proof. intros H. unfold take. replace (N.to_nat n) with (Datatypes.S (N.to_nat (n - 1))) by lia. reflexivity. Qed.
Lemma drop_rev_take {A} (l : list A) m : drop (len l - m) (rev l) = rev (take m l).
Proof.
  unfold drop, take, len. destruct (N.le_gt_cases (N.of_nat (length l)) m) as [H|H].
  - replace (N.to_nat (N.of_nat (length l) - m)) with O by lia. cbn [skipn]. now rewrite firstn_all2 by lia.
  - rewrite <- (firstn_skipn (N.to_nat m) l) at 2. rewrite rev_app_distr.
    rewrite skipn_app. rewrite skipn_all2 by (rewrite rev_length, skipn_length; lia). cbn [app].
    rewrite rev_length, skipn_length. replace (N.to_nat (N.of_nat (length l) - m) - (length l - N.to_nat m))%nat with O by lia.
    reflexivity.
Qed.
Lemma cd_ins_append st b (l : list (N * list N)) : (forall p, In p l -> fst p < st) -> cd_ins st b l = l ++ [(st, b)].
Proof.
  induction l as [|[k0 w] t IH]; intros H; cbn [cd_ins app]; [reflexivity|].
  assert (Hk : k0 < st) by (apply (H (k0, w)); now left).
  destruct (st <? k0) eqn:E1; [lia|]. destruct (st =? k0) eqn:E2; [lia|]. f_equal. apply IH. intros p Hp. apply H. now right.
Qed.
Lemma filter_all {A} (f : A -> bool) l : (forall x, In x l -> f x = true) -> filter f l = l.
Proof. induction l; cbn; intros H; auto. rewrite H by now left. f_equal. apply IHl. intros; apply H; now right. Qed.
Lemma filter_none {A} (f : A -> bool) l : (forall x, In x l -> f x = false) -> filter f l = [].
Proof. induction l; cbn; intros H; auto. rewrite H by now left. apply IHl. intros; apply H; now right. Qed.
Lemma Forall2_take {A B} (P : A -> B -> Prop) n l1 l2 : Forall2 P l1 l2 -> Forall2 P (take n l1) (take n l2).
Proof.
  unfold take. generalize (N.to_nat n) as m. intros m H. revert m. induction H; intros [|m]; cbn; constructor; auto.
Qed.
Lemma chain_ok_take n : forall g0 rest Fd, chain_ok g0 rest Fd -> chain_ok g0 (take n rest) (take n Fd).
Proof.
  unfold take. generalize (N.to_nat n) as m. induction m; intros g0 rest Fd H; [destruct rest, Fd; cbn; auto|].
  destruct rest as [|g1 rest], Fd as [|[st b] Fd]; cbn [firstn chain_ok] in *; try tauto.
  destruct H as (H1 & H2 & H3 & H4). repeat split; auto.
Qed.

Lemma in_all_keys (s : rv) i : In i (all_keys s) <-> In i (nm_keys (updated s)) \/ In i (nm_keys (prev_updated s)).
Proof.
  unfold all_keys. rewrite <- ns_mem_In. fold (ns_of_list (nm_keys (updated s) ++ nm_keys (prev_updated s))).
  rewrite ns_mem_of_list, ns_mem_In, in_app_iff. reflexivity.
Qed.

(* ---- the shape of a commit ---------------------------------------------------------------------------------- *)
Lemma commit_shape (s : rv) st : Inv s -> k s <> 0 ->
  exists s2, rv_commit tsize enc dec st s =
             (set_prev_updated [] (set_prev_holes (holes s2) (set_prev_pushed [] (set_prev_stored_len (stored_len s2) s2))), Ok tt) /\
    Inv s2 /\ Normal s2 /\ rlen s2 = rlen s /\ holes s2 = holes s /\ stamp s2 = st /\ k s2 = k s /\
    changes s2 = save_change_file (changes s) (k s) (stamp s) st (fst (serialize_raw_changes tsize enc dec s)) /\
    (forall i, i < rlen s -> backed s i -> uopt s2 i = uopt s i).
Proof.
  clear tsize_pos enc_len dec_enc.
  intros HI Hk. unfold rv_commit. destruct (k s =? 0) eqn:Ek; [lia|].
  destruct (serialize_raw_changes tsize enc dec s) as [data stl]. cbn [fst].
  set (s1 := set_changes _ (add_stale stl s)).
  assert (Hc : core s1 = core s) by reflexivity.
  assert (HI1 : Inv s1) by (eapply Inv_core; [symmetry; exact Hc|exact HI]).
  unfold stamped_write.
  destruct (write_ok_u tsize enc dec (update_stamp st s1) (Inv_update_stamp s1 st HI1)) as (b & s2 & -> & HI2 & HN & L & Hh & St & Pr & U).
  destruct (update_stamp_fields tsize dec s1 st) as (L0 & S0 & P0 & _).
  exists s2. split; [reflexivity|]. split; [exact HI2|]. split; [exact HN|]. split; [rewrite L, L0; reflexivity|].
  assert (Hu : holes (update_stamp st s1) = holes s /\ (forall i, uopt (update_stamp st s1) i = uopt s i) /\
               forall i, backed s i -> backed (update_stamp st s1) i).
  { unfold update_stamp. destruct (stamp s1 =? st); split; try split; try reflexivity; intros i Hb; exact Hb. }
  destruct Hu as (Hu1 & Hu2 & Hu3).
  split; [congruence|]. split; [congruence|].
  unfold prevf in Pr, P0. injection Pr as Q1 Q2 _ _ _ _. injection P0 as Q3 Q4 _ _ _ _.
  split; [rewrite Q2, Q4; reflexivity|]. split; [rewrite Q1, Q3; reflexivity|].
  intros i Hi Hb. rewrite U; [apply Hu2|rewrite L0; exact Hi|apply Hu3; exact Hb].
Qed.

Lemma In_firstn_sub {A} n (l : list A) x (_u : unit) : In x (firstn n l) -> In x l.
Proof. intros H. rewrite <- (firstn_skipn n l). apply in_or_app. now left. Qed.

(* ---- the ghost of a state and the record a commit builds ------------------------------------------------------ *)
Definition gof (s : rv) (st lo : N) : ghost :=
  mkG (map (fun i => match uopt s i with Some v => v | None => zero_val tsize dec end) (seqN 0 (N.to_nat (rlen s))))
      (holes s) st lo.
Lemma uopt_some (s : rv) i : i < rlen s -> exists x, uopt s i = Some x.
Proof.
  intros Hi. unfold RvRefine.uopt. destruct (stored_len s <=? i) eqn:E.
  - apply get_lt_some. unfold rlen in Hi. lia.
  - destruct (nm_get i (updated s)); eauto.
Qed.
Lemma gof_len s st lo : len (gU (gof s st lo)) = rlen s.
Proof. unfold gof, len. cbn [gU]. rewrite map_length, seqN_length. lia. Qed.
Lemma gof_get s st lo i : i < rlen s -> get (gU (gof s st lo)) i = uopt s i.
Proof.
  intros Hi. unfold gof. cbn [gU]. rewrite get_map_seqN, N2Nat.id, N.add_0_l.
  destruct (i <? rlen s) eqn:E; [|lia]. destruct (uopt_some s i Hi) as [x ->]. reflexivity.
Qed.
Lemma get_map {A B} (f : A -> B) l n : get (map f l) n = match get l n with Some x => Some (f x) | None => None end.
Proof. rewrite !get_nth_error, nth_error_map. destruct (nth_error l (N.to_nat n)); reflexivity. Qed.
Lemma fst_prev_or_disk (s : rv) i : fst (prev_or_disk tsize dec s i) = pu s i.
Proof. unfold prev_or_disk, pu. destruct (nm_get i (prev_updated s)); reflexivity. Qed.

(* gc: the level the commit establishes; below the stored length it carries the baseline value wherever neither
   `updated` nor prev_updated has an entry *)
Lemma build_record_ok (s : rv) g0 gc :
  BaseRep s g0 -> (forall i, nm_get i (updated s) <> None -> i < stored_len s) -> stored_len s <= prev_stored_len s ->
  glo gc = stored_len s ->
  (forall i, i < stored_len s -> nm_get i (updated s) = None -> nm_get i (prev_updated s) = None ->
     get (gU gc) i = Some (phys_read s i)) ->
  RecOK (fst (build_record tsize dec s)) g0 gc.
Proof.
  intros (B1 & B2 & B3 & B4 & B5 & B6 & B7 & B8) I2 Hsl Hglo Hgc. unfold build_record. cbn [fst].
  set (psl := prev_stored_len s) in *. set (sl := stored_len s) in *.
  unfold RecOK. cbn [r_stamp r_prev_stored_len r_prev_pushed r_trunc r_mod_idx r_mod_vals r_prev_holes]. rewrite Hglo.
  assert (Ltr : len (map fst (map (prev_or_disk tsize dec s) (seqN sl (N.to_nat (psl - sl))))) = psl - sl).
  { unfold len. rewrite !map_length, seqN_length. lia. }
  split; [exact B8|]. split; [exact B2|]. split; [exact B1|]. split; [rewrite Ltr; lia|]. split; [rewrite Ltr; lia|].
  split.
  { intros j Hj. rewrite Ltr in Hj. rewrite map_map, get_map_seqN.
    destruct (j <? N.of_nat (N.to_nat (psl - sl))) eqn:E; [|lia]. rewrite fst_prev_or_disk. symmetry. apply B3. lia. }
  split; [unfold len; now rewrite !map_length|]. split.
  { intros n i Hn. assert (Hin : In i (all_keys s)) by (eapply get_in; eauto).
    assert (Hi : i < psl).
    { apply in_all_keys in Hin as [Hin|Hin]; apply nm_get_keys in Hin; [specialize (I2 i Hin); lia|exact (B6 i Hin)]. }
    split; [exact Hi|]. rewrite map_map, get_map, Hn, fst_prev_or_disk. symmetry. apply B3. lia. }
  split; [intros i; rewrite ns_mem_of_list; apply B4|]. split.
  { intros i Hi Hnin.
    rewrite B3 by lia. unfold pu.
    assert (Hu : nm_get i (updated s) = None).
    { destruct (nm_get i (updated s)) eqn:Eg; auto. exfalso. apply Hnin. apply in_all_keys. left. apply nm_get_keys. congruence. }
    assert (Hp : nm_get i (prev_updated s) = None).
    { destruct (nm_get i (prev_updated s)) eqn:Eg; auto. exfalso. apply Hnin. apply in_all_keys. right. apply nm_get_keys. congruence. }
    rewrite Hp. apply Hgc; auto. }
  split; [exact B5|exact B7].
Qed.

Lemma dir_after_commit (s s3 : rv) g0 rest gnew r st :
  Dir s g0 rest -> stamp s = gst g0 -> gst g0 < st -> gst gnew = st -> 0 < k s ->
  RecOK r g0 gnew -> valid_record enc r ->
  changes s3 = save_change_file (changes s) (k s) (stamp s) st (serialize_record enc r) -> stamp s3 = st ->
  Dir s3 gnew (take (k s) (g0 :: rest)).
Proof.
  intros HD Hs Hlt Hg Hk Hrec Hv Hch Hst3. unfold Dir in *. rewrite Hch. unfold save_change_file.
  rewrite take_cons_pos by exact Hk.
  destruct (changes s) as [l|].
  - destruct HD as (Fd & fut & Hc & -> & Hfut).
    assert (Hf : filter (fun p => (fst p <? st) && (fst p <=? stamp s)) (rev Fd ++ fut) = rev Fd).
    { rewrite filter_app, filter_all, filter_none, app_nil_r; auto.
      - intros p Hp. specialize (Hfut p Hp). destruct (fst p <=? stamp s) eqn:E; [lia|]. now rewrite andb_false_r.
      - intros p Hp. apply in_rev in Hp. pose proof (chain_ok_stamps _ _ _ Hc p Hp).
        destruct (fst p <? st) eqn:E1; [|lia]. destruct (fst p <=? stamp s) eqn:E2; [reflexivity|lia]. }
    rewrite Hf. replace (len (rev Fd)) with (len Fd) by (unfold len; now rewrite rev_length).
    rewrite drop_rev_take. rewrite cd_ins_append.
    2:{ intros p Hp. apply in_rev in Hp. assert (Hin : In p Fd) by (unfold take in Hp; eapply (In_firstn_sub _ _ _ tt Hp)).
         pose proof (chain_ok_stamps _ _ _ Hc p Hin). lia. }
    exists ((st, serialize_record enc r) :: take (k s - 1) Fd), []. split.
    + cbn [chain_ok]. split; [congruence|]. split; [lia|]. split; [exists r; auto|]. now apply chain_ok_take.
    + split; [cbn [rev]; now rewrite app_nil_r|]. intros p [].
  - subst rest. cbn [filter len length]. unfold drop. rewrite skipn_nil. cbn [cd_ins].
    exists [(st, serialize_record enc r)], []. split.
    + unfold take. rewrite firstn_nil. cbn [chain_ok]. split; [congruence|]. split; [lia|]. split; [exists r; auto|exact I].
    + split; [reflexivity|]. intros p [].
Qed.

Lemma fst_serialize (s : rv) : fst (serialize_raw_changes tsize enc dec s) = serialize_record enc (fst (build_record tsize dec s)).
Proof. unfold serialize_raw_changes. destruct (build_record tsize dec s). reflexivity. Qed.

(* ---- a commit establishes the chain invariant for the new top level ------------------------------------------ *)
Theorem commit_step (s : rv) a st : K s a -> Inv s -> sstamp a < st ->
  valid_record enc (fst (build_record tsize dec s)) ->
  let s' := fst (rv_commit tsize enc dec st s) in
  let a' := fst (sstep a (Commit st)) in
  snd (rv_commit tsize enc dec st s) = Ok tt /\ K s' a' /\ Inv s' /\ Clean s'.
Proof.
  intros (HR & Hst & Hk & Hkp & Hlen & Hsl & Hov & g0 & rest & Hg0 & Hgr & HB & HD) HI Hlt Hv.
  pose proof HB as (B1 & B2 & B3 & B4 & B5 & B6 & B7 & B8). pose proof HI as (I1 & I2 & I3 & I4 & I5 & I6).
  pose proof HR as (R1 & R2 & R3).
  destruct (step_refines tsize enc dec s a (Commit st) HI HR I) as (HI3 & HR3 & _).
  cbn [RvRollback.step] in HI3, HR3.
  destruct (commit_shape s st HI ltac:(lia)) as (s2 & Hc & HI2 & HN & L2 & Hh2 & St2 & K2 & Ch2 & U2).
  rewrite Hc in *. cbn [fst snd] in *. cbv zeta.
  set (s3 := set_prev_updated [] _) in *.
  destruct HN as (N1 & N2 & N3 & N4 & N5 & N6).
  assert (F3 : stored_len s3 = rlen s /\ pushed s3 = [] /\ updated s3 = [] /\ holes s3 = holes s /\ stamp s3 = st /\ k s3 = k s /\
               prev_stored_len s3 = rlen s /\ prev_pushed s3 = [] /\ prev_holes s3 = holes s /\ prev_updated s3 = [] /\
               changes s3 = changes s2 /\ reg s3 = reg s2).
  { unfold s3. cbn. unfold rlen in *. rewrite N1, len_nil in L2. repeat split; auto; try congruence; lia. }
  destruct F3 as (F1 & F2 & F3 & F4 & F5 & F6 & F7 & F8 & F9 & F10 & F11 & F12). clearbody s3.
  set (gnew := gof s2 st (stored_len s)).
  assert (Hbk : forall i, i < rlen s -> ns_mem i (holes s) = false -> backed s i).
  { intros i Hi Hm. unfold backed.
    destruct (N.lt_ge_cases i (real_stored_len s)) as [A|A]; [now left|]. right.
    destruct (N.le_gt_cases (stored_len s) i) as [B|B]; [now left|]. right.
    destruct (I1 i A B) as [C|C]; [exact C|congruence]. }
  assert (Hrec : RecOK (fst (build_record tsize dec s)) g0 gnew).
  { apply build_record_ok; auto. intros i Hi Hu Hp.
    assert (Hr : i < rlen s) by (unfold rlen; lia).
    unfold gnew. rewrite gof_get by (rewrite L2; exact Hr).
    assert (Hreal : i < real_stored_len s).
    { destruct (N.lt_ge_cases i (real_stored_len s)) as [A|A]; [exact A|]. exfalso. exact (Hov i A Hi Hp). }
    rewrite U2 by (auto; left; exact Hreal). unfold RvRefine.uopt. destruct (stored_len s <=? i) eqn:E; [lia|]. now rewrite Hu. }
  split; [reflexivity|]. split; [|split; [exact HI3|]].
  - unfold K. cbn [sstep fst]. destruct (sk a =? 0) eqn:Ek; [lia|]. cbn [fst contents sstamp base committed sk sn_stamp].
    split; [cbn [sstep fst] in HR3; rewrite Ek in HR3; exact HR3|]. split; [reflexivity|]. split; [congruence|]. split; [rewrite F6; exact Hkp|].
    split; [rewrite len_take; lia|]. split; [lia|].
    split.
    { unfold Over, real_stored_len. rewrite F1, F12. unfold real_stored_len, rlen in *. rewrite N1, len_nil in L2. intros i A1 A2. lia. }
    exists gnew, (take (sk a) (g0 :: rest)). split.
    { unfold g_snap. cbn [sn_stamp sn_contents]. unfold gnew. rewrite gof_len, L2. split; [reflexivity|]. split; [exact R2|].
      intros i Hi. rewrite (R3 i Hi), view_at_uopt. unfold mview. cbn [gof gH]. rewrite Hh2.
      destruct (ns_mem i (holes s)) eqn:Em; [reflexivity|]. f_equal. rewrite gof_get by (rewrite L2; exact Hi).
      symmetry. apply U2; auto. }
    split; [apply Forall2_take; constructor; auto|]. split.
    { unfold BaseRep. rewrite F8, F7, F9, F10, F5. unfold gnew. rewrite gof_len, L2. cbn [gof gH glo gst].
      split; [reflexivity|]. split; [reflexivity|]. split.
      { intros i Hi. rewrite gof_get by (rewrite L2; exact Hi). unfold RvRefine.uopt, pu, RvModel.phys_read.
        rewrite F10, F12. unfold rlen in L2, Hi. rewrite N1, len_nil in L2.
        destruct (stored_len s2 <=? i) eqn:E; [lia|]. rewrite N2. reflexivity. }
      split; [intros i; now rewrite Hh2|]. split; [unfold rlen; lia|]. split; [intros i Hi; cbv [nm_get] in Hi; congruence|].
      split; [|reflexivity]. unfold g_wf. intros i Hi. rewrite gof_len, L2. cbn [gof gH] in Hi. rewrite Hh2 in Hi. now apply I4. }
    { rewrite <- Hk. eapply dir_after_commit; eauto.
      all: try (rewrite <- B8, <- R1; exact Hlt).
      all: try (rewrite F11, Ch2, fst_serialize; reflexivity). }
  - unfold Clean. rewrite F7, F1, F2, F9, F4, F10, F3. auto.
Qed.

(* ---- edits leave the baseline, the directory and the stamp alone ------------------------------------------------ *)
Definition is_edit_op (o : @op T) : Prop :=
  match o with Push _ | Truncate _ | Update _ _ | Delete _ | Take _ | Fill _ => True | _ => False end.

Lemma edit_frame (s : rv) o : is_edit_op o ->
  let s' := fst (step tsize enc dec s o) in
  reg s' = reg s /\ prevf s' = prevf s /\ stamp s' = stamp s /\ stored_len s' <= stored_len s.
Proof.
  clear tsize_pos enc_len dec_enc.
  destruct o; cbn [is_edit_op]; try contradiction; intros _; cbn [RvRollback.step].
  - cbn. repeat split; lia.
  - unfold rv_truncate, truncate_pushed, truncate_dirty_at. cbn [stored_len pushed set_updated set_holes].
    destruct (_ <=? i); [cbn; repeat split; lia|]. destruct (i <=? stored_len s) eqn:E1; destruct (i <? stored_len s) eqn:E2; cbn; repeat split; lia.
  - unfold rv_update_at. destruct (stored_len s <=? i).
    + destruct (get (pushed s) (i - stored_len s)); [|cbn; repeat split; lia].
      cbn [fst]. destruct (holes _); cbn; repeat split; lia.
    + destruct (holes s); cbn; repeat split; lia.
  - unfold rv_delete_at, unchecked_delete_at. destruct (i <? rlen s); [|cbn; repeat split; lia].
    destruct (updated s); cbn; repeat split; lia.
  - unfold rv_take_at. destruct (get_any_or_read_at tsize dec s i) as [[x|] n]; cbn [fst]; [|cbn; repeat split; lia].
    unfold unchecked_delete_at. destruct (updated (add_stale n s)); cbn; repeat split; lia.
  - unfold rv_fill. destruct (ns_min (holes s)) as [h|]; [|cbn; repeat split; lia].
    unfold rv_update_at. cbn [stored_len pushed holes set_holes].
    destruct (stored_len s <=? h).
    + destruct (get (pushed s) (h - stored_len s)); [|cbn; repeat split; lia].
      cbn [fst]. destruct (holes _); cbn; repeat split; lia.
    + destruct (ns_remove h (holes s)); cbn; repeat split; lia.
Qed.

Lemma edit_spec_frame (a : sv T) o : is_edit_op o ->
  let a' := fst (sstep a o) in sstamp a' = sstamp a /\ base a' = base a /\ committed a' = committed a /\ sk a' = sk a.
Proof.
  destruct o; cbn [is_edit_op]; try contradiction; intros _; cbn [sstep].
  - cbn. auto.
  - destruct (i <? slen a); cbn; auto.
  - destruct (i <? slen a); cbn; auto.
  - destruct (i <? slen a); cbn; auto.
  - destruct (get (contents a) i) as [[x|]|]; cbn; auto.
  - destruct (first_none (contents a) 0); cbn; auto.
Qed.

Theorem edit_step (s : rv) a o : K s a -> Inv s -> is_edit_op o ->
  K (fst (step tsize enc dec s o)) (fst (sstep a o)) /\ Inv (fst (step tsize enc dec s o)) /\
  res_rel o (snd (step tsize enc dec s o)) (snd (sstep a o)).
Proof.
  intros (HR & Hst & Hk & Hkp & Hlen & Hsl & Hov & g0 & rest & Hg0 & Hgr & HB & HD) HI He.
  assert (Hp : plain_op o) by (destruct o; cbn in *; auto).
  destruct (step_refines tsize enc dec s a o HI HR Hp) as (HI' & HR' & Hres).
  destruct (edit_frame s o He) as (Fr & Fp & Fs & Fl). destruct (edit_spec_frame a o He) as (E1 & E2 & E3 & E4).
  unfold prevf in Fp. injection Fp as P1 P2 P3 P4 P5 P6.
  split; [|split; [exact HI'|exact Hres]].
  unfold K. rewrite E1, E2, E3, E4, P2, P4. split; [exact HR'|]. split; [exact Hst|]. split; [exact Hk|]. split; [exact Hkp|].
  split; [exact Hlen|]. split; [lia|].
  split; [unfold Over, real_stored_len in *; rewrite Fr, P6; intros i A1 A2; apply Hov; [exact A1|lia]|].
  exists g0, rest. split; [exact Hg0|]. split; [exact Hgr|]. split.
  - destruct HB as (B1 & B2 & B3 & B4 & B5 & B6 & B7 & B8). unfold BaseRep, pu, RvModel.phys_read. rewrite P3, P4, P5, P6, Fr, Fs. auto 10.
  - unfold Dir in *. rewrite P1, Fs. exact HD.
Qed.

(* ---- without rollbacks the vector never gets longer than its region ------------------------------------------------ *)
(* RvRefine.Inv allows stored_len above the on-disk length (the state a rollback of a truncating commit leaves); the
   histories of C03 (no rollback) never reach it: R2 of DESIGN.md B.1 in its original form *)
Lemma plain_step_not_expanded (s : rv) o : Inv s -> stored_len s <= real_stored_len s -> plain_op o ->
  stored_len (fst (step tsize enc dec s o)) <= real_stored_len (fst (step tsize enc dec s o)).
Proof.
  clear tsize_pos enc_len dec_enc.
  intros HI Hle Hp. pose proof HI as (_ & _ & _ & _ & _ & I6).
  assert (Ed : is_edit_op o -> stored_len (fst (step tsize enc dec s o)) <= real_stored_len (fst (step tsize enc dec s o))).
  { intros He. destruct (edit_frame s o He) as (Fr & _ & _ & Fl). unfold real_stored_len in *. rewrite Fr. lia. }
  assert (Fa : forall f st, stored_len (fault_file f st s) <= real_stored_len (fault_file f st s)).
  { intros f st. unfold fault_file. destruct (changes s); [destruct (nm_get st l); [destruct (f l0)|]|]; exact Hle. }
  destruct o; cbn [plain_op] in Hp; try contradiction; try (apply Ed; exact I); cbn [RvRollback.step].
  - destruct (write_ok tsize enc dec s HI) as (b & s' & -> & _ & HN & _). cbn [fst]. destruct HN as (_ & _ & N3 & _). lia.
  - destruct (write_ok tsize enc dec s HI) as (b & s' & -> & _ & HN & _). cbn [fst]. destruct HN as (_ & _ & N3 & _). lia.
  - destruct (reset_fields s I6) as (_ & F2 & _). cbn [fst]. rewrite F2. lia.
  - destruct (write_ok tsize enc dec s HI) as (b & s' & -> & _ & HN & _). cbn [fst]. unfold rv_reimport, real_stored_len. cbn. lia.
  - destruct (k s =? 0) eqn:Ek.
    + unfold rv_commit. rewrite Ek. destruct (stamped_write_ok tsize enc dec s st HI) as (s' & -> & _ & HN & _). cbn [fst].
      destruct HN as (_ & _ & N3 & _). lia.
    + destruct (commit_shape s st HI ltac:(lia)) as (s2 & -> & _ & HN & _). cbn [fst]. destruct HN as (_ & _ & N3 & _).
      unfold real_stored_len in *. cbn. lia.
  - destruct (stamped_write_ok tsize enc dec s st HI) as (s' & -> & _ & HN & _). cbn [fst]. destruct HN as (_ & _ & N3 & _). lia.
  - cbn [fst]. apply Fa.
  - cbn [fst]. apply Fa.
  - cbn [fst]. apply Fa.
Qed.

Theorem run_not_expanded h : forall (s : rv), Inv s -> stored_len s <= real_stored_len s -> Forall (@plain_op T) h ->
  stored_len (run tsize enc dec s h) <= real_stored_len (run tsize enc dec s h).
Proof.
  clear tsize_pos enc_len dec_enc.
  induction h as [|o t IH]; intros s HI Hle Hp; cbn [RvRollback.run]; [exact Hle|].
  inversion Hp as [|? ? Ho Ht]; subst. apply IH; [|apply plain_step_not_expanded; auto|exact Ht].
  destruct (step_refines tsize enc dec s _ o HI (R_of_view tsize dec s) Ho) as (HI' & _). exact HI'.
Qed.
Theorem reachable_not_expanded k0 h : Forall (@plain_op T) h ->
  stored_len (run tsize enc dec (rv_init k0) h) <= real_stored_len (run tsize enc dec (rv_init k0) h).
Proof.
  clear tsize_pos enc_len dec_enc. intros Hp. apply run_not_expanded; [apply Inv_init|cbn; lia|exact Hp]. Qed.

(* ---- the initial state ------------------------------------------------------------------------------------------- *)
Lemma K_init k0 : 0 < k0 -> K (rv_init k0) (sv_init k0) /\ Clean (rv_init k0).
Proof.
  intros Hk. split; [|unfold Clean; cbn; auto].
  unfold K. split; [apply R_init|]. cbn [sv_init sstamp base sn_stamp committed sk rv_init k stored_len prev_stored_len].
  split; [reflexivity|]. split; [reflexivity|]. split; [exact Hk|]. split; [unfold len; cbn [length]; lia|]. split; [lia|].
  split; [unfold Over; cbn; intros i A1 A2; lia|].
  exists (mkG [] [] 0 0), []. split.
  { unfold g_snap. cbn [sn_stamp sn_contents gst gU]. unfold len. cbn [length].
    split; [reflexivity|]. split; [reflexivity|]. intros i Hi. lia. }
  split; [constructor|]. split.
  { unfold BaseRep, g_wf. cbn [rv_init prev_pushed prev_stored_len prev_holes prev_updated stamp gU gH glo gst]. unfold len. cbn [length].
    split; [reflexivity|]. split; [reflexivity|]. split; [intros i Hi; lia|]. split; [reflexivity|]. split; [lia|].
    split; [intros i Hi; cbv [nm_get] in Hi; congruence|]. split; [|reflexivity].
    intros i Hi. cbv [ns_mem existsb] in Hi. discriminate. }
  unfold Dir. cbn. reflexivity.
Qed.

(* ---- C04_chain / C16_count: as many successive rollbacks as there are retained snapshots succeed, each landing
   on the next snapshot; the one after that is refused with the vector unchanged ------------------------------------ *)
Fixpoint rolln (n : nat) (a : sv T) : sv T := match n with O => a | Datatypes.S m => rolln m (fst (sv_rollback a)) end.

Theorem rollback_chain : forall (n : nat) (s : rv) a, K s a -> Clean s -> (n <= length (committed a))%nat ->
  exists s', rollbacks_ok tsize dec n s s' /\ K s' (rolln n a) /\ Clean s' /\
             view tsize dec s' = contents (rolln n a) /\
             stamp s' = sstamp (rolln n a).
Proof.
  induction n as [|n IH]; intros s a HK HC Hn.
  - exists s. cbn [rolln]. split; [constructor|]. split; [exact HK|]. split; [exact HC|].
    destruct HK as (HR & _). split; [symmetry; eapply R_view; eauto|]. destruct HR as (R1 & _). auto.
  - pose proof (rollback_step s a HK HC) as Hs. destruct (committed a) as [|Sn rest'] eqn:Ec; [cbn in Hn; lia|].
    destruct Hs as (s1 & Hr & HK1 & HC1 & _).
    assert (Hn1 : (n <= length (committed (fst (sv_rollback a))))%nat).
    { unfold sv_rollback. rewrite Ec. cbn. cbn in Hn. lia. }
    destruct (IH s1 _ HK1 HC1 Hn1) as (s' & Hro & HK' & HC' & Hv' & Hst').
    exists s'. cbn [rolln]. split; [econstructor; eauto|]. auto.
Qed.

Lemma iter_rollback_committed (n : nat) : forall (a : sv T), (n <= length (committed a))%nat ->
  length (committed (rolln n a)) = (length (committed a) - n)%nat.
Proof.
  induction n as [|n IH]; intros a Hn; [cbn; lia|]. cbn [rolln].
  destruct (committed a) as [|Sn rest'] eqn:Ec; [cbn in Hn; lia|].
  assert (E : committed (fst (sv_rollback a)) = rest') by (unfold sv_rollback; rewrite Ec; reflexivity).
  rewrite IH by (rewrite E; cbn in Hn; lia). rewrite E. cbn. lia.
Qed.

Theorem rollback_count (s : rv) a : K s a -> Clean s ->
  exists s', rollbacks_ok tsize dec (length (committed a)) s s' /\ rv_rollback tsize dec s' = (s', Err EIO).
Proof.
  intros HK HC. destruct (rollback_chain (length (committed a)) s a HK HC (le_n _)) as (s' & Hro & HK' & HC' & _).
  exists s'. split; [exact Hro|].
  pose proof (rollback_step s' _ HK' HC') as Hs.
  pose proof (iter_rollback_committed (length (committed a)) a (le_n _)) as Hl. rewrite Nat.sub_diag in Hl.
  destruct (committed (rolln _ a)); [exact Hs|discriminate].
Qed.

(* ---- rollback_before ------------------------------------------------------------------------------------------------ *)
Lemma chain_stamps_spec : forall rest g0 Fd (Ss : list (snapshot T)) S0,
  chain_ok g0 rest Fd -> g_snap g0 S0 -> Forall2 g_snap rest Ss ->
  map fst Fd = map (@sn_stamp T) (firstn (length Ss) (S0 :: Ss)).
Proof.
  induction rest as [|g1 rest IH]; intros g0 Fd Ss S0 Hc Hg Hf.
  - inversion Hf; subst. destruct Fd; [reflexivity|destruct p; contradiction].
  - inversion Hf as [|? S1 ? Ss' Hg1 Hf']; subst. destruct Fd as [|[st b] Fd]; [contradiction|].
    cbn [chain_ok] in Hc. destruct Hc as (-> & _ & _ & Hc). cbn [length firstn map fst].
    f_equal; [destruct Hg as (-> & _); reflexivity|]. apply (IH g1 Fd Ss' S1 Hc Hg1 Hf').
Qed.

Lemma sel_of_K (s : rv) a l : K s a -> changes s = Some l ->
  rev (filter (fun f => f <=? stamp s) (map fst l)) = map (@sn_stamp T) (firstn (length (committed a)) (base a :: committed a)).
Proof.
  intros (HR & Hst & Hk & Hkp & Hlen & Hsl & Hov & g0 & rest & Hg0 & Hgr & HB & HD) Hl.
  unfold Dir in HD. rewrite Hl in HD. destruct HD as (Fd & fut & Hc & -> & Hfut).
  rewrite <- (chain_stamps_spec rest g0 Fd (committed a) (base a) Hc Hg0 Hgr).
  destruct HB as (_ & _ & _ & _ & _ & _ & _ & B8).
  rewrite map_app, filter_app, filter_all, filter_none, app_nil_r.
  - rewrite map_rev, rev_involutive. reflexivity.
  - intros f Hf. apply in_map_iff in Hf as (p & <- & Hp). specialize (Hfut p Hp). destruct (fst p <=? stamp s) eqn:E; [lia|reflexivity].
  - intros f Hf. apply in_map_iff in Hf as (p & <- & Hp). apply in_rev in Hp. pose proof (chain_ok_stamps _ _ _ Hc p Hp).
    destruct (fst p <=? stamp s) eqn:E; [reflexivity|lia].
Qed.

Lemma rb_loop_spec (target : N) : forall (n : nat) (s : rv) a, K s a -> Clean s -> length (committed a) = n ->
  exists s', rb_loop tsize dec (map (@sn_stamp T) (firstn n (base a :: committed a))) target s = (s', Ok tt) /\
    K s' (sv_rollback_before (Datatypes.S n) target a) /\ Clean s' /\
    (Inv s -> Inv s').
Proof.
  induction n as [|n IH]; intros s a HK HC Hn.
  - destruct (committed a) eqn:Ec; [|discriminate]. cbn [firstn map rb_loop sv_rollback_before].
    exists s. split; [reflexivity|]. split; [destruct (sstamp a <? target); [exact HK|rewrite Ec; exact HK]|]. auto.
  - pose proof HK as (HR & Hst & _). destruct HR as (R1 & _).
    destruct (committed a) as [|Sn rest'] eqn:Ec; [discriminate|]. cbn [firstn map rb_loop]. cbn [sv_rollback_before].
    rewrite <- Hst, R1. destruct (stamp s <? target) eqn:Et.
    + exists s. split; [reflexivity|]. auto.
    + rewrite N.eqb_refl. cbn [negb]. rewrite Ec.
      pose proof (rollback_step s a HK HC) as Hs. rewrite Ec in Hs. destruct Hs as (s1 & -> & HK1 & HC1 & _ & _ & HI1).
      assert (Ea : fst (sv_rollback a) = mkSv (sn_contents Sn) (sn_stamp Sn) Sn rest' (sk a)) by (unfold sv_rollback; rewrite Ec; reflexivity).
      rewrite Ea in *.
      destruct (IH s1 _ HK1 HC1) as (s' & Hl & HK' & HC' & HI').
      { cbn. cbn in Hn. lia. }
      cbn [base committed] in Hl. exists s'. split; [exact Hl|]. split; [exact HK'|]. split; [exact HC'|].
      intros HI. apply HI'. apply HI1. exact HI.
Qed.

(* C04_rollback_before: it ends exactly where the reference ends (the newest committed state with a stamp below the
   target, or the oldest one still retained) and returns that stamp *)
Theorem rollback_before_spec (s : rv) a target : K s a -> Clean s -> changes s <> None ->
  let a' := sv_rollback_before (Datatypes.S (length (committed a))) target a in
  exists s', rv_rollback_before tsize dec target s = (s', Ok (sstamp a')) /\ K s' a' /\ Clean s' /\
             view tsize dec s' = contents a' /\ (Inv s -> Inv s').
Proof.
  intros HK HC Hch. cbv zeta. unfold rv_rollback_before, find_rollback_files.
  destruct (changes s) as [l|] eqn:El; [|congruence].
  rewrite (sel_of_K s a l HK El).
  destruct (rb_loop_spec target (length (committed a)) s a HK HC eq_refl) as (s' & -> & HK' & HC' & HI').
  exists s'. pose proof HK' as (HR' & _). split.
  - f_equal. f_equal. destruct HR' as (R1 & _). auto.
  - split; [exact HK'|]. split; [exact HC'|]. split; [symmetry; eapply R_view; eauto|exact HI'].
Qed.

(* without a change directory (no commit yet) rollback_before reports the missing directory and changes nothing *)
Theorem rollback_before_nodir (s : rv) target : changes s = None -> rv_rollback_before tsize dec target s = (s, Err EIO).
Proof. intros H. unfold rv_rollback_before, find_rollback_files. rewrite H. reflexivity. Qed.

(* ---- C04_continuation: every strict history ------------------------------------------------------------------------- *)
(* strict histories (retention > 0): edits, commits with increasing stamps whose record fits 64 bits, rollbacks and
   rollback_before from committed states — also those that LENGTHEN the vector beyond its region (they undo a truncating
   commit; findings 3/4 before write() was repaired to extend the region first).
   Plain write/flush/re-import/reset between commits are not in this class (they are in C03's, and in the bounded
   C04 statement). *)
Definition next_ed (edited : bool) (o : @op T) : bool :=
  match o with Commit _ | Rollback | RollbackBefore _ => false | _ => true end.
Fixpoint strict (edited : bool) (s : rv) (a : sv T) (h : list (@op T)) : Prop :=
  match h with
  | [] => True
  | o :: t =>
    (match o with
     | Commit st => sstamp a < st /\ valid_record enc (fst (build_record tsize dec s))
     | Rollback => edited = false
     | RollbackBefore _ => edited = false /\ changes s <> None
     | Push _ | Truncate _ | Update _ _ | Delete _ | Take _ | Fill _ => True
     | _ => False
     end) /\ strict (next_ed edited o) (fst (step tsize enc dec s o)) (fst (sstep a o)) t
  end.
(* after every step: equal results, view = reference contents, equal stamps *)
Fixpoint agrees (s : rv) (a : sv T) (h : list (@op T)) : Prop :=
  match h with
  | [] => True
  | o :: t =>
    snd (step tsize enc dec s o) = snd (sstep a o) /\
    view tsize dec (fst (step tsize enc dec s o)) = contents (fst (sstep a o)) /\
    stamp (fst (step tsize enc dec s o)) = sstamp (fst (sstep a o)) /\
    agrees (fst (step tsize enc dec s o)) (fst (sstep a o)) t
  end.
Fixpoint final_ed (edited : bool) (h : list (@op T)) : bool :=
  match h with [] => edited | o :: t => final_ed (next_ed edited o) t end.

Lemma K_view (s : rv) a : K s a -> view tsize dec s = contents a /\ stamp s = sstamp a.
Proof. intros (HR & _). split; [symmetry; eapply R_view; eauto|]. destruct HR as (R1 & _). auto. Qed.

Theorem strict_agree : forall h edited (s : rv) a, K s a -> Inv s -> (edited = false -> Clean s) -> strict edited s a h ->
  agrees s a h /\ K (run tsize enc dec s h) (srun a h) /\ Inv (run tsize enc dec s h) /\
  (final_ed edited h = false -> Clean (run tsize enc dec s h)).
Proof.
  induction h as [|o t IH]; intros edited s a HK HI HC Hs; cbn [strict agrees RvRollback.run srun final_ed] in *; [auto|].
  destruct Hs as [Ho Ht].
  assert (Step : snd (step tsize enc dec s o) = snd (sstep a o) /\ K (fst (step tsize enc dec s o)) (fst (sstep a o)) /\
                 Inv (fst (step tsize enc dec s o)) /\ (next_ed edited o = false -> Clean (fst (step tsize enc dec s o)))).
  { destruct o; try contradiction.
    - destruct (edit_step s a (Push v) HK HI I) as (A & B & C). cbn [res_rel] in C. split; [exact C|split; [exact A|split; [exact B|cbn [next_ed]; discriminate]]].
    - destruct (edit_step s a (Truncate i) HK HI I) as (A & B & C). cbn [res_rel] in C. split; [exact C|split; [exact A|split; [exact B|cbn [next_ed]; discriminate]]].
    - destruct (edit_step s a (Update i v) HK HI I) as (A & B & C). cbn [res_rel] in C. split; [exact C|split; [exact A|split; [exact B|cbn [next_ed]; discriminate]]].
    - destruct (edit_step s a (Delete i) HK HI I) as (A & B & C). cbn [res_rel] in C. split; [exact C|split; [exact A|split; [exact B|cbn [next_ed]; discriminate]]].
    - destruct (edit_step s a (Take i) HK HI I) as (A & B & C). cbn [res_rel] in C. split; [exact C|split; [exact A|split; [exact B|cbn [next_ed]; discriminate]]].
    - destruct (edit_step s a (Fill v) HK HI I) as (A & B & C). cbn [res_rel] in C. split; [exact C|split; [exact A|split; [exact B|cbn [next_ed]; discriminate]]].
    - destruct Ho as [Hlt Hv]. destruct (commit_step s a st HK HI Hlt Hv) as (A & B & C & D).
      cbn [RvRollback.step sstep]. destruct (rv_commit tsize enc dec st s) as [s' r]. cbn [fst snd] in *. subst r.
      cbn [of_unit]. split; [destruct (sk a =? 0); reflexivity|split; [exact B|split; [exact C|intros _; exact D]]].
    - rename Ho into He. specialize (HC He). pose proof (rollback_step s a HK HC) as Hr.
      cbn [RvRollback.step sstep]. unfold sv_rollback in *. destruct (committed a) as [|Sn rest'] eqn:Ec.
      + rewrite Hr. cbn [fst snd of_unit]. split; [reflexivity|split; [exact HK|split; [exact HI|intros _; exact HC]]].
      + destruct Hr as (s' & -> & HK' & HC' & _ & _ & HI'). cbn [fst snd of_unit]. cbn [fst] in HK'.
        split; [reflexivity|split; [exact HK'|split; [|intros _; exact HC']]]. apply HI'; auto.
    - destruct Ho as (He & Hch). specialize (HC He).
      destruct (rollback_before_spec s a st HK HC Hch) as (s' & Hr & HK' & HC' & _ & HI').
      cbn [RvRollback.step sstep]. rewrite Hr. cbn [fst snd]. split; [reflexivity|split; [exact HK'|split; [apply HI'; auto|intros _; exact HC']]]. }
  destruct Step as (S1 & S2 & S3 & S4).
  destruct (IH (next_ed edited o) _ _ S2 S3 S4 Ht) as (A1 & A2 & A3 & A4).
  destruct (K_view _ _ S2) as [V1 V2]. split; [split; [exact S1|split; [exact V1|split; [exact V2|exact A1]]]|]. split; [exact A2|split; [exact A3|exact A4]].
Qed.

(* C04_continuation from a fresh vector with retention k0 > 0 *)
Theorem continuation k0 h : 0 < k0 -> strict false (rv_init k0) (sv_init k0) h -> agrees (rv_init k0) (sv_init k0) h.
Proof.
  intros Hk Hs. destruct (K_init k0 Hk) as [HK HC].
  apply (strict_agree h false (rv_init k0) (sv_init k0) HK (Inv_init k0) (fun _ => HC) Hs).
Qed.

(* ---- C16_count ---------------------------------------------------------------------------------------------------- *)
Fixpoint n_commits (h : list (@op T)) : nat :=
  match h with [] => O | Commit _ :: t => Datatypes.S (n_commits t) | _ :: t => n_commits t end.
Definition no_rollbacks (h : list (@op T)) : Prop :=
  Forall (fun o => match o with Rollback | RollbackBefore _ | Reset => False | _ => True end) h.

Lemma committed_count : forall h (a : sv T), no_rollbacks h -> 0 < sk a -> (length (committed a) <= N.to_nat (sk a))%nat ->
  length (committed (srun a h)) = Nat.min (N.to_nat (sk (srun a h))) (length (committed a) + n_commits h) /\ sk (srun a h) = sk a.
Proof.
  induction h as [|o t IH]; intros a Hn Hk Hl; cbn [srun n_commits].
  - split; [lia|reflexivity].
  - inversion Hn as [|? ? Ho Ht]; subst.
    assert (Hsk : sk (fst (sstep a o)) = sk a /\ (match o with Commit _ => length (committed (fst (sstep a o))) = Nat.min (N.to_nat (sk a)) (Datatypes.S (length (committed a)))
                                                  | _ => committed (fst (sstep a o)) = committed a end)).
    { destruct o; try contradiction; cbn [sstep]; try (split; reflexivity).
      - destruct (i <? slen a); split; reflexivity.
      - destruct (i <? slen a); split; reflexivity.
      - destruct (i <? slen a); split; reflexivity.
      - destruct (get (contents a) i) as [[x|]|]; split; reflexivity.
      - destruct (first_none (contents a) 0); split; reflexivity.
      - destruct (sk a =? 0) eqn:E; [lia|]. cbn [fst sk committed]. split; [reflexivity|].
        unfold take. rewrite firstn_length. cbn [length]. lia. }
    destruct Hsk as [Hs1 Hs2].
    assert (P1 : 0 < sk (fst (sstep a o))) by (rewrite Hs1; exact Hk).
    assert (P2 : (length (committed (fst (sstep a o))) <= N.to_nat (sk (fst (sstep a o))))%nat).
    { rewrite Hs1. destruct o; try (rewrite Hs2; exact Hl). rewrite Hs2. lia. }
    destruct (IH (fst (sstep a o)) Ht P1 P2) as [I1 I2].
    rewrite I2, Hs1. split; [|reflexivity]. rewrite I1, I2, Hs1.
    destruct o; rewrite Hs2; lia.
Qed.

(* after a run of commits (any edits in between) with retention k0 > 0, exactly min k0 (number of commits)
   successive rollbacks succeed and the next one is refused with the vector unchanged *)
Theorem count k0 h : 0 < k0 -> no_rollbacks h -> final_ed false h = false ->
  strict false (rv_init k0) (sv_init k0) h ->
  exists s', rollbacks_ok tsize dec (Nat.min (N.to_nat k0) (n_commits h)) (run tsize enc dec (rv_init k0) h) s' /\
             rv_rollback tsize dec s' = (s', Err EIO).
Proof.
  intros Hk Hn Hf Hs. destruct (K_init k0 Hk) as [HK HC].
  destruct (strict_agree h false (rv_init k0) (sv_init k0) HK (Inv_init k0) (fun _ => HC) Hs) as (_ & HK' & _ & HC').
  destruct (committed_count h (sv_init k0) Hn Hk) as [E1 E2]; [cbn; lia|]. cbn [sv_init committed sk length] in E1, E2.
  rewrite E2 in E1. cbn [Nat.add] in E1. rewrite <- E1. apply rollback_count; auto.
Qed.
End CH.
