(* Vec/RvFindings.v — executable agreement checker between the raw-vector model and the reference
   vector (u64 elements), the decidable history classes (discipline; the class of the repaired findings 3/4),
   the histories of the repaired defects, and the small-scope alphabets.  No known class is left for raw
   vectors: the `_refuted` witnesses of findings 3/4 agree with the reference since the repair of write(). *)
From Anydb Require Import Common.Base Common.LE Vec.RegionSpec Vec.RvBase Vec.RvChange Vec.RvModel
  Vec.RvRollback Vec.RvSpec Vec.RvInst.

Definition optN_eqb (a b : option N) : bool :=
  match a, b with Some x, Some y => x =? y | None, None => true | _, _ => false end.
Fixpoint list_eqb {A} (e : A -> A -> bool) (a b : list A) : bool :=
  match a, b with
  | [], [] => true
  | x :: s, y :: t => e x y && list_eqb e s t
  | _, _ => false
  end.

(* results as the caller sees them; write()'s boolean is not part of the reference; the error KIND
   of a refused rollback is not part of it either *)
Definition res_agree (a : w_sv) (o : w_op) (m s : @ores N) : bool :=
  match m, s with
  | RPanic, _ => false
  | RBool _, RBool _ => true
  | RUnit, RUnit => true
  | RIdx a, RIdx b => a =? b
  | RVal a, RVal b => optN_eqb a b
  | RStamp a, RStamp b => a =? b
  | RErr _, RErr _ => true
  (* rollback_before with nothing to roll back (no retained commit): the code reports the missing
     directory as an error, the reference returns the current stamp; the state is compared *)
  | RErr _, RStamp _ => match o, committed a with RollbackBefore _, [] => true | _, _ => false end
  | _, _ => false
  end.

Definition state_agree (s : w_rv) (a : w_sv) : bool :=
  list_eqb optN_eqb (u64_view s) (contents a) && (stamp s =? sstamp a).

Fixpoint agree_from (s : w_rv) (a : w_sv) (h : list w_op) : bool :=
  match h with
  | [] => true
  | o :: t =>
    let '(s', r) := u64_step s o in
    let '(a', r') := w_sstep a o in
    res_agree a o r r' && state_agree s' a' && agree_from s' a' t
  end.
Definition agree (k0 : N) (h : list w_op) : bool := agree_from (w_init k0) (w_sinit k0) h.

(* ---- history classes, decided on the reference run ---------------------------------------------- *)

(* the histories C04/C16 quantify over: edits between commits; plain write()/flush()/re-import only
   when nothing changed since the last commit (or retention is off); increasing stamps; rollbacks
   start from a committed state; no reset_unsaved; no damaged records *)
Definition is_edit (o : w_op) : bool :=
  match o with Push _ | Truncate _ | Update _ _ | Delete _ | Take _ | Fill _ => true | _ => false end.
(* [edited]: an edit operation was issued since the last commit / rollback / reset / import (syntactic:
   a slot deleted again after a change is still an edit, because write() would store the change) *)
Definition op_disciplined (edited : bool) (a : w_sv) (o : w_op) : bool :=
  match o with
  | Write | Flush | Reimport => (sk a =? 0) || negb edited
  | StampedWrite _ => sk a =? 0
  | Commit st => sstamp a <? st
  | Rollback | RollbackBefore _ => negb edited
  | ResetUnsaved | FDelete _ | FTruncate _ _ | FOverwrite _ _ _ => false
  | _ => true
  end.
Definition next_edited (edited : bool) (o : w_op) : bool :=
  match o with
  | Commit _ | Rollback | RollbackBefore _ | Reset => false
  | _ => edited || is_edit o
  end.
Fixpoint disciplined_from (edited : bool) (a : w_sv) (h : list w_op) : bool :=
  match h with
  | [] => true
  | o :: t => op_disciplined edited a o && disciplined_from (next_edited edited o) (fst (w_sstep a o)) t
  end.
Definition disciplined (k0 : N) (h : list w_op) : bool := disciplined_from false (w_sinit k0) h.

(* the class of the repaired findings 3 and 4: a rollback that makes the vector LONGER (it undoes a truncating
   commit).  No statement excludes it any more; it is kept to show that the histories now covered include it. *)
Fixpoint kc_rollback_grows_from (a : w_sv) (h : list w_op) : bool :=
  match h with
  | [] => false
  | o :: t =>
    let a' := fst (w_sstep a o) in
    (match o with Rollback | RollbackBefore _ => slen a <? slen a' | _ => false end) || kc_rollback_grows_from a' t
  end.
Definition Class_rollback_of_truncation (k0 : N) (h : list w_op) : bool := kc_rollback_grows_from (w_sinit k0) h.

(* ---- the histories of the repaired findings 3/4 ---------------------------------------------------------- *)
Definition pushes (n : nat) : list w_op := map (fun i => Push (i + 100)) (seqN 0 n).

(* 3: 10 values, commit(1); truncate to 5, commit(2); rollback; push; write() (here inside a commit) *)
Definition wit3 : list w_op := pushes 10 ++ [Commit 1; Truncate 5; Commit 2; Rollback; Push 7; Commit 2].
(* 4: same; rollback; delete_at(6); write() *)
Definition wit4 : list w_op := pushes 10 ++ [Commit 1; Truncate 5; Commit 2; Rollback; Delete 6; Commit 2].

(* the LAST restored slot deleted before the commit: before the repair the region ended one slot short of stored_len *)
Definition wit_last : list w_op := pushes 27 ++ [Commit 1; Truncate 25; Commit 2; Rollback; Delete 26; Commit 2].
(* both at once, then two more rollbacks: back over the re-made commit and over the first one *)
Definition wit34 : list w_op :=
  pushes 10 ++ [Commit 1; Truncate 5; Commit 2; Rollback; Delete 6; Push 7; Update 8 1; Commit 2; Rollback; Rollback].

Lemma wit34_agree :
  (disciplined 3 wit3 = true /\ Class_rollback_of_truncation 3 wit3 = true /\ agree 3 wit3 = true) /\
  (disciplined 3 wit4 = true /\ Class_rollback_of_truncation 3 wit4 = true /\ agree 3 wit4 = true) /\
  (disciplined 3 wit_last = true /\ Class_rollback_of_truncation 3 wit_last = true /\ agree 3 wit_last = true) /\
  (disciplined 3 wit34 = true /\ Class_rollback_of_truncation 3 wit34 = true /\ agree 3 wit34 = true).
Proof. vm_compute. auto 20. Qed.
(* after each of them the region backs every stored slot (stored_len = on-disk length) and nothing is buffered *)
Definition settled (s : w_rv) : bool :=
  (stored_len s =? real_stored_len s) && (len (pushed s) =? 0) && (len (updated s) =? 0).
Lemma wit34_settled :
  settled (u64_run (w_init 3) wit3) = true /\ settled (u64_run (w_init 3) wit4) = true /\
  settled (u64_run (w_init 3) wit_last) = true /\ stored_len (u64_run (w_init 3) wit_last) = 27.
Proof. vm_compute. auto. Qed.

(* the histories that exhibited the repaired defects now agree with the reference *)
Definition fixed7 : list w_op := [Push 1; Delete 0; Update 0 2].
Definition fixedA : list w_op := pushes 4 ++ [Commit 1; Rollback; Commit 1; Rollback].
Definition fixedB1 : list w_op := [Commit 1; RollbackBefore 1; Commit 5; RollbackBefore 0].
Definition fixedB2 : list w_op := [Push 1; Commit 1; Push 2; Commit 2; RollbackBefore 2; Push 3; Commit 3; Rollback; Rollback].
Definition fixedC : list w_op :=
  pushes 2 ++ [Commit 1; Push 5; Push 6; Push 7; Commit 2; Truncate 1; Commit 3; Rollback; Update 4 9; Commit 3; Rollback].
(* chained rollback across a truncating commit (must not be refused by the 66f1482 validation) *)
Definition chain_trunc : list w_op :=
  pushes 3 ++ [Commit 1; Push 7; Push 8; Commit 2; Truncate 1; Commit 3; Rollback; Rollback; Rollback].
Lemma repaired_agree :
  agree 3 fixed7 = true /\ agree 3 fixedA = true /\ agree 3 fixedB1 = true /\ agree 2 fixedB2 = true /\
  agree 3 fixedC = true /\ agree 5 chain_trunc = true.
Proof. vm_compute. auto 10. Qed.

(* ---- small scope: every history over a fixed alphabet up to a fixed length -------------------------------- *)
Fixpoint all_hist (alpha : list w_op) (n : nat) : list (list w_op) :=
  match n with
  | O => [[]]
  | S m => [] :: flat_map (fun h => map (fun o => o :: h) alpha) (all_hist alpha m)
  end.
Definition ok_hist (k0 : N) (h : list w_op) : bool :=
  negb (disciplined k0 h) || agree k0 h.

Definition alpha_c03 : list w_op :=
  [Push 7; Truncate 0; Truncate 1; Write; Reimport; Reset; Update 0 9; Update 1 9; Delete 0; Delete 1; Take 0; Fill 5].
Definition alpha_c04 : list w_op :=
  [Push 7; Truncate 1; Update 0 9; Delete 0; Commit 1; Commit 2; Commit 3; Rollback; RollbackBefore 1; RollbackBefore 2; Reimport].
