(* Vec/CvPagesProofs.v — lemmas about chunks, the page-index codec on whole lists, last_opt,
   pages_stored_len, set_changed_at and Pages::flush. *)
From Anydb Require Import Common.Base Common.LE Gen.Consts Gen.Sizes Codec.Vecdb Codec.VecdbProofs
  Vec.CvRegion Vec.CvPages.

(* ---- small list facts in N coordinates ---------------------------------------------------- *)
Lemma len_0_nil {A} (l : list A) : len l = 0 -> l = [].
Proof. destruct l; [auto|]. rewrite len_cons. lia. Qed.

Lemma len_map {A B} (f : A -> B) l : len (map f l) = len l.
Proof. unfold len. now rewrite map_length. Qed.

Lemma take_all {A} n (l : list A) : len l <= n -> take n l = l.
Proof. unfold take, len. intros. apply firstn_all2. lia. Qed.

Lemma drop_all {A} n (l : list A) : len l <= n -> drop n l = [].
Proof. unfold drop, len. intros. apply skipn_all2. lia. Qed.

Lemma take_0 {A} (l : list A) : take 0 l = [].
Proof. reflexivity. Qed.
Lemma drop_0 {A} (l : list A) : drop 0 l = l.
Proof. reflexivity. Qed.

Lemma take_app_le {A} n (a b : list A) : n <= len a -> take n (a ++ b) = take n a.
Proof. unfold take, len. intros. apply firstn_app_le. lia. Qed.

Lemma take_app_ge {A} n (a b : list A) : len a <= n -> take n (a ++ b) = a ++ take (n - len a) b.
Proof.
  unfold take, len. intros. rewrite firstn_app. rewrite firstn_all2 by lia.
  f_equal. f_equal. lia.
Qed.

Lemma drop_app_le {A} n (a b : list A) : n <= len a -> drop n (a ++ b) = drop n a ++ b.
Proof. unfold drop, len. intros. apply skipn_app_le. lia. Qed.

Lemma drop_app_ge {A} n (a b : list A) : len a <= n -> drop n (a ++ b) = drop (n - len a) b.
Proof.
  unfold drop, len. intros. rewrite skipn_app_ge by lia. f_equal. lia.
Qed.

Lemma map_take {A B} (f : A -> B) n l : map f (take n l) = take n (map f l).
Proof. unfold take. now rewrite firstn_map. Qed.
Lemma map_drop {A B} (f : A -> B) n l : map f (drop n l) = drop n (map f l).
Proof. unfold drop. now rewrite skipn_map. Qed.

Lemma get_app_l {A} (a b : list A) i : i < len a -> get (a ++ b) i = get a i.
Proof.
  unfold get, len. intros H. rewrite !nth_opt_nth_error. apply nth_error_app1. lia.
Qed.
Lemma get_app_r {A} (a b : list A) i : len a <= i -> get (a ++ b) i = get b (i - len a).
Proof.
  unfold get, len. intros H. rewrite !nth_opt_nth_error. rewrite nth_error_app2 by lia.
  f_equal. lia.
Qed.
Lemma get_0 {A} (x : A) l : get (x :: l) 0 = Some x.
Proof. reflexivity. Qed.
Lemma get_none {A} (l : list A) i : len l <= i -> get l i = None.
Proof. unfold get, len. intros. rewrite nth_opt_nth_error. apply nth_error_None. lia. Qed.

Lemma slice_mid {A} (a b c : list A) : slice (len a) (len a + len b) (a ++ b ++ c) = b.
Proof.
  unfold slice. rewrite drop_app_exact by reflexivity.
  replace (len a + len b - len a) with (len b) by lia.
  now apply take_app_exact.
Qed.

(* ---- last_opt -------------------------------------------------------------------------------- *)
Lemma last_opt_app {A} (l : list A) x : last_opt (l ++ [x]) = Some x.
Proof.
  induction l as [|a l IH]; [reflexivity|].
  cbn [app last_opt]. destruct (l ++ [x]) eqn:E.
  - destruct l; discriminate.
  - exact IH.
Qed.
Lemma last_opt_nil {A} : last_opt (@nil A) = None.
Proof. reflexivity. Qed.
Lemma last_opt_none {A} (l : list A) : last_opt l = None -> l = [].
Proof.
  destruct l as [|a l]; [auto|]. intros H. exfalso.
  destruct (exists_last (l := a :: l)) as (l' & x & E); [discriminate|].
  rewrite E, last_opt_app in H. discriminate.
Qed.
Lemma list_snoc_cases {A} (l : list A) : l = [] \/ exists l' x, l = l' ++ [x].
Proof.
  destruct l as [|a l]; [now left|right].
  destruct (exists_last (l := a :: l)) as (l' & x & E); [discriminate|]. eauto.
Qed.

(* ---- chunks ---------------------------------------------------------------------------------- *)
Lemma chunks_f_fuel {A} n (Hn : 0 < n) : forall f1 f2 (l : list A),
  (length l <= f1)%nat -> (length l <= f2)%nat -> chunks_f f1 n l = chunks_f f2 n l.
Proof.
  induction f1 as [|f1 IH]; intros f2 l H1 H2.
  - destruct l; [|cbn in H1; lia]. destruct f2; reflexivity.
  - destruct f2 as [|f2].
    + destruct l; [reflexivity|cbn in H2; lia].
    + cbn [chunks_f]. destruct l as [|a l]; [reflexivity|].
      f_equal. apply IH; unfold drop; rewrite skipn_length; cbn [length] in *; lia.
Qed.

Lemma chunks_nil {A} n : chunks n (@nil A) = [].
Proof. reflexivity. Qed.

Lemma chunks_cons {A} n (l : list A) : 0 < n -> l <> [] -> chunks n l = take n l :: chunks n (drop n l).
Proof.
  intros Hn Hl. unfold chunks. destruct l as [|a l]; [congruence|].
  cbn [length chunks_f]. f_equal.
  apply chunks_f_fuel; auto; unfold drop; rewrite skipn_length; cbn [length]; lia.
Qed.

(* blocks of exactly n elements are recovered *)
Lemma chunks_concat_blocks {A} n (bs : list (list A)) :
  0 < n -> Forall (fun b => len b = n) bs -> chunks n (concat bs) = bs.
Proof.
  intros Hn H. induction H as [|b bs Hb Hbs IH]; [reflexivity|].
  cbn [concat]. rewrite chunks_cons; auto.
  - rewrite take_app_exact, drop_app_exact by auto. now rewrite IH.
  - destruct b; [rewrite len_nil in Hb; lia|discriminate].
Qed.

(* the shape of chunks n l: all chunks but the last have n elements, the last has 1..n *)
Inductive chunked {A} (n : N) : list (list A) -> Prop :=
| chunked_nil : chunked n []
| chunked_last c : 1 <= len c -> len c <= n -> chunked n [c]
| chunked_cons c t : len c = n -> t <> [] -> chunked n t -> chunked n (c :: t).

Lemma chunks_spec {A} n (Hn : 0 < n) : forall (k : nat) (l : list A), (length l <= k)%nat ->
  chunked n (chunks n l) /\ concat (chunks n l) = l.
Proof.
  induction k as [|k IH]; intros l Hk.
  - destruct l; [|cbn in Hk; lia]. split; [constructor|reflexivity].
  - destruct l as [|a l]; [split; [constructor|reflexivity]|].
    rewrite chunks_cons by (auto; discriminate).
    set (l0 := a :: l) in *.
    assert (Hd : (length (drop n l0) <= k)%nat).
    { unfold drop. rewrite skipn_length. subst l0. cbn [length] in *. lia. }
    destruct (IH _ Hd) as [IH1 IH2]. split.
    + destruct (chunks n (drop n l0)) eqn:E.
      * apply chunked_last; rewrite len_take; subst l0; rewrite len_cons; lia.
      * apply chunked_cons; auto; [|discriminate].
        rewrite len_take. destruct (N.le_gt_cases n (len l0)) as [?|Hlt]; [lia|].
        exfalso. rewrite drop_all in E by lia. discriminate.
    + cbn [concat]. rewrite IH2. apply take_drop.
Qed.

Lemma chunks_chunked {A} n (l : list A) : 0 < n -> chunked n (chunks n l).
Proof. intros Hn. exact (proj1 (chunks_spec n Hn (length l) l (Nat.le_refl _))). Qed.
Lemma chunks_concat {A} n (l : list A) : 0 < n -> concat (chunks n l) = l.
Proof. intros Hn. exact (proj2 (chunks_spec n Hn (length l) l (Nat.le_refl _))). Qed.

(* ---- the index codec on whole lists ------------------------------------------------------------ *)
Lemma len_page_to_bytes p : len (page_to_bytes p) = SIZE_OF_PAGE.
Proof. unfold page_to_bytes. rewrite !len_app, len_enc_u64, !len_enc_u32. reflexivity. Qed.

Lemma len_encode_pages l : len (encode_pages l) = len l * SIZE_OF_PAGE.
Proof.
  induction l as [|p l IH]; [reflexivity|].
  cbn [encode_pages flat_map]. fold (encode_pages l).
  rewrite len_app, len_page_to_bytes, len_cons, IH. lia.
Qed.

Lemma encode_pages_app a b : encode_pages (a ++ b) = encode_pages a ++ encode_pages b.
Proof. unfold encode_pages. now rewrite flat_map_app. Qed.

Lemma encode_pages_concat l : encode_pages l = concat (map page_to_bytes l).
Proof. unfold encode_pages. now rewrite flat_map_concat_map. Qed.

Lemma decode_encode_pages l :
  Forall (fun p => valid_page p = true) l -> decode_pages (encode_pages l) = Ok l.
Proof.
  intros H. unfold decode_pages. rewrite encode_pages_concat.
  rewrite chunks_concat_blocks.
  2: reflexivity.
  2:{ apply Forall_forall. intros b Hb. apply in_map_iff in Hb as (p & <- & _). apply len_page_to_bytes. }
  induction H as [|p l Hp Hl IH]; [reflexivity|].
  cbn [map collect_res]. rewrite page_roundtrip by exact Hp. cbn [lift_v bind].
  rewrite IH. reflexivity.
Qed.

(* ---- set_changed_at ------------------------------------------------------------------------------ *)
Lemma set_changed_at_some c pi : c <= pi -> set_changed_at (Some c) pi = Some c.
Proof. intros. unfold set_changed_at. destruct (pi <? c) eqn:E; [lia|reflexivity]. Qed.
