(* Vec/CvInstProofs.v — the executable instance of Vec/CvInst.v satisfies every hypothesis of the
   Inv section (so the hypotheses are jointly satisfiable and the extracted engine is covered by
   the theorems), and the theorems specialised to it. *)
From Anydb Require Import Common.Base Common.LE Gen.Consts Gen.Sizes Codec.Vecdb Codec.VecdbProofs
  Vec.CvRegion Vec.CvPages Vec.CvPagesProofs Vec.CvModel Vec.CvInv Vec.CvInst.
From Coq Require Import Eqdep_dec.

Lemma x_le_enc_eq w : forall v, x_le_enc w v = le_enc w v.
Proof.
  induction w as [|w IH]; intros v; [reflexivity|].
  cbn [x_le_enc le_enc]. rewrite IH. f_equal.
  - change 255 with (N.ones 8). rewrite N.land_ones. reflexivity.
  - f_equal. rewrite N.shiftr_div_pow2. reflexivity.
Qed.

Lemma x_enc_len w (t : xT w) : len (x_enc w t) = N.of_nat w.
Proof. unfold x_enc. rewrite x_le_enc_eq. apply le_enc_len. Qed.

Lemma mk_x_ok w v (H : x_ok w v = true) : mk_x w v = exist _ v H.
Proof.
  unfold mk_x.
  generalize (eq_refl (x_ok w v)).
  generalize (x_ok w v) at 2 3. intros b. destruct b; intros e.
  - f_equal. apply UIP_dec. apply Bool.bool_dec.
  - congruence.
Qed.

Lemma x_dec_enc w (t : xT w) : x_dec w (x_enc w t) = t.
Proof.
  destruct t as [v H]. unfold x_dec, x_enc, x_val. cbn [proj1_sig].
  rewrite x_le_enc_eq, le_dec_enc.
  - apply mk_x_ok.
  - unfold x_ok in H. now apply N.ltb_lt in H.
Qed.

Lemma len_x_bytes w (l : list (xT w)) : len (x_bytes w l) = len l * N.of_nat w.
Proof.
  induction l as [|t l IH]; [reflexivity|].
  unfold x_bytes in *. cbn [flat_map]. rewrite len_app, x_enc_len, IH, len_cons. lia.
Qed.

Lemma x_decode_bytes w (l : list (xT w)) rest :
  decode_vals (xT w) (N.of_nat w) (x_dec w) (length l) (x_bytes w l ++ rest) = l.
Proof.
  induction l as [|t l IH]; [reflexivity|].
  cbn [length decode_vals]. unfold x_bytes in *. cbn [flat_map].
  rewrite <- app_assoc. rewrite take_app_exact, drop_app_exact by (now rewrite x_enc_len).
  now rewrite x_dec_enc, IH.
Qed.

Lemma x_codec_rt w k (l : list (xT w)) : x_decompress w (x_compress w k l) (len l) = Some l.
Proof.
  unfold x_compress, x_decompress.
  destruct ((k =? 0) || (two32 <=? k)).
  - assert (E : match map CB (x_bytes w l) with CX p :: _ => p | _ => map cell_byte (map CB (x_bytes w l)) end
                = x_bytes w l).
    { rewrite map_map. cbn. rewrite map_id. destruct (x_bytes w l); reflexivity. }
    rewrite E, len_x_bytes, N.eqb_refl. f_equal.
    unfold len. rewrite Nat2N.id. rewrite <- (app_nil_r (x_bytes w l)). apply x_decode_bytes.
  - rewrite len_x_bytes, N.eqb_refl. f_equal.
    unfold len. rewrite Nat2N.id. rewrite <- (app_nil_r (x_bytes w l)). apply x_decode_bytes.
Qed.

Lemma x_compress_small w k (l : list (xT w)) :
  0 < N.of_nat w ->
  len l <= MAX_UNCOMPRESSED_PAGE_SIZE / N.of_nat w -> len (x_compress w k l) < two32.
Proof.
  intros Hw Hl.
  assert (H : len l * N.of_nat w < two32).
  { assert (MAX_UNCOMPRESSED_PAGE_SIZE = 16384) by reflexivity. unfold two32.
    pose proof (N.mul_div_le MAX_UNCOMPRESSED_PAGE_SIZE (N.of_nat w) ltac:(lia)). nia. }
  unfold x_compress.
  destruct ((k =? 0) || (two32 <=? k)) eqn:E.
  - now rewrite len_map, len_x_bytes.
  - apply orb_false_iff in E as [E1 E2]. apply N.eqb_neq in E1. apply N.leb_gt in E2.
    rewrite len_cons, len_repeat. lia.
Qed.

(* every hypothesis of the Inv section holds for the extracted instance: size = N.of_nat w (0 < w <= 16384),
   x_enc_len, x_dec_enc, x_codec_rt, x_compress_small *)
Example x_hypotheses_satisfiable :
  exists s0, x_import 8 FORMAT_PCO 8 0 [] [] = Ok s0 /\
    s_stored_len (fst (x_step 8 FORMAT_PCO 8 (fst (x_step 8 FORMAT_PCO 8 s0 (Push (x_mk_list 8 [1; 2; 3]))))
                               (Write []))) = 3.
Proof. eexists. split; [reflexivity|]. now vm_compute. Qed.

(* ---- C04, compressed: the chain of rollbacks across a truncating commit is refused (known finding) ------------ *)
(* commit [0,1,2,3] @1; push 9, commit @2; truncate to 1, commit @3; rollback (ok: back to 5 values, stamp 2,
   stored_len clamped to 1, four values re-queued); rollback again: the retained record of stamp 2 is refused. *)
Definition x_chain_history : list (x_op 8) :=
  [Push (x_mk_list 8 [0; 1; 2; 3]); StampedWrite 1 []; Push (x_mk_list 8 [9]); StampedWrite 2 [];
   Trunc 1; StampedWrite 3 []; Rollback].

Definition x_run8 (k : N) (h : list (x_op 8)) : option (x_cvs 8) :=
  match x_import 8 FORMAT_LZ4 8 k [] [] with
  | Ok s0 => Some (fold_left (fun s o => fst (x_step 8 FORMAT_LZ4 8 s o)) h s0)
  | _ => None
  end.

(* full statement: whenever the record of the current stamp is retained, rollback() succeeds *)
Definition C04_comp_chain_full_stmt : Prop :=
  forall (h : list (x_op 8)) s,
    x_run8 3 h = Some s ->
    (exists dir bs, s_changes s = Some dir /\ lookup_file dir (cv_stamp s) = Some bs) ->
    snd (x_step 8 FORMAT_LZ4 8 s Rollback) = Ok false.

Definition x_chain_check : bool :=
  match x_run8 3 x_chain_history with
  | Some s =>
      match s_changes s with
      | Some dir =>
          match lookup_file dir (cv_stamp s) with
          | Some _ => match snd (x_step 8 FORMAT_LZ4 8 s Rollback) with Err EIndexTooHigh => true | _ => false end
          | None => false
          end
      | None => false
      end
  | None => false
  end.

Lemma x_chain_check_true : x_chain_check = true.
Proof. vm_compute. reflexivity. Qed.

Lemma x_chain_refuted : ~ C04_comp_chain_full_stmt.
Proof.
  intros H. pose proof x_chain_check_true as C. unfold x_chain_check in C.
  destruct (x_run8 3 x_chain_history) as [s|] eqn:E; [|discriminate].
  destruct (s_changes s) as [dir|] eqn:Ed; [|discriminate].
  destruct (lookup_file dir (cv_stamp s)) as [bs|] eqn:El; [|discriminate].
  specialize (H x_chain_history s E ltac:(eauto)).
  rewrite H in C. discriminate.
Qed.

(* … while the first rollback of that history restored the committed state exactly *)
Example x_chain_first_rollback_exact :
  match x_run8 3 x_chain_history with
  | Some s => match x_collect 8 s with
              | Ok l => (x_vals l, cv_stamp s) = ([0; 1; 2; 3; 9], 2)
              | _ => False
              end
  | None => False
  end.
Proof.
  assert (C : match x_run8 3 x_chain_history with
              | Some s => match x_collect 8 s with
                          | Ok l => (x_vals l, cv_stamp s) = ([0; 1; 2; 3; 9], 2)
                          | _ => False
                          end
              | None => False
              end) by (vm_compute; reflexivity).
  exact C.
Qed.
