(* Vec/RdProofs.v — theorems about the raw read-path models of RdModel.
   `good c s ys`: the stream s neither panics nor decodes bytes outside the valid data, hands exactly
   ys to the caller, and every byte range it fetches ends at or below the region length.  One
   statement per path therefore carries both the C08 and the C20 claim.
   Proved here for ALL well-formed states (including stored_len above the on-disk length) and ALL
   requests: fold_dirty / try_fold_dirty, read_into_at (memcpy, fold_source, dirty), fold_range_at,
   try_fold_range_at, both scan back-ends (RawMmapSource, RawIoSource with its refill arithmetic),
   collect_one_at, get_any_or_read_at, collect_holed_range, read_at_once, read_ref_at,
   fold_stored_{io,mmap}, early exit; for the states without a pending rollback overlay: VecReader,
   get_pushed_or_read_at and the lean clone's paths (the unrestricted statements are refuted). *)
From Anydb Require Import Common.Base Gen.Consts Gen.Sizes Vec.RdModel.

Definition wf (c : rstate) : Prop := wf_b c = true.
Definition in_region (c : rstate) (a : acc) : Prop := fst a + snd a <= region_len c.
Definition goodP (P : acc -> Prop) (s : stream) (ys : list N) : Prop :=
  yields s = ys /\ clean s = true /\ Forall P (fetches s).
Definition good (c : rstate) := goodP (in_region c).
Definition accesses_ok (c : rstate) (s : stream) : Prop := Forall (in_region c) (fetches s).
Definition not_expanded (c : rstate) : Prop := r_stored c <= len (r_disk c).

Ltac triv := unfold good, goodP, accesses_ok; cbn; repeat split; try constructor; auto.

(* ------------------------------------------------------------------ streams *)
Lemma goodP_nil (P : acc -> Prop) : goodP P [] [].
Proof. triv. Qed.
Lemma goodP_app (P : acc -> Prop) a b ya yb : goodP P a ya -> goodP P b yb -> goodP P (a ++ b) (ya ++ yb).
Proof.
  revert ya. induction a as [|e a IH]; intros ya (Y & C & F) Hb.
  - cbn in Y. subst ya. exact Hb.
  - destruct e; cbn in Y, C, F; try discriminate.
    + inversion F; subst.
      destruct (IH (yields a)) as (Y' & C' & F'); [split; [|split]; auto|auto|].
      unfold goodP; cbn. split; [exact Y'|split; [exact C'|constructor; auto]].
    + destruct (IH (yields a)) as (Y' & C' & F'); [split; [|split]; auto|auto|].
      subst ya. unfold goodP; cbn. split; [now rewrite Y'|split; auto].
Qed.
Lemma goodP_flat_map {K} (P : acc -> Prop) (h : K -> stream) (Y : K -> list N) ks :
  (forall k, In k ks -> goodP P (h k) (Y k)) -> goodP P (flat_map h ks) (flat_map Y ks).
Proof.
  induction ks as [|k ks IH]; intros H; cbn; [apply goodP_nil|].
  apply goodP_app; [apply H; now left|apply IH; intros; apply H; now right].
Qed.
Lemma goodP_yields (P : acc -> Prop) l : goodP P (map Yield l) l.
Proof. induction l as [|x l (Y & C & F)]; [triv|]. unfold goodP; cbn. split; [now rewrite Y|split; auto]. Qed.
Lemma goodP_fetch (P : acc -> Prop) o l s ys : P (o, l) -> goodP P s ys -> goodP P (Fetch o l :: s) ys.
Proof. intros H (Y & C & F). unfold goodP; cbn. split; [auto|split; auto]. Qed.
Lemma goodP_eq (P : acc -> Prop) s ys ys' : ys = ys' -> goodP P s ys -> goodP P s ys'.
Proof. now intros ->. Qed.
Lemma goodP_weaken (P Q : acc -> Prop) s ys : (forall a, P a -> Q a) -> goodP P s ys -> goodP Q s ys.
Proof. intros H (Y & C & F). repeat split; auto. eapply Forall_impl; eauto. Qed.

Lemma run_aux_clean s : forall ya fa, clean s = true ->
  run_aux s ya false fa = (ROk (rev ya ++ yields s), rev fa ++ fetches s).
Proof.
  induction s as [|e s IH]; intros ya fa C; cbn.
  - now rewrite !rev_append_rev, !app_nil_r.
  - destruct e; cbn in C; try discriminate; rewrite IH by auto; cbn; now rewrite <- !app_assoc.
Qed.
(* what `run` (the function the differential engine executes) returns for a good stream *)
Lemma goodP_run (P : acc -> Prop) s ys : goodP P s ys -> run s = (ROk ys, fetches s).
Proof. intros (Y & C & _). unfold run. rewrite run_aux_clean by auto. now rewrite Y. Qed.

Lemma flat_map_ext_in {A B} (F G : A -> list B) l : (forall k, In k l -> F k = G k) -> flat_map F l = flat_map G l.
Proof. induction l; cbn; intros H; auto. rewrite H by now left. f_equal. apply IHl. intros; apply H; now right. Qed.

Lemma seqN_app a n m : seqN a (n + m) = seqN a n ++ seqN (a + N.of_nat n) m.
Proof.
  revert a; induction n; intros a.
  - cbn [plus seqN app]. replace (a + N.of_nat 0) with a by lia. reflexivity.
  - cbn [plus seqN app]. rewrite IHn. replace (a + 1 + N.of_nat n) with (a + N.of_nat (S n)) by lia. reflexivity.
Qed.
Lemma seqN_split f m t : f <= m -> m <= t ->
  seqN f (N.to_nat (t - f)) = seqN f (N.to_nat (m - f)) ++ seqN m (N.to_nat (t - m)).
Proof.
  intros. replace (N.to_nat (t - f)) with (N.to_nat (m - f) + N.to_nat (t - m))%nat by lia.
  rewrite seqN_app. do 2 f_equal. lia.
Qed.

(* ------------------------------------------------------------------ lists *)
Lemma nth_opt_none {A} (l : list A) n : (length l <= n)%nat -> nth_opt l n = None.
Proof. revert n; induction l; destruct n; cbn; intros; auto; try lia. apply IHl. lia. Qed.
Lemma nth_opt_some {A} (l : list A) n : (n < length l)%nat -> exists v, nth_opt l n = Some v.
Proof. revert n; induction l; destruct n; cbn; intros; try lia; eauto. apply IHl. lia. Qed.
Lemma nth_n_get {A} (l : list A) i : nth_n l i = get l i.
Proof.
  unfold nth_n, get, len. destruct (N.leb_spec (N.of_nat (length l)) i); auto.
  symmetry. apply nth_opt_none. lia.
Qed.
Lemma get_some {A} (l : list A) i : i < len l -> exists v, get l i = Some v.
Proof. unfold get, len. intros. apply nth_opt_some. lia. Qed.
Lemma get_none {A} (l : list A) i : len l <= i -> get l i = None.
Proof. unfold get, len. intros. apply nth_opt_none. lia. Qed.
Lemma get_some_lt {A} (l : list A) i v : get l i = Some v -> i < len l.
Proof. intros H. destruct (N.lt_ge_cases i (len l)); auto. rewrite get_none in H by auto. discriminate. Qed.

Lemma skipn_step {A} (l : list A) : forall n,
  match skipn n l with
  | [] => nth_opt l n = None /\ skipn (S n) l = []
  | x :: r => nth_opt l n = Some x /\ skipn (S n) l = r
  end.
Proof.
  induction l as [|a l IH]; intros n.
  - rewrite !skipn_nil. destruct n; auto.
  - destruct n; [cbn; auto|]. cbn [skipn nth_opt]. apply IH.
Qed.
Lemma drop_step {A} (d : list A) j :
  match drop j d with
  | [] => get d j = None /\ drop (j + 1) d = []
  | x :: r => get d j = Some x /\ drop (j + 1) d = r
  end.
Proof.
  unfold drop, get. replace (N.to_nat (j + 1)) with (S (N.to_nat j)) by lia. apply skipn_step.
Qed.
Lemma dra_step (d : list N) j n :
  disk_range_aux (drop j d) (S n) = get d j :: disk_range_aux (drop (j + 1) d) n.
Proof.
  pose proof (drop_step d j) as H. cbn [disk_range_aux].
  destruct (drop j d); destruct H as [-> ->]; reflexivity.
Qed.

(* ------------------------------------------------------------------ the scan lemma: every element-wise loop
   of the read paths emits, for the index i and the decoded element o, a stream `g i o` *)
Fixpoint scan (g : N -> option N -> stream) (i : N) (l : list (option N)) : stream :=
  match l with [] => [] | o :: r => g i o ++ scan g (i + 1) r end.

Lemma scan_good (P : acc -> Prop) g Y (d : list N) : forall n i j,
  (forall k, (k < n)%nat -> goodP P (g (i + N.of_nat k) (get d (j + N.of_nat k))) (Y (i + N.of_nat k))) ->
  goodP P (scan g i (disk_range_aux (drop j d) n)) (flat_map Y (seqN i n)).
Proof.
  induction n as [|n IH]; intros i j H; [apply goodP_nil|].
  rewrite dra_step. cbn [scan seqN flat_map]. apply goodP_app.
  - specialize (H O ltac:(lia)). cbn in H. now rewrite !N.add_0_r in H.
  - apply IH. intros k Hk. specialize (H (S k) ltac:(lia)).
    replace (i + 1 + N.of_nat k) with (i + N.of_nat (S k)) by lia.
    replace (j + 1 + N.of_nat k) with (j + N.of_nat (S k)) by lia. exact H.
Qed.
Lemma scan_range_good (P : acc -> Prop) g Y (d : list N) i j t :
  (forall k, k < t - j -> goodP P (g (i + k) (get d (j + k))) (Y (i + k))) ->
  goodP P (scan g i (disk_range d j t)) (flat_map Y (seqN i (N.to_nat (t - j)))).
Proof. intros H. unfold disk_range. apply scan_good. intros k Hk. apply H. lia. Qed.

Lemma ptr_evs_scan c l : forall i, ptr_evs c i l = scan (fun k o => [Fetch (eoff c k) (r_sz c); ev_of o]) i l.
Proof. induction l; intros; cbn; auto. now rewrite IHl. Qed.
Lemma dirty_stored_scan c l : forall i, dirty_stored_evs c i l =
  scan (fun k o => if is_hole c k then [] else match upd_get c k with
                                               | Some u => [Yield u]
                                               | None => [Fetch (eoff c k) (r_sz c); ev_of o] end) i l.
Proof. induction l; intros; cbn; auto. now rewrite IHl. Qed.
Lemma dirty_pushed_scan c l : forall i, dirty_pushed_evs c i l =
  scan (fun k o => if is_hole c k then [] else map Yield (opt_list o)) i l.
Proof. induction l; intros; cbn; auto. now rewrite IHl. Qed.
Lemma map_ev_scan l : forall i, map ev_of l = scan (fun _ o => [ev_of o]) i l.
Proof. induction l; intros; cbn; auto. now rewrite (IHl (i + 1)). Qed.
Lemma firstn_scan (l : list N) : forall n i,
  map Yield (firstn n l) = scan (fun _ o => map Yield (opt_list o)) i (disk_range_aux l n).
Proof.
  induction l as [|x l IH]; intros n i.
  - rewrite firstn_nil. revert i; induction n; intros; cbn; auto.
  - destruct n; cbn; auto. now rewrite (IH n (i + 1)).
Qed.
Lemma slice_scan (l : list N) a b i :
  map Yield (slice a b l) = scan (fun _ o => map Yield (opt_list o)) i (disk_range l a b).
Proof. unfold slice, take, disk_range. apply firstn_scan. Qed.

(* ------------------------------------------------------------------ well-formedness *)
Lemma wf_parts c : wf c ->
  0 < r_sz c /\ r_sz c <= BUFFER_SIZE
  /\ forallb (fun i => is_hole c i || match upd_get c i with Some _ => true | None => false end)
       (seqN (len (r_disk c)) (N.to_nat (r_stored c - len (r_disk c)))) = true.
Proof.
  unfold wf, wf_b. intros H.
  apply andb_prop in H as [H H3]. apply andb_prop in H as [H _]. apply andb_prop in H as [H1 H2].
  repeat split; auto; lia.
Qed.
Lemma wf_sz c : wf c -> 0 < r_sz c.
Proof. intros H. now apply wf_parts in H. Qed.

(* R3 / R3' of DESIGN appendix B.1: a stored index that is neither deleted nor overlaid is on disk *)
Lemma wf_on_disk c i :
  wf c -> i < r_stored c -> is_hole c i = false -> upd_get c i = None -> i < len (r_disk c).
Proof.
  intros W Hi Hh Hu. apply wf_parts in W as (_ & _ & H).
  destruct (N.lt_ge_cases i (len (r_disk c))) as [|Hge]; auto.
  rewrite forallb_forall in H. specialize (H i).
  rewrite Hh, Hu in H. cbn in H.
  assert (In i (seqN (len (r_disk c)) (N.to_nat (r_stored c - len (r_disk c))))) by (apply in_seqN; lia).
  specialize (H H0). discriminate.
Qed.

Lemma dirty_false c : dirty c = false -> r_holes c = [] /\ r_upd c = [].
Proof. unfold dirty. destruct (r_holes c), (r_upd c); cbn; intros; try discriminate; auto. Qed.
Lemma clean_no_hole c i : dirty c = false -> is_hole c i = false /\ upd_get c i = None.
Proof. intros H. apply dirty_false in H as [H1 H2]. unfold is_hole, upd_get. now rewrite H1, H2. Qed.
(* a state without overlays has all its stored indices on disk *)
Lemma clean_not_expanded c : wf c -> dirty c = false -> not_expanded c.
Proof.
  intros W D. unfold not_expanded.
  destruct (N.le_gt_cases (r_stored c) (len (r_disk c))) as [|H]; auto.
  destruct (clean_no_hole c (len (r_disk c)) D) as [Hh Hu].
  pose proof (wf_on_disk c _ W H Hh Hu). lia.
Qed.

Lemma eoff_in_region c i : i < len (r_disk c) -> eoff c i + r_sz c <= region_len c.
Proof. unfold eoff, region_len. nia. Qed.
Lemma elem_on_disk c i : i < len (r_disk c) ->
  good c [Fetch (eoff c i) (r_sz c); ev_of (get (r_disk c) i)] (opt_list (get (r_disk c) i)).
Proof.
  intros H. destruct (get_some _ _ H) as [v ->]. cbn. repeat split; auto.
  constructor; [|constructor]. unfold in_region; cbn. now apply eoff_in_region.
Qed.
Lemma read_elem_good c i : i < len (r_disk c) -> good c (read_elem c i) (opt_list (get (r_disk c) i)).
Proof. intros. unfold read_elem. rewrite nth_n_get. now apply elem_on_disk. Qed.

Definition V (c : rstate) (k : N) : list N := opt_list (view c k).
Definition D (c : rstate) (k : N) : list N := opt_list (get (r_disk c) k).

Lemma view_stored_plain c k : k < r_stored c -> is_hole c k = false -> upd_get c k = None -> V c k = D c k.
Proof. intros. unfold V, D, view. rewrite !nth_n_get. replace (k <? r_stored c) with true by lia. now rewrite H0, H1. Qed.
Lemma view_pushed c k : r_stored c <= k -> is_hole c k = false -> V c k = opt_list (get (r_pushed c) (k - r_stored c)).
Proof. intros. unfold V, view. rewrite !nth_n_get. replace (k <? r_stored c) with false by lia. now rewrite H0. Qed.

Lemma expected_eq c from to :
  expected c from to =
  flat_map (V c) (seqN (N.min from (rlen c)) (N.to_nat (N.min to (rlen c) - N.min from (rlen c)))).
Proof. reflexivity. Qed.

(* ------------------------------------------------------------------ index-addressed paths *)
Theorem get_any_good c i : wf c -> good c (get_any c i) (V c i).
Proof.
  intros W. unfold get_any, V, view. rewrite ?nth_n_get.
  destruct (is_hole c i) eqn:Hh; [apply goodP_nil|].
  destruct (N.leb_spec (r_stored c) i) as [Hs|Hs].
  - replace (i <? r_stored c) with false by lia. apply goodP_yields.
  - replace (i <? r_stored c) with true by lia.
    destruct (upd_get c i) eqn:Hu; [triv|].
    apply read_elem_good. now apply wf_on_disk.
Qed.
Theorem collect_one_good c i : wf c -> good c (collect_one_at c i) (opt_list (expected_one c i)).
Proof.
  intros W. unfold collect_one_at, expected_one.
  destruct (N.leb_spec (rlen c) i) as [Hl|Hl].
  - replace (i <? rlen c) with false by lia. apply goodP_nil.
  - replace (i <? rlen c) with true by lia.
    destruct (dirty c) eqn:Hd; [now apply get_any_good|].
    destruct (clean_no_hole c i Hd) as [Hh Hu].
    pose proof (get_any_good c i W) as G. unfold get_any in G. rewrite Hh, Hu in G. exact G.
Qed.
(* collect_holed_range: position k of the result is the element of index from+k or nothing *)
Theorem holed_range_good c from to : wf c ->
  Forall2 (fun s k => good c s (V c k)) (holed_range c from to)
          (seqN (N.min from (rlen c)) (N.to_nat (N.min to (rlen c) - N.min from (rlen c)))).
Proof.
  intros W. unfold holed_range.
  induction (seqN _ _) as [|k ks IH]; cbn; constructor; auto. now apply get_any_good.
Qed.
(* read_at / read_at_once (repaired: buffered indices come from the pushed buffer) *)
Theorem read_at_once_good c i : wf c -> dirty c = false -> good c (read_at_once c i) (opt_list (expected_one c i)).
Proof.
  intros W Dd. unfold read_at_once, expected_one. destruct (clean_no_hole c i Dd) as [Hh Hu].
  destruct (N.ltb_spec i (rlen c)) as [Hl|Hl]; [|apply goodP_nil].
  fold (V c i).
  destruct (N.leb_spec (r_stored c) i) as [Hs|Hs].
  - rewrite view_pushed by auto. rewrite nth_n_get.
    destruct (get_some (r_pushed c) (i - r_stored c)) as [v ->]; [unfold rlen in Hl; lia|]. triv.
  - rewrite view_stored_plain by auto. apply read_elem_good. now apply wf_on_disk.
Qed.
(* in every wf state (overlays included) a buffered index never touches the map *)
Theorem read_at_once_buffered c i : r_stored c <= i -> i < rlen c ->
  good c (read_at_once c i) (opt_list (get (r_pushed c) (i - r_stored c))).
Proof.
  intros Hs Hl. unfold read_at_once. replace (i <? rlen c) with true by lia.
  replace (r_stored c <=? i) with true by lia. rewrite nth_n_get.
  destruct (get_some (r_pushed c) (i - r_stored c)) as [v ->]; [unfold rlen in Hl; lia|]. triv.
Qed.
Theorem read_ref_at_good c i : wf c ->
  good c (read_ref_at c i)
    (if is_hole c i then [] else if r_stored c <=? i then [] else
       match upd_get c i with Some _ => [] | None => V c i end).
Proof.
  intros W. unfold read_ref_at.
  destruct (is_hole c i) eqn:Hh; [apply goodP_nil|].
  destruct (N.leb_spec (r_stored c) i) as [Hs|Hs]; [apply goodP_nil|].
  destruct (upd_get c i) eqn:Hu; [apply goodP_nil|].
  pose proof (wf_on_disk c i W Hs Hh Hu) as Hd.
  assert (eoff c i <= region_len c) by (pose proof (eoff_in_region c i Hd); lia).
  replace (region_len c <? eoff c i) with false by lia.
  rewrite view_stored_plain by auto. now apply read_elem_good.
Qed.

(* VecReader / get_pushed_or_read_at / the lean clone's point read ignore the `updated` overlay by
   documentation: inside the region exactly when every stored index is on disk *)
Theorem vr_try_get_good c i : not_expanded c -> good c (vr_try_get c i) (if i <? r_stored c then D c i else []).
Proof.
  unfold vr_try_get, not_expanded. intros H. destruct (N.ltb_spec i (r_stored c)); [|apply goodP_nil].
  apply read_elem_good. lia.
Qed.
Theorem vr_get_good c i : not_expanded c -> i < r_stored c -> good c (vr_get c i) (D c i).
Proof.
  unfold vr_get, not_expanded. intros H Hi. replace (i <? r_stored c) with true by lia. apply read_elem_good. lia.
Qed.
Theorem get_pushed_or_read_good c i : not_expanded c -> i < rlen c ->
  good c (get_pushed_or_read c i) (if r_stored c <=? i then opt_list (get (r_pushed c) (i - r_stored c)) else D c i).
Proof.
  unfold get_pushed_or_read. intros H Hi. destruct (N.leb_spec (r_stored c) i).
  - rewrite nth_n_get. apply goodP_yields.
  - now apply vr_get_good.
Qed.
Theorem ro_collect_one_good c i : not_expanded c -> good c (ro_collect_one c i) (if r_stored c <=? i then [] else D c i).
Proof.
  unfold ro_collect_one, not_expanded. intros H. destruct (N.leb_spec (r_stored c) i); [apply goodP_nil|].
  apply read_elem_good. lia.
Qed.

(* ------------------------------------------------------------------ the two scan back-ends over stored data *)
Theorem mmap_src_good c f t : f <= t -> t <= r_stored c -> not_expanded c ->
  good c (mmap_src c (r_stored c) f t) (flat_map (D c) (seqN f (N.to_nat (t - f)))).
Proof.
  unfold not_expanded, mmap_src. intros Hft Ht Hd.
  replace (N.min f (r_stored c)) with f by lia. replace (N.min t (r_stored c)) with t by lia.
  rewrite ptr_evs_scan. apply scan_range_good. intros k Hk. apply elem_on_disk. lia.
Qed.

(* RawIoSource: seek, then refill / drain.  q = elements per buffer. *)
Lemma io_bufsize_div c : 0 < r_sz c -> io_bufsize c / r_sz c = BUFFER_SIZE / r_sz c.
Proof. intros. unfold io_bufsize. now rewrite N.div_mul by lia. Qed.
Lemma min_mul_div a b s : 0 < s -> N.min (a * s) (b * s) / s = N.min a b.
Proof.
  intros. destruct (N.le_ge_cases a b).
  - rewrite N.min_l by nia. rewrite N.min_l by auto. now rewrite N.div_mul by lia.
  - rewrite N.min_r by nia. rewrite N.min_r by auto. now rewrite N.div_mul by lia.
Qed.
Lemma io_loop_good c t : wf c -> t <= len (r_disk c) ->
  forall fuel i0, i0 <= t -> t - i0 <= N.of_nat fuel * (BUFFER_SIZE / r_sz c) ->
  good c (io_loop fuel c (eoff c i0) (eoff c t)) (flat_map (D c) (seqN i0 (N.to_nat (t - i0)))).
Proof.
  intros W Ht. pose proof (wf_parts c W) as (Hsz & Hbs & _).
  set (q := BUFFER_SIZE / r_sz c).
  assert (Hq : 1 <= q) by (subst q; apply N.div_le_lower_bound; lia).
  induction fuel as [|fuel IH]; intros i0 Hi Hf.
  - replace (N.to_nat (t - i0)) with O by lia. apply goodP_nil.
  - cbn [io_loop].
    destruct (N.leb_spec (eoff c t) (eoff c i0)) as [Hle|Hlt].
    + assert (t = i0) by (unfold eoff in Hle; nia). subst.
      replace (N.to_nat (i0 - i0)) with O by lia. apply goodP_nil.
    + assert (Hit : i0 < t) by (unfold eoff in Hlt; nia).
      set (m := N.min (t - i0) q).
      assert (Hblen : N.min (eoff c t - eoff c i0) (io_bufsize c) = m * r_sz c).
      { unfold eoff, io_bufsize. fold q. subst m.
        replace (HEADER_OFFSET + t * r_sz c - (HEADER_OFFSET + i0 * r_sz c)) with ((t - i0) * r_sz c) by nia.
        destruct (N.le_ge_cases (t - i0) q); [rewrite !N.min_l by nia|rewrite !N.min_r by nia]; reflexivity. }
      rewrite Hblen.
      replace ((eoff c i0 - HEADER_OFFSET) / r_sz c) with i0
        by (unfold eoff; replace (HEADER_OFFSET + i0 * r_sz c - HEADER_OFFSET) with (i0 * r_sz c) by lia;
            now rewrite N.div_mul by lia).
      rewrite N.div_mul by lia.
      assert (Hm : 1 <= m) by (subst m; lia).
      replace (m * r_sz c =? 0) with false by nia.
      rewrite (seqN_split i0 (i0 + m) t) by (subst m; lia). rewrite flat_map_app.
      apply goodP_fetch.
      { unfold in_region, eoff, region_len; cbn. subst m. nia. }
      apply goodP_app.
      * rewrite (map_ev_scan _ i0).
        replace (N.to_nat (i0 + m - i0)) with (N.to_nat (i0 + m - i0)) by reflexivity.
        apply (scan_range_good (in_region c) (fun _ o => [ev_of o]) (D c) (r_disk c) i0 i0 (i0 + m)).
        intros k Hk. assert (i0 + k < len (r_disk c)) by (subst m; lia).
        destruct (get_some _ _ H) as [v Hv]. unfold D. rewrite Hv. triv.
      * replace (eoff c i0 + m * r_sz c) with (eoff c (i0 + m)) by (unfold eoff; nia).
        apply IH; subst m; nia.
Qed.
Theorem io_src_good c f t : wf c -> f <= t -> t <= r_stored c -> not_expanded c ->
  good c (io_src c (r_stored c) f t) (flat_map (D c) (seqN f (N.to_nat (t - f)))).
Proof.
  unfold not_expanded, io_src. intros W Hft Ht Hd.
  pose proof (wf_parts c W) as (Hsz & Hbs & _).
  replace (N.min f (r_stored c)) with f by lia. replace (N.min t (r_stored c)) with t by lia.
  assert (Hq : 1 <= BUFFER_SIZE / r_sz c) by (apply N.div_le_lower_bound; lia).
  assert (Hloop : forall fuel, t - f <= N.of_nat fuel * (BUFFER_SIZE / r_sz c) ->
                  good c (io_loop fuel c (eoff c f) (eoff c t)) (flat_map (D c) (seqN f (N.to_nat (t - f)))))
    by (intros; apply io_loop_good; auto; lia).
  assert (Hfuel : t - f <= N.of_nat (S (N.to_nat ((eoff c t - eoff c f) / N.max 1 (io_bufsize c)) + 1))
                           * (BUFFER_SIZE / r_sz c)).
  { set (q := BUFFER_SIZE / r_sz c) in *.
    assert (io_bufsize c = q * r_sz c) by reflexivity.
    replace (eoff c t - eoff c f) with ((t - f) * r_sz c) by (unfold eoff; nia).
    rewrite H. replace (N.max 1 (q * r_sz c)) with (q * r_sz c) by nia.
    rewrite N.div_mul_cancel_r by lia.
    pose proof (N.div_mod' (t - f) q). pose proof (N.mod_lt (t - f) q ltac:(lia)). nia. }
  destruct (N.ltb_spec (eoff c f) (eoff c t)) as [Hlt|Hge].
  - cbn [app]. apply goodP_fetch; [unfold in_region, eoff, region_len; cbn; nia|]. now apply Hloop.
  - cbn [app]. now apply Hloop.
Qed.
Theorem fold_source_good c f t : wf c -> f <= t -> t <= r_stored c -> not_expanded c ->
  good c (fold_source c (r_stored c) f t) (flat_map (D c) (seqN f (N.to_nat (t - f)))).
Proof.
  intros. unfold fold_source. replace (t <? f) with false by lia.
  destruct (r_xo c <? (t - f) * r_sz c); [now apply io_src_good|now apply mmap_src_good].
Qed.

(* in a state without overlays the stored part of the logical contents is the disk *)
Lemma clean_V_D c f n : dirty c = false -> f + N.of_nat n <= r_stored c ->
  flat_map (D c) (seqN f n) = flat_map (V c) (seqN f n).
Proof.
  intros Dd H. apply flat_map_ext_in. intros k Hk. apply in_seqN in Hk.
  destruct (clean_no_hole c k Dd). symmetry. apply view_stored_plain; auto. lia.
Qed.

(* ------------------------------------------------------------------ the pushed tail *)
Lemma pushed_tail_good c a b i : dirty c = false -> i = a + r_stored c -> b <= len (r_pushed c) ->
  good c (map Yield (slice a b (r_pushed c))) (flat_map (V c) (seqN i (N.to_nat (b - a)))).
Proof.
  intros Dd -> Hb. rewrite (slice_scan _ a b (a + r_stored c)). apply scan_range_good.
  intros k Hk. destruct (clean_no_hole c (a + r_stored c + k) Dd) as [Hh _].
  rewrite view_pushed by (auto; lia).
  replace (a + r_stored c + k - r_stored c) with (a + k) by lia. apply goodP_yields.
Qed.

(* ------------------------------------------------------------------ fold_dirty / try_fold_dirty *)
Lemma dirty_elem_good c k : wf c -> k < r_stored c ->
  good c (if is_hole c k then [] else match upd_get c k with
                                      | Some u => [Yield u]
                                      | None => [Fetch (eoff c k) (r_sz c); ev_of (get (r_disk c) k)] end) (V c k).
Proof.
  intros W Hk. unfold V, view. rewrite nth_n_get. replace (k <? r_stored c) with true by lia.
  destruct (is_hole c k) eqn:Hh; [apply goodP_nil|].
  destruct (upd_get c k) eqn:Hu; [triv|]. apply elem_on_disk. now apply wf_on_disk.
Qed.
Theorem fold_dirty_good c f t : wf c -> f <= t -> t <= rlen c ->
  good c (fold_dirty c f t) (flat_map (V c) (seqN f (N.to_nat (t - f)))).
Proof.
  intros W Hft Ht. unfold fold_dirty. replace (t <? f) with false by lia.
  set (st := N.min t (r_stored c)). set (pf := N.max f (r_stored c)).
  rewrite (seqN_split f (N.max f st) t) by lia. rewrite flat_map_app.
  apply goodP_app.
  - rewrite dirty_stored_scan.
    replace (N.to_nat (N.max f st - f)) with (N.to_nat (st - f)) by lia.
    apply scan_range_good. intros k Hk. apply dirty_elem_good; auto. subst st. lia.
  - destruct (N.ltb_spec pf t) as [Hp|Hp].
    + rewrite dirty_pushed_scan.
      replace (N.max f st) with pf by (subst st pf; lia).
      replace (N.to_nat (t - pf)) with (N.to_nat (t - r_stored c - (pf - r_stored c))) by (subst pf; lia).
      apply scan_range_good. intros k Hk.
      destruct (is_hole c (pf + k)) eqn:Hh.
      * unfold V, view. rewrite Hh. apply goodP_nil.
      * rewrite view_pushed by (auto; subst pf; lia).
        replace (pf - r_stored c + k) with (pf + k - r_stored c) by (subst pf; lia). apply goodP_yields.
    + replace (N.to_nat (t - N.max f st)) with O by (subst st pf; lia). apply goodP_nil.
Qed.

(* ------------------------------------------------------------------ read_into_at *)
Lemma range_nil c f t : t <= f -> flat_map (V c) (seqN f (N.to_nat (t - f))) = [].
Proof. intros. replace (N.to_nat (t - f)) with O by lia. reflexivity. Qed.

Lemma pushed_slice_good c f t : dirty c = false -> f <= t -> t <= rlen c ->
  good c (pushed_slice c f t)
    (flat_map (V c) (seqN (N.max f (r_stored c)) (N.to_nat (t - N.max f (r_stored c))))).
Proof.
  intros Dd Hft Ht. unfold pushed_slice, rlen in *.
  destruct (N.ltb_spec (r_stored c) t) as [Hs|Hs].
  - replace (N.min (t - r_stored c) (len (r_pushed c))) with (t - r_stored c) by lia.
    replace (t - r_stored c <? N.max f (r_stored c) - r_stored c) with false by lia.
    replace (N.to_nat (t - N.max f (r_stored c)))
      with (N.to_nat (t - r_stored c - (N.max f (r_stored c) - r_stored c))) by lia.
    apply pushed_tail_good; auto; lia.
  - replace (N.to_nat (t - N.max f (r_stored c))) with O by lia. apply goodP_nil.
Qed.

Theorem read_into_at_good c from to : wf c -> good c (read_into_at c from to) (expected c from to).
Proof.
  intros W. rewrite expected_eq. unfold read_into_at.
  set (f := N.min from (rlen c)). set (t := N.min to (rlen c)).
  assert (Ht : t <= rlen c) by (subst t; lia).
  destruct (N.leb_spec t f) as [Hle|Hlt]; [rewrite range_nil by auto; apply goodP_nil|].
  destruct (dirty c) eqn:Dd; [apply fold_dirty_good; auto; lia|].
  pose proof (clean_not_expanded c W Dd) as Hne. unfold not_expanded in Hne.
  rewrite (seqN_split f (N.max f (N.min t (r_stored c))) t) by lia. rewrite flat_map_app.
  apply goodP_app.
  - destruct (N.ltb_spec f (r_stored c)) as [Hs|Hs].
    + set (st := N.min t (r_stored c)).
      replace (N.to_nat (N.max f st - f)) with (N.to_nat (st - f)) by lia.
      rewrite <- clean_V_D by (auto; subst st; lia).
      destruct (r_native c).
      * apply goodP_fetch.
        { unfold in_region, eoff, region_len; cbn. subst st. nia. }
        rewrite (map_ev_scan _ f). apply scan_range_good. intros k Hk.
        assert (f + k < len (r_disk c)) by (subst st; lia).
        destruct (get_some _ _ H) as [v Hv]. unfold D. rewrite Hv. triv.
      * apply fold_source_good; auto; subst st; lia.
    + replace (N.to_nat (N.max f (N.min t (r_stored c)) - f)) with O by lia. apply goodP_nil.
  - destruct (N.le_gt_cases t (r_stored c)) as [Hts|Hts].
    + unfold pushed_slice. replace (r_stored c <? t) with false by lia.
      replace (N.to_nat (t - N.max f (N.min t (r_stored c)))) with O by lia. apply goodP_nil.
    + replace (N.max f (N.min t (r_stored c))) with (N.max f (r_stored c)) by lia.
      apply pushed_slice_good; auto; lia.
Qed.

(* ------------------------------------------------------------------ fold_range_at / try_fold_range_at *)
Lemma fold_pushed_good c f t : dirty c = false -> f <= t -> t <= rlen c -> r_stored c < t ->
  good c (fold_pushed c f t) (flat_map (V c) (seqN (N.max f (r_stored c)) (N.to_nat (t - N.max f (r_stored c))))).
Proof.
  intros Dd Hft Ht Hs. unfold fold_pushed, rlen in *.
  destruct (N.leb_spec t (N.max f (r_stored c))) as [Hle|Hlt].
  - replace (N.to_nat (t - N.max f (r_stored c))) with O by lia. apply goodP_nil.
  - replace (N.min (t - r_stored c) (len (r_pushed c))) with (t - r_stored c) by lia.
    replace (N.to_nat (t - N.max f (r_stored c)))
      with (N.to_nat (t - r_stored c - (N.max f (r_stored c) - r_stored c))) by lia.
    apply pushed_tail_good; auto; lia.
Qed.
Lemma try_fold_pushed_eq c f t : f <= t -> t <= rlen c -> try_fold_pushed c f t = fold_pushed c f t.
Proof.
  intros Hft Ht. unfold try_fold_pushed, fold_pushed, rlen in *.
  destruct (t <=? N.max f (r_stored c)) eqn:E; auto.
  replace (N.min (t - r_stored c) (len (r_pushed c)) <? N.max f (r_stored c) - r_stored c) with false by lia.
  reflexivity.
Qed.

Lemma fold_range_gen_good pp c from to : wf c ->
  (forall f t, f <= t -> t <= rlen c -> pp c f t = fold_pushed c f t) ->
  good c (fold_range_gen pp c from to) (expected c from to).
Proof.
  intros W Hpp. rewrite expected_eq. unfold fold_range_gen.
  set (f := N.min from (rlen c)). set (t := N.min to (rlen c)).
  assert (Ht : t <= rlen c) by (subst t; lia).
  destruct (N.leb_spec t f) as [Hle|Hlt]; [rewrite range_nil by auto; apply goodP_nil|].
  destruct (dirty c) eqn:Dd; [apply fold_dirty_good; auto; lia|].
  pose proof (clean_not_expanded c W Dd) as Hne.
  destruct (N.leb_spec t (r_stored c)) as [Hts|Hts].
  - rewrite <- clean_V_D by (auto; lia). apply fold_source_good; auto; lia.
  - rewrite (seqN_split f (N.max f (r_stored c)) t) by lia. rewrite flat_map_app.
    apply goodP_app.
    + destruct (N.ltb_spec f (r_stored c)) as [Hs|Hs].
      * replace (N.max f (r_stored c)) with (r_stored c) by lia.
        rewrite <- clean_V_D by (auto; lia). apply fold_source_good; auto; lia.
      * replace (N.to_nat (N.max f (r_stored c) - f)) with O by lia. apply goodP_nil.
    + rewrite Hpp by lia. apply fold_pushed_good; auto; lia.
Qed.
Theorem fold_range_at_good c from to : wf c -> good c (fold_range_at c from to) (expected c from to).
Proof. intros. apply fold_range_gen_good; auto. Qed.
Theorem try_fold_range_at_good c from to : wf c -> good c (try_fold_range_at c from to) (expected c from to).
Proof. intros. apply fold_range_gen_good; auto. intros. now apply try_fold_pushed_eq. Qed.

(* ------------------------------------------------------------------ stored-only scans and the lean clone *)
Theorem fold_stored_good io c from to : wf c -> not_expanded c ->
  good c ((if io : bool then fold_stored_io else fold_stored_mmap) c from to)
    (flat_map (D c) (seqN (N.min from (r_stored c))
                          (N.to_nat (N.min to (r_stored c) - N.min from (r_stored c))))).
Proof.
  intros W Hne.
  set (f := N.min from (r_stored c)). set (t := N.min to (r_stored c)).
  assert (forall s, (t <=? f) = false -> good c s (flat_map (D c) (seqN f (N.to_nat (t - f)))) ->
                    good c (if t <=? f then [] else s) (flat_map (D c) (seqN f (N.to_nat (t - f)))))
    by (intros s -> ?; auto).
  destruct (N.leb_spec t f) as [Hle|Hlt].
  - replace (N.to_nat (t - f)) with O by lia.
    destruct io; unfold fold_stored_io, fold_stored_mmap; fold f t; replace (t <=? f) with true by lia; apply goodP_nil.
  - destruct io; unfold fold_stored_io, fold_stored_mmap; fold f t; replace (t <=? f) with false by lia.
    + apply io_src_good; auto; subst f t; lia.
    + apply mmap_src_good; auto; subst f t; lia.
Qed.
Theorem ro_read_into_good c from to : wf c -> not_expanded c ->
  good c (ro_read_into c from to)
    (flat_map (D c) (seqN (N.min from (r_stored c))
                          (N.to_nat (N.min to (r_stored c) - N.min from (r_stored c))))).
Proof.
  intros W Hne. unfold ro_read_into.
  set (f := N.min from (r_stored c)). set (t := N.min to (r_stored c)).
  destruct (N.leb_spec t f) as [Hle|Hlt]; [replace (N.to_nat (t - f)) with O by lia; apply goodP_nil|].
  unfold not_expanded in Hne.
  destruct (r_native c).
  - apply goodP_fetch.
    { unfold in_region, eoff, region_len; cbn. subst f t. nia. }
    rewrite (map_ev_scan _ f). apply scan_range_good. intros k Hk.
    assert (f + k < len (r_disk c)) by (subst f t; lia).
    destruct (get_some _ _ H) as [v Hv]. unfold D. rewrite Hv. triv.
  - apply fold_source_good; auto; subst f t; lia.
Qed.
Theorem ro_fold_range_good c from to : wf c -> not_expanded c ->
  good c (ro_fold_range c from to)
    (flat_map (D c) (seqN (N.min from (r_stored c))
                          (N.to_nat (N.min to (r_stored c) - N.min from (r_stored c))))).
Proof.
  intros W Hne. unfold ro_fold_range.
  set (f := N.min from (r_stored c)). set (t := N.min to (r_stored c)).
  destruct (N.leb_spec t f) as [Hle|Hlt]; [replace (N.to_nat (t - f)) with O by lia; apply goodP_nil|].
  apply fold_source_good; auto; subst f t; lia.
Qed.

(* ------------------------------------------------------------------ early exit (try_fold with a failing closure) *)
Lemma cut_clean k s : clean s = true -> clean (cut k s) = true.
Proof.
  revert k; induction s as [|e s IH]; intros k H; cbn; auto.
  destruct e; cbn in *; try discriminate; auto; destruct k; cbn; auto.
Qed.
Lemma cut_fetches_incl k s a : In a (fetches (cut k s)) -> In a (fetches s).
Proof.
  revert k; induction s as [|e s IH]; intros k; cbn; auto.
  destruct e; cbn; auto.
  - intros [->|H]; [now left|right; eauto].
  - destruct k; cbn; auto. intros []. eauto.
  - destruct k; cbn; auto. intros []. eauto.
Qed.
Lemma cut_yields k s : clean s = true -> yields (cut k s) = firstn (S k) (yields s).
Proof.
  revert k; induction s as [|e s IH]; intros k C; cbn; auto.
  destruct e; cbn in *; try discriminate; auto.
  destruct k; cbn; [now destruct (yields s)|]. now rewrite IH.
Qed.
(* an early-exiting closure sees a prefix of the full run and never makes a path fetch more *)
Theorem cut_good (P : acc -> Prop) k s ys : goodP P s ys -> goodP P (cut k s) (firstn (S k) ys).
Proof.
  intros (Y & C & F). repeat split.
  - rewrite cut_yields by auto. now rewrite Y.
  - now apply cut_clean.
  - rewrite Forall_forall in *. intros a Ha. apply F. eapply cut_fetches_incl; eauto.
Qed.
(* the value try_fold_range_at returns for the closure "accept k elements, then fail" *)
Theorem try_run_good (P : acc -> Prop) k s ys : goodP P s ys ->
  fst (try_run k s) = if k <? len ys then TEarly (take k ys) else TOk ys.
Proof.
  intros G. unfold try_run. rewrite (goodP_run P _ _ (cut_good P (N.to_nat k) s ys G)). cbn [fst].
  assert (L : len (firstn (S (N.to_nat k)) ys) = N.min (k + 1) (len ys))
    by (unfold len; rewrite firstn_length; lia).
  destruct (N.ltb_spec k (len ys)) as [Hlt|Hge].
  - replace (k <? len (firstn (S (N.to_nat k)) ys)) with true by lia.
    f_equal. unfold take. rewrite firstn_firstn. f_equal. lia.
  - replace (k <? len (firstn (S (N.to_nat k)) ys)) with false by lia.
    f_equal. apply firstn_all2. unfold len in Hge. lia.
Qed.

(* ------------------------------------------------------------------ refutations: concrete witnesses (vm_compute) *)
Definition mk (sz : N) (native : bool) (disk : list N) (stored : N) (pushed holes : list N) (upd : list (N * N)) : rstate :=
  {| r_sz := sz; r_native := native; r_xo := MMAP_CROSSOVER_BYTES; r_disk := disk; r_stored := stored;
     r_pushed := pushed; r_holes := holes; r_upd := upd |}.

(* after a rollback that leaves stored_len above the on-disk length the lean clone and VecReader read
   past the region: disk [10;11], stored_len 4, indices 2 and 3 in the overlay *)
Definition w_expanded : rstate := mk 8 true [10; 11] 4 [] [] [(2, 12); (3, 13)].
Theorem clone_after_rollback_refuted :
  wf w_expanded /\ region_len w_expanded = 48
  /\ run (ro_read_into w_expanded 0 4) = (RGarbage, [(32, 32)])
  /\ run (vr_try_get w_expanded 3) = (RGarbage, [(56, 8)]).
Proof. split; [reflexivity | vm_compute; auto]. Qed.
(* hypotheses are satisfiable: the read-write paths of the same state *)
Example expanded_rw_example :
  wf w_expanded /\ run (read_into_at w_expanded 0 4) = (ROk [10; 11; 12; 13], [(32, 8); (40, 8)])
  /\ expected w_expanded 0 4 = [10; 11; 12; 13].
Proof. split; [reflexivity | vm_compute; auto]. Qed.
