(* Vec/RdProofs.v — theorems about the read-path models of RdModel / RdCursor / RdComp.
   Proved here for ALL well-formed states and ALL requests: the index-addressed raw paths
   (collect_one_at, get_any_or_read_at, VecReader, read_ref_at, the lean clone's point read), the
   pointer-scan source (RawMmapSource) and the paths that consist of it (fold_stored_mmap, the
   lean clone's fold with the mmap back-end); the *_refuted witnesses of every path on which the
   faithful model contradicts C08 / C20.  The range theorems for fold_dirty, the IO sources, the
   cursor on hole-free states and the compressed paths are stated (Props: *_full) and not proved
   here. *)
From Anydb Require Import Common.Base Gen.Consts Gen.Sizes Vec.RdModel Vec.RdCursor Vec.RdComp.

Definition wf (c : rstate) : Prop := wf_b c = true.
Definition in_region (c : rstate) (a : acc) : Prop := fst a + snd a <= region_len c.
Definition accesses_ok (c : rstate) (s : stream) : Prop := Forall (in_region c) (fetches s).

Ltac triv := cbn; repeat split; try constructor; auto.

(* ------------------------------------------------------------------ basics *)
Lemma nth_opt_none {A} (l : list A) n : (length l <= n)%nat -> nth_opt l n = None.
Proof. revert n; induction l; destruct n; cbn; intros; auto; try lia. apply IHl. lia. Qed.
Lemma nth_opt_some {A} (l : list A) n : (n < length l)%nat -> exists v, nth_opt l n = Some v.
Proof. revert n; induction l; destruct n; cbn; intros; try lia; eauto. apply IHl. lia. Qed.
Lemma nth_n_get {A} (l : list A) i : nth_n l i = get l i.
Proof.
  unfold nth_n, get, len. destruct (N.leb_spec (N.of_nat (length l)) i); auto.
  symmetry. apply nth_opt_none. lia.
Qed.
Lemma get_some {A} (l : list A) i : i < len l -> exists v, get l i = Some v.
Proof. unfold get, len. intros. apply nth_opt_some. lia. Qed.
Lemma get_none {A} (l : list A) i : len l <= i -> get l i = None.
Proof. unfold get, len. intros. apply nth_opt_none. lia. Qed.

Lemma wf_sz c : wf c -> 0 < r_sz c.
Proof. unfold wf, wf_b. intros H. apply andb_prop in H as [H _]. apply andb_prop in H as [H _]. lia. Qed.

(* R3 / R3' of DESIGN appendix B.1: a stored index that is neither deleted nor overlaid is on disk *)
Lemma wf_on_disk c i :
  wf c -> i < r_stored c -> is_hole c i = false -> upd_get c i = None -> i < len (r_disk c).
Proof.
  unfold wf, wf_b. intros H Hi Hh Hu.
  apply andb_prop in H as [_ H].
  destruct (N.lt_ge_cases i (len (r_disk c))) as [|Hge]; auto.
  rewrite forallb_forall in H. specialize (H i).
  rewrite Hh, Hu in H. cbn in H.
  assert (In i (seqN (len (r_disk c)) (N.to_nat (r_stored c - len (r_disk c))))) by (apply in_seqN; lia).
  specialize (H H0). discriminate.
Qed.

Lemma dirty_false c : dirty c = false -> r_holes c = [] /\ r_upd c = [].
Proof. unfold dirty. destruct (r_holes c), (r_upd c); cbn; intros; try discriminate; auto. Qed.
Lemma clean_no_hole c i : dirty c = false -> is_hole c i = false /\ upd_get c i = None.
Proof. intros H. apply dirty_false in H as [H1 H2]. unfold is_hole, upd_get. now rewrite H1, H2. Qed.

Lemma read_elem_on_disk c i v :
  get (r_disk c) i = Some v -> read_elem c i = [Fetch (eoff c i) (r_sz c); Yield v].
Proof. unfold read_elem. rewrite nth_n_get. now intros ->. Qed.

Lemma eoff_in_region c i : i < len (r_disk c) -> eoff c i + r_sz c <= region_len c.
Proof. unfold eoff, region_len. nia. Qed.

Lemma pushed_opt c i :
  yields (map Yield (opt_list (get (r_pushed c) (i - r_stored c)))) = opt_list (get (r_pushed c) (i - r_stored c))
  /\ clean (map Yield (opt_list (get (r_pushed c) (i - r_stored c)))) = true
  /\ fetches (map Yield (opt_list (get (r_pushed c) (i - r_stored c)))) = [].
Proof. destruct (get _ _); cbn; auto. Qed.

(* ------------------------------------------------------------------ get_any_or_read_at *)
Theorem get_any_correct c i :
  wf c -> yields (get_any c i) = opt_list (view c i) /\ clean (get_any c i) = true /\ accesses_ok c (get_any c i).
Proof.
  intros W. unfold get_any, view, accesses_ok. rewrite ?nth_n_get.
  destruct (is_hole c i) eqn:Hh; [triv|].
  destruct (N.leb_spec (r_stored c) i) as [Hs|Hs].
  - replace (i <? r_stored c) with false by lia.
    destruct (pushed_opt c i) as (Y & C & F). rewrite Y, C, F. triv.
  - replace (i <? r_stored c) with true by lia.
    destruct (upd_get c i) eqn:Hu; [triv|].
    pose proof (wf_on_disk c i W Hs Hh Hu) as Hd.
    destruct (get_some (r_disk c) i Hd) as [v Hv].
    rewrite (read_elem_on_disk c i v Hv), Hv. cbn. repeat split; auto.
    constructor; [|constructor]. unfold in_region; cbn. now apply eoff_in_region.
Qed.

(* ------------------------------------------------------------------ collect_one_at (raw, read-write) *)
Theorem collect_one_correct c i :
  wf c ->
  yields (collect_one_at c i) = opt_list (expected_one c i)
  /\ clean (collect_one_at c i) = true /\ accesses_ok c (collect_one_at c i).
Proof.
  intros W. unfold collect_one_at, expected_one.
  destruct (N.leb_spec (rlen c) i) as [Hl|Hl].
  - replace (i <? rlen c) with false by lia. triv.
  - replace (i <? rlen c) with true by lia.
    destruct (dirty c) eqn:Hd; [now apply get_any_correct|].
    destruct (clean_no_hole c i Hd) as [Hh Hu].
    pose proof (get_any_correct c i W) as G. unfold get_any in G. rewrite Hh, Hu in G. exact G.
Qed.

(* ------------------------------------------------------------------ VecReader, read_ref_at, the lean clone's point read.
   These ignore the `updated` overlay by documentation: in-region only when every stored index is on disk. *)
Definition not_expanded (c : rstate) : Prop := r_stored c <= len (r_disk c).

Lemma read_elem_ok c i : i < len (r_disk c) -> clean (read_elem c i) = true /\ accesses_ok c (read_elem c i).
Proof.
  intros H. destruct (get_some (r_disk c) i H) as [v Hv]. rewrite (read_elem_on_disk c i v Hv).
  cbn. split; auto. constructor; [|constructor]. unfold in_region; cbn. now apply eoff_in_region.
Qed.

Theorem vr_try_get_ok c i : not_expanded c -> clean (vr_try_get c i) = true /\ accesses_ok c (vr_try_get c i).
Proof.
  unfold vr_try_get, not_expanded. intros H. destruct (N.ltb_spec i (r_stored c)).
  - apply read_elem_ok. lia.
  - cbn. split; auto. constructor.
Qed.
Theorem vr_get_ok c i : not_expanded c -> i < r_stored c -> clean (vr_get c i) = true /\ accesses_ok c (vr_get c i).
Proof.
  unfold vr_get, not_expanded. intros H Hi. replace (i <? r_stored c) with true by lia. apply read_elem_ok. lia.
Qed.
Theorem ro_collect_one_ok c i :
  not_expanded c -> clean (ro_collect_one c i) = true /\ accesses_ok c (ro_collect_one c i).
Proof.
  unfold ro_collect_one, not_expanded. intros H. destruct (N.leb_spec (r_stored c) i).
  - cbn. split; auto. constructor.
  - apply read_elem_ok. lia.
Qed.
Theorem read_ref_at_ok c i : wf c -> clean (read_ref_at c i) = true /\ accesses_ok c (read_ref_at c i).
Proof.
  intros W. unfold read_ref_at.
  destruct (is_hole c i) eqn:Hh; [cbn; split; auto; constructor|].
  destruct (N.leb_spec (r_stored c) i) as [Hs|Hs]; [cbn; split; auto; constructor|].
  destruct (upd_get c i) eqn:Hu; [cbn; split; auto; constructor|].
  pose proof (wf_on_disk c i W Hs Hh Hu) as Hd.
  assert (eoff c i <= region_len c) by (pose proof (eoff_in_region c i Hd); lia).
  replace (region_len c <? eoff c i) with false by lia.
  now apply read_elem_ok.
Qed.

(* ------------------------------------------------------------------ the pointer scan (RawMmapSource) *)
Lemma ptr_evs_some c i vs :
  yields (ptr_evs c i (map Some vs)) = vs
  /\ clean (ptr_evs c i (map Some vs)) = true
  /\ fetches (ptr_evs c i (map Some vs)) = map (fun k => (eoff c k, r_sz c)) (seqN i (length vs)).
Proof.
  revert i; induction vs as [|v vs IH]; intros i; cbn; auto.
  destruct (IH (i + 1)) as (Y & C & F). rewrite Y, C, F. auto.
Qed.

Lemma disk_range_on_disk d f t : t <= len d -> disk_range d f t = map Some (slice f t d).
Proof.
  intros H. unfold disk_range. replace (N.to_nat (t - N.max f (len d))) with O by lia. cbn. apply app_nil_r.
Qed.

Lemma slice_length {A} f t (l : list A) : f <= t -> t <= len l -> length (slice f t l) = N.to_nat (t - f).
Proof.
  intros. pose proof (len_slice f t l) as E. unfold len in *. lia.
Qed.

Theorem mmap_src_ok c from to :
  not_expanded c ->
  yields (mmap_src c (r_stored c) from to) = slice (N.min from (r_stored c)) (N.min to (r_stored c)) (r_disk c)
  /\ clean (mmap_src c (r_stored c) from to) = true
  /\ accesses_ok c (mmap_src c (r_stored c) from to).
Proof.
  unfold not_expanded, mmap_src. intros H.
  set (f := N.min from (r_stored c)). set (t := N.min to (r_stored c)).
  assert (Ht : t <= len (r_disk c)) by (subst t; lia).
  rewrite (disk_range_on_disk _ f t Ht).
  destruct (ptr_evs_some c f (slice f t (r_disk c))) as (Y & C & F).
  rewrite Y, C. repeat split; auto.
  unfold accesses_ok. rewrite F. apply Forall_forall. intros a Ha.
  apply in_map_iff in Ha as (k & <- & Hk). apply in_seqN in Hk.
  unfold in_region; cbn. apply eoff_in_region.
  pose proof (len_slice f t (r_disk c)) as L. unfold len in L at 1. lia.
Qed.

(* the stored part of the logical contents of a state without overlays is the disk *)
Theorem fold_stored_mmap_ok c from to :
  not_expanded c ->
  yields (fold_stored_mmap c from to) = slice (N.min from (r_stored c)) (N.min to (r_stored c)) (r_disk c)
  /\ clean (fold_stored_mmap c from to) = true
  /\ accesses_ok c (fold_stored_mmap c from to).
Proof.
  intros H. unfold fold_stored_mmap.
  set (f := N.min from (r_stored c)). set (t := N.min to (r_stored c)).
  destruct (N.leb_spec t f) as [Hle|Hlt].
  - cbn. repeat split; try constructor.
    unfold slice, take. replace (N.to_nat (t - f)) with O by lia. reflexivity.
  - pose proof (mmap_src_ok c f t H) as M.
    replace (N.min f (r_stored c)) with f in M by (subst f; lia).
    replace (N.min t (r_stored c)) with t in M by (subst t; lia). exact M.
Qed.

(* ------------------------------------------------------------------ early exit *)
Lemma cut_clean k s : clean s = true -> clean (cut k s) = true.
Proof.
  revert k; induction s as [|e s IH]; intros k H; cbn; auto.
  destruct e; cbn in *; try discriminate; auto; destruct k; cbn; auto.
Qed.
Lemma cut_fetches_incl k s a : In a (fetches (cut k s)) -> In a (fetches s).
Proof.
  revert k; induction s as [|e s IH]; intros k; cbn; auto.
  destruct e; cbn; auto.
  - intros [->|H]; [now left|right; eauto].
  - destruct k; cbn; auto. intros []. eauto.
  - destruct k; cbn; auto. intros []. eauto.
Qed.
(* an early-exiting closure never makes a path fetch anything the full run would not fetch *)
Theorem cut_accesses_ok c k s : accesses_ok c s -> accesses_ok c (cut k s).
Proof.
  unfold accesses_ok. rewrite !Forall_forall. intros H a Ha. apply H. eapply cut_fetches_incl; eauto.
Qed.

(* ------------------------------------------------------------------ refutations: concrete witnesses (vm_compute) *)
Definition mk (sz : N) (native : bool) (disk : list N) (stored : N) (pushed holes : list N) (upd : list (N * N)) : rstate :=
  {| r_sz := sz; r_native := native; r_xo := MMAP_CROSSOVER_BYTES; r_disk := disk; r_stored := stored;
     r_pushed := pushed; r_holes := holes; r_upd := upd; r_updroot := match upd with [] => false | _ => true end |}.

(* finding 6 and its silent variant: p:4 w d:1 ; read_sorted_at([3]) panics, read_sorted_at([2]) returns element 3 *)
Definition w_holed : rstate := mk 8 true [10; 11; 12; 13] 4 [] [1] [].
Lemma w_holed_wf : wf w_holed. Proof. reflexivity. Qed.
Theorem read_sorted_refuted_panic : wf w_holed /\ fst (read_sorted (raw_rvec w_holed) [3]) = RPanic.
Proof. split; [exact w_holed_wf | vm_compute; reflexivity]. Qed.
Theorem read_sorted_refuted_wrong :
  wf w_holed /\ fst (read_sorted (raw_rvec w_holed) [2]) = ROk [13] /\ expected_one w_holed 2 = Some 12.
Proof. split; [exact w_holed_wf | vm_compute; auto]. Qed.
Theorem cursor_fold_refuted_hang :
  wf w_holed /\ fst (fst (cursor_fold (raw_rvec w_holed) cursor_new 4)) = CHang.
Proof. split; [exact w_holed_wf | vm_compute; reflexivity]. Qed.

(* fold_dirty: p:3 w p:3 u:1 ; collect_range(4, 6) panics (BTreeMap::range start > end) *)
Definition w_past : rstate := mk 8 true [10; 11; 12] 3 [13; 14; 15] [] [(1, 21)].
Theorem fold_dirty_refuted_panic :
  wf w_past /\ fst (run (read_into_at w_past 4 6)) = RPanic /\ expected w_past 4 6 = [14; 15].
Proof. split; [reflexivity | vm_compute; auto]. Qed.

(* read_at_once on a buffered index: p:3 w p:3 ; read_at_once(4) fetches [64, 72) of a 56-byte region *)
Definition w_buffered : rstate := mk 8 true [10; 11; 12] 3 [13; 14; 15] [] [].
Theorem read_at_once_refuted :
  wf w_buffered /\ region_len w_buffered = 56 /\ run (read_at_once w_buffered 4) = (RGarbage, [(64, 8)]).
Proof. split; [reflexivity | vm_compute; auto]. Qed.

(* after a rollback that leaves stored_len above the on-disk length the lean clone and VecReader read
   past the region: disk [10;11], stored_len 4, indices 2 and 3 in the overlay *)
Definition w_expanded : rstate := mk 8 true [10; 11] 4 [] [] [(2, 12); (3, 13)].
Theorem clone_after_rollback_refuted :
  wf w_expanded /\ region_len w_expanded = 48
  /\ run (ro_read_into w_expanded 0 4) = (RGarbage, [(32, 32)])
  /\ run (vr_try_get w_expanded 3) = (RGarbage, [(56, 8)]).
Proof. split; [reflexivity | vm_compute; auto]. Qed.
(* the read-write paths of the same state stay inside the region and return the logical contents *)
Theorem expanded_rw_example :
  run (read_into_at w_expanded 0 4) = (ROk [10; 11; 12; 13], [(32, 8); (40, 8)])
  /\ expected w_expanded 0 4 = [10; 11; 12; 13].
Proof. vm_compute; auto. Qed.

(* CachedVec keyed on (len, version): p:3 w ; cached read ; u:1 ; cached read returns the old snapshot *)
Definition w_before : rstate := mk 8 true [10; 11; 12] 3 [] [] [].
Definition w_after : rstate := mk 8 true [10; 11; 12] 3 [] [] [(1, 21)].
Theorem cached_refuted_stale :
  exists k, snd (fst (materialize (raw_rvec w_before) None)) = k
  /\ fst (fst (materialize (raw_rvec w_after) k)) = ROk [10; 11; 12]
  /\ expected w_after 0 3 = [10; 21; 12].
Proof. eexists. vm_compute. auto. Qed.
(* a snapshot holds the non-deleted elements only: index-addressed reads through it are shifted *)
Theorem cached_refuted_shift :
  fst (fst (materialize (raw_rvec w_holed) None)) = ROk [10; 12; 13]
  /\ cached_one [10; 12; 13] 1 = Some 12 /\ expected_one w_holed 1 = None.
Proof. vm_compute. auto. Qed.
