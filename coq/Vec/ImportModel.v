(* Vec/ImportModel.v — C14: the two import entry points of the stored vectors.
   MODEL file: executable definitions only, no proofs.

   What is modelled (read branch by branch from /repo/crates/vecdb/src):
     variants/raw/inner/read_write/mod.rs        forced_import_with :59-76, import_with :78-124
     variants/compressed/inner/read_write/mod.rs forced_import_with :54-73, import_with :76-98
     variants/compressed/inner/pages.rs          Pages::import :25-39
     base/read_write.rs                          ReadWriteBaseVec::import :36-67
     base/header/inner.rs                        create_and_write :18-29, import_and_verify :36-75,
                                                 from_bytes :101-120 (Format::from_bytes may fail first)
     version/add.rs                              Version + Version = Self(self.0 + rhs.0)  (u32 `+`:
                                                 panics with overflow checks, wraps without)
     variants/macros.rs :43-68, variants/eager/importable.rs   wrappers only pass the Format constant on
   Everything the source decides by a constant comes from Gen/Consts.v: the layer VERSIONs, how many
   times each entry point adds it, whether forced_import_with calls import_with, the error kinds on
   which it removes and recreates, HEADER_VERSION and the Format byte codes; which regions the reset
   arm removes comes from Gen/ImportFacts.v (tools/gen_import.py).

   The database as far as one vector name is concerned is three optional regions:
   `name/I` (main), `name/I_pages` (page index of the compressed family), `name/I_holes` (deleted
   slots of the raw family).  Region payloads are kept abstractly: the main region's decoded header
   fields, its byte length and the value list it holds; an auxiliary region's byte length and its
   entries (hole indices / per-page value counts). *)
From Anydb Require Import Common.Base Gen.Consts Gen.Sizes Gen.ImportFacts.

Inductive family := Raw | Comp.
Inductive entry := EImport | EForced.
Inductive format := FBytes | FZeroCopy | FPco | FLZ4 | FZstd.

(* the error kinds the generated reset list talks about (same names as Gen/Consts.v) *)
Inductive ekind :=
| WrongEndian | WrongLength | DifferentFormat | DifferentVersion | DifferentCompressionMode
| InvalidFormat | TryLock | IO | RawDB | CorruptedRegion.

Definition fcode (f : format) : N :=
  match f with
  | FBytes => FORMAT_BYTES | FZeroCopy => FORMAT_ZEROCOPY
  | FPco => FORMAT_PCO | FLZ4 => FORMAT_LZ4 | FZstd => FORMAT_ZSTD
  end.

(* which inner implementation a wrapper type uses: BytesVec/ZeroCopyVec -> ReadWriteRawVec,
   PcoVec/LZ4Vec/ZstdVec -> ReadWriteCompressedVec (variants/{raw,compressed}/*/mod.rs) *)
Definition fam_of (f : format) : family :=
  match f with FBytes | FZeroCopy => Raw | _ => Comp end.

(* Format::from_bytes (base/format/bytes.rs:24-31): the byte codes that decode *)
Definition format_byte_ok (b : N) : bool :=
  (b =? FORMAT_BYTES) || (b =? FORMAT_ZEROCOPY) || (b =? FORMAT_PCO) || (b =? FORMAT_LZ4) || (b =? FORMAT_ZSTD).

Definition layer_version (fam : family) : N :=
  match fam with Raw => RAW_LAYER_VERSION | Comp => COMP_LAYER_VERSION end.
Definition import_adds (fam : family) : nat :=
  N.to_nat (match fam with Raw => RAW_IMPORT_ADDS | Comp => COMP_IMPORT_ADDS end).
Definition forced_own_adds (fam : family) : nat :=
  N.to_nat (match fam with Raw => RAW_FORCED_OWN_ADDS | Comp => COMP_FORCED_OWN_ADDS end).
Definition forced_calls_import (fam : family) : bool :=
  match fam with Raw => RAW_FORCED_CALLS_IMPORT | Comp => COMP_FORCED_CALLS_IMPORT end.

Definition resets (fam : family) (k : ekind) : bool :=
  match fam, k with
  | Raw, WrongEndian => RAW_FORCED_RESETS_ON_WrongEndian
  | Raw, WrongLength => RAW_FORCED_RESETS_ON_WrongLength
  | Raw, DifferentFormat => RAW_FORCED_RESETS_ON_DifferentFormat
  | Raw, DifferentVersion => RAW_FORCED_RESETS_ON_DifferentVersion
  | Raw, DifferentCompressionMode => RAW_FORCED_RESETS_ON_DifferentCompressionMode
  | Raw, InvalidFormat => RAW_FORCED_RESETS_ON_InvalidFormat
  | Raw, TryLock => RAW_FORCED_RESETS_ON_TryLock
  | Raw, IO => RAW_FORCED_RESETS_ON_IO
  | Raw, RawDB => RAW_FORCED_RESETS_ON_RawDB
  | Raw, CorruptedRegion => RAW_FORCED_RESETS_ON_CorruptedRegion
  | Comp, WrongEndian => COMP_FORCED_RESETS_ON_WrongEndian
  | Comp, WrongLength => COMP_FORCED_RESETS_ON_WrongLength
  | Comp, DifferentFormat => COMP_FORCED_RESETS_ON_DifferentFormat
  | Comp, DifferentVersion => COMP_FORCED_RESETS_ON_DifferentVersion
  | Comp, DifferentCompressionMode => COMP_FORCED_RESETS_ON_DifferentCompressionMode
  | Comp, InvalidFormat => COMP_FORCED_RESETS_ON_InvalidFormat
  | Comp, TryLock => COMP_FORCED_RESETS_ON_TryLock
  | Comp, IO => COMP_FORCED_RESETS_ON_IO
  | Comp, RawDB => COMP_FORCED_RESETS_ON_RawDB
  | Comp, CorruptedRegion => COMP_FORCED_RESETS_ON_CorruptedRegion
  end.

(* ---- Version arithmetic (version/add.rs:7): u32 `+`.  `oc` = overflow checks of the build. *)
Definition two32 : N := 4294967296.
Definition vadd (oc : bool) (a b : N) : res ekind N :=
  if a + b <? two32 then Ok (a + b) else if oc then Panic else Ok ((a + b) mod two32).
Fixpoint add_n (oc : bool) (k : nat) (v l : N) : res ekind N :=
  match k with
  | O => Ok v
  | S k' => let! v' := vadd oc v l in add_n oc k' v' l
  end.

(* how often the layer VERSION has been added when the header is compared / written *)
Definition adds (fam : family) (e : entry) : nat :=
  match e with
  | EImport => import_adds fam
  | EForced => (forced_own_adds fam + (if forced_calls_import fam then import_adds fam else 0))%nat
  end.
(* the "effective version": what the entry point compares with / writes as vec_version *)
Definition eff (oc : bool) (fam : family) (e : entry) (v : N) : res ekind N :=
  add_n oc (adds fam e) v (layer_version fam).

(* ---- the regions of one vector name *)
Record hdr := { h_hv : N; h_vv : N; h_fmt : N }.   (* header_version, vec_version, format BYTE *)
Record mainreg := { m_len : N; m_hdr : hdr; m_data : list N }.
Record auxreg := { a_len : N; a_data : list N }.
Record store := { s_main : option mainreg; s_pages : option auxreg; s_holes : option auxreg }.

Definition empty_store : store := {| s_main := None; s_pages := None; s_holes := None |}.
Definition with_main (s : store) (m : option mainreg) : store :=
  {| s_main := m; s_pages := s_pages s; s_holes := s_holes s |}.
Definition with_pages (s : store) (a : option auxreg) : store :=
  {| s_main := s_main s; s_pages := a; s_holes := s_holes s |}.
Definition with_holes (s : store) (a : option auxreg) : store :=
  {| s_main := s_main s; s_pages := s_pages s; s_holes := a |}.

(* what an opened vector shows: its values and (raw family) its deleted slots *)
Record view := { v_data : list N; v_holes : list N }.

(* HeaderInner::import_and_verify after the length checks of ReadWriteBaseVec::import.
   from_bytes runs first (inner.rs:51): an undecodable format byte is InvalidFormat before any
   version is compared; then header_version, vec_version, format in this order (:53-72). *)
Definition verify (h : hdr) (rv : N) (f : format) : res ekind unit :=
  if negb (format_byte_ok (h_fmt h)) then Err InvalidFormat
  else if negb (h_hv h =? HEADER_VERSION) then Err DifferentVersion
  else if negb (h_vv h =? rv) then Err DifferentVersion
  else if negb (h_fmt h =? fcode f) then Err DifferentFormat
  else Ok tt.

Definition fresh_main (rv : N) (f : format) : mainreg :=
  {| m_len := HEADER_OFFSET;
     m_hdr := {| h_hv := HEADER_VERSION; h_vv := rv; h_fmt := fcode f |};
     m_data := [] |}.

(* ReadWriteBaseVec::import (base/read_write.rs:36-67): create_region_if_needed; a region of
   length 0 gets a fresh header; 0 < len < HEADER_OFFSET is CorruptedRegion; else verify. *)
Definition import_base (s : store) (rv : N) (f : format) : store * res ekind mainreg :=
  match s_main s with
  | None => (with_main s (Some (fresh_main rv f)), Ok (fresh_main rv f))
  | Some m =>
      if m_len m =? 0 then (with_main s (Some (fresh_main rv f)), Ok (fresh_main rv f))
      else if m_len m <? HEADER_OFFSET then (s, Err CorruptedRegion)
      else match verify (m_hdr m) rv f with
           | Ok _ => (s, Ok m)
           | Err k => (s, Err k)
           | Panic => (s, Panic)
           end
  end.

Fixpoint sumN (l : list N) : N := match l with [] => 0 | x :: t => x + sumN t end.

(* import_with after the version addition; `size` = size_of::<T>() *)
Definition import_core (fam : family) (size : N) (s : store) (rv : N) (f : format)
  : store * res ekind view :=
  match import_base s rv f with
  | (s1, Ok m) =>
      match fam with
      | Raw =>
          (* raw/.../mod.rs:88-96 alignment of the data area *)
          if (HEADER_OFFSET <? m_len m) && negb ((m_len m - HEADER_OFFSET) mod size =? 0)
          then (s1, Err CorruptedRegion)
          else
            (* :98-108 holes region, if there is one: chunks of usize; a short chunk is WrongLength *)
            match s_holes s1 with
            | None => (s1, Ok {| v_data := m_data m; v_holes := [] |})
            | Some a =>
                if a_len a mod SIZE_OF_USIZE =? 0
                then (s1, Ok {| v_data := m_data m; v_holes := a_data a |})
                else (s1, Err WrongLength)
            end
      | Comp =>
          (* Pages::import (pages.rs:25-39): the region is created if missing; chunks of Page *)
          let a := match s_pages s1 with Some a => a | None => {| a_len := 0; a_data := [] |} end in
          let s2 := with_pages s1 (Some a) in
          if a_len a mod SIZE_OF_PAGE =? 0
          then (s2, Ok {| v_data := take (sumN (a_data a)) (m_data m); v_holes := [] |})
          else (s2, Err WrongLength)
      end
  | (s1, Err k) => (s1, Err k)
  | (s1, Panic) => (s1, Panic)
  end.

(* `fault`: an error of the environment (file lock, I/O, rawdb) hitting the first database call
   of an import_with; nothing has been touched at that point. *)
Definition import_with (oc : bool) (fam : family) (size : N) (fault : option ekind)
           (s : store) (v : N) (f : format) : store * res ekind view :=
  match add_n oc (import_adds fam) v (layer_version fam) with
  | Ok rv => match fault with
             | Some k => (s, Err k)
             | None => import_core fam size s rv f
             end
  | Err k => (s, Err k)
  | Panic => (s, Panic)
  end.

(* what the reset arm of forced_import_with removes before its second attempt — read from the
   source by tools/gen_import.py (Gen/ImportFacts.v).  On the current tree: raw = main and holes
   region (raw/.../mod.rs:69-74, the second removal since the fix 5d157a9), compressed = main and
   page index (compressed/.../mod.rs:64-69). *)
Definition removes_main (fam : family) : bool :=
  match fam with Raw => RAW_FORCED_REMOVES_MAIN | Comp => COMP_FORCED_REMOVES_MAIN end.
Definition removes_pages (fam : family) : bool :=
  match fam with Raw => RAW_FORCED_REMOVES_PAGES | Comp => COMP_FORCED_REMOVES_PAGES end.
Definition removes_holes (fam : family) : bool :=
  match fam with Raw => RAW_FORCED_REMOVES_HOLES | Comp => COMP_FORCED_REMOVES_HOLES end.

Definition reset_regions (fam : family) (s : store) : store :=
  let s1 := if removes_main fam then with_main s None else s in
  let s2 := if removes_pages fam then with_pages s1 None else s1 in
  if removes_holes fam then with_holes s2 None else s2.

Definition forced_import_with (oc : bool) (fam : family) (size : N) (fault : option ekind)
           (s : store) (v : N) (f : format) : store * res ekind view :=
  match add_n oc (forced_own_adds fam) v (layer_version fam) with
  | Ok v1 =>
      let attempt fl st :=
        if forced_calls_import fam then import_with oc fam size fl st v1 f
        else match fl with Some k => (st, Err k) | None => import_core fam size st v1 f end in
      match attempt fault s with
      | (s1, Err k) => if resets fam k then attempt None (reset_regions fam s1) else (s1, Err k)
      | r => r
      end
  | Err k => (s, Err k)
  | Panic => (s, Panic)
  end.

Record req := { q_entry : entry; q_ver : N; q_fmt : format }.

Definition run_entry (oc : bool) (size : N) (fault : option ekind) (q : req) (s : store)
  : store * res ekind view :=
  match q_entry q with
  | EImport => import_with oc (fam_of (q_fmt q)) size fault s (q_ver q) (q_fmt q)
  | EForced => forced_import_with oc (fam_of (q_fmt q)) size fault s (q_ver q) (q_fmt q)
  end.

Definition eff_req (oc : bool) (q : req) : res ekind N :=
  eff oc (fam_of (q_fmt q)) (q_entry q) (q_ver q).

(* ---- filling a freshly opened vector and writing it (push*, delete*, write).
   raw: any_stored_vec.rs:50-143 — data area = len*size bytes, a holes region iff there are holes;
   compressed: one page-index entry per page (one page here: the generator stays below PER_PAGE).
   `clen` is the length of the compressor's output, an external quantity: the theorems of
   ImportProofs.v hold for every clen and their results do not mention it. *)
Definition fill (fam : family) (size clen : N) (data holes : list N) (s : store) : store :=
  match s_main s with
  | None => s
  | Some m =>
      match fam with
      | Raw =>
          let m' := {| m_len := HEADER_OFFSET + size * len data; m_hdr := m_hdr m; m_data := data |} in
          let s1 := with_main s (Some m') in
          match holes with
          | [] => s1
          | _ => with_holes s1 (Some {| a_len := SIZE_OF_USIZE * len holes; a_data := holes |})
          end
      | Comp =>
          match data with
          | [] => s
          | _ =>
              let m' := {| m_len := HEADER_OFFSET + clen; m_hdr := m_hdr m; m_data := data |} in
              with_pages (with_main s (Some m')) (Some {| a_len := SIZE_OF_PAGE; a_data := [len data] |})
          end
      end
  end.

(* the store after "create through q, fill, write, drop" *)
Definition created (oc : bool) (size clen : N) (q : req) (data holes : list N) : option store :=
  match run_entry oc size None q empty_store with
  | (s, Ok _) => Some (fill (fam_of (q_fmt q)) size clen data
                            (match fam_of (q_fmt q) with Raw => holes | Comp => [] end) s)
  | _ => None
  end.

(* ---- the property's own vocabulary, as booleans for the table/witness computations *)
Definition format_eqb (a b : format) : bool := fcode a =? fcode b.
Definition entry_eqb (a b : entry) : bool :=
  match a, b with EImport, EImport | EForced, EForced => true | _, _ => false end.
Definition view_eqb (a b : view) : bool :=
  (if list_eq_dec N.eq_dec (v_data a) (v_data b) then true else false) &&
  (if list_eq_dec N.eq_dec (v_holes a) (v_holes b) then true else false).

(* user-level "version and format match the request" *)
Definition user_match (q1 q2 : req) : bool := (q_ver q1 =? q_ver q2) && format_eqb (q_fmt q1) (q_fmt q2).

(* the class of the known defect: created through one entry point, reopened through the other *)
Definition KnownClass_b (q1 q2 : req) : bool := negb (entry_eqb (q_entry q1) (q_entry q2)).

(* spec oracle on the model (the property text), used for S lines and the witnesses:
   returns true when the outcome of reopening `s` (created by q1 with data/holes) through q2 is what
   the property demands. *)
Definition spec_ok (q1 q2 : req) (data holes : list N) (s : store) (out : store * res ekind view) : bool :=
  let '(s', r) := out in
  if user_match q1 q2 then
    match r with
    | Ok w => view_eqb w {| v_data := data; v_holes := match fam_of (q_fmt q1) with Raw => holes | Comp => [] end |}
    | _ => false
    end
  else
    match q_entry q2, r with
    | EImport, Err DifferentVersion | EImport, Err DifferentFormat =>
        match s_main s, s_main s' with Some m, Some m' => (m_len m =? m_len m') && (if list_eq_dec N.eq_dec (m_data m) (m_data m') then true else false) | _, _ => false end
    | EForced, Ok w => view_eqb w {| v_data := []; v_holes := [] |}
    | _, _ => false
    end.

(* one whole scenario, as run by the differential engine *)
Definition scenario (oc : bool) (size clen : N) (q1 q2 : req) (data holes : list N)
  : option (store * (store * res ekind view)) :=
  match created oc size clen q1 data holes with
  | Some s => Some (s, run_entry oc size None q2 s)
  | None => None
  end.

(* ---- damage done to the stored regions from outside (the differential engine does the same
   through the rawdb API): used to exercise the error kinds of the reset list. *)
Inductive tamper := TNone | THeaderVersion | TFormatByte | TShortMain | TAuxOdd | TMisaligned.

Definition odd_aux (a : option auxreg) : option auxreg :=
  match a with Some r => Some {| a_len := 7; a_data := a_data r |} | None => None end.

Definition apply_tamper (t : tamper) (fam : family) (s : store) : store :=
  match t, s_main s with
  | TNone, _ => s
  | THeaderVersion, Some m =>
      with_main s (Some {| m_len := m_len m; m_data := m_data m;
                           m_hdr := {| h_hv := HEADER_VERSION + 7; h_vv := h_vv (m_hdr m); h_fmt := h_fmt (m_hdr m) |} |})
  | TFormatByte, Some m =>
      with_main s (Some {| m_len := m_len m; m_data := m_data m;
                           m_hdr := {| h_hv := h_hv (m_hdr m); h_vv := h_vv (m_hdr m); h_fmt := 7 |} |})
  | TShortMain, Some m =>
      with_main s (Some {| m_len := 10; m_hdr := m_hdr m; m_data := [] |})
  (* three stray bytes appended to the main region: header, version and format intact, the data
     area no longer a whole number of elements (raw: CorruptedRegion; compressed: not looked at) *)
  | TMisaligned, Some m =>
      with_main s (Some {| m_len := m_len m + 3; m_hdr := m_hdr m; m_data := m_data m |})
  | TAuxOdd, _ =>
      match fam with
      | Raw => with_holes s (odd_aux (s_holes s))
      | Comp => with_pages s (odd_aux (s_pages s))
      end
  | _, None => s
  end.

(* after reopening: push `k` probe values p0.. and read every slot (collect_holed for the raw
   family: get_any_or_read_at looks at the holes set first, raw/.../mod.rs:261-263) *)
Fixpoint memN (x : N) (l : list N) : bool := match l with [] => false | y :: t => (x =? y) || memN x t end.
Definition probe (w : view) (vals : list N) : list (option N) :=
  let all := v_data w ++ vals in
  map (fun iv => if memN (fst iv) (v_holes w) then None else Some (snd iv))
      (combine (seqN 0 (length all)) all).
