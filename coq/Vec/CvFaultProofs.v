(* Vec/CvFaultProofs.v — PROOFS about the change-record parser of compressed vectors
   (CvModel.parse_change = base parse_change_data + expect_end) and about what cv_undo makes of a
   record whose length fields were altered (C16 / C17, compressed format):
     - every strict prefix of ANY accepted input is rejected with an error,
     - any accepted input followed by extra bytes is rejected,
     - the parser never panics,
     - the verdict on a record with an arbitrary prev_stored_len / stamp / stored_len field: WHEN it is
       refused (Underflow / IndexTooHigh, state unchanged) and what is applied otherwise,
     - the statement "a record with an altered prev_stored_len is never applied" is refuted.
   The structure follows Vec/RvChangeProofs.v (raw records); the cursor of CvModel is the consuming
   one (remaining bytes, absolute position), so the combinators are re-proved for it. *)
From Anydb Require Import Common.Base Common.LE Gen.Consts Gen.Sizes Codec.Vecdb
  Vec.CvRegion Vec.CvPages Vec.CvModel Vec.CvInst Vec.CvFault.

(* ---- list helpers ------------------------------------------------------------------------------ *)
Lemma cf_drop_take {A} k m (l : list A) : k <= m -> drop k (take m l) = take (m - k) (drop k l).
Proof. intros H. unfold drop, take. rewrite skipn_firstn_comm. f_equal. lia. Qed.

Lemma cf_skipn_skipn {A} a b (l : list A) : skipn a (skipn b l) = skipn (b + a) l.
Proof.
  revert l; induction b; intros l; cbn [skipn Nat.add]; auto.
  destruct l; [now rewrite !skipn_nil|]. apply IHb.
Qed.

Lemma cf_drop_drop {A} a b (l : list A) : drop a (drop b l) = drop (b + a) l.
Proof. unfold drop. rewrite cf_skipn_skipn. f_equal. lia. Qed.

Lemma cf_take_take {A} a m (l : list A) : a <= m -> take a (take m l) = take a l.
Proof. intros H. unfold take. rewrite firstn_firstn. f_equal. lia. Qed.

Lemma cf_drop_0 {A} (l : list A) : drop 0 l = l.
Proof. reflexivity. Qed.

Lemma cf_len_u64b v : len (u64b v) = 8.
Proof. unfold u64b. now rewrite le_enc_len. Qed.

  Definition cop (A : Type) := CvModel.cursor -> res cverr (A * CvModel.cursor).

  (* truncation behaviour of a cursor operation that succeeded on the remaining bytes [b] at
     position [p] and consumed [k] of them: on [take m b] it gives the same answer when k <= m and
     an error otherwise; it never consumes more than there is *)
  Definition tr_ok {A} (f : cop A) : Prop :=
    forall b p m v c', f (b, p) = Ok (v, c') ->
    exists k, c' = (drop k b, p + k) /\ k <= len b /\
      (k <= m -> f (take m b, p) = Ok (v, (drop k (take m b), p + k))) /\
      (m < k -> exists e, f (take m b, p) = Err e).

  Lemma check_remaining_ok b p n : check_remaining (b, p) n = Ok tt -> p + n < two64 /\ n <= len b.
  Proof.
    unfold check_remaining. cbn [fst snd]. destruct (two64 <=? p + n) eqn:E1; [discriminate|].
    destruct (len b <? n) eqn:E2; [discriminate|]. lia.
  Qed.
  Lemma check_remaining_intro b p n : p + n < two64 -> n <= len b -> check_remaining (b, p) n = Ok tt.
  Proof.
    intros. unfold check_remaining. cbn [fst snd].
    destruct (two64 <=? p + n) eqn:E1; [lia|]. destruct (len b <? n) eqn:E2; [lia|]. reflexivity.
  Qed.
  Lemma check_remaining_short b p m n : p + n < two64 -> m < n -> check_remaining (take m b, p) n = Err EWrongLength.
  Proof.
    intros. unfold check_remaining. cbn [fst snd]. rewrite len_take.
    destruct (two64 <=? p + n) eqn:E1; [lia|]. destruct (N.min m (len b) <? n) eqn:E2; [reflexivity|lia].
  Qed.
  Lemma check_remaining_np c n : check_remaining c n <> Panic.
  Proof. unfold check_remaining. destruct (two64 <=? _); [discriminate|]. destruct (_ <? _); discriminate. Qed.

  Lemma tr_rd_u64 : tr_ok rd_u64.
  Proof.
    intros b p m v c' H. unfold rd_u64 in *.
    destruct (check_remaining (b, p) 8) as [[]| |] eqn:E; cbn [bind] in H; try discriminate.
    cbn [fst snd] in H. injection H as <- <-. apply check_remaining_ok in E.
    exists 8. split; [reflexivity|]. split; [lia|]. split.
    - intros Hm. rewrite check_remaining_intro; [|lia|rewrite len_take; lia]. cbn [bind fst snd].
      now rewrite cf_take_take.
    - intros Hm. exists EWrongLength. rewrite check_remaining_short by lia. reflexivity.
  Qed.

  Lemma tr_rd_skip n : tr_ok (fun c => let! c' := rd_skip c n in Ok (tt, c')).
  Proof.
    intros b p m v c' H. unfold rd_skip in *.
    destruct (check_remaining (b, p) n) as [[]| |] eqn:E; cbn [bind] in H; try discriminate.
    cbn [fst snd] in H. injection H as <- <-. apply check_remaining_ok in E.
    exists n. split; [reflexivity|]. split; [lia|]. split.
    - intros Hm. rewrite check_remaining_intro; [|lia|rewrite len_take; lia]. reflexivity.
    - intros Hm. exists EWrongLength. rewrite check_remaining_short by lia. reflexivity.
  Qed.


  Lemma tr_ret {A} (x : A) : tr_ok (fun c => Ok (x, c)).
  Proof.
    intros b p m v c' H. injection H as <- <-. exists 0.
    rewrite !cf_drop_0, N.add_0_r. split; [reflexivity|]. split; [lia|]. split.
    - intros _. reflexivity.
    - lia.
  Qed.
  Lemma tr_err {A} e : tr_ok (fun _ => @Err cverr (A * cursor) e).
  Proof. intros b p m v c' H. discriminate. Qed.

  Lemma tr_bind {A B} (f : cop A) (k : A * cursor -> res cverr (B * cursor)) :
    tr_ok f -> (forall a, tr_ok (fun c => k (a, c))) -> tr_ok (fun c => bind (f c) k).
  Proof.
    intros Hf Hk b p m v c' H.
    destruct (f (b, p)) as [[a c1]| |] eqn:E1; cbn [bind] in H; try discriminate.
    destruct (Hf b p m a c1 E1) as (k1 & -> & Hk1 & Hle1 & Hgt1).
    destruct (Hk a (drop k1 b) (p + k1) (m - k1) v c' H) as (k2 & -> & Hk2 & Hle2 & Hgt2).
    rewrite len_drop in Hk2. cbv beta in Hle2, Hgt2.
    exists (k1 + k2). split; [rewrite cf_drop_drop; f_equal; lia|]. split; [lia|]. split.
    - intros Hm. rewrite Hle1 by lia. cbn [bind]. rewrite (cf_drop_take k1 m b) by lia.
      etransitivity; [apply Hle2; lia|].
      rewrite <- (cf_drop_take k1 m b) by lia. rewrite cf_drop_drop.
      rewrite <- N.add_assoc. reflexivity.
    - intros Hm. destruct (N.le_gt_cases k1 m) as [H1|H1].
      + rewrite Hle1 by lia. cbn [bind]. rewrite (cf_drop_take k1 m b) by lia. apply Hgt2. lia.
      + destruct (Hgt1 H1) as [e ->]. exists e. reflexivity.
  Qed.

  Lemma tr_if {A} (cond : bool) (f g : cop A) : tr_ok f -> tr_ok g -> tr_ok (fun c => if cond then f c else g c).
  Proof. destruct cond; auto. Qed.

  Lemma tr_bind_skip {B} n (k : cursor -> res cverr (B * cursor)) :
    tr_ok k -> tr_ok (fun c => bind (rd_skip c n) k).
  Proof.
    intros Hk.
    assert (E : forall c, bind (rd_skip c n) k = bind (let! c' := rd_skip c n in Ok (tt, c')) (fun p => k (snd p))).
    { intros c. destruct (rd_skip c n); reflexivity. }
    intros b p m v c' H. rewrite E in H.
    destruct (tr_bind (fun c => let! c' := rd_skip c n in Ok (tt, c')) (fun p => k (snd p)) (tr_rd_skip n) (fun _ => Hk) b p m v c' H)
      as (k0 & ? & ? & H1 & H2).
    exists k0. repeat split; auto.
    - intros Hm. rewrite E. auto.
    - intros Hm. rewrite E. auto.
  Qed.

  (* ---- never panics ------------------------------------------------------------------------- *)
  Definition np {A} (f : cop A) : Prop := forall c, f c <> Panic.
  Lemma np_rd_u64 : np rd_u64.
  Proof.
    intros c. unfold rd_u64. pose proof (check_remaining_np c 8).
    destruct (check_remaining c 8) as [[]| |]; cbn [bind]; congruence.
  Qed.
  Lemma np_bind {A B} (f : cop A) (k : A * cursor -> res cverr (B * cursor)) :
    np f -> (forall a, np (fun c => k (a, c))) -> np (fun c => bind (f c) k).
  Proof. intros Hf Hk c. specialize (Hf c). destruct (f c) as [[a c1]| |]; cbn [bind]; try congruence; try apply Hk. Qed.
  Lemma np_bind_skip {B} n (k : cursor -> res cverr (B * cursor)) : np k -> np (fun c => bind (rd_skip c n) k).
  Proof.
    intros Hk c. unfold rd_skip. pose proof (check_remaining_np c n).
    destruct (check_remaining c n) as [[]| |]; cbn [bind]; try congruence; try apply Hk.
  Qed.
  Lemma np_ret {A} (x : A) : np (fun c => Ok (x, c)). Proof. intros c; discriminate. Qed.
  Lemma np_err {A} e : np (fun _ => @Err cverr (A * cursor) e). Proof. intros c; discriminate. Qed.
  Lemma np_if {A} (cond : bool) (f g : cop A) : np f -> np g -> np (fun c => if cond then f c else g c).
  Proof. destruct cond; auto. Qed.

Section Parser.
  Variable T : Type.
  Variable size : N.
  Variable dec : list N -> T.

  Notation cursor := CvModel.cursor.
  Notation rd_values := (rd_values T size dec).
  Notation parse_change := (parse_change T size dec).


  Lemma tr_rd_values count : tr_ok (fun c => rd_values c count).
  Proof.
    intros b p m v c' H. unfold CvModel.rd_values in *.
    destruct (two64 <=? size * count) eqn:E0; [discriminate|]. cbv zeta in *.
    destruct (check_remaining (b, p) (size * count)) as [[]| |] eqn:E; cbn [bind] in H; try discriminate.
    cbn [fst snd] in H. injection H as <- <-. apply check_remaining_ok in E.
    exists (size * count). split; [reflexivity|]. split; [lia|]. split.
    - intros Hm. rewrite check_remaining_intro; [|lia|rewrite len_take; lia]. cbn [bind fst snd].
      now rewrite cf_take_take.
    - intros Hm. exists EWrongLength. rewrite check_remaining_short by lia. reflexivity.
  Qed.

  Lemma np_rd_values n : np (fun c => rd_values c n).
  Proof.
    intros c. unfold CvModel.rd_values. destruct (two64 <=? size * n); [discriminate|]. cbv zeta.
    pose proof (check_remaining_np c (size * n)). destruct (check_remaining c (size * n)) as [[]| |]; cbn [bind]; congruence.
  Qed.

  (* ---- the record parser as a cursor operation: parse_change_data without expect_end ----------- *)
  Definition parse_cur : cop (change T) := fun c0 =>
    let! (ps, c1) := rd_u64 c0 in
    let! (psl, c2) := rd_u64 c1 in
    let! c3 := rd_skip c2 8 in
    let! (tc, c4) := rd_u64 c3 in
    if psl <? tc then Err EUnderflow else
    let! (tv, c5) := rd_values c4 tc in
    let! (ppl, c6) := rd_u64 c5 in
    let! (pp, c7) := rd_values c6 ppl in
    let! (pl, c8) := rd_u64 c7 in
    if two64 <=? size * pl then Err EOverflow else
    let! c9 := rd_skip c8 (size * pl) in
    Ok (mkChange T ps psl (psl - tc) tv pp, c9).

  Definition expect_end (x : change T * cursor) : res cverr (change T) :=
    if negb (len (fst (snd x)) =? 0) then Err EWrongLength else Ok (fst x).

  Lemma parse_change_split bs : parse_change bs = bind (parse_cur (bs, 0)) expect_end.
  Proof.
    unfold CvModel.parse_change, parse_cur, expect_end.
    destruct (rd_u64 (bs, 0)) as [[ps c1]| |]; cbn [bind]; try reflexivity.
    destruct (rd_u64 c1) as [[psl c2]| |]; cbn [bind]; try reflexivity.
    destruct (rd_skip c2 8) as [c3| |]; cbn [bind]; try reflexivity.
    destruct (rd_u64 c3) as [[tc c4]| |]; cbn [bind]; try reflexivity.
    destruct (psl <? tc); try reflexivity.
    destruct (rd_values c4 tc) as [[tv c5]| |]; cbn [bind]; try reflexivity.
    destruct (rd_u64 c5) as [[ppl c6]| |]; cbn [bind]; try reflexivity.
    destruct (rd_values c6 ppl) as [[pp c7]| |]; cbn [bind]; try reflexivity.
    destruct (rd_u64 c7) as [[pl c8]| |]; cbn [bind]; try reflexivity.
    destruct (two64 <=? size * pl); try reflexivity.
    destruct (rd_skip c8 (size * pl)) as [c9| |]; cbn [bind fst snd]; reflexivity.
  Qed.

  Ltac tr_step := first
   [ apply tr_ret | apply tr_err
   | apply (tr_bind rd_u64); [apply tr_rd_u64|intros [? ?]; cbn beta iota]
   | eapply (tr_bind (fun c => rd_values c _)); [apply tr_rd_values|intros [? ?]; cbn beta iota]
   | apply tr_bind_skip
   | apply tr_if; [apply tr_err|] ].

  Lemma tr_parse_cur : tr_ok parse_cur.
  Proof.
    unfold parse_cur.
    apply (tr_bind rd_u64); [apply tr_rd_u64|intros ps].
    apply (tr_bind rd_u64); [apply tr_rd_u64|intros psl].
    apply tr_bind_skip.
    apply (tr_bind rd_u64); [apply tr_rd_u64|intros tc].
    apply tr_if; [apply tr_err|].
    apply (tr_bind (fun c => rd_values c tc)); [apply tr_rd_values|intros tv].
    apply (tr_bind rd_u64); [apply tr_rd_u64|intros ppl].
    apply (tr_bind (fun c => rd_values c ppl)); [apply tr_rd_values|intros pp].
    apply (tr_bind rd_u64); [apply tr_rd_u64|intros pl].
    apply tr_if; [apply tr_err|].
    apply tr_bind_skip. apply tr_ret.
  Qed.

  Lemma np_parse_cur : np parse_cur.
  Proof.
    unfold parse_cur.
    apply (np_bind rd_u64); [apply np_rd_u64|intros ps].
    apply (np_bind rd_u64); [apply np_rd_u64|intros psl].
    apply np_bind_skip.
    apply (np_bind rd_u64); [apply np_rd_u64|intros tc].
    apply np_if; [apply np_err|].
    apply (np_bind (fun c => rd_values c tc)); [apply np_rd_values|intros tv].
    apply (np_bind rd_u64); [apply np_rd_u64|intros ppl].
    apply (np_bind (fun c => rd_values c ppl)); [apply np_rd_values|intros pp].
    apply (np_bind rd_u64); [apply np_rd_u64|intros pl].
    apply np_if; [apply np_err|].
    apply np_bind_skip. apply np_ret.
  Qed.

  (* (c) the parser is total: Ok or Err on every byte string, never a panic *)
  Theorem comp_parse_never_panics bs : parse_change bs <> Panic.
  Proof.
    rewrite parse_change_split. pose proof (np_parse_cur (bs, 0)).
    destruct (parse_cur (bs, 0)) as [x| |]; cbn [bind]; try congruence.
    unfold expect_end. destruct (negb _); discriminate.
  Qed.

  (* what an accepted input looks like: the cursor parse succeeded and consumed every byte *)
  Lemma comp_parse_ok_inv bs ch :
    parse_change bs = Ok ch -> parse_cur (bs, 0) = Ok (ch, ([], len bs)).
  Proof.
    rewrite parse_change_split. intros H.
    destruct (parse_cur (bs, 0)) as [[y c]| |] eqn:E; cbn [bind] in H; try discriminate.
    destruct (tr_parse_cur bs 0 0 y c E) as (k & -> & Hk & _).
    unfold expect_end in H. cbn [fst snd] in H. rewrite len_drop in H.
    destruct (len bs - k =? 0) eqn:Ek; cbn [negb] in H; [|discriminate]. injection H as ->.
    apply N.eqb_eq in Ek. assert (k = len bs) by lia. subst k.
    f_equal. f_equal. f_equal.
    unfold drop, len. rewrite Nat2N.id. apply skipn_all.
  Qed.

  (* (a) every strict prefix of ANY accepted input is rejected with an error *)
  Theorem comp_accepted_prefix_rejected bs ch m :
    parse_change bs = Ok ch -> m < len bs -> exists e, parse_change (take m bs) = Err e.
  Proof.
    intros H Hm. apply comp_parse_ok_inv in H.
    destruct (tr_parse_cur bs 0 m ch _ H) as (k & Ek & Hk & _ & Hgt).
    assert (k = len bs) by (injection Ek as _ Ek; lia). subst k.
    destruct (Hgt Hm) as [e He]. exists e. rewrite parse_change_split, He. reflexivity.
  Qed.

  (* (b) any accepted input followed by extra bytes is rejected (expect_end) *)
  Theorem comp_trailing_bytes_rejected bs ch extra :
    parse_change bs = Ok ch -> extra <> [] -> exists e, parse_change (bs ++ extra) = Err e.
  Proof.
    intros H Hx. pose proof (comp_parse_ok_inv bs ch H) as Hc.
    assert (Hl : len bs < len (bs ++ extra)).
    { rewrite len_app. destruct extra; [congruence|]. rewrite len_cons. lia. }
    rewrite parse_change_split.
    destruct (parse_cur (bs ++ extra, 0)) as [[y c]|e|] eqn:E; cbn [bind].
    - destruct (tr_parse_cur (bs ++ extra) 0 (len bs) y c E) as (k & -> & Hk & Hle & Hgt).
      rewrite (take_app_exact bs extra (len bs) eq_refl) in Hle, Hgt.
      destruct (N.le_gt_cases k (len bs)) as [H1|H1].
      + rewrite Hc in Hle. specialize (Hle H1). injection Hle as _ Hd Hp.
        assert (k = len bs) by lia. subst k.
        unfold expect_end. cbn [fst snd]. rewrite len_drop.
        destruct (len (bs ++ extra) - len bs =? 0) eqn:Ep; [lia|]. cbn [negb]. eauto.
      + destruct (Hgt H1) as [e He]. congruence.
    - eauto.
    - exfalso. apply (np_parse_cur (bs ++ extra, 0)). exact E.
  Qed.
End Parser.

(* ---- (e) the verdict of cv_undo on a record with arbitrary header fields -------------------------- *)
Section Verdict.
  Variable T : Type.
  Variable size : N.
  Variable enc : T -> list N.
  Variable dec : list N -> T.
  Hypothesis size_pos : 0 < size.
  Hypothesis enc_len : forall t, len (enc t) = size.
  Hypothesis dec_enc : forall t, dec (enc t) = t.

  Notation values_to_bytes := (values_to_bytes T enc).
  Notation rd_values := (rd_values T size dec).
  Notation parse_change := (parse_change T size dec).
  Notation cv_undo := (cv_undo T size dec).
  Notation record_bytes := (record_bytes T enc).

  Lemma cf_len_vtb (l : list T) : len (values_to_bytes l) = size * len l.
  Proof.
    unfold CvModel.values_to_bytes. induction l as [|x l IH]; cbn [flat_map]; [change (len (@nil T)) with 0; rewrite N.mul_0_r; reflexivity|].
    rewrite len_app, len_cons, IH, enc_len. lia.
  Qed.

  Lemma cf_decode_vals (l : list T) rest :
    decode_vals T size dec (length l) (values_to_bytes l ++ rest) = l.
  Proof.
    unfold CvModel.values_to_bytes. induction l as [|x l IH]; cbn [flat_map length decode_vals]; [reflexivity|].
    rewrite <- app_assoc. rewrite take_app_exact, drop_app_exact by (now rewrite enc_len).
    now rewrite dec_enc, IH.
  Qed.

  Lemma cf_rd_u64_app v rest pos : v < two64 -> pos + 8 < two64 ->
    rd_u64 (u64b v ++ rest, pos) = Ok (v, (rest, pos + 8)).
  Proof.
    intros Hv Hp. unfold rd_u64. rewrite check_remaining_intro; [|exact Hp|rewrite len_app, cf_len_u64b; lia].
    cbn [bind fst snd]. rewrite take_app_exact, drop_app_exact by (now rewrite cf_len_u64b).
    unfold u64b. change (le_enc 8 v) with (enc_u64 v). now rewrite dec_enc_u64.
  Qed.

  Lemma cf_rd_values_app l rest pos : pos + size * len l < two64 ->
    rd_values (values_to_bytes l ++ rest, pos) (len l) = Ok (l, (rest, pos + size * len l)).
  Proof.
    intros Hp. unfold CvModel.rd_values.
    destruct (two64 <=? size * len l) eqn:E0; [lia|]. cbv zeta.
    rewrite check_remaining_intro; [|exact Hp|rewrite len_app, cf_len_vtb; lia].
    cbn [bind fst snd]. rewrite take_app_exact, drop_app_exact by (now rewrite cf_len_vtb).
    unfold len at 1. rewrite Nat2N.id.
    rewrite <- (app_nil_r (values_to_bytes l)). now rewrite cf_decode_vals.
  Qed.

  Lemma cf_rd_skip_app (x rest : list N) pos : pos + len x < two64 ->
    rd_skip (x ++ rest, pos) (len x) = Ok (rest, pos + len x).
  Proof.
    intros Hp. unfold rd_skip. rewrite check_remaining_intro; [|exact Hp|rewrite len_app; lia].
    cbn [bind fst snd]. now rewrite drop_app_exact.
  Qed.

  (* what the parser makes of a record laid out by serialize_changes, whatever its three leading
     fields hold: Underflow exactly when prev_stored_len is below the truncated count *)
  Lemma comp_parse_record stamp psl sl tv pp pu :
    stamp < two64 -> psl < two64 -> sl < two64 ->
    48 + size * len tv + size * len pp + size * len pu < two64 ->
    parse_change (record_bytes stamp psl sl tv pp pu) =
      if psl <? len tv then Err EUnderflow
      else Ok (mkChange T stamp psl (psl - len tv) tv pp).
  Proof.
    intros Ha Hb Hc Hfit. unfold CvModel.parse_change, CvFault.record_bytes.
    assert (T64 : two64 = 18446744073709551616) by reflexivity.
    assert (F1 : len tv < two64) by nia.
    assert (F2 : len pp < two64) by nia.
    assert (F3 : len pu < two64) by nia.
    rewrite cf_rd_u64_app; [|lia|lia]. cbn [bind]. cbv beta iota.
    rewrite cf_rd_u64_app; [|lia|lia]. cbn [bind]. cbv beta iota.
    rewrite <- (cf_len_u64b sl) at 2. rewrite cf_rd_skip_app; [|rewrite cf_len_u64b; lia]. cbn [bind].
    rewrite cf_len_u64b.
    rewrite cf_rd_u64_app; [|lia|lia]. cbn [bind]. cbv beta iota.
    destruct (psl <? len tv) eqn:Eu; [reflexivity|].
    rewrite cf_rd_values_app; [|lia]. cbn [bind]. cbv beta iota.
    rewrite cf_rd_u64_app; [|lia|lia]. cbn [bind]. cbv beta iota.
    rewrite cf_rd_values_app; [|lia]. cbn [bind]. cbv beta iota.
    rewrite cf_rd_u64_app; [|lia|lia]. cbn [bind]. cbv beta iota.
    replace (two64 <=? size * len pu) with false by (symmetry; apply N.leb_gt; lia).
    rewrite <- (app_nil_r (values_to_bytes pu)).
    replace (size * len pu) with (len (values_to_bytes pu)) by (rewrite cf_len_vtb; lia).
    rewrite cf_rd_skip_app; [|rewrite cf_len_vtb; lia]. cbn [bind fst]. reflexivity.
  Qed.

  Notation applied := (undo_applied T size).

  (* THE VERDICT: for a record with ANY value in the stamp, prev_stored_len and stored_len fields
     (and any value blocks), rollback's deserialize_then_undo_changes
       - refuses with Underflow          iff prev_stored_len < truncated count,
       - refuses with IndexTooHigh       iff otherwise stored_len(vector) < prev_stored_len - truncated count,
       - applies the record              in every other case;
     a refusal leaves the state unchanged.  The stamp and stored_len fields never cause a refusal. *)
  Theorem comp_record_verdict (s : cvs T) stamp psl sl tv pp pu :
    stamp < two64 -> psl < two64 -> sl < two64 ->
    48 + size * len tv + size * len pp + size * len pu < two64 ->
    cv_undo s (record_bytes stamp psl sl tv pp pu) =
      if psl <? len tv then (s, Err EUnderflow)
      else if s_stored_len s <? psl - len tv then (s, Err EIndexTooHigh)
      else (applied s stamp psl tv pp, Ok tt).
  Proof.
    intros Ha Hb Hc Hfit. unfold CvModel.cv_undo. rewrite comp_parse_record by assumption.
    destruct (psl <? len tv); [reflexivity|].
    cbn [ch_truncated_start ch_truncated_values ch_prev_stored_len ch_prev_pushed ch_prev_stamp].
    destruct (s_stored_len s <? psl - len tv); [reflexivity|].
    unfold undo_applied. destruct tv; reflexivity.
  Qed.

  (* the case the property names: the record of an append-only commit (no truncated values) whose
     prev_stored_len field was overwritten with a value above the vector's stored length is refused
     with IndexTooHigh and nothing changes — this check is the ONLY validation of that field *)
  Corollary comp_append_only_psl_refused (s : cvs T) stamp psl' sl pp pu :
    stamp < two64 -> psl' < two64 -> sl < two64 ->
    48 + size * len pp + size * len pu < two64 ->
    s_stored_len s < psl' ->
    cv_undo s (record_bytes stamp psl' sl [] pp pu) = (s, Err EIndexTooHigh).
  Proof.
    intros Ha Hb Hc Hfit Hs. rewrite comp_record_verdict; try assumption; [|rewrite len_nil; lia].
    rewrite len_nil. destruct (psl' <? 0) eqn:E0; [lia|].
    destruct (s_stored_len s <? psl' - 0) eqn:E1; [reflexivity|lia].
  Qed.

  (* … and is applied as soon as the altered value stays at or below it: no checksum *)
  Corollary comp_append_only_psl_accepted (s : cvs T) stamp psl' sl pp pu :
    stamp < two64 -> psl' < two64 -> sl < two64 ->
    48 + size * len pp + size * len pu < two64 ->
    psl' <= s_stored_len s ->
    cv_undo s (record_bytes stamp psl' sl [] pp pu) = (applied s stamp psl' [] pp, Ok tt) /\
    s_stored_len (applied s stamp psl' [] pp) = psl'.
  Proof.
    intros Ha Hb Hc Hfit Hs. rewrite comp_record_verdict; try assumption; [|rewrite len_nil; lia].
    rewrite len_nil. destruct (psl' <? 0) eqn:E0; [lia|].
    destruct (s_stored_len s <? psl' - 0) eqn:E1; [lia|]. split; [reflexivity|].
    unfold undo_applied, update_stamp. destruct (_ =? _); reflexivity.
  Qed.
  (* ---- the same through the fault operations and rollback() ------------------------------------- *)
  Lemma lookup_dir_fault dir st g b b' :
    lookup_file dir st = Some b -> g b = Some b' -> lookup_file (dir_fault dir st g) st = Some b'.
  Proof.
    induction dir as [|[k x] t IH]; cbn [lookup_file dir_fault]; [discriminate|].
    intros H Hg. destruct (k =? st) eqn:E.
    - injection H as ->. rewrite Hg. cbn [lookup_file]. now rewrite E.
    - cbn [lookup_file]. rewrite E. auto.
  Qed.

  (* FOverwrite at byte offset 8 replaces exactly the prev_stored_len field *)
  Lemma overwrite_psl stamp psl sl tv pp pu st v :
    fault_bytes (FOverwrite st 8 v) (record_bytes stamp psl sl tv pp pu) = Some (record_bytes stamp v sl tv pp pu).
  Proof.
    unfold fault_bytes, CvFault.record_bytes.
    set (R := u64b sl ++ _).
    assert (L : (len (u64b stamp ++ u64b psl ++ R) <? 8 + 8) = false).
    { apply N.ltb_ge. rewrite !len_app, !cf_len_u64b. lia. }
    rewrite L. reflexivity.   (* u64b computes to eight cells: take / drop reduce on them *)
  Qed.

  (* the fault case the property names, end to end on the model: the vector stands on stamp st, the
     record of st is the one of an append-only commit, its prev_stored_len field is overwritten with a
     value above the stored length: rollback() returns IndexTooHigh and the state is unchanged *)
  Theorem comp_rollback_overwritten_psl_refused (s : cvs T) dir stamp psl sl pp pu v :
    s_changes s = Some dir ->
    lookup_file dir (cv_stamp s) = Some (record_bytes stamp psl sl [] pp pu) ->
    stamp < two64 -> v < two64 -> sl < two64 -> 48 + size * len pp + size * len pu < two64 ->
    s_stored_len s < v ->
    let s' := cv_fault s (FOverwrite (cv_stamp s) 8 v) in
    cv_rollback T size dec s' = (s', Err EIndexTooHigh).
  Proof.
    intros Hd Hl Ha Hv Hc Hfit Hs s'.
    assert (Ech : s_changes s' = Some (dir_fault dir (cv_stamp s) (fault_bytes (FOverwrite (cv_stamp s) 8 v)))).
    { unfold s', cv_fault. rewrite Hd. reflexivity. }
    assert (Est : cv_stamp s' = cv_stamp s) by (unfold s', cv_fault; rewrite Hd; reflexivity).
    assert (Esl : s_stored_len s' = s_stored_len s) by (unfold s', cv_fault; rewrite Hd; reflexivity).
    unfold CvModel.cv_rollback. rewrite Ech, Est.
    rewrite (lookup_dir_fault _ _ _ _ _ Hl (overwrite_psl stamp psl sl [] pp pu (cv_stamp s) v)).
    rewrite comp_append_only_psl_refused; try assumption; [reflexivity|rewrite Esl; assumption].
  Qed.
End Verdict.

(* ---- the full statement is false: a witness ------------------------------------------------------ *)
(* u64 elements; a vector holding 2 stored values; the record of an append-only commit made from
   stored length 2 (prev_stored_len = 2); the field overwritten with 1: applied, stored length 1 *)
Definition wit_state : x_cvs 8 :=
  mkCvs (mkHeader HEADER_VERSION 0 0 2 FORMAT_LZ4) false [] (mkPages [] None []) 2 [] [] 2 1 None.

Theorem damaged_record_refuted :
  ~ C16_comp_damaged_refused_full (xT 8) 8 (x_enc 8) (x_dec 8).
Proof.
  intros H. destruct (H wit_state 1 2 1 2 [] [] [] ltac:(discriminate) ltac:(reflexivity)) as [e He].
  vm_compute in He. discriminate.
Qed.

(* the same witness, positively: the altered record is applied and leaves one stored value at stamp 1 *)
Theorem damaged_record_applied_witness :
  let r := cv_undo (xT 8) 8 (x_dec 8) wit_state (record_bytes (xT 8) (x_enc 8) 1 1 2 [] [] []) in
  snd r = Ok tt /\ s_stored_len (fst r) = 1 /\ cv_stamp (fst r) = 1.
Proof. vm_compute. repeat split. Qed.
