(* Vec/RdCursorProofs.v — the generic layers (Cursor, default read_sorted_into_at, CachedVec) over any
   vector whose read_into_at is correct and whose logical contents have no deleted slot, then
   instantiated with the raw vector (hole-free well-formed states, rollback overlay included).
   With a deleted slot the statements are refuted (RdRefuted: finding 6 and its variants). *)
From Anydb Require Import Common.Base Gen.Consts Gen.Sizes Vec.RdModel Vec.RdCursor Vec.RdProofs.

Lemma get_cons {A} (x : A) l k : get (x :: l) k = if k =? 0 then Some x else get l (k - 1).
Proof.
  unfold get. destruct (N.eqb_spec k 0) as [->|H]; [reflexivity|].
  replace (N.to_nat k) with (S (N.to_nat (k - 1))) by lia. reflexivity.
Qed.
Lemma seqN_shift {B} (F : N -> list B) s : forall m a,
  flat_map F (seqN (s + a) m) = flat_map (fun k => F (s + k)) (seqN a m).
Proof.
  induction m; intros a; cbn; auto. f_equal. replace (s + a + 1) with (s + (a + 1)) by lia. apply IHm.
Qed.
(* a slice, index-wise *)
Lemma slice_flat (l : list N) a b :
  slice a b l = flat_map (fun k => opt_list (get l k)) (seqN a (N.to_nat (b - a))).
Proof.
  pose proof (goodP_yields (fun _ => True) (slice a b l)) as (Y & _ & _).
  rewrite (slice_scan l a b a) in Y.
  assert (G : goodP (fun _ => True) (scan (fun _ o => map Yield (opt_list o)) a (disk_range l a b))
                (flat_map (fun k => opt_list (get l k)) (seqN a (N.to_nat (b - a)))))
    by (apply scan_range_good; intros; apply goodP_yields).
  destruct G as (Y' & _ & _). congruence.
Qed.

Section Generic.
  Variable v : rvec.
  Variable elem : N -> option N.          (* the logical contents *)
  Variable P : acc -> Prop.               (* where fetched byte ranges must lie *)
  Let n := v_len v.
  Definition E (k : N) : list N := opt_list (elem k).
  Hypothesis Hfull : forall k, k < n -> elem k <> None.                         (* no deleted slot *)
  Hypothesis Hout : forall k, n <= k -> elem k = None.
  Hypothesis Hread : forall f t,
    goodP P (v_read_into v f t) (flat_map E (seqN (N.min f n) (N.to_nat (N.min t n - N.min f n)))).

  Lemma singles_len : forall m a, a + N.of_nat m <= n -> len (flat_map E (seqN a m)) = N.of_nat m.
  Proof.
    induction m; intros a H; cbn [seqN flat_map]; [reflexivity|].
    rewrite len_app. rewrite IHm by lia. unfold E. destruct (elem a) eqn:Ea.
    - cbn [opt_list]. rewrite len_cons, len_nil. lia.
    - exfalso. apply (Hfull a); auto; lia.
  Qed.
  Lemma singles_get : forall m a k, a + N.of_nat m <= n -> k < N.of_nat m ->
    get (flat_map E (seqN a m)) k = elem (a + k).
  Proof.
    induction m; intros a k H Hk; [lia|]. cbn [seqN flat_map].
    unfold E at 1. destruct (elem a) eqn:Ea; [|exfalso; apply (Hfull a); auto; lia].
    cbn [opt_list app]. rewrite get_cons. destruct (N.eqb_spec k 0) as [->|Hk0].
    - now rewrite N.add_0_r.
    - rewrite IHm by lia. f_equal. lia.
  Qed.

  Definition CH := READ_CHUNK_SIZE.
  Lemma CH_pos : 0 < CH. Proof. reflexivity. Qed.
  Lemma aligned_le a : a / CH * CH <= a. Proof. pose proof CH_pos. rewrite N.mul_comm. apply N.mul_div_le. lia. Qed.
  Lemma aligned_gt a : a < a / CH * CH + CH.
  Proof. pose proof CH_pos. pose proof (N.mul_succ_div_gt a CH ltac:(lia)). lia. Qed.

  Definition Inv (c : cursor) : Prop :=
    (forall k, k < len (cu_buf c) -> get (cu_buf c) k = elem (cu_start c + k))
    /\ cu_start c + len (cu_buf c) <= n
    /\ (cu_buf c = [] \/ (cu_start c = cu_start c / CH * CH
                          /\ cu_start c + len (cu_buf c) = N.min (cu_start c + CH) n)).
  Lemma Inv_new : Inv cursor_new.
  Proof. unfold Inv, cursor_new; cbn [cu_buf cu_start cu_pos]. rewrite len_nil. split; [intros; lia|split; [lia|auto]]. Qed.
  Lemma Inv_pos c p : Inv c -> Inv {| cu_buf := cu_buf c; cu_start := cu_start c; cu_pos := p |}.
  Proof. auto. Qed.

  (* ensure_buffered_at *)
  Lemma ensure_spec c at_ : Inv c -> at_ < n ->
    exists c' a, ensure v c at_ = (ELocal (at_ - cu_start c') c', c', a)
      /\ Inv c' /\ cu_pos c' = cu_pos c
      /\ cu_start c' <= at_ /\ at_ < cu_start c' + len (cu_buf c')
      /\ Forall P a.
  Proof.
    intros (I1 & I2 & I3) Hat. unfold ensure. fold n. replace (n <=? at_) with false by lia.
    destruct ((cu_start c <=? at_) && (at_ <? cu_start c + len (cu_buf c))) eqn:Hb.
    - exists c, []. repeat split; auto; lia.
    - fold CH. set (al := at_ / CH * CH). set (en := N.min (al + CH) n).
      pose proof (aligned_le at_). pose proof (aligned_gt at_). fold al in H, H0.
      pose proof (Hread al en) as G.
      replace (N.min al n) with al in G by lia. replace (N.min en n) with en in G by (subst en; lia).
      rewrite (goodP_run _ _ _ G).
      set (L := flat_map E (seqN al (N.to_nat (en - al)))) in *.
      assert (HL : len L = en - al) by (subst L; rewrite singles_len; subst en; lia).
      destruct L as [|x L'] eqn:EL; [unfold len in HL; cbn in HL; subst en; lia|].
      exists {| cu_buf := x :: L'; cu_start := al; cu_pos := cu_pos c |}, (fetches (v_read_into v al en)).
      split; [reflexivity|]. unfold Inv. simpl cu_buf. simpl cu_start. simpl cu_pos.
      repeat split; try lia.
      + intros k Hk. rewrite <- EL. subst L. apply singles_get; subst en; lia.
      + right. split; [subst al; rewrite N.div_mul by (pose proof CH_pos; lia); reflexivity|subst en; lia].
      + destruct G as (_ & _ & F). exact F.
  Qed.

  (* Cursor::get *)
  Theorem cursor_get_spec c i : Inv c ->
    exists c' a, cursor_get v c i = (COpt (elem i), c', a) /\ Inv c' /\ cu_pos c' = cu_pos c /\ Forall P a.
  Proof.
    intros I. unfold cursor_get. fold n.
    destruct (N.leb_spec n i) as [Hn|Hn].
    - exists c, []. rewrite Hout by auto. split; [reflexivity|split; [exact I|split; [reflexivity|constructor]]].
    - destruct (ensure_spec c i I Hn) as (c' & a & -> & I' & Hp & Hs1 & Hs2 & F).
      exists c', a. split; [|split; [exact I'|split; [exact Hp|exact F]]].
      destruct I' as (I1 & _). rewrite nth_n_get. rewrite I1 by lia.
      replace (cu_start c' + (i - cu_start c')) with i by lia.
      destruct (elem i) eqn:Ei; auto. exfalso. apply (Hfull i); auto.
  Qed.

  (* Cursor::next *)
  Theorem cursor_next_spec c : Inv c ->
    exists c' a, cursor_next v c = (COpt (elem (cu_pos c)), c', a) /\ Inv c'
      /\ cu_pos c' = (if cu_pos c <? n then cu_pos c + 1 else cu_pos c) /\ Forall P a.
  Proof.
    intros I. unfold cursor_next.
    destruct (N.ltb_spec (cu_pos c) n) as [Hn|Hn].
    - destruct (ensure_spec c (cu_pos c) I Hn) as (c' & a & -> & I' & Hp & Hs1 & Hs2 & F).
      pose proof I' as (I1 & _). rewrite nth_n_get. rewrite I1 by lia.
      replace (cu_start c' + (cu_pos c - cu_start c')) with (cu_pos c) by lia.
      destruct (elem (cu_pos c)) eqn:Ei; [|exfalso; apply (Hfull (cu_pos c)); auto].
      eexists. exists a. split; [reflexivity|]. split; [apply Inv_pos; exact I'|]. split; [cbn; lia|exact F].
    - unfold ensure. fold n. replace (n <=? cu_pos c) with true by lia.
      exists c, []. rewrite Hout by auto. split; [reflexivity|split; [exact I|split; [reflexivity|constructor]]].
  Qed.

  (* default read_sorted_into_at: any index list (sortedness only matters for the number of refills) *)
  Lemma read_sorted_loop_spec idx : forall c out a, Inv c -> Forall P a ->
    exists a', read_sorted_loop v c idx out a = (ROk (out ++ flat_map E idx), a') /\ Forall P a'.
  Proof.
    induction idx as [|i idx IH]; intros c out a I Fa; cbn [read_sorted_loop flat_map].
    - exists a. now rewrite app_nil_r.
    - destruct (cursor_get_spec c i I) as (c' & a1 & -> & I' & _ & F1).
      assert (Forall P (a ++ a1)) by (apply Forall_app; auto).
      unfold E at 1. destruct (elem i); cbn [opt_list].
      + destruct (IH c' (out ++ [n0]) (a ++ a1) I' H) as (a' & -> & F'). exists a'. now rewrite <- app_assoc.
      + destruct (IH c' out (a ++ a1) I' H) as (a' & -> & F'). exists a'. auto.
  Qed.
  Theorem read_sorted_spec idx :
    exists a, read_sorted v idx = (ROk (flat_map E idx), a) /\ Forall P a.
  Proof. unfold read_sorted. apply (read_sorted_loop_spec idx cursor_new [] []); [apply Inv_new|constructor]. Qed.

  (* Cursor::fold *)
  Lemma buf_slice c a b : Inv c -> a <= b -> b <= len (cu_buf c) ->
    slice a b (cu_buf c) = flat_map E (seqN (cu_start c + a) (N.to_nat (b - a))).
  Proof.
    intros (I1 & _) Hab Hb. rewrite slice_flat. rewrite (seqN_shift E (cu_start c)).
    apply flat_map_ext_in. intros k Hk. apply in_seqN in Hk. unfold E. now rewrite I1 by lia.
  Qed.
  Lemma fold_loop_spec : forall fuel c target out a, Inv c -> cu_pos c <= target -> target <= n -> Forall P a ->
    (if cu_pos c <? target then target / CH - cu_pos c / CH + 2 <= N.of_nat fuel else 1 <= N.of_nat fuel) ->
    exists c' a', cursor_fold_loop fuel v c target out a
                  = (CList (out ++ flat_map E (seqN (cu_pos c) (N.to_nat (target - cu_pos c)))), c', a')
      /\ Inv c' /\ cu_pos c' = target /\ Forall P a'.
  Proof.
    induction fuel as [|fuel IH]; intros c target out a I Hpt Htn Fa Hfuel.
    - destruct (cu_pos c <? target); lia.
    - cbn [cursor_fold_loop]. destruct (N.leb_spec target (cu_pos c)) as [Hle|Hlt].
      + exists c, a. replace (N.to_nat (target - cu_pos c)) with O by lia. cbn. rewrite app_nil_r.
        split; [reflexivity|split; [exact I|split; [lia|exact Fa]]].
      + replace (cu_pos c <? target) with true in Hfuel by lia.
        destruct (ensure_spec c (cu_pos c) I ltac:(lia)) as (c2 & a1 & -> & I2 & Hp & Hs1 & Hs2 & F1).
        rewrite Hp.
        set (le := N.min (target - cu_start c2) (len (cu_buf c2))).
        replace (le <? cu_pos c - cu_start c2) with false by (subst le; lia).
        set (c3 := {| cu_buf := cu_buf c2; cu_start := cu_start c2; cu_pos := cu_start c2 + le |}).
        assert (I3 : Inv c3) by (apply Inv_pos; exact I2).
        assert (Hp3 : cu_pos c3 = cu_start c2 + le) by reflexivity.
        destruct (IH c3 target (out ++ slice (cu_pos c - cu_start c2) le (cu_buf c2)) (a ++ a1) I3) as (c' & a' & -> & I' & Hp' & F');
          [rewrite Hp3; subst le; lia|auto|apply Forall_app; auto| |].
        * rewrite Hp3. destruct (N.ltb_spec (cu_start c2 + le) target) as [Hlt2|Hge2]; [|lia].
          destruct I2 as (_ & _ & [Hnil|[Hal Hend]]); [rewrite Hnil in Hs2; rewrite len_nil in Hs2; lia|].
          unfold CH, READ_CHUNK_SIZE in *. subst le. lia.
        * exists c', a'. split; [|auto].
          rewrite Hp3. f_equal. f_equal. rewrite <- app_assoc. f_equal.
          rewrite (buf_slice c2 (cu_pos c - cu_start c2) le I2) by (subst le; lia).
          replace (cu_start c2 + (cu_pos c - cu_start c2)) with (cu_pos c) by lia.
          rewrite (seqN_split (cu_pos c) (cu_start c2 + le) target) by (subst le; lia).
          rewrite flat_map_app. do 3 f_equal. subst le. f_equal. lia.
  Qed.
  Theorem cursor_fold_spec c k : Inv c -> cu_pos c <= n -> n <= u64_max ->
    let target := N.min (sat_add (cu_pos c) k) n in
    exists c' a, cursor_fold v c k
                 = (CList (flat_map E (seqN (cu_pos c) (N.to_nat (target - cu_pos c)))), c', a)
      /\ Inv c' /\ cu_pos c' = target /\ Forall P a.
  Proof.
    intros I Hp Hmax target. unfold cursor_fold. fold n. fold target.
    assert (Hpt : cu_pos c <= target) by (subst target; unfold sat_add; lia).
    destruct (fold_loop_spec (S (S (N.to_nat ((target - cu_pos c) / READ_CHUNK_SIZE + 2)))) c target [] [] I Hpt)
      as (c' & a' & -> & I' & Hp' & F'); [subst target; lia|constructor| |].
    - unfold CH, READ_CHUNK_SIZE. destruct (cu_pos c <? target); lia.
    - exists c', a'. cbn [app]. auto.
  Qed.
  Lemma advance_inv c k : Inv c -> Inv (cursor_advance v c k) /\ cu_pos (cursor_advance v c k) <= n.
  Proof. intros I. split; [apply Inv_pos; exact I|cbn; fold n; lia]. Qed.

  (* CachedVec over this vector, first read (nothing cached yet) *)
  Definition data : list N := flat_map E (seqN 0 (N.to_nat n)).
  Lemma data_len : len data = n.
  Proof. unfold data. rewrite singles_len; lia. Qed.
  Lemma data_get k : get data k = elem k.
  Proof.
    destruct (N.lt_ge_cases k n).
    - unfold data. rewrite singles_get by lia. f_equal.
    - rewrite get_none by (rewrite data_len; auto). now rewrite Hout.
  Qed.
  Lemma data_slice f t : slice f t data = flat_map E (seqN f (N.to_nat (t - f))).
  Proof. rewrite slice_flat. apply flat_map_ext_in. intros k _. unfold E. now rewrite data_get. Qed.
  Theorem materialize_fresh :
    exists a, materialize v None = (ROk data, Some (n, data), a) /\ Forall P a.
  Proof.
    unfold materialize. pose proof (Hread 0 n) as G. fold n.
    replace (N.min 0 n) with 0 in G by lia. replace (N.min n n - 0) with n in G by lia.
    rewrite (goodP_run _ _ _ G). eexists. split; [reflexivity|]. now destruct G as (_ & _ & F).
  Qed.
  Definition expect (f t : N) : list N := flat_map E (seqN (N.min f n) (N.to_nat (N.min t n - N.min f n))).
  Theorem cached_fold_fresh f t : cached_fold data f t = expect f t.
  Proof.
    unfold cached_fold, expect. rewrite data_len, data_slice.
    destruct (N.le_gt_cases (N.min t n) (N.min f n)).
    - replace (N.to_nat (N.min t n - N.min f n)) with O by lia.
      replace (N.to_nat (N.min t n - N.min f (N.min t n))) with O by lia. reflexivity.
    - replace (N.min f (N.min t n)) with (N.min f n) by lia. reflexivity.
  Qed.
  Theorem cached_read_into_fresh f t : cached_read_into data f t = expect f t.
  Proof.
    unfold cached_read_into, expect. rewrite data_len.
    destruct (N.ltb_spec f (N.min t n)).
    - rewrite data_slice. replace (N.min f n) with f by lia. reflexivity.
    - replace (N.to_nat (N.min t n - N.min f n)) with O by lia. reflexivity.
  Qed.
  Theorem cached_one_fresh i : cached_one data i = elem i.
  Proof. unfold cached_one. rewrite nth_n_get. apply data_get. Qed.
  Theorem cached_sorted_fresh idx : cached_sorted data idx = flat_map E idx.
  Proof. unfold cached_sorted. apply flat_map_ext_in. intros k _. unfold E. now rewrite nth_n_get, data_get. Qed.
End Generic.

(* ------------------------------------------------------------------ the raw vector without deleted slots *)
Definition hole_free (c : rstate) : Prop := r_holes c = [].

Lemma view_full c : wf c -> hole_free c -> forall k, k < rlen c -> view c k <> None.
Proof.
  intros W Hh k Hk. unfold view. assert (Hno : is_hole c k = false) by (unfold is_hole; now rewrite Hh).
  rewrite Hno, !nth_n_get. destruct (N.ltb_spec k (r_stored c)).
  - destruct (upd_get c k) eqn:Hu; [discriminate|].
    destruct (get_some _ _ (wf_on_disk c k W H Hno Hu)) as [x ->]. discriminate.
  - destruct (get_some (r_pushed c) (k - r_stored c)) as [x ->]; [unfold rlen in Hk; lia|discriminate].
Qed.
Lemma view_out c k : rlen c <= k -> view c k = None.
Proof.
  intros Hk. unfold view, rlen in *. destruct (is_hole c k); auto.
  replace (k <? r_stored c) with false by lia. rewrite nth_n_get. apply get_none. lia.
Qed.
Lemma expected_one_view c i : expected_one c i = view c i.
Proof. unfold expected_one. destruct (N.ltb_spec i (rlen c)); auto. symmetry. now apply view_out. Qed.

Section Raw.
  Variable c : rstate.
  Hypothesis W : wf c.
  Hypothesis Hh : hole_free c.
  Let v := raw_rvec c.
  Lemma raw_read c0 : wf c0 -> forall f t,
    goodP (in_region c0) (v_read_into (raw_rvec c0) f t)
      (flat_map (E (view c0)) (seqN (N.min f (v_len (raw_rvec c0)))
         (N.to_nat (N.min t (v_len (raw_rvec c0)) - N.min f (v_len (raw_rvec c0)))))).
  Proof. intros W0 f t. apply (read_into_at_good c0 f t W0). Qed.

  Ltac raw_hyps := first [exact (view_full c W Hh) | exact (view_out c) | exact (raw_read c W)].

  Theorem raw_read_sorted idx :
    exists a, read_sorted (raw_rvec c) idx = (ROk (flat_map (fun i => opt_list (expected_one c i)) idx), a)
              /\ Forall (in_region c) a.
  Proof.
    edestruct (read_sorted_spec (raw_rvec c) (view c) (in_region c)) as (a & -> & F); try raw_hyps.
    exists a. split; [|exact F]. do 2 f_equal. apply flat_map_ext_in. intros. unfold E. now rewrite expected_one_view.
  Qed.
  Theorem raw_cursor_get cu i : Inv (raw_rvec c) (view c) cu ->
    exists cu' a, cursor_get (raw_rvec c) cu i = (COpt (expected_one c i), cu', a)
      /\ Inv (raw_rvec c) (view c) cu' /\ cu_pos cu' = cu_pos cu /\ Forall (in_region c) a.
  Proof.
    intros I. rewrite expected_one_view.
    eapply (cursor_get_spec (raw_rvec c) (view c) (in_region c)); try raw_hyps. exact I.
  Qed.
  Theorem raw_cursor_next cu : Inv (raw_rvec c) (view c) cu ->
    exists cu' a, cursor_next (raw_rvec c) cu = (COpt (expected_one c (cu_pos cu)), cu', a)
      /\ Inv (raw_rvec c) (view c) cu'
      /\ cu_pos cu' = (if cu_pos cu <? rlen c then cu_pos cu + 1 else cu_pos cu) /\ Forall (in_region c) a.
  Proof.
    intros I. rewrite expected_one_view.
    eapply (cursor_next_spec (raw_rvec c) (view c) (in_region c)); try raw_hyps. exact I.
  Qed.
  Lemma raw_inv_new : Inv (raw_rvec c) (view c) cursor_new.
  Proof. eapply (Inv_new (raw_rvec c) (view c)); try raw_hyps. Qed.
  (* Cursor::fold(k) from a fresh cursor yields the first k elements (k clamped to len) *)
  Theorem raw_cursor_fold k : rlen c <= u64_max ->
    exists cu' a, cursor_fold (raw_rvec c) cursor_new k = (CList (expected c 0 k), cu', a)
      /\ cu_pos cu' = N.min k (rlen c) /\ Forall (in_region c) a.
  Proof.
    intros H.
    edestruct (cursor_fold_spec (raw_rvec c) (view c) (in_region c)) with (c := cursor_new) (k := k)
      as (cu' & a & E1 & _ & Hp & F); try raw_hyps; [exact raw_inv_new|cbn; lia|exact H|].
    cbn [cu_pos cursor_new] in *.
    assert (Ht : N.min (sat_add 0 k) (v_len (raw_rvec c)) = N.min k (rlen c)).
    { unfold sat_add, raw_rvec, v_len. lia. }
    rewrite Ht in *. exists cu', a. split; [|auto].
    rewrite E1. rewrite expected_eq. do 2 f_equal.
    replace (N.min 0 (rlen c)) with 0 by lia. now rewrite N.sub_0_r.
  Qed.
  (* CachedVec over the raw vector, nothing cached yet *)
  Theorem raw_cached_fresh from to :
    exists d a, materialize (raw_rvec c) None = (ROk d, Some (rlen c, d), a) /\ Forall (in_region c) a
      /\ cached_fold d from to = expected c from to /\ cached_read_into d from to = expected c from to
      /\ (forall i, cached_one d i = expected_one c i).
  Proof.
    edestruct (materialize_fresh (raw_rvec c) (view c) (in_region c)) as (a & M & F); try raw_hyps.
    exists (data (raw_rvec c) (view c)), a. split; [exact M|]. split; [exact F|].
    split; [|split].
    - erewrite (cached_fold_fresh (raw_rvec c) (view c)); try raw_hyps. apply expected_eq.
    - erewrite (cached_read_into_fresh (raw_rvec c) (view c)); try raw_hyps. apply expected_eq.
    - intros i. rewrite expected_one_view.
      eapply (cached_one_fresh (raw_rvec c) (view c)); try raw_hyps.
  Qed.
End Raw.
