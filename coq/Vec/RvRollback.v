(* Vec/RvRollback.v — commit / rollback part of the raw-vector model, the operation type and
   the step function.  MODEL file: definitions only.
   Sources: crates/vecdb/src/variants/raw/inner/read_write/rollback.rs (serialize_raw_changes,
            deserialize_then_undo_changes), .../writable.rs:50-79 (stamped_write_with_changes, rollback,
            save_rollback_state), crates/vecdb/src/base/rollback.rs (apply_rollback, save_prev,
            save_prev_for_rollback), crates/vecdb/src/traits/writable.rs:62-84 (rollback_before),
            crates/vecdb/src/traits/any_stored.rs:277 (stamped_write). *)
From Anydb Require Import Common.Base Common.LE Vec.RegionSpec Vec.RvBase Vec.RvChange Vec.RvModel.

Section RB.
Context {T : Type} (tsize : N) (enc : T -> list N) (dec : list N -> T).
Notation rv := (@rv T).
Notation phys_read := (phys_read tsize dec).
Notation rv_write := (rv_write tsize dec).      (* write() fills a deleted restored slot with zero bytes: dec (0…0) *)

(* mod.rs:388 collect_stored_range / rollback.rs:41-47: prev_updated value, else unchecked read *)
Definition prev_or_disk (s : rv) (i : N) : T * N :=
  match nm_get i (prev_updated s) with
  | Some v => (v, 0)
  | None => (phys_read s i, is_stale s i)
  end.

Definition all_keys (s : rv) : list N :=
  fold_left (fun acc x => ns_insert x acc) (nm_keys (updated s) ++ nm_keys (prev_updated s)) [].

(* the record serialize_raw_changes builds, and how many of its values came from behind the
   valid region length *)
Definition build_record (s : rv) : crecord (T:=T) * N :=
  let psl := prev_stored_len s in
  let sl := stored_len s in
  let truncated := psl - sl in                                   (* saturating_sub *)
  let tr := map (prev_or_disk s) (seqN sl (N.to_nat truncated)) in
  let ks := all_keys s in
  let mv := map (prev_or_disk s) ks in
  (mkRec (stamp s) psl sl (map fst tr) (prev_pushed s) (pushed s) ks (map fst mv) (prev_holes s),
   fold_left N.add (map snd tr ++ map snd mv) 0).

Definition serialize_raw_changes (s : rv) : list N * N :=
  let '(r, st) := build_record s in (serialize_record enc r, st).

(* any_stored.rs:277 stamped_write *)
Definition stamped_write (st : N) (s : rv) : rv * res verr unit :=
  let '(s1, r) := rv_write (update_stamp st s) in
  match r with Ok _ => (s1, Ok tt) | Err e => (s1, Err e) | Panic => (s1, Panic) end.

(* writable.rs:50 stamped_write_with_changes *)
Definition rv_commit (st : N) (s : rv) : rv * res verr unit :=
  if k s =? 0 then stamped_write st s
  else
    let '(data, stl) := serialize_raw_changes s in
    let s1 := set_changes (save_change_file (changes s) (k s) (stamp s) st data) (add_stale stl s) in
    let '(s2, r) := stamped_write st s1 in
    match r with
    | Ok _ =>
      let s3 := set_prev_pushed [] (set_prev_stored_len (stored_len s2) s2) in     (* save_prev *)
      let s4 := set_prev_holes (holes s3) s3 in                                     (* holes.save() *)
      (set_prev_updated [] s4, Ok tt)                                               (* updated.clear_previous() *)
    | _ => (s2, r)
    end.

(* rollback.rs:81 deserialize_then_undo_changes *)
Fixpoint insert_run (start : N) (vals : list T) (m : nmap T) : nmap T :=
  match vals with
  | [] => m
  | v :: t => insert_run (start + 1) t (nm_insert start v m)
  end.
Fixpoint apply_mods (mods : list (N * T)) (s : rv) : rv * res verr unit :=
  match mods with
  | [] => (s, Ok tt)
  | (i, v) :: t =>
    let '(s1, r) := rv_update_at i v s in
    match r with Ok _ => apply_mods t s1 | _ => (s1, r) end
  end.

Definition undo_changes (bytes : list N) (s : rv) : rv * res verr unit :=
  match parse_raw_change_data tsize dec bytes with
  | Err e => (s, Err e)
  | Panic => (s, Panic)
  | Ok rcd =>
    let cd := rcd_base rcd in
    let psl := cd_prev_stored_len cd in
    (* rollback.rs:96-113 (fix 66f1482): validate the whole record before the first mutation *)
    if stored_len s <? cd_trunc_start cd then (s, Err EIndexTooHigh) else
    let restored_len := psl + len (cd_prev_pushed cd) in
    if existsb (fun m => restored_len <=? fst m) (rcd_mods rcd) then (s, Err EIndexTooHigh) else
    let s1 := if psl <? stored_len s then truncate_dirty_at psl s else s in
    (* base/rollback.rs:86 apply_rollback *)
    let s2 := update_stamp (cd_prev_stamp cd) s1 in
    let s3 := set_prev_pushed (cd_prev_pushed cd) (set_pushed (cd_prev_pushed cd) (set_stored_len psl s2)) in
    let s4 := set_updated (insert_run (cd_trunc_start cd) (cd_trunc_vals cd) (updated s3)) s3 in
    let '(s5, r) := apply_mods (rcd_mods rcd) s4 in
    match r with
    | Ok _ =>
      let ph := rcd_prev_holes rcd in
      let nonempty (l : nset) := match l with [] => false | _ => true end in
      let s6 := if nonempty ph || nonempty (holes s5) || nonempty (prev_holes s5)
                then set_prev_holes ph (set_holes ph s5) else s5 in
      (set_prev_updated (updated s6) s6, Ok tt)
    | _ => (s5, r)
    end
  end.

(* writable.rs:75 save_rollback_state *)
Definition save_rollback_state (s : rv) : rv :=
  let s1 := set_prev_pushed (pushed s) (set_prev_stored_len (stored_len s) s) in
  set_prev_updated (updated s1) (set_prev_holes (holes s1) s1).

(* writable.rs:66 rollback (fix 66ce91f: re-bases the baseline after a successful undo) *)
Definition rv_rollback (s : rv) : rv * res verr unit :=
  match read_change_file (changes s) (stamp s) with
  | Ok bytes =>
    let '(s1, r) := undo_changes bytes s in
    match r with Ok _ => (save_rollback_state s1, Ok tt) | _ => (s1, r) end
  | Err e => (s, Err e)
  | Panic => (s, Panic)
  end.

(* traits/writable.rs:62 rollback_before: files.range(..=self.stamp()).rev() is fixed at entry *)
Fixpoint rb_loop (files : list N) (target : N) (s : rv) : rv * res verr unit :=
  match files with
  | [] => (s, Ok tt)
  | f :: t =>
    let current := stamp s in
    if current <? target then (s, Ok tt)                     (* break *)
    else if negb (f =? current) then (s, Err EStampMismatch)
    else
      let '(s1, r) := rv_rollback s in
      match r with Ok _ => rb_loop t target s1 | _ => (s1, r) end
  end.
Definition rv_rollback_before (target : N) (s : rv) : rv * res verr N :=
  match find_rollback_files (changes s) with
  | Err e => (s, Err e)
  | Panic => (s, Panic)
  | Ok files =>
    let sel := rev (filter (fun f => f <=? stamp s) files) in
    let '(s1, r) := rb_loop sel target s in
    match r with
    (* traits/writable.rs (fix 533ea26): no save_rollback_state() here any more — each rollback() re-bases
       itself, and a rollback_before that undoes nothing leaves the state untouched *)
    | Ok _ => (s1, Ok (stamp s1))
    | Err e => (s1, Err e)
    | Panic => (s1, Panic)
    end
  end.

(* ---- operations and step ---------------------------------------------------------------------- *)
Inductive op :=
| Push (v : T) | Truncate (i : N) | Write | Flush | Reset | ResetUnsaved | Reimport
| Update (i : N) (v : T) | Delete (i : N) | Take (i : N) | Fill (v : T)
| Commit (st : N) | StampedWrite (st : N) | Rollback | RollbackBefore (st : N)
(* faults on the change directory (C16): delete / truncate / overwrite 8 bytes of a record *)
| FDelete (st : N) | FTruncate (st : N) (n : N) | FOverwrite (st : N) (off : N) (v : N).

(* result of a step, as far as the caller can see it *)
Inductive ores :=
| RUnit | RBool (b : bool) | RIdx (i : N) | RVal (o : option T) | RStamp (st : N) | RErr (e : verr) | RPanic.

Definition of_unit (r : res verr unit) : ores := match r with Ok _ => RUnit | Err e => RErr e | Panic => RPanic end.

Definition fault_file (f : list N -> option (list N)) (st : N) (s : rv) : rv :=
  match changes s with
  | None => s
  | Some l =>
    match nm_get st l with
    | None => s
    | Some b => match f b with
                | None => set_changes (Some (nm_remove st l)) s
                | Some b' => set_changes (Some (cd_ins st b' (nm_remove st l))) s
                end
    end
  end.

Definition step (s : rv) (o : op) : rv * ores :=
  match o with
  | Push v => (rv_push v s, RUnit)
  | Truncate i => (rv_truncate i s, RUnit)
  | Write | Flush =>                                   (* flush = write + region.flush(): no model effect *)
    let '(s1, r) := rv_write s in
    (s1, match r with Ok b => RBool b | Err e => RErr e | Panic => RPanic end)
  | Reset => (rv_reset s, RUnit)
  | ResetUnsaved => (rv_reset_unsaved s, RUnit)
  | Reimport =>                                        (* flush(); db.flush(); drop; import_with *)
    let '(s1, r) := rv_write s in
    match r with
    | Ok _ => (rv_reimport s1, RUnit)
    | Err e => (s1, RErr e)
    | Panic => (s1, RPanic)
    end
  | Update i v => let '(s1, r) := rv_update_at i v s in (s1, of_unit r)
  | Delete i => (rv_delete_at i s, RUnit)
  | Take i => let '(s1, o) := rv_take_at tsize dec i s in (s1, RVal o)
  | Fill v => let '(s1, r) := rv_fill v s in
              (s1, match r with Ok i => RIdx i | Err e => RErr e | Panic => RPanic end)
  | Commit st => let '(s1, r) := rv_commit st s in (s1, of_unit r)
  | StampedWrite st => let '(s1, r) := stamped_write st s in (s1, of_unit r)
  | Rollback => let '(s1, r) := rv_rollback s in (s1, of_unit r)
  | RollbackBefore st =>
    let '(s1, r) := rv_rollback_before st s in
    (s1, match r with Ok x => RStamp x | Err e => RErr e | Panic => RPanic end)
  | FDelete st => (fault_file (fun _ => None) st s, RUnit)
  | FTruncate st n => (fault_file (fun b => Some (take n b)) st s, RUnit)
  | FOverwrite st off v =>
    (fault_file (fun b => if len b <? off + 8 then Some b
                          else Some (take off b ++ enc_u64 v ++ drop (off + 8) b)) st s, RUnit)
  end.

Fixpoint run (s : rv) (h : list op) : rv :=
  match h with [] => s | o :: t => run (fst (step s o)) t end.
End RB.
