(* Vec/CvInst.v — executable instance of the CompVec section, used for extraction (engine
   `compvec`) and as the witness that the section hypotheses are satisfiable.

   Elements: bit patterns of width w bytes, xT w = { v : N | v < 256^w } (u8/u32/u64/u128, the
   signed and float types as their bit patterns, [u8; w] as the little-endian number of its bytes).
   Compressor stand-in: hint 0 (or >= 2^32) -> the little-endian bytes themselves; hint k ->
   exactly k cells, the first an opaque blob holding the bytes (so the model's page entries and
   region lengths coincide with the real ones when the harness reports the real lengths). *)
From Anydb Require Import Common.Base Common.LE Gen.Consts Gen.Sizes Codec.Vecdb
  Vec.CvRegion Vec.CvPages Vec.CvModel.
From Coq Require Import Eqdep_dec.

Definition x_ok (w : nat) (v : N) : bool := v <? 256 ^ N.of_nat w.
Definition xT (w : nat) : Type := { v : N | x_ok w v = true }.

Lemma x_ok_0 w : x_ok w 0 = true.
Proof. unfold x_ok. apply N.ltb_lt. apply N.neq_0_lt_0. apply N.pow_nonzero. lia. Qed.

Definition mk_x (w : nat) (v : N) : xT w :=
  match x_ok w v as b return x_ok w v = b -> xT w with
  | true => fun H => exist _ v H
  | false => fun _ => exist _ 0 (x_ok_0 w)
  end eq_refl.

Definition x_val {w} (t : xT w) : N := proj1_sig t.

(* le_enc with land/shiftr instead of mod/div (same function, see x_le_enc_eq in CvInstProofs.v;
   division on extracted binary numbers dominated the run time of the driver) *)
Fixpoint x_le_enc (w : nat) (v : N) : list N :=
  match w with
  | O => []
  | S k => N.land v 255 :: x_le_enc k (N.shiftr v 8)
  end.

Definition x_enc (w : nat) (t : xT w) : list N := x_le_enc w (x_val t).
Definition x_dec (w : nat) (bs : list N) : xT w := mk_x w (le_dec bs).

Definition x_bytes (w : nat) (l : list (xT w)) : list N := flat_map (x_enc w) l.

Definition x_compress (w : nat) (k : N) (l : list (xT w)) : list cell :=
  let bs := x_bytes w l in
  if (k =? 0) || (two32 <=? k) then map CB bs
  else CX bs :: repeat (CB 0) (N.to_nat (k - 1)).

Definition x_decompress (w : nat) (d : list cell) (n : N) : option (list (xT w)) :=
  let bs := match d with CX p :: _ => p | _ => map cell_byte d end in
  if len bs =? n * N.of_nat w then Some (decode_vals (xT w) (N.of_nat w) (x_dec w) (N.to_nat n) bs)
  else None.

(* the specialised machine *)
Definition x_cvs (w : nat) := cvs (xT w).
Definition x_op (w : nat) := op (xT w).
Definition x_per_page (w : nat) : N := PER_PAGE (N.of_nat w).
Definition x_import (w : nat) (fmt vver k : N) := cv_import_k (xT w) (N.of_nat w) fmt vver k None.
Definition x_step (w : nat) (fmt vver : N) :=
  cv_step (xT w) (N.of_nat w) (x_enc w) (x_dec w) (x_compress w) (x_decompress w) fmt vver.
Definition x_collect (w : nat) :=
  cv_collect (xT w) (N.of_nat w) (x_dec w) (x_decompress w).
Definition x_regime (w : nat) := write_regime (xT w) (N.of_nat w).
Definition x_real_stored_len (w : nat) := real_stored_len (xT w) (N.of_nat w).
Definition x_vals {w} (l : list (xT w)) : list N := map x_val l.
Definition x_mk_list (w : nat) (l : list N) : list (xT w) := map (mk_x w) l.

(* ---- a digest of a whole run, computed identically by vm_compute and by the extracted OCaml code:
        tools/cv_crosscheck.py compares the two (cross-check of the extraction, DESIGN.md 2.2) ---- *)
Definition mix (h v : N) : N := (N.lxor h (v mod two64) * 1099511628211) mod two64.
Definition mix_list (h : N) (l : list N) : N := fold_left mix l (mix h (len l)).

Definition cverr_code (e : cverr) : N :=
  match e with
  | ECorruptedRegion => 1 | EUnexpectedIndex => 2 | EExpectVecToHaveIndex => 3 | EDecompressionMismatch => 4
  | EWrongLength => 5 | EDifferentVersion => 6 | EDifferentFormat => 7 | EInvalidFormat => 8 | EUnderflow => 9
  | EOverflow => 10 | EIo => 11 | EIndexTooHigh => 12 | EStampMismatch => 13
  | ERawdb WriteOutOfBounds => 14 | ERawdb TruncateInvalid => 15
  end.

Definition x_obs_digest (w : nat) (h : N) (s : x_cvs w) (r : res cverr bool) : N :=
  let h := mix h (match r with Ok false => 0 | Ok true => 1 | Panic => 2 | Err e => 3 + cverr_code e end) in
  let h := mix (mix (mix h (cv_len s)) (cv_stamp s)) (s_stored_len s) in
  let h := mix (mix (mix h (len (s_pushed s))) (x_real_stored_len w s)) (len (s_data s)) in
  let h := mix_list h (map cell_byte (take HEADER_OFFSET (s_data s))) in
  let h := mix_list h (pg_disk (s_pg s)) in
  let h := match x_collect w s with
           | Ok l => mix_list h (x_vals l)
           | Err e => mix h (100 + cverr_code e)
           | Panic => mix h 99
           end in
  let h := mix_list (mix h (len (s_prev_pushed s))) [s_prev_stored_len s; s_ssc s] in
  match s_changes s with
  | None => mix h 7
  | Some dir => fold_left (fun h f => mix_list (mix h (fst f)) (snd f)) dir (mix h (8 + len dir))
  end.

Definition x_trace_digest (w : nat) (fmt vver k : N) (ops : list (x_op w)) : N :=
  match x_import w fmt vver k [] [] with
  | Ok s0 =>
      fst (fold_left (fun hs o => let '(s', r) := x_step w fmt vver (snd hs) o in
                                  (x_obs_digest w (fst hs) s' r, s'))
                     ops (x_obs_digest w 14695981039346656037 s0 (Ok false), s0))
  | Err e => 3 + cverr_code e
  | Panic => 2
  end.
