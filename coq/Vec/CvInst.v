(* Vec/CvInst.v — executable instance of the CompVec section, used for extraction (engine
   `compvec`) and as the witness that the section hypotheses are satisfiable.

   Elements: bit patterns of width w bytes, xT w = { v : N | v < 256^w } (u8/u32/u64/u128, the
   signed and float types as their bit patterns, [u8; w] as the little-endian number of its bytes).
   Compressor stand-in: hint 0 (or >= 2^32) -> the little-endian bytes themselves; hint k ->
   exactly k cells, the first an opaque blob holding the bytes (so the model's page entries and
   region lengths coincide with the real ones when the harness reports the real lengths). *)
From Anydb Require Import Common.Base Common.LE Gen.Consts Gen.Sizes Codec.Vecdb
  Vec.CvRegion Vec.CvPages Vec.CvModel.
From Coq Require Import Eqdep_dec.

Definition x_ok (w : nat) (v : N) : bool := v <? 256 ^ N.of_nat w.
Definition xT (w : nat) : Type := { v : N | x_ok w v = true }.

Lemma x_ok_0 w : x_ok w 0 = true.
Proof. unfold x_ok. apply N.ltb_lt. apply N.neq_0_lt_0. apply N.pow_nonzero. lia. Qed.

Definition mk_x (w : nat) (v : N) : xT w :=
  match x_ok w v as b return x_ok w v = b -> xT w with
  | true => fun H => exist _ v H
  | false => fun _ => exist _ 0 (x_ok_0 w)
  end eq_refl.

Definition x_val {w} (t : xT w) : N := proj1_sig t.

(* le_enc with land/shiftr instead of mod/div (same function, see x_le_enc_eq in CvInstProofs.v;
   division on extracted binary numbers dominated the run time of the driver) *)
Fixpoint x_le_enc (w : nat) (v : N) : list N :=
  match w with
  | O => []
  | S k => N.land v 255 :: x_le_enc k (N.shiftr v 8)
  end.

Definition x_enc (w : nat) (t : xT w) : list N := x_le_enc w (x_val t).
Definition x_dec (w : nat) (bs : list N) : xT w := mk_x w (le_dec bs).

Definition x_bytes (w : nat) (l : list (xT w)) : list N := flat_map (x_enc w) l.

Definition x_compress (w : nat) (k : N) (l : list (xT w)) : list cell :=
  let bs := x_bytes w l in
  if (k =? 0) || (two32 <=? k) then map CB bs
  else CX bs :: repeat (CB 0) (N.to_nat (k - 1)).

Definition x_decompress (w : nat) (d : list cell) (n : N) : option (list (xT w)) :=
  let bs := match d with CX p :: _ => p | _ => map cell_byte d end in
  if len bs =? n * N.of_nat w then Some (decode_vals (xT w) (N.of_nat w) (x_dec w) (N.to_nat n) bs)
  else None.

(* the specialised machine *)
Definition x_cvs (w : nat) := cvs (xT w).
Definition x_op (w : nat) := op (xT w).
Definition x_per_page (w : nat) : N := PER_PAGE (N.of_nat w).
Definition x_import (w : nat) (fmt vver : N) := cv_import (xT w) (N.of_nat w) fmt vver.
Definition x_step (w : nat) (fmt vver : N) :=
  cv_step (xT w) (N.of_nat w) (x_enc w) (x_dec w) (x_compress w) (x_decompress w) fmt vver.
Definition x_collect (w : nat) :=
  cv_collect (xT w) (N.of_nat w) (x_dec w) (x_decompress w).
Definition x_regime (w : nat) := write_regime (xT w) (N.of_nat w).
Definition x_real_stored_len (w : nat) := real_stored_len (xT w) (N.of_nat w).
Definition x_vals {w} (l : list (xT w)) : list N := map x_val l.
Definition x_mk_list (w : nat) (l : list N) : list (xT w) := map (mk_x w) l.
