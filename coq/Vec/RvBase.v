(* Vec/RvBase.v — BTreeSet<usize> / BTreeMap<usize,T> as sorted lists over N, and the
   value-level region (values after the header) used by the raw-vector model.
   The set/map specifications needed by the proofs (membership / lookup after insert, remove,
   filter) hold for ANY list, sorted or not; sortedness only matters for iteration order
   (serialisation, printing) and is maintained by construction (sorted insert, filter). *)
From Anydb Require Import Common.Base.

(* ---- BTreeSet<usize> ---------------------------------------------------------------- *)
Definition nset := list N.
Definition ns_mem (x : N) (s : nset) : bool := existsb (N.eqb x) s.
Definition ns_remove (x : N) (s : nset) : nset := filter (fun y => negb (y =? x)) s.
Fixpoint ns_ins (x : N) (s : nset) : nset :=
  match s with
  | [] => [x]
  | y :: t => if x <? y then x :: s else if x =? y then s else y :: ns_ins x t
  end.
Definition ns_insert (x : N) (s : nset) : nset := ns_ins x s.
(* split_off(&i) keeps the elements < i in self *)
Definition ns_below (i : N) (s : nset) : nset := filter (fun y => y <? i) s.
Definition ns_of_list (l : list N) : nset := fold_left (fun s x => ns_insert x s) l [].
(* first() / pop_first(): the minimum; on a sorted list the head *)
Fixpoint ns_min (s : nset) : option N :=
  match s with
  | [] => None
  | x :: t => match ns_min t with None => Some x | Some m => Some (N.min x m) end
  end.

Lemma ns_mem_ins x y s : ns_mem x (ns_ins y s) = (x =? y) || ns_mem x s.
Proof.
  induction s as [|z t IH]; cbn [ns_ins ns_mem existsb].
  - now rewrite orb_false_r.
  - destruct (y <? z) eqn:E1; cbn [existsb]; [reflexivity|].
    destruct (y =? z) eqn:E2; cbn [existsb].
    + apply N.eqb_eq in E2. subst. destruct (x =? z); reflexivity.
    + fold (ns_mem x (ns_ins y t)). rewrite IH. fold (ns_mem x t).
      destruct (x =? z), (x =? y); reflexivity.
Qed.
Lemma ns_mem_insert x y s : ns_mem x (ns_insert y s) = (x =? y) || ns_mem x s.
Proof. apply ns_mem_ins. Qed.
Lemma ns_mem_filter x f s : ns_mem x (filter f s) = f x && ns_mem x s.
Proof.
  induction s as [|z t IH]; cbn [filter ns_mem existsb]; [now rewrite andb_false_r|].
  fold (ns_mem x t). destruct (f z) eqn:Ef; cbn [existsb ns_mem]; fold (ns_mem x (filter f t)); rewrite IH.
  - destruct (x =? z) eqn:E; cbn; [apply N.eqb_eq in E; subst; now rewrite Ef | reflexivity].
  - destruct (x =? z) eqn:E; cbn; [apply N.eqb_eq in E; subst; rewrite Ef; reflexivity | reflexivity].
Qed.
Lemma ns_mem_remove x y s : ns_mem x (ns_remove y s) = negb (x =? y) && ns_mem x s.
Proof. unfold ns_remove. now rewrite ns_mem_filter. Qed.
Lemma ns_mem_below x i s : ns_mem x (ns_below i s) = (x <? i) && ns_mem x s.
Proof. unfold ns_below. now rewrite ns_mem_filter. Qed.
Lemma ns_mem_nil x : ns_mem x [] = false. Proof. reflexivity. Qed.
Lemma ns_mem_In x s : ns_mem x s = true <-> In x s.
Proof.
  unfold ns_mem. rewrite existsb_exists. split.
  - intros [y [Hy E]]. apply N.eqb_eq in E. now subst.
  - intros H. exists x. split; auto. apply N.eqb_refl.
Qed.
Lemma ns_min_mem s m : ns_min s = Some m -> ns_mem m s = true.
Proof.
  revert m; induction s as [|x t IH]; cbn [ns_min]; [discriminate|]. intros m.
  destruct (ns_min t) as [m'|] eqn:E; intros [= <-]; cbn [ns_mem existsb].
  - destruct (N.min_spec x m') as [[_ ->]|[_ ->]].
    + now rewrite N.eqb_refl.
    + fold (ns_mem m' t). rewrite (IH _ eq_refl). apply orb_true_r.
  - now rewrite N.eqb_refl.
Qed.
Lemma ns_min_le s m x : ns_min s = Some m -> ns_mem x s = true -> m <= x.
Proof.
  revert m; induction s as [|y t IH]; cbn [ns_min ns_mem existsb]; [discriminate|]. intros m.
  fold (ns_mem x t).
  destruct (ns_min t) as [m'|] eqn:E; intros [= <-] H; apply orb_true_iff in H as [H|H].
  - apply N.eqb_eq in H. lia.
  - specialize (IH _ eq_refl H). lia.
  - apply N.eqb_eq in H. lia.
  - destruct t; [discriminate H|]. cbn in E. destruct (ns_min t); discriminate.
Qed.
Lemma ns_min_none s : ns_min s = None -> s = [].
Proof. destruct s; cbn; auto. destruct (ns_min s); discriminate. Qed.

(* ---- BTreeMap<usize,T> ------------------------------------------------------------------ *)
Section MAP.
Context {T : Type}.
Definition nmap := list (N * T).
Fixpoint nm_get (x : N) (m : nmap) : option T :=
  match m with
  | [] => None
  | (k, v) :: t => if x =? k then Some v else nm_get x t
  end.
Definition nm_remove (x : N) (m : nmap) : nmap := filter (fun p => negb (fst p =? x)) m.
Fixpoint nm_ins (x : N) (v : T) (m : nmap) : nmap :=
  match m with
  | [] => [(x, v)]
  | (k, w) :: t => if x <? k then (x, v) :: m else if x =? k then (x, v) :: t else (k, w) :: nm_ins x v t
  end.
Definition nm_insert (x : N) (v : T) (m : nmap) : nmap := nm_ins x v (nm_remove x m).
Definition nm_below (i : N) (m : nmap) : nmap := filter (fun p => fst p <? i) m.
Definition nm_keys (m : nmap) : list N := map fst m.
Definition nm_has (x : N) (m : nmap) : bool := match nm_get x m with Some _ => true | None => false end.

Lemma nm_get_filter x f m : nm_get x (filter (fun p => f (fst p)) m) = if f x then nm_get x m else None.
Proof.
  induction m as [|[k w] t IH]; [cbn; now destruct (f x)|].
  change (filter (fun p => f (fst p)) ((k, w) :: t))
    with (if f k then (k, w) :: filter (fun p => f (fst p)) t else filter (fun p => f (fst p)) t).
  destruct (f k) eqn:Ef; cbn [nm_get].
  - destruct (x =? k) eqn:E; [apply N.eqb_eq in E; subst; now rewrite Ef | exact IH].
  - destruct (x =? k) eqn:E; [apply N.eqb_eq in E; subst; rewrite IH, Ef; reflexivity | exact IH].
Qed.
Lemma nm_get_remove x y m : nm_get x (nm_remove y m) = if x =? y then None else nm_get x m.
Proof.
  unfold nm_remove. rewrite (nm_get_filter x (fun k => negb (k =? y))). now destruct (x =? y).
Qed.
Lemma nm_get_below x i m : nm_get x (nm_below i m) = if x <? i then nm_get x m else None.
Proof. unfold nm_below. now rewrite (nm_get_filter x (fun k => k <? i)). Qed.
Lemma nm_get_ins x y v m : nm_get y m = None -> nm_get x (nm_ins y v m) = if x =? y then Some v else nm_get x m.
Proof.
  induction m as [|[k w] t IH]; cbn [nm_ins nm_get]; intros Hn; [reflexivity|].
  destruct (y =? k) eqn:Eyk; [discriminate|].
  destruct (y <? k) eqn:E1; cbn [nm_get]; [reflexivity|].
  destruct (x =? k) eqn:Exk.
  - apply N.eqb_eq in Exk. subst. rewrite N.eqb_sym in Eyk. now rewrite Eyk.
  - now apply IH.
Qed.
Lemma nm_get_insert x y v m : nm_get x (nm_insert y v m) = if x =? y then Some v else nm_get x m.
Proof.
  unfold nm_insert. rewrite nm_get_ins.
  - destruct (x =? y) eqn:E; [reflexivity|]. rewrite nm_get_remove. now rewrite E.
  - rewrite nm_get_remove. now rewrite N.eqb_refl.
Qed.
Lemma nm_get_keys x m : nm_get x m <> None <-> In x (nm_keys m).
Proof.
  induction m as [|[k w] t IH]; cbn [nm_get nm_keys map fst In]; [tauto|].
  destruct (x =? k) eqn:E.
  - apply N.eqb_eq in E. subst. split; [auto|discriminate].
  - apply N.eqb_neq in E. rewrite IH. unfold nm_keys. split; [auto|]. intros [H|H]; [congruence|auto].
Qed.
End MAP.
Arguments nmap : clear implicits.

(* ---- value-level region ---------------------------------------------------------------- *)
(* The vector's region holds the 32-byte header and then values of a fixed width; every write
   the raw vector issues is value-aligned, so the region is modelled as the list of its VALID
   values [disk] (region length = HEADER_OFFSET + size * |disk|).  For the differential runs the
   model also carries [stale]: what physically remains behind the valid length inside the
   region's reserved space (rawdb's truncate only lowers the length; region.rs:111-131), because
   the code reads there through unchecked pointer arithmetic.  Theorems never rely on stale
   data: the refinement relation (R3) states that no read reaches it, and the ghost counter
   [stale_reads] of the model counts every read that does. *)
Section VREG.
Context {T : Type}.
Record vreg := mkVreg { vr_disk : list T; vr_stale : list T }.
Definition vr_phys (r : vreg) : list T := vr_disk r ++ vr_stale r.
Definition vr_len (r : vreg) : N := len (vr_disk r).
Definition vr_truncate (r : vreg) (n : N) : option vreg :=      (* None = Err TruncateInvalid *)
  if vr_len r <? n then None
  else Some (mkVreg (take n (vr_disk r)) (drop n (vr_disk r) ++ vr_stale r)).
Definition vr_truncate_write (r : vreg) (at_ : N) (vs : list T) : option vreg :=  (* None = Err WriteOutOfBounds *)
  if vr_len r <? at_ then None
  else Some (mkVreg (take at_ (vr_disk r) ++ vs) (drop (at_ + len vs) (vr_phys r))).
Definition vr_write_at (r : vreg) (at_ : N) (vs : list T) : option vreg :=        (* None = Err WriteOutOfBounds *)
  if vr_len r <? at_ then None
  else
    let n := N.max (at_ + len vs) (vr_len r) in
    let phys := take at_ (vr_disk r) ++ vs ++ drop (at_ + len vs) (vr_phys r) in
    Some (mkVreg (take n phys) (drop n phys)).
(* physical read of value i: valid, stale, or the zero bytes of never-written reserved space *)
Definition vr_read (zero : T) (r : vreg) (i : N) : T :=
  match get (vr_phys r) i with Some v => v | None => zero end.
End VREG.
Arguments vreg : clear implicits.
