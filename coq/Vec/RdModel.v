(* Vec/RdModel.v — READ side of the raw vector (BytesVec / ZeroCopyVec / their read-only clones),
   as executable Gallina over a small description of a vector state.  Definitions only.

   Every read path is a function from a state and a request to a *stream* of events in program
   order: [Fetch off len] = bytes [off, off+len) fetched from the region (relative to the region
   start; mmap pointer reads, memcpy, file reads), [Yield v] = an element handed to the caller
   (pushed into the buffer / passed to the fold closure), [Garb] = an element decoded from bytes
   that are not valid data of the region (the unchecked pointer arithmetic of the code has no such
   case distinction: it silently returns whatever is there), [Boom] = a Rust panic (index out of
   bounds, slice index order, BTreeMap::range start > end, assert!, arithmetic underflow in a
   debug build).  [run] turns a stream into (result, accesses); an early-exiting closure
   (try_fold) is [cut].

   Source: crates/vecdb/src/variants/raw/inner/read_write/{readable.rs, mod.rs},
   raw/inner/read_only/{readable.rs, mod.rs}, raw/sources/{mmap,io,reader}.rs, raw/zerocopy/mod.rs,
   base/read_write.rs (fold_pushed, try_fold_pushed). *)
From Anydb Require Import Common.Base Gen.Consts Gen.Sizes.

Inductive ev : Type :=
| Fetch (off len : N)
| Yield (v : N)
| Garb
| Boom.
Definition stream := list ev.

Inductive rres : Type :=
| ROk (l : list N)          (* returned normally with these elements *)
| RGarbage                  (* returned normally, at least one element came from outside the valid data *)
| RPanic.

Definition acc := (N * N)%type.

(* list lookup by an N index that does not build a unary number for an out-of-range index
   (requests carry indices up to usize::MAX) *)
Definition nth_n {A} (l : list A) (i : N) : option A := if len l <=? i then None else get l i.

(* result and accesses of a stream that runs to completion (or to the first Boom) *)
Fixpoint run_aux (s : stream) (ys : list N) (garb : bool) (fs : list acc) : rres * list acc :=
  match s with
  | [] => (if garb then RGarbage else ROk (rev_append ys []), rev_append fs [])
  | Fetch o l :: r => run_aux r ys garb ((o, l) :: fs)
  | Yield v :: r => run_aux r (v :: ys) garb fs
  | Garb :: r => run_aux r ys true fs
  | Boom :: _ => (RPanic, rev_append fs [])
  end.
Definition run (s : stream) : rres * list acc := run_aux s [] false [].

(* the same, as plain projections (used by the theorems) *)
Fixpoint yields (s : stream) : list N :=
  match s with [] => [] | Yield v :: r => v :: yields r | Boom :: _ => [] | _ :: r => yields r end.
Fixpoint fetches (s : stream) : list acc :=
  match s with [] => [] | Fetch o l :: r => (o, l) :: fetches r | Boom :: _ => [] | _ :: r => fetches r end.
Fixpoint clean (s : stream) : bool :=   (* no Boom, no Garb *)
  match s with [] => true | Boom :: _ => false | Garb :: _ => false | _ :: r => clean r end.

(* a closure that accepts k elements and fails on the next one: everything up to and including the
   delivery of element k+1 has happened *)
Fixpoint cut (k : nat) (s : stream) : stream :=
  match s with
  | [] => []
  | Yield v :: r => match k with O => [Yield v] | S k' => Yield v :: cut k' r end
  | Garb :: r => match k with O => [Garb] | S k' => Garb :: cut k' r end
  | Boom :: _ => [Boom]
  | e :: r => e :: cut k r
  end.

Inductive tres : Type :=
| TOk (l : list N)          (* Ok(acc): the closure never failed *)
| TEarly (l : list N)       (* Err: the closure failed after accepting l *)
| TGarbage
| TPanic.
Definition try_run (k : N) (s : stream) : tres * list acc :=
  let '(r, a) := run (cut (N.to_nat k) s) in
  (match r with
   | ROk l => if k <? len l then TEarly (take k l) else TOk l
   | RGarbage => TGarbage
   | RPanic => TPanic
   end, a).

(* ------------------------------------------------------------------ the state *)
Record rstate : Type := {
  r_sz : N;                  (* size_of::<T>() *)
  r_native : bool;           (* S::IS_NATIVE_LAYOUT *)
  r_xo : N;                  (* MMAP_CROSSOVER_BYTES (run-time value under the verification guard) *)
  r_disk : list N;           (* the values after the header: real_stored_len = length *)
  r_stored : N;              (* stored_len (shared with the read-only clones) *)
  r_pushed : list N;
  r_holes : list N;
  r_upd : list (N * N);
}.

Definition region_len (c : rstate) : N := HEADER_OFFSET + len (r_disk c) * r_sz c.
Definition rlen (c : rstate) : N := r_stored c + len (r_pushed c).
Definition is_hole (c : rstate) (i : N) : bool := existsb (N.eqb i) (r_holes c).
Fixpoint assoc (l : list (N * N)) (i : N) : option N :=
  match l with [] => None | (k, v) :: r => if k =? i then Some v else assoc r i end.
Definition upd_get (c : rstate) (i : N) : option N := assoc (r_upd c) i.
Definition dirty (c : rstate) : bool :=      (* has_dirty_stored, mod.rs:405 *)
  negb (match r_holes c with [] => true | _ => false end && match r_upd c with [] => true | _ => false end).

(* logical contents, DESIGN appendix B.1 *)
Definition view (c : rstate) (i : N) : option N :=
  if is_hole c i then None
  else if i <? r_stored c then
         match upd_get c i with Some u => Some u | None => nth_n (r_disk c) i end
       else nth_n (r_pushed c) (i - r_stored c).

Definition opt_list {A} (o : option A) : list A := match o with Some a => [a] | None => [] end.
Definition expected (c : rstate) (from to : N) : list N :=
  let f := N.min from (rlen c) in
  let t := N.min to (rlen c) in
  flat_map (fun i => opt_list (view c i)) (seqN f (N.to_nat (t - f))).
Definition expected_one (c : rstate) (i : N) : option N := if i <? rlen c then view c i else None.

(* well-formedness of a state, checked on the real states by the engine *)
Definition wf_b (c : rstate) : bool :=
  (0 <? r_sz c) && (r_sz c <=? BUFFER_SIZE)
  && forallb (fun kv => fst kv <? r_stored c) (r_upd c)
  && forallb (fun i => is_hole c i || match upd_get c i with Some _ => true | None => false end)
       (seqN (len (r_disk c)) (N.to_nat (r_stored c - len (r_disk c)))).

(* ------------------------------------------------------------------ element events *)
Definition ev_of (o : option N) : ev := match o with Some v => Yield v | None => Garb end.

(* what the bytes of elements [from, to) decode to: values inside the valid data, nothing beyond *)
Fixpoint disk_range_aux (l : list N) (n : nat) : list (option N) :=
  match n with
  | O => []
  | S n' => match l with
            | [] => None :: disk_range_aux [] n'
            | x :: r => Some x :: disk_range_aux r n'
            end
  end.
Definition disk_range (d : list N) (from to : N) : list (option N) :=
  disk_range_aux (drop from d) (N.to_nat (to - from)).

Definition eoff (c : rstate) (i : N) : N := HEADER_OFFSET + i * r_sz c.

(* one pointer read per element: RawMmapSource::fold / try_fold, sources/mmap.rs:66,83 *)
Fixpoint ptr_evs (c : rstate) (i : N) (l : list (option N)) : stream :=
  match l with
  | [] => []
  | o :: r => Fetch (eoff c i) (r_sz c) :: ev_of o :: ptr_evs c (i + 1) r
  end.

Definition mmap_src (c : rstate) (stored from to : N) : stream :=
  let f := N.min from stored in
  let t := N.min to stored in
  ptr_evs c f (disk_range (r_disk c) f t).

(* RawIoSource, sources/io.rs: seek, then refill / drain until file_offset reaches end_offset *)
Definition io_bufsize (c : rstate) : N := (BUFFER_SIZE / r_sz c) * r_sz c.   (* aligned_buffer_size *)
Fixpoint io_loop (fuel : nat) (c : rstate) (file_off end_off : N) : stream :=
  match fuel with
  | O => []
  | S fuel' =>
    if end_off <=? file_off then []                     (* cant_read_file *)
    else
      let blen := N.min (end_off - file_off) (io_bufsize c) in     (* refill_buffer *)
      let i0 := (file_off - HEADER_OFFSET) / r_sz c in
      let n := blen / r_sz c in                          (* while pos + SIZE_OF_T <= end *)
      Fetch file_off blen
        :: map ev_of (disk_range (r_disk c) i0 (i0 + n))
        ++ (if blen =? 0 then [] else io_loop fuel' c (file_off + blen) end_off)
  end.
Definition io_src (c : rstate) (stored from to : N) : stream :=
  let f := N.min from stored in
  let t := N.min to stored in
  let from_off := eoff c f in
  let end_off := eoff c t in
  (if from_off <? end_off then [Fetch from_off 0] else [])          (* seek, io.rs:79 *)
  ++ io_loop (S (N.to_nat ((end_off - from_off) / N.max 1 (io_bufsize c)) + 1)) c from_off end_off.

(* fold_source / try_fold_source, mod.rs:423: `(to - from) * SIZE_OF_T` (underflow panics in a
   debug build; every caller has from <= to) *)
Definition fold_source (c : rstate) (stored from to : N) : stream :=
  if to <? from then [Boom]
  else if r_xo c <? (to - from) * r_sz c then io_src c stored from to
  else mmap_src c stored from to.

(* base/read_write.rs:150 fold_pushed: pointer loop over pushed[slice_from .. slice_to) *)
Definition fold_pushed (c : rstate) (from to : N) : stream :=
  let start := N.max from (r_stored c) in
  if to <=? start then []
  else map Yield (slice (start - r_stored c) (N.min (to - r_stored c) (len (r_pushed c))) (r_pushed c)).
(* base/read_write.rs:178 try_fold_pushed: a slice expression, which panics when start > end *)
Definition try_fold_pushed (c : rstate) (from to : N) : stream :=
  let start := N.max from (r_stored c) in
  if to <=? start then []
  else
    let a := start - r_stored c in
    let b := N.min (to - r_stored c) (len (r_pushed c)) in
    if b <? a then [Boom] else map Yield (slice a b (r_pushed c)).

(* fold_dirty / try_fold_dirty, mod.rs:455,504.  The two peekable range iterators walk the holes in
   [from, to) and the updated keys in [from, stored_to) in step with i; with both collections sorted
   this is membership / lookup.  BTreeSet::range and BTreeMap::range panic when start > end. *)
Fixpoint dirty_stored_evs (c : rstate) (i : N) (l : list (option N)) : stream :=
  match l with
  | [] => []
  | o :: r =>
    (if is_hole c i then []
     else match upd_get c i with
          | Some u => [Yield u]
          | None => [Fetch (eoff c i) (r_sz c); ev_of o]
          end) ++ dirty_stored_evs c (i + 1) r
  end.
(* `for i in push_from..to { if hole {continue}; if let Some(v) = pushed.get(i - stored_len) {..} }` *)
Fixpoint dirty_pushed_evs (c : rstate) (i : N) (l : list (option N)) : stream :=
  match l with
  | [] => []
  | o :: r => (if is_hole c i then [] else map Yield (opt_list o)) ++ dirty_pushed_evs c (i + 1) r
  end.
Definition fold_dirty (c : rstate) (from to : N) : stream :=
  let stored_to := N.min to (r_stored c) in
  if to <? from then [Boom]                       (* holes.range(from..to) *)
  else                                            (* updated.range(from.min(stored_to)..stored_to): never start > end *)
    dirty_stored_evs c from (disk_range (r_disk c) from stored_to)
    ++ (let push_from := N.max from (r_stored c) in
        if push_from <? to
        then dirty_pushed_evs c push_from (disk_range (r_pushed c) (push_from - r_stored c) (to - r_stored c))
        else []).

(* ReadableVec::read_into_at for ReadWriteRawVec, readable.rs:30 *)
Definition pushed_slice (c : rstate) (from to : N) : stream :=     (* readable.rs:66-72 *)
  if r_stored c <? to then
    let a := N.max from (r_stored c) - r_stored c in
    let b := N.min (to - r_stored c) (len (r_pushed c)) in
    if b <? a then [Boom] else map Yield (slice a b (r_pushed c))
  else [].
Definition read_into_at (c : rstate) (from to : N) : stream :=
  let f := N.min from (rlen c) in
  let t := N.min to (rlen c) in
  if t <=? f then []
  else if dirty c then fold_dirty c f t
  else
    (if f <? r_stored c then
       let stored_to := N.min t (r_stored c) in
       if r_native c then                              (* one memcpy out of the map *)
         Fetch (eoff c f) ((stored_to - f) * r_sz c) :: map ev_of (disk_range (r_disk c) f stored_to)
       else fold_source c (r_stored c) f stored_to
     else [])
    ++ pushed_slice c f t.

(* fold_range_at / try_fold_range_at, readable.rs:82,113 *)
Definition fold_range_gen (pushed_part : rstate -> N -> N -> stream) (c : rstate) (from to : N) : stream :=
  let f := N.min from (rlen c) in
  let t := N.min to (rlen c) in
  if t <=? f then []
  else if dirty c then fold_dirty c f t
  else if t <=? r_stored c then fold_source c (r_stored c) f t
  else (if f <? r_stored c then fold_source c (r_stored c) f (r_stored c) else []) ++ pushed_part c f t.
Definition fold_range_at := fold_range_gen fold_pushed.
Definition try_fold_range_at := fold_range_gen try_fold_pushed.

(* one element through the unchecked pointer read, mod.rs:214 unchecked_read_at *)
Definition read_elem (c : rstate) (i : N) : stream := [Fetch (eoff c i) (r_sz c); ev_of (nth_n (r_disk c) i)].

(* get_any_or_read_at, mod.rs:263 *)
Definition get_any (c : rstate) (i : N) : stream :=
  if is_hole c i then []
  else if r_stored c <=? i then map Yield (opt_list (nth_n (r_pushed c) (i - r_stored c)))
  else match upd_get c i with Some u => [Yield u] | None => read_elem c i end.

(* collect_one_at override, readable.rs:12 *)
Definition collect_one_at (c : rstate) (i : N) : stream :=
  if rlen c <=? i then []
  else if dirty c then get_any c i
  else if r_stored c <=? i then map Yield (opt_list (nth_n (r_pushed c) (i - r_stored c)))
  else read_elem c i.

(* collect_holed_range, mod.rs:287: one get_any per index; the result keeps the positions *)
Definition holed_range (c : rstate) (from to : N) : list stream :=
  let f := N.min from (rlen c) in
  let t := N.min to (rlen c) in
  map (get_any c) (seqN f (N.to_nat (t - f))).

(* VecReader::{get, try_get}, sources/reader.rs:62,75 — stored values only, by documentation *)
Definition vr_get (c : rstate) (i : N) : stream := if i <? r_stored c then read_elem c i else [Boom].
Definition vr_try_get (c : rstate) (i : N) : stream := if i <? r_stored c then read_elem c i else [].
(* read_at / read_at_once, mod.rs:220: the bound is len; a buffered index is served from the pushed
   buffer (`pushed()[index - stored_len]`, an indexing expression), a stored one from the map *)
Definition read_at_once (c : rstate) (i : N) : stream :=
  if i <? rlen c then
    if r_stored c <=? i
    then match nth_n (r_pushed c) (i - r_stored c) with Some v => [Yield v] | None => [Boom] end
    else read_elem c i
  else [].
(* get_pushed_or_read_at, mod.rs:249 *)
Definition get_pushed_or_read (c : rstate) (i : N) : stream :=
  if r_stored c <=? i then map Yield (opt_list (nth_n (r_pushed c) (i - r_stored c))) else vr_get c i.

(* fold_stored_io / fold_stored_mmap, mod.rs:554,570 *)
Definition fold_stored_io (c : rstate) (from to : N) : stream :=
  let f := N.min from (r_stored c) in
  let t := N.min to (r_stored c) in
  if t <=? f then [] else io_src c (r_stored c) f t.
Definition fold_stored_mmap (c : rstate) (from to : N) : stream :=
  let f := N.min from (r_stored c) in
  let t := N.min to (r_stored c) in
  if t <=? f then [] else mmap_src c (r_stored c) f t.

(* ZeroCopyVec::read_ref_at, zerocopy/mod.rs:68: `Reader::prefixed` asserts offset <= region len *)
Definition read_ref_at (c : rstate) (i : N) : stream :=
  if is_hole c i then []
  else if r_stored c <=? i then []
  else match upd_get c i with
       | Some _ => []
       | None => if region_len c <? eoff c i then [Boom] else read_elem c i
       end.

(* ------------------------------------------------------------------ read-only clone (ReadOnlyRawVec):
   region + shared stored_len only; len = stored_len, no holes / updated / pushed *)
Definition ro_collect_one (c : rstate) (i : N) : stream :=
  if r_stored c <=? i then [] else read_elem c i.
Definition ro_read_into (c : rstate) (from to : N) : stream :=
  let f := N.min from (r_stored c) in
  let t := N.min to (r_stored c) in
  if t <=? f then []
  else if r_native c then Fetch (eoff c f) ((t - f) * r_sz c) :: map ev_of (disk_range (r_disk c) f t)
  else fold_source c (r_stored c) f t.
Definition ro_fold_range (c : rstate) (from to : N) : stream :=
  let f := N.min from (r_stored c) in
  let t := N.min to (r_stored c) in
  if t <=? f then [] else fold_source c (r_stored c) f t.
Definition ro_try_get (c : rstate) (i : N) : stream := vr_try_get c i.
Definition ro_get (c : rstate) (i : N) : stream := vr_get c i.

(* what a lean clone can be expected to show: the stored part of the logical contents *)
Definition stored_only (c : rstate) : rstate :=
  {| r_sz := r_sz c; r_native := r_native c; r_xo := r_xo c; r_disk := r_disk c; r_stored := r_stored c;
     r_pushed := []; r_holes := r_holes c; r_upd := r_upd c |}.
