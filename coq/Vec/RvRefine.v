(* Vec/RvRefine.v — the refinement of the reference vector by the raw-vector model, for ALL histories
   of the non-rollback operations (push, truncate, write, flush, reset, re-import, update, delete, take,
   fill, stamped writes with or without changes, faults on the change directory), all element types and
   all retention settings: invariant [Inv] + relation [R] (DESIGN.md B.1: R1-R4, R7) are preserved by every
   step, results are equal, write() never fails, and no read goes behind the valid region length.
   The invariant does NOT require stored_len <= on-disk length: a stored slot behind the region's end must be in
   the `updated` overlay or deleted (Cov) — the state a rollback of a truncating commit leaves (C04, Vec/RvChain.v);
   since the repair of write() (the region is extended to stored_len first) write() is total on it as well.
   PROOF file. *)
From Anydb Require Import Common.Base Common.LE Vec.RegionSpec Vec.RvBase Vec.RvChange Vec.RvModel
  Vec.RvRollback Vec.RvSpec Vec.RvRollbackProofs.

(* ---- get -------------------------------------------------------------------------------------------- *)
Lemma get_nth_error {A} (l : list A) i : get l i = nth_error l (N.to_nat i).
Proof. apply nth_opt_nth_error. Qed.
Lemma get_app_l {A} (a b : list A) i : i < len a -> get (a ++ b) i = get a i.
Proof. unfold len. intros. rewrite !get_nth_error. apply nth_error_app1. lia. Qed.
Lemma get_app_r {A} (a b : list A) i : len a <= i -> get (a ++ b) i = get b (i - len a).
Proof.
  unfold len. intros. rewrite !get_nth_error. rewrite nth_error_app2 by lia. f_equal. lia.
Qed.
Lemma nth_error_firstn_lt {A} (l : list A) n k : (k < n)%nat -> nth_error (firstn n l) k = nth_error l k.
Proof.
  revert l k; induction n; intros l k H; [lia|]. destruct l; [now rewrite firstn_nil|].
  destruct k; cbn; auto. apply IHn. lia.
Qed.
Lemma nth_error_firstn_ge {A} (l : list A) n k : (n <= k)%nat -> nth_error (firstn n l) k = None.
Proof. intros. apply nth_error_None. rewrite firstn_length. lia. Qed.
Lemma nth_error_skipn' {A} (l : list A) n k : nth_error (skipn n l) k = nth_error l (n + k).
Proof. revert l; induction n; intros l; cbn; auto. destruct l; cbn; auto. now destruct k. Qed.
Lemma get_take_lt {A} (l : list A) n i : i < n -> get (take n l) i = get l i.
Proof. intros. unfold take. rewrite !get_nth_error. apply nth_error_firstn_lt. lia. Qed.
Lemma get_take_ge {A} (l : list A) n i : n <= i -> get (take n l) i = None.
Proof. intros. unfold take. rewrite !get_nth_error. apply nth_error_firstn_ge. lia. Qed.
Lemma get_drop {A} (l : list A) n i : get (drop n l) i = get l (n + i).
Proof. unfold drop. rewrite !get_nth_error, nth_error_skipn'. f_equal. lia. Qed.
Lemma get_single {A} (x : A) i : get [x] i = if i =? 0 then Some x else None.
Proof.
  rewrite get_nth_error. destruct (i =? 0) eqn:E.
  - apply N.eqb_eq in E. subst. reflexivity.
  - apply N.eqb_neq in E. destruct (N.to_nat i) eqn:En; [lia|]. cbn. now destruct n.
Qed.
Lemma nth_error_set_nth {A} (l : list A) k x j :
  nth_error (set_nth l k x) j = if (j =? k)%nat && (k <? length l)%nat then Some x else nth_error l j.
Proof.
  revert k j; induction l as [|y t IH]; intros k j; cbn [set_nth length].
  - destruct j; cbn; now rewrite andb_false_r.
  - destruct k, j; cbn [nth_error Nat.eqb]; auto.
    rewrite IH. destruct (j =? k)%nat; cbn; auto.
Qed.
Lemma get_set_nth {A} (l : list A) j x i : j < len l ->
  get (set_nth l (N.to_nat j) x) i = if i =? j then Some x else get l i.
Proof.
  unfold len. intros H. rewrite !get_nth_error, nth_error_set_nth.
  destruct (i =? j) eqn:E.
  - apply N.eqb_eq in E. subst. rewrite Nat.eqb_refl.
    assert (E2 : (N.to_nat j <? length l)%nat = true) by (apply Nat.ltb_lt; lia). rewrite E2. reflexivity.
  - apply N.eqb_neq in E. destruct (N.to_nat i =? N.to_nat j)%nat eqn:E2; auto. apply Nat.eqb_eq in E2. lia.
Qed.
Lemma get_map_seqN {A} (f : N -> A) from n i :
  get (map f (seqN from n)) i = if i <? N.of_nat n then Some (f (from + i)) else None.
Proof.
  revert from i; induction n; intros from i.
  - cbn. destruct (i <? N.of_nat 0) eqn:E; [lia|]. unfold get. now destruct (N.to_nat i).
  - cbn [seqN map]. destruct (i =? 0) eqn:E0.
    + apply N.eqb_eq in E0. subst. destruct (0 <? N.of_nat (S n)) eqn:E; [|lia]. cbn. now rewrite N.add_0_r.
    + apply N.eqb_neq in E0. rewrite get_nth_error. destruct (N.to_nat i) eqn:Ei; [lia|]. cbn [nth_error].
      specialize (IHn (from + 1) (i - 1)). rewrite get_nth_error in IHn.
      replace (N.to_nat (i - 1)) with n0 in IHn by lia. rewrite IHn.
      destruct (i - 1 <? N.of_nat n) eqn:E1, (i <? N.of_nat (S n)) eqn:E2; try lia; auto. f_equal. f_equal. lia.
Qed.
Lemma list_ext_get {A} (a b : list A) : (forall i, get a i = get b i) -> a = b.
Proof.
  revert b; induction a as [|x a IH]; intros [|y b] H; auto.
  - specialize (H 0). discriminate.
  - specialize (H 0). discriminate.
  - pose proof (H 0) as H0. cbn in H0. injection H0 as ->. f_equal. apply IH. intros i.
    specialize (H (i + 1)). rewrite !get_nth_error in *. replace (N.to_nat (i + 1)) with (S (N.to_nat i)) in H by lia.
    exact H.
Qed.
Lemma len_zero_nil {A} (l : list A) : len l = 0 -> l = [].
Proof. destruct l; auto. rewrite len_cons. lia. Qed.
Lemma get_len_some {A} (l : list A) i x : get l i = Some x -> i < len l.
Proof.
  intros H. destruct (N.lt_ge_cases i (len l)); auto. rewrite get_ge_none in H by auto. discriminate.
Qed.

(* ---- sets / maps -------------------------------------------------------------------------------------- *)
Lemma ns_mem_of_list_acc i l acc :
  ns_mem i (fold_left (fun s x => ns_insert x s) l acc) = ns_mem i l || ns_mem i acc.
Proof.
  revert acc; induction l as [|x t IH]; intros acc; cbn [fold_left]; [reflexivity|].
  rewrite IH, ns_mem_insert. cbn [ns_mem existsb]. fold (ns_mem i t).
  destruct (i =? x), (ns_mem i t), (ns_mem i acc); reflexivity.
Qed.
Lemma ns_mem_of_list i l : ns_mem i (ns_of_list l) = ns_mem i l.
Proof. unfold ns_of_list. rewrite ns_mem_of_list_acc. cbn. now rewrite orb_false_r. Qed.

Section MAPS.
Context {T : Type}.
Lemma nm_keys_filter (f : N * T -> bool) (m : nmap T) x : In x (nm_keys (filter f m)) -> In x (nm_keys m).
Proof.
  unfold nm_keys. rewrite !in_map_iff. intros [p [<- Hp]]. apply filter_In in Hp as [Hp _]. eauto.
Qed.
Lemma NoDup_keys_filter (f : N * T -> bool) (m : nmap T) : NoDup (nm_keys m) -> NoDup (nm_keys (filter f m)).
Proof.
  unfold nm_keys. induction m as [|[k v] t IH]; cbn [filter map]; intros H; [constructor|].
  inversion H as [|? ? Hn Hd]; subst. destruct (f (k, v)); cbn [map fst]; auto.
  constructor; auto. intros Hin. apply Hn. eapply (nm_keys_filter f t). exact Hin.
Qed.
Lemma nm_keys_ins x v (m : nmap T) y : In y (nm_keys (nm_ins x v m)) -> y = x \/ In y (nm_keys m).
Proof.
  unfold nm_keys. induction m as [|[k w] t IH]; cbn [nm_ins map fst In]; [intuition|].
  destruct (x <? k); cbn [map fst In]; [intuition|]. destruct (x =? k); cbn [map fst In]; intuition.
Qed.
Lemma NoDup_keys_ins x v (m : nmap T) : ~ In x (nm_keys m) -> NoDup (nm_keys m) -> NoDup (nm_keys (nm_ins x v m)).
Proof.
  unfold nm_keys. induction m as [|[k w] t IH]; cbn [nm_ins map fst]; intros Hn Hd.
  - constructor; auto.
  - cbn [In] in Hn. inversion Hd as [|? ? Hk Hd']; subst.
    destruct (x <? k); cbn [map fst]; [constructor; cbn [In]; auto|].
    destruct (x =? k) eqn:E; [apply N.eqb_eq in E; subst; tauto|]. cbn [map fst]. constructor.
    + intros Hin. apply (nm_keys_ins x v t) in Hin as [->|Hin]; [tauto|]. auto.
    + apply IH; auto.
Qed.
Lemma NoDup_keys_insert x v (m : nmap T) : NoDup (nm_keys m) -> NoDup (nm_keys (nm_insert x v m)).
Proof.
  intros H. unfold nm_insert. apply NoDup_keys_ins.
  - intros Hin. apply nm_get_keys in Hin. rewrite nm_get_remove, N.eqb_refl in Hin. congruence.
  - unfold nm_remove. now apply NoDup_keys_filter.
Qed.
End MAPS.

(* ---- value-level region -------------------------------------------------------------------------------- *)
Section VR.
Context {T : Type}.
Lemma vr_truncate_write_ok (r : vreg T) at_ vs : at_ <= vr_len r ->
  exists r', vr_truncate_write r at_ vs = Some r' /\ vr_disk r' = take at_ (vr_disk r) ++ vs.
Proof.
  intros H. unfold vr_truncate_write. destruct (vr_len r <? at_) eqn:E; [lia|]. eexists. split; reflexivity.
Qed.
Lemma vr_truncate_ok (r : vreg T) n : n <= vr_len r ->
  exists r', vr_truncate r n = Some r' /\ vr_disk r' = take n (vr_disk r).
Proof.
  intros H. unfold vr_truncate. destruct (vr_len r <? n) eqn:E; [lia|]. eexists. split; reflexivity.
Qed.
Lemma vr_write_at_one (r : vreg T) i v : i < vr_len r ->
  exists r', vr_write_at r i [v] = Some r' /\ vr_len r' = vr_len r /\
             forall j, get (vr_disk r') j = if j =? i then Some v else get (vr_disk r) j.
Proof.
  intros H. unfold vr_write_at. destruct (vr_len r <? i) eqn:E; [lia|].
  eexists. split; [reflexivity|]. unfold vr_len in *. cbn [vr_disk].
  change (len [v]) with 1. replace (N.max (i + 1) (len (vr_disk r))) with (len (vr_disk r)) by lia.
  set (d := vr_disk r) in *. set (phys := take i d ++ [v] ++ drop (i + 1) (vr_phys r)).
  assert (Hl : len (vr_disk r) <= len phys).
  { unfold phys, vr_phys. fold d. rewrite !len_app, len_take, len_drop, len_app. change (len [v]) with 1. lia. }
  split.
  - rewrite len_take. fold d in Hl. lia.
  - intros j. destruct (N.lt_ge_cases j (len d)) as [Hj|Hj].
    + rewrite get_take_lt by exact Hj. unfold phys.
      destruct (N.lt_ge_cases j i) as [Hji|Hji].
      * rewrite get_app_l by (rewrite len_take; lia). rewrite get_take_lt by exact Hji.
        destruct (j =? i) eqn:Ej; [lia|reflexivity].
      * rewrite get_app_r by (rewrite len_take; lia). rewrite len_take.
        replace (N.min i (len d)) with i by lia.
        destruct (j =? i) eqn:Ej.
        -- apply N.eqb_eq in Ej. subst. rewrite N.sub_diag. reflexivity.
        -- apply N.eqb_neq in Ej. rewrite get_app_r by (change (len [v]) with 1; lia).
           change (len [v]) with 1. rewrite get_drop. unfold vr_phys. fold d.
           replace (i + 1 + (j - i - 1)) with j by lia. apply get_app_l. exact Hj.
    + rewrite get_take_ge by exact Hj. destruct (j =? i) eqn:Ej; [lia|]. symmetry. apply get_ge_none. exact Hj.
Qed.

Lemma batch_write_each_ok (upd : nmap T) : forall (r : vreg T),
  NoDup (nm_keys upd) -> (forall i, nm_get i upd <> None -> i < vr_len r) ->
  exists r', batch_write_each r upd = Some r' /\ vr_len r' = vr_len r /\
             forall j, get (vr_disk r') j = match nm_get j upd with Some v => Some v | None => get (vr_disk r) j end.
Proof.
  induction upd as [|[i v] t IH]; intros r Hd Hk; cbn [batch_write_each].
  - exists r. repeat split. 
  - assert (Hi : i < vr_len r) by (apply Hk; cbn [nm_get]; rewrite N.eqb_refl; discriminate).
    destruct (i <? vr_len r) eqn:E; [|lia].
    destruct (vr_write_at_one r i v Hi) as (r1 & -> & Hl1 & Hg1).
    cbn [nm_keys map fst] in Hd. inversion Hd as [|? ? Hni Hd']; subst.
    destruct (IH r1 Hd') as (r' & -> & Hl & Hg).
    { intros j Hj. rewrite Hl1. apply Hk. cbn [nm_get]. destruct (j =? i); [discriminate|exact Hj]. }
    exists r'. split; [reflexivity|]. split; [lia|]. intros j. rewrite Hg. cbn [nm_get].
    destruct (j =? i) eqn:Ej.
    + apply N.eqb_eq in Ej. subst.
      assert (Hn : nm_get i t = None).
      { destruct (nm_get i t) eqn:Eg; auto. exfalso. apply Hni. apply nm_get_keys. congruence. }
      rewrite Hn, Hg1, N.eqb_refl. reflexivity.
    + destruct (nm_get j t); auto. rewrite Hg1, Ej. reflexivity.
Qed.
(* the `expanded` loop (region.write_at per entry): in bounds once the region backs every stored slot *)
Lemma write_at_each_ok (upd : nmap T) : forall (r : vreg T),
  NoDup (nm_keys upd) -> (forall i, nm_get i upd <> None -> i < vr_len r) ->
  exists r', write_at_each r upd = (r', true) /\ vr_len r' = vr_len r /\
             forall j, get (vr_disk r') j = match nm_get j upd with Some v => Some v | None => get (vr_disk r) j end.
Proof.
  induction upd as [|[i v] t IH]; intros r Hd Hk; cbn [write_at_each].
  - exists r. repeat split.
  - assert (Hi : i < vr_len r) by (apply Hk; cbn [nm_get]; rewrite N.eqb_refl; discriminate).
    destruct (vr_write_at_one r i v Hi) as (r1 & -> & Hl1 & Hg1).
    cbn [nm_keys map fst] in Hd. inversion Hd as [|? ? Hni Hd']; subst.
    destruct (IH r1 Hd') as (r' & -> & Hl & Hg).
    { intros j Hj. rewrite Hl1. apply Hk. cbn [nm_get]. destruct (j =? i); [discriminate|exact Hj]. }
    exists r'. split; [reflexivity|]. split; [lia|]. intros j. rewrite Hg. cbn [nm_get].
    destruct (j =? i) eqn:Ej.
    + apply N.eqb_eq in Ej. subst.
      assert (Hn : nm_get i t = None).
      { destruct (nm_get i t) eqn:Eg; auto. exfalso. apply Hni. apply nm_get_keys. congruence. }
      rewrite Hn, Hg1, N.eqb_refl. reflexivity.
    + destruct (nm_get j t); auto. rewrite Hg1, Ej. reflexivity.
Qed.
End VR.

(* ---- the view, the invariant, the relation ------------------------------------------------------------------ *)
Section REF.
Context {T : Type} (tsize : N) (enc : T -> list N) (dec : list N -> T).
Notation rv := (@rv T).
Notation view_at := (view_at tsize dec).
Notation phys_read := (phys_read tsize dec).

Lemma view_at_eq (s : rv) i :
  view_at s i = if ns_mem i (holes s) then None
                else if stored_len s <=? i then get (pushed s) (i - stored_len s)
                else match nm_get i (updated s) with Some v => Some v | None => Some (phys_read s i) end.
Proof.
  unfold RvModel.view_at, get_any_or_read_at.
  destruct (holes s) as [|h t] eqn:Eh; cbn [negb andb ns_mem existsb].
  - destruct (stored_len s <=? i); [reflexivity|]. destruct (nm_get i (updated s)); reflexivity.
  - destruct ((i =? h) || existsb (N.eqb i) t); [reflexivity|].
    destruct (stored_len s <=? i); [reflexivity|]. destruct (nm_get i (updated s)); reflexivity.
Qed.

(* the value under slot i, whether or not the slot is deleted *)
Definition uopt (s : rv) (i : N) : option T :=
  if stored_len s <=? i then get (pushed s) (i - stored_len s)
  else match nm_get i (updated s) with Some v => Some v | None => Some (phys_read s i) end.
Lemma view_at_uopt (s : rv) i : view_at s i = if ns_mem i (holes s) then None else uopt s i.
Proof. apply view_at_eq. Qed.

Lemma phys_read_disk (s : rv) i x : get (disk s) i = Some x -> phys_read s i = x.
Proof.
  intros H. unfold RvModel.phys_read, vr_read, vr_phys. unfold disk in H.
  rewrite get_app_l by (eapply get_len_some; eauto). now rewrite H.
Qed.

(* the fields the view and the invariant depend on *)
Definition core (s : rv) :=
  (reg s, stored_len s, pushed s, holes s, updated s, (has_stored_holes s, holes_region s, stamp s, hdr_modified s, hdr_disk s)).

Lemma view_at_core (s s' : rv) i : core s = core s' -> view_at s i = view_at s' i.
Proof.
  unfold core. intros [= Hr Hs Hp Hh Hu _ _ _ _ _]. rewrite !view_at_eq.
  unfold RvModel.phys_read. now rewrite Hr, Hs, Hp, Hh, Hu.
Qed.
Lemma rlen_core (s s' : rv) : core s = core s' -> rlen s = rlen s'.
Proof. unfold core, rlen. intros [= _ Hs Hp _ _ _ _ _ _ _]. now rewrite Hs, Hp. Qed.

(* every stored slot is backed by the region, or — after a rollback made the vector longer than the region
   (`expanded`) — by the `updated` overlay, or it is a deleted slot *)
Definition Cov (s : rv) : Prop :=
  forall i, real_stored_len s <= i -> i < stored_len s -> nm_get i (updated s) <> None \/ ns_mem i (holes s) = true.
Definition Inv (s : rv) : Prop :=
  Cov s /\
  (forall i, nm_get i (updated s) <> None -> i < stored_len s) /\
  NoDup (nm_keys (updated s)) /\
  (forall i, ns_mem i (holes s) = true -> i < rlen s) /\
  (has_stored_holes s = true <-> holes_region s <> None) /\
  (hdr_modified s = false -> hdr_disk s = stamp s).

Lemma Inv_core (s s' : rv) : core s = core s' -> Inv s -> Inv s'.
Proof.
  unfold core, Inv, Cov, rlen, real_stored_len. intros [= Hr Hs Hp Hh Hu H1 H2 H3 H4 H5].
  now rewrite Hr, Hs, Hp, Hh, Hu, H1, H2, H3, H4, H5.
Qed.

(* R1 (+ the length): the reference contents are the view, pointwise; equal stamps *)
Definition R (s : rv) (a : sv T) : Prop :=
  sstamp a = stamp s /\ slen a = rlen s /\ forall i, i < rlen s -> get (contents a) i = Some (view_at s i).

Lemma R_core (s s' : rv) a : core s = core s' -> R s a -> R s' a.
Proof.
  intros Hc (H1 & H2 & H3). pose proof (rlen_core _ _ Hc) as Hl.
  assert (Hst : stamp s = stamp s') by (unfold core in Hc; injection Hc; auto).
  repeat split; try congruence. intros i Hi. rewrite <- (view_at_core s s' i Hc). apply H3. lia.
Qed.

(* R as an equality of lists *)
Lemma R_view (s : rv) a : R s a -> contents a = view tsize dec s.
Proof.
  intros (_ & Hl & Hg). apply list_ext_get. intros i. unfold view. rewrite get_map_seqN.
  rewrite N2Nat.id, N.add_0_l. destruct (i <? rlen s) eqn:E; [apply Hg; lia|].
  apply get_ge_none. unfold slen in Hl. lia.
Qed.

(* R3, no garbage: under the invariant no slot of the view is read from behind the valid region length *)
Lemma Inv_no_stale (s : rv) i : Inv s -> i < rlen s -> snd (get_any_or_read_at tsize dec s i) = 0.
Proof.
  intros (I1 & _) Hi. unfold get_any_or_read_at.
  destruct (negb _ && ns_mem i (holes s)) eqn:Eh; [reflexivity|].
  destruct (stored_len s <=? i) eqn:E; [reflexivity|]. destruct (nm_get i (updated s)) eqn:Eu; [reflexivity|].
  cbn [snd]. unfold is_stale. destruct (i <? real_stored_len s) eqn:E2; [reflexivity|]. exfalso.
  destruct (I1 i ltac:(lia) ltac:(lia)) as [H|H]; [congruence|]. rewrite H in Eh.
  destruct (holes s); [cbn in H; discriminate H|discriminate Eh].
Qed.

Lemma Inv_init k0 : Inv (rv_init k0).
Proof.
  unfold Inv, Cov, rv_init, real_stored_len, vr_len, rlen. cbn.
  split; [intros i H1 H2; lia|].
  repeat split; intros; try lia; try congruence; try discriminate; try constructor.
Qed.
Lemma R_init k0 : R (rv_init k0) (sv_init k0).
Proof. unfold R, rv_init, sv_init, slen, rlen. cbn. repeat split. intros i H. unfold len in H. cbn [length] in H. lia. Qed.
End REF.

(* ---- write() ------------------------------------------------------------------------------------------------ *)
Section WRITE.
Context {T : Type} (tsize : N) (enc : T -> list N) (dec : list N -> T).
Notation rv := (@rv T).
Notation view_at := (view_at tsize dec).
Notation Inv := (@Inv T).
Notation rv_write := (rv_write tsize dec).

Definition hdrf (s : rv) := (stamp s, hdr_modified s, hdr_disk s).
Definition holef (s : rv) := (has_stored_holes s, holes_region s).
Definition prevf (s : rv) := (changes s, k s, prev_pushed s, prev_stored_len s, prev_holes s, prev_updated s).

(* the state right after a successful write(): nothing buffered, everything on disk *)
Definition Normal (s : rv) : Prop :=
  pushed s = [] /\ updated s = [] /\ stored_len s = real_stored_len s /\
  hdr_modified s = false /\ hdr_disk s = stamp s /\
  holes_region s = (match holes s with [] => None | l => Some l end).

Lemma write_data_ok (s : rv) : stored_len s <= real_stored_len s ->
  exists s1, write_data s = (s1, None) /\ pushed s1 = [] /\ stored_len s1 = rlen s /\ real_stored_len s1 = rlen s /\
    (forall i, i < rlen s -> get (disk s1) i = if i <? stored_len s then get (disk s) i else get (pushed s) (i - stored_len s)) /\
    holes s1 = holes s /\ updated s1 = updated s /\ holef s1 = holef s /\ hdrf s1 = hdrf s /\ prevf s1 = prevf s.
Proof.
  intros H1. unfold write_data, rlen, real_stored_len in *.
  destruct (len (pushed s) =? 0) eqn:Ep; cbn [negb].
  - apply N.eqb_eq in Ep. pose proof (len_zero_nil _ Ep) as Hp.
    destruct (stored_len s <? vr_len (reg s)) eqn:Et.
    + destruct (vr_truncate_ok (reg s) (stored_len s) H1) as (r' & -> & Hd).
      eexists. split; [reflexivity|]. cbn. unfold vr_len. rewrite Hd, len_take. unfold vr_len in *.
      repeat split; auto; try lia.
      intros i Hi. unfold disk. cbn. rewrite Hd. destruct (i <? stored_len s) eqn:E; [|lia]. apply get_take_lt. lia.
    + exists s. split; [reflexivity|]. repeat split; auto; try lia.
      intros i Hi. destruct (i <? stored_len s) eqn:E; [reflexivity|lia].
  - apply N.eqb_neq in Ep.
    destruct (vr_truncate_write_ok (reg (set_pushed [] s)) (stored_len s) (pushed s) H1) as (r' & Hw & Hd).
    cbn [reg set_pushed] in Hw, Hd |- *. cbn [stored_len set_pushed]. rewrite Hw.
    eexists. split; [reflexivity|]. cbn. unfold vr_len. rewrite Hd, len_app, len_take. unfold vr_len in *.
    repeat split; auto; try lia.
    intros i Hi. unfold disk. cbn. rewrite Hd. destruct (i <? stored_len s) eqn:E.
    + rewrite get_app_l by (rewrite len_take; lia). apply get_take_lt. lia.
    + rewrite get_app_r by (rewrite len_take; lia). rewrite len_take. f_equal. lia.
Qed.

Lemma write_updates_ok (b : bool) (s1 : rv) :
  NoDup (nm_keys (updated s1)) -> (forall i, nm_get i (updated s1) <> None -> i < real_stored_len s1) ->
  exists s2, write_updates b s1 = (s2, Ok tt) /\ updated s2 = [] /\ real_stored_len s2 = real_stored_len s1 /\
    (forall j, get (disk s2) j = match nm_get j (updated s1) with Some v => Some v | None => get (disk s1) j end) /\
    stored_len s2 = stored_len s1 /\ pushed s2 = pushed s1 /\ holes s2 = holes s1 /\
    holef s2 = holef s1 /\ hdrf s2 = hdrf s1 /\ prevf s2 = prevf s1.
Proof.
  intros Hd Hk. unfold write_updates. destruct (updated s1) as [|p t] eqn:Eu.
  - exists s1. rewrite Eu. repeat split; auto.
  - destruct b.
    + destruct (write_at_each_ok (p :: t) (reg (set_updated [] s1)) Hd) as (r' & Hb & Hl & Hg).
      { intros i Hi. cbn. apply Hk. exact Hi. }
      rewrite Hb. eexists. split; [reflexivity|]. cbn. unfold real_stored_len. cbn. repeat split; auto.
    + destruct (batch_write_each_ok (p :: t) (reg (set_updated [] s1)) Hd) as (r' & Hb & Hl & Hg).
      { intros i Hi. cbn. apply Hk. exact Hi. }
      rewrite Hb. eexists. split; [reflexivity|]. cbn. unfold real_stored_len. cbn. repeat split; auto.
Qed.

(* the extension step of the repaired write(): never fails; afterwards the region backs every stored slot *)
Lemma write_extend_ok (s : rv) :
  exists se, write_extend tsize dec s = (se, None) /\ stored_len se <= real_stored_len se /\
    (forall i, i < real_stored_len s -> get (disk se) i = get (disk s) i) /\
    (forall i, real_stored_len s <= i -> i < stored_len s ->
       get (disk se) i = Some (match nm_get i (updated s) with Some v => v | None => zero_val tsize dec end)) /\
    stored_len se = stored_len s /\ pushed se = pushed s /\ holes se = holes s /\ updated se = updated s /\
    holef se = holef s /\ hdrf se = hdrf s /\ prevf se = prevf s.
Proof.
  unfold write_extend. destruct (real_stored_len s <? stored_len s) eqn:Ex.
  - unfold real_stored_len in *.
    destruct (vr_truncate_write_ok (reg s) (vr_len (reg s)) (extend_vals tsize dec s) (N.le_refl _)) as (r' & -> & Hd).
    assert (Hl : len (extend_vals tsize dec s) = stored_len s - vr_len (reg s)).
    { unfold extend_vals, len. rewrite map_length, seqN_length. unfold real_stored_len. lia. }
    assert (Ht : take (vr_len (reg s)) (vr_disk (reg s)) = vr_disk (reg s)).
    { unfold take, vr_len, len. rewrite Nat2N.id. apply firstn_all. }
    rewrite Ht in Hd.
    eexists. split; [reflexivity|]. cbn [stored_len pushed holes updated reg set_reg]. unfold disk. cbn [reg set_reg].
    split; [unfold vr_len in *; rewrite Hd, len_app, Hl; lia|].
    split; [intros i Hi; rewrite Hd; apply get_app_l; exact Hi|].
    split; [|repeat split].
    intros i H1 H2. rewrite Hd, get_app_r by exact H1. unfold extend_vals. rewrite get_map_seqN.
    unfold real_stored_len, vr_len in *.
    destruct (i - len (vr_disk (reg s)) <? N.of_nat (N.to_nat (stored_len s - len (vr_disk (reg s))))) eqn:E; [|lia].
    replace (len (vr_disk (reg s)) + (i - len (vr_disk (reg s)))) with i by lia. reflexivity.
  - exists s. split; [reflexivity|]. split; [lia|]. split; [reflexivity|]. split; [intros i H1 H2; lia|]. repeat split.
Qed.

Lemma write_holes_ok (s2 : rv) :
  (has_stored_holes s2 = true <-> holes_region s2 <> None) ->
  exists b s3, write_holes (has_stored_holes s2) s2 = (s3, Ok b) /\
    holes_region s3 = (match holes s2 with [] => None | l => Some l end) /\
    (has_stored_holes s3 = true <-> holes_region s3 <> None) /\
    reg s3 = reg s2 /\ stored_len s3 = stored_len s2 /\ pushed s3 = pushed s2 /\ holes s3 = holes s2 /\
    updated s3 = updated s2 /\ hdrf s3 = hdrf s2 /\ prevf s3 = prevf s2.
Proof.
  intros Hi. unfold write_holes. destruct (holes s2) as [|h t] eqn:Eh.
  - destruct (has_stored_holes s2) eqn:Eh2.
    + cbn [holes_region set_hsh]. destruct (holes_region s2) eqn:Er; [|exfalso; apply (proj1 Hi eq_refl); reflexivity].
      do 2 eexists. split; [reflexivity|]. cbn. repeat split; auto; try discriminate; try congruence.
    + assert (Er : holes_region s2 = None).
      { destruct (holes_region s2) eqn:Er; auto. exfalso.
        assert (X : false = true) by (apply Hi; discriminate). discriminate. }
      exists true, s2. split; [reflexivity|]. split; [exact Er|].
      split; [rewrite Eh2, Er; split; intros; congruence|]. repeat split; auto.
  - do 2 eexists. split; [reflexivity|]. cbn. repeat split; auto; try discriminate.
Qed.

Lemma whin_fields (s : rv) :
  let s0 := write_header_if_needed s in
  reg s0 = reg s /\ stored_len s0 = stored_len s /\ pushed s0 = pushed s /\ holes s0 = holes s /\ updated s0 = updated s /\
  holef s0 = holef s /\ prevf s0 = prevf s /\ stamp s0 = stamp s /\
  ((hdr_modified s = false -> hdr_disk s = stamp s) -> hdr_modified s0 = false /\ hdr_disk s0 = stamp s0).
Proof.
  unfold write_header_if_needed. destruct (hdr_modified s) eqn:E; cbn; repeat split; auto.
Qed.

(* slots whose underlying value write() keeps: all but a DELETED slot that is neither on disk nor in `updated`
   (write() stores zero bytes there; nothing can read them: the slot is deleted) *)
Definition backed (s : rv) (i : N) : Prop := i < real_stored_len s \/ stored_len s <= i \/ nm_get i (updated s) <> None.

Theorem write_ok_u (s : rv) : Inv s ->
  exists b s', rv_write s = (s', Ok b) /\ Inv s' /\ Normal s' /\ rlen s' = rlen s /\ holes s' = holes s /\
               stamp s' = stamp s /\ prevf s' = prevf s /\
               (forall i, i < rlen s -> backed s i -> uopt tsize dec s' i = uopt tsize dec s i).
Proof.
  intros (I1 & I2 & I3 & I4 & I5 & I6).
  destruct (whin_fields s) as (F1 & F2 & F3 & F4 & F5 & F6 & F7 & F8 & F9). specialize (F9 I6) as [G1 G2].
  set (s0 := write_header_if_needed s) in *.
  assert (F6' := F6). unfold holef in F6'. injection F6' as F6a F6b.
  assert (V0 : forall i, view_at s0 i = view_at s i).
  { intros i. rewrite !view_at_eq. unfold RvModel.phys_read. now rewrite F1, F2, F3, F4, F5. }
  assert (L0 : rlen s0 = rlen s) by (unfold rlen; now rewrite F2, F3).
  assert (Inv0 : Inv s0).
  { unfold RvRefine.Inv, Cov, rlen, real_stored_len in *. rewrite F1, F2, F3, F4, F5, F6a, F6b. repeat split; auto; try apply I5. }
  assert (B0 : forall i, backed s0 i <-> backed s i) by (intros i; unfold backed, real_stored_len; rewrite F1, F2, F5; reflexivity).
  unfold RvModel.rv_write. fold s0. cbv zeta.
  destruct (negb (stored_len s0 <? real_stored_len s0) && negb (real_stored_len s0 <? stored_len s0) &&
            negb (negb (len (pushed s0) =? 0)) && negb match updated s0 with [] => false | _ :: _ => true end &&
            negb match holes s0 with [] => false | _ :: _ => true end && negb (has_stored_holes s0)) eqn:Ec.
  - (* nothing to write *)
    repeat (apply andb_true_iff in Ec as [Ec ?]).
    assert (Hp : pushed s0 = []) by (apply len_zero_nil; destruct (len (pushed s0) =? 0) eqn:E; [lia|discriminate]).
    assert (Hu : updated s0 = []) by (destruct (updated s0); [reflexivity|discriminate]).
    assert (Hh : holes s0 = []) by (destruct (holes s0); [reflexivity|discriminate]).
    assert (Hhs : has_stored_holes s0 = false) by (destruct (has_stored_holes s0); [discriminate|reflexivity]).
    exists false, s0. split; [reflexivity|]. split; [exact Inv0|]. split.
    + unfold Normal. rewrite Hp, Hu, Hh. repeat split; auto; try lia.
      destruct (holes_region s0) eqn:Er; auto. exfalso.
      destruct Inv0 as (_ & _ & _ & _ & K5 & _). assert (X : has_stored_holes s0 = true) by (apply K5; congruence). congruence.
    + repeat split; auto. intros i Hi _. unfold uopt, RvModel.phys_read. now rewrite F1, F2, F3, F5.
  - (* the extension, then the three phases *)
    destruct (write_extend_ok s0) as (se & Hwe & Je & De1 & De2 & Se & Pe & He & Ue & Hfe & Hde & Pre).
    rewrite Hwe.
    assert (Le : rlen se = rlen s0) by (unfold rlen; now rewrite Se, Pe).
    destruct (write_data_ok se Je) as (s1 & Hwd & P1 & S1 & Rl1 & D1 & H1 & U1 & Hf1 & Hd1 & Pr1).
    rewrite Hwd. rewrite Le in S1, Rl1. rewrite Le, Se, Pe in D1.
    destruct (write_updates_ok (real_stored_len s0 <? stored_len s0) s1) as (s2 & Hwu & U2 & Rl2 & D2 & S2 & P2 & H2 & Hf2 & Hd2 & Pr2).
    { rewrite U1, Ue, F5. exact I3. }
    { intros i Hi. rewrite U1, Ue, F5 in Hi. rewrite Rl1, L0. unfold rlen. specialize (I2 i Hi). lia. }
    rewrite Hwu.
    assert (Hf20 : holef s2 = holef s0) by congruence.
    assert (Hhs : has_stored_holes s0 = has_stored_holes s2) by (unfold holef in Hf20; injection Hf20; auto).
    rewrite Hhs.
    destruct (write_holes_ok s2) as (b & s3 & Hwh & Hr3 & Hi3 & Rg3 & S3 & P3 & H3 & U3 & Hd3 & Pr3).
    { unfold holef in Hf20. injection Hf20 as -> ->. destruct Inv0 as (_ & _ & _ & _ & K5 & _). exact K5. }
    rewrite Hwh. exists b, s3. split; [reflexivity|].
    assert (Hl3 : rlen s3 = rlen s) by (unfold rlen at 1; rewrite S3, P3, S2, P2, S1, P1, L0, len_nil; lia).
    assert (Hh3 : holes s3 = holes s) by congruence.
    assert (Hrl3 : real_stored_len s3 = rlen s) by (unfold real_stored_len in *; rewrite Rg3, Rl2, Rl1; exact L0).
    assert (Hhd : hdrf s3 = hdrf s0) by congruence. unfold hdrf in Hhd. injection Hhd as Hst3 Hm3 Hdk3.
    split.
    { unfold RvRefine.Inv, Cov. rewrite Hrl3, S3, S2, S1, L0, U3, U2, Hl3, Hh3.
      split; [intros i A1 A2; lia|]. split; [intros i Hi; cbn in Hi; congruence|]. split; [constructor|].
      split; [exact I4|]. split; [exact Hi3|]. intros _. congruence. }
    split.
    { unfold Normal. rewrite P3, P2, P1, U3, U2, S3, S2, S1, Hrl3, L0, Hr3, H3, Hm3, Hdk3, Hst3. repeat split; auto. }
    split; [exact Hl3|]. split; [exact Hh3|]. split; [congruence|]. split; [congruence|].
    intros i Hi Hb. apply B0 in Hb.
    assert (U0 : uopt tsize dec s0 i = uopt tsize dec s i) by (unfold uopt, RvModel.phys_read; now rewrite F1, F2, F3, F5).
    rewrite <- U0. unfold uopt.
    rewrite S3, S2, S1, L0. destruct (rlen s <=? i) eqn:E1; [lia|]. rewrite U3, U2. cbn [nm_get].
    assert (Dg : get (disk s3) i = match nm_get i (updated s0) with Some v => Some v
                 | None => if i <? stored_len s0 then get (disk se) i else get (pushed s0) (i - stored_len s0) end).
    { unfold disk in *. rewrite Rg3. rewrite D2, U1, Ue. destruct (nm_get i (updated s0)); auto. apply D1. lia. }
    destruct (stored_len s0 <=? i) eqn:E2.
    + assert (Hn : nm_get i (updated s0) = None).
      { destruct (nm_get i (updated s0)) eqn:Eg; auto. exfalso.
        assert (i < stored_len s) by (apply I2; rewrite <- F5; congruence). lia. }
      rewrite Hn in Dg. destruct (i <? stored_len s0) eqn:E3; [lia|].
      destruct (get_lt_some (pushed s0) (i - stored_len s0)) as [x Hx]; [unfold rlen in *; lia|].
      rewrite Hx in *. f_equal. apply phys_read_disk. exact Dg.
    + destruct (nm_get i (updated s0)) eqn:Eg.
      * f_equal. apply phys_read_disk. exact Dg.
      * destruct (i <? stored_len s0) eqn:E3; [|lia].
        assert (Hir : i < real_stored_len s0) by (destruct Hb as [Hb|[Hb|Hb]]; [exact Hb|lia|congruence]).
        rewrite (De1 i Hir) in Dg.
        destruct (get_lt_some (disk s0) i) as [x Hx]; [unfold disk, real_stored_len, vr_len in *; lia|].
        rewrite Hx in Dg. f_equal. rewrite (phys_read_disk tsize dec s3 i x Dg).
        symmetry. apply phys_read_disk. exact Hx.
Qed.

Theorem write_ok (s : rv) : Inv s ->
  exists b s', rv_write s = (s', Ok b) /\ Inv s' /\ Normal s' /\ rlen s' = rlen s /\ holes s' = holes s /\
               stamp s' = stamp s /\ prevf s' = prevf s /\
               (forall i, i < rlen s -> view_at s' i = view_at s i).
Proof.
  intros HI. destruct (write_ok_u s HI) as (b & s' & Hw & HI' & HN & L & Hh & St & Pr & U).
  exists b, s'. repeat split; auto; try apply HI'; try apply HN.
  intros i Hi. rewrite !view_at_uopt, Hh. destruct (ns_mem i (holes s)) eqn:Em; [reflexivity|]. apply U; [exact Hi|].
  unfold backed. destruct HI as (I1 & _).
  destruct (N.lt_ge_cases i (real_stored_len s)) as [A|A]; [now left|]. right.
  destruct (N.le_gt_cases (stored_len s) i) as [B|B]; [now left|]. right.
  destruct (I1 i A B) as [C|C]; [exact C|congruence].
Qed.
End WRITE.

Local Arguments ns_mem : simpl never.
Local Arguments nm_get : simpl never.
Ltac inv_split := split; [|split; [|split; [|split; [|split]]]].

(* ---- the in-memory operations ------------------------------------------------------------------------------------ *)
Section OPS.
Context {T : Type} (tsize : N) (enc : T -> list N) (dec : list N -> T).
Notation rv := (@rv T).
Notation view_at := (view_at tsize dec).
Notation Inv := (@Inv T).
Notation R := (@R T tsize dec).

Lemma holes_after_remove (h : nset) i j :
  ns_mem j (match h with [] => h | _ => ns_remove i h end) = negb (j =? i) && ns_mem j h.
Proof. destruct h as [|x t]; [cbn; now rewrite andb_false_r|]. apply ns_mem_remove. Qed.
Lemma upd_after_remove (u : nmap T) i j :
  nm_get j (match u with [] => u | _ => nm_remove i u end) = if j =? i then None else nm_get j u.
Proof. destruct u as [|x t]; [cbn; now destruct (j =? i)|]. apply nm_get_remove. Qed.
Lemma NoDup_after_remove (u : nmap T) i : NoDup (nm_keys u) -> NoDup (nm_keys (match u with [] => u | _ => nm_remove i u end)).
Proof. destruct u; auto. intros. unfold nm_remove. now apply NoDup_keys_filter. Qed.

Lemma view_some_of_not_hole (s : rv) i : i < rlen s -> ns_mem i (holes s) = false -> exists x, view_at s i = Some x.
Proof.
  intros Hi Hm. rewrite view_at_eq, Hm. destruct (stored_len s <=? i) eqn:E.
  - apply get_lt_some. unfold rlen in Hi. lia.
  - destruct (nm_get i (updated s)); eauto.
Qed.
Lemma view_none_iff (s : rv) i : i < rlen s -> (view_at s i = None <-> ns_mem i (holes s) = true).
Proof.
  intros Hi. split.
  - intros H. destruct (ns_mem i (holes s)) eqn:E; auto. destruct (view_some_of_not_hole s i Hi E) as [x Hx]. congruence.
  - intros H. now rewrite view_at_eq, H.
Qed.

(* push *)
Lemma push_refines (s : rv) a v : Inv s -> R s a ->
  Inv (rv_push v s) /\ R (rv_push v s) (set_contents (contents a ++ [Some v]) a).
Proof.
  intros (I1 & I2 & I3 & I4 & I5 & I6) (R1 & R2 & R3). unfold rv_push.
  assert (L : rlen (set_pushed (pushed s ++ [v]) s) = rlen s + 1) by (unfold rlen; cbn; rewrite len_app; change (len [v]) with 1; lia).
  split.
  - unfold RvRefine.Inv, Cov in *. rewrite L. cbn. unfold real_stored_len in *. cbn. inv_split; auto.
    intros i Hi. specialize (I4 i Hi). lia.
  - unfold RvRefine.R. rewrite L. unfold slen in *. cbn [contents set_contents sstamp]. rewrite len_app. change (len [Some v]) with 1.
    split; [exact R1|]. split; [lia|]. intros i Hi. rewrite view_at_eq. cbn [holes stored_len pushed updated set_pushed].
    destruct (N.lt_ge_cases i (rlen s)) as [Hlt|Hge].
    + rewrite get_app_l by lia. rewrite (R3 i Hlt), view_at_eq. f_equal.
      destruct (ns_mem i (holes s)); auto. destruct (stored_len s <=? i) eqn:E; auto.
      * symmetry. apply get_app_l. unfold rlen in Hlt. lia.
    + assert (i = rlen s) by lia. subst i. rewrite get_app_r by lia. rewrite R2, N.sub_diag. cbn.
      destruct (ns_mem (rlen s) (holes s)) eqn:Em; [specialize (I4 _ Em); lia|].
      unfold rlen. destruct (stored_len s <=? stored_len s + len (pushed s)) eqn:E; [|lia].
      rewrite get_app_r by lia. replace (stored_len s + len (pushed s) - stored_len s - len (pushed s)) with 0 by lia. reflexivity.
Qed.

(* the invariant, with slot x possibly neither backed nor deleted (the state inside fill_first_hole_or_push
   between pop_first and update_at) *)
Definition InvBut (x : N) (s : rv) : Prop :=
  (forall i, i <> x -> real_stored_len s <= i -> i < stored_len s -> nm_get i (updated s) <> None \/ ns_mem i (holes s) = true) /\
  (forall i, nm_get i (updated s) <> None -> i < stored_len s) /\
  NoDup (nm_keys (updated s)) /\
  (forall i, ns_mem i (holes s) = true -> i < rlen s) /\
  (has_stored_holes s = true <-> holes_region s <> None) /\
  (hdr_modified s = false -> hdr_disk s = stamp s).
Lemma Inv_InvBut x (s : rv) : Inv s -> InvBut x s.
Proof. intros (I1 & I2 & I3 & I4 & I5 & I6). unfold InvBut. inv_split; auto. Qed.

(* update_at on a live index: the view changes at that index only *)
Lemma update_at_view_gen (s : rv) i v : InvBut i s -> i < rlen s ->
  exists s', rv_update_at i v s = (s', Ok tt) /\ Inv s' /\ rlen s' = rlen s /\ stamp s' = stamp s /\
             forall j, view_at s' j = if j =? i then Some v else view_at s j.
Proof.
  intros (I1 & I2 & I3 & I4 & I5 & I6) Hi. unfold rv_update_at. destruct (stored_len s <=? i) eqn:E.
  - destruct (get_lt_some (pushed s) (i - stored_len s)) as [x Hx]; [unfold rlen in Hi; lia|]. rewrite Hx.
    eexists. split; [reflexivity|].
    set (s0 := set_pushed (set_nth (pushed s) (N.to_nat (i - stored_len s)) v) s).
    assert (Lp : len (pushed s0) = len (pushed s)) by (unfold s0; cbn; apply len_set_nth).
    set (s' := match holes s0 with [] => s0 | _ :: _ => set_holes (ns_remove i (holes s0)) s0 end).
    assert (Fs : stored_len s' = stored_len s /\ pushed s' = pushed s0 /\ updated s' = updated s /\ reg s' = reg s /\
                 stamp s' = stamp s /\ hdr_modified s' = hdr_modified s /\ hdr_disk s' = hdr_disk s /\
                 has_stored_holes s' = has_stored_holes s /\ holes_region s' = holes_region s /\
                 holes s' = match holes s with [] => holes s | _ => ns_remove i (holes s) end).
    { unfold s', s0. cbn [holes set_pushed]. destruct (holes s) eqn:Eh; cbn; repeat split; auto. }
    destruct Fs as (F1 & F2 & F3 & F4 & F5 & F6 & F7 & F8 & F9 & F10). clearbody s'.
    assert (L : rlen s' = rlen s) by (unfold rlen; rewrite F1, F2, Lp; reflexivity).
    split; [|split; [exact L|split; [exact F5|]]].
    + unfold RvRefine.Inv, Cov. rewrite L. unfold real_stored_len in *. rewrite F1, F3, F4, F6, F7, F5, F8, F9, F10.
      inv_split; auto.
      * intros j A1 A2. rewrite holes_after_remove. assert (Hne : j <> i) by lia.
        destruct (I1 j Hne A1 A2) as [C|C]; [now left|right]. rewrite C. apply N.eqb_neq in Hne. now rewrite Hne.
      * intros j Hj. rewrite holes_after_remove in Hj. apply andb_true_iff in Hj as [_ Hj]. auto.
    + intros j. rewrite !view_at_eq. unfold RvModel.phys_read. rewrite F1, F2, F3, F4, F10, holes_after_remove.
      destruct (j =? i) eqn:Ej; cbn [negb andb].
      * apply N.eqb_eq in Ej. subst j. rewrite E. unfold s0. cbn [pushed set_pushed].
        rewrite get_set_nth by (unfold rlen in Hi; lia). now rewrite N.eqb_refl.
      * destruct (ns_mem j (holes s)); auto. destruct (stored_len s <=? j) eqn:E2; auto.
        unfold s0. cbn [pushed set_pushed].
        destruct (N.lt_ge_cases (j - stored_len s) (len (pushed s))) as [Hl|Hl].
        -- rewrite get_set_nth by (unfold rlen in Hi; lia).
           apply N.eqb_neq in Ej. destruct (j - stored_len s =? i - stored_len s) eqn:E3; [lia|reflexivity].
        -- rewrite !get_ge_none; auto. now rewrite len_set_nth.
  - eexists. split; [reflexivity|].
    set (s1 := match holes s with [] => s | _ :: _ => set_holes (ns_remove i (holes s)) s end).
    assert (Fs : stored_len s1 = stored_len s /\ pushed s1 = pushed s /\ updated s1 = updated s /\ reg s1 = reg s /\
                 stamp s1 = stamp s /\ hdr_modified s1 = hdr_modified s /\ hdr_disk s1 = hdr_disk s /\
                 has_stored_holes s1 = has_stored_holes s /\ holes_region s1 = holes_region s /\
                 holes s1 = match holes s with [] => holes s | _ => ns_remove i (holes s) end).
    { unfold s1. destruct (holes s) eqn:Eh; cbn; repeat split; auto. }
    destruct Fs as (F1 & F2 & F3 & F4 & F5 & F6 & F7 & F8 & F9 & F10). clearbody s1.
    assert (L : rlen (set_updated (nm_insert i v (updated s1)) s1) = rlen s) by (unfold rlen; cbn; now rewrite F1, F2).
    split; [|split; [exact L|split; [cbn; exact F5|]]].
    + unfold RvRefine.Inv, Cov. rewrite L. unfold real_stored_len in *. cbn. rewrite F1, F3, F4, F6, F7, F5, F8, F9, F10.
      inv_split; auto.
      * intros j A1 A2. rewrite holes_after_remove, nm_get_insert. destruct (j =? i) eqn:Ej; [left; discriminate|].
        assert (Hne : j <> i) by (apply N.eqb_neq; exact Ej).
        destruct (I1 j Hne A1 A2) as [C|C]; [now left|right]. now rewrite C.
      * intros j Hj. rewrite nm_get_insert in Hj. destruct (j =? i) eqn:Ej; [apply N.eqb_eq in Ej; lia|auto].
      * now apply NoDup_keys_insert.
      * intros j Hj. rewrite holes_after_remove in Hj. apply andb_true_iff in Hj as [_ Hj]. auto.
    + intros j. rewrite !view_at_eq. unfold RvModel.phys_read. cbn. rewrite F1, F2, F3, F4, F10, holes_after_remove, nm_get_insert.
      destruct (j =? i) eqn:Ej; cbn [negb andb].
      * apply N.eqb_eq in Ej. subst j. now rewrite E.
      * reflexivity.
Qed.

Lemma update_at_view (s : rv) i v : Inv s -> i < rlen s ->
  exists s', rv_update_at i v s = (s', Ok tt) /\ Inv s' /\ rlen s' = rlen s /\ stamp s' = stamp s /\
             forall j, view_at s' j = if j =? i then Some v else view_at s j.
Proof. intros HI. apply update_at_view_gen. now apply Inv_InvBut. Qed.

Lemma update_at_high (s : rv) i v : Inv s -> rlen s <= i -> rv_update_at i v s = (s, Err EIndexTooHigh).
Proof.
  intros (I1 & _) Hi. unfold rv_update_at, rlen in *. destruct (stored_len s <=? i) eqn:E; [|lia].
  rewrite get_ge_none by lia. reflexivity.
Qed.

(* the reference side of "slot i becomes x" *)
Lemma R_set (s s' : rv) a i x :
  R s a -> i < rlen s -> rlen s' = rlen s -> stamp s' = stamp s ->
  (forall j, view_at s' j = if j =? i then x else view_at s j) ->
  R s' (set_contents (set_nth (contents a) (N.to_nat i) x) a).
Proof.
  intros (R1 & R2 & R3) Hi L St V. unfold RvRefine.R, slen in *. cbn [contents set_contents sstamp].
  rewrite len_set_nth, L. split; [congruence|]. split; [exact R2|]. intros j Hj.
  rewrite get_set_nth by lia. rewrite V. destruct (j =? i); auto.
Qed.

(* unchecked_delete_at on a live index *)
Lemma delete_view (s : rv) i : Inv s -> i < rlen s ->
  Inv (unchecked_delete_at i s) /\ rlen (unchecked_delete_at i s) = rlen s /\ stamp (unchecked_delete_at i s) = stamp s /\
  forall j, view_at (unchecked_delete_at i s) j = if j =? i then None else view_at s j.
Proof.
  intros (I1 & I2 & I3 & I4 & I5 & I6) Hi. unfold unchecked_delete_at.
  set (s1 := match updated s with [] => s | _ :: _ => set_updated (nm_remove i (updated s)) s end).
  assert (Fs : stored_len s1 = stored_len s /\ pushed s1 = pushed s /\ holes s1 = holes s /\ reg s1 = reg s /\
               stamp s1 = stamp s /\ hdr_modified s1 = hdr_modified s /\ hdr_disk s1 = hdr_disk s /\
               has_stored_holes s1 = has_stored_holes s /\ holes_region s1 = holes_region s /\
               updated s1 = match updated s with [] => updated s | _ => nm_remove i (updated s) end).
  { unfold s1. destruct (updated s) eqn:Eu; cbn; repeat split; auto. }
  destruct Fs as (F1 & F2 & F3 & F4 & F5 & F6 & F7 & F8 & F9 & F10). clearbody s1.
  assert (L : rlen (set_holes (ns_insert i (holes s1)) s1) = rlen s) by (unfold rlen; cbn; now rewrite F1, F2).
  split; [|split; [exact L|split; [cbn; exact F5|]]].
  - unfold RvRefine.Inv, Cov in *. rewrite L. unfold real_stored_len in *. cbn. rewrite F1, F3, F4, F6, F7, F5, F8, F9, F10.
    inv_split; auto.
    + intros j A1 A2. rewrite upd_after_remove, ns_mem_insert. destruct (j =? i) eqn:Ej; [now right|]. cbn [orb]. now apply I1.
    + intros j Hj. rewrite upd_after_remove in Hj. destruct (j =? i); [congruence|auto].
    + now apply NoDup_after_remove.
    + intros j Hj. rewrite ns_mem_insert in Hj. apply orb_true_iff in Hj as [Hj|Hj]; [apply N.eqb_eq in Hj; lia|auto].
  - intros j. rewrite !view_at_eq. unfold RvModel.phys_read. cbn. rewrite F1, F2, F3, F4, F10, ns_mem_insert, upd_after_remove.
    destruct (j =? i) eqn:Ej; cbn [orb]; reflexivity.
Qed.
End OPS.

Section OPS2.
Context {T : Type} (tsize : N) (enc : T -> list N) (dec : list N -> T).
Notation rv := (@rv T).
Notation view_at := (view_at tsize dec).
Notation Inv := (@Inv T).
Notation R := (@R T tsize dec).

(* truncation, in the three shapes truncate_pushed produces *)
Lemma shrink_refines (s s' : rv) a idx n1 p1 :
  Inv s -> R s a ->
  reg s' = reg s -> holes s' = ns_below idx (holes s) -> updated s' = nm_below idx (updated s) ->
  stored_len s' = n1 -> pushed s' = p1 -> holef s' = holef s -> hdrf s' = hdrf s ->
  n1 <= stored_len s -> n1 + len p1 = N.min idx (rlen s) ->
  (forall j, n1 <= j -> j < N.min idx (rlen s) -> stored_len s <= j /\ get p1 (j - n1) = get (pushed s) (j - stored_len s)) ->
  Inv s' /\ R s' (if idx <? slen a then set_contents (take idx (contents a)) a else a).
Proof.
  intros (I1 & I2 & I3 & I4 & I5 & I6) (R1 & R2 & R3) Fr Fh Fu Fs Fp Fhf Fhd Hn Hsum Hp.
  unfold holef in Fhf. injection Fhf as Fh1 Fh2. unfold hdrf in Fhd. injection Fhd as Fd1 Fd2 Fd3.
  assert (L : rlen s' = N.min idx (rlen s)) by (unfold rlen at 1; rewrite Fs, Fp; exact Hsum).
  split.
  - unfold RvRefine.Inv, Cov in *. rewrite L. unfold real_stored_len in *. rewrite Fr, Fh, Fu, Fs, Fh1, Fh2, Fd1, Fd2, Fd3.
    inv_split; auto; try lia.
    + intros j A1 A2. rewrite nm_get_below, ns_mem_below. destruct (j <? idx) eqn:E; [|lia]. cbn [andb]. apply I1; lia.
    + intros j Hj. rewrite nm_get_below in Hj. destruct (j <? idx) eqn:E; [|congruence].
      specialize (I2 j Hj). destruct (N.lt_ge_cases j n1); auto.
      destruct (Hp j ltac:(lia)) as [Hc _]; [unfold rlen; lia|lia].
    + unfold nm_below. now apply NoDup_keys_filter.
    + intros j Hj. rewrite ns_mem_below in Hj. apply andb_true_iff in Hj as [Hj1 Hj2]. specialize (I4 j Hj2). lia.
  - assert (V : forall j, j < N.min idx (rlen s) -> view_at s' j = view_at s j).
    { intros j Hj. rewrite !view_at_eq. unfold RvModel.phys_read. rewrite Fr, Fh, Fu, Fs, Fp, ns_mem_below, nm_get_below.
      destruct (j <? idx) eqn:E; [|lia]. cbn [andb]. destruct (ns_mem j (holes s)); auto.
      destruct (n1 <=? j) eqn:E1.
      - destruct (Hp j ltac:(lia) Hj) as [Hc Hg]. destruct (stored_len s <=? j) eqn:E2; [exact Hg|lia].
      - destruct (stored_len s <=? j) eqn:E2; [lia|reflexivity]. }
    unfold slen in *. destruct (idx <? len (contents a)) eqn:E.
    + unfold RvRefine.R, slen. cbn [contents set_contents sstamp]. rewrite len_take, L. split; [congruence|]. split; [lia|].
      intros j Hj. rewrite get_take_lt by lia. rewrite V by exact Hj. apply R3. lia.
    + unfold RvRefine.R, slen. rewrite L. split; [congruence|]. split; [lia|].
      intros j Hj. rewrite V by exact Hj. apply R3. lia.
Qed.

Lemma truncate_refines (s : rv) a idx : Inv s -> R s a ->
  Inv (rv_truncate idx s) /\ R (rv_truncate idx s) (if idx <? slen a then set_contents (take idx (contents a)) a else a).
Proof.
  intros HI HR. unfold rv_truncate, truncate_pushed. cbn [stored_len pushed truncate_dirty_at set_updated set_holes].
  destruct (stored_len s + len (pushed s) <=? idx) eqn:E0.
  - eapply (shrink_refines s _ a idx (stored_len s) (pushed s)); eauto; try reflexivity; unfold rlen; try lia.
    all: try (intros j H1 H2; split; [lia|reflexivity]).
  - destruct (idx <=? stored_len s) eqn:E1; cbn [fst snd].
    + destruct (idx <? stored_len s) eqn:E2.
      * eapply (shrink_refines s _ a idx idx []); eauto; try reflexivity; unfold rlen; rewrite ?len_nil; try lia.
      * eapply (shrink_refines s _ a idx idx []); eauto; try reflexivity; unfold rlen; rewrite ?len_nil; try lia.
        all: try (cbn; lia).
    + destruct (idx <? stored_len s) eqn:E2; [lia|].
      eapply (shrink_refines s _ a idx (stored_len s) (take (idx - stored_len s) (pushed s))); eauto; try reflexivity;
        unfold rlen; rewrite ?len_take; try lia.
      all: try (intros j H1 H2; split; [lia|]; apply get_take_lt; lia).
Qed.

(* the first hole is the first None of the reference *)
Lemma first_none_some (l : list (option T)) b h : first_none l b = Some h ->
  b <= h /\ get l (h - b) = Some None /\ forall j, j < h - b -> get l j <> Some None.
Proof.
  revert b; induction l as [|x t IH]; intros b; cbn [first_none]; [discriminate|].
  destruct x as [v|].
  - intros H. destruct (IH _ H) as (H1 & H2 & H3). split; [lia|]. split.
    + rewrite get_nth_error in *. replace (N.to_nat (h - b)) with (S (N.to_nat (h - (b + 1)))) by lia. exact H2.
    + intros j Hj. destruct (j =? 0) eqn:E0; [apply N.eqb_eq in E0; subst; cbn; discriminate|].
      apply N.eqb_neq in E0. specialize (H3 (j - 1) ltac:(lia)). rewrite get_nth_error in *.
      replace (N.to_nat j) with (S (N.to_nat (j - 1))) by lia. exact H3.
  - intros [= <-]. split; [lia|]. rewrite N.sub_diag. split; [reflexivity|]. intros j Hj. lia.
Qed.
Lemma first_none_none (l : list (option T)) b : first_none l b = None -> forall j, get l j <> Some None.
Proof.
  revert b; induction l as [|x t IH]; intros b; cbn [first_none]; intros H j.
  - unfold get. destruct (N.to_nat j); discriminate.
  - destruct x as [v|]; [|discriminate]. destruct (j =? 0) eqn:E0; [apply N.eqb_eq in E0; subst; cbn; discriminate|].
    apply N.eqb_neq in E0. specialize (IH _ H (j - 1)). rewrite get_nth_error in *.
    replace (N.to_nat j) with (S (N.to_nat (j - 1))) by lia. exact IH.
Qed.

Lemma first_none_is_min (s : rv) a : Inv s -> R s a -> first_none (contents a) 0 = ns_min (holes s).
Proof.
  intros (I1 & I2 & I3 & I4 & I5 & I6) (R1 & R2 & R3). unfold slen in R2.
  assert (Hiff : forall j, j < rlen s -> (get (contents a) j = Some None <-> ns_mem j (holes s) = true)).
  { intros j Hj. rewrite (R3 j Hj). pose proof (view_none_iff tsize dec s j Hj) as Hv. split.
    - intros [= H]. now apply Hv.
    - intros H. f_equal. now apply Hv. }
  destruct (first_none (contents a) 0) as [h|] eqn:Ef.
  - destruct (first_none_some _ _ _ Ef) as (_ & H2 & H3). rewrite N.sub_0_r in *.
    assert (Hh : h < rlen s) by (rewrite <- R2; eapply get_len_some; eauto).
    assert (Hm : ns_mem h (holes s) = true) by (now apply Hiff).
    destruct (ns_min (holes s)) as [m|] eqn:Em.
    + pose proof (ns_min_le _ _ _ Em Hm) as Hle. pose proof (ns_min_mem _ _ Em) as Hmm.
      destruct (N.eq_dec m h) as [->|Hne]; auto. exfalso.
      apply (H3 m ltac:(lia)). apply Hiff; auto.
    + apply ns_min_none in Em. rewrite Em in Hm. discriminate.
  - destruct (ns_min (holes s)) as [m|] eqn:Em; auto. exfalso.
    pose proof (ns_min_mem _ _ Em) as Hmm. apply (first_none_none _ _ Ef m). apply Hiff; auto.
Qed.
End OPS2.

(* ---- every non-rollback step ------------------------------------------------------------------------------------------ *)
Section STEP.
Context {T : Type} (tsize : N) (enc : T -> list N) (dec : list N -> T).
Notation rv := (@rv T).
Notation view_at := (view_at tsize dec).
Notation Inv := (@Inv T).
Notation R := (@R T tsize dec).
Notation step := (step tsize enc dec).
Notation stamped_write := (stamped_write tsize dec).

Lemma R_same_view (s s' : rv) a : R s a -> rlen s' = rlen s -> stamp s' = stamp s ->
  (forall i, i < rlen s -> view_at s' i = view_at s i) -> R s' a.
Proof.
  intros (R1 & R2 & R3) L St V. unfold RvRefine.R. rewrite L. split; [congruence|]. split; [exact R2|].
  intros i Hi. rewrite V by exact Hi. now apply R3.
Qed.
Lemma R_a_ext (s : rv) a a' : R s a -> contents a' = contents a -> sstamp a' = sstamp a -> R s a'.
Proof. intros (R1 & R2 & R3) Hc Hs. unfold RvRefine.R, slen in *. rewrite Hc, Hs. auto. Qed.
Lemma R_restamp (s s' : rv) a a' st : R s a -> rlen s' = rlen s -> stamp s' = st -> sstamp a' = st -> contents a' = contents a ->
  (forall i, i < rlen s -> view_at s' i = view_at s i) -> R s' a'.
Proof.
  intros (R1 & R2 & R3) L St Sa Hc V. unfold RvRefine.R, slen in *. rewrite L, Hc. split; [congruence|]. split; [exact R2|].
  intros i Hi. rewrite V by exact Hi. now apply R3.
Qed.

Lemma Inv_update_stamp (s : rv) st : Inv s -> Inv (update_stamp st s).
Proof.
  intros (I1 & I2 & I3 & I4 & I5 & I6). unfold update_stamp. destruct (stamp s =? st); [repeat split; auto; apply I5|].
  unfold RvRefine.Inv, Cov, rlen, real_stored_len in *. cbn. inv_split; auto. intros H. discriminate.
Qed.
Lemma update_stamp_fields (s : rv) st :
  rlen (update_stamp st s) = rlen s /\ stamp (update_stamp st s) = st /\ prevf (update_stamp st s) = prevf s /\
  forall i, view_at (update_stamp st s) i = view_at s i.
Proof.
  unfold update_stamp. destruct (stamp s =? st) eqn:E.
  - apply N.eqb_eq in E. repeat split; auto.
  - repeat split.
Qed.

Lemma stamped_write_ok (s : rv) st : Inv s ->
  exists s', stamped_write st s = (s', Ok tt) /\ Inv s' /\ Normal s' /\ rlen s' = rlen s /\ stamp s' = st /\
             prevf s' = prevf s /\ forall i, i < rlen s -> view_at s' i = view_at s i.
Proof.
  intros HI. unfold stamped_write.
  destruct (update_stamp_fields s st) as (L0 & S0 & P0 & V0).
  destruct (write_ok tsize enc dec (update_stamp st s) (Inv_update_stamp s st HI)) as (b & s' & -> & HI' & HN & L & _ & St & Pr & V).
  exists s'. split; [reflexivity|]. repeat split; auto; try congruence; try apply HI'; try apply HN.
  intros i Hi. rewrite V by lia. apply V0.
Qed.

(* re-import of a freshly written vector *)
Lemma reimport_ok (s : rv) : Inv s -> Normal s ->
  Inv (rv_reimport s) /\ rlen (rv_reimport s) = rlen s /\ stamp (rv_reimport s) = stamp s /\
  forall i, view_at (rv_reimport s) i = view_at s i.
Proof.
  intros (I1 & I2 & I3 & I4 & I5 & I6) (N1 & N2 & N3 & N4 & N5 & N6).
  assert (Hm : forall j, ns_mem j (match holes_region s with Some l => ns_of_list l | None => [] end) = ns_mem j (holes s)).
  { intros j. rewrite N6. destruct (holes s) eqn:Eh; [reflexivity|]. apply ns_mem_of_list. }
  unfold rv_reimport. split; [|split; [|split]].
  - unfold RvRefine.Inv, Cov, rlen, real_stored_len. cbn. inv_split; auto; try lia.
    + intros i H. cbv [nm_get] in H. congruence.
    + constructor.
    + intros j Hj. rewrite Hm in Hj. specialize (I4 j Hj). unfold rlen in I4. rewrite N1, len_nil in *. unfold real_stored_len in N3. lia.
    + destruct (holes_region s); split; intros; congruence.
  - unfold rlen. cbn. rewrite N1, N3. reflexivity.
  - cbn. exact N5.
  - intros i. rewrite !view_at_eq. unfold RvModel.phys_read. cbn. rewrite Hm, N1, N2, <- N3. reflexivity.
Qed.

Lemma reset_fields (s : rv) : (hdr_modified s = false -> hdr_disk s = stamp s) ->
  let s' := rv_reset s in
  pushed s' = [] /\ stored_len s' = 0 /\ holes s' = [] /\ updated s' = [] /\ reg s' = reg s /\
  has_stored_holes s' = has_stored_holes s /\ holes_region s' = holes_region s /\
  stamp s' = 0 /\ (hdr_modified s' = false -> hdr_disk s' = 0).
Proof.
  intros I6. unfold rv_reset, reset_base, rv_truncate, truncate_pushed, truncate_dirty_at, update_stamp.
  cbn [stored_len pushed holes updated set_holes set_prev_holes set_updated set_prev_updated].
  assert (Fin : forall (s2 : rv), pushed s2 = [] -> stored_len s2 = 0 -> holes s2 = [] -> updated s2 = [] -> reg s2 = reg s ->
            has_stored_holes s2 = has_stored_holes s -> holes_region s2 = holes_region s ->
            stamp s2 = stamp s -> hdr_modified s2 = hdr_modified s -> hdr_disk s2 = hdr_disk s ->
            let s' := set_changes None (if stamp s2 =? 0 then s2 else set_hdr (hdr_disk s2) 0 true s2) in
            pushed s' = [] /\ stored_len s' = 0 /\ holes s' = [] /\ updated s' = [] /\ reg s' = reg s /\
            has_stored_holes s' = has_stored_holes s /\ holes_region s' = holes_region s /\
            stamp s' = 0 /\ (hdr_modified s' = false -> hdr_disk s' = 0)).
  { intros s2 A1 A2 A3 A4 A5 A6 A6' A7 A8 A9. destruct (stamp s2 =? 0) eqn:Es; cbn.
    - apply N.eqb_eq in Es. repeat split; auto. rewrite A8, A9. intros Hm. rewrite I6 by exact Hm. congruence.
    - repeat split; auto. discriminate. }
  destruct (stored_len s + len (pushed s) <=? 0) eqn:E0.
  - apply Fin; cbn; auto; lia.
  - destruct (0 <=? stored_len s) eqn:E1; [|lia]. destruct (0 <? stored_len s) eqn:E2; apply Fin; cbn; auto; lia.
Qed.

Definition plain_op (o : @op T) : Prop :=
  match o with Rollback | RollbackBefore _ | ResetUnsaved => False | _ => True end.
(* write()'s boolean ("was anything written") is not part of the reference; everything else is equal *)
Definition res_rel (o : @op T) (r r' : @ores T) : Prop :=
  match o with
  | Write | Flush => (exists b, r = RBool b) /\ (exists b, r' = RBool b)
  | _ => r = r'
  end.

Theorem step_refines (s : rv) a o : Inv s -> R s a -> plain_op o ->
  Inv (fst (step s o)) /\ R (fst (step s o)) (fst (sstep a o)) /\ res_rel o (snd (step s o)) (snd (sstep a o)).
Proof.
  intros HI HR Hp. pose proof HI as (I1 & I2 & I3 & I4 & I5 & I6). pose proof HR as (R1 & R2 & R3).
  destruct o; cbn [plain_op] in Hp; try contradiction; cbn [RvRollback.step sstep].
  - (* Push *) destruct (push_refines tsize enc dec s a v HI HR). cbn [fst snd res_rel]. auto.
  - (* Truncate *) destruct (truncate_refines tsize dec s a i HI HR). cbn [fst snd res_rel]. auto.
  - (* Write *) destruct (write_ok tsize enc dec s HI) as (b & s' & -> & HI' & _ & L & _ & St & _ & V). cbn [fst snd res_rel].
    split; [exact HI'|]. split; [eapply R_same_view; eauto|]. eauto.
  - (* Flush *) destruct (write_ok tsize enc dec s HI) as (b & s' & -> & HI' & _ & L & _ & St & _ & V). cbn [fst snd res_rel].
    split; [exact HI'|]. split; [eapply R_same_view; eauto|]. eauto.
  - (* Reset *) destruct (reset_fields s I6) as (F1 & F2 & F3 & F4 & F5 & F6a & F6b & F7 & F8). cbn [fst snd res_rel].
    split; [|split; [|reflexivity]].
    + unfold RvRefine.Inv, Cov, rlen, real_stored_len in *. rewrite F1, F2, F3, F4, F5, F6a, F6b, F7. inv_split; auto; try lia.
      * intros i H. cbv [nm_get] in H. congruence.
      * constructor.
      * intros i H. cbv [ns_mem existsb] in H. discriminate.
    + unfold RvRefine.R, slen, rlen. cbn [contents sstamp]. rewrite F1, F2, F7. repeat split; auto.
      intros i Hi. unfold len in Hi. cbn in Hi. lia.
  - (* Reimport *) destruct (write_ok tsize enc dec s HI) as (b & s' & -> & HI' & HN' & L & _ & St & _ & V). cbn [fst snd res_rel].
    destruct (reimport_ok s' HI' HN') as (HI2 & L2 & St2 & V2).
    split; [exact HI2|]. split; [|reflexivity].
    eapply R_same_view; eauto; try congruence. intros i Hi. rewrite V2. now apply V.
  - (* Update *) rewrite R2. destruct (i <? rlen s) eqn:E.
    + destruct (update_at_view tsize enc dec s i v HI ltac:(lia)) as (s' & -> & HI' & L & St & V). cbn [fst snd res_rel of_unit].
      split; [exact HI'|]. split; [|reflexivity]. eapply R_set; eauto. lia.
    + rewrite (update_at_high enc dec s i v HI ltac:(lia)). cbn [fst snd res_rel of_unit]. auto.
  - (* Delete *) unfold rv_delete_at. rewrite R2. destruct (i <? rlen s) eqn:E; cbn [fst snd res_rel]; [|auto].
    destruct (delete_view tsize dec s i HI ltac:(lia)) as (HI' & L & St & V).
    split; [exact HI'|]. split; [|reflexivity]. eapply R_set; eauto. lia.
  - (* Take *) unfold rv_take_at.
    assert (Ho : fst (get_any_or_read_at tsize dec s i) = view_at s i) by reflexivity.
    destruct (get_any_or_read_at tsize dec s i) as [o st] eqn:Eg. cbn [fst] in Ho. subst o.
    assert (Hc : core (add_stale st s) = core s) by reflexivity.
    assert (HI0 : Inv (add_stale st s)) by (eapply Inv_core; [symmetry; exact Hc|exact HI]).
    destruct (N.lt_ge_cases i (rlen s)) as [Hlt|Hge].
    + rewrite (R3 i Hlt). destruct (view_at s i) as [x|] eqn:Ev; cbn [fst snd res_rel].
      * destruct (delete_view tsize dec (add_stale st s) i HI0 Hlt) as (HI' & L & St & V).
        split; [exact HI'|]. split; [|reflexivity].
        eapply R_set; eauto. all: try (intros j; rewrite V; destruct (j =? i); auto).
      * split; [exact HI0|]. split; [|reflexivity]. eapply R_core; [symmetry; exact Hc|exact HR].
    + assert (Hv : view_at s i = None).
      { rewrite view_at_eq. destruct (ns_mem i (holes s)) eqn:Em; [reflexivity|].
        unfold rlen in Hge. destruct (stored_len s <=? i) eqn:E; [|lia]. apply get_ge_none. lia. }
      rewrite Hv. rewrite get_ge_none by (unfold slen in R2; lia). cbn [fst snd res_rel].
      split; [exact HI0|]. split; [|reflexivity]. eapply R_core; [symmetry; exact Hc|exact HR].
  - (* Fill *) unfold rv_fill. rewrite (first_none_is_min tsize enc dec s a HI HR).
    destruct (ns_min (holes s)) as [h|] eqn:Em.
    + pose proof (ns_min_mem _ _ Em) as Hmm. pose proof (I4 _ Hmm) as Hh.
      set (s1 := set_holes (ns_remove h (holes s)) s).
      assert (HI1 : InvBut h s1).
      { unfold s1, InvBut, Cov, rlen, real_stored_len in *. cbn. inv_split; auto.
        - intros j Hne A1 A2. rewrite ns_mem_remove. apply N.eqb_neq in Hne. rewrite Hne. cbn [negb andb]. now apply I1.
        - intros j Hj. rewrite ns_mem_remove in Hj. apply andb_true_iff in Hj as [_ Hj]. auto. }
      assert (L1 : rlen s1 = rlen s) by reflexivity.
      destruct (update_at_view_gen tsize enc dec s1 h v HI1 ltac:(lia)) as (s2 & -> & HI2 & L2 & St2 & V2). cbn [fst snd res_rel].
      split; [exact HI2|]. split; [|reflexivity].
      eapply R_set; eauto; try congruence. intros j. rewrite V2. destruct (j =? h) eqn:Ej; [reflexivity|].
      rewrite !view_at_eq. unfold s1, RvModel.phys_read. cbn. rewrite ns_mem_remove, Ej. reflexivity.
    + destruct (push_refines tsize enc dec s a v HI HR) as [HI' HR']. unfold rv_push in *. cbn [fst snd res_rel].
      split; [exact HI'|]. split; [exact HR'|]. f_equal. unfold rlen, slen in *. cbn. rewrite len_app. change (len [v]) with 1. lia.
  - (* Commit *) unfold rv_commit. destruct (k s =? 0) eqn:Ek.
    + destruct (stamped_write_ok s st HI) as (s' & -> & HI' & _ & L & St & _ & V). cbn [fst snd res_rel of_unit].
      split; [exact HI'|]. split; [|destruct (sk a =? 0); reflexivity].
      eapply R_restamp; eauto; destruct (sk a =? 0); reflexivity.
    + destruct (serialize_raw_changes tsize enc dec s) as [data stl].
      set (s1 := set_changes _ (add_stale stl s)).
      assert (Hc : core s1 = core s) by reflexivity.
      assert (HI1 : Inv s1) by (eapply Inv_core; [symmetry; exact Hc|exact HI]).
      destruct (stamped_write_ok s1 st HI1) as (s2 & -> & HI2 & _ & L & St & _ & V). cbn [fst snd res_rel of_unit].
      match goal with |- Inv ?x /\ _ => assert (Hc3 : core x = core s2) by reflexivity end.
      split; [eapply Inv_core; [symmetry; exact Hc3|exact HI2]|]. split; [|destruct (sk a =? 0); reflexivity].
      eapply R_core; [symmetry; exact Hc3|].
      eapply (R_restamp s s2 a _ st); eauto; try (destruct (sk a =? 0); reflexivity).
      all: try (rewrite L; symmetry; apply (rlen_core _ _ Hc)).
      all: try (intros i Hi; rewrite V by (rewrite (rlen_core _ _ Hc); exact Hi); apply view_at_core; exact Hc).
  - (* StampedWrite *) destruct (stamped_write_ok s st HI) as (s' & -> & HI' & _ & L & St & _ & V). cbn [fst snd res_rel of_unit].
    split; [exact HI'|]. split; [|reflexivity]. eapply R_restamp; eauto.
  - (* FDelete *) cbn [fst snd res_rel].
    assert (Hc : core (fault_file (fun _ => None) st s) = core s)
      by (unfold fault_file; destruct (changes s); [destruct (nm_get st l)|]; reflexivity).
    split; [eapply Inv_core; [symmetry; exact Hc|exact HI]|]. split; [eapply R_core; [symmetry; exact Hc|exact HR]|reflexivity].
  - (* FTruncate *) cbn [fst snd res_rel].
    assert (Hc : core (fault_file (fun b => Some (take n b)) st s) = core s)
      by (unfold fault_file; destruct (changes s); [destruct (nm_get st l)|]; reflexivity).
    split; [eapply Inv_core; [symmetry; exact Hc|exact HI]|]. split; [eapply R_core; [symmetry; exact Hc|exact HR]|reflexivity].
  - (* FOverwrite *) cbn [fst snd res_rel].
    match goal with |- Inv (fault_file ?f st s) /\ _ => assert (Hc : core (fault_file f st s) = core s)
      by (unfold fault_file; destruct (changes s); [destruct (nm_get st l); [destruct (f l0)|]|]; reflexivity) end.
    split; [eapply Inv_core; [symmetry; exact Hc|exact HI]|]. split; [eapply R_core; [symmetry; exact Hc|exact HR]|reflexivity].
Qed.
End STEP.

(* ---- every history of non-rollback operations ---------------------------------------------------------------------------- *)
Section RUN.
Context {T : Type} (tsize : N) (enc : T -> list N) (dec : list N -> T).
Notation rv := (@rv T).
Notation Inv := (@Inv T).
Notation R := (@R T tsize dec).
Notation step := (step tsize enc dec).
Notation run := (run tsize enc dec).

Lemma run_app (s : rv) h1 h2 : run s (h1 ++ h2) = run (run s h1) h2.
Proof. revert s; induction h1 as [|o t IH]; intros s; cbn [app RvRollback.run]; auto. Qed.
Lemma srun_app (a : sv T) h1 h2 : srun a (h1 ++ h2) = srun (srun a h1) h2.
Proof. revert a; induction h1 as [|o t IH]; intros a; cbn [app srun]; auto. Qed.

Theorem run_refines h : forall (s : rv) a, Inv s -> R s a -> Forall (@plain_op T) h ->
  Inv (run s h) /\ R (run s h) (srun a h).
Proof.
  induction h as [|o t IH]; intros s a HI HR Hp; cbn [RvRollback.run srun]; [auto|].
  inversion Hp as [|? ? Ho Ht]; subst.
  destruct (step_refines tsize enc dec s a o HI HR Ho) as (HI' & HR' & _). apply IH; auto.
Qed.

(* C03 (raw), all histories, all element types, all retention settings: after EVERY step (the last step
   of every history h1 ++ [o]) the results agree, the view of the concrete state is the reference contents
   (hence same length and same deleted slots), the stamps are equal, and the invariant holds *)
Theorem refines_raw k0 h1 o : Forall (@plain_op T) (h1 ++ [o]) ->
  let s := run (rv_init k0) h1 in let a := srun (sv_init k0) h1 in
  res_rel o (snd (step s o)) (snd (sstep a o)) /\
  view tsize dec (fst (step s o)) = contents (fst (sstep a o)) /\
  rlen (fst (step s o)) = slen (fst (sstep a o)) /\
  stamp (fst (step s o)) = sstamp (fst (sstep a o)) /\
  Inv (fst (step s o)).
Proof.
  intros Hp s a. apply Forall_app in Hp as [Hp1 Hp2]. inversion Hp2 as [|? ? Ho _]; subst.
  destruct (run_refines h1 (rv_init k0) (sv_init k0) (Inv_init k0) (R_init tsize dec k0) Hp1) as [HI HR].
  fold s in HI, HR. fold a in HR.
  destruct (step_refines tsize enc dec s a o HI HR Ho) as (HI' & HR' & Hres).
  split; [exact Hres|]. split; [symmetry; eapply R_view; eauto|]. destruct HR' as (R1 & R2 & _). auto.
Qed.

(* under the invariant (every state reached by non-rollback histories) no read of the view goes behind the
   valid region length (R3 of DESIGN.md B.1, "no garbage") and write() never fails *)
Theorem reachable_Inv k0 h : Forall (@plain_op T) h -> Inv (run (rv_init k0) h).
Proof. intros Hp. apply (run_refines h (rv_init k0) (sv_init k0) (Inv_init k0) (R_init tsize dec k0) Hp). Qed.

Lemma R_of_view (s : rv) : R s (mkSv (view tsize dec s) (stamp s) (mkSnap [] 0) [] 0).
Proof.
  unfold RvRefine.R, slen. cbn [contents sstamp]. split; [reflexivity|]. split.
  - unfold view, len. rewrite map_length, seqN_length. lia.
  - intros i Hi. unfold view. rewrite get_map_seqN, N2Nat.id. destruct (i <? rlen s) eqn:E; [now rewrite N.add_0_l|lia].
Qed.

(* C03_reimport: flush + database flush + drop + import returns exactly the flushed contents and stamp *)
Theorem reimport_preserves (s : rv) : Inv s ->
  snd (step s Reimport) = RUnit /\ view tsize dec (fst (step s Reimport)) = view tsize dec s /\
  stamp (fst (step s Reimport)) = stamp s /\ Inv (fst (step s Reimport)).
Proof.
  intros HI. destruct (step_refines tsize enc dec s _ Reimport HI (R_of_view s) I) as (HI' & HR' & Hres).
  cbn [sstep fst snd res_rel] in *. split; [exact Hres|]. split.
  - symmetry. apply (R_view tsize dec _ _ HR').
  - destruct HR' as (R1 & _). cbn in R1. auto.
Qed.
End RUN.
