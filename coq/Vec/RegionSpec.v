(* Vec/RegionSpec.v — the ABSTRACT rawdb interface the vector models are written against
   (DESIGN.md 2.4, L4 "on top of the spec of L1").  A region is a named byte vector; the
   database is a finite map name -> bytes.  The coordinator proves separately (C01) that the
   concrete allocator refines exactly this interface.
   Source of the error rules: crates/rawdb/src/region.rs:111-166 (truncate, write_with),
   crates/rawdb/src/lib.rs:170-250 (create_region_if_needed, remove_region). *)
From Anydb Require Import Common.Base.

Inductive rerr := WriteOutOfBounds | TruncateInvalid | RegionNotFound.

Definition region := list N.      (* bytes *)

(* region.rs:65 write_at = write_with(data, Some(at), false):
   at > len -> Err WriteOutOfBounds; new_len = max (at + |data|) len; never shrinks *)
Definition r_write_at (r : region) (data : list N) (at_ : N) : res rerr region :=
  if len r <? at_ then Err WriteOutOfBounds
  else Ok (take at_ r ++ data ++ drop (at_ + len data) r).

(* region.rs:111 truncate: from = len -> Ok, from > len -> Err TruncateInvalid *)
Definition r_truncate (r : region) (n : N) : res rerr region :=
  if len r <? n then Err TruncateInvalid else Ok (take n r).

(* region.rs:133 truncate_write = write_with(data, Some(at), true): new_len = at + |data| *)
Definition r_truncate_write (r : region) (at_ : N) (data : list N) : res rerr region :=
  if len r <? at_ then Err WriteOutOfBounds
  else Ok (take at_ r ++ data).

Lemma r_write_at_len r d a r' : r_write_at r d a = Ok r' -> len r' = N.max (a + len d) (len r).
Proof.
  unfold r_write_at. destruct (len r <? a) eqn:E; [discriminate|]. intros [= <-].
  rewrite !len_app, len_take, len_drop. lia.
Qed.
Lemma r_truncate_len r n r' : r_truncate r n = Ok r' -> len r' = n.
Proof.
  unfold r_truncate. destruct (len r <? n) eqn:E; [discriminate|]. intros [= <-].
  rewrite len_take. lia.
Qed.
Lemma r_truncate_write_len r a d r' : r_truncate_write r a d = Ok r' -> len r' = a + len d.
Proof.
  unfold r_truncate_write. destruct (len r <? a) eqn:E; [discriminate|]. intros [= <-].
  rewrite len_app, len_take. lia.
Qed.
Lemma r_write_at_prefix r d a r' : r_write_at r d a = Ok r' -> take a r' = take a r.
Proof.
  unfold r_write_at. destruct (len r <? a) eqn:E; [discriminate|]. intros [= <-].
  unfold take. rewrite firstn_app. rewrite firstn_firstn, Nat.min_id.
  rewrite firstn_length. replace (N.to_nat a - Nat.min (N.to_nat a) (length r))%nat with O.
  - cbn. now rewrite app_nil_r.
  - unfold len in E. lia.
Qed.

(* the database as far as a raw vector uses it: named regions *)
Definition db := list (list N * region).     (* name (bytes) -> region; at most one entry per name *)
Fixpoint db_get (d : db) (name : list N) : option region :=
  match d with
  | [] => None
  | (n, r) :: t => if list_eq_dec N.eq_dec n name then Some r else db_get t name
  end.
Definition db_remove (d : db) (name : list N) : res rerr db :=
  match db_get d name with
  | None => Err RegionNotFound
  | Some _ => Ok (filter (fun p => if list_eq_dec N.eq_dec (fst p) name then false else true) d)
  end.
Definition db_create_if_needed (d : db) (name : list N) : db * region :=
  match db_get d name with
  | Some r => (d, r)
  | None => ((name, []) :: d, [])      (* NEW_REGION_LEN = 0 *)
  end.

(* change directory: None = the directory does not exist; otherwise stamp |-> file bytes *)
Definition cdir := option (list (N * list N)).
