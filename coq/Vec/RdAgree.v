(* Vec/RdAgree.v — the conjunction of what is proved about the read paths, per vector state. *)
From Anydb Require Import Common.Base Gen.Consts Gen.Sizes Vec.RdModel Vec.RdCursor Vec.RdComp Vec.RdProofs
  Vec.RdCursorProofs Vec.RdCompProofs.

(* raw vector (BytesVec / ZeroCopyVec), any well-formed state: every range path yields the logical
   contents restricted to the request, every index-addressed path the element or nothing, none
   panics, all fetched bytes lie inside the region; without deleted slots also the cursor, the
   sorted read and a freshly filled CachedVec *)
Definition agree_raw (c : rstate) : Prop :=
  (forall from to, good c (read_into_at c from to) (expected c from to))
  /\ (forall from to, good c (fold_range_at c from to) (expected c from to))
  /\ (forall from to, good c (try_fold_range_at c from to) (expected c from to))
  /\ (forall i, good c (collect_one_at c i) (opt_list (expected_one c i)))
  /\ (forall i, good c (get_any c i) (opt_list (view c i)))
  /\ (hole_free c ->
      (forall idx, exists a, read_sorted (raw_rvec c) idx
                             = (ROk (flat_map (fun i => opt_list (expected_one c i)) idx), a)
                             /\ Forall (in_region c) a)
      /\ (forall k, rlen c <= u64_max ->
          exists cu a, cursor_fold (raw_rvec c) cursor_new k = (CList (expected c 0 k), cu, a)
                       /\ cu_pos cu = N.min k (rlen c) /\ Forall (in_region c) a)
      /\ (forall from to, exists d a,
            materialize (raw_rvec c) None = (ROk d, Some (rlen c, d), a) /\ Forall (in_region c) a
            /\ cached_fold d from to = expected c from to /\ cached_read_into d from to = expected c from to
            /\ (forall i, cached_one d i = expected_one c i))).
Theorem agree_raw_proved c : wf c -> agree_raw c.
Proof.
  intros W. unfold agree_raw.
  split; [intros; now apply read_into_at_good|].
  split; [intros; now apply fold_range_at_good|].
  split; [intros; now apply try_fold_range_at_good|].
  split; [intros; now apply collect_one_good|].
  split; [intros; now apply get_any_good|].
  intros Hh. split; [intros; now apply raw_read_sorted|].
  split; [intros; now apply raw_cursor_fold|intros; now apply raw_cached_fresh].
Qed.

(* compressed vector (PcoVec / LZ4Vec / ZstdVec), any well-formed state whose pages fit the IO buffer *)
Definition agree_comp (c : cstate) : Prop :=
  (forall from to, cgood c (cread_into_at c from to) (cexpected c from to))
  /\ (forall strict from to, cgood c (cfold_range_at strict c from to) (cexpected c from to))
  /\ (forall idx, exists a, read_sorted (comp_rvec c) idx = (ROk (flat_map (fun i => opt_list (cview c i)) idx), a)
                            /\ Forall (in_cregion c) a)
  /\ (forall k, clen c <= u64_max ->
      exists cu a, cursor_fold (comp_rvec c) cursor_new k = (CList (cexpected c 0 k), cu, a)
                   /\ cu_pos cu = N.min k (clen c) /\ Forall (in_cregion c) a)
  /\ (forall from to, exists d a,
        materialize (comp_rvec c) None = (ROk d, Some (clen c, d), a) /\ Forall (in_cregion c) a
        /\ cached_fold d from to = cexpected c from to /\ cached_read_into d from to = cexpected c from to).
Theorem agree_comp_proved c : cwf c -> io_sized c -> agree_comp c.
Proof.
  intros W Hio. unfold agree_comp.
  split; [intros; now apply cread_into_at_good|].
  split; [intros; now apply cfold_range_at_good|].
  split; [intros; now apply comp_read_sorted|].
  split; [intros; now apply comp_cursor_fold|intros; now apply comp_cached_fresh].
Qed.
