(* Vec/CvInv.v — the invariant of the compressed vector (DESIGN.md C07 `PagesInv`, appendix B.2)
   with its ghost decomposition, and the structural lemmas about it.  Proofs only.

   Ghost view: the data region is  header bytes ++ blob_0 ++ blob_1 ++ …  where entry i of the
   on-disk index describes blob_i, and blob_i encodes the value list vals_i. *)
From Anydb Require Import Common.Base Common.LE Gen.Consts Gen.Sizes Codec.Vecdb Codec.VecdbProofs
  Vec.CvRegion Vec.CvPages Vec.CvPagesProofs Vec.CvModel.

Section Inv.
  Variable T : Type.
  Variable size : N.
  Variable enc : T -> list N.
  Variable dec : list N -> T.
  Variable compress : N -> list T -> list cell.
  Variable decompress : list cell -> N -> option (list T).
  Variable fmt : N.
  Variable vver : N.

  Hypothesis size_pos : 0 < size.
  Hypothesis size_le : size <= MAX_UNCOMPRESSED_PAGE_SIZE.
  Hypothesis enc_len : forall t, len (enc t) = size.
  Hypothesis dec_enc : forall t, dec (enc t) = t.
  (* the external compressor: round trip (tested, not proved, for pco/lz4/zstd) and u32-sized output *)
  Hypothesis codec_rt : forall k l, decompress (compress k l) (len l) = Some l.
  Hypothesis compress_small : forall k l, len l <= MAX_UNCOMPRESSED_PAGE_SIZE / size -> len (compress k l) < two32.
  Hypothesis fmt_ok : format_code_ok fmt = true.
  Hypothesis vver_ok : vver < two32.

  Notation PP := (PER_PAGE size).
  Notation cvs := (cvs T).
  Notation values_to_bytes := (values_to_bytes T enc).

  Lemma PP_pos : 1 <= PP.
  Proof.
    unfold PER_PAGE. apply N.div_le_lower_bound; lia.
  Qed.
  Lemma PP_size : PP * size <= MAX_UNCOMPRESSED_PAGE_SIZE.
  Proof. unfold PER_PAGE. rewrite N.mul_comm. apply N.mul_div_le. lia. Qed.
  Lemma PP_small : PP <= MAX_UNCOMPRESSED_PAGE_SIZE.
  Proof. unfold PER_PAGE. apply N.div_le_upper_bound; nia. Qed.

  (* ---- ghost entries ------------------------------------------------------------------------ *)
  Record ent := mkEnt { e_pg : page; e_blob : list cell; e_vals : list T }.

  Definition ent_ok (e : ent) : Prop :=
    let p := e_pg e in
    len (e_blob e) = p_bytes p /\
    page_values_count p = len (e_vals e) /\
    1 <= len (e_vals e) /\ len (e_vals e) <= PP /\
    p_bytes p < two32 /\
    (page_is_raw p = true ->
       len (e_vals e) < PP /\ e_blob e = map CB (values_to_bytes (e_vals e)) /\
       p_values p = len (e_vals e) + RAW_FLAG) /\
    (page_is_raw p = false ->
       len (e_vals e) = PP /\ (exists k, e_blob e = compress k (e_vals e)) /\
       p_values p = len (e_vals e)).

  Definition blobs (l : list ent) : list cell := concat (map e_blob l).
  Definition vals (l : list ent) : list T := concat (map e_vals l).
  Definition pgs (l : list ent) : list page := map e_pg l.
  Definition ends (st : N) (l : list ent) : N := st + len (blobs l).

  Fixpoint chain (st : N) (l : list ent) : Prop :=
    match l with
    | [] => True
    | e :: t => p_start (e_pg e) = st /\ chain (st + len (e_blob e)) t
    end.

  Definition allfull (l : list ent) : Prop := Forall (fun e => len (e_vals e) = PP) l.
  (* every page but the last is full *)
  Definition nlf (l : list ent) : Prop := forall a b, l = a ++ b -> b <> [] -> allfull a.

  Lemma blobs_app a b : blobs (a ++ b) = blobs a ++ blobs b.
  Proof. unfold blobs. now rewrite map_app, concat_app. Qed.
  Lemma vals_app a b : vals (a ++ b) = vals a ++ vals b.
  Proof. unfold vals. now rewrite map_app, concat_app. Qed.
  Lemma pgs_app a b : pgs (a ++ b) = pgs a ++ pgs b.
  Proof. unfold pgs. now rewrite map_app. Qed.
  Lemma ends_app st a b : ends st (a ++ b) = ends (ends st a) b.
  Proof. unfold ends. rewrite blobs_app, len_app. lia. Qed.
  Lemma ends_nil st : ends st [] = st.
  Proof. unfold ends, blobs. cbn. rewrite len_nil. lia. Qed.
  Lemma ends_cons st e l : ends st (e :: l) = ends (st + len (e_blob e)) l.
  Proof. unfold ends, blobs. cbn [map concat]. rewrite len_app. lia. Qed.

  Lemma chain_app st a b : chain st (a ++ b) <-> chain st a /\ chain (ends st a) b.
  Proof.
    revert st; induction a as [|e a IH]; intros st.
    - cbn [app chain]. rewrite ends_nil. tauto.
    - cbn [app chain]. rewrite IH, ends_cons. tauto.
  Qed.

  Lemma allfull_app a b : allfull (a ++ b) <-> allfull a /\ allfull b.
  Proof. apply Forall_app. Qed.

  Lemma vals_allfull a : allfull a -> len (vals a) = len a * PP.
  Proof.
    induction 1 as [|e a He Ha IH]; [reflexivity|].
    unfold vals in *. cbn [map concat]. rewrite len_app, len_cons, IH, He. lia.
  Qed.

  Lemma nlf_nil : nlf [].
  Proof. intros a b H. destruct a, b; try discriminate. congruence. Qed.
  Lemma nlf_single e : nlf [e].
  Proof.
    intros a b H Hb. destruct a as [|x a]; [constructor|].
    destruct a, b; try discriminate; congruence.
  Qed.

  Lemma app_eq_app_cases {A} (a b c d : list A) :
    a ++ b = c ++ d -> (exists m, c = a ++ m /\ b = m ++ d) \/ (exists m, a = c ++ m /\ d = m ++ b).
  Proof.
    revert c; induction a as [|x a IH]; intros c H.
    - left. exists c. auto.
    - destruct c as [|y c].
      + right. exists (x :: a). auto.
      + cbn in H. inversion H; subst. destruct (IH _ H2) as [(m & -> & ->)|(m & -> & ->)].
        * left. exists m. auto.
        * right. exists m. auto.
  Qed.

  Lemma nlf_app a b : allfull a -> nlf b -> nlf (a ++ b).
  Proof.
    intros Ha Hb x y H Hy.
    destruct (app_eq_app_cases _ _ _ _ H) as [(m & -> & E)|(m & E & ->)].
    - apply allfull_app. split; [exact Ha|]. eapply Hb; eauto.
    - rewrite E in Ha. apply allfull_app in Ha. tauto.
  Qed.

  Lemma nlf_prefix a b : nlf (a ++ b) -> nlf a.
  Proof.
    intros H x y E Hy. apply (H x (y ++ b)).
    - rewrite E. now rewrite app_assoc.
    - destruct y; [congruence|discriminate].
  Qed.

  Lemma nlf_suffix a b : nlf (a ++ b) -> nlf b.
  Proof.
    intros H x y E Hy. specialize (H (a ++ x) y).
    rewrite E, app_assoc in H. specialize (H eq_refl Hy).
    apply allfull_app in H. tauto.
  Qed.

  Lemma pgs_len l : len (pgs l) = len l.
  Proof. unfold pgs. apply len_map. Qed.

  (* ---- page fields of well-formed entries ------------------------------------------------------- *)
  Lemma RAW_FLAG_val : RAW_FLAG = 2147483648. Proof. reflexivity. Qed.
  Lemma MAXP_val : MAX_UNCOMPRESSED_PAGE_SIZE = 16384. Proof. reflexivity. Qed.

  Lemma is_raw_page_raw st b v : page_is_raw (page_raw st b v) = true.
  Proof. unfold page_is_raw, page_raw. cbn [p_values]. apply N.leb_le. lia. Qed.
  Lemma count_page_raw st b v : page_values_count (page_raw st b v) = v.
  Proof.
    unfold page_values_count. rewrite is_raw_page_raw. unfold page_raw. cbn [p_values]. lia.
  Qed.
  Lemma is_raw_page_compressed st b v : v < RAW_FLAG -> page_is_raw (page_compressed st b v) = false.
  Proof. unfold page_is_raw, page_compressed. cbn [p_values]. intros. apply N.leb_gt. lia. Qed.
  Lemma count_page_compressed st b v : v < RAW_FLAG -> page_values_count (page_compressed st b v) = v.
  Proof.
    intros H. unfold page_values_count. rewrite is_raw_page_compressed by auto. reflexivity.
  Qed.

  Lemma len_values_to_bytes l : len (values_to_bytes l) = len l * size.
  Proof.
    induction l as [|t l IH]; [reflexivity|].
    unfold CvModel.values_to_bytes in *. cbn [flat_map]. rewrite len_app, enc_len, IH, len_cons. lia.
  Qed.
  Lemma values_to_bytes_app a b : values_to_bytes (a ++ b) = values_to_bytes a ++ values_to_bytes b.
  Proof. unfold CvModel.values_to_bytes. apply flat_map_app. Qed.

  Lemma ent_ok_valid e : ent_ok e -> p_start (e_pg e) < two64 -> valid_page (e_pg e) = true.
  Proof.
    intros (H1 & H2 & H3 & H4 & H5 & Hr & Hc) Hs.
    unfold valid_page. rewrite !andb_true_iff, !N.ltb_lt. repeat split; auto.
    pose proof PP_small. pose proof MAXP_val. pose proof RAW_FLAG_val. unfold two32.
    destruct (page_is_raw (e_pg e)) eqn:E.
    - destruct (Hr eq_refl) as (_ & _ & ->). lia.
    - destruct (Hc eq_refl) as (_ & _ & ->). lia.
  Qed.

  Lemma chain_start_le st l : chain st l -> Forall (fun e => p_start (e_pg e) <= ends st l) l.
  Proof.
    revert st; induction l as [|e l IH]; intros st H; [constructor|].
    destruct H as [H1 H2]. rewrite ends_cons. constructor.
    - unfold ends. lia.
    - apply IH. exact H2.
  Qed.

  (* pages_next_start / pages_stored_len on the page list of a chain *)
  Lemma next_start_chain l : chain HEADER_OFFSET l -> Forall ent_ok l ->
    pages_next_start (pgs l) = ends HEADER_OFFSET l.
  Proof.
    intros Hc Ho. unfold pages_next_start.
    destruct (list_snoc_cases l) as [->|(l' & e & ->)].
    - cbn. now rewrite ends_nil.
    - rewrite pgs_app. cbn [pgs map]. rewrite last_opt_app.
      apply chain_app in Hc as [_ Hc]. cbn [chain] in Hc. destruct Hc as [Hs _].
      apply Forall_app in Ho as [_ Ho]. inversion Ho as [|? ? (Hb & _) _]; subst.
      rewrite ends_app. unfold page_end. rewrite Hs, <- Hb. rewrite ends_cons, ends_nil. reflexivity.
  Qed.

  Lemma stored_len_pgs l : Forall ent_ok l -> nlf l -> pages_stored_len PP (pgs l) = len (vals l).
  Proof.
    intros Ho Hn. unfold pages_stored_len.
    destruct (list_snoc_cases l) as [->|(l' & e & ->)].
    - reflexivity.
    - rewrite pgs_app. cbn [pgs map]. rewrite last_opt_app.
      assert (Hf : allfull l') by (eapply Hn; [reflexivity|discriminate]).
      apply Forall_app in Ho as [_ Ho]. inversion Ho as [|? ? (_ & Hcnt & _) _]; subst.
      rewrite Hcnt, vals_app. rewrite (len_app (vals l')). rewrite (vals_allfull l' Hf).
      rewrite len_app, pgs_len, len_cons, len_nil. unfold vals. cbn [map concat]. rewrite app_nil_r. lia.
  Qed.

  Lemma vals_le l : Forall ent_ok l -> len (vals l) <= len l * PP.
  Proof.
    induction 1 as [|e l (_ & _ & _ & H & _) Hl IH]; [unfold vals; cbn [map concat]; rewrite !len_nil; lia|].
    unfold vals in *. cbn [map concat]. rewrite len_app, len_cons. lia.
  Qed.

  (* if the total is len * PP then every page is full *)
  Lemma vals_full_all l : Forall ent_ok l -> len (vals l) = len l * PP -> allfull l.
  Proof.
    induction 1 as [|e l He Hl IH]; intros H; [constructor|].
    pose proof (vals_le l Hl) as B. destruct He as (_ & _ & _ & H4 & _).
    unfold vals in *. cbn [map concat] in H. rewrite len_app, len_cons in H.
    constructor; [lia|apply IH; lia].
  Qed.

  (* ---- headers ------------------------------------------------------------------------------------ *)
  Definition hdr_ok (h : header) : Prop :=
    valid_header h = true /\ h_hv h = HEADER_VERSION /\ h_vv h = vver /\ h_format h = fmt.

  Lemma len_header_to_bytes h : len (header_to_bytes h) = HEADER_OFFSET.
  Proof.
    unfold header_to_bytes, format_to_bytes.
    rewrite !len_app, !len_enc_u32, len_enc_u64, len_repeat. cbn. reflexivity.
  Qed.

  Local Opaque header_to_bytes.

  (* ---- the invariant ------------------------------------------------------------------------------ *)
  (* hd = the header on disk, ents = the entries on disk, mem = the entries in memory *)
  Definition InvG (s : cvs) (hd : header) (ents mem : list ent) : Prop :=
    hdr_ok (s_hdr s) /\ hdr_ok hd /\ (s_hdr_mod s = false -> hd = s_hdr s) /\
    s_data s = map CB (header_to_bytes hd) ++ blobs ents /\
    len (s_data s) <= MAX_RESERVED_SIZE /\
    pg_disk (s_pg s) = encode_pages (pgs ents) /\
    chain HEADER_OFFSET ents /\ Forall ent_ok ents /\ nlf ents /\
    pg_vec (s_pg s) = pgs mem /\
    ((pg_change_at (s_pg s) = None /\ mem = ents) \/ (pg_change_at (s_pg s) = Some 0 /\ mem = [])) /\
    s_stored_len s <= len (vals mem).

  Definition Inv (s : cvs) : Prop := exists hd ents mem, InvG s hd ents mem.

  (* the logical contents *)
  Definition view (s : cvs) (mem : list ent) : list T :=
    take (s_stored_len s) (vals mem) ++ s_pushed s.

  Lemma mem_wf s hd ents mem : InvG s hd ents mem ->
    chain HEADER_OFFSET mem /\ Forall ent_ok mem /\ nlf mem.
  Proof.
    intros (_ & _ & _ & _ & _ & _ & Hc & Ho & Hn & _ & [[_ ->]|[_ ->]] & _); auto.
    repeat split; [constructor|apply nlf_nil].
  Qed.

  Lemma data_len s hd ents mem : InvG s hd ents mem -> len (s_data s) = ends HEADER_OFFSET ents.
  Proof.
    intros (_ & _ & _ & Hd & _). rewrite Hd, len_app, len_map, len_header_to_bytes. reflexivity.
  Qed.

  (* ---- decoding a well-formed entry --------------------------------------------------------------- *)
  Lemma decode_vals_bytes l rest :
    decode_vals T size dec (length l) (values_to_bytes l ++ rest) = l.
  Proof.
    induction l as [|t l IH]; [reflexivity|].
    cbn [length decode_vals]. unfold CvModel.values_to_bytes in *. cbn [flat_map].
    rewrite <- app_assoc. rewrite take_app_exact, drop_app_exact by (now rewrite enc_len).
    now rewrite dec_enc, IH.
  Qed.

  Lemma map_cell_byte_CB l : map cell_byte (map CB l) = l.
  Proof. rewrite map_map. cbn. apply map_id. Qed.

  Lemma decode_ent e : ent_ok e ->
    decode_page T size dec decompress (e_blob e) (e_pg e) = Ok (e_vals e).
  Proof.
    intros (H1 & H2 & H3 & H4 & H5 & Hr & Hc). unfold decode_page.
    destruct (page_is_raw (e_pg e)) eqn:E.
    - destruct (Hr eq_refl) as (_ & Hb & _). unfold bytes_to_values.
      rewrite H2, Hb, len_map, len_values_to_bytes, N.leb_refl.
      rewrite map_cell_byte_CB. unfold len. rewrite Nat2N.id.
      rewrite <- (app_nil_r (values_to_bytes (e_vals e))). now rewrite decode_vals_bytes.
    - destruct (Hc eq_refl) as (_ & (k & Hb) & _). rewrite Hb, H2, codec_rt, N.eqb_refl. reflexivity.
  Qed.

  Lemma page_data_ent hb a e b :
    len hb = HEADER_OFFSET -> chain HEADER_OFFSET (a ++ e :: b) -> ent_ok e ->
    page_data (hb ++ blobs (a ++ e :: b)) (e_pg e) = e_blob e.
  Proof.
    intros Hh Hc (Hb & _). apply chain_app in Hc as [_ Hc]. cbn [chain] in Hc. destruct Hc as [Hs _].
    unfold page_data. rewrite Hs, <- Hb. rewrite blobs_app.
    change (blobs (e :: b)) with (e_blob e ++ blobs b).
    rewrite app_assoc. unfold ends. rewrite <- Hh, <- len_app. apply slice_mid.
  Qed.

  (* ---- write_header_if_needed -------------------------------------------------------------------------- *)
  Lemma write_header_ok s hd ents mem : InvG s hd ents mem ->
    exists s1 hd1, write_header_if_needed T s = (s1, Ok tt) /\ InvG s1 hd1 ents mem /\
      s_hdr_mod s1 = false /\ s_hdr s1 = s_hdr s /\ s_pg s1 = s_pg s /\
      s_stored_len s1 = s_stored_len s /\ s_pushed s1 = s_pushed s /\ hd1 = s_hdr s.
  Proof.
    intros H. pose proof H as (A1 & A2 & A3 & A4 & A5 & A6 & A7 & A8 & A9 & A10 & A11 & A12).
    unfold write_header_if_needed. destruct (s_hdr_mod s) eqn:E.
    - unfold r_write_at. replace (len (s_data s) <? 0) with false by (symmetry; apply N.ltb_ge; lia).
      rewrite len_map, len_header_to_bytes.
      assert (L : HEADER_OFFSET <= len (s_data s)).
      { rewrite A4, len_app, len_map, len_header_to_bytes. lia. }
      replace (MAX_RESERVED_SIZE <? N.max (0 + HEADER_OFFSET) (len (s_data s))) with false
        by (symmetry; apply N.ltb_ge; lia).
      cbn [lift_r]. eexists _, (s_hdr s). split; [reflexivity|].
      split; [|cbn; repeat split; auto].
      unfold InvG. cbn [s_hdr s_hdr_mod s_data s_pg s_stored_len set_hdr set_data].
      repeat split; auto; try apply A1.
      + rewrite take_0. cbn [app]. f_equal. rewrite A4.
        apply drop_app_exact. now rewrite len_map, len_header_to_bytes.
      + rewrite take_0. cbn [app]. rewrite len_app, len_map, len_header_to_bytes, len_drop. lia.
    - eexists s, hd. split; [reflexivity|]. split; [exact H|]. repeat split; auto.
  Qed.

  (* ---- write_plan --------------------------------------------------------------------------------------- *)
  Lemma plan_spec mem hc sl pl :
    chain HEADER_OFFSET mem -> Forall ent_ok mem -> nlf mem -> sl <= len (vals mem) ->
    (write_plan size (pgs mem) hc sl pl = Ok PlanNoop /\ pl = 0 /\ sl = len (vals mem) /\ hc = false) \/
    (exists kept rest partial,
       write_plan size (pgs mem) hc sl pl = Ok (PlanGo (ends HEADER_OFFSET kept) (len kept) partial) /\
       mem = kept ++ rest /\ allfull kept /\ len kept = sl / PP /\
       ((partial = None /\ sl mod PP = 0 /\ (rest = [] -> sl = len (vals mem)))
        \/ (exists e rest', rest = e :: rest' /\ partial = Some (e_pg e, sl mod PP) /\
                            sl mod PP <> 0 /\ sl mod PP <= len (e_vals e)))).
  Proof.
    intros Hc Ho Hn Hsl. unfold write_plan. rewrite stored_len_pgs by auto.
    replace (len (vals mem) <? sl) with false by (symmetry; apply N.ltb_ge; lia).
    destruct ((pl =? 0) && (sl =? len (vals mem)) && negb hc) eqn:E0.
    { left. apply andb_true_iff in E0 as [E0 E3]. apply andb_true_iff in E0 as [E1 E2].
      apply negb_true_iff in E3. repeat split; auto; lia. }
    right. pose proof PP_pos as Hpp.
    pose proof (N.div_mod sl PP ltac:(lia)) as Hdm.
    pose proof (N.mod_lt sl PP ltac:(lia)) as Hml.
    remember (sl / PP) as q eqn:Eqq. remember (sl mod PP) as r eqn:Eqr.
    pose proof (vals_le mem Ho) as Hvl.
    assert (Hq : q <= len mem) by nia.
    rewrite pgs_len. replace (len mem <? q) with false by (symmetry; apply N.ltb_ge; lia).
    destruct (q <? len mem) eqn:Eq.
    - assert (Hs : mem = take q mem ++ drop q mem) by (symmetry; apply take_drop).
      remember (take q mem) as kept eqn:Ek. remember (drop q mem) as rest eqn:Er.
      assert (Lk : len kept = q) by (rewrite Ek, len_take; lia).
      assert (Lr : len rest = len mem - q) by (rewrite Er; apply len_drop).
      destruct rest as [|e rest']; [rewrite len_nil in Lr; lia|].
      assert (Hk : allfull kept) by (eapply Hn; [exact Hs|discriminate]).
      assert (G : get (pgs mem) q = Some (e_pg e)).
      { rewrite Hs, pgs_app. rewrite get_app_r by (rewrite pgs_len; lia).
        rewrite pgs_len, Lk, N.sub_diag. reflexivity. }
      rewrite G. pose proof Hc as Hc'. rewrite Hs in Hc'. apply chain_app in Hc' as [_ Hc'].
      cbn [chain] in Hc'. destruct Hc' as [Hst _]. rewrite Hst, <- Lk.
      exists kept, (e :: rest'). eexists. split; [reflexivity|].
      repeat split; auto.
      destruct (r =? 0) eqn:Er0.
      + left. repeat split; auto; [lia|discriminate].
      + right. exists e, rest'. repeat split; auto; [lia|].
        destruct rest' as [|e2 rest2].
        * rewrite Hs, vals_app, len_app, (vals_allfull kept Hk), Lk in Hsl.
          unfold vals in Hsl. cbn [map concat] in Hsl. rewrite app_nil_r in Hsl. nia.
        * assert (Hf : allfull (kept ++ [e])).
          { apply (Hn (kept ++ [e]) (e2 :: rest2)); [|discriminate].
            rewrite Hs. now rewrite <- app_assoc. }
          apply allfull_app in Hf as [_ Hf]. inversion Hf as [|? ? Hfe _]. lia.
    - assert (q = len mem) by lia.
      assert (Hall : len (vals mem) = len mem * PP) by nia.
      exists mem, [], None. rewrite next_start_chain by auto. rewrite H. split; [reflexivity|].
      repeat split; auto.
      + now rewrite app_nil_r.
      + apply vals_full_all; auto.
      + left. repeat split; auto; [subst r; nia|intros _; nia].
  Qed.

  (* ---- the pages produced by one slow-path write ---------------------------------------------------- *)
  Notation encode_chunk := (encode_chunk T size enc compress).
  Notation encode_chunks := (encode_chunks T size enc compress).

  Fixpoint build (hints : list N) (st pi : N) (cs : list (list T)) : list ent :=
    match cs with
    | [] => []
    | c :: t =>
        let '(b, (bl, vl, raw)) := encode_chunk hints pi c in
        let p := if raw then page_raw st bl vl else page_compressed st bl vl in
        mkEnt p b c :: build hints (st + bl) (pi + 1) t
    end.

  Lemma encode_chunks_build hints st pi cs :
    fst (encode_chunks hints pi cs) = blobs (build hints st pi cs).
  Proof.
    revert st pi; induction cs as [|c t IH]; intros st pi; [reflexivity|].
    cbn [CvModel.encode_chunks build].
    destruct (encode_chunk hints pi c) as [b [[bl vl] raw]] eqn:E.
    specialize (IH (st + bl) (pi + 1)).
    destruct (encode_chunks hints (pi + 1) t) as [bt st'] eqn:E2.
    cbn [fst] in *. unfold blobs in *. cbn [map concat e_blob]. now rewrite IH.
  Qed.

  Lemma next_start_snoc v pg : pages_next_start (v ++ [pg]) = page_end pg.
  Proof. unfold pages_next_start. now rewrite last_opt_app. Qed.

  Lemma encode_chunk_len hints pi c : exists b vl raw,
    encode_chunk hints pi c = (b, (len b, vl, raw)).
  Proof.
    unfold CvModel.encode_chunk. destruct (len c =? PP); eauto.
  Qed.

  Lemma push_build hints : forall cs st pi p c,
    pi = len (pg_vec p) -> pages_next_start (pg_vec p) = st -> pg_change_at p = Some c -> c <= pi ->
    push_pages p pi (snd (encode_chunks hints pi cs)) =
      (mkPages (pg_vec p ++ pgs (build hints st pi cs)) (Some c) (pg_disk p), Ok tt).
  Proof.
    induction cs as [|ch t IH]; intros st pi p c Hpi Hst Hca Hc.
    - cbn. rewrite app_nil_r. destruct p; cbn in *. now rewrite Hca.
    - cbn [CvModel.encode_chunks build].
      destruct (encode_chunk_len hints pi ch) as (b & vl & raw & E). rewrite E.
      destruct (encode_chunks hints (pi + 1) t) as [bt szs] eqn:E2.
      cbn [snd push_pages]. rewrite Hst.
      set (pg := if raw then page_raw st (len b) vl else page_compressed st (len b) vl).
      unfold pages_checked_push. rewrite Hpi, N.eqb_refl. cbn [negb].
      rewrite Hca, <- Hpi, set_changed_at_some by auto.
      specialize (IH (st + len b) (pi + 1)
        (mkPages (pg_vec p ++ [pg]) (Some c) (pg_disk p)) c).
      rewrite E2 in IH. cbn [snd pg_vec pg_change_at pg_disk] in IH.
      rewrite IH.
      + cbn [pgs map e_pg]. now rewrite <- app_assoc.
      + rewrite len_app, len_cons, len_nil. lia.
      + rewrite next_start_snoc. subst pg. destruct raw; reflexivity.
      + reflexivity.
      + lia.
  Qed.

  Lemma len_build hints st pi cs : len (build hints st pi cs) = len cs.
  Proof.
    revert st pi; induction cs as [|c t IH]; intros; [reflexivity|].
    cbn [build]. destruct (encode_chunk hints pi c) as [b [[bl vl] raw]].
    rewrite !len_cons, IH. reflexivity.
  Qed.

  Lemma vals_build hints st pi cs : vals (build hints st pi cs) = concat cs.
  Proof.
    revert st pi; induction cs as [|c t IH]; intros; [reflexivity|].
    cbn [build]. destruct (encode_chunk hints pi c) as [b [[bl vl] raw]].
    unfold vals in *. cbn [map concat e_vals]. now rewrite IH.
  Qed.

  Lemma build_head_ok hints st pi c :
    1 <= len c -> len c <= PP ->
    exists e, (forall t, build hints st pi (c :: t) = e :: build hints (st + len (e_blob e)) (pi + 1) t) /\
      ent_ok e /\ p_start (e_pg e) = st /\ e_vals e = c.
  Proof.
    intros H1 H2. pose proof PP_small. pose proof MAXP_val. pose proof RAW_FLAG_val. pose proof PP_size.
    unfold build. fold build. unfold CvModel.encode_chunk.
    destruct (len c =? PP) eqn:E.
    - eexists (mkEnt _ _ c). split; [intros t; reflexivity|].
      cbn [e_pg e_blob e_vals]. split; [|split; reflexivity].
      unfold ent_ok. cbn [e_pg e_blob e_vals].
      rewrite count_page_compressed, is_raw_page_compressed by lia.
      cbn [p_bytes p_values page_compressed].
      repeat split; auto; try lia; try discriminate; first [apply compress_small; exact H2 | eauto].
    - eexists (mkEnt _ _ c). split; [intros t; reflexivity|].
      cbn [e_pg e_blob e_vals]. split; [|split; reflexivity].
      unfold ent_ok. cbn [e_pg e_blob e_vals].
      rewrite count_page_raw, is_raw_page_raw.
      cbn [p_bytes p_values page_raw]. repeat split; auto; try lia; try discriminate.
      rewrite len_map, len_values_to_bytes. unfold two32. nia.
  Qed.

  Lemma build_ok hints : forall cs st pi, chunked PP cs ->
    chain st (build hints st pi cs) /\ Forall ent_ok (build hints st pi cs) /\ nlf (build hints st pi cs).
  Proof.
    intros cs st pi H. revert st pi. induction H as [|c H1 H2|c t Hc Ht Hch IH]; intros st pi.
    - cbn. repeat split; [constructor|apply nlf_nil].
    - destruct (build_head_ok hints st pi c H1 H2) as (e & Hb & He & Hs & _).
      rewrite Hb. cbn [build]. repeat split; [exact Hs|constructor; auto|apply nlf_single].
    - pose proof PP_pos.
      destruct (build_head_ok hints st pi c ltac:(lia) ltac:(lia)) as (e & Hb & He & Hs & Hv).
      rewrite Hb. destruct (IH (st + len (e_blob e)) (pi + 1)) as (I1 & I2 & I3).
      repeat split; auto.
      apply (nlf_app [e]); auto. constructor; [|constructor]. now rewrite Hv.
  Qed.

  (* ---- Pages::flush after a truncate + pushes ------------------------------------------------------- *)
  Lemma take_encode_pages c l : take (c * SIZE_OF_PAGE) (encode_pages l) = encode_pages (take c l).
  Proof.
    destruct (N.le_gt_cases c (len l)) as [H|H].
    - rewrite <- (take_drop c l) at 1. rewrite encode_pages_app.
      apply take_app_exact. rewrite len_encode_pages, len_take. now rewrite N.min_l by lia.
    - rewrite (take_all c l) by lia. apply take_all. rewrite len_encode_pages.
      change SIZE_OF_PAGE with 16. nia.
  Qed.

  Lemma flush_ok ents kept new p3 r :
    (exists rest2, ents = kept ++ rest2) ->
    pages_flush (mkPages (pgs kept ++ pgs new) (Some (len kept)) (encode_pages (pgs ents))) = (p3, r) ->
    r = Panic \/ (r = Ok tt /\ p3 = mkPages (pgs (kept ++ new)) None (encode_pages (pgs (kept ++ new)))).
  Proof.
    intros (rest2 & ->). unfold pages_flush. cbn [pg_change_at pg_vec pg_disk].
    replace (len (pgs kept ++ pgs new) <? len kept) with false
      by (symmetry; apply N.ltb_ge; rewrite len_app, pgs_len; lia).
    rewrite drop_app_exact by (now rewrite pgs_len).
    unfold r_truncate_write.
    replace (len (encode_pages (pgs (kept ++ rest2))) <? len kept * SIZE_OF_PAGE) with false.
    2:{ symmetry. apply N.ltb_ge. rewrite len_encode_pages, pgs_len, len_app. nia. }
    destruct (MAX_RESERVED_SIZE <? _); cbn [lift_r]; intros H; inversion H; subst; [now left|right].
    split; [reflexivity|]. f_equal.
    - now rewrite pgs_app.
    - rewrite take_encode_pages, pgs_app, take_app_exact by (now rewrite pgs_len).
      now rewrite pgs_app, encode_pages_app.
  Qed.

  (* ---- the slow and the fast path ----------------------------------------------------------------------- *)
  Definition post (s : cvs) (mem : list ent) (s' : cvs) (r : res cverr bool) : Prop :=
    r = Panic \/ exists ents', r = Ok true /\ InvG s' (s_hdr s) ents' ents' /\
       vals ents' = view s mem /\ s_stored_len s' = len (vals ents') /\ s_pushed s' = [] /\
       s_hdr s' = s_hdr s /\ s_hdr_mod s' = false.

  Lemma kept_prefix s hd ents mem kept rest :
    InvG s hd ents mem -> mem = kept ++ rest ->
    (exists rest2, ents = kept ++ rest2) /\
    set_changed_at (pg_change_at (s_pg s)) (len kept) = Some (len kept).
  Proof.
    intros (_ & _ & _ & _ & _ & _ & _ & _ & _ & _ & [[Hc ->]|[Hc ->]] & _) Hm.
    - split; [eauto|]. now rewrite Hc.
    - symmetry in Hm. apply app_eq_nil in Hm as [-> ->]. split; [exists ents; reflexivity|].
      rewrite Hc. reflexivity.
  Qed.

  Lemma write_slow_ok s hd ents mem kept rest head hints s' r :
    InvG s hd ents mem -> s_hdr_mod s = false ->
    mem = kept ++ rest -> allfull kept ->
    s_stored_len s = len kept * PP + len head ->
    take (s_stored_len s) (vals mem) = vals kept ++ head ->
    write_slow T size enc compress s hints (ends HEADER_OFFSET kept) (len kept) head = (s', r) ->
    post s mem s' r.
  Proof.
    intros HI Hmod Hmem Hkf Hsl Hview HW.
    destruct (kept_prefix _ _ _ _ _ _ HI Hmem) as ((rest2 & Hents) & Hca).
    destruct (mem_wf _ _ _ _ HI) as (Mc & Mo & Mn).
    pose proof HI as (B1 & B2 & B3 & B4 & B5 & B6 & B7 & B8 & B9 & B10 & B11 & B12).
    specialize (B3 Hmod). subst hd.
    unfold write_slow in HW.
    assert (Hval : match head with [] => s_pushed s | _ :: _ => head ++ s_pushed s end = head ++ s_pushed s)
      by (destruct head; reflexivity).
    rewrite Hval in HW. clear Hval.
    set (values := head ++ s_pushed s) in *.
    set (cs := chunks PP values) in *.
    pose proof (encode_chunks_build hints (ends HEADER_OFFSET kept) (len kept) cs) as EB.
    pose proof (push_build hints cs (ends HEADER_OFFSET kept) (len kept)) as PB.
    destruct (encode_chunks hints (len kept) cs) as [buf sizes] eqn:EC.
    cbn [fst snd] in EB, PB. set (new := build hints (ends HEADER_OFFSET kept) (len kept) cs) in *.
    cbv beta iota zeta in HW. cbn [s_data set_pushed] in HW.
    assert (Ck : chain HEADER_OFFSET kept /\ Forall ent_ok kept).
    { rewrite Hmem in Mc, Mo. apply chain_app in Mc. apply Forall_app in Mo. tauto. }
    destruct Ck as [Ck Ok_].
    assert (Hdata : s_data s = (map CB (header_to_bytes (s_hdr s)) ++ blobs kept) ++ blobs rest2).
    { rewrite B4, Hents, blobs_app. now rewrite app_assoc. }
    assert (Lpre : len (map CB (header_to_bytes (s_hdr s)) ++ blobs kept) = ends HEADER_OFFSET kept).
    { rewrite len_app, len_map, len_header_to_bytes. reflexivity. }
    unfold r_truncate_write in HW.
    replace (len (s_data s) <? ends HEADER_OFFSET kept) with false in HW
      by (symmetry; apply N.ltb_ge; rewrite Hdata, len_app, Lpre; lia).
    destruct (MAX_RESERVED_SIZE <? ends HEADER_OFFSET kept + len buf) eqn:EM;
      cbn [lift_r] in HW; [inversion HW; now left|].
    rewrite Hdata, take_app_exact in HW by (now rewrite Lpre).
    cbn [s_pg set_data set_pushed] in HW.
    unfold pages_truncate in HW. rewrite B10, Hmem, pgs_app, take_app_exact in HW by (now rewrite pgs_len).
    rewrite Hca in HW.
    rewrite (PB (mkPages (pgs kept) (Some (len kept)) (pg_disk (s_pg s))) (len kept)) in HW.
    2:{ cbn. now rewrite pgs_len. }
    2:{ cbn. apply next_start_chain; auto. }
    2:{ reflexivity. }
    2:{ lia. }
    cbn [pg_vec pg_disk] in HW. rewrite B6 in HW.
    destruct (pages_flush _) as [p3 rf] eqn:EF in HW.
    destruct (flush_ok ents kept new p3 rf ltac:(eauto) EF) as [->|[-> ->]];
      [inversion HW; now left|].
    inversion HW; subst s' r. right. exists (kept ++ new).
    destruct (build_ok hints cs (ends HEADER_OFFSET kept) (len kept)
                (chunks_chunked PP values ltac:(pose proof PP_pos; lia))) as (N1 & N2 & N3).
    fold new in N1, N2, N3.
    assert (Hv : vals (kept ++ new) = vals kept ++ values).
    { rewrite vals_app. unfold new. rewrite vals_build. unfold cs.
      rewrite chunks_concat by (pose proof PP_pos; lia). reflexivity. }
    split; [reflexivity|].
    assert (Hlen : s_stored_len s + len (s_pushed s) = len (vals (kept ++ new))).
    { rewrite Hv, len_app, (vals_allfull kept Hkf). unfold values. rewrite len_app. lia. }
    split; [|cbn [s_stored_len s_pushed s_hdr s_hdr_mod set_pg set_stored_len set_data set_pushed];
             repeat split; auto].
    - unfold InvG. cbn [s_hdr s_hdr_mod s_data s_pg s_stored_len set_pg set_stored_len set_data set_pushed
                        pg_vec pg_disk pg_change_at].
      repeat split; auto; try apply B1.
      all: try (rewrite blobs_app, EB; now rewrite app_assoc).
      all: try (rewrite len_app, Lpre; apply N.ltb_ge in EM; lia).
      all: try (apply chain_app; split; now auto).
      all: try (apply Forall_app; split; now auto).
      all: try (apply nlf_app; now auto).
      all: try lia.
      all: try (left; split; reflexivity).
    - rewrite Hv. unfold view, values. rewrite Hview. now rewrite app_assoc.
  Qed.

  Lemma blobs_single e : blobs [e] = e_blob e.
  Proof. unfold blobs. cbn. apply app_nil_r. Qed.
  Lemma vals_single e : vals [e] = e_vals e.
  Proof. unfold vals. cbn. apply app_nil_r. Qed.

  Lemma write_fast_ok s hd ents mem kept e s' r :
    InvG s hd ents mem -> s_hdr_mod s = false ->
    mem = kept ++ [e] -> allfull kept ->
    page_is_raw (e_pg e) = true ->
    s_stored_len s = len kept * PP + len (e_vals e) ->
    len (e_vals e) + len (s_pushed s) < PP ->
    write_fast T enc s (len kept) (e_pg e) (len (e_vals e)) = (s', r) ->
    post s mem s' r.
  Proof.
    intros HI Hmod Hmem Hkf Hraw Hsl Hfit HW.
    destruct (mem_wf _ _ _ _ HI) as (Mc & Mo & Mn).
    pose proof HI as (B1 & B2 & B3 & B4 & B5 & B6 & B7 & B8 & B9 & B10 & B11 & B12).
    specialize (B3 Hmod). subst hd.
    destruct B11 as [[Hca He]|[_ He]]; [|rewrite He in Hmem; destruct kept; discriminate].
    subst ents. rewrite Hmem in *.
    apply chain_app in Mc as [Ck Ce]. cbn [chain] in Ce. destruct Ce as [Hst _].
    apply Forall_app in Mo as [Ok_ Oe]. inversion Oe as [|? ? He _]; subst.
    pose proof He as (E1 & E2 & E3 & E4 & E5 & Er & _). destruct (Er Hraw) as (_ & Eb & Ev).
    set (raw := map CB (values_to_bytes (s_pushed s))) in *.
    set (e' := mkEnt (page_raw (p_start (e_pg e)) (p_bytes (e_pg e) + len raw)
                               (len (e_vals e) + len (s_pushed s)))
                     (e_blob e ++ raw) (e_vals e ++ s_pushed s)).
    assert (Lraw : len raw = len (s_pushed s) * size)
      by (unfold raw; now rewrite len_map, len_values_to_bytes).
    assert (He' : ent_ok e').
    { pose proof PP_size. pose proof MAXP_val.
      unfold ent_ok, e'. cbn [e_pg e_blob e_vals]. rewrite count_page_raw, is_raw_page_raw.
      cbn [p_bytes p_values page_raw]. rewrite !len_app.
      repeat split; auto; try lia; try discriminate.
      - unfold two32. rewrite <- E1, Eb, len_map, len_values_to_bytes. nia.
      - unfold raw. now rewrite Eb, values_to_bytes_app, map_app. }
    assert (Lend : page_end (e_pg e) = len (s_data s)).
    { rewrite B4, len_app, len_map, len_header_to_bytes, blobs_app, len_app, blobs_single.
      unfold page_end. rewrite Hst, <- E1. unfold ends. lia. }
    unfold write_fast in HW. fold raw in HW. cbn [s_data set_pushed] in HW.
    unfold r_truncate_write in HW. rewrite Lend in HW.
    rewrite N.ltb_irrefl in HW.
    destruct (MAX_RESERVED_SIZE <? len (s_data s) + len raw) eqn:EM;
      cbn [lift_r] in HW; [inversion HW; now left|].
    rewrite take_all in HW by lia.
    cbn [s_pg set_data set_pushed] in HW.
    unfold pages_truncate, pages_checked_push in HW. cbn [pg_vec pg_change_at pg_disk] in HW.
    rewrite B10, pgs_app, take_app_exact in HW by (now rewrite pgs_len).
    rewrite pgs_len, N.eqb_refl in HW. cbn [negb] in HW.
    rewrite Hca in HW. cbn [set_changed_at] in HW. rewrite N.ltb_irrefl in HW.
    rewrite B6 in HW.
    change [page_raw (p_start (e_pg e)) (p_bytes (e_pg e) + len raw) (len (e_vals e) + len (s_pushed s))]
      with (pgs [e']) in HW.
    destruct (pages_flush _) as [p3 rf] eqn:EF in HW.
    destruct (flush_ok (kept ++ [e]) kept [e'] p3 rf ltac:(eauto) EF) as [->|[-> ->]];
      [inversion HW; now left|].
    inversion HW; subst s' r. right. exists (kept ++ [e']).
    assert (Hv : vals (kept ++ [e']) = vals kept ++ e_vals e ++ s_pushed s).
    { now rewrite vals_app, vals_single. }
    split; [reflexivity|].
    split; [|cbn [s_stored_len s_pushed s_hdr s_hdr_mod set_pg set_stored_len set_data set_pushed];
             repeat split; auto].
    - unfold InvG. cbn [s_hdr s_hdr_mod s_data s_pg s_stored_len set_pg set_stored_len set_data set_pushed
                        pg_vec pg_disk pg_change_at].
      repeat split; auto; try apply B1.
      all: try (rewrite B4, !blobs_app, !blobs_single; unfold e'; cbn [e_blob]; now rewrite <- !app_assoc).
      all: try (rewrite len_app; apply N.ltb_ge in EM; lia).
      all: try (apply chain_app; split; [now auto|]; cbn [chain]; split; [exact Hst|exact I]).
      all: try (apply Forall_app; split; [now auto|]; constructor; [exact He'|constructor]).
      all: try (apply nlf_app; [now auto|apply nlf_single]).
      all: try (left; split; reflexivity).
      rewrite Hv, !len_app, (vals_allfull kept Hkf). lia.
    - rewrite Hv. unfold view. rewrite take_all.
      + now rewrite vals_app, vals_single, <- app_assoc.
      + rewrite vals_app, vals_single, len_app, (vals_allfull kept Hkf). lia.
    - rewrite Hv, !len_app, (vals_allfull kept Hkf). lia.
  Qed.

  (* ---- write() ------------------------------------------------------------------------------------------ *)
  Notation cv_write := (cv_write T size enc dec compress decompress).

  Definition wpost (s : cvs) (ents mem : list ent) (s' : cvs) (r : res cverr bool) : Prop :=
    r = Panic \/
    (r = Ok false /\ InvG s' (s_hdr s) ents mem /\ s_hdr_mod s' = false /\
       s_pushed s = [] /\ s_stored_len s = len (vals mem) /\ mem = ents /\
       s_pushed s' = [] /\ s_stored_len s' = s_stored_len s /\ s_hdr s' = s_hdr s /\ s_pg s' = s_pg s) \/
    (exists ents', r = Ok true /\ InvG s' (s_hdr s) ents' ents' /\ vals ents' = view s mem /\
       s_stored_len s' = len (vals ents') /\ s_pushed s' = [] /\ s_hdr s' = s_hdr s /\ s_hdr_mod s' = false).

  Lemma write_ok s hd ents mem hints s' r :
    InvG s hd ents mem -> cv_write s hints = (s', r) -> wpost s ents mem s' r.
  Proof.
    intros HI HW.
    destruct (write_header_ok s hd ents mem HI) as (s1 & hd1 & E1 & HI1 & Hm1 & Hh1 & Hp1 & Hsl1 & Hpu1 & Hhd1).
    unfold CvModel.cv_write in HW. rewrite E1 in HW.
    destruct (mem_wf _ _ _ _ HI1) as (Mc & Mo & Mn).
    pose proof HI1 as (B1 & B2 & B3 & B4 & B5 & B6 & B7 & B8 & B9 & B10 & B11 & B12).
    assert (Hview : view s1 mem = view s mem) by (unfold view; now rewrite Hsl1, Hpu1).
    assert (Post : forall s' r, post s1 mem s' r -> wpost s ents mem s' r).
    { intros s2 r2 [->|(ents' & -> & P1 & P2 & P3 & P4 & P5 & P6)]; [now left|right; right].
      exists ents'. rewrite <- Hh1, <- Hview. split; [reflexivity|]. split; [exact P1|]. split; [exact P2|]. tauto. }
    rewrite B10 in HW.
    destruct (plan_spec mem (pages_has_changes (s_pg s1)) (s_stored_len s1) (len (s_pushed s1)) Mc Mo Mn B12)
      as [(P & Hpl & Hsl & Hhc)|(kept & rest & partial & P & Hmem & Hkf & Hlk & Hcase)]; rewrite P in HW.
    - inversion HW; subst s' r. right; left.
      apply len_0_nil in Hpl. subst hd1.
      assert (Hme : mem = ents).
      { unfold pages_has_changes in Hhc. destruct B11 as [[_ ?]|[Hc0 _]]; [auto|]. rewrite Hc0 in Hhc. discriminate. }
      split; [reflexivity|]. split; [exact HI1|]. repeat split; congruence.
    - pose proof PP_pos as Hpp.
      pose proof (N.div_mod (s_stored_len s1) PP ltac:(lia)) as Hdm.
      destruct Hcase as [(-> & Hmod & Hrest)|(e & rest' & -> & -> & Hmod & Hle)].
      + cbn [fast_path] in HW. apply Post.
        eapply (write_slow_ok s1 hd1 ents mem kept rest []); eauto.
        * rewrite len_nil. nia.
        * rewrite app_nil_r, Hmem, vals_app. apply take_app_exact.
          rewrite (vals_allfull kept Hkf). nia.
      + assert (Hents : ents = mem).
        { destruct B11 as [[_ ?]|[_ Hm0]]; [auto|]. rewrite Hm0 in Hmem. destruct kept; discriminate. }
        assert (Oe : ent_ok e).
        { rewrite Hmem in Mo. apply Forall_app in Mo as [_ Mo]. now inversion Mo. }
        destruct (fast_path size (Some (e_pg e, s_stored_len s1 mod PP)) (len (s_pushed s1))) as [[pg pl0]|] eqn:F.
        * unfold fast_path in F.
          destruct (page_is_raw (e_pg e) && (s_stored_len s1 mod PP =? page_values_count (e_pg e)) &&
                    (s_stored_len s1 mod PP + len (s_pushed s1) <? PP)) eqn:C; [|discriminate].
          inversion F; subst pg pl0. clear F.
          apply andb_true_iff in C as [C C3]. apply andb_true_iff in C as [C1 C2].
          pose proof Oe as (_ & Ecnt & _ & _ & _ & Er & _). destruct (Er C1) as (Elt & _).
          assert (rest' = []).
          { destruct rest' as [|e2 r2]; [reflexivity|exfalso].
            assert (Hf : allfull (kept ++ [e])).
            { apply (Mn (kept ++ [e]) (e2 :: r2)); [|discriminate]. rewrite Hmem. now rewrite <- app_assoc. }
            apply allfull_app in Hf as [_ Hf]. inversion Hf as [|? ? Hfe _]. lia. }
          subst rest'. rewrite Ecnt in C2. apply N.eqb_eq in C2. rewrite C2 in HW, C3.
          apply Post. eapply (write_fast_ok s1 hd1 ents mem kept e); eauto.
          -- nia.
          -- lia.
        * rewrite B4, Hents, Hmem in HW.
          rewrite page_data_ent in HW;
            [|now rewrite len_map, len_header_to_bytes|now rewrite <- Hmem|exact Oe].
          rewrite (decode_ent e Oe) in HW. cbn [bind] in HW. apply Post.
          eapply (write_slow_ok s1 hd1 ents mem kept (e :: rest') (take (s_stored_len s1 mod PP) (e_vals e))); eauto.
          -- rewrite len_take. nia.
          -- rewrite Hmem, vals_app. change (e :: rest') with ([e] ++ rest'). rewrite vals_app, vals_single.
             rewrite take_app_ge by (rewrite (vals_allfull kept Hkf); nia).
             f_equal. rewrite (vals_allfull kept Hkf).
             replace (s_stored_len s1 - len kept * PP) with (s_stored_len s1 mod PP) by nia.
             now apply take_app_le.
  Qed.

  (* ---- collect_stored_range (mod.rs:220) returns the stored slice ---------------------------------------- *)
  Lemma vals_nil' : vals [] = [].
  Proof. reflexivity. Qed.
  Lemma slice_nil {A} a b : slice a b (@nil A) = [].
  Proof. unfold slice, take, drop. now rewrite skipn_nil, firstn_nil. Qed.
  Lemma drop_app_split {A} k (a b : list A) : drop k (a ++ b) = drop k a ++ drop (k - len a) b.
  Proof. unfold drop, len. rewrite skipn_app. f_equal. f_equal. lia. Qed.
  Lemma take_app_split' {A} k (a b : list A) : take k (a ++ b) = take k a ++ take (k - len a) b.
  Proof. unfold take, len. rewrite firstn_app. f_equal. f_equal. lia. Qed.
  Lemma slice_app {A} a b (x y : list A) :
    slice a b (x ++ y) = slice a b x ++ slice (a - len x) (b - len x) y.
  Proof.
    unfold slice. rewrite drop_app_split, take_app_split'. f_equal. f_equal.
    rewrite len_drop. lia.
  Qed.
  Lemma slice_min {A} a b (x : list A) : slice a (N.min b (len x)) x = slice a b x.
  Proof.
    unfold slice. destruct (N.le_gt_cases b (len x)); [now rewrite N.min_l by lia|].
    rewrite N.min_r by lia. rewrite !take_all; auto; rewrite len_drop; lia.
  Qed.

  Lemma csr_pages_spec hb mem from to :
    len hb = HEADER_OFFSET -> chain HEADER_OFFSET mem -> Forall ent_ok mem -> nlf mem ->
    to <= len (vals mem) -> from <= to ->
    forall n done todo, mem = done ++ todo -> allfull done -> N.of_nat n <= len todo ->
    (n <> O -> (len done + N.of_nat n - 1) * PP < to) -> from < len done * PP + PP ->
    (forall e t, todo = e :: t -> from - len done * PP <= len (e_vals e)) ->
    csr_pages T size dec decompress (pgs mem) (hb ++ blobs mem) (len (vals mem)) from to (seqN (len done) n) =
      Ok (slice (from - len done * PP) (to - len done * PP) (vals (take (N.of_nat n) todo))).
  Proof.
    intros Hh Hc Ho Hn Hto Hft. induction n as [|n IH]; intros done todo Hm Hd Hle Hlt Hfr Hfe.
    - cbn [seqN csr_pages]. now rewrite take_0, vals_nil', slice_nil.
    - destruct todo as [|e todo']; [rewrite len_nil in Hle; lia|].
      cbn [seqN csr_pages].
      replace (len (vals mem) <=? len done * PP) with false
        by (symmetry; apply N.leb_gt; specialize (Hlt ltac:(discriminate)); nia).
      assert (G : get (pgs mem) (len done) = Some (e_pg e)).
      { rewrite Hm, pgs_app, get_app_r by (rewrite pgs_len; lia).
        rewrite pgs_len, N.sub_diag. reflexivity. }
      rewrite G.
      assert (Oe : ent_ok e).
      { rewrite Hm in Ho. apply Forall_app in Ho as [_ Ho]. now inversion Ho. }
      assert (PD : page_data (hb ++ blobs mem) (e_pg e) = e_blob e).
      { rewrite Hm. apply page_data_ent; [exact Hh|now rewrite <- Hm|exact Oe]. }
      rewrite PD, (decode_ent e Oe). cbn [bind].
      specialize (Hfe e todo' eq_refl). specialize (Hlt ltac:(discriminate)).
      assert (Hlt0 : len done * PP < to) by nia.
      replace (N.min (to - len done * PP) (len (e_vals e)) <? from - len done * PP) with false
        by (symmetry; apply N.ltb_ge; lia).
      replace (take (N.of_nat (S n)) (e :: todo')) with (e :: take (N.of_nat n) todo').
      2:{ unfold take. rewrite !Nat2N.id. reflexivity. }
      change (e :: take (N.of_nat n) todo') with ([e] ++ take (N.of_nat n) todo').
      rewrite vals_app, vals_single, slice_app, slice_min.
      destruct n as [|n'].
      + cbn [seqN csr_pages bind]. now rewrite take_0, vals_nil', slice_nil.
      + assert (Hne : todo' <> []).
        { intros ->. rewrite len_cons, len_nil in Hle. lia. }
        assert (Hfull : allfull (done ++ [e])).
        { apply (Hn (done ++ [e]) todo'); [|exact Hne]. rewrite Hm. now rewrite <- app_assoc. }
        pose proof Hfull as Hfull'. apply allfull_app in Hfull' as [_ Hfe1]. inversion Hfe1 as [|? ? Hpp _].
        specialize (IH (done ++ [e]) todo').
        rewrite len_app, len_cons, len_nil in IH. replace (len done + (1 + 0)) with (len done + 1) in IH by lia.
        rewrite IH; [|rewrite Hm; now rewrite <- app_assoc|exact Hfull|rewrite len_cons in Hle; lia| | |].
        * cbn [bind]. f_equal. f_equal. f_equal; lia.
        * intros _. nia.
        * nia.
        * intros e2 t2 _. nia.
  Qed.

  Lemma slice_empty {A} a b (l : list A) : b <= a -> slice a b l = [].
  Proof. intros. unfold slice. replace (b - a) with 0 by lia. apply take_0. Qed.

  Lemma InvG_same s s' hd ents mem :
    s_hdr s' = s_hdr s -> s_hdr_mod s' = s_hdr_mod s -> s_data s' = s_data s -> s_pg s' = s_pg s ->
    s_stored_len s' = s_stored_len s -> InvG s hd ents mem -> InvG s' hd ents mem.
  Proof. unfold InvG. intros -> -> -> -> ->. auto. Qed.

  Lemma real_stored_len_mem s hd ents mem : InvG s hd ents mem ->
    real_stored_len T size s = len (vals mem).
  Proof.
    intros HI. destruct (mem_wf _ _ _ _ HI) as (_ & Mo & Mn).
    pose proof HI as (_ & _ & _ & _ & _ & _ & _ & _ & _ & B10 & _).
    unfold real_stored_len. rewrite B10. now apply stored_len_pgs.
  Qed.

  Lemma csr_spec s hd ents mem from to : InvG s hd ents mem ->
    collect_stored_range T size dec decompress s from to =
      Ok (slice from (N.min to (len (vals mem))) (vals mem)).
  Proof.
    intros HI. destruct (mem_wf _ _ _ _ HI) as (Mc & Mo & Mn).
    pose proof HI as (B1 & B2 & B3 & B4 & B5 & B6 & B7 & B8 & B9 & B10 & B11 & B12).
    unfold collect_stored_range. rewrite (real_stored_len_mem _ _ _ _ HI).
    destruct (to <=? from) eqn:E1.
    { apply N.leb_le in E1. now rewrite slice_empty by lia. }
    apply N.leb_gt in E1.
    remember (N.min to (len (vals mem))) as to' eqn:Eto'.
    destruct (to' <=? from) eqn:E2.
    { apply N.leb_le in E2. now rewrite slice_empty by lia. }
    apply N.leb_gt in E2.
    assert (Hto' : to' <= len (vals mem)) by (rewrite Eto'; lia).
    assert (Hme : mem = ents).
    { destruct B11 as [[_ ?]|[_ Hm0]]; [auto|]. rewrite Hm0, vals_nil', len_nil in Hto'. lia. }
    pose proof PP_pos as Hpp. pose proof (vals_le mem Mo) as Hvl.
    pose proof (N.div_mod from PP ltac:(lia)) as D1. pose proof (N.mod_lt from PP ltac:(lia)) as D2.
    pose proof (N.div_mod (to' - 1) PP ltac:(lia)) as D3. pose proof (N.mod_lt (to' - 1) PP ltac:(lia)) as D4.
    remember (from / PP) as sp eqn:Esp. remember ((to' - 1) / PP) as ep eqn:Eep.
    remember (from mod PP) as r1 eqn:Er1. remember ((to' - 1) mod PP) as r2 eqn:Er2.
    remember (len (vals mem)) as V eqn:EV. remember (len mem) as L eqn:EL.
    assert (Hsp : sp < L) by (clear - D1 D2 E2 Hto' Hvl Hpp; nia).
    assert (Hep : ep < L) by (clear - D3 D4 E2 Hto' Hvl Hpp; nia).
    assert (Hse : sp <= ep) by (clear - D1 D2 D3 D4 E2 Hpp; nia).
    assert (A1 : sp * PP <= from) by (clear - D1; nia).
    assert (A2 : from < sp * PP + PP) by (clear - D1 D2; nia).
    assert (A3 : ep * PP < to') by (clear - D3 E2; nia).
    assert (A4 : to' <= (ep + 1) * PP) by (clear - D3 D4 E2; nia).
    subst V L. clear Esp Eep Er1 Er2 D1 D2 D3 D4 r1 r2 Eto' E1.
    assert (Hs : mem = take sp mem ++ drop sp mem) by (symmetry; apply take_drop).
    remember (take sp mem) as done eqn:Ed. remember (drop sp mem) as todo eqn:Et.
    assert (Ld : len done = sp) by (rewrite Ed, len_take; lia).
    assert (Lt : len todo = len mem - sp) by (rewrite Et; apply len_drop).
    assert (Htn : todo <> []) by (intros ->; rewrite len_nil in Lt; lia).
    assert (Hdf : allfull done) by (eapply Mn; [exact Hs|exact Htn]).
    rewrite B10, B4, <- Hme, <- Ld.
    rewrite (csr_pages_spec (map CB (header_to_bytes hd)) mem from to'
               ltac:(now rewrite len_map, len_header_to_bytes) Mc Mo Mn Hto' ltac:(lia)
               (N.to_nat (ep + 1 - len done)) done todo Hs Hdf).
    - rewrite N2Nat.id, Ld. f_equal.
      rewrite Hs. rewrite vals_app, slice_app_r by (rewrite (vals_allfull done Hdf), Ld; exact A1).
      rewrite (vals_allfull done Hdf), Ld.
      rewrite <- (take_drop (ep + 1 - sp) todo) at 2. rewrite vals_app.
      symmetry. apply slice_app_l.
      destruct (N.eq_dec (ep + 1 - sp) (len todo)) as [Heq|Hneq].
      + rewrite take_all by lia. rewrite Hs, vals_app, len_app, (vals_allfull done Hdf) in Hto'. lia.
      + assert (Hf : allfull (take (ep + 1 - sp) todo)).
        { apply (nlf_suffix done todo ltac:(rewrite <- Hs; exact Mn) (take (ep + 1 - sp) todo) (drop (ep + 1 - sp) todo));
            [symmetry; apply take_drop|].
          intros Hd0. apply (f_equal len) in Hd0. rewrite len_drop, len_nil in Hd0. lia. }
        rewrite (vals_allfull _ Hf), len_take, N.min_l by lia.
        clear - A4 Hse. nia.
    - rewrite N2Nat.id. lia.
    - intros _. rewrite N2Nat.id, Ld. replace (sp + (ep + 1 - sp) - 1) with ep by lia. exact A3.
    - rewrite Ld. exact A2.
    - intros e t Het.
      assert (Oe : ent_ok e).
      { rewrite Hs, Het in Mo. apply Forall_app in Mo as [_ Mo]. now inversion Mo. }
      destruct t as [|e2 t2].
      + rewrite Hs, Het, vals_app, len_app, (vals_allfull done Hdf), vals_single, Ld in Hto'. lia.
      + assert (Hf : allfull (done ++ [e])).
        { apply (Mn (done ++ [e]) (e2 :: t2)); [|discriminate]. rewrite Hs, Het. now rewrite <- app_assoc. }
        apply allfull_app in Hf as [_ Hf]. inversion Hf as [|? ? Hpe _]. rewrite Ld. lia.
  Qed.

  (* ---- serialize_changes never fails on a well-formed vector ---------------------------------------------- *)
  Definition ser_tv (s : cvs) (mem : list ent) : list T :=
    if 0 <? s_prev_stored_len s - s_stored_len s
    then slice (s_stored_len s) (N.min (s_prev_stored_len s) (len (vals mem))) (vals mem) else [].
  Definition ser_bytes (s : cvs) (tv : list T) : list N :=
    u64b (cv_stamp s) ++ u64b (s_prev_stored_len s) ++ u64b (s_stored_len s)
    ++ u64b (s_prev_stored_len s - s_stored_len s) ++ values_to_bytes tv
    ++ u64b (len (s_prev_pushed s)) ++ values_to_bytes (s_prev_pushed s)
    ++ u64b (len (s_pushed s)) ++ values_to_bytes (s_pushed s).

  Lemma serialize_eq s hd ents mem : InvG s hd ents mem ->
    serialize_changes T size enc dec decompress s = Ok (ser_bytes s (ser_tv s mem)).
  Proof.
    intros HI. unfold serialize_changes, ser_tv.
    destruct (0 <? s_prev_stored_len s - s_stored_len s).
    - rewrite (csr_spec _ _ _ _ _ _ HI). reflexivity.
    - reflexivity.
  Qed.

  (* ---- the reference vector (SPEC) and the refinement relation ------------------------------------------ *)
  Notation op := (op T).
  Notation cv_step := (cv_step T size enc dec compress decompress fmt vver).
  Notation cv_run := (cv_run T size enc dec compress decompress fmt vver).

  Record spec := mkSpec { a_cur : list T; a_stamp : N; a_saved : list T; a_saved_stamp : N }.

  Definition spec_step (a : spec) (o : op) : spec :=
    match o with
    | Push vs => mkSpec (a_cur a ++ vs) (a_stamp a) (a_saved a) (a_saved_stamp a)
    | Trunc n => mkSpec (if n <? len (a_cur a) then take n (a_cur a) else a_cur a) (a_stamp a) (a_saved a) (a_saved_stamp a)
    | Write _ | Flush _ => mkSpec (a_cur a) (a_stamp a) (a_cur a) (a_stamp a)
    | Reset => mkSpec [] 0 (a_saved a) (a_saved_stamp a)
    | Reimport => mkSpec (a_saved a) (a_saved_stamp a) (a_saved a) (a_saved_stamp a)
    | StampedWrite st _ => mkSpec (a_cur a) st (a_cur a) st
    | Rollback | RollbackBefore _ => a        (* not part of this reference: see the C04 section below *)
    end.
  Definition spec_run (a : spec) (h : list op) : spec := fold_left spec_step h a.
  Definition spec_init : spec := mkSpec [] 0 [] 0.

  (* histories of C03/C07: every operation but the rollbacks (those are C04, below) *)
  Definition op_ok (o : op) : Prop :=
    match o with StampedWrite st _ => st < two64 | Rollback | RollbackBefore _ => False | _ => True end.

  Definition RG (s : cvs) (a : spec) hd ents mem : Prop :=
    InvG s hd ents mem /\ a_cur a = view s mem /\ a_stamp a = h_stamp (s_hdr s) /\
    a_saved a = vals ents /\ a_saved_stamp a = h_stamp hd.
  Definition R (s : cvs) (a : spec) : Prop := exists hd ents mem, RG s a hd ents mem.

  Lemma RG_same s s' a hd ents mem :
    s_hdr s' = s_hdr s -> s_hdr_mod s' = s_hdr_mod s -> s_data s' = s_data s -> s_pg s' = s_pg s ->
    s_stored_len s' = s_stored_len s -> s_pushed s' = s_pushed s -> RG s a hd ents mem -> RG s' a hd ents mem.
  Proof.
    intros E1 E2 E3 E4 E5 E6 (HI & R1 & R2 & R3 & R4).
    split; [eapply InvG_same; eauto|]. unfold view. rewrite E1, E5, E6. auto.
  Qed.

  Lemma take_take {A} n m (l : list A) : n <= m -> take n (take m l) = take n l.
  Proof. intros. unfold take. rewrite firstn_firstn. f_equal. lia. Qed.

  Lemma view_len s hd ents mem : InvG s hd ents mem -> len (view s mem) = s_stored_len s + len (s_pushed s).
  Proof.
    intros (_ & _ & _ & _ & _ & _ & _ & _ & _ & _ & _ & H). unfold view. rewrite len_app, len_take. lia.
  Qed.

  Lemma hdr_ok_stamp h st : hdr_ok h -> st < two64 ->
    hdr_ok (mkHeader (h_hv h) (h_vv h) (h_cv h) st (h_format h)).
  Proof.
    intros (V & H1 & H2 & H3) Hst. unfold hdr_ok. cbn [h_hv h_vv h_format]. repeat split; auto.
    unfold valid_header in *. cbn [h_hv h_vv h_cv h_stamp h_format].
    rewrite !andb_true_iff in *. destruct V as ((((V1 & V2) & V3) & V4) & V5).
    repeat split; auto. apply N.ltb_lt. exact Hst.
  Qed.

  Lemma update_stamp_ok s a hd ents mem st : RG s a hd ents mem -> st < two64 ->
    RG (update_stamp s st) (mkSpec (a_cur a) st (a_saved a) (a_saved_stamp a)) hd ents mem /\ True.
  Proof.
    intros (HI & R1 & R2 & R3 & R4) Hst. unfold update_stamp.
    destruct (h_stamp (s_hdr s) =? st) eqn:E.
    - apply N.eqb_eq in E. split; [|exact I]. split; [exact HI|]. cbn. repeat split; auto.
    - split; [|exact I].
      pose proof HI as (B1 & B2 & B3 & B4 & B5 & B6 & B7 & B8 & B9 & B10 & B11 & B12).
      split; [|cbn; repeat split; auto].
      unfold InvG. cbn [set_hdr s_hdr s_hdr_mod s_data s_pg s_stored_len].
      split; [apply hdr_ok_stamp; auto|]. split; [exact B2|]. split; [discriminate|].
      tauto.
  Qed.

  Lemma ents_nil_of_disk ents : len (encode_pages (pgs ents)) = 0 -> ents = [].
  Proof.
    rewrite len_encode_pages, pgs_len. change SIZE_OF_PAGE with 16. intros H.
    apply len_0_nil. lia.
  Qed.

  Lemma write_R s a hd ents mem hints s' r :
    RG s a hd ents mem -> cv_write s hints = (s', r) ->
    r = Panic \/ exists b, r = Ok b /\ R s' (mkSpec (a_cur a) (a_stamp a) (a_cur a) (a_stamp a)).
  Proof.
    intros (HI & R1 & R2 & R3 & R4) HW.
    destruct (write_ok _ _ _ _ _ _ _ HI HW) as [->|[(-> & I' & W1 & W2 & W3 & Wme & W4 & W5 & W6 & W7)|(ents' & -> & I' & W1 & W2 & W3 & W4 & W5)]];
      [now left|right; exists false|right; exists true].
    - split; [reflexivity|].
      exists (s_hdr s), ents, mem. split; [exact I'|]. cbn [a_cur a_stamp a_saved a_saved_stamp].
      assert (Hv : view s' mem = view s mem) by (unfold view; now rewrite W4, W5, W2).
      repeat split; try congruence.
      rewrite R1. unfold view. rewrite W2, W3, app_nil_r, take_all by lia. now rewrite Wme.
    - split; [reflexivity|].
      exists (s_hdr s), ents', ents'. split; [exact I'|]. cbn [a_cur a_stamp a_saved a_saved_stamp].
      assert (Hv : view s' ents' = vals ents').
      { unfold view. rewrite W2, W3, app_nil_r. apply take_all. lia. }
      repeat split; try congruence.
  Qed.

  Lemma step_R s a o s' r :
    R s a -> op_ok o -> cv_step s o = (s', r) ->
    r = Panic \/ exists b, r = Ok b /\ R s' (spec_step a o).
  Proof.
    intros (hd & ents & mem & HR) Hok HS. pose proof HR as (HI & R1 & R2 & R3 & R4).
    pose proof HI as (B1 & B2 & B3 & B4 & B5 & B6 & B7 & B8 & B9 & B10 & B11 & B12).
    destruct o as [vs|n|hints|hints| | |st hints| |st]; cbn [CvModel.cv_step] in HS; try (now destruct Hok).
    - (* Push *)
      inversion HS; subst s' r. right. exists false.
      assert (I' : InvG (set_pushed s (s_pushed s ++ vs)) hd ents mem) by exact HI.
      split; [reflexivity|].
      exists hd, ents, mem. split; [exact I'|]. cbn [spec_step a_cur a_stamp a_saved a_saved_stamp].
      repeat split; auto. rewrite R1. unfold view. cbn. now rewrite app_assoc.
    - (* Trunc *)
      inversion HS; subst s' r. right. exists false. split; [reflexivity|].
      assert (G : exists s2, s2 = cv_truncate s n /\ InvG s2 hd ents mem /\ s_hdr s2 = s_hdr s /\
                  view s2 mem = if n <? len (view s mem) then take n (view s mem) else view s mem).
      { eexists. split; [reflexivity|]. unfold cv_truncate.
        rewrite (view_len _ _ _ _ HI).
        destruct (s_stored_len s + len (s_pushed s) <=? n) eqn:E1.
        - replace (n <? s_stored_len s + len (s_pushed s)) with false by (symmetry; apply N.ltb_ge; lia).
          auto.
        - replace (n <? s_stored_len s + len (s_pushed s)) with true by (symmetry; apply N.ltb_lt; lia).
          destruct (n <=? s_stored_len s) eqn:E2.
          + destruct (n <? s_stored_len s) eqn:E3.
            * split; [|split; [reflexivity|]].
              -- unfold InvG. cbn. repeat split; auto; try apply B1; try apply B2. lia.
              -- unfold view. cbn. rewrite app_nil_r.
                 rewrite take_app_le by (rewrite len_take; lia). apply eq_sym, take_take. lia.
            * split; [|split; [reflexivity|]].
              -- exact HI.
              -- unfold view. cbn. rewrite app_nil_r. symmetry. apply take_app_exact.
                 rewrite len_take. lia.
          + replace (n <? s_stored_len s) with false by (symmetry; apply N.ltb_ge; lia).
            split; [|split; [reflexivity|]].
            * exact HI.
            * unfold view. cbn. rewrite take_app_ge by (rewrite len_take; lia).
              rewrite len_take. f_equal. f_equal. lia. }
      destruct G as (s2 & <- & I' & Hh & Hv).
      exists hd, ents, mem. split; [exact I'|]. cbn [spec_step a_cur a_stamp a_saved a_saved_stamp].
      rewrite R1, Hh. repeat split; auto.
    - (* Write *)
      destruct (write_R _ _ _ _ _ _ _ _ HR HS) as [->|(b & -> & W)]; [now left|right].
      exists b. split; [reflexivity|exact W].
    - (* Flush *)
      destruct (write_R _ _ _ _ _ _ _ _ HR HS) as [->|(b & -> & W)]; [now left|right].
      exists b. split; [reflexivity|exact W].
    - (* Reset *)
      inversion HS; subst s' r. right. exists false. split; [reflexivity|].
      assert (G : InvG (cv_reset s) hd ents [] /\ h_stamp (s_hdr (cv_reset s)) = 0 /\ view (cv_reset s) [] = []).
      { unfold cv_reset, update_stamp.
        set (s3 := mkCvs _ _ _ _ 0 [] [] 0 _ _).
        assert (D : s_data s3 = s_data s /\ s_hdr s3 = s_hdr s /\ s_hdr_mod s3 = s_hdr_mod s /\
                    pg_disk (s_pg s3) = pg_disk (s_pg s) /\ pg_vec (s_pg s3) = [] /\
                    pg_change_at (s_pg s3) = Some 0).
        { subst s3. unfold cv_truncate, pages_reset, pages_truncate.
          cbn [s_stored_len s_pushed set_pg s_pg s_data s_hdr s_hdr_mod pg_vec pg_disk pg_change_at].
          assert (C : set_changed_at (pg_change_at (s_pg s)) 0 = Some 0).
          { destruct B11 as [[-> _]|[-> _]]; reflexivity. }
          destruct (_ <=? 0); [|destruct (0 <=? _); destruct (0 <? _)]; cbn; rewrite C; repeat split; reflexivity. }
        destruct D as (D1 & D2 & D3 & D4 & D5 & D6).
        assert (I3 : InvG s3 hd ents []).
        { unfold InvG. rewrite D1, D2, D3, D4, D5, D6. subst s3. cbn [s_stored_len].
          repeat split; auto; try apply B1; try apply B2. lia. }
        destruct (h_stamp (s_hdr s3) =? 0) eqn:E.
        - apply N.eqb_eq in E. split; [exact I3|]. split; [exact E|]. reflexivity.
        - split; [|split; reflexivity].
          pose proof I3 as (C1 & C2 & C3 & C4 & C5 & C6 & C7 & C8 & C9 & C10 & C11 & C12).
          unfold InvG. cbn [set_hdr s_hdr s_hdr_mod s_data s_pg s_stored_len].
          split; [apply hdr_ok_stamp; [auto|reflexivity]|]. split; [exact C2|]. split; [discriminate|].
          tauto. }
      destruct G as (I' & G2 & G3).
      exists hd, ents, []. split; [exact I'|]. cbn [spec_step a_cur a_stamp a_saved a_saved_stamp].
      repeat split; auto.
    - (* Reimport *)
      assert (Himp : cv_import T size fmt vver (s_data s) (pg_disk (s_pg s)) =
                     Ok (mkCvs hd false (s_data s) (mkPages (pgs ents) None (pg_disk (s_pg s)))
                               (len (vals ents)) [] [] (len (vals ents)) 0 None)).
      { unfold cv_import.
        assert (L : len (s_data s) = HEADER_OFFSET + len (blobs ents))
          by (rewrite B4, len_app, len_map, len_header_to_bytes; reflexivity).
        replace (len (s_data s) <? HEADER_OFFSET) with false by (symmetry; apply N.ltb_ge; lia).
        rewrite andb_false_r.
        replace (len (s_data s) =? 0) with false by (symmetry; apply N.eqb_neq; change HEADER_OFFSET with 32 in L; lia).
        rewrite B4 at 1. rewrite take_app_exact by (now rewrite len_map, len_header_to_bytes).
        rewrite map_cell_byte_CB. destruct B2 as (V & H1 & H2 & H3).
        rewrite header_roundtrip by exact V. cbn [lift_v bind].
        rewrite H1, H2, H3, !N.eqb_refl. cbn [negb bind].
        unfold pages_import. rewrite B6, decode_encode_pages.
        - cbn [bind pg_vec]. rewrite stored_len_pgs by auto. now rewrite <- B6.
        - apply Forall_forall. intros p Hp. apply in_map_iff in Hp as (e & <- & He).
          apply ent_ok_valid; [eapply Forall_forall; eauto|].
          pose proof (chain_start_le _ _ B7) as Hle. eapply Forall_forall in Hle; [|exact He].
          cbn beta in Hle. rewrite L in B5. unfold ends in Hle.
          assert (MAX_RESERVED_SIZE < two64) by reflexivity. lia. }
      unfold cv_import_k in HS. rewrite Himp in HS. cbn [bind] in HS.
      inversion HS; subst s' r. right. exists false. split; [reflexivity|].
      assert (I' : InvG (set_roll (mkCvs hd false (s_data s) (mkPages (pgs ents) None (pg_disk (s_pg s)))
                               (len (vals ents)) [] [] (len (vals ents)) 0 None) (s_ssc s) (s_changes s)) hd ents ents).
      { unfold InvG. cbn [set_roll s_hdr s_hdr_mod s_data s_pg s_stored_len pg_vec pg_disk pg_change_at].
        repeat split; auto; try apply B2. lia. }
      exists hd, ents, ents. split; [exact I'|]. cbn [spec_step a_cur a_stamp a_saved a_saved_stamp].
      repeat split; auto.
      unfold view. cbn. rewrite app_nil_r, take_all by lia. exact R3.
    - (* StampedWrite = stamped_write_with_changes *)
      cbn [op_ok] in Hok. unfold cv_commit in HS.
      destruct (s_ssc s =? 0).
      + destruct (update_stamp_ok s a hd ents mem st HR Hok) as (HR' & Hst).
        destruct (write_R _ _ _ _ _ _ _ _ HR' HS) as [->|(b & -> & W)]; [now left|right].
        exists b. split; [reflexivity|exact W].
      + rewrite (serialize_eq _ _ _ _ HI) in HS.
        set (s1 := set_roll s (s_ssc s) _) in HS.
        assert (HR1 : RG s1 a hd ents mem) by (eapply RG_same; [..|exact HR]; reflexivity).
        destruct (update_stamp_ok s1 a hd ents mem st HR1 Hok) as (HR' & Hst).
        destruct (cv_write (update_stamp s1 st) hints) as [s2 r2] eqn:EW.
        destruct (write_R _ _ _ _ _ _ _ _ HR' EW) as [->|(b & -> & (hd2 & ents2 & mem2 & W))].
        * inversion HS. now left.
        * inversion HS; subst s' r. right. exists b. split; [reflexivity|].
          exists hd2, ents2, mem2. eapply RG_same; [..|exact W]; reflexivity.
  Qed.

  (* ---- all histories ------------------------------------------------------------------------------------ *)
  (* Panic is reachable only through the 1 TiB limit of a rawdb region (CvRegion.v); a history is
     followed as long as no step panicked. *)
  Fixpoint no_panic (s : cvs) (h : list op) : Prop :=
    match h with
    | [] => True
    | o :: t => snd (cv_step s o) <> Panic /\ no_panic (fst (cv_step s o)) t
    end.
  Fixpoint steps_ok (s : cvs) (h : list op) : Prop :=
    match h with
    | [] => True
    | o :: t => (exists b, snd (cv_step s o) = Ok b) /\ steps_ok (fst (cv_step s o)) t
    end.

  Lemma Inv_R s : Inv s -> exists a, R s a.
  Proof.
    intros (hd & ents & mem & HI).
    exists (mkSpec (view s mem) (h_stamp (s_hdr s)) (vals ents) (h_stamp hd)), hd, ents, mem.
    split; [exact HI|]. cbn. repeat split; reflexivity.
  Qed.
  Lemma R_Inv s a : R s a -> Inv s.
  Proof. intros (hd & ents & mem & HI & _). now exists hd, ents, mem. Qed.

  Lemma init_R s0 : cv_import T size fmt vver [] [] = Ok s0 -> R s0 spec_init.
  Proof.
    unfold cv_import. change (len (@nil cell)) with 0.
    change ((0 <? 0) && (0 <? HEADER_OFFSET)) with false. cbv iota.
    change (0 =? 0) with true. cbv iota.
    unfold r_write_at. change (len (@nil cell)) with 0. rewrite len_map, len_header_to_bytes.
    change (0 <? 0) with false. cbv iota.
    change (MAX_RESERVED_SIZE <? N.max (0 + HEADER_OFFSET) 0) with false. cbv iota.
    cbn [lift_r bind]. unfold pages_import, decode_pages. cbn [chunks chunks_f length map collect_res bind].
    intros H. inversion H; subst s0. clear H.
    set (h := mkHeader HEADER_VERSION vver 0 0 fmt).
    assert (Hh : hdr_ok h).
    { unfold hdr_ok, h. cbn [h_hv h_vv h_format]. repeat split; auto.
      unfold valid_header. cbn [h_hv h_vv h_cv h_stamp h_format].
      rewrite fmt_ok, !andb_true_r. rewrite !andb_true_iff, !N.ltb_lt. repeat split; try reflexivity. exact vver_ok. }
    exists h, [], []. unfold RG, InvG, spec_init.
    cbn [s_hdr s_hdr_mod s_data s_pg s_stored_len pg_vec pg_disk pg_change_at a_cur a_stamp a_saved a_saved_stamp].
    repeat split; auto; try apply Hh.
    - rewrite drop_all by (change (len (@nil cell)) with 0; lia).
      rewrite app_nil_r, len_map, len_header_to_bytes. now vm_compute.
    - apply nlf_nil.
    - cbn. lia.
  Qed.

  Lemma run_R : forall h s a, R s a -> Forall op_ok h -> no_panic s h ->
    R (cv_run s h) (spec_run a h) /\ steps_ok s h.
  Proof.
    induction h as [|o t IH]; intros s a HR Hok Hnp; [split; [exact HR|exact I]|].
    inversion Hok as [|? ? Ho Ht]; subst. destruct Hnp as [Hn1 Hn2].
    destruct (cv_step s o) as [s' r] eqn:ES. cbn [fst snd] in *.
    destruct (step_R s a o s' r HR Ho ES) as [->|(b & -> & W)]; [congruence|].
    unfold CvModel.cv_run, spec_run. cbn [fold_left]. rewrite ES. cbn [fst].
    destruct (IH s' (spec_step a o) W Ht Hn2) as [IH1 IH2].
    split; [exact IH1|]. cbn [steps_ok]. rewrite ES. cbn [fst snd]. split; eauto.
  Qed.

  Lemma run_Inv : forall h s, Inv s -> Forall op_ok h -> no_panic s h ->
    Inv (cv_run s h) /\ steps_ok s h.
  Proof.
    induction h as [|o t IH]; intros s HI Hok Hnp; [split; [exact HI|exact I]|].
    inversion Hok as [|? ? Ho Ht]; subst. destruct Hnp as [Hn1 Hn2].
    destruct (Inv_R s HI) as (a & HR).
    destruct (cv_step s o) as [s' r] eqn:ES. cbn [fst snd] in *.
    destruct (step_R s a o s' r HR Ho ES) as [->|(b & -> & W)]; [congruence|].
    unfold CvModel.cv_run. cbn [fold_left]. rewrite ES. cbn [fst].
    destruct (IH s' (R_Inv _ _ W) Ht Hn2) as [IH1 IH2].
    split; [exact IH1|]. cbn [steps_ok]. rewrite ES. cbn [fst snd]. split; eauto.
  Qed.

  (* ---- the property-level reading of the invariant (DESIGN.md C07 PagesInv) ------------------------------ *)
  (* on a decoded page list: gap-free from HEADER_OFFSET, all but the last full and compressed, only the
     last may be raw, a raw page has count*size bytes *)
  Fixpoint pages_chain (st : N) (l : list page) : Prop :=
    match l with
    | [] => True
    | p :: t => p_start p = st /\ pages_chain (page_end p) t
    end.
  Definition PagesInv (s : cvs) : Prop :=
    exists dp,
      decode_pages (pg_disk (s_pg s)) = Ok dp /\                         (* entries decode *)
      pg_disk (s_pg s) = encode_pages dp /\
      pages_chain HEADER_OFFSET dp /\                                       (* gap-free from the header *)
      (forall a p b, dp = a ++ p :: b -> b <> [] ->
         page_values_count p = PP /\ page_is_raw p = false) /\              (* all but the last full, not raw *)
      Forall (fun p => 1 <= page_values_count p <= PP /\
                       (page_is_raw p = true -> p_bytes p = page_values_count p * size)) dp /\
      len (s_data s) = pages_next_start dp /\                               (* data region ends at the last page *)
      (* memory vs disk; change_at <= first index where they differ *)
      ((pg_change_at (s_pg s) = None /\ pg_vec (s_pg s) = dp) \/
       (pg_change_at (s_pg s) = Some 0 /\ pg_vec (s_pg s) = [] /\ s_stored_len s = 0)) /\
      s_stored_len s <= pages_stored_len PP (pg_vec (s_pg s)) /\
      (pg_change_at (s_pg s) = None -> pages_stored_len PP dp = pages_stored_len PP (pg_vec (s_pg s))).

  Lemma pages_chain_pgs st l : chain st l -> Forall ent_ok l -> pages_chain st (pgs l).
  Proof.
    revert st; induction l as [|e l IH]; intros st Hc Ho; [exact I|].
    destruct Hc as [H1 H2]. inversion Ho as [|? ? (Hb & _) Hl].
    cbn [pgs map pages_chain]. split; [exact H1|]. unfold page_end. rewrite H1, <- Hb. now apply IH.
  Qed.

  Lemma Inv_PagesInv s : Inv s -> PagesInv s.
  Proof.
    intros (hd & ents & mem & HI).
    pose proof HI as (B1 & B2 & B3 & B4 & B5 & B6 & B7 & B8 & B9 & B10 & B11 & B12).
    exists (pgs ents).
    assert (Hvalid : Forall (fun p => valid_page p = true) (pgs ents)).
    { apply Forall_forall. intros p Hp. apply in_map_iff in Hp as (e & <- & He).
      apply ent_ok_valid; [eapply Forall_forall; eauto|].
      pose proof (chain_start_le _ _ B7) as Hle. eapply Forall_forall in Hle; [|exact He].
      cbn beta in Hle. rewrite (data_len _ _ _ _ HI) in B5.
      assert (MAX_RESERVED_SIZE < two64) by reflexivity. lia. }
    split; [rewrite B6; now apply decode_encode_pages|].
    split; [exact B6|].
    split; [now apply pages_chain_pgs|].
    split.
    { intros a p b Hd Hb. unfold pgs in Hd. apply map_eq_app in Hd as (ea & eb & -> & <- & Hd).
      apply map_eq_cons in Hd as (e & eb' & -> & <- & <-).
      assert (Hf : allfull (ea ++ [e])).
      { apply (B9 (ea ++ [e]) eb'); [now rewrite <- app_assoc|]. destruct eb'; [cbn in Hb; congruence|discriminate]. }
      apply allfull_app in Hf as [_ Hf]. inversion Hf as [|? ? Hfe _].
      assert (Oe : ent_ok e) by (apply Forall_app in B8 as [_ B8]; now inversion B8).
      destruct Oe as (_ & Hc & _ & _ & _ & Hr & _). split; [congruence|].
      destruct (page_is_raw (e_pg e)) eqn:E; [|reflexivity]. destruct (Hr eq_refl) as (Hlt & _). lia. }
    split.
    { apply Forall_forall. intros p Hp. apply in_map_iff in Hp as (e & <- & He).
      eapply Forall_forall in B8; [|exact He]. destruct B8 as (Hb & Hc & H1 & H2 & _ & Hr & _).
      rewrite Hc. split; [lia|]. intros E. destruct (Hr E) as (_ & Hbl & _).
      rewrite <- Hb, Hbl, len_map, len_values_to_bytes. reflexivity. }
    split; [rewrite (data_len _ _ _ _ HI); symmetry; now apply next_start_chain|].
    split.
    { destruct B11 as [[Hc ->]|[Hc ->]]; [left; now rewrite B10|right].
      rewrite B10. repeat split; auto. unfold vals in B12. cbn in B12. rewrite len_nil in B12. lia. }
    split.
    { destruct (mem_wf _ _ _ _ HI) as (_ & Mo & Mn). rewrite B10, stored_len_pgs by auto. exact B12. }
    intros Hc. destruct B11 as [[_ ->]|[Hc' _]]; [now rewrite B10|congruence].
  Qed.

  (* ---- regime selection is total (C07_regime_total) --------------------------------------------------------- *)
  Lemma regime_total s : Inv s ->
    let sl := s_stored_len s in let pl := len (s_pushed s) in
    match write_regime T size s with
    | RNoop => pl = 0 /\ sl = real_stored_len T size s
    | RFast => sl mod PP <> 0 /\ sl = real_stored_len T size s /\ sl mod PP + pl < PP
    | RReencode => sl mod PP <> 0 /\ (sl < real_stored_len T size s \/ PP <= sl mod PP + pl)
    | RFresh => sl mod PP = 0 /\ pl <> 0
    | RTruncOnly => sl mod PP = 0 /\ pl = 0 /\
                    (sl < real_stored_len T size s \/ pages_has_changes (s_pg s) = true)
    | RError => False
    end.
  Proof.
    intros (hd & ents & mem & HI). cbv zeta.
    destruct (mem_wf _ _ _ _ HI) as (Mc & Mo & Mn).
    pose proof HI as (B1 & B2 & B3 & B4 & B5 & B6 & B7 & B8 & B9 & B10 & B11 & B12).
    unfold write_regime, real_stored_len. rewrite B10, stored_len_pgs by auto.
    destruct (plan_spec mem (pages_has_changes (s_pg s)) (s_stored_len s) (len (s_pushed s)) Mc Mo Mn B12)
      as [(P & Hpl & Hsl & Hhc)|(kept & rest & partial & P & Hmem & Hkf & Hlk & Hcase)]; rewrite P.
    - auto.
    - pose proof PP_pos as Hpp.
      assert (NotNoop : len (s_pushed s) <> 0 \/ s_stored_len s <> len (vals mem) \/ pages_has_changes (s_pg s) = true).
      { unfold write_plan in P. rewrite stored_len_pgs in P by auto.
        destruct (len (vals mem) <? s_stored_len s); [discriminate|].
        destruct ((len (s_pushed s) =? 0) && (s_stored_len s =? len (vals mem)) && negb (pages_has_changes (s_pg s))) eqn:E; [discriminate|].
        apply andb_false_iff in E as [E|E]; [|apply negb_false_iff in E; auto].
        apply andb_false_iff in E as [E|E]; apply N.eqb_neq in E; auto. }
      destruct Hcase as [(-> & Hmod & Hrest)|(e & rest' & -> & -> & Hmod & Hle)].
      + cbn [fast_path]. destruct (s_pushed s) eqn:Ep.
        * rewrite len_nil in *. repeat split; auto.
          destruct NotNoop as [?|[?|?]]; [congruence|left; lia|now right].
        * split; [exact Hmod|]. rewrite len_cons. lia.
      + assert (Oe : ent_ok e).
        { rewrite Hmem in Mo. apply Forall_app in Mo as [_ Mo]. now inversion Mo. }
        unfold fast_path.
        destruct (page_is_raw (e_pg e) && (s_stored_len s mod PP =? page_values_count (e_pg e)) &&
                  (s_stored_len s mod PP + len (s_pushed s) <? PP)) eqn:C.
        * apply andb_true_iff in C as [C C3]. apply andb_true_iff in C as [C1 C2].
          pose proof Oe as (_ & Ecnt & _ & _ & _ & Er & _). destruct (Er C1) as (Elt & _).
          assert (rest' = []).
          { destruct rest' as [|e2 r2]; [reflexivity|exfalso].
            assert (Hf : allfull (kept ++ [e])).
            { apply (Mn (kept ++ [e]) (e2 :: r2)); [|discriminate]. rewrite Hmem. now rewrite <- app_assoc. }
            apply allfull_app in Hf as [_ Hf]. inversion Hf as [|? ? Hfe _]. lia. }
          subst rest'. rewrite Ecnt in C2. apply N.eqb_eq in C2. apply N.ltb_lt in C3.
          split; [exact Hmod|]. split; [|exact C3].
          rewrite Hmem, vals_app, len_app, vals_single, (vals_allfull kept Hkf), <- C2, Hlk.
          pose proof (N.div_mod (s_stored_len s) PP ltac:(lia)). lia.
        * split; [exact Hmod|].
          apply andb_false_iff in C as [C|C]; [|apply N.ltb_ge in C; now right].
          left. pose proof Oe as (_ & Ecnt & _ & E4 & _ & Er & Ec).
          pose proof (N.div_mod (s_stored_len s) PP ltac:(lia)) as Hdm.
          assert (Hv : len (vals mem) = len kept * PP + len (e_vals e) + len (vals rest')).
          { rewrite Hmem, vals_app, len_app, (vals_allfull kept Hkf).
            change (e :: rest') with ([e] ++ rest'). rewrite vals_app, len_app, vals_single. lia. }
          apply andb_false_iff in C as [C|C].
          -- destruct (Ec C) as (Efull & _). pose proof (N.mod_lt (s_stored_len s) PP ltac:(lia)). nia.
          -- apply N.eqb_neq in C. rewrite Ecnt in C. nia.
  Qed.
  (* ---- reads: collect() = read_into_at(0, len) returns the logical contents ---------------------------------- *)
  Lemma take_app_split {A} k (a b : list A) : take k (a ++ b) = take k a ++ take (k - len a) b.
  Proof.
    unfold take, len. rewrite firstn_app. f_equal. f_equal. lia.
  Qed.

  Lemma vals_nil : vals [] = [].
  Proof. reflexivity. Qed.
  Lemma take_nil {A} k : take k (@nil A) = [].
  Proof. unfold take. apply firstn_nil. Qed.

  Lemma read_pages_spec hb mem to : 
    len hb = HEADER_OFFSET -> chain HEADER_OFFSET mem -> Forall ent_ok mem -> nlf mem ->
    forall n done todo, mem = done ++ todo -> allfull done -> N.of_nat n <= len todo ->
    read_pages T size dec decompress (pgs mem) (hb ++ blobs mem) to (seqN (len done) n) =
      Ok (take (to - len done * PP) (vals (take (N.of_nat n) todo))).
  Proof.
    intros Hh Hc Ho Hn. induction n as [|n IH]; intros done todo Hm Hd Hle.
    - cbn [seqN read_pages]. now rewrite take_0, vals_nil, take_nil.
    - destruct todo as [|e todo']; [rewrite len_nil in Hle; lia|].
      cbn [seqN read_pages].
      assert (G : get (pgs mem) (len done) = Some (e_pg e)).
      { rewrite Hm, pgs_app, get_app_r by (rewrite pgs_len; lia).
        rewrite pgs_len, N.sub_diag. reflexivity. }
      rewrite G.
      assert (Oe : ent_ok e).
      { rewrite Hm in Ho. apply Forall_app in Ho as [_ Ho]. now inversion Ho. }
      assert (PD : page_data (hb ++ blobs mem) (e_pg e) = e_blob e).
      { rewrite Hm. apply page_data_ent; [exact Hh|now rewrite <- Hm|exact Oe]. }
      rewrite PD.
      rewrite (decode_ent e Oe).
      pose proof Oe as (_ & Ecnt & _ & _). rewrite Ecnt.
      replace (page_is_raw (e_pg e) && (len (e_vals e) <? N.min (to - len done * PP) (len (e_vals e)))) with false
        by (symmetry; apply andb_false_iff; right; apply N.ltb_ge; lia).
      replace (take (N.of_nat (S n)) (e :: todo')) with (e :: take (N.of_nat n) todo').
      2:{ unfold take. rewrite !Nat2N.id. reflexivity. }
      change (e :: take (N.of_nat n) todo') with ([e] ++ take (N.of_nat n) todo').
      rewrite vals_app, vals_single, take_app_split.
      assert (Ht : take (N.min (to - len done * PP) (len (e_vals e))) (e_vals e) = take (to - len done * PP) (e_vals e)).
      { destruct (N.le_gt_cases (to - len done * PP) (len (e_vals e))); [now rewrite N.min_l by lia|].
        rewrite N.min_r by lia. rewrite !take_all; auto; lia. }
      rewrite Ht. clear Ht.
      destruct n as [|n'].
      + cbn [seqN read_pages bind]. now rewrite take_0, vals_nil, take_nil.
      + assert (Hne : todo' <> []).
        { intros ->. rewrite len_cons, len_nil in Hle. lia. }
        assert (Hfe : allfull (done ++ [e])).
        { apply (Hn (done ++ [e]) todo'); [|exact Hne]. rewrite Hm. now rewrite <- app_assoc. }
        specialize (IH (done ++ [e]) todo').
        rewrite len_app, len_cons, len_nil in IH. replace (len done + (1 + 0)) with (len done + 1) in IH by lia.
        rewrite IH; [|rewrite Hm; now rewrite <- app_assoc|exact Hfe|rewrite len_cons in Hle; lia].
        cbn [bind]. f_equal. f_equal. f_equal.
        apply allfull_app in Hfe as [_ Hfe]. inversion Hfe as [|? ? Hfull _]. rewrite Hfull. lia.
  Qed.

  Lemma collect_view s hd ents mem : InvG s hd ents mem ->
    cv_collect T size dec decompress s = Ok (view s mem).
  Proof.
    intros HI. destruct (mem_wf _ _ _ _ HI) as (Mc & Mo & Mn).
    pose proof HI as (B1 & B2 & B3 & B4 & B5 & B6 & B7 & B8 & B9 & B10 & B11 & B12).
    unfold cv_collect, cv_len, view.
    destruct (s_stored_len s + len (s_pushed s) =? 0) eqn:E0.
    - apply N.eqb_eq in E0. assert (s_stored_len s = 0) by lia. assert (len (s_pushed s) = 0) by lia.
      rewrite H, take_0, (len_0_nil _ H0). reflexivity.
    - destruct (0 <? s_stored_len s) eqn:E1.
      2:{ apply N.ltb_ge in E1. assert (s_stored_len s = 0) by lia. rewrite H, take_0. reflexivity. }
      apply N.ltb_lt in E1.
      assert (Hme : mem = ents).
      { destruct B11 as [[_ ?]|[_ Hm0]]; [auto|]. rewrite Hm0 in B12. unfold vals in B12. cbn in B12. rewrite len_nil in B12. lia. }
      pose proof PP_pos as Hpp. pose proof (vals_le mem Mo) as Hvl.
      set (ep := (s_stored_len s - 1) / PP).
      assert (Hep : ep * PP <= s_stored_len s - 1 < (ep + 1) * PP).
      { pose proof (N.div_mod (s_stored_len s - 1) PP ltac:(lia)). pose proof (N.mod_lt (s_stored_len s - 1) PP ltac:(lia)).
        subst ep. nia. }
      assert (Hn : ep + 1 <= len mem) by nia.
      rewrite B10, B4, <- Hme.
      pose proof (read_pages_spec (map CB (header_to_bytes hd)) mem (s_stored_len s)
                    ltac:(now rewrite len_map, len_header_to_bytes) Mc Mo Mn (N.to_nat (ep + 1)) [] mem
                    eq_refl ltac:(constructor) ltac:(rewrite N2Nat.id; exact Hn)) as RP.
      rewrite len_nil in RP. rewrite RP. cbn [bind]. f_equal. f_equal.
      rewrite N2Nat.id. replace (s_stored_len s - 0 * PP) with (s_stored_len s) by lia.
      rewrite <- (take_drop (ep + 1) mem) at 2. rewrite vals_app, take_app_split.
      destruct (N.eq_dec (ep + 1) (len mem)) as [Heq|Hneq].
      + rewrite (drop_all (ep + 1) mem) by lia. now rewrite vals_nil, take_nil, app_nil_r.
      + assert (Hf : allfull (take (ep + 1) mem)).
        { apply (Mn (take (ep + 1) mem) (drop (ep + 1) mem)); [symmetry; apply take_drop|].
          intros Hd. apply (f_equal len) in Hd. rewrite len_drop, len_nil in Hd. lia. }
        rewrite (vals_allfull _ Hf), len_take, N.min_l by lia.
        replace (s_stored_len s - (ep + 1) * PP) with 0 by lia. rewrite take_0. now rewrite app_nil_r.
  Qed.
  (* ==== C04 (compressed): change records, commit, rollback ============================================== *)
  Notation parse_change := (parse_change T size dec).
  Notation rd_values := (rd_values T size dec).
  Notation cv_commit := (cv_commit T size enc dec compress decompress).
  Notation cv_rollback := (cv_rollback T size dec).

  Lemma len_u64b v : len (u64b v) = 8.
  Proof. unfold u64b. now rewrite le_enc_len. Qed.

  Lemma rd_u64_app v rest pos : v < two64 -> pos + 8 < two64 ->
    rd_u64 (u64b v ++ rest, pos) = Ok (v, (rest, pos + 8)).
  Proof.
    intros Hv Hp. unfold rd_u64, check_remaining. cbn [fst snd].
    replace (two64 <=? pos + 8) with false by (symmetry; apply N.leb_gt; lia).
    replace (len (u64b v ++ rest) <? 8) with false
      by (symmetry; apply N.ltb_ge; rewrite len_app, len_u64b; lia).
    cbn [bind]. rewrite take_app_exact, drop_app_exact by (now rewrite len_u64b).
    unfold u64b. change (le_enc 8 v) with (enc_u64 v). now rewrite dec_enc_u64.
  Qed.

  Lemma rd_values_app l rest pos : pos + size * len l < two64 ->
    rd_values (values_to_bytes l ++ rest, pos) (len l) = Ok (l, (rest, pos + size * len l)).
  Proof.
    intros Hp. unfold CvModel.rd_values, check_remaining. cbn [fst snd].
    replace (two64 <=? size * len l) with false by (symmetry; apply N.leb_gt; lia).
    replace (two64 <=? pos + size * len l) with false by (symmetry; apply N.leb_gt; lia).
    assert (L : len (values_to_bytes l) = size * len l) by (rewrite len_values_to_bytes; lia).
    replace (len (values_to_bytes l ++ rest) <? size * len l) with false
      by (symmetry; apply N.ltb_ge; rewrite len_app, L; lia).
    cbn [bind]. rewrite take_app_exact, drop_app_exact by (now rewrite L).
    unfold len at 1. rewrite Nat2N.id.
    rewrite <- (app_nil_r (values_to_bytes l)). now rewrite decode_vals_bytes.
  Qed.

  Lemma rd_skip_app (x rest : list N) pos : pos + len x < two64 ->
    rd_skip (x ++ rest, pos) (len x) = Ok (rest, pos + len x).
  Proof.
    intros Hp. unfold rd_skip, check_remaining. cbn [fst snd].
    replace (two64 <=? pos + len x) with false by (symmetry; apply N.leb_gt; lia).
    replace (len (x ++ rest) <? len x) with false by (symmetry; apply N.ltb_ge; rewrite len_app; lia).
    cbn [bind]. now rewrite drop_app_exact.
  Qed.

  (* parse_change_data o serialize_changes = id on the fields rollback uses *)
  Lemma parse_ser a b c tv pp pu :
    a < two64 -> b < two64 -> c < two64 -> len tv <= b ->
    48 + size * len tv + size * len pp + size * len pu < two64 ->
    parse_change (u64b a ++ u64b b ++ u64b c ++ u64b (len tv) ++ values_to_bytes tv
                  ++ u64b (len pp) ++ values_to_bytes pp ++ u64b (len pu) ++ values_to_bytes pu)
    = Ok (mkChange T a b (b - len tv) tv pp).
  Proof.
    intros Ha Hb Hc Htv Hfit. unfold CvModel.parse_change.
    assert (T64 : two64 = 18446744073709551616) by reflexivity.
    pose proof size_pos as Hs0.
    assert (F1 : len tv < two64) by nia.
    assert (F2 : len pp < two64) by nia.
    assert (F3 : len pu < two64) by nia.
    rewrite rd_u64_app; [|lia|lia]. cbn [bind]. cbv beta iota.
    rewrite rd_u64_app; [|lia|lia]. cbn [bind]. cbv beta iota.
    rewrite <- (len_u64b c) at 2. rewrite rd_skip_app; [|rewrite len_u64b; lia]. cbn [bind].
    rewrite len_u64b.
    rewrite rd_u64_app; [|lia|lia]. cbn [bind]. cbv beta iota.
    replace (b <? len tv) with false by (symmetry; apply N.ltb_ge; lia).
    rewrite rd_values_app; [|lia]. cbn [bind]. cbv beta iota.
    rewrite rd_u64_app; [|lia|lia]. cbn [bind]. cbv beta iota.
    rewrite rd_values_app; [|lia]. cbn [bind]. cbv beta iota.
    rewrite rd_u64_app; [|lia|lia]. cbn [bind]. cbv beta iota.
    replace (two64 <=? size * len pu) with false by (symmetry; apply N.leb_gt; lia).
    rewrite <- (app_nil_r (values_to_bytes pu)).
    replace (size * len pu) with (len (values_to_bytes pu)) by (rewrite len_values_to_bytes; lia).
    rewrite rd_skip_app; [|rewrite len_values_to_bytes; lia]. cbn [bind fst]. reflexivity.
  Qed.

  (* ---- the baseline a commit records its changes against, and a valid record ------------------------------ *)
  Definition BaseOK (s : cvs) (mem : list ent) (b : list T) : Prop :=
    s_prev_stored_len s <= len (vals mem) /\
    b = take (s_prev_stored_len s) (vals mem) ++ s_prev_pushed s.

  Definition RecOK (mem : list ent) (bs : list N) (b : list T) (pst : N) : Prop :=
    exists ch, parse_change bs = Ok ch /\ ch_prev_stamp T ch = pst /\
      ch_truncated_start T ch <= len (vals mem) /\
      b = take (ch_truncated_start T ch) (vals mem) ++ ch_truncated_values T ch ++ ch_prev_pushed T ch /\
      (ch_truncated_values T ch = [] -> ch_prev_stored_len T ch = ch_truncated_start T ch).

  (* the side condition that makes the u64 fields and cursor arithmetic overflow-free (usize in the code) *)
  Definition fits (s : cvs) : Prop :=
    s_prev_stored_len s < two64 /\ s_stored_len s < two64 /\
    48 + size * s_prev_stored_len s + size * len (s_prev_pushed s) + size * len (s_pushed s) < two64.

  Lemma update_stamp_InvG s hd ents mem st : InvG s hd ents mem -> st < two64 ->
    InvG (update_stamp s st) hd ents mem.
  Proof.
    intros HI Hst. unfold update_stamp. destruct (h_stamp (s_hdr s) =? st); [exact HI|].
    pose proof HI as (B1 & B2 & B3 & B4 & B5 & B6 & B7 & B8 & B9 & B10 & B11 & B12).
    unfold InvG. cbn [set_hdr s_hdr s_hdr_mod s_data s_pg s_stored_len].
    split; [apply hdr_ok_stamp; auto|]. split; [exact B2|]. split; [discriminate|]. tauto.
  Qed.

  Lemma update_stamp_stamp (s : cvs) st : cv_stamp (update_stamp s st) = st.
  Proof.
    unfold update_stamp, cv_stamp. destruct (h_stamp (s_hdr s) =? st) eqn:E; [now apply N.eqb_eq in E|reflexivity].
  Qed.

  Lemma InvG_len s s' hd ents mem :
    s_hdr s' = s_hdr s -> s_hdr_mod s' = s_hdr_mod s -> s_data s' = s_data s -> s_pg s' = s_pg s ->
    s_stored_len s' <= len (vals mem) -> InvG s hd ents mem -> InvG s' hd ents mem.
  Proof. unfold InvG. intros -> -> -> -> H. intuition. Qed.

  Lemma take_slice {A} a b (l : list A) : a <= b -> take a l ++ slice a b l = take b l.
  Proof.
    intros H. unfold slice. rewrite <- (take_drop a l) at 3. rewrite take_app_split'.
    destruct (N.le_gt_cases a (len l)).
    - rewrite (take_all b (take a l)) by (rewrite len_take; lia).
      rewrite len_take, N.min_l by lia. reflexivity.
    - rewrite (take_all a l), (drop_all a l) by lia. rewrite !take_nil, !app_nil_r.
      symmetry. apply take_all. lia.
  Qed.

  (* write() settles the vector: everything is stored, nothing is buffered *)
  Lemma write_settled s hd ents mem hints s' r :
    InvG s hd ents mem -> cv_write s hints = (s', r) ->
    r = Panic \/ exists wb ents', r = Ok wb /\ InvG s' (s_hdr s) ents' ents' /\ vals ents' = view s mem /\
      s_stored_len s' = len (vals ents') /\ s_pushed s' = [] /\ s_hdr s' = s_hdr s /\
      s_prev_pushed s' = s_prev_pushed s /\ s_prev_stored_len s' = s_prev_stored_len s /\
      s_ssc s' = s_ssc s /\ s_changes s' = s_changes s.
  Proof.
    intros HI HW.
    assert (Hprev : s_prev_pushed s' = s_prev_pushed s /\ s_prev_stored_len s' = s_prev_stored_len s /\
                    s_ssc s' = s_ssc s /\ s_changes s' = s_changes s).
    { clear HI. unfold CvModel.cv_write in HW.
      destruct (write_header_if_needed T s) as [s1 r1] eqn:E1.
      assert (P1 : s_prev_pushed s1 = s_prev_pushed s /\ s_prev_stored_len s1 = s_prev_stored_len s /\
                   s_ssc s1 = s_ssc s /\ s_changes s1 = s_changes s).
      { unfold write_header_if_needed in E1. destruct (s_hdr_mod s); [|inversion E1; auto].
        destruct (lift_r _); inversion E1; auto. }
      destruct P1 as (<- & <- & <- & <-).
      destruct r1; try (inversion HW; subst; auto; fail).
      destruct (write_plan _ _ _ _ _) as [[|ta spi partial]| |]; try (inversion HW; subst; auto; fail).
      destruct (fast_path _ _ _) as [[pg pl0]|].
      - unfold write_fast in HW.
        repeat (match type of HW with
                | context [match ?x with _ => _ end] => destruct x
                end; try (inversion HW; subst; cbn; auto; fail)).
      - destruct (match partial with Some _ => _ | None => _ end); try (inversion HW; subst; auto; fail).
        unfold write_slow in HW.
        repeat (match type of HW with
                | context [match ?x with _ => _ end] => destruct x
                | context [let '(_, _) := ?x in _] => destruct x
                end; try (inversion HW; subst; cbn; auto; fail)). }
    destruct (write_ok _ _ _ _ _ _ _ HI HW) as [->|[(-> & I' & W1 & W2 & W3 & Wme & W4 & W5 & W6 & W7)|(ents' & -> & I' & W1 & W2 & W3 & W4 & W5)]];
      [now left|right; exists false, ents|right; exists true, ents'].
    - subst mem. split; [reflexivity|]. split; [exact I'|].
      unfold view. rewrite W2, W3, app_nil_r, take_all by lia. repeat split; try tauto; congruence.
    - split; [reflexivity|]. split; [exact I'|]. repeat split; try tauto; congruence.
  Qed.
  (* ---- commit = stamped_write_with_changes with retention > 0 ---------------------------------------------- *)
  Lemma lookup_app_last dir st d :
    Forall (fun f => fst f <> st) dir -> lookup_file (dir ++ [(st, d)]) st = Some d.
  Proof.
    induction 1 as [|[k v] t Hk Ht IH]; cbn [app lookup_file].
    - now rewrite N.eqb_refl.
    - cbn [fst] in Hk. replace (k =? st) with false by (symmetry; now apply N.eqb_neq). exact IH.
  Qed.

  Lemma Forall_drop {A} (P : A -> Prop) n l : Forall P l -> Forall P (drop n l).
  Proof.
    intros H. rewrite <- (take_drop n l) in H. apply Forall_app in H. tauto.
  Qed.

  Lemma commit_ok s hd ents mem b st hints s' r :
    InvG s hd ents mem -> BaseOK s mem b -> s_ssc s <> 0 -> st < two64 -> fits s ->
    cv_commit s st hints = (s', r) ->
    r = Panic \/ exists wb ents' dir bs,
      r = Ok wb /\ InvG s' (s_hdr s') ents' ents' /\ s_hdr_mod s' = false /\
      vals ents' = view s mem /\ s_stored_len s' = len (vals ents') /\ s_pushed s' = [] /\
      cv_stamp s' = st /\ s_ssc s' = s_ssc s /\
      BaseOK s' ents' (view s mem) /\
      s_changes s' = Some dir /\ lookup_file dir st = Some bs /\
      RecOK ents' bs b (cv_stamp s).
  Proof.
    intros HI (Bp & Bb) Hk Hst (F1 & F2 & F3) HC.
    pose proof HI as (B1 & B2 & B3 & B4 & B5 & B6 & B7 & B8 & B9 & B10 & B11 & B12).
    unfold CvModel.cv_commit in HC.
    replace (s_ssc s =? 0) with false in HC by (symmetry; now apply N.eqb_neq).
    rewrite (serialize_eq _ _ _ _ HI) in HC.
    set (data := ser_bytes s (ser_tv s mem)) in *.
    set (s1 := set_roll s (s_ssc s) (save_change_file T s st data)) in HC.
    assert (HI1 : InvG s1 hd ents mem) by (eapply InvG_same; [..|exact HI]; reflexivity).
    pose proof (update_stamp_InvG s1 hd ents mem st HI1 Hst) as HI1'.
    destruct (cv_write (update_stamp s1 st) hints) as [s2 r2] eqn:EW.
    destruct (write_settled _ _ _ _ _ _ _ HI1' EW)
      as [->|(wb & ents' & -> & I2 & V2 & L2 & P2 & H2 & Q1 & Q2 & Q3 & Q4)]; [inversion HC; now left|].
    inversion HC; subst s' r. right.
    (* the record *)
    set (tc := s_prev_stored_len s - s_stored_len s) in *.
    set (tv := ser_tv s mem) in *.
    assert (Ltv : len tv = tc).
    { unfold tv, ser_tv. fold tc. destruct (0 <? tc) eqn:E.
      - apply N.ltb_lt in E. rewrite len_slice. subst tc. lia.
      - apply N.ltb_ge in E. rewrite len_nil. lia. }
    assert (Hstamp : cv_stamp s < two64).
    { destruct B1 as (V & _). unfold valid_header in V. rewrite !andb_true_iff in V.
      destruct V as ((_ & V) & _). now apply N.ltb_lt in V. }
    assert (Hparse : parse_change data =
                     Ok (mkChange T (cv_stamp s) (s_prev_stored_len s) (s_prev_stored_len s - len tv) tv (s_prev_pushed s))).
    { unfold data, ser_bytes. fold tv. fold tc. rewrite <- Ltv. apply parse_ser; auto; try lia;
      try (rewrite Ltv; subst tc; pose proof size_pos; nia). }
    assert (Hview1 : view (update_stamp s1 st) mem = view s mem).
    { unfold view, update_stamp. destruct (_ =? st); reflexivity. }
    rewrite Hview1 in V2.
    assert (Hts : s_prev_stored_len s - len tv = N.min (s_prev_stored_len s) (s_stored_len s)) by (rewrite Ltv; subst tc; lia).
    set (ts := N.min (s_prev_stored_len s) (s_stored_len s)) in *.
    assert (Hvlen : s_stored_len s <= len (vals ents')).
    { rewrite V2. unfold view. rewrite len_app, len_take. lia. }
    assert (Htake : take ts (vals ents') = take ts (vals mem)).
    { rewrite V2. unfold view. rewrite take_app_le by (rewrite len_take; subst ts; lia).
      apply take_take. subst ts. lia. }
    set (dirf := filter (fun f => (fst f <? st) && (fst f <=? cv_stamp s))
                        match s_changes s with Some d => d | None => [] end) in *.
    exists wb, ents', (drop (len dirf - (s_ssc s - 1)) dirf ++ [(st, data)]), data.
    assert (Hh2 : s_hdr s2 = s_hdr (update_stamp s1 st)) by exact H2.
    cbn [save_prev set_prev s_hdr s_hdr_mod s_data s_pg s_stored_len s_pushed s_ssc s_changes
         s_prev_pushed s_prev_stored_len cv_stamp].
    split; [reflexivity|].
    split.
    { rewrite Hh2. eapply InvG_same; [..|exact I2]; reflexivity. }
    split.
    { destruct I2 as (_ & _ & I3 & _). (* hdr_mod: write leaves it false *)
      (* from write_ok: the header was written *)
      clear - EW. unfold CvModel.cv_write in EW.
      destruct (write_header_if_needed T (update_stamp s1 st)) as [sx rx] eqn:E1.
      assert (M : rx = Ok tt -> s_hdr_mod sx = false).
      { unfold write_header_if_needed in E1. destruct (s_hdr_mod (update_stamp s1 st)) eqn:Em.
        - destruct (lift_r _); inversion E1; subst; try discriminate. intros _. reflexivity.
        - inversion E1; subst. intros _. exact Em. }
      destruct rx as [[]| |]; try (inversion EW; fail). specialize (M eq_refl).
      destruct (write_plan _ _ _ _ _) as [[|ta spi partial]| |]; try (inversion EW; subst; auto; fail).
      destruct (fast_path _ _ _) as [[pg pl0]|].
      - unfold write_fast in EW.
        repeat (match type of EW with
                | context [match ?x with _ => _ end] => destruct x
                end; try (inversion EW; subst; cbn; auto; fail)).
      - destruct (match partial with Some _ => _ | None => _ end); try (inversion EW; subst; auto; fail).
        unfold write_slow in EW.
        repeat (match type of EW with
                | context [match ?x with _ => _ end] => destruct x
                | context [let '(_, _) := ?x in _] => destruct x
                end; try (inversion EW; subst; cbn; auto; fail)). }
    split; [exact V2|]. split; [exact L2|]. split; [exact P2|].
    split; [unfold cv_stamp, save_prev; cbn [set_prev s_hdr]; fold (cv_stamp s2); unfold cv_stamp; rewrite Hh2; apply update_stamp_stamp|].
    split; [rewrite Q3; unfold update_stamp; destruct (_ =? st); reflexivity|].
    split.
    { unfold BaseOK, save_prev. cbn [s_prev_stored_len s_prev_pushed set_prev]. split; [lia|].
      rewrite L2, take_all, app_nil_r by lia. symmetry. exact V2. }
    split.
    { rewrite Q4. unfold update_stamp. destruct (_ =? st); reflexivity. }
    split.
    { apply lookup_app_last. apply Forall_drop. unfold dirf. apply Forall_forall. intros f Hf.
      apply filter_In in Hf as [_ Hf]. apply andb_true_iff in Hf as [Hf _]. apply N.ltb_lt in Hf. lia. }
    exists (mkChange T (cv_stamp s) (s_prev_stored_len s) (s_prev_stored_len s - len tv) tv (s_prev_pushed s)).
    cbn [ch_prev_stamp ch_truncated_start ch_truncated_values ch_prev_pushed ch_prev_stored_len].
    rewrite Hts. rewrite Hts in Hparse. split; [exact Hparse|]. split; [reflexivity|].
    split; [subst ts; lia|].
    split.
    { rewrite Htake, Bb. rewrite app_assoc. f_equal.
      unfold tv, ser_tv. fold tc. destruct (0 <? tc) eqn:E.
      - apply N.ltb_lt in E. rewrite N.min_l by lia.
        replace ts with (s_stored_len s) by (subst ts tc; lia).
        symmetry. apply take_slice. subst tc. lia.
      - apply N.ltb_ge in E. rewrite app_nil_r. f_equal. subst ts tc. lia. }
    intros Hnil. rewrite Hnil, len_nil in Ltv. subst ts tc. lia.
  Qed.

  (* ---- rollback() ---------------------------------------------------------------------------------------- *)
  Lemma rollback_ok s hd ents mem b pst dir bs s' r :
    InvG s hd ents mem -> s_changes s = Some dir -> lookup_file dir (cv_stamp s) = Some bs ->
    RecOK mem bs b pst -> pst < two64 ->
    cv_rollback s = (s', r) ->
    (exists ch, parse_change bs = Ok ch /\
      ((ch_truncated_start T ch <= s_stored_len s /\ r = Ok tt /\ InvG s' hd ents mem /\ view s' mem = b /\
        cv_stamp s' = pst /\ BaseOK s' mem b /\ s_changes s' = s_changes s /\ s_ssc s' = s_ssc s /\
        s_stored_len s' = ch_truncated_start T ch /\ s_prev_stored_len s' = ch_truncated_start T ch)
       \/ (s_stored_len s < ch_truncated_start T ch /\ r = Err EIndexTooHigh /\ s' = s))).
  Proof.
    intros HI Hd Hl (ch & Hp & Hps & Hts & Hb & Hnil) Hpst HR.
    pose proof HI as (B1 & B2 & B3 & B4 & B5 & B6 & B7 & B8 & B9 & B10 & B11 & B12).
    exists ch. split; [exact Hp|].
    unfold CvModel.cv_rollback in HR. rewrite Hd, Hl in HR. unfold cv_undo in HR. rewrite Hp in HR.
    destruct (s_stored_len s <? ch_truncated_start T ch) eqn:Eg.
    { apply N.ltb_lt in Eg. inversion HR; subst s' r. right. repeat split; auto. }
    apply N.ltb_ge in Eg. left. split; [exact Eg|].
    rewrite (real_stored_len_mem _ _ _ _ HI) in HR.
    pose proof (update_stamp_InvG s hd ents mem pst HI Hpst) as HIu. rewrite <- Hps in HIu.
    assert (Hst' : cv_stamp (update_stamp s (ch_prev_stamp T ch)) = pst) by (rewrite update_stamp_stamp; exact Hps).
    assert (Hroll : s_changes (update_stamp s (ch_prev_stamp T ch)) = s_changes s /\
                    s_ssc (update_stamp s (ch_prev_stamp T ch)) = s_ssc s).
    { unfold update_stamp. destruct (_ =? _); split; reflexivity. }
    destruct (ch_truncated_values T ch) as [|t0 tvr] eqn:Etv.
    - specialize (Hnil eq_refl). inversion HR; subst s' r. clear HR.
      cbn [save_rollback_state set_prev set_pushed set_stored_len s_pushed s_stored_len s_hdr s_hdr_mod
           s_data s_pg s_ssc s_changes s_prev_pushed s_prev_stored_len cv_stamp].
      split; [reflexivity|].
      split; [eapply InvG_len; [..|exact HIu]; cbn; try reflexivity; lia|].
      split; [unfold view; cbn; rewrite Hnil; now rewrite Hb|].
      split; [exact Hst'|].
      split; [unfold BaseOK; cbn; rewrite Hnil; split; [lia|exact Hb]|].
      split; [tauto|]. split; [tauto|]. split; [exact Hnil|exact Hnil].
    - inversion HR; subst s' r. clear HR.
      cbn [save_rollback_state set_prev set_pushed set_stored_len s_pushed s_stored_len s_hdr s_hdr_mod
           s_data s_pg s_ssc s_changes s_prev_pushed s_prev_stored_len cv_stamp].
      rewrite N.min_l by lia.
      split; [reflexivity|].
      split; [eapply InvG_len; [..|exact HIu]; cbn; try reflexivity; lia|].
      split; [unfold view; cbn; now rewrite Hb|].
      split; [exact Hst'|].
      split; [unfold BaseOK; cbn; split; [lia|exact Hb]|].
      split; [tauto|]. split; [tauto|]. split; reflexivity.
  Qed.
  (* ---- edits between commits: push / truncate ------------------------------------------------------------- *)
  Definition is_edit (o : op) : Prop := match o with Push _ | Trunc _ => True | _ => False end.
  Definition is_push (o : op) : Prop := match o with Push _ => True | _ => False end.

  Definition same_roll (s s' : cvs) : Prop :=
    s_hdr s' = s_hdr s /\ s_prev_pushed s' = s_prev_pushed s /\ s_prev_stored_len s' = s_prev_stored_len s /\
    s_ssc s' = s_ssc s /\ s_changes s' = s_changes s.

  Lemma edit_step s hd ents mem o : InvG s hd ents mem -> is_edit o ->
    InvG (fst (cv_step s o)) hd ents mem /\ same_roll s (fst (cv_step s o)) /\
    s_stored_len (fst (cv_step s o)) <= s_stored_len s /\
    (is_push o -> s_stored_len (fst (cv_step s o)) = s_stored_len s).
  Proof.
    intros HI He. pose proof HI as (B1 & B2 & B3 & B4 & B5 & B6 & B7 & B8 & B9 & B10 & B11 & B12).
    destruct o as [vs|n| | | | | | | ]; try contradiction; cbn [CvModel.cv_step fst].
    - split; [exact HI|]. unfold same_roll. cbn. repeat split; auto; lia.
    - unfold cv_truncate.
      destruct (_ <=? n); [split; [exact HI|]; unfold same_roll; repeat split; auto; try lia; contradiction|].
      destruct (n <=? s_stored_len s) eqn:E2; destruct (n <? s_stored_len s) eqn:E3;
        (split; [eapply InvG_len; [..|exact HI]; cbn; try reflexivity; try lia|];
         unfold same_roll; cbn; repeat split; auto; try lia; try contradiction).
  Qed.

  Lemma edits_run : forall h s hd ents mem, InvG s hd ents mem -> Forall is_edit h ->
    InvG (cv_run s h) hd ents mem /\ same_roll s (cv_run s h) /\
    s_stored_len (cv_run s h) <= s_stored_len s /\
    (Forall is_push h -> s_stored_len (cv_run s h) = s_stored_len s).
  Proof.
    induction h as [|o t IH]; intros s hd ents mem HI He.
    - cbn. split; [exact HI|]. split; [unfold same_roll; repeat split; reflexivity|]. split; [lia|reflexivity].
    - inversion He as [|? ? Ho Ht]; subst.
      destruct (edit_step s hd ents mem o HI Ho) as (I1 & (R1 & R2 & R3 & R4 & R5) & L1 & P1).
      unfold CvModel.cv_run. cbn [fold_left]. fold (cv_run (fst (cv_step s o)) t).
      destruct (IH _ _ _ _ I1 Ht) as (I2 & (S1 & S2 & S3 & S4 & S5) & L2 & P2).
      split; [exact I2|]. split; [unfold same_roll; repeat split; congruence|]. split; [lia|].
      intros Hp. inversion Hp as [|? ? Hpo Hpt]; subst. rewrite (P2 Hpt). exact (P1 Hpo).
  Qed.

  (* ---- C04 for the compressed format: one commit, one rollback, at every baseline ------------------------------ *)
  (* the decidable class in which rollback() refuses a retained record: the vector's stored length lies
     below the record's truncation start (after undoing a truncating commit without a write() in between,
     or after an uncommitted truncation) *)
  Definition rollback_refuses (s : cvs) : bool :=
    match s_changes s with
    | Some dir => match lookup_file dir (cv_stamp s) with
                  | Some bs => match parse_change bs with
                               | Ok ch => s_stored_len s <? ch_truncated_start T ch
                               | _ => false
                               end
                  | None => false
                  end
    | None => false
    end.

  Theorem rollback_step s hd ents mem b e1 st hints s2 wb e2 s4 r :
    InvG s hd ents mem -> BaseOK s mem b -> s_ssc s <> 0 -> st < two64 ->
    Forall is_edit e1 -> Forall is_edit e2 -> fits (cv_run s e1) ->
    cv_commit (cv_run s e1) st hints = (s2, Ok wb) ->
    cv_rollback (cv_run s2 e2) = (s4, r) ->
    (rollback_refuses (cv_run s2 e2) = false /\ r = Ok tt /\
       cv_collect T size dec decompress s4 = Ok b /\ cv_stamp s4 = cv_stamp s /\
       s_ssc s4 = s_ssc s /\
       exists hd4 ents4, InvG s4 hd4 ents4 ents4 /\ BaseOK s4 ents4 b /\ view s4 ents4 = b)
    \/ (rollback_refuses (cv_run s2 e2) = true /\ r = Err EIndexTooHigh /\ s4 = cv_run s2 e2).
  Proof.
    intros HI HB Hk Hst He1 He2 Hfit HC HR.
    destruct (edits_run e1 s hd ents mem HI He1) as (I1 & (S1 & S2 & S3 & S4 & S5) & _ & _).
    assert (HB1 : BaseOK (cv_run s e1) mem b) by (unfold BaseOK; now rewrite S2, S3).
    assert (Hk1 : s_ssc (cv_run s e1) <> 0) by now rewrite S4.
    destruct (commit_ok _ _ _ _ _ _ _ _ _ I1 HB1 Hk1 Hst Hfit HC)
      as [Hp|(wb' & ents' & dir & bs & _ & I2 & M2 & V2 & L2 & P2 & St2 & K2 & B2' & C2 & Lk & Rec)]; [discriminate|].
    destruct (edits_run e2 s2 _ ents' ents' I2 He2) as (I3 & (T1 & T2 & T3 & T4 & T5) & L3 & _).
    set (s3 := cv_run s2 e2) in *.
    assert (Hst3 : cv_stamp s3 = st) by (unfold cv_stamp; rewrite T1; exact St2).
    assert (Hp1 : cv_stamp (cv_run s e1) = cv_stamp s) by (unfold cv_stamp; now rewrite S1).
    assert (Hps : cv_stamp s < two64).
    { destruct HI as ((V & _) & _). unfold valid_header in V. rewrite !andb_true_iff in V.
      destruct V as ((_ & V) & _). now apply N.ltb_lt in V. }
    rewrite Hp1 in Rec.
    destruct (rollback_ok s3 _ ents' ents' b (cv_stamp s) dir bs s4 r I3 ltac:(now rewrite T5)
                ltac:(now rewrite Hst3) Rec Hps HR)
      as (ch & Hpc & [(G & -> & I4 & V4 & St4 & B4 & C4 & K4 & _ & _)|(G & -> & ->)]).
    - left. split.
      { unfold rollback_refuses. rewrite T5, C2, Hst3, Lk, Hpc. apply N.ltb_ge. exact G. }
      split; [reflexivity|].
      split; [rewrite (collect_view _ _ _ _ I4); now rewrite V4|].
      split; [exact St4|]. split; [rewrite K4, T4, K2; exact S4|].
      eexists _, ents'. split; [|split; [exact B4|exact V4]].
      (* the header on disk is the one recorded by InvG *)
      pose proof I4 as (_ & _ & _ & _ & _ & _ & _ & _ & _ & _ & [[_ Hme]|[Hc0 Hm0]] & _); exact I4.
    - right. split; [|split; reflexivity].
      unfold rollback_refuses. rewrite T5, C2, Hst3, Lk, Hpc. apply N.ltb_lt. exact G.
  Qed.

  (* right after a commit (only pushes in between) the rollback always succeeds *)
  Corollary rollback_after_commit s hd ents mem b e1 st hints s2 wb e2 s4 r :
    InvG s hd ents mem -> BaseOK s mem b -> s_ssc s <> 0 -> st < two64 ->
    Forall is_edit e1 -> Forall is_push e2 -> fits (cv_run s e1) ->
    cv_commit (cv_run s e1) st hints = (s2, Ok wb) ->
    cv_rollback (cv_run s2 e2) = (s4, r) ->
    r = Ok tt /\ cv_collect T size dec decompress s4 = Ok b /\ cv_stamp s4 = cv_stamp s.
  Proof.
    intros HI HB Hk Hst He1 Hp2 Hfit HC HR.
    assert (He2 : Forall is_edit e2).
    { eapply Forall_impl; [|exact Hp2]. intros [ ]; cbn; tauto. }
    destruct (rollback_step _ _ _ _ _ _ _ _ _ _ _ _ _ HI HB Hk Hst He1 He2 Hfit HC HR)
      as [(_ & -> & Hc & Hs & _)|(Href & _ & _)]; [auto|exfalso].
    (* refusal is impossible: stored_len is still the committed length *)
    destruct (edits_run e1 s hd ents mem HI He1) as (I1 & (S1 & S2 & S3 & S4 & S5) & _ & _).
    assert (HB1 : BaseOK (cv_run s e1) mem b) by (unfold BaseOK; now rewrite S2, S3).
    assert (Hk1 : s_ssc (cv_run s e1) <> 0) by now rewrite S4.
    destruct (commit_ok _ _ _ _ _ _ _ _ _ I1 HB1 Hk1 Hst Hfit HC)
      as [Hp|(wb' & ents' & dir & bs & _ & I2 & M2 & V2 & L2 & P2 & St2 & K2 & B2' & C2 & Lk & (ch & Hpc & _ & Hts & _))]; [discriminate|].
    destruct (edits_run e2 s2 _ ents' ents' I2 He2) as (I3 & (T1 & T2 & T3 & T4 & T5) & _ & L3).
    unfold rollback_refuses in Href. unfold cv_stamp in Href. rewrite T5, C2, T1 in Href.
    fold (cv_stamp s2) in Href. rewrite St2, Lk, Hpc in Href.
    apply N.ltb_lt in Href. rewrite (L3 Hp2), L2 in Href. lia.
  Qed.

  (* continuation: a successful rollback leaves a state from which every theorem above applies again *)
  Theorem rollback_continuation s4 hd4 ents4 b :
    InvG s4 hd4 ents4 ents4 -> view s4 ents4 = b ->
    exists a, a_cur a = b /\ a_stamp a = cv_stamp s4 /\ R s4 a.
  Proof.
    intros HI Hv.
    exists (mkSpec b (cv_stamp s4) (vals ents4) (h_stamp hd4)). split; [reflexivity|]. split; [reflexivity|].
    exists hd4, ents4, ents4. split; [exact HI|]. cbn. repeat split; auto.
  Qed.

  (* ---- C07_lossless at full strength: what a READ returns -------------------------------------------------------- *)
  Lemma R_collect s a : R s a -> cv_collect T size dec decompress s = Ok (a_cur a).
  Proof.
    intros (hd & ents & mem & HI & R1 & _). rewrite (collect_view _ _ _ _ HI). now rewrite R1.
  Qed.

  Theorem lossless h s0 :
    cv_import T size fmt vver [] [] = Ok s0 -> Forall op_ok h -> no_panic s0 h ->
    cv_collect T size dec decompress (cv_run s0 h) = Ok (a_cur (spec_run spec_init h)).
  Proof.
    intros Hi Hok Hnp. apply R_collect.
    exact (proj1 (run_R h s0 spec_init (init_R s0 Hi) Hok Hnp)).
  Qed.

  (* ---- C16 (compressed): failed rollback leaves the vector unchanged; the change directory ------------------ *)
  Lemma rollback_fail_unchanged (s s' : cvs) e : cv_rollback s = (s', Err e) -> s' = s.
  Proof.
    unfold CvModel.cv_rollback, cv_undo. intros H.
    destruct (s_changes s) as [dir|]; [|now inversion H].
    destruct (lookup_file dir (cv_stamp s)) as [bs|]; [|now inversion H].
    destruct (parse_change bs) as [ch| |]; try (now inversion H).
    destruct (s_stored_len s <? ch_truncated_start T ch); [now inversion H|].
    destruct (ch_truncated_values T ch); inversion H.
  Qed.

  Lemma len_filter_le {A} (f : A -> bool) l : len (filter f l) <= len l.
  Proof.
    induction l as [|x l IH]; [cbn; lia|]. cbn [filter]. destruct (f x); rewrite ?len_cons; lia.
  Qed.

  (* save_change_file: at most k records remain, the new one is present, every other one is older than
     the new stamp and not newer than the current stamp (records of an abandoned future are dropped) *)
  Lemma save_change_file_spec (s : cvs) stamp data : s_ssc s <> 0 ->
    exists d, save_change_file T s stamp data = Some d /\ len d <= s_ssc s /\
      lookup_file d stamp = Some data /\
      Forall (fun f => f = (stamp, data) \/ (fst f < stamp /\ fst f <= cv_stamp s)) d.
  Proof.
    intros Hk. unfold save_change_file. eexists. split; [reflexivity|].
    set (files := filter _ _).
    assert (Hf : Forall (fun f => fst f < stamp /\ fst f <= cv_stamp s) files).
    { apply Forall_forall. intros f Hin. apply filter_In in Hin as [_ Hin].
      apply andb_true_iff in Hin as [H1 H2]. apply N.ltb_lt in H1. apply N.leb_le in H2. auto. }
    split.
    { rewrite len_app, len_drop, len_cons, len_nil. lia. }
    split.
    { apply lookup_app_last. apply Forall_drop. eapply Forall_impl; [|exact Hf]. cbn. intros f [H _]. lia. }
    apply Forall_app. split.
    - apply Forall_drop. eapply Forall_impl; [|exact Hf]. cbn. auto.
    - constructor; [now left|constructor].
  Qed.

  (* ==== the stack of retained records: chains of rollbacks of any depth (C04), counting (C16) ================ *)
  Definition rec_ts (bs : list N) : N :=
    match parse_change bs with Ok ch => ch_truncated_start T ch | _ => 0 end.

  (* one retained record: its stamp, its bytes, the contents and the stamp it restores *)
  Record sent := mkSent { k_st : N; k_bs : list N; k_b : list T; k_pst : N }.

  Definition the_dir (s : cvs) : list (N * list N) := match s_changes s with Some d => d | None => [] end.
  Definition stamps_le (dir : list (N * list N)) (c : N) : list N := filter (fun x => x <=? c) (map fst dir).

  (* applying the records top-down succeeds: each one is valid over the pages `mem`, restores the stamp the next
     one is filed under, and its truncation start does not exceed the stored length its predecessor leaves *)
  Fixpoint StackOK (dir : list (N * list N)) (mem : list ent) (cur lim : N) (stk : list sent) : Prop :=
    match stk with
    | [] => True
    | e :: rest =>
        k_st e = cur /\ lookup_file dir (k_st e) = Some (k_bs e) /\ RecOK mem (k_bs e) (k_b e) (k_pst e) /\
        k_pst e < k_st e /\ k_st e < two64 /\ rec_ts (k_bs e) <= lim /\
        StackOK dir mem (k_pst e) (rec_ts (k_bs e)) rest
    end.

  Definition Chain (s : cvs) (mem : list ent) (stk : list sent) : Prop :=
    NoDup (map fst (the_dir s)) /\
    stamps_le (the_dir s) (cv_stamp s) = rev (map k_st stk) /\
    StackOK (the_dir s) mem (cv_stamp s) (N.min (s_stored_len s) (s_prev_stored_len s)) stk.

  Lemma StackOK_lim dir mem cur lim lim' stk : lim <= lim' -> StackOK dir mem cur lim stk -> StackOK dir mem cur lim' stk.
  Proof. destruct stk as [|e rest]; [auto|]. cbn. intros H (A & B & C & D & E & F & G). repeat split; auto. lia. Qed.

  Lemma StackOK_stamps dir mem cur lim stk : StackOK dir mem cur lim stk -> Forall (fun e => k_st e <= cur) stk.
  Proof.
    revert cur lim; induction stk as [|e rest IH]; intros cur lim H; [constructor|].
    destruct H as (A & _ & _ & D & _ & _ & G). constructor; [lia|].
    eapply Forall_impl; [|exact (IH _ _ G)]. cbn. intros x Hx. lia.
  Qed.

  Lemma lookup_in dir k v : lookup_file dir k = Some v -> In (k, v) dir.
  Proof.
    induction dir as [|[k' v'] t IH]; cbn [lookup_file]; [discriminate|].
    destruct (k' =? k) eqn:E; intros H.
    - apply N.eqb_eq in E. inversion H; subst. now left.
    - right. auto.
  Qed.
  Lemma in_lookup dir k v : NoDup (map fst dir) -> In (k, v) dir -> lookup_file dir k = Some v.
  Proof.
    induction dir as [|[k' v'] t IH]; cbn [map fst lookup_file]; intros Hn Hi; [contradiction|].
    inversion Hn as [|? ? Hnk Hnt]; subst. destruct Hi as [Hi|Hi].
    - inversion Hi; subst. now rewrite N.eqb_refl.
    - destruct (k' =? k) eqn:E; [|auto]. apply N.eqb_eq in E. subst k'.
      exfalso. apply Hnk. apply in_map_iff. exists (k, v). auto.
  Qed.

  Lemma parse_rec_ts bs ch : parse_change bs = Ok ch -> rec_ts bs = ch_truncated_start T ch.
  Proof. unfold rec_ts. now intros ->. Qed.

  Lemma filter_all_id {A} (f : A -> bool) l : (forall x, In x l -> f x = true) -> filter f l = l.
  Proof.
    induction l as [|x l IH]; intros H; [reflexivity|]. cbn [filter].
    rewrite (H x (or_introl eq_refl)). f_equal. apply IH. intros y Hy. apply H. now right.
  Qed.

  Lemma filter_filter_le a b (l : list N) : a <= b ->
    filter (fun x => x <=? a) (filter (fun x => x <=? b) l) = filter (fun x => x <=? a) l.
  Proof.
    intros Hab. induction l as [|x l IHl]; [reflexivity|]. cbn [filter].
    destruct (x <=? b) eqn:E1.
    - cbn [filter]. destruct (x <=? a); now rewrite IHl.
    - destruct (x <=? a) eqn:E2; [|exact IHl].
      apply N.leb_le in E2. apply N.leb_gt in E1. lia.
  Qed.

  (* a rollback pops the stack *)
  Theorem chain_rollback s hd ents mem e rest s' r :
    InvG s hd ents mem -> Chain s mem (e :: rest) -> cv_rollback s = (s', r) ->
    r = Ok tt /\ InvG s' hd ents mem /\ view s' mem = k_b e /\ cv_stamp s' = k_pst e /\
    BaseOK s' mem (k_b e) /\ Chain s' mem rest /\ s_ssc s' = s_ssc s.
  Proof.
    intros HI (Hnd & Hst & (A & B & C & D & E & F & G)) HR.
    assert (Hdir : exists dir, s_changes s = Some dir /\ the_dir s = dir).
    { unfold the_dir in *. destruct (s_changes s) as [d|]; [eauto|]. cbn in B. discriminate. }
    destruct Hdir as (dir & Hd & Hdd). rewrite Hdd in *.
    assert (Hp : k_pst e < two64) by lia.
    rewrite A in B.
    destruct (rollback_ok s hd ents mem (k_b e) (k_pst e) dir (k_bs e) s' r HI Hd B C Hp HR)
      as (ch & Hpc & [(Gd & -> & I' & V' & St' & B' & C' & K' & L1 & L2)|(Gd & _ & _)]).
    2:{ rewrite (parse_rec_ts _ _ Hpc) in F. lia. }
    split; [reflexivity|]. split; [exact I'|]. split; [exact V'|]. split; [exact St'|]. split; [exact B'|].
    split; [|exact K'].
    assert (Hd' : the_dir s' = dir) by (unfold the_dir; now rewrite C', Hd).
    unfold Chain. rewrite Hd', St', L1, L2, N.min_id. split; [exact Hnd|]. split.
    - (* the stamps not above the restored stamp are those of the rest of the stack *)
      cbn [map rev] in Hst. rewrite <- A in Hst.
      pose proof (StackOK_stamps _ _ _ _ _ G) as Hle.
      unfold stamps_le in *.
      pose proof (filter_filter_le (k_pst e) (k_st e) (map fst dir) ltac:(lia)) as Hf.
      rewrite <- Hf, Hst, filter_app. cbn [filter].
      replace (k_st e <=? k_pst e) with false by (symmetry; apply N.leb_gt; lia).
      rewrite app_nil_r. apply filter_all_id. intros x Hx.
      apply in_rev, in_map_iff in Hx as (e2 & <- & He2). apply N.leb_le.
      eapply Forall_forall in Hle; [|exact He2]. exact Hle.
    - rewrite <- (parse_rec_ts _ _ Hpc). exact G.
  Qed.

  (* an empty stack: the rollback is refused and nothing changes *)
  Theorem chain_empty s mem : Chain s mem [] -> cv_rollback s = (s, Err EIo).
  Proof.
    intros (Hnd & Hst & _). unfold CvModel.cv_rollback, the_dir in *.
    destruct (s_changes s) as [dir|]; [|reflexivity].
    destruct (lookup_file dir (cv_stamp s)) as [bs|] eqn:E; [exfalso|reflexivity].
    apply lookup_in in E. cbn in Hst. unfold stamps_le in Hst.
    assert (Hin : In (cv_stamp s) (filter (fun x => x <=? cv_stamp s) (map fst dir))).
    { apply filter_In. split; [apply in_map_iff; exists (cv_stamp s, bs); auto|apply N.leb_refl]. }
    rewrite Hst in Hin. contradiction.
  Qed.

  (* ---- the record a commit writes, and where it is filed ------------------------------------------------------ *)
  Lemma ser_parse s hd ents mem : InvG s hd ents mem -> s_prev_stored_len s <= len (vals mem) -> fits s ->
    parse_change (ser_bytes s (ser_tv s mem)) =
      Ok (mkChange T (cv_stamp s) (s_prev_stored_len s) (N.min (s_prev_stored_len s) (s_stored_len s))
                   (ser_tv s mem) (s_prev_pushed s)).
  Proof.
    intros HI Bp (F1 & F2 & F3).
    pose proof HI as (B1 & _ & _ & _ & _ & _ & _ & _ & _ & _ & _ & B12).
    set (tc := s_prev_stored_len s - s_stored_len s).
    set (tv := ser_tv s mem).
    assert (Ltv : len tv = tc).
    { unfold tv, ser_tv. fold tc. destruct (0 <? tc) eqn:E.
      - apply N.ltb_lt in E. rewrite len_slice. subst tc. lia.
      - apply N.ltb_ge in E. rewrite len_nil. lia. }
    assert (Hstamp : cv_stamp s < two64).
    { destruct B1 as (V & _). unfold valid_header in V. rewrite !andb_true_iff in V.
      destruct V as ((_ & V) & _). now apply N.ltb_lt in V. }
    replace (N.min (s_prev_stored_len s) (s_stored_len s)) with (s_prev_stored_len s - len tv)
      by (rewrite Ltv; subst tc; lia).
    unfold ser_bytes. fold tv. fold tc. rewrite <- Ltv. apply parse_ser; auto; try lia;
      try (rewrite Ltv; subst tc; pose proof size_pos; nia).
  Qed.

  Lemma commit_dir s hd ents mem st hints s' wb :
    InvG s hd ents mem -> s_ssc s <> 0 -> st < two64 ->
    cv_commit s st hints = (s', Ok wb) ->
    s_changes s' = save_change_file T s st (ser_bytes s (ser_tv s mem)) /\
    s_prev_stored_len s' = s_stored_len s'.
  Proof.
    intros HI Hk Hst HC. unfold CvModel.cv_commit in HC.
    replace (s_ssc s =? 0) with false in HC by (symmetry; now apply N.eqb_neq).
    rewrite (serialize_eq _ _ _ _ HI) in HC.
    set (s1 := set_roll s (s_ssc s) _) in HC.
    assert (HI1 : InvG s1 hd ents mem) by (eapply InvG_same; [..|exact HI]; reflexivity).
    pose proof (update_stamp_InvG s1 hd ents mem st HI1 Hst) as HI1'.
    destruct (cv_write (update_stamp s1 st) hints) as [s2 r2] eqn:EW.
    destruct (write_settled _ _ _ _ _ _ _ HI1' EW)
      as [->|(wb' & ents' & -> & _ & _ & _ & _ & _ & _ & _ & _ & Q4)]; [discriminate|].
    inversion HC; subst s' wb'. cbn [save_prev set_prev s_changes s_prev_stored_len s_stored_len].
    split; [|reflexivity]. rewrite Q4. unfold update_stamp. destruct (_ =? st); reflexivity.
  Qed.

  (* ---- maintenance of the stack ------------------------------------------------------------------------------- *)
  Lemma StackOK_ts dir mem cur lim stk : StackOK dir mem cur lim stk -> Forall (fun e => rec_ts (k_bs e) <= lim) stk.
  Proof.
    revert cur lim; induction stk as [|e rest IH]; intros cur lim H; [constructor|].
    destruct H as (_ & _ & _ & _ & _ & F & G). constructor; [exact F|].
    eapply Forall_impl; [|exact (IH _ _ G)]. cbn. intros x Hx. lia.
  Qed.

  Lemma RecOK_transfer mem mem' bs b pst X :
    RecOK mem bs b pst -> rec_ts bs <= X -> take X (vals mem') = take X (vals mem) -> X <= len (vals mem') ->
    RecOK mem' bs b pst.
  Proof.
    intros (ch & Hp & Hps & Hts & Hb & Hnil) Hx Ht Hl. rewrite (parse_rec_ts _ _ Hp) in Hx.
    exists ch. repeat split; auto; [lia|].
    rewrite Hb. f_equal.
    rewrite <- (take_take (ch_truncated_start T ch) X (vals mem')) by lia.
    rewrite Ht. symmetry. apply take_take. lia.
  Qed.

  Lemma StackOK_transfer dir dir' mem mem' X : forall stk cur lim,
    StackOK dir mem cur lim stk -> lim <= X -> take X (vals mem') = take X (vals mem) -> X <= len (vals mem') ->
    (forall e, In e stk -> lookup_file dir' (k_st e) = Some (k_bs e)) ->
    StackOK dir' mem' cur lim stk.
  Proof.
    induction stk as [|e rest IH]; intros cur lim H Hx Ht Hl Hlk; [exact I|].
    destruct H as (A & B & C & D & E & F & G). cbn [StackOK].
    split; [exact A|]. split; [apply Hlk; now left|].
    split; [apply (RecOK_transfer mem mem' (k_bs e) (k_b e) (k_pst e) X C); [lia|exact Ht|exact Hl]|].
    split; [exact D|]. split; [exact E|]. split; [exact F|].
    apply IH; auto; [lia|]. intros e2 He2. apply Hlk. now right.
  Qed.

  Lemma StackOK_lookups dir mem : forall stk cur lim, StackOK dir mem cur lim stk ->
    forall e, In e stk -> lookup_file dir (k_st e) = Some (k_bs e).
  Proof.
    induction stk as [|e0 rest IH]; intros cur lim H e He; [contradiction|].
    destruct H as (_ & B & _ & _ & _ & _ & G). destruct He as [<-|He]; [exact B|]. eapply IH; eauto.
  Qed.

  Lemma NoDup_fst_inj (dir : list (N * list N)) k v v' :
    NoDup (map fst dir) -> In (k, v) dir -> In (k, v') dir -> v = v'.
  Proof.
    intros Hn H1 H2. apply (in_lookup _ _ _ Hn) in H1. apply (in_lookup _ _ _ Hn) in H2. congruence.
  Qed.

  Lemma NoDup_app_snoc {A} (l : list A) x : NoDup l -> ~ In x l -> NoDup (l ++ [x]).
  Proof.
    intros Hl Hx. apply NoDup_rev in Hl. rewrite <- (rev_involutive (l ++ [x])). apply NoDup_rev.
    rewrite rev_app_distr. cbn. constructor; [now rewrite <- in_rev|exact Hl].
  Qed.

  Lemma StackOK_firstn dir mem : forall n stk cur lim,
    StackOK dir mem cur lim stk -> StackOK dir mem cur lim (firstn n stk).
  Proof.
    induction n as [|n IH]; intros stk cur lim H; [exact I|].
    destruct stk as [|e rest]; [exact I|]. cbn [firstn StackOK] in *.
    destruct H as (A & B & C & D & E & F & G). repeat split; auto.
  Qed.

  Lemma map_fst_filter (f : N -> bool) (dir : list (N * list N)) :
    map fst (filter (fun x => f (fst x)) dir) = filter f (map fst dir).
  Proof.
    induction dir as [|[k v] t IH]; [reflexivity|]. cbn [filter map fst].
    destruct (f k); cbn [map fst]; now rewrite IH.
  Qed.

  Lemma NoDup_skipn {A} (l : list A) : forall n, NoDup l -> NoDup (skipn n l).
  Proof.
    induction l as [|x l IH]; intros n H; [now rewrite skipn_nil|].
    destruct n as [|n]; [exact H|]. cbn [skipn]. apply IH. now inversion H.
  Qed.

  (* a commit with a stamp above the current one pushes its record and keeps the newest k-1 older ones *)
  Theorem chain_commit s hd ents mem b stk st hints s' wb :
    InvG s hd ents mem -> BaseOK s mem b -> Chain s mem stk -> s_ssc s <> 0 ->
    cv_stamp s < st -> st < two64 -> fits s ->
    cv_commit s st hints = (s', Ok wb) ->
    exists ents' bs,
      InvG s' (s_hdr s') ents' ents' /\ vals ents' = view s mem /\ view s' ents' = view s mem /\
      cv_stamp s' = st /\ s_ssc s' = s_ssc s /\ BaseOK s' ents' (view s mem) /\
      Chain s' ents' (mkSent st bs b (cv_stamp s) :: firstn (N.to_nat (s_ssc s - 1)) stk).
  Proof.
    intros HI HB (Hnd & Hstm & Hstk) Hk Hlt Hst Hfit HC.
    pose proof HB as (Bp & Bb).
    pose proof HI as (_ & _ & _ & _ & _ & _ & _ & _ & _ & _ & _ & B12).
    destruct (commit_ok _ _ _ _ _ _ _ _ _ HI HB Hk Hst Hfit HC)
      as [Hp|(wb' & ents' & dir' & bs & _ & I2 & M2 & V2 & L2 & P2 & St2 & K2 & B2' & C2 & Lk & Rec)]; [discriminate|].
    destruct (commit_dir _ _ _ _ _ _ _ _ HI Hk Hst HC) as (Cd & Pp).
    set (data := ser_bytes s (ser_tv s mem)) in *.
    unfold save_change_file in Cd. fold (the_dir s) in Cd.
    set (dirf := filter (fun f => (fst f <? st) && (fst f <=? cv_stamp s)) (the_dir s)) in *.
    set (ex := len dirf - (s_ssc s - 1)) in *.
    rewrite C2 in Cd. inversion Cd as [Hdir']. clear Cd.
    assert (Hbs : bs = data).
    { rewrite Hdir' in Lk. rewrite lookup_app_last in Lk; [now inversion Lk|].
      apply Forall_drop. unfold dirf. apply Forall_forall. intros f Hf.
      apply filter_In in Hf as [_ Hf]. apply andb_true_iff in Hf as [Hf _]. apply N.ltb_lt in Hf. lia. }
    assert (Hfst : map fst dirf = rev (map k_st stk)).
    { unfold dirf. rewrite <- Hstm. unfold stamps_le. rewrite <- map_fst_filter.
      f_equal. apply filter_ext. intros [k v]. cbn [fst].
      destruct (k <=? cv_stamp s) eqn:E; [|now rewrite andb_false_r].
      apply N.leb_le in E. rewrite andb_true_r. apply N.ltb_lt. lia. }
    assert (Hlen : len dirf = len stk).
    { unfold len. rewrite <- (map_length fst dirf), Hfst, rev_length, map_length. reflexivity. }
    set (kept := firstn (N.to_nat (s_ssc s - 1)) stk).
    assert (Hkept : map fst (drop ex dirf) = rev (map k_st kept)).
    { rewrite map_drop, Hfst. unfold drop. rewrite skipn_rev, map_length. unfold kept. rewrite <- firstn_map.
      f_equal. subst ex. rewrite Hlen. unfold len.
      destruct (Nat.le_gt_cases (length stk) (N.to_nat (s_ssc s - 1))) as [Hc|Hc].
      - replace (N.to_nat (N.of_nat (length stk) - (s_ssc s - 1))) with O by lia.
        rewrite Nat.sub_0_r. rewrite <- (map_length k_st stk). rewrite firstn_all.
        symmetry. apply firstn_all2. rewrite map_length. lia.
      - f_equal. lia. }
    assert (Hd' : the_dir s' = drop ex dirf ++ [(st, bs)]).
    { unfold the_dir. rewrite C2, Hdir', Hbs. reflexivity. }
    assert (Hsub : forall x, In x (drop ex dirf) -> In x (the_dir s) /\ fst x <= cv_stamp s).
    { intros x Hx. assert (Hx' : In x dirf).
      { rewrite <- (take_drop ex dirf). apply in_or_app. now right. }
      unfold dirf in Hx'. apply filter_In in Hx' as [Hx1 Hx2]. split; [exact Hx1|].
      apply andb_true_iff in Hx2 as [_ Hx2]. now apply N.leb_le in Hx2. }
    assert (Hnd' : NoDup (map fst (the_dir s'))).
    { rewrite Hd', map_app. cbn [map fst]. apply NoDup_app_snoc.
      - rewrite map_drop. apply NoDup_skipn. unfold dirf.
        rewrite (map_fst_filter (fun k => (k <? st) && (k <=? cv_stamp s))). now apply NoDup_filter.
      - intros Hin. apply in_map_iff in Hin as (x & Hx1 & Hx2). apply Hsub in Hx2 as [_ Hx2]. lia. }
    exists ents', bs.
    assert (Hview' : view s' ents' = view s mem).
    { unfold view. rewrite L2, P2, app_nil_r, take_all by lia. exact V2. }
    split; [exact I2|]. split; [exact V2|]. split; [exact Hview'|]. split; [exact St2|].
    split; [exact K2|]. split; [exact B2'|].
    unfold Chain. rewrite St2, Pp, L2, N.min_id. split; [exact Hnd'|]. split.
    - rewrite Hd'. unfold stamps_le. rewrite map_app, Hkept. cbn [map fst rev k_st].
      apply filter_all_id. intros x Hx. apply N.leb_le. apply in_app_or in Hx as [Hx|[<-|[]]]; [|lia].
      rewrite <- Hkept in Hx. apply in_map_iff in Hx as (y & <- & Hy). apply Hsub in Hy as [_ Hy]. lia.
    - cbn [StackOK k_st k_bs k_b k_pst]. split; [reflexivity|].
      split; [rewrite Hd'; apply lookup_app_last; apply Forall_forall; intros x Hx; apply Hsub in Hx as [_ Hx]; lia|].
      split; [exact Rec|]. split; [exact Hlt|]. split; [exact Hst|].
      assert (Hts : rec_ts bs = N.min (s_prev_stored_len s) (s_stored_len s)).
      { rewrite Hbs. unfold rec_ts, data. now rewrite (ser_parse _ _ _ _ HI Bp Hfit). }
      split.
      { destruct Rec as (ch & Hpc & _ & Hle & _). rewrite (parse_rec_ts _ _ Hpc). exact Hle. }
      (* the older records stay valid over the new pages *)
      rewrite Hts.
      assert (Hx : take (s_stored_len s) (vals ents') = take (s_stored_len s) (vals mem)).
      { rewrite V2. unfold view. rewrite take_app_le by (rewrite len_take; lia). apply take_take. lia. }
      eapply (StackOK_transfer (the_dir s) (the_dir s') mem ents' (s_stored_len s) kept).
      + apply StackOK_firstn. rewrite N.min_comm. exact Hstk.
      + lia.
      + exact Hx.
      + rewrite V2. unfold view. rewrite len_app, len_take. lia.
      + intros e He.
        assert (Hold : lookup_file (the_dir s) (k_st e) = Some (k_bs e)).
        { eapply StackOK_lookups; [exact Hstk|]. unfold kept in He.
          rewrite <- (firstn_skipn (N.to_nat (s_ssc s - 1)) stk). apply in_or_app. now left. }
        apply lookup_in in Hold.
        assert (Hin : In (k_st e) (map fst (drop ex dirf))).
        { rewrite Hkept. apply -> in_rev. apply in_map. exact He. }
        apply in_map_iff in Hin as ([k v] & Hk1 & Hk2). cbn [fst] in Hk1. subst k.
        destruct (Hsub _ Hk2) as [Hk3 _].
        assert (v = k_bs e) by (exact (NoDup_fst_inj (the_dir s) (k_st e) v (k_bs e) Hnd Hk3 Hold)). subst v.
        apply in_lookup; [exact Hnd'|]. rewrite Hd'. apply in_or_app. now left.
  Qed.

  (* ---- the reference of C04/C16: contents + stamp + baseline + stack of committed snapshots ------------------- *)
  Record sspec := mkSS { ss_cur : list T; ss_stamp : N; ss_base : list T; ss_undo : list (list T * N) }.

  (* rollback_before on the reference: pop while the stamp is not below the target *)
  Fixpoint ss_rb (undo : list (list T * N)) (cur : list T) (stamp : N) (base : list T) (t : N) : sspec :=
    match undo with
    | [] => mkSS cur stamp base []
    | (c, st) :: rest => if stamp <? t then mkSS cur stamp base undo else ss_rb rest c st c t
    end.

  Definition ss_step (k : N) (a : sspec) (o : op) : sspec :=
    match o with
    | Push vs => mkSS (ss_cur a ++ vs) (ss_stamp a) (ss_base a) (ss_undo a)
    | Trunc n => mkSS (if n <? len (ss_cur a) then take n (ss_cur a) else ss_cur a) (ss_stamp a) (ss_base a) (ss_undo a)
    | StampedWrite st _ =>
        mkSS (ss_cur a) st (ss_cur a) (firstn (N.to_nat k) ((ss_base a, ss_stamp a) :: ss_undo a))
    | Rollback => match ss_undo a with (c, st) :: rest => mkSS c st c rest | [] => a end
    | RollbackBefore t => ss_rb (ss_undo a) (ss_cur a) (ss_stamp a) (ss_base a) t
    | _ => a
    end.
  Definition ss_run (k : N) (a : sspec) (h : list op) : sspec := fold_left (ss_step k) h a.

  Definition snap (e : sent) : list T * N := (k_b e, k_pst e).

  Definition RC (s : cvs) (a : sspec) : Prop :=
    exists hd ents mem stk, InvG s hd ents mem /\ BaseOK s mem (ss_base a) /\ Chain s mem stk /\
      view s mem = ss_cur a /\ cv_stamp s = ss_stamp a /\ map snap stk = ss_undo a.

  (* the operations of a commit/rollback history outside the known class: a truncation must not go below the
     truncation start of the retained record of the current stamp (decidable: rollback_refuses), commits use
     increasing stamps *)
  Definition cop_ok (s : cvs) (o : op) : Prop :=
    match o with
    | Push _ | Rollback | RollbackBefore _ => True
    | Trunc n => rollback_refuses (cv_truncate s n) = false
    | StampedWrite st _ => cv_stamp s < st /\ st < two64 /\ fits s
    | _ => False
    end.
  Fixpoint chain_hist (s : cvs) (h : list op) : Prop :=
    match h with
    | [] => True
    | o :: t => cop_ok s o /\ chain_hist (fst (cv_step s o)) t
    end.

  Lemma view_unique s hd ents mem hd' ents' mem' :
    InvG s hd ents mem -> InvG s hd' ents' mem' -> view s mem = view s mem'.
  Proof.
    intros H1 H2. pose proof (collect_view _ _ _ _ H1) as C1. rewrite (collect_view _ _ _ _ H2) in C1.
    now inversion C1.
  Qed.

  Lemma Chain_same s s' mem stk :
    s_changes s' = s_changes s -> s_hdr s' = s_hdr s -> s_stored_len s' = s_stored_len s ->
    s_prev_stored_len s' = s_prev_stored_len s -> Chain s mem stk -> Chain s' mem stk.
  Proof. unfold Chain, the_dir, cv_stamp. intros -> -> -> ->. auto. Qed.

  Lemma rb_loop_chain t : forall stk s a hd ents mem,
    InvG s hd ents mem -> BaseOK s mem (ss_base a) -> Chain s mem stk ->
    view s mem = ss_cur a -> cv_stamp s = ss_stamp a -> map snap stk = ss_undo a ->
    exists s', rb_loop T size dec s t (map k_st stk) = (s', Ok tt) /\
      RC s' (ss_rb (ss_undo a) (ss_cur a) (ss_stamp a) (ss_base a) t) /\ s_ssc s' = s_ssc s.
  Proof.
    induction stk as [|e rest IH]; intros s a hd ents mem HI HB HC Hv Hs Hu.
    - cbn [map rb_loop]. exists s. split; [reflexivity|]. split; [|reflexivity].
      cbn in Hu. rewrite <- Hu. cbn [ss_rb]. exists hd, ents, mem, [].
      cbn [ss_base ss_cur ss_stamp ss_undo map].
      repeat (first [assumption | reflexivity | split]).
    - cbn [map rb_loop]. cbn [map] in Hu. rewrite <- Hu. cbn [ss_rb snap]. rewrite <- Hs.
      destruct (cv_stamp s <? t) eqn:Et.
      + exists s. split; [reflexivity|]. split; [|reflexivity].
        exists hd, ents, mem, (e :: rest). cbn [ss_base ss_cur ss_stamp ss_undo map snap].
        repeat (first [assumption | reflexivity | split]).
      + pose proof HC as (_ & _ & (A & _)). rewrite A, N.eqb_refl. cbn [negb].
        destruct (cv_rollback s) as [s1 r1] eqn:ER.
        destruct (chain_rollback _ _ _ _ _ _ _ _ HI HC ER) as (-> & I1 & V1 & S1 & B1 & C1 & K1).
        destruct (IH s1 (mkSS (k_b e) (k_pst e) (k_b e) (map snap rest)) hd ents mem I1 B1 C1 V1 S1 eq_refl)
          as (s' & L & R' & K').
        exists s'. split; [exact L|]. split; [exact R'|]. congruence.
  Qed.

  (* one step of a commit/rollback history refines the snapshot-stack reference *)
  Theorem chain_step s a o s' r :
    RC s a -> s_ssc s <> 0 -> cop_ok s o -> cv_step s o = (s', r) ->
    r = Panic \/
    (RC s' (ss_step (s_ssc s) a o) /\ s_ssc s' = s_ssc s /\
     match o with
     | Rollback => r = match ss_undo a with [] => Err EIo | _ => Ok false end
     | RollbackBefore _ => r = Ok false \/ (r = Err EIo /\ s_changes s = None)
     | _ => exists b, r = Ok b
     end).
  Proof.
    intros (hd & ents & mem & stk & HI & HB & HC & Hv & Hs & Hu) Hk Hok HS.
    destruct o as [vs|n|hints|hints| | |st hints| |t]; cbn [cop_ok] in Hok; try contradiction;
      cbn [CvModel.cv_step] in HS.
    - (* Push *)
      inversion HS; subst s' r. right. split; [|split; [reflexivity|eauto]].
      exists hd, ents, mem, stk. cbn [ss_step ss_cur ss_stamp ss_base ss_undo].
      split; [exact HI|]. split; [exact HB|]. split; [eapply Chain_same; [..|exact HC]; reflexivity|].
      split; [|auto]. unfold view. cbn. rewrite <- Hv. unfold view. now rewrite app_assoc.
    - (* Trunc *)
      inversion HS; subst s' r. right. split; [|split; [|eauto]].
      2:{ destruct (edit_step s hd ents mem (Trunc n) HI I) as (_ & (_ & _ & _ & K & _) & _). exact K. }
      destruct (edit_step s hd ents mem (Trunc n) HI I) as (I1 & (S1 & S2 & S3 & S4 & S5) & L1 & _).
      cbn [CvModel.cv_step fst] in *.
      exists hd, ents, mem, stk. cbn [ss_step ss_cur ss_stamp ss_base ss_undo].
      split; [exact I1|]. split; [unfold BaseOK; now rewrite S2, S3|].
      split.
      { destruct HC as (Hnd & Hstm & Hstk). unfold Chain, the_dir, cv_stamp. rewrite S5, S1, S3.
        fold (cv_stamp s). fold (the_dir s). split; [exact Hnd|]. split; [exact Hstm|].
        destruct stk as [|e rest]; [exact I|].
        destruct Hstk as (A & B & C & D & E & F & G). cbn [StackOK]. repeat split; auto.
        unfold rollback_refuses in Hok. unfold cv_stamp in Hok. rewrite S5, S1 in Hok. fold (cv_stamp s) in Hok.
        assert (Hd : s_changes s = Some (the_dir s)).
        { unfold the_dir in *. destruct (s_changes s); [reflexivity|]. cbn in B. discriminate. }
        rewrite Hd, <- A, B in Hok. destruct C as (ch & Hp & _). rewrite Hp in Hok.
        apply N.ltb_ge in Hok. rewrite (parse_rec_ts _ _ Hp) in *. lia. }
      split; [|rewrite <- Hs; unfold cv_stamp; rewrite S1; auto].
      (* the view after a truncation, through the C03 refinement *)
      assert (HR : R s (mkSpec (view s mem) (cv_stamp s) (vals ents) (h_stamp hd))).
      { exists hd, ents, mem. split; [exact HI|]. cbn. auto. }
      destruct (step_R s _ (Trunc n) _ _ HR I eq_refl) as [Hp|(b0 & _ & (hd2 & ents2 & mem2 & I2 & V2 & _))];
        [discriminate|].
      cbn [CvModel.cv_step spec_step a_cur] in *. rewrite <- Hv.
      rewrite (view_unique _ _ _ _ _ _ _ I1 I2). symmetry. exact V2.
    - (* commit *)
      destruct Hok as (Hlt & Hst & Hfit).
      destruct (commit_ok _ _ _ _ _ _ _ _ _ HI HB Hk Hst Hfit HS) as [->|(wb & ents' & dir' & bs & -> & _)];
        [now left|right].
      destruct (chain_commit _ _ _ _ _ _ _ _ _ _ HI HB HC Hk Hlt Hst Hfit HS)
        as (ents2 & bs2 & I2 & V2 & W2 & St2 & K2 & B2 & C2).
      split; [|split; [exact K2|eauto]].
      exists (s_hdr s'), ents2, ents2, (mkSent st bs2 (ss_base a) (cv_stamp s) :: firstn (N.to_nat (s_ssc s - 1)) stk).
      cbn [ss_step ss_cur ss_stamp ss_base ss_undo].
      split; [exact I2|]. split; [rewrite <- Hv; exact B2|]. split; [exact C2|].
      split; [rewrite W2; exact Hv|]. split; [exact St2|].
      replace (N.to_nat (s_ssc s)) with (S (N.to_nat (s_ssc s - 1))) by lia.
      cbn [map firstn snap k_b k_pst]. rewrite Hs, <- Hu, firstn_map. reflexivity.
    - (* rollback *)
      unfold unit_res in HS. destruct (cv_rollback s) as [s1 r1] eqn:ER. right.
      destruct stk as [|e rest].
      + rewrite (chain_empty _ _ HC) in ER. inversion ER; subst s1 r1. inversion HS; subst s' r.
        cbn in Hu. rewrite <- Hu. cbn [ss_step]. rewrite <- Hu.
        split; [|split; reflexivity].
        exists hd, ents, mem, []. repeat (first [assumption | reflexivity | split]).
      + destruct (chain_rollback _ _ _ _ _ _ _ _ HI HC ER) as (-> & I1 & V1 & S1 & B1 & C1 & K1).
        inversion HS; subst s' r. cbn [map] in Hu. cbn [ss_step]. rewrite <- Hu. cbn [snap].
        split; [|split; [exact K1|reflexivity]].
        exists hd, ents, mem, rest. cbn [ss_base ss_cur ss_stamp ss_undo].
        repeat (first [assumption | reflexivity | split]).
    - (* rollback_before *)
      unfold unit_res, cv_rollback_before in HS. right.
      destruct (s_changes s) as [dir|] eqn:Ed.
      + pose proof HC as (_ & Hstm & _). unfold the_dir in Hstm. rewrite Ed in Hstm.
        unfold stamps_le in Hstm. rewrite Hstm, rev_involutive in HS.
        destruct (rb_loop_chain t stk s a hd ents mem HI HB HC Hv Hs Hu) as (s2 & L & R2 & K2).
        rewrite L in HS. inversion HS; subst s' r. split; [exact R2|]. split; [exact K2|now left].
      + inversion HS; subst s' r.
        assert (stk = []).
        { destruct HC as (_ & Hstm & _). unfold the_dir in Hstm. rewrite Ed in Hstm. cbn in Hstm.
          destruct stk as [|e rest]; [reflexivity|]. cbn in Hstm. destruct (rev (map k_st rest)); discriminate. }
        subst stk. cbn in Hu. cbn [ss_step]. rewrite <- Hu. cbn [ss_rb].
        split; [|split; [reflexivity|now right]].
        exists hd, ents, mem, []. cbn [ss_base ss_cur ss_stamp ss_undo map].
        repeat (first [assumption | reflexivity | split]).
  Qed.

  (* ---- all commit/rollback histories outside the known class ---------------------------------------------------- *)
  Theorem chain_run : forall h s a, RC s a -> s_ssc s <> 0 -> chain_hist s h -> no_panic s h ->
    RC (cv_run s h) (ss_run (s_ssc s) a h) /\ s_ssc (cv_run s h) = s_ssc s.
  Proof.
    induction h as [|o t IH]; intros s a HR Hk Hch Hnp; [split; [exact HR|reflexivity]|].
    destruct Hch as [Ho Ht]. destruct Hnp as [Hn1 Hn2].
    destruct (cv_step s o) as [s' r] eqn:ES. cbn [fst snd] in *.
    destruct (chain_step s a o s' r HR Hk Ho ES) as [->|(R' & K' & _)]; [congruence|].
    unfold CvModel.cv_run, ss_run. cbn [fold_left]. rewrite ES. cbn [fst].
    destruct (IH s' (ss_step (s_ssc s) a o) R' ltac:(now rewrite K') Ht Hn2) as [IH1 IH2].
    rewrite K' in IH1. split; [exact IH1|]. unfold CvModel.cv_run in IH2. now rewrite IH2.
  Qed.

  Lemma RC_collect s a : RC s a -> cv_collect T size dec decompress s = Ok (ss_cur a) /\ cv_stamp s = ss_stamp a.
  Proof.
    intros (hd & ents & mem & stk & HI & _ & _ & Hv & Hs & _).
    split; [rewrite (collect_view _ _ _ _ HI); now rewrite Hv|exact Hs].
  Qed.

  (* a single rollback, without the Panic alternative *)
  Lemma rollback_RC s a s' r : RC s a -> cv_step s Rollback = (s', r) ->
    RC s' (ss_step (s_ssc s) a Rollback) /\ s_ssc s' = s_ssc s /\
    r = match ss_undo a with [] => Err EIo | _ => Ok false end /\
    (ss_undo a = [] -> s' = s).
  Proof.
    intros (hd & ents & mem & stk & HI & HB & HC & Hv & Hs & Hu) HS.
    cbn [CvModel.cv_step] in HS. unfold unit_res in HS. destruct (cv_rollback s) as [s1 r1] eqn:ER.
    destruct stk as [|e rest].
    - rewrite (chain_empty _ _ HC) in ER. inversion ER; subst s1 r1. inversion HS; subst s' r.
      cbn in Hu. cbn [ss_step]. rewrite <- Hu.
      split; [|repeat split; reflexivity].
      exists hd, ents, mem, []. repeat (first [assumption | reflexivity | split]).
    - destruct (chain_rollback _ _ _ _ _ _ _ _ HI HC ER) as (-> & I1 & V1 & S1 & B1 & C1 & K1).
      inversion HS; subst s' r. cbn [map] in Hu. cbn [ss_step]. rewrite <- Hu. cbn [snap].
      split; [|split; [exact K1|split; [reflexivity|discriminate]]].
      exists hd, ents, mem, rest. cbn [ss_base ss_cur ss_stamp ss_undo].
      repeat (first [assumption | reflexivity | split]).
  Qed.

  (* ---- C16_comp_count ------------------------------------------------------------------------------------------- *)
  Fixpoint rollbacks_ok (s : cvs) (n : nat) : Prop :=
    match n with
    | O => True
    | S m => snd (cv_step s Rollback) = Ok false /\ rollbacks_ok (fst (cv_step s Rollback)) m
    end.

  (* as many consecutive rollbacks succeed as the reference has snapshots, each landing on the next snapshot,
     and the following one is refused and changes nothing *)
  Theorem count_rollbacks : forall n s a, RC s a -> length (ss_undo a) = n ->
    rollbacks_ok s n /\
    RC (cv_run s (repeat Rollback n)) (ss_run (s_ssc s) a (repeat Rollback n)) /\
    ss_undo (ss_run (s_ssc s) a (repeat Rollback n)) = [] /\
    cv_step (cv_run s (repeat Rollback n)) Rollback = (cv_run s (repeat Rollback n), Err EIo).
  Proof.
    induction n as [|n IH]; intros s a HR Hn.
    - cbn [repeat CvModel.cv_run ss_run fold_left rollbacks_ok].
      destruct (ss_undo a) eqn:Eu; [|discriminate].
      split; [exact I|]. split; [exact HR|]. split; [reflexivity|].
      destruct (cv_step s Rollback) as [s' r] eqn:ES.
      destruct (rollback_RC s a s' r HR ES) as (_ & _ & Hr & Hs). rewrite Eu in Hr, Hs. now rewrite Hr, (Hs eq_refl).
    - destruct (cv_step s Rollback) as [s' r] eqn:ES.
      destruct (rollback_RC s a s' r HR ES) as (R' & K' & Hr & _).
      destruct (ss_undo a) as [|[c st] rest] eqn:Eu; [discriminate|].
      assert (Hn' : length (ss_undo (ss_step (s_ssc s) a Rollback)) = n).
      { cbn [ss_step]. rewrite Eu. cbn in *. lia. }
      destruct (IH s' _ R' Hn') as (I1 & I2 & I3 & I4). rewrite K' in *.
      cbn [repeat rollbacks_ok]. unfold CvModel.cv_run, ss_run in *. cbn [fold_left]. rewrite ES. cbn [fst snd].
      split; [split; [exact Hr|exact I1]|]. split; [exact I2|]. split; [exact I3|exact I4].
  Qed.

  Definition is_pc (o : op) : Prop := match o with Push _ | StampedWrite _ _ => True | _ => False end.
  Fixpoint commits (h : list op) : nat :=
    match h with [] => O | StampedWrite _ _ :: t => S (commits t) | _ :: t => commits t end.

  Lemma ss_count k : forall h a, Forall is_pc h -> (length (ss_undo a) <= N.to_nat k)%nat ->
    length (ss_undo (ss_run k a h)) = Nat.min (N.to_nat k) (length (ss_undo a) + commits h).
  Proof.
    induction h as [|o t IH]; intros a Hp Hl.
    - cbn. lia.
    - inversion Hp as [|? ? Ho Ht]; subst. unfold ss_run. cbn [fold_left]. fold (ss_run k (ss_step k a o) t).
      destruct o; try contradiction.
      + rewrite IH; auto.
      + rewrite IH; auto; cbn [ss_step ss_undo commits]; rewrite firstn_length; cbn [length]; lia.
  Qed.

  (* the initial import with retention k *)
  Lemma init_RC k s0 : cv_import_k T size fmt vver k None [] [] = Ok s0 ->
    RC s0 (mkSS [] 0 [] []) /\ s_ssc s0 = k.
  Proof.
    unfold cv_import_k. destruct (cv_import T size fmt vver [] []) as [s1| |] eqn:E; try discriminate.
    cbn [bind]. intros H. inversion H; subst s0. clear H.
    destruct (init_R s1 E) as (hd & ents & mem & HI & R1 & R2 & R3 & R4).
    assert (F : s_prev_pushed s1 = [] /\ s_prev_stored_len s1 = 0 /\ s_changes s1 = None).
    { clear - E. unfold cv_import in E. change (len (@nil cell)) with 0 in E.
      change ((0 <? 0) && (0 <? HEADER_OFFSET)) with false in E. cbv iota in E.
      change (0 =? 0) with true in E. cbv iota in E.
      destruct (lift_r _) as [d| |]; cbn [bind] in E; try discriminate.
      unfold pages_import, decode_pages in E. cbn [chunks chunks_f length map collect_res bind] in E.
      inversion E. cbn. auto. }
    destruct F as (F1 & F2 & F3).
    split; [|reflexivity].
    exists hd, ents, mem, []. cbn [ss_base ss_cur ss_stamp ss_undo map].
    split; [eapply InvG_same; [..|exact HI]; reflexivity|].
    split.
    { unfold BaseOK. cbn [set_roll s_prev_stored_len s_prev_pushed]. rewrite F1, F2, take_0. split; [lia|reflexivity]. }
    split.
    { unfold Chain, the_dir. cbn [set_roll s_changes]. cbn. repeat split; constructor. }
    split; [unfold view in *; cbn [set_roll s_stored_len s_pushed]; symmetry; exact R1|].
    split; [symmetry; exact R2|reflexivity].
  Qed.

  (* C16_comp_count: after any push/commit history (n commits, increasing stamps, retention k > 0) exactly
     min(k, n) consecutive rollbacks succeed, their results follow the snapshot stack, the next one is refused *)
  Theorem comp_count k s0 h :
    cv_import_k T size fmt vver k None [] [] = Ok s0 -> k <> 0 ->
    Forall is_pc h -> chain_hist s0 h -> no_panic s0 h ->
    let s := cv_run s0 h in
    let a := ss_run k (mkSS [] 0 [] []) h in
    let m := Nat.min (N.to_nat k) (commits h) in
    rollbacks_ok s m /\
    RC (cv_run s (repeat Rollback m)) (ss_run k a (repeat Rollback m)) /\
    cv_step (cv_run s (repeat Rollback m)) Rollback = (cv_run s (repeat Rollback m), Err EIo).
  Proof.
    intros Hi Hk Hp Hch Hnp. cbv zeta.
    destruct (init_RC k s0 Hi) as (R0 & K0).
    destruct (chain_run h s0 _ R0 ltac:(now rewrite K0) Hch Hnp) as (R1 & K1). rewrite K0 in *.
    pose proof (ss_count k h (mkSS [] 0 [] []) Hp ltac:(cbn; lia)) as Hc. cbn [ss_undo length] in Hc.
    rewrite Nat.add_0_l in Hc.
    destruct (count_rollbacks _ _ _ R1 Hc) as (C1 & C2 & _ & C4). rewrite K1 in C2.
    split; [exact C1|]. split; [exact C2|exact C4].
  Qed.

  (* ---- rollback_before: structure of a refusal ------------------------------------------------------------------ *)
  (* whatever the records are: when the walk stops with an error, the state is the one reached by the
     rollbacks that succeeded before it (each of which is exact by chain_rollback when its record is valid) *)
  Inductive rolled : cvs -> cvs -> Prop :=
  | rolled_refl s : rolled s s
  | rolled_step s s1 s2 : cv_rollback s = (s1, Ok tt) -> rolled s1 s2 -> rolled s s2.

  Lemma rb_loop_rolled t : forall stamps s s' r, rb_loop T size dec s t stamps = (s', r) -> rolled s s'.
  Proof.
    induction stamps as [|fs rest IH]; intros s s' r H; cbn [rb_loop] in H.
    - inversion H. constructor.
    - destruct (cv_stamp s <? t); [inversion H; constructor|].
      destruct (negb (fs =? cv_stamp s)); [inversion H; constructor|].
      destruct (cv_rollback s) as [s1 r1] eqn:ER. destruct r1 as [u|e|].
      + destruct u. eapply rolled_step; [exact ER|]. eapply IH; eauto.
      + inversion H; subst. rewrite (rollback_fail_unchanged _ _ _ ER). constructor.
      + inversion H; subst. unfold CvModel.cv_rollback, cv_undo in ER.
        destruct (s_changes s); [|discriminate]. destruct (lookup_file _ _); [|discriminate].
        destruct (parse_change _); try discriminate.
        * destruct (_ <? _); [discriminate|]. destruct (ch_truncated_values T _); discriminate.
        * inversion ER. constructor.
  Qed.

  Theorem rollback_before_passed s t s' r : cv_rollback_before T size dec s t = (s', r) -> rolled s s'.
  Proof.
    unfold cv_rollback_before. destruct (s_changes s); [|intros H; inversion H; constructor].
    apply rb_loop_rolled.
  Qed.

  (* rollback_before outside the known class: it never fails midway and ends exactly where the reference ends *)
  Theorem rollback_before_RC s a t s' r : RC s a -> cv_step s (RollbackBefore t) = (s', r) ->
    RC s' (ss_rb (ss_undo a) (ss_cur a) (ss_stamp a) (ss_base a) t) /\ s_ssc s' = s_ssc s /\
    (r = Ok false \/ (r = Err EIo /\ s_changes s = None /\ s' = s)).
  Proof.
    intros (hd & ents & mem & stk & HI & HB & HC & Hv & Hs & Hu) HS.
    cbn [CvModel.cv_step] in HS. unfold unit_res, cv_rollback_before in HS.
    destruct (s_changes s) as [dir|] eqn:Ed.
    - pose proof HC as (_ & Hstm & _). unfold the_dir in Hstm. rewrite Ed in Hstm.
      unfold stamps_le in Hstm. rewrite Hstm, rev_involutive in HS.
      destruct (rb_loop_chain t stk s a hd ents mem HI HB HC Hv Hs Hu) as (s2 & L & R2 & K2).
      rewrite L in HS. inversion HS; subst s' r. split; [exact R2|]. split; [exact K2|now left].
    - inversion HS; subst s' r.
      assert (stk = []).
      { destruct HC as (_ & Hstm & _). unfold the_dir in Hstm. rewrite Ed in Hstm. cbn in Hstm.
        destruct stk as [|e rest]; [reflexivity|]. cbn in Hstm. destruct (rev (map k_st rest)); discriminate. }
      subst stk. cbn in Hu. rewrite <- Hu. cbn [ss_rb].
      split; [|split; [reflexivity|right; auto]].
      exists hd, ents, mem, []. cbn [ss_base ss_cur ss_stamp ss_undo map].
      repeat (first [assumption | reflexivity | split]).
  Qed.

  (* where the reference walk ends: below the target, or on the oldest retained snapshot; the snapshots it
     passed (all with stamps not below the target) are popped *)
  Lemma ss_rb_ends t : forall undo cur stamp base,
    let a' := ss_rb undo cur stamp base t in
    (ss_stamp a' < t \/ ss_undo a' = []) /\
    exists pre, undo = pre ++ ss_undo a' /\
      (pre = [] -> ss_cur a' = cur /\ ss_stamp a' = stamp) /\
      (pre <> [] -> t <= stamp /\ exists pre', pre = pre' ++ [(ss_cur a', ss_stamp a')]).
  Proof.
    induction undo as [|[c st] rest IH]; intros cur stamp base; cbn [ss_rb].
    - cbn. split; [now right|]. exists []. split; [reflexivity|]. split; [auto|congruence].
    - destruct (stamp <? t) eqn:E.
      + cbn. split; [left; now apply N.ltb_lt|]. exists []. split; [reflexivity|]. split; [auto|congruence].
      + apply N.ltb_ge in E. specialize (IH c st c). cbv zeta in IH.
        destruct IH as (IH1 & pre & Hp & Hn & Hc). split; [exact IH1|].
        exists ((c, st) :: pre). split; [cbn; now rewrite <- Hp|]. split; [discriminate|].
        intros _. split; [exact E|].
        destruct pre as [|x pre0].
        * destruct (Hn eq_refl) as (-> & ->). exists []. reflexivity.
        * destruct (Hc ltac:(discriminate)) as (_ & pre' & Hpre). exists ((c, st) :: pre'). cbn. now rewrite Hpre.
  Qed.
End Inv.
