(* Vec/ImportProofs.v — C14: proofs about the import model (Vec/ImportModel.v).
   General lemmas are about ARBITRARY stores (any damage, any orphan regions); the property-level
   theorems are about stores produced by `created`, for all user versions, all formats, both entry
   points, all data and holes. *)
From Anydb Require Import Common.Base Gen.Consts Gen.Sizes Gen.ImportFacts Vec.ImportModel.

(* ------------------------------------------------------------------ constants as facts *)
Lemma two32_pos : 0 < two32. Proof. reflexivity. Qed.
Lemma layer_lt fam : layer_version fam < two32.
Proof. destruct fam; reflexivity. Qed.
Lemma header_offset_pos : 0 < HEADER_OFFSET. Proof. reflexivity. Qed.

Lemma fcode_ok f : format_byte_ok (fcode f) = true.
Proof. destruct f; reflexivity. Qed.
Lemma fcode_inj f g : fcode f = fcode g -> f = g.
Proof. destruct f, g; intros H; try reflexivity; vm_compute in H; discriminate. Qed.
Lemma fcode_fam f g : fcode f = fcode g -> fam_of f = fam_of g.
Proof. intros H; now rewrite (fcode_inj _ _ H). Qed.

(* ------------------------------------------------------------------ version arithmetic *)
Lemma vadd_not_err oc a b k : vadd oc a b <> Err k.
Proof. unfold vadd. destruct (a + b <? two32), oc; discriminate. Qed.

Lemma vadd_lt oc a b r : vadd oc a b = Ok r -> r < two32.
Proof.
  unfold vadd. destruct (a + b <? two32) eqn:E.
  - intros [= <-]. lia.
  - destruct oc; [discriminate|]. intros [= <-]. apply N.mod_lt. discriminate.
Qed.

Lemma vadd_inj oc a a' b r :
  a < two32 -> a' < two32 -> b < two32 -> vadd oc a b = Ok r -> vadd oc a' b = Ok r -> a = a'.
Proof.
  unfold vadd, two32. intros Ha Ha' Hb.
  destruct (a + b <? 4294967296) eqn:E1; destruct (a' + b <? 4294967296) eqn:E2;
    destruct oc; try discriminate; intros [= <-] [= H]; lia.
Qed.

Lemma add_n_not_err oc k v l e : add_n oc k v l <> Err e.
Proof.
  revert v; induction k; intros v; cbn [add_n]; [discriminate|].
  destruct (vadd oc v l) eqn:E; cbn [bind]; auto.
  - now apply vadd_not_err in E.
  - discriminate.
Qed.

Lemma add_n_lt oc k v l r : v < two32 -> add_n oc k v l = Ok r -> r < two32.
Proof.
  revert v; induction k; intros v Hv; cbn [add_n].
  - now intros [= <-].
  - destruct (vadd oc v l) eqn:E; cbn [bind]; try discriminate.
    apply IHk. eapply vadd_lt; eauto.
Qed.

Lemma add_n_inj oc k v v' l r :
  v < two32 -> v' < two32 -> l < two32 ->
  add_n oc k v l = Ok r -> add_n oc k v' l = Ok r -> v = v'.
Proof.
  revert v v'; induction k; intros v v' Hv Hv' Hl; cbn [add_n].
  - now intros [= <-] [= <-].
  - destruct (vadd oc v l) eqn:E; cbn [bind]; try discriminate.
    destruct (vadd oc v' l) eqn:E'; cbn [bind]; try discriminate.
    intros H1 H2.
    assert (a = a0) by (eapply IHk; eauto using vadd_lt).
    subst. eapply vadd_inj; eauto.
Qed.

Lemma add_n_plus oc a b v l :
  add_n oc (a + b) v l = (let! x := add_n oc a v l in add_n oc b x l).
Proof.
  revert v; induction a; intros v; cbn [add_n Nat.add bind]; [reflexivity|].
  destruct (vadd oc v l); cbn [bind]; auto.
Qed.

(* without overflow the effective version is the plain sum, whatever the build *)
Lemma add_n_in_range oc k v l :
  v + N.of_nat k * l < two32 -> add_n oc k v l = Ok (v + N.of_nat k * l).
Proof.
  revert v; induction k; intros v H; cbn [add_n].
  - f_equal. lia.
  - unfold vadd. replace (v + l <? two32) with true by lia. cbn [bind].
    rewrite IHk by lia. f_equal. lia.
Qed.

Lemma eff_inj oc fam e v v' r :
  v < two32 -> v' < two32 -> eff oc fam e v = Ok r -> eff oc fam e v' = Ok r -> v = v'.
Proof. unfold eff. intros Hv Hv' H1 H2. exact (add_n_inj oc _ v v' _ r Hv Hv' (layer_lt fam) H1 H2). Qed.

Lemma eff_not_err oc fam e v k : eff oc fam e v <> Err k.
Proof. apply add_n_not_err. Qed.

Lemma forced_calls fam : forced_calls_import fam = true.
Proof. destruct fam; reflexivity. Qed.

(* forced = own additions, then import_with's *)
Lemma eff_forced oc fam v :
  eff oc fam EForced v =
  (let! v1 := add_n oc (forced_own_adds fam) v (layer_version fam) in
   add_n oc (import_adds fam) v1 (layer_version fam)).
Proof. unfold eff, adds. rewrite forced_calls. apply add_n_plus. Qed.

(* ------------------------------------------------------------------ header verification *)
Definition hdr_of (sv : N) (f : format) : hdr := {| h_hv := HEADER_VERSION; h_vv := sv; h_fmt := fcode f |}.

Lemma verify_ok_iff h rv f : verify h rv f = Ok tt <-> h = hdr_of rv f.
Proof.
  unfold verify, hdr_of. destruct h as [hv vv fm]; cbn [h_hv h_vv h_fmt]. split.
  - destruct (format_byte_ok fm); cbn [negb]; try discriminate.
    destruct (N.eqb_spec hv HEADER_VERSION); cbn [negb]; try discriminate.
    destruct (N.eqb_spec vv rv); cbn [negb]; try discriminate.
    destruct (N.eqb_spec fm (fcode f)); cbn [negb]; try discriminate.
    subst. reflexivity.
  - intros [= -> -> ->]. rewrite fcode_ok, !N.eqb_refl. reflexivity.
Qed.

Lemma verify_not_panic h rv f : verify h rv f <> Panic.
Proof.
  unfold verify.
  destruct (format_byte_ok (h_fmt h)), (h_hv h =? HEADER_VERSION), (h_vv h =? rv), (h_fmt h =? fcode f);
    cbn [negb]; discriminate.
Qed.

Lemma verify_ok_unit h rv f u : verify h rv f = Ok u -> h = hdr_of rv f.
Proof. destruct u. apply verify_ok_iff. Qed.

(* which error, and why *)
Lemma verify_err h rv f k :
  verify h rv f = Err k ->
  (k = InvalidFormat /\ format_byte_ok (h_fmt h) = false) \/
  (k = DifferentVersion /\ format_byte_ok (h_fmt h) = true /\ (h_hv h <> HEADER_VERSION \/ h_vv h <> rv)) \/
  (k = DifferentFormat /\ h_hv h = HEADER_VERSION /\ h_vv h = rv /\ h_fmt h <> fcode f).
Proof.
  unfold verify.
  destruct (format_byte_ok (h_fmt h)); cbn [negb]; [|intros [= <-]; auto].
  destruct (N.eqb_spec (h_hv h) HEADER_VERSION); cbn [negb]; [|intros [= <-]; auto 6].
  destruct (N.eqb_spec (h_vv h) rv); cbn [negb]; [|intros [= <-]; auto 6].
  destruct (N.eqb_spec (h_fmt h) (fcode f)); cbn [negb]; [discriminate|intros [= <-]; auto 7].
Qed.

Lemma verify_mismatch h rv f :
  format_byte_ok (h_fmt h) = true -> h <> hdr_of rv f ->
  verify h rv f = Err DifferentVersion \/ verify h rv f = Err DifferentFormat.
Proof.
  intros Hb Hn. destruct (verify h rv f) eqn:E.
  - destruct a. apply verify_ok_iff in E. contradiction.
  - apply verify_err in E. destruct E as [[-> E]|[[-> _]|[-> _]]]; auto. congruence.
  - now apply verify_not_panic in E.
Qed.

(* the version decides first: DifferentFormat only when the versions agree *)
Lemma verify_hdr_of sv g rv f :
  verify (hdr_of sv g) rv f =
  if negb (sv =? rv) then Err DifferentVersion
  else if negb (fcode g =? fcode f) then Err DifferentFormat else Ok tt.
Proof. unfold verify, hdr_of; cbn [h_hv h_vv h_fmt]. now rewrite fcode_ok, N.eqb_refl. Qed.

(* ------------------------------------------------------------------ stores *)
Lemma with_main_same s m : s_main s = m -> with_main s m = s.
Proof. destruct s; cbn. now intros ->. Qed.
Lemma with_pages_same s a : s_pages s = a -> with_pages s a = s.
Proof. destruct s; cbn. now intros ->. Qed.

Definition holes_wf (s : store) : Prop :=
  match s_holes s with Some a => a_len a mod SIZE_OF_USIZE = 0 | None => True end.
Definition pages_wf (s : store) : Prop :=
  match s_pages s with Some a => a_len a mod SIZE_OF_PAGE = 0 | None => True end.
Definition holes_list (s : store) : list N := match s_holes s with Some a => a_data a | None => [] end.
Definition pages_list (s : store) : list N := match s_pages s with Some a => a_data a | None => [] end.
Definition aux_wf (fam : family) (s : store) : Prop :=
  match fam with Raw => holes_wf s | Comp => pages_wf s end.
Definition ensure_pages (s : store) : store :=
  with_pages s (Some match s_pages s with Some a => a | None => {| a_len := 0; a_data := [] |} end).
(* what an import of family `fam` shows for main region m in store s *)
Definition view_of (fam : family) (s : store) (m : mainreg) : view :=
  match fam with
  | Raw => {| v_data := m_data m; v_holes := holes_list s |}
  | Comp => {| v_data := take (sumN (pages_list s)) (m_data m); v_holes := [] |}
  end.
Definition after_open (fam : family) (s : store) : store :=
  match fam with Raw => s | Comp => ensure_pages s end.
Definition aligned (fam : family) (size : N) (m : mainreg) : Prop :=
  match fam with Raw => (m_len m - HEADER_OFFSET) mod size = 0 | Comp => True end.

Ltac brk :=
  repeat (match goal with
          | H : (_, _) = (_, _) |- _ => inversion H; subst; clear H
          | H : context[match ?x with _ => _ end] |- _ => destruct x eqn:?
          | |- context[match ?x with _ => _ end] => destruct x eqn:?
          end; cbn [bind fst snd] in * ).

Lemma import_base_full s m rv f :
  s_main s = Some m -> HEADER_OFFSET <= m_len m ->
  import_base s rv f =
  (s, match verify (m_hdr m) rv f with Ok _ => Ok m | Err k => Err k | Panic => Panic end).
Proof.
  intros Hm Hl. unfold import_base. rewrite Hm.
  pose proof header_offset_pos.
  replace (m_len m =? 0) with false by lia. replace (m_len m <? HEADER_OFFSET) with false by lia.
  destruct (verify (m_hdr m) rv f); reflexivity.
Qed.

Lemma import_core_full_err fam size s m rv f k :
  s_main s = Some m -> HEADER_OFFSET <= m_len m -> verify (m_hdr m) rv f = Err k ->
  import_core fam size s rv f = (s, Err k).
Proof.
  intros Hm Hl Hv. unfold import_core. rewrite (import_base_full s m rv f Hm Hl), Hv. reflexivity.
Qed.

Lemma import_core_full_ok fam size s m rv f :
  s_main s = Some m -> HEADER_OFFSET <= m_len m -> m_hdr m = hdr_of rv f ->
  aligned fam size m -> aux_wf fam s ->
  import_core fam size s rv f = (after_open fam s, Ok (view_of fam s m)).
Proof.
  intros Hm Hl Hh Ha Hw. unfold import_core.
  rewrite (import_base_full s m rv f Hm Hl).
  assert (Hv : verify (m_hdr m) rv f = Ok tt) by now apply verify_ok_iff.
  rewrite Hv. destruct fam; cbn [aligned aux_wf after_open view_of] in *.
  - replace ((m_len m - HEADER_OFFSET) mod size =? 0) with true by lia.
    rewrite andb_false_r.
    unfold holes_wf, holes_list in *. destruct (s_holes s) as [a|]; [|reflexivity].
    replace (a_len a mod SIZE_OF_USIZE =? 0) with true by lia. reflexivity.
  - unfold pages_wf, pages_list, ensure_pages in *. destruct (s_pages s) as [a|].
    + replace (a_len a mod SIZE_OF_PAGE =? 0) with true by lia. reflexivity.
    + reflexivity.
Qed.

(* a missing (or zero-length) main region is created with the requested header *)
Definition no_main (s : store) : Prop :=
  match s_main s with None => True | Some m => m_len m = 0 end.

Lemma import_core_fresh fam size s rv f :
  no_main s -> aux_wf fam s ->
  import_core fam size s rv f =
  (after_open fam (with_main s (Some (fresh_main rv f))),
   Ok match fam with Raw => {| v_data := []; v_holes := holes_list s |} | Comp => {| v_data := []; v_holes := [] |} end).
Proof.
  intros Hn Hw. unfold import_core.
  assert (Hb : import_base s rv f = (with_main s (Some (fresh_main rv f)), Ok (fresh_main rv f))).
  { unfold import_base, no_main in *. destruct (s_main s) as [m|]; [|reflexivity].
    rewrite Hn. reflexivity. }
  rewrite Hb. destruct fam; cbn [aux_wf after_open] in *.
  - cbn [fresh_main m_len]. rewrite N.ltb_irrefl. cbn [andb].
    unfold holes_wf, holes_list in *. destruct s as [mm pp hh]; cbn [with_main s_holes s_main s_pages] in *.
    destruct hh as [a|]; [|reflexivity].
    replace (a_len a mod SIZE_OF_USIZE =? 0) with true by lia. reflexivity.
  - unfold pages_wf, ensure_pages in *. destruct s as [mm pp hh]; cbn [with_main with_pages s_holes s_main s_pages] in *.
    destruct pp as [a|].
    + replace (a_len a mod SIZE_OF_PAGE =? 0) with true by lia.
      cbn [fresh_main m_data]. unfold take. now rewrite firstn_nil.
    + reflexivity.
Qed.

(* ------------------------------------------------------------------ G1: the plain import never
   modifies an existing region, whatever the store looks like and whatever it returns *)
Definition preserves (s s' : store) : Prop :=
  (forall m, s_main s = Some m -> m_len m <> 0 -> s_main s' = Some m) /\
  s_holes s' = s_holes s /\
  (forall a, s_pages s = Some a -> s_pages s' = Some a).

Lemma import_core_preserves fam size s rv f s' r :
  import_core fam size s rv f = (s', r) -> preserves s s'.
Proof.
  unfold import_core, import_base, preserves. intros H.
  destruct s as [mm pp hh]; cbn [s_main s_pages s_holes with_main with_pages] in *.
  brk; subst; cbn [s_main s_pages s_holes with_main with_pages] in *;
    repeat split; intros; try congruence; try reflexivity; try lia;
    try (exfalso; match goal with H : Some _ = Some _ |- _ => injection H as <- end; lia).
Qed.

Lemma import_with_preserves oc fam size fault s v f s' r :
  import_with oc fam size fault s v f = (s', r) -> preserves s s'.
Proof.
  unfold import_with. intros H.
  destruct (add_n oc (import_adds fam) v (layer_version fam)); [destruct fault|..];
    try (inversion H; subst; unfold preserves; repeat split; auto; fail).
  eapply import_core_preserves; eauto.
Qed.

(* ... and when it reports an error and the main region is a full one, nothing at all changed
   (compressed family: the page index region may have been created empty) *)
Lemma import_with_err_full oc fam size s m v f s' k :
  s_main s = Some m -> HEADER_OFFSET <= m_len m ->
  import_with oc fam size None s v f = (s', Err k) ->
  (k = DifferentVersion \/ k = DifferentFormat \/ k = InvalidFormat) -> s' = s.
Proof.
  intros Hm Hl H Hk. unfold import_with in H.
  destruct (add_n oc (import_adds fam) v (layer_version fam)) as [rv| |] eqn:Ea; try (inversion H; auto; fail).
  destruct (verify (m_hdr m) rv f) eqn:Ev.
  - (* header fine: then the error is none of the three *)
    exfalso. unfold import_core in H. rewrite (import_base_full s m rv f Hm Hl), Ev in H.
    destruct fam; brk; destruct Hk as [|[|]]; discriminate.
  - rewrite (import_core_full_err fam size s m rv f e Hm Hl Ev) in H. now inversion H.
  - now apply verify_not_panic in Ev.
Qed.

(* ------------------------------------------------------------------ import_with on a full main region *)
Lemma resets_DV fam : resets fam DifferentVersion = true. Proof. destruct fam; reflexivity. Qed.
Lemma resets_DF fam : resets fam DifferentFormat = true. Proof. destruct fam; reflexivity. Qed.
Lemma resets_external fam k :
  k = TryLock \/ k = IO \/ k = RawDB \/ k = CorruptedRegion \/ k = InvalidFormat -> resets fam k = false.
Proof. intros [->|[->|[->|[->| ->]]]]; destruct fam; reflexivity. Qed.

Lemma import_match_keeps oc fam size s m v f rv :
  s_main s = Some m -> HEADER_OFFSET <= m_len m ->
  eff oc fam EImport v = Ok rv -> m_hdr m = hdr_of rv f -> aligned fam size m -> aux_wf fam s ->
  import_with oc fam size None s v f = (after_open fam s, Ok (view_of fam s m)).
Proof.
  intros Hm Hl He Hh Ha Hw. unfold import_with. unfold eff, adds in He. rewrite He.
  now apply import_core_full_ok.
Qed.

Lemma import_mismatch oc fam size s m v f rv :
  s_main s = Some m -> HEADER_OFFSET <= m_len m -> format_byte_ok (h_fmt (m_hdr m)) = true ->
  eff oc fam EImport v = Ok rv -> m_hdr m <> hdr_of rv f ->
  import_with oc fam size None s v f = (s, Err DifferentVersion) \/
  import_with oc fam size None s v f = (s, Err DifferentFormat).
Proof.
  intros Hm Hl Hb He Hn. unfold import_with. unfold eff, adds in He. rewrite He.
  destruct (verify_mismatch _ rv f Hb Hn) as [E|E];
    rewrite (import_core_full_err fam size s m rv f _ Hm Hl E); auto.
Qed.

(* ------------------------------------------------------------------ forced_import_with *)
Lemma forced_unfold oc fam size fault s v f :
  forced_import_with oc fam size fault s v f =
  match add_n oc (forced_own_adds fam) v (layer_version fam) with
  | Ok v1 =>
      match import_with oc fam size fault s v1 f with
      | (s1, Err k) => if resets fam k then import_with oc fam size None (reset_regions fam s1) v1 f else (s1, Err k)
      | r => r
      end
  | Err k => (s, Err k)
  | Panic => (s, Panic)
  end.
Proof. unfold forced_import_with. rewrite forced_calls. reflexivity. Qed.

Lemma forced_match_keeps oc fam size s m v f rv :
  s_main s = Some m -> HEADER_OFFSET <= m_len m ->
  eff oc fam EForced v = Ok rv -> m_hdr m = hdr_of rv f -> aligned fam size m -> aux_wf fam s ->
  forced_import_with oc fam size None s v f = (after_open fam s, Ok (view_of fam s m)).
Proof.
  intros Hm Hl He Hh Ha Hw. rewrite forced_unfold. rewrite eff_forced in He.
  destruct (add_n oc (forced_own_adds fam) v (layer_version fam)) as [v1| |]; cbn [bind] in He; try discriminate.
  rewrite (import_match_keeps oc fam size s m v1 f rv); auto.
Qed.

Definition fresh_view (fam : family) (s : store) : view :=
  match fam with Raw => {| v_data := []; v_holes := holes_list s |} | Comp => {| v_data := []; v_holes := [] |} end.
Definition empty_view : view := {| v_data := []; v_holes := [] |}.

(* facts about the reset arm, as the source has them now (Gen/ImportFacts.v): the main region goes,
   and so does the auxiliary region of the family *)
Lemma reset_no_main fam s : no_main (reset_regions fam s).
Proof. destruct fam, s; exact I. Qed.
Lemma reset_aux_wf fam s : aux_wf fam (reset_regions fam s).
Proof. destruct fam, s; exact I. Qed.
Lemma reset_fresh_view fam s : fresh_view fam (reset_regions fam s) = empty_view.
Proof. destruct fam, s; reflexivity. Qed.

Lemma forced_mismatch_resets oc fam size s m v f rv :
  s_main s = Some m -> HEADER_OFFSET <= m_len m -> format_byte_ok (h_fmt (m_hdr m)) = true ->
  eff oc fam EForced v = Ok rv -> m_hdr m <> hdr_of rv f ->
  forced_import_with oc fam size None s v f =
  (after_open fam (with_main (reset_regions fam s) (Some (fresh_main rv f))), Ok empty_view).
Proof.
  intros Hm Hl Hb He Hn. rewrite forced_unfold. rewrite eff_forced in He.
  destruct (add_n oc (forced_own_adds fam) v (layer_version fam)) as [v1| |]; cbn [bind] in He; try discriminate.
  assert (Hsecond : import_with oc fam size None (reset_regions fam s) v1 f =
                    (after_open fam (with_main (reset_regions fam s) (Some (fresh_main rv f))), Ok empty_view)).
  { unfold import_with. rewrite He. rewrite import_core_fresh.
    - destruct fam, s; reflexivity.
    - apply reset_no_main.
    - apply reset_aux_wf. }
  destruct (import_mismatch oc fam size s m v1 f rv Hm Hl Hb He Hn) as [E|E]; rewrite E.
  - now rewrite resets_DV.
  - now rewrite resets_DF.
Qed.

(* an error outside the reset list is passed on and nothing is touched *)
Lemma forced_fault_passthrough oc fam size s v f k :
  resets fam k = false ->
  forced_import_with oc fam size (Some k) s v f = (s, Err k) \/
  forced_import_with oc fam size (Some k) s v f = (s, Panic).
Proof.
  intros Hr. rewrite forced_unfold.
  destruct (add_n oc (forced_own_adds fam) v (layer_version fam)) as [v1|e|] eqn:E1; auto.
  - unfold import_with.
    destruct (add_n oc (import_adds fam) v1 (layer_version fam)) as [rv|e|] eqn:E2; auto.
    + rewrite Hr. auto.
    + now apply add_n_not_err in E2.
  - now apply add_n_not_err in E1.
Qed.

(* G3: the forced import replaces a full main region ONLY IF the first attempt ended in an error
   of the reset list; and without an injected fault that error has exactly three causes. *)
Lemma forced_changes_only_if oc fam size fault s v f s' r m :
  forced_import_with oc fam size fault s v f = (s', r) ->
  s_main s = Some m -> HEADER_OFFSET <= m_len m -> s_main s' <> Some m ->
  (exists k, fault = Some k /\ resets fam k = true) \/
  (fault = None /\ exists rv, eff oc fam EForced v = Ok rv /\ (m_hdr m <> hdr_of rv f \/ ~ aux_wf fam s)).
Proof.
  intros H Hm Hl Hch. rewrite forced_unfold in H. pose proof header_offset_pos as Hp.
  destruct (add_n oc (forced_own_adds fam) v (layer_version fam)) as [v1|e|] eqn:E1;
    try (inversion H; subst; contradiction).
  destruct (import_with oc fam size fault s v1 f) as [s1 r1] eqn:E.
  assert (Hpres : s_main s1 = Some m).
  { apply import_with_preserves in E. destruct E as [P _]. apply P; auto. lia. }
  destruct r1 as [w|k|]; try (inversion H; subst; contradiction).
  destruct (resets fam k) eqn:Hr; [|inversion H; subst; contradiction].
  unfold import_with in E.
  destruct (add_n oc (import_adds fam) v1 (layer_version fam)) as [rv|e|] eqn:E2; try (inversion E; fail).
  - destruct fault as [k'|].
    + inversion E; subst. left. eauto.
    + right. split; [reflexivity|]. exists rv. split.
      { rewrite eff_forced, E1. exact E2. }
      destruct (verify (m_hdr m) rv f) eqn:Ev.
      * right. unfold import_core in E. rewrite (import_base_full s m rv f Hm Hl), Ev in E.
        destruct fam; cbn [aux_wf].
        -- destruct ((HEADER_OFFSET <? m_len m) && negb ((m_len m - HEADER_OFFSET) mod size =? 0)).
           { inversion E; subst. discriminate Hr. }
           unfold holes_wf. destruct (s_holes s) as [a0|]; [|inversion E].
           destruct (a_len a0 mod SIZE_OF_USIZE =? 0) eqn:Em; [inversion E|]. lia.
        -- unfold pages_wf. destruct (s_pages s) as [a0|].
           ++ destruct (a_len a0 mod SIZE_OF_PAGE =? 0) eqn:Em; [inversion E|]. lia.
           ++ cbn in E. inversion E.
      * left. intros Heq. apply verify_ok_iff in Heq. congruence.
      * now apply verify_not_panic in Ev.
  - inversion E; subst. now apply add_n_not_err in E2.
Qed.

(* ------------------------------------------------------------------ stores written by the library *)
Definition req_fam (q : req) : family := fam_of (q_fmt q).
Definition eff_holes (q : req) (h : list N) : list N := match req_fam q with Raw => h | Comp => [] end.

Definition shape (fam : family) (size clen sv : N) (f : format) (d h : list N) : store :=
  match fam with
  | Raw =>
      {| s_main := Some {| m_len := HEADER_OFFSET + size * len d; m_hdr := hdr_of sv f; m_data := d |};
         s_pages := None;
         s_holes := match h with [] => None | _ => Some {| a_len := SIZE_OF_USIZE * len h; a_data := h |} end |}
  | Comp =>
      {| s_main := Some match d with
                        | [] => fresh_main sv f
                        | _ => {| m_len := HEADER_OFFSET + clen; m_hdr := hdr_of sv f; m_data := d |}
                        end;
         s_pages := Some match d with
                         | [] => {| a_len := 0; a_data := [] |}
                         | _ => {| a_len := SIZE_OF_PAGE; a_data := [len d] |}
                         end;
         s_holes := None |}
  end.

Lemma first_open_empty oc fam size v f :
  import_with oc fam size None empty_store v f =
  match add_n oc (import_adds fam) v (layer_version fam) with
  | Ok rv => (after_open fam (with_main empty_store (Some (fresh_main rv f))), Ok (fresh_view fam empty_store))
  | Err k => (empty_store, Err k)
  | Panic => (empty_store, Panic)
  end.
Proof.
  unfold import_with. destruct (add_n oc (import_adds fam) v (layer_version fam)); auto.
  rewrite import_core_fresh; [destruct fam; reflexivity|exact I|destruct fam; exact I].
Qed.

Lemma created_shape oc size clen q d h s :
  created oc size clen q d h = Some s ->
  exists sv, eff_req oc q = Ok sv /\ s = shape (req_fam q) size clen sv (q_fmt q) d (eff_holes q h).
Proof.
  unfold created, run_entry, eff_req, eff_holes, req_fam. destruct q as [e v f]; cbn [q_entry q_ver q_fmt].
  destruct e.
  - rewrite first_open_empty. unfold eff, adds.
    destruct (add_n oc (import_adds (fam_of f)) v (layer_version (fam_of f))) as [rv| |]; try discriminate.
    intros [= <-]. exists rv. split; [reflexivity|].
    destruct (fam_of f); [destruct h|destruct d]; reflexivity.
  - rewrite forced_unfold, eff_forced.
    destruct (add_n oc (forced_own_adds (fam_of f)) v (layer_version (fam_of f))) as [v1| |]; try discriminate.
    rewrite first_open_empty. cbn [bind].
    destruct (add_n oc (import_adds (fam_of f)) v1 (layer_version (fam_of f))) as [rv|k|] eqn:E2; try discriminate.
    + intros [= <-]. exists rv. split; [reflexivity|].
      destruct (fam_of f); [destruct h|destruct d]; reflexivity.
    + now apply add_n_not_err in E2.
Qed.

Definition shape_main (fam : family) (size clen sv : N) (f : format) (d : list N) : mainreg :=
  match fam, d with
  | Comp, [] => fresh_main sv f
  | Comp, _ => {| m_len := HEADER_OFFSET + clen; m_hdr := hdr_of sv f; m_data := d |}
  | Raw, _ => {| m_len := HEADER_OFFSET + size * len d; m_hdr := hdr_of sv f; m_data := d |}
  end.

Lemma shape_facts fam size clen sv f d h :
  let s := shape fam size clen sv f d h in
  let m := shape_main fam size clen sv f d in
  s_main s = Some m /\ HEADER_OFFSET <= m_len m /\ m_hdr m = hdr_of sv f /\
  (forall fam2, aux_wf fam2 s) /\ (0 < size -> aligned fam size m) /\
  holes_list s = match fam with Raw => h | Comp => [] end /\
  after_open fam s = s /\
  view_of fam s m = {| v_data := d; v_holes := match fam with Raw => h | Comp => [] end |}.
Proof.
  cbv zeta. destruct fam.
  - cbn [shape shape_main s_main m_len m_hdr]. repeat apply conj; try reflexivity; try lia.
    + intros [|]; cbn [aux_wf]; unfold holes_wf, pages_wf; cbn [s_holes s_pages]; auto.
      destruct h; auto. cbn [a_len]. rewrite N.mul_comm. apply N.mod_mul. discriminate.
    + intros Hs; cbn [aligned m_len].
      replace (HEADER_OFFSET + size * len d - HEADER_OFFSET) with (len d * size) by lia.
      apply N.mod_mul. lia.
    + unfold holes_list. cbn [s_holes]. destruct h; reflexivity.
    + unfold view_of, holes_list. cbn [s_holes m_data]. destruct h; reflexivity.
  - cbn [shape shape_main s_main]. repeat apply conj.
    + destruct d; reflexivity.
    + destruct d; cbn [fresh_main m_len]; lia.
    + destruct d; reflexivity.
    + intros [|]; cbn [aux_wf]; unfold holes_wf, pages_wf; cbn [s_holes s_pages]; auto.
      destruct d; reflexivity.
    + intros _. exact I.
    + reflexivity.
    + unfold after_open, ensure_pages. cbn [s_pages]. reflexivity.
    + unfold view_of, pages_list. cbn [s_pages]. destruct d as [|x d]; [reflexivity|].
      cbn [a_data sumN m_data]. f_equal. unfold take, len.
      replace (N.to_nat (N.of_nat (length (x :: d)) + 0)) with (length (x :: d)) by lia.
      apply firstn_all.
Qed.

(* ------------------------------------------------------------------ property-level theorems *)
Definition u32 (v : N) : Prop := v < two32.
Definition external (fault : option ekind) : Prop :=
  fault = None \/ fault = Some TryLock \/ fault = Some IO \/ fault = Some RawDB.
Definition expected_view (q1 : req) (d h : list N) : view := {| v_data := d; v_holes := eff_holes q1 h |}.
Lemma hdr_of_neq sv f rv g : rv <> sv \/ g <> f -> hdr_of sv f <> hdr_of rv g.
Proof. intros [H|H] [= E1 E2]; [congruence|]. apply fcode_inj in E2. congruence. Qed.

Lemma hdr_of_neq_inv sv f rv g : hdr_of sv f <> hdr_of rv g -> rv <> sv \/ g <> f.
Proof.
  intros H. destruct (N.eq_dec rv sv) as [->|]; auto. right. intros ->. now apply H.
Qed.

Lemma run_entry_eff_panic oc size fault q s :
  eff_req oc q = Panic -> run_entry oc size fault q s = (s, Panic).
Proof.
  unfold eff_req, run_entry. destruct q as [e v f]; cbn [q_entry q_ver q_fmt]. destruct e.
  - unfold eff, adds, import_with. now intros ->.
  - rewrite eff_forced, forced_unfold.
    destruct (add_n oc (forced_own_adds (fam_of f)) v (layer_version (fam_of f))); cbn [bind]; try discriminate; auto.
    unfold import_with. now intros ->.
Qed.

(* exact: the reopening keeps the data iff effective version and format agree *)
Theorem match_keeps_effective oc size clen q1 q2 d h s sv :
  0 < size -> created oc size clen q1 d h = Some s ->
  eff_req oc q1 = Ok sv -> eff_req oc q2 = Ok sv -> q_fmt q2 = q_fmt q1 ->
  run_entry oc size None q2 s = (s, Ok (expected_view q1 d h)).
Proof.
  intros Hs Hc H1 H2 Hf. apply created_shape in Hc. destruct Hc as (sv' & H1' & ->).
  rewrite H1 in H1'. injection H1' as <-.
  destruct (shape_facts (req_fam q1) size clen sv (q_fmt q1) d (eff_holes q1 h))
    as (Hm & Hl & Hh & Hw & Ha & _ & Hao & Hv).
  unfold run_entry, eff_req in *. unfold req_fam in *. rewrite Hf in *.
  destruct (q_entry q2).
  - rewrite (import_match_keeps oc _ size _ _ (q_ver q2) (q_fmt q1) sv Hm Hl H2 Hh (Ha Hs) (Hw _)).
    rewrite Hao, Hv. unfold expected_view, eff_holes, req_fam. destruct (fam_of (q_fmt q1)); reflexivity.
  - rewrite (forced_match_keeps oc _ size _ _ (q_ver q2) (q_fmt q1) sv Hm Hl H2 Hh (Ha Hs) (Hw _)).
    rewrite Hao, Hv. unfold expected_view, eff_holes, req_fam. destruct (fam_of (q_fmt q1)); reflexivity.
Qed.

Theorem plain_mismatch_effective oc size clen q1 q2 d h s sv rv :
  created oc size clen q1 d h = Some s -> q_entry q2 = EImport ->
  eff_req oc q1 = Ok sv -> eff_req oc q2 = Ok rv -> (rv <> sv \/ q_fmt q2 <> q_fmt q1) ->
  run_entry oc size None q2 s = (s, Err DifferentVersion) \/
  run_entry oc size None q2 s = (s, Err DifferentFormat).
Proof.
  intros Hc He H1 H2 Hn. apply created_shape in Hc. destruct Hc as (sv' & H1' & ->).
  rewrite H1 in H1'. injection H1' as <-.
  destruct (shape_facts (req_fam q1) size clen sv (q_fmt q1) d (eff_holes q1 h))
    as (Hm & Hl & Hh & _).
  unfold run_entry, eff_req in *. rewrite He in *.
  eapply import_mismatch; eauto.
  - rewrite Hh. apply fcode_ok.
  - rewrite Hh. now apply hdr_of_neq.
Qed.

Theorem forced_mismatch_effective oc size clen q1 q2 d h s sv rv :
  created oc size clen q1 d h = Some s -> q_entry q2 = EForced ->
  eff_req oc q1 = Ok sv -> eff_req oc q2 = Ok rv -> (rv <> sv \/ q_fmt q2 <> q_fmt q1) ->
  exists s', run_entry oc size None q2 s = (s', Ok empty_view) /\
             s_main s' = Some (fresh_main rv (q_fmt q2)) /\
             (req_fam q2 = Raw -> s_holes s' = None).
Proof.
  intros Hc He H1 H2 Hn. apply created_shape in Hc. destruct Hc as (sv' & H1' & ->).
  rewrite H1 in H1'. injection H1' as <-.
  destruct (shape_facts (req_fam q1) size clen sv (q_fmt q1) d (eff_holes q1 h))
    as (Hm & Hl & Hh & _).
  unfold run_entry, eff_req in *. rewrite He in *.
  assert (Hb : format_byte_ok (h_fmt (m_hdr (shape_main (req_fam q1) size clen sv (q_fmt q1) d))) = true)
    by (rewrite Hh; apply fcode_ok).
  assert (Hne : m_hdr (shape_main (req_fam q1) size clen sv (q_fmt q1) d) <> hdr_of rv (q_fmt q2))
    by (rewrite Hh; now apply hdr_of_neq).
  rewrite (forced_mismatch_resets oc (fam_of (q_fmt q2)) size _ _ (q_ver q2) (q_fmt q2) rv Hm Hl Hb H2 Hne).
  eexists. split; [reflexivity|]. unfold req_fam. split.
  - destruct (fam_of (q_fmt q2)); reflexivity.
  - intros ->. reflexivity.
Qed.

Lemma external_no_reset fam fault k : external fault -> fault = Some k -> resets fam k = false.
Proof.
  intros [->|[->|[->| ->]]]; try discriminate; intros [= <-]; destruct fam; reflexivity.
Qed.

Theorem forced_only_if_effective oc size clen q1 q2 d h s fault s' r :
  created oc size clen q1 d h = Some s -> q_entry q2 = EForced -> external fault ->
  run_entry oc size fault q2 s = (s', r) -> s_main s' <> s_main s ->
  fault = None /\
  exists sv rv, eff_req oc q1 = Ok sv /\ eff_req oc q2 = Ok rv /\ (rv <> sv \/ q_fmt q2 <> q_fmt q1).
Proof.
  intros Hc He Hx Hr Hch. apply created_shape in Hc. destruct Hc as (sv & H1 & ->).
  destruct (shape_facts (req_fam q1) size clen sv (q_fmt q1) d (eff_holes q1 h))
    as (Hm & Hl & Hh & Hw & _).
  unfold run_entry in Hr. rewrite He in Hr. rewrite Hm in Hch.
  destruct (forced_changes_only_if _ _ _ _ _ _ _ _ _ _ Hr Hm Hl Hch) as [(k & Hk & Hrs)|(Hn & rv & Hrv & Hcause)].
  - rewrite (external_no_reset _ _ _ Hx Hk) in Hrs. discriminate.
  - split; [exact Hn|]. exists sv, rv. repeat apply conj; auto.
    + unfold eff_req. now rewrite He.
    + destruct Hcause as [Hd|Hd].
      * rewrite Hh in Hd. now apply hdr_of_neq_inv.
      * exfalso. apply Hd. apply Hw.
Qed.

(* the environment's errors never cost data, whatever is stored (arbitrary store) *)
Theorem forced_keeps_on_external_error oc fam size s v f k :
  k = TryLock \/ k = IO \/ k = RawDB \/ k = CorruptedRegion \/ k = InvalidFormat ->
  forced_import_with oc fam size (Some k) s v f = (s, Err k) \/
  forced_import_with oc fam size (Some k) s v f = (s, Panic).
Proof. intros Hk. apply forced_fault_passthrough. now apply resets_external. Qed.

(* ---- same entry point: user-level and effective mismatch coincide *)
Lemma same_entry_eff oc q1 q2 sv rv :
  q_entry q1 = q_entry q2 -> u32 (q_ver q1) -> u32 (q_ver q2) ->
  eff_req oc q1 = Ok sv -> eff_req oc q2 = Ok rv ->
  (q_ver q2 <> q_ver q1 \/ q_fmt q2 <> q_fmt q1) -> (rv <> sv \/ q_fmt q2 <> q_fmt q1).
Proof.
  intros He U1 U2 H1 H2 [Hv|Hf]; auto.
  destruct (N.eq_dec rv sv) as [->|]; auto.
  destruct q1 as [e1 v1 f1], q2 as [e2 v2 f2]; cbn [q_entry q_ver q_fmt] in *. subst e2.
  unfold eff_req in *; cbn [q_entry q_ver q_fmt] in *.
  unfold u32 in *.
  destruct f1, f2; try (right; discriminate); exfalso; apply Hv; cbn [fam_of] in *;
    exact (eff_inj _ _ _ _ _ _ U2 U1 H2 H1).
Qed.

(* ------------------------------------------------------------------ the property, user level.
   `*_full_stmt` is the statement of properties.jsonl (versions and formats as the USER passes them);
   it is refuted by the cross-entry-point class; for requests outside that class it is proved. *)
Definition SameEntry (q1 q2 : req) : Prop := KnownClass_b q1 q2 = false.

Lemma same_entry_eq q1 q2 : SameEntry q1 q2 -> q_entry q1 = q_entry q2.
Proof. unfold SameEntry, KnownClass_b. destruct (q_entry q1), (q_entry q2); cbn; congruence. Qed.

Definition match_keeps_full_stmt : Prop :=
  forall oc size clen q1 q2 d h s,
    0 < size -> created oc size clen q1 d h = Some s ->
    q_ver q2 = q_ver q1 -> q_fmt q2 = q_fmt q1 -> eff_req oc q2 <> Panic ->
    run_entry oc size None q2 s = (s, Ok (expected_view q1 d h)).

Definition plain_mismatch_full_stmt : Prop :=
  forall oc size clen q1 q2 d h s,
    u32 (q_ver q1) -> u32 (q_ver q2) -> created oc size clen q1 d h = Some s ->
    q_entry q2 = EImport -> (q_ver q2 <> q_ver q1 \/ q_fmt q2 <> q_fmt q1) -> eff_req oc q2 <> Panic ->
    run_entry oc size None q2 s = (s, Err DifferentVersion) \/
    run_entry oc size None q2 s = (s, Err DifferentFormat).

Definition forced_mismatch_full_stmt : Prop :=
  forall oc size clen q1 q2 d h s,
    u32 (q_ver q1) -> u32 (q_ver q2) -> created oc size clen q1 d h = Some s ->
    q_entry q2 = EForced -> (q_ver q2 <> q_ver q1 \/ q_fmt q2 <> q_fmt q1) -> eff_req oc q2 <> Panic ->
    exists s' rv, run_entry oc size None q2 s = (s', Ok empty_view) /\
                  s_main s' = Some (fresh_main rv (q_fmt q2)).

Definition forced_only_if_full_stmt : Prop :=
  forall oc size clen q1 q2 d h s fault s' r,
    u32 (q_ver q1) -> u32 (q_ver q2) -> created oc size clen q1 d h = Some s ->
    q_entry q2 = EForced -> external fault ->
    run_entry oc size fault q2 s = (s', r) -> s_main s' <> s_main s ->
    q_ver q2 <> q_ver q1 \/ q_fmt q2 <> q_fmt q1.

Lemma eff_ok_of oc q : eff_req oc q <> Panic -> exists rv, eff_req oc q = Ok rv.
Proof.
  intros H. destruct (eff_req oc q) eqn:E; eauto; [|contradiction].
  now apply eff_not_err in E.
Qed.

Lemma created_eff oc size clen q d h s : created oc size clen q d h = Some s -> exists sv, eff_req oc q = Ok sv.
Proof. intros H. apply created_shape in H. destruct H as (sv & H & _). eauto. Qed.

(* --- proved outside the class *)
Theorem match_keeps_same_entry oc size clen q1 q2 d h s :
  SameEntry q1 q2 ->
  0 < size -> created oc size clen q1 d h = Some s ->
  q_ver q2 = q_ver q1 -> q_fmt q2 = q_fmt q1 ->
  run_entry oc size None q2 s = (s, Ok (expected_view q1 d h)).
Proof.
  intros Hs Hz Hc Hv Hf. apply same_entry_eq in Hs.
  destruct (created_eff _ _ _ _ _ _ _ Hc) as (sv & H1).
  eapply match_keeps_effective; eauto.
  unfold eff_req in *. now rewrite <- Hs, Hv, Hf.
Qed.

Theorem plain_mismatch_same_entry oc size clen q1 q2 d h s :
  SameEntry q1 q2 ->
  u32 (q_ver q1) -> u32 (q_ver q2) -> created oc size clen q1 d h = Some s ->
  q_entry q2 = EImport -> (q_ver q2 <> q_ver q1 \/ q_fmt q2 <> q_fmt q1) -> eff_req oc q2 <> Panic ->
  run_entry oc size None q2 s = (s, Err DifferentVersion) \/
  run_entry oc size None q2 s = (s, Err DifferentFormat).
Proof.
  intros Hs U1 U2 Hc He Hn Hp. apply same_entry_eq in Hs.
  destruct (created_eff _ _ _ _ _ _ _ Hc) as (sv & H1). destruct (eff_ok_of _ _ Hp) as (rv & H2).
  eapply plain_mismatch_effective; eauto. eapply same_entry_eff; eauto.
Qed.

Theorem forced_mismatch_same_entry oc size clen q1 q2 d h s :
  SameEntry q1 q2 ->
  u32 (q_ver q1) -> u32 (q_ver q2) -> created oc size clen q1 d h = Some s ->
  q_entry q2 = EForced -> (q_ver q2 <> q_ver q1 \/ q_fmt q2 <> q_fmt q1) -> eff_req oc q2 <> Panic ->
  exists s' rv, run_entry oc size None q2 s = (s', Ok empty_view) /\
                s_main s' = Some (fresh_main rv (q_fmt q2)).
Proof.
  intros Hs U1 U2 Hc He Hn Hp. apply same_entry_eq in Hs.
  destruct (created_eff _ _ _ _ _ _ _ Hc) as (sv & H1). destruct (eff_ok_of _ _ Hp) as (rv & H2).
  destruct (forced_mismatch_effective oc size clen q1 q2 d h s sv rv Hc He H1 H2) as (s' & E & Em & _).
  { eapply same_entry_eff; eauto. }
  exists s', rv. split; auto.
Qed.

Theorem forced_only_if_same_entry oc size clen q1 q2 d h s fault s' r :
  SameEntry q1 q2 ->
  created oc size clen q1 d h = Some s ->
  q_entry q2 = EForced -> external fault ->
  run_entry oc size fault q2 s = (s', r) -> s_main s' <> s_main s ->
  q_ver q2 <> q_ver q1 \/ q_fmt q2 <> q_fmt q1.
Proof.
  intros Hs Hc He Hx Hr Hch. apply same_entry_eq in Hs.
  destruct (forced_only_if_effective _ _ _ _ _ _ _ _ _ _ _ Hc He Hx Hr Hch) as (_ & sv & rv & H1 & H2 & Hd).
  destruct (N.eq_dec (q_ver q2) (q_ver q1)) as [Ev|]; auto.
  right. intros Ef. destruct Hd as [Hd|Hd]; [|contradiction].
  apply Hd. unfold eff_req in *. rewrite <- Hs, Ev, Ef, H1 in H2. congruence.
Qed.

(* --- refuted inside the class (each witness is also a replay of the differential engine) *)
Definition w_import (v : N) := {| q_entry := EImport; q_ver := v; q_fmt := FBytes |}.
Definition w_forced (v : N) := {| q_entry := EForced; q_ver := v; q_fmt := FBytes |}.

Lemma u32_10 : u32 10. Proof. reflexivity. Qed.
Lemma u32_9 : u32 9. Proof. reflexivity. Qed.
Lemma u32_11 : u32 11. Proof. reflexivity. Qed.

Definition wstore (q : req) (d h : list N) : store :=
  match created false 4 20 q d h with Some s => s | None => empty_store end.

Theorem match_keeps_full_refuted : ~ match_keeps_full_stmt.
Proof.
  intros F.
  (* import(10) then forced_import(10): Ok, but empty *)
  pose proof (F false 4 20 (w_import 10) (w_forced 10) [7;8;9] [] (wstore (w_import 10) [7;8;9] [])
                eq_refl eq_refl eq_refl eq_refl ltac:(discriminate)) as E.
  vm_compute in E. discriminate.
Qed.

Theorem match_keeps_full_refuted_rejects : 
  run_entry false 4 None (w_import 10) (wstore (w_forced 10) [7;8;9] []) =
  (wstore (w_forced 10) [7;8;9] [], Err DifferentVersion).
Proof. vm_compute. reflexivity. Qed.

Theorem plain_mismatch_full_refuted : ~ plain_mismatch_full_stmt.
Proof.
  intros F.
  (* forced_import(10) then import(11): the old data is served under the new version *)
  destruct (F false 4 20 (w_forced 10) (w_import 11) [7;8;9] [] (wstore (w_forced 10) [7;8;9] [])
              u32_10 u32_11 eq_refl eq_refl ltac:(left; discriminate) ltac:(discriminate)) as [E|E];
    vm_compute in E; discriminate.
Qed.

Theorem forced_mismatch_full_refuted : ~ forced_mismatch_full_stmt.
Proof.
  intros F.
  (* import(10) then forced_import(9): keeps the data of the other version *)
  destruct (F false 4 20 (w_import 10) (w_forced 9) [7;8;9] [] (wstore (w_import 10) [7;8;9] [])
              u32_10 u32_9 eq_refl eq_refl ltac:(left; discriminate) ltac:(discriminate)) as (s' & rv & E & _).
  vm_compute in E. discriminate.
Qed.

(* regression example for the repaired defect (fix 5d157a9): forced_import(10) with deleted slots
   1 and 3, reopened by forced_import(11): the holes region is gone and freshly pushed values are
   all visible.  With RAW_FORCED_REMOVES_HOLES = false this example (and reset_aux_wf) fails. *)
Example forced_reset_removes_holes :
  let s := wstore (w_forced 10) [7;8;9;10;11] [1;3] in
  s_holes s <> None /\
  exists s', run_entry false 4 None (w_forced 11) s = (s', Ok empty_view) /\ s_holes s' = None /\
             probe empty_view [60000; 60001; 60002; 60003] = [Some 60000; Some 60001; Some 60002; Some 60003].
Proof.
  cbv zeta. split; [vm_compute; discriminate|].
  eexists. repeat apply conj; vm_compute; reflexivity.
Qed.

Theorem forced_only_if_full_refuted : ~ forced_only_if_full_stmt.
Proof.
  intros F.
  (* import(10) then forced_import(10): main region replaced although nothing differs *)
  destruct (F false 4 20 (w_import 10) (w_forced 10) [7;8;9] [] (wstore (w_import 10) [7;8;9] []) None
              (fst (run_entry false 4 None (w_forced 10) (wstore (w_import 10) [7;8;9] [])))
              (snd (run_entry false 4 None (w_forced 10) (wstore (w_import 10) [7;8;9] [])))
              u32_10 u32_10 eq_refl eq_refl (or_introl eq_refl)) as [E|E].
  - vm_compute. reflexivity.
  - vm_compute. discriminate.
  - now apply E.
  - now apply E.
Qed.

(* every witness above lies in the class *)
Lemma witnesses_in_class :
  KnownClass_b (w_import 10) (w_forced 10) = true /\ KnownClass_b (w_forced 10) (w_import 11) = true /\
  KnownClass_b (w_import 10) (w_forced 9) = true /\ KnownClass_b (w_forced 10) (w_import 10) = true.
Proof. repeat split. Qed.

(* the model's own spec oracle on the witnesses (what the OCaml side would flag) *)
Lemma spec_oracle_flags_witness :
  spec_ok (w_import 10) (w_forced 10) [7;8;9] [] (wstore (w_import 10) [7;8;9] [])
          (run_entry false 4 None (w_forced 10) (wstore (w_import 10) [7;8;9] [])) = false /\
  spec_ok (w_import 10) (w_import 10) [7;8;9] [] (wstore (w_import 10) [7;8;9] [])
          (run_entry false 4 None (w_import 10) (wstore (w_import 10) [7;8;9] [])) = true.
Proof. split; vm_compute; reflexivity. Qed.

(* ------------------------------------------------------------------ three steps: open, write, the
   same request again.  Whatever a successful open left behind (a verified header or a header
   re-created by the reset arm), writing contents and repeating the SAME request returns them. *)
Lemma fill_facts fam size clen rv f d h s m0 :
  s_main s = Some m0 -> m_hdr m0 = hdr_of rv f -> 0 < size ->
  (fam = Raw -> h = [] -> s_holes s = None) ->
  (fam = Comp -> d = [] ->
   HEADER_OFFSET <= m_len m0 /\ m_data m0 = [] /\ s_pages s = Some {| a_len := 0; a_data := [] |}) ->
  exists m2, s_main (fill fam size clen d h s) = Some m2 /\ HEADER_OFFSET <= m_len m2 /\
             m_hdr m2 = hdr_of rv f /\ aligned fam size m2 /\ aux_wf fam (fill fam size clen d h s) /\
             after_open fam (fill fam size clen d h s) = fill fam size clen d h s /\
             view_of fam (fill fam size clen d h s) m2 =
             {| v_data := d; v_holes := match fam with Raw => h | Comp => [] end |}.
Proof.
  intros Hm Hh Hs Hr Hc. unfold fill. rewrite Hm. destruct fam.
  - eexists. destruct s as [mm pp hh]; cbn [s_main s_holes s_pages with_main with_holes] in *.
    destruct h as [|x h].
    + rewrite (Hr eq_refl eq_refl). cbn [s_main].
      repeat apply conj; try reflexivity; cbn [m_len m_hdr aligned aux_wf]; try lia; try exact Hh; try exact I.
      replace (HEADER_OFFSET + size * len d - HEADER_OFFSET) with (len d * size) by lia.
      apply N.mod_mul. lia.
    + cbn [s_main with_holes].
      repeat apply conj; try reflexivity; cbn [m_len m_hdr aligned aux_wf]; try lia; try exact Hh.
      * replace (HEADER_OFFSET + size * len d - HEADER_OFFSET) with (len d * size) by lia.
        apply N.mod_mul. lia.
      * unfold holes_wf. cbn [s_holes a_len]. rewrite (N.mul_comm SIZE_OF_USIZE). apply N.mod_mul. discriminate.
  - destruct d as [|x d].
    + destruct (Hc eq_refl eq_refl) as (Hl & Hd & Hp). exists m0.
      repeat apply conj; auto; cbn [aligned aux_wf after_open]; auto.
      * unfold pages_wf. rewrite Hp. reflexivity.
      * unfold ensure_pages. rewrite Hp. now apply with_pages_same.
      * unfold view_of, pages_list. rewrite Hp, Hd. reflexivity.
    + eexists. destruct s as [mm pp hh]; cbn [s_main s_holes s_pages with_main with_pages] in *.
      repeat apply conj; try reflexivity; cbn [m_len m_hdr aligned aux_wf]; try lia; try exact Hh; try exact I.
      unfold view_of, pages_list. cbn [s_pages with_pages with_main a_data sumN m_data]. f_equal. unfold take, len.
      replace (N.to_nat (N.of_nat (length (x :: d)) + 0)) with (length (x :: d)) by lia.
      apply firstn_all.
Qed.

Lemma same_request_after_fill oc size clen q s m0 rv d h :
  0 < size -> eff_req oc q = Ok rv -> s_main s = Some m0 -> m_hdr m0 = hdr_of rv (q_fmt q) ->
  (req_fam q = Raw -> eff_holes q h = [] -> s_holes s = None) ->
  (req_fam q = Comp -> d = [] ->
   HEADER_OFFSET <= m_len m0 /\ m_data m0 = [] /\ s_pages s = Some {| a_len := 0; a_data := [] |}) ->
  run_entry oc size None q (fill (req_fam q) size clen d (eff_holes q h) s) =
  (fill (req_fam q) size clen d (eff_holes q h) s, Ok {| v_data := d; v_holes := eff_holes q h |}).
Proof.
  intros Hs He Hm Hh Hr Hc.
  destruct (fill_facts (req_fam q) size clen rv (q_fmt q) d (eff_holes q h) s m0 Hm Hh Hs Hr Hc)
    as (m2 & Hm2 & Hl2 & Hh2 & Ha2 & Hw2 & Hao & Hv).
  assert (Hview : {| v_data := d; v_holes := match req_fam q with Raw => eff_holes q h | Comp => [] end |} =
                  {| v_data := d; v_holes := eff_holes q h |}).
  { unfold eff_holes. destruct (req_fam q); reflexivity. }
  unfold run_entry, eff_req, req_fam in *. destruct (q_entry q).
  - rewrite (import_match_keeps oc _ size _ m2 (q_ver q) (q_fmt q) rv Hm2 Hl2 He Hh2 Ha2 Hw2).
    now rewrite Hao, Hv, Hview.
  - rewrite (forced_match_keeps oc _ size _ m2 (q_ver q) (q_fmt q) rv Hm2 Hl2 He Hh2 Ha2 Hw2).
    now rewrite Hao, Hv, Hview.
Qed.

(* the vector re-created by the reset arm is stored under the version the same request asks for *)
Theorem reset_then_same_request_keeps oc size clen q1 q2 d h s sv rv :
  0 < size -> created oc size clen q1 d h = Some s -> q_entry q2 = EForced ->
  eff_req oc q1 = Ok sv -> eff_req oc q2 = Ok rv -> (rv <> sv \/ q_fmt q2 <> q_fmt q1) ->
  exists s', run_entry oc size None q2 s = (s', Ok empty_view) /\
    forall clen' d' h',
      run_entry oc size None q2 (fill (req_fam q2) size clen' d' (eff_holes q2 h') s') =
      (fill (req_fam q2) size clen' d' (eff_holes q2 h') s', Ok {| v_data := d'; v_holes := eff_holes q2 h' |}).
Proof.
  intros Hs Hc He H1 H2 Hn. pose proof Hc as Hc0. apply created_shape in Hc. destruct Hc as (sv' & H1' & ->).
  rewrite H1 in H1'. injection H1' as <-.
  destruct (shape_facts (req_fam q1) size clen sv (q_fmt q1) d (eff_holes q1 h)) as (Hm & Hl & Hh & _).
  assert (Hb : format_byte_ok (h_fmt (m_hdr (shape_main (req_fam q1) size clen sv (q_fmt q1) d))) = true)
    by (rewrite Hh; apply fcode_ok).
  assert (Hne : m_hdr (shape_main (req_fam q1) size clen sv (q_fmt q1) d) <> hdr_of rv (q_fmt q2))
    by (rewrite Hh; now apply hdr_of_neq).
  assert (H2' : eff oc (fam_of (q_fmt q2)) EForced (q_ver q2) = Ok rv) by (unfold eff_req in H2; now rewrite He in H2).
  pose proof (forced_mismatch_resets oc (fam_of (q_fmt q2)) size _ _ (q_ver q2) (q_fmt q2) rv Hm Hl Hb H2' Hne) as E.
  eexists. split.
  - unfold run_entry. rewrite He. exact E.
  - intros clen' d' h'.
    set (s0 := shape (req_fam q1) size clen sv (q_fmt q1) d (eff_holes q1 h)) in *.
    apply (same_request_after_fill oc size clen' q2 _ (fresh_main rv (q_fmt q2)) rv d' h' Hs H2).
    + unfold req_fam. destruct (fam_of (q_fmt q2)), s0; reflexivity.
    + reflexivity.
    + unfold req_fam. intros Hf _. rewrite Hf. destruct s0; reflexivity.
    + unfold req_fam. intros Hf _. rewrite Hf. destruct s0; cbn. repeat split. lia.
Qed.

(* ... and so is the vector that was kept: extend it, write, same request again *)
Theorem extend_then_same_request_keeps oc size clen clen' q1 q2 d h s sv d' h' :
  0 < size -> created oc size clen q1 d h = Some s ->
  eff_req oc q1 = Ok sv -> eff_req oc q2 = Ok sv -> q_fmt q2 = q_fmt q1 ->
  (eff_holes q2 h' = [] -> eff_holes q1 h = []) ->          (* deleted slots are not all un-deleted *)
  (req_fam q2 = Comp -> d' = [] -> d = []) ->                (* a compressed vector is not emptied *)
  run_entry oc size None q2 (fill (req_fam q2) size clen' d' (eff_holes q2 h') s) =
  (fill (req_fam q2) size clen' d' (eff_holes q2 h') s, Ok {| v_data := d'; v_holes := eff_holes q2 h' |}).
Proof.
  intros Hs Hc H1 H2 Hf Hho Hde. apply created_shape in Hc. destruct Hc as (sv' & H1' & ->).
  rewrite H1 in H1'. injection H1' as <-.
  destruct (shape_facts (req_fam q1) size clen sv (q_fmt q1) d (eff_holes q1 h)) as (Hm & Hl & Hh & _).
  assert (Hfam : req_fam q2 = req_fam q1) by (unfold req_fam; now rewrite Hf).
  apply (same_request_after_fill oc size clen' q2 _ _ sv d' h' Hs H2 Hm).
  - now rewrite Hf.
  - intros Hr He. rewrite Hfam in Hr. rewrite (Hho He). rewrite Hr. reflexivity.
  - intros Hr He. rewrite (Hde Hr He). rewrite Hfam in Hr. rewrite Hr. cbn. repeat split. lia.
Qed.

(* ------------------------------------------------------------------ overflow of Version + Version *)
Theorem eff_in_range oc q :
  q_ver q + N.of_nat (adds (req_fam q) (q_entry q)) * layer_version (req_fam q) < two32 ->
  eff_req oc q = Ok (q_ver q + N.of_nat (adds (req_fam q) (q_entry q)) * layer_version (req_fam q)).
Proof. intros H. unfold eff_req, eff. now apply add_n_in_range. Qed.

Theorem eff_panic_only_checked q : eff_req false q <> Panic.
Proof.
  unfold eff_req, eff. generalize (adds (fam_of (q_fmt q)) (q_entry q)) as k. generalize (q_ver q) as v.
  intros v k; revert v; induction k; intros v; cbn [add_n]; [discriminate|].
  unfold vadd. destruct (v + layer_version (fam_of (q_fmt q)) <? two32); cbn [bind]; apply IHk.
Qed.

(* satisfiability of the premises *)
Example created_example :
  created true 4 20 (w_import 10) [7;8;9] [1] <> None /\ SameEntry (w_import 10) (w_import 10) /\
  eff_req true (w_forced 10) = Ok 12 /\ eff_req true (w_import 4294967295) = Panic /\
  eff_req false (w_import 4294967295) = Ok 0.
Proof. repeat split; vm_compute; discriminate. Qed.
