(* Vec/CvRegion.v — the ABSTRACT rawdb region the compressed-vector model (C07, compressed half
   of C03) is layered on: a byte vector with rawdb's three mutators and their error rules
   (crates/rawdb/src/region.rs:65 write_at, :111 truncate, :133 truncate_write, :138 write_with).
   That the concrete allocator refines exactly this interface is C01's business.

   Elements: the pages region holds plain bytes (N below 256); the data region holds `cell`s.
   A cell is a byte, or — only ever produced by the *executable stand-in* for the external
   compressor (CvInst.v) — an opaque blob occupying one byte position.  The real compressors
   produce `CB` cells only; the theorems quantify over every `compress` into `list cell`. *)
From Anydb Require Import Common.Base Gen.Consts.

Inductive cell := CB (b : N) | CX (payload : list N).

Definition cell_byte (c : cell) : N := match c with CB b => b | CX _ => 0 end.

Inductive rerr := WriteOutOfBounds | TruncateInvalid.

(* region.rs:138-175.  `at_ > len` -> WriteOutOfBounds; growth beyond MAX_RESERVED_SIZE trips
   the assertion of RegionMetadata::set_reserved (region_metadata.rs:92) = Panic. *)
Definition r_write_at {A} (r : list A) (bs : list A) (at_ : N) : res rerr (list A) :=
  if len r <? at_ then Err WriteOutOfBounds
  else if MAX_RESERVED_SIZE <? N.max (at_ + len bs) (len r) then Panic
  else Ok (take at_ r ++ bs ++ drop (at_ + len bs) r).

(* region.rs:111-131 *)
Definition r_truncate {A} (r : list A) (n : N) : res rerr (list A) :=
  if len r <? n then Err TruncateInvalid else Ok (take n r).

(* region.rs:133 = write_with(data, Some(at), truncate = true): new length = at + |data| *)
Definition r_truncate_write {A} (r : list A) (at_ : N) (bs : list A) : res rerr (list A) :=
  if len r <? at_ then Err WriteOutOfBounds
  else if MAX_RESERVED_SIZE <? at_ + len bs then Panic
  else Ok (take at_ r ++ bs).

Lemma len_take_le {A} n (l : list A) : n <= len l -> len (take n l) = n.
Proof. intros. rewrite len_take. lia. Qed.

Lemma r_truncate_write_ok {A} (r : list A) at_ bs r' :
  r_truncate_write r at_ bs = Ok r' ->
  at_ <= len r /\ r' = take at_ r ++ bs /\ len r' = at_ + len bs /\ len r' <= MAX_RESERVED_SIZE.
Proof.
  unfold r_truncate_write. destruct (len r <? at_) eqn:E1; [discriminate|].
  destruct (MAX_RESERVED_SIZE <? at_ + len bs) eqn:E2; [discriminate|].
  intros H; inversion H; subst. repeat split; try lia.
  all: rewrite len_app, len_take_le; lia.
Qed.

Lemma r_write_at_ok {A} (r : list A) at_ bs r' :
  r_write_at r bs at_ = Ok r' ->
  at_ <= len r /\ r' = take at_ r ++ bs ++ drop (at_ + len bs) r /\
  len r' = N.max (at_ + len bs) (len r) /\ len r' <= MAX_RESERVED_SIZE.
Proof.
  unfold r_write_at. destruct (len r <? at_) eqn:E1; [discriminate|].
  destruct (MAX_RESERVED_SIZE <? _) eqn:E2; [discriminate|].
  intros H; inversion H; subst.
  assert (L : len (take at_ r ++ bs ++ drop (at_ + len bs) r) = N.max (at_ + len bs) (len r)).
  { rewrite !len_app, len_take_le, len_drop by lia. lia. }
  repeat split; try lia.
Qed.
