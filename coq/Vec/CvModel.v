(* Vec/CvModel.v — MODEL of ReadWriteCompressedVec (PcoVec / LZ4Vec / ZstdVec and EagerVec
   wrappers of them, which only delegate) over the abstract rawdb region of CvRegion.v.
   Transcribed branch for branch from
     crates/vecdb/src/variants/compressed/inner/read_write/{mod,any_stored_vec,writable,readable}.rs
     crates/vecdb/src/variants/compressed/inner/{pages.rs,strategy.rs,page/mod.rs}
     crates/vecdb/src/base/{read_write.rs,header/{mod,inner}.rs}   crates/vecdb/src/traits/any_stored.rs
   Definitions only (executable, extracted through CvInst.v); proofs are in CvInv.v / CvRefine.v.

   External behaviour = Section variables:
     T, size, enc, dec         the element type as fixed-width bit patterns (native layout)
     compress, decompress      the external compressor.  `compress` takes a *hint* as first
                               argument which the real compressors ignore; the executable stand-in
                               uses it to produce exactly as many cells as the real compressor
                               produced bytes (reported by the harness), so that page entries and
                               region lengths can be compared byte for byte. *)
From Anydb Require Import Common.Base Common.LE Gen.Consts Gen.Sizes Codec.Vecdb Vec.CvRegion Vec.CvPages.

Section CompVec.
  Variable T : Type.
  Variable size : N.                         (* size_of::<T>() *)
  Variable enc : T -> list N.                (* Bytes::to_bytes *)
  Variable dec : list N -> T.                (* native layout: any `size` bytes are a value *)
  Variable compress : N -> list T -> list cell.
  Variable decompress : list cell -> N -> option (list T).
  Variable fmt : N.                          (* Format byte of the wrapper (64/65/66) *)
  Variable vver : N.                         (* options.version + layer VERSION as stored in the header *)

  (* read_write/mod.rs:45 *)
  Definition PER_PAGE : N := MAX_UNCOMPRESSED_PAGE_SIZE / size.

  (* base/read_write.rs:14 + read_write/mod.rs:33 *)
  Record cvs := mkCvs {
    s_hdr : header;                (* in-memory header *)
    s_hdr_mod : bool;              (* Header::modified *)
    s_data : list cell;            (* the `<name>/<index>` region: header + page data *)
    s_pg : pages;                  (* Pages: memory + `<name>/<index>_pages` region *)
    s_stored_len : N;              (* SharedLen *)
    s_pushed : list T;
    s_prev_pushed : list T;
    s_prev_stored_len : N;
    s_ssc : N;                     (* saved_stamped_changes (retention k) *)
    s_changes : option (list (N * list N));   (* the directory changes/<name>/<index>: stamp -> bytes, ascending; None = absent *)
  }.

  Definition set_hdr (s : cvs) h m := mkCvs h m (s_data s) (s_pg s) (s_stored_len s) (s_pushed s) (s_prev_pushed s) (s_prev_stored_len s) (s_ssc s) (s_changes s).
  Definition set_data (s : cvs) d := mkCvs (s_hdr s) (s_hdr_mod s) d (s_pg s) (s_stored_len s) (s_pushed s) (s_prev_pushed s) (s_prev_stored_len s) (s_ssc s) (s_changes s).
  Definition set_pg (s : cvs) p := mkCvs (s_hdr s) (s_hdr_mod s) (s_data s) p (s_stored_len s) (s_pushed s) (s_prev_pushed s) (s_prev_stored_len s) (s_ssc s) (s_changes s).
  Definition set_stored_len (s : cvs) n := mkCvs (s_hdr s) (s_hdr_mod s) (s_data s) (s_pg s) n (s_pushed s) (s_prev_pushed s) (s_prev_stored_len s) (s_ssc s) (s_changes s).
  Definition set_pushed (s : cvs) l := mkCvs (s_hdr s) (s_hdr_mod s) (s_data s) (s_pg s) (s_stored_len s) l (s_prev_pushed s) (s_prev_stored_len s) (s_ssc s) (s_changes s).

  Definition set_prev (s : cvs) (pp : list T) (psl : N) :=
    mkCvs (s_hdr s) (s_hdr_mod s) (s_data s) (s_pg s) (s_stored_len s) (s_pushed s) pp psl (s_ssc s) (s_changes s).
  Definition set_roll (s : cvs) (k : N) (ch : option (list (N * list N))) :=
    mkCvs (s_hdr s) (s_hdr_mod s) (s_data s) (s_pg s) (s_stored_len s) (s_pushed s) (s_prev_pushed s) (s_prev_stored_len s) k ch.

  Definition real_stored_len (s : cvs) : N := pages_stored_len PER_PAGE (pg_vec (s_pg s)).
  Definition cv_len (s : cvs) : N := s_stored_len s + len (s_pushed s).
  Definition cv_stamp (s : cvs) : N := h_stamp (s_hdr s).

  (* ---- strategy.rs ------------------------------------------------------------------- *)
  (* :64 values_to_bytes *)
  Definition values_to_bytes (vs : list T) : list N := flat_map enc vs.

  Fixpoint decode_vals (n : nat) (bs : list N) : list T :=
    match n with
    | O => []
    | S k => dec (take size bs) :: decode_vals k (drop size bs)
    end.

  (* :95 bytes_to_values_into, IS_NATIVE_LAYOUT = true (every numeric and [u8; n] type on a
     little-endian target, bytes/numeric.rs:10, bytes/array.rs:10) *)
  Definition bytes_to_values (bs : list cell) (n : N) : res cverr (list T) :=
    if n * size <=? len bs then Ok (decode_vals (N.to_nat n) (map cell_byte bs))
    else Err EDecompressionMismatch.

  (* :36 decode_page *)
  Definition decode_page (d : list cell) (pg : page) : res cverr (list T) :=
    let n := page_values_count pg in
    if page_is_raw pg then bytes_to_values d n
    else match decompress d n with
         | Some v => if len v =? n then Ok v else Err EDecompressionMismatch
         | None => Err EDecompressionMismatch
         end.

  (* Reader::unchecked_read(start, bytes) on the data region *)
  Definition page_data (d : list cell) (pg : page) : list cell :=
    slice (p_start pg) (p_start pg + p_bytes pg) d.

  (* ---- header ------------------------------------------------------------------------- *)
  (* header/mod.rs:44 update_stamp *)
  Definition update_stamp (s : cvs) (st : N) : cvs :=
    if h_stamp (s_hdr s) =? st then s
    else let h := s_hdr s in
         set_hdr s (mkHeader (h_hv h) (h_vv h) (h_cv h) st (h_format h)) true.

  (* base/read_write.rs:133 write_header_if_needed; header/inner.rs:30 write = write_at(bytes, 0) *)
  Definition write_header_if_needed (s : cvs) : cvs * res cverr unit :=
    if s_hdr_mod s then
      match lift_r (r_write_at (s_data s) (map CB (header_to_bytes (s_hdr s))) 0) with
      | Ok d => (set_hdr (set_data s d) (s_hdr s) false, Ok tt)
      | Err e => (s, Err e)
      | Panic => (s, Panic)
      end
    else (s, Ok tt).

  (* ---- import (read_write/mod.rs:76 import_with; base/read_write.rs:35; pages.rs:25) ---- *)
  Definition cv_import (data : list cell) (disk : list N) : res cverr cvs :=
    let region_len := len data in
    if (0 <? region_len) && (region_len <? HEADER_OFFSET) then Err ECorruptedRegion else
    let! hd :=
      if region_len =? 0 then
        (* header/inner.rs:18 create_and_write *)
        let h := mkHeader HEADER_VERSION vver 0 0 fmt in
        let! d := lift_r (r_write_at data (map CB (header_to_bytes h)) 0) in Ok (h, d)
      else
        (* header/inner.rs:35 import_and_verify *)
        let! h := lift_v (header_from_bytes (map cell_byte (take HEADER_OFFSET data))) in
        if negb (h_hv h =? HEADER_VERSION) then Err EDifferentVersion
        else if negb (h_vv h =? vver) then Err EDifferentVersion
        else if negb (h_format h =? fmt) then Err EDifferentFormat
        else Ok (h, data) in
    let '(h, d) := hd in
    let! pg := pages_import disk in
    let n := pages_stored_len PER_PAGE (pg_vec pg) in
    Ok (mkCvs h false d pg n [] [] n 0 None).

  (* ImportOptions::saved_stamped_changes; the change directory is on disk and survives *)
  Definition cv_import_k (k : N) (ch : option (list (N * list N))) (data : list cell) (disk : list N) : res cverr cvs :=
    let! s := cv_import data disk in Ok (set_roll s k ch).

  (* ---- truncate / reset (read_write/writable.rs:23,30; base/read_write.rs:198,215) ------- *)
  Definition cv_truncate (s : cvs) (index : N) : cvs :=
    let stored_len := s_stored_len s in
    let l := stored_len + len (s_pushed s) in
    if l <=? index then s else
    let s1 := if index <=? stored_len then set_pushed s []
              else set_pushed s (take (index - stored_len) (s_pushed s)) in
    if index <? stored_len then set_stored_len s1 index else s1.

  Definition cv_reset (s : cvs) : cvs :=
    let s1 := set_pg s (pages_reset (s_pg s)) in
    let s2 := cv_truncate s1 0 in
    (* reset_base: pushed.clear() (current and previous), stored_len 0, prev_stored_len 0, stamp 0 *)
    (* … and the change directory is removed (base/read_write.rs:221) *)
    let s3 := mkCvs (s_hdr s2) (s_hdr_mod s2) (s_data s2) (s_pg s2) 0 [] [] 0 (s_ssc s2) None in
    update_stamp s3 0.

  (* ---- write (read_write/any_stored_vec.rs:51-183) -------------------------------------- *)
  (* :57-97: (truncate_at, starting_page_index, partial_page) or an early return *)
  Inductive plan :=
  | PlanNoop
  | PlanGo (truncate_at spi : N) (partial : option (page * N)).

  (* `has_changes` = Pages::has_changes (pages.rs:99): the early return is skipped while a
     truncation of the in-memory index (reset()) has not reached the disk (any_stored_vec.rs:68-72) *)
  Definition write_plan (pv : list page) (has_changes : bool) (stored_len pushed_len : N) : res cverr plan :=
    let real := pages_stored_len PER_PAGE pv in
    if real <? stored_len then Err ECorruptedRegion else
    if (pushed_len =? 0) && (stored_len =? real) && negb has_changes then Ok PlanNoop else
    let spi := stored_len / PER_PAGE in
    if len pv <? spi then Err ECorruptedRegion else
    if spi <? len pv then
      let partial_len := stored_len mod PER_PAGE in
      match get pv spi with
      | None => Err EExpectVecToHaveIndex
      | Some pg => Ok (PlanGo (p_start pg) spi (if partial_len =? 0 then None else Some (pg, partial_len)))
      end
    else Ok (PlanGo (pages_next_start pv) spi None).

  (* :103-107 the fast-path condition *)
  Definition fast_path (partial : option (page * N)) (pushed_len : N) : option (page * N) :=
    match partial with
    | Some (pg, partial_len) =>
        if page_is_raw pg && (partial_len =? page_values_count pg) && (partial_len + pushed_len <? PER_PAGE)
        then Some (pg, partial_len) else None
    | None => None
    end.

  Definition hint_at (hints : list N) (pi : N) : N :=
    match get hints pi with Some k => k | None => 0 end.

  (* :151-161 one chunk: (bytes, byte_len, values_len, is_raw) *)
  Definition encode_chunk (hints : list N) (pi : N) (chunk : list T) : list cell * (N * N * bool) :=
    if len chunk =? PER_PAGE then
      let c := compress (hint_at hints pi) chunk in (c, (len c, len chunk, false))
    else
      let r := map CB (values_to_bytes chunk) in (r, (len r, len chunk, true)).

  Fixpoint encode_chunks (hints : list N) (pi : N) (cs : list (list T)) : list cell * list (N * N * bool) :=
    match cs with
    | [] => ([], [])
    | c :: t =>
        let '(b, sz) := encode_chunk hints pi c in
        let '(bt, st) := encode_chunks hints (pi + 1) t in
        (b ++ bt, sz :: st)
    end.

  (* :169-177 *)
  Fixpoint push_pages (p : pages) (pi : N) (sizes : list (N * N * bool)) : pages * res cverr unit :=
    match sizes with
    | [] => (p, Ok tt)
    | (byte_len, values_len, is_raw) :: t =>
        let start := pages_next_start (pg_vec p) in
        let pg := if is_raw then page_raw start byte_len values_len
                  else page_compressed start byte_len values_len in
        match pages_checked_push p pi pg with
        | (p1, Ok _) => push_pages p1 (pi + 1) t
        | (p1, r) => (p1, r)
        end
    end.

  (* :108-126 the fast path: append to the raw last page *)
  Definition write_fast (s : cvs) (spi : N) (pg : page) (partial_len : N) : cvs * res cverr bool :=
    let stored_len := s_stored_len s in
    let pushed_len := len (s_pushed s) in
    let taken := s_pushed s in
    let s1 := set_pushed s [] in
    let raw := map CB (values_to_bytes taken) in
    match lift_r (r_truncate_write (s_data s1) (page_end pg) raw) with
    | Err e => (s1, Err e)
    | Panic => (s1, Panic)
    | Ok d =>
    let s2 := set_data s1 d in
    let p1 := pages_truncate (s_pg s2) spi in
    match pages_checked_push p1 spi (page_raw (p_start pg) (p_bytes pg + len raw) (partial_len + pushed_len)) with
    | (p2, Err e) => (set_pg s2 p2, Err e)
    | (p2, Panic) => (set_pg s2 p2, Panic)
    | (p2, Ok _) =>
    let s3 := set_stored_len (set_pg s2 p2) (stored_len + pushed_len) in
    match pages_flush p2 with
    | (p3, Ok _) => (set_pg s3 p3, Ok true)
    | (p3, Err e) => (set_pg s3 p3, Err e)
    | (p3, Panic) => (set_pg s3 p3, Panic)
    end end end.

  (* :142-183 the slow path, `head` = the kept values of the decoded partial page *)
  Definition write_slow (s : cvs) (hints : list N) (truncate_at spi : N) (head : list T) : cvs * res cverr bool :=
    let stored_len := s_stored_len s in
    let pushed_len := len (s_pushed s) in
    (* :142-147 *)
    let taken := s_pushed s in
    let s1 := set_pushed s [] in
    let values := match head with [] => taken | _ => head ++ taken end in
    (* :149-162 *)
    let '(buf, page_sizes) := encode_chunks hints spi (chunks PER_PAGE values) in
    (* :165 *)
    match lift_r (r_truncate_write (s_data s1) truncate_at buf) with
    | Err e => (s1, Err e)
    | Panic => (s1, Panic)
    | Ok d =>
    let s2 := set_data s1 d in
    (* :167-177 *)
    let p1 := pages_truncate (s_pg s2) spi in
    match push_pages p1 spi page_sizes with
    | (p2, Err e) => (set_pg s2 p2, Err e)
    | (p2, Panic) => (set_pg s2 p2, Panic)
    | (p2, Ok _) =>
    (* :179-180 *)
    let s3 := set_stored_len (set_pg s2 p2) (stored_len + pushed_len) in
    match pages_flush p2 with
    | (p3, Ok _) => (set_pg s3 p3, Ok true)
    | (p3, Err e) => (set_pg s3 p3, Err e)
    | (p3, Panic) => (set_pg s3 p3, Panic)
    end end end.

  Definition cv_write (s0 : cvs) (hints : list N) : cvs * res cverr bool :=
    match write_header_if_needed s0 with
    | (s, Err e) => (s, Err e)
    | (s, Panic) => (s, Panic)
    | (s, Ok _) =>
    match write_plan (pg_vec (s_pg s)) (pages_has_changes (s_pg s)) (s_stored_len s) (len (s_pushed s)) with
    | Err e => (s, Err e)
    | Panic => (s, Panic)
    | Ok PlanNoop => (s, Ok false)
    | Ok (PlanGo truncate_at spi partial) =>
    match fast_path partial (len (s_pushed s)) with
    | Some (pg, partial_len) => write_fast s spi pg partial_len
    | None =>
        (* :129-138 decode the partial page *)
        match (match partial with
               | Some (pg, partial_len) =>
                   let! pv := decode_page (page_data (s_data s) pg) pg in Ok (take partial_len pv)
               | None => Ok []
               end) with
        | Err e => (s, Err e)
        | Panic => (s, Panic)
        | Ok head => write_slow s hints truncate_at spi head
        end
    end end end.

  (* ---- reads (read_write/readable.rs:12 read_into_at; mod.rs:155 read_stored_pages_into) --- *)
  Fixpoint read_pages (pv : list page) (d : list cell) (to : N) (idxs : list N) : res cverr (list T) :=
    match idxs with
    | [] => Ok []
    | pi :: rest =>
        let page_start := pi * PER_PAGE in
        match get pv pi with
        | None => Panic                                (* .expect("page should exist …") *)
        | Some pg =>
            let n := page_values_count pg in
            let local_to := N.min (to - page_start) n in
            match decode_page (page_data d pg) pg with  (* .expect(…) on both branches *)
            | Ok vals =>
                (* compressed: decompress_append then truncate(before + local_to);
                   raw: page_buf[0..local_to] panics when local_to > len *)
                if page_is_raw pg && (len vals <? local_to) then Panic else
                let! more := read_pages pv d to rest in Ok (take local_to vals ++ more)
            | _ => Panic
            end
        end
    end.

  Definition cv_collect (s : cvs) : res cverr (list T) :=
    let l := cv_len s in
    if l =? 0 then Ok [] else
    let stored_len := s_stored_len s in
    let! st :=
      if 0 <? stored_len then
        let end_page := (stored_len - 1) / PER_PAGE in
        read_pages (pg_vec (s_pg s)) (s_data s) stored_len (seqN 0 (N.to_nat (end_page + 1)))
      else Ok [] in
    Ok (st ++ s_pushed s).

  (* ---- change records and rollback -------------------------------------------------------------
     base/rollback.rs (serialize_changes :18, parse_change_data :52, apply_rollback :86,
     save_change_file :94, save_prev :126, save_prev_for_rollback :131, read_current_change_file :136),
     base/change/cursor.rs, compressed/inner/read_write/{rollback.rs, writable.rs:46-75, mod.rs:220},
     traits/writable.rs:62 rollback_before *)
  Definition u64b (v : N) : list N := le_enc 8 v.

  (* mod.rs:220 collect_stored_range: the page loop *)
  Fixpoint csr_pages (pv : list page) (d : list cell) (real_len from to : N) (idxs : list N) : res cverr (list T) :=
    match idxs with
    | [] => Ok []
    | pi :: rest =>
        let page_start := pi * PER_PAGE in
        (* decode_page_with(real_len, pi, …): mod.rs:104 *)
        if real_len <=? page_start then Err EIndexTooHigh else
        match get pv pi with
        | None => Err EExpectVecToHaveIndex
        | Some pg =>
            let! decoded := decode_page (page_data d pg) pg in
            let local_from := from - page_start in                 (* saturating_sub *)
            let local_to := N.min (to - page_start) (len decoded) in
            if local_to <? local_from then Panic else               (* decoded[local_from..local_to] *)
            let! more := csr_pages pv d real_len from to rest in
            Ok (slice local_from local_to decoded ++ more)
        end
    end.

  Definition collect_stored_range (s : cvs) (from to : N) : res cverr (list T) :=
    if to <=? from then Ok [] else
    let real_len := real_stored_len s in
    let to := N.min to real_len in
    if to <=? from then Ok [] else
    let sp := from / PER_PAGE in
    let ep := (to - 1) / PER_PAGE in
    csr_pages (pg_vec (s_pg s)) (s_data s) real_len from to (seqN sp (N.to_nat (ep + 1 - sp))).

  (* rollback.rs:18 serialize_changes *)
  Definition serialize_changes (s : cvs) : res cverr (list N) :=
    let psl := s_prev_stored_len s in
    let sl := s_stored_len s in
    let truncated := psl - sl in                                   (* saturating_sub *)
    let! tv := if 0 <? truncated then collect_stored_range s sl psl else Ok [] in
    Ok (u64b (cv_stamp s) ++ u64b psl ++ u64b sl ++ u64b truncated ++ values_to_bytes tv
        ++ u64b (len (s_prev_pushed s)) ++ values_to_bytes (s_prev_pushed s)
        ++ u64b (len (s_pushed s)) ++ values_to_bytes (s_pushed s)).

  (* cursor.rs: (remaining bytes, absolute position) *)
  Definition cursor := (list N * N)%type.
  Definition check_remaining (c : cursor) (n : N) : res cverr unit :=
    if two64 <=? snd c + n then Err EOverflow
    else if len (fst c) <? n then Err EWrongLength else Ok tt.
  Definition rd_u64 (c : cursor) : res cverr (N * cursor) :=
    let! _ := check_remaining c 8 in Ok (le_dec (take 8 (fst c)), (drop 8 (fst c), snd c + 8)).
  Definition rd_skip (c : cursor) (n : N) : res cverr cursor :=
    let! _ := check_remaining c n in Ok (drop n (fst c), snd c + n).
  Definition rd_values (c : cursor) (count : N) : res cverr (list T * cursor) :=
    if two64 <=? size * count then Err EOverflow else
    let total := size * count in
    let! _ := check_remaining c total in
    Ok (decode_vals (N.to_nat count) (take total (fst c)), (drop total (fst c), snd c + total)).

  Record change := mkChange {
    ch_prev_stamp : N; ch_prev_stored_len : N; ch_truncated_start : N;
    ch_truncated_values : list T; ch_prev_pushed : list T }.

  (* rollback.rs:52 parse_change_data *)
  Definition parse_change (bs : list N) : res cverr change :=
    let! (ps, c1) := rd_u64 (bs, 0) in
    let! (psl, c2) := rd_u64 c1 in
    let! c3 := rd_skip c2 8 in
    let! (tc, c4) := rd_u64 c3 in
    if psl <? tc then Err EUnderflow else
    let! (tv, c5) := rd_values c4 tc in
    let! (ppl, c6) := rd_u64 c5 in
    let! (pp, c7) := rd_values c6 ppl in
    let! (pl, c8) := rd_u64 c7 in
    if two64 <=? size * pl then Err EOverflow else
    let! c9 := rd_skip c8 (size * pl) in
    (* cursor.rs expect_end (397122a), called by deserialize_then_undo_changes right after the parse:
       the record must be consumed exactly *)
    if negb (len (fst c9) =? 0) then Err EWrongLength else
    Ok (mkChange ps psl (psl - tc) tv pp).

  (* compressed rollback.rs:26 deserialize_then_undo_changes + base apply_rollback *)
  Definition cv_undo (s : cvs) (bs : list N) : cvs * res cverr unit :=
    match parse_change bs with
    | Err e => (s, Err e)
    | Panic => (s, Panic)
    | Ok ch =>
        if s_stored_len s <? ch_truncated_start ch then (s, Err EIndexTooHigh) else
        let '(sl, pushed) :=
          match ch_truncated_values ch with
          | [] => (ch_prev_stored_len ch, ch_prev_pushed ch)
          | _ => (N.min (ch_truncated_start ch) (real_stored_len s), ch_truncated_values ch ++ ch_prev_pushed ch)
          end in
        let s1 := update_stamp s (ch_prev_stamp ch) in
        (set_prev (set_pushed (set_stored_len s1 sl) pushed) pushed (s_prev_stored_len s1), Ok tt)
    end.

  Fixpoint lookup_file (dir : list (N * list N)) (st : N) : option (list N) :=
    match dir with
    | [] => None
    | (k, v) :: t => if k =? st then Some v else lookup_file t st
    end.

  (* save_prev_for_rollback *)
  Definition save_rollback_state (s : cvs) : cvs := set_prev s (s_pushed s) (s_stored_len s).
  (* save_prev *)
  Definition save_prev (s : cvs) : cvs := set_prev s [] (s_stored_len s).

  (* writable.rs:59 rollback *)
  Definition cv_rollback (s : cvs) : cvs * res cverr unit :=
    match s_changes s with
    | None => (s, Err EIo)
    | Some dir =>
        match lookup_file dir (cv_stamp s) with
        | None => (s, Err EIo)
        | Some bs =>
            match cv_undo s bs with
            | (s1, Ok _) => (save_rollback_state s1, Ok tt)
            | (s1, r) => (s1, r)
            end
        end
    end.

  (* rollback.rs:94 save_change_file (called with saved_stamped_changes > 0) *)
  Definition save_change_file (s : cvs) (stamp : N) (data : list N) : option (list (N * list N)) :=
    let dir := match s_changes s with Some d => d | None => [] end in
    let files := filter (fun f => (fst f <? stamp) && (fst f <=? cv_stamp s)) dir in
    let excess := len files - (s_ssc s - 1) in
    Some (drop excess files ++ [(stamp, data)]).

  (* writable.rs:46 stamped_write_with_changes *)
  Definition cv_commit (s : cvs) (st : N) (hints : list N) : cvs * res cverr bool :=
    if s_ssc s =? 0 then cv_write (update_stamp s st) hints else
    match serialize_changes s with
    | Err e => (s, Err e)
    | Panic => (s, Panic)
    | Ok data =>
        let s1 := set_roll s (s_ssc s) (save_change_file s st data) in
        match cv_write (update_stamp s1 st) hints with
        | (s2, Ok b) => (save_prev s2, Ok b)
        | (s2, r) => (s2, r)
        end
    end.

  (* traits/writable.rs:62 rollback_before: the loop over files.range(..=stamp).rev() *)
  Fixpoint rb_loop (s : cvs) (target : N) (stamps : list N) : cvs * res cverr unit :=
    match stamps with
    | [] => (s, Ok tt)
    | fs :: rest =>
        let current := cv_stamp s in
        if current <? target then (s, Ok tt) else
        if negb (fs =? current) then (s, Err EStampMismatch) else
        match cv_rollback s with
        | (s1, Ok _) => rb_loop s1 target rest
        | (s1, r) => (s1, r)
        end
    end.
  Definition cv_rollback_before (s : cvs) (target : N) : cvs * res cverr unit :=
    match s_changes s with
    | None => (s, Err EIo)                                    (* read_dir on a missing directory *)
    | Some dir =>
        let stamps := rev (filter (fun st => st <=? cv_stamp s) (map fst dir)) in
        (* since 533ea26 no save_rollback_state() here: each rollback() re-bases itself *)
        rb_loop s target stamps
    end.

  (* ---- the state machine ------------------------------------------------------------------- *)
  Inductive op :=
  | Push (vs : list T)
  | Trunc (n : N)                       (* truncate_if_needed_at *)
  | Write (hints : list N)              (* AnyStoredVec::write *)
  | Flush (hints : list N)              (* AnyStoredVec::flush (+ Database::flush): same effect on the abstract regions *)
  | Reset
  | Reimport                            (* drop the vector, import it again from the regions *)
  | StampedWrite (st : N) (hints : list N)    (* stamped_write_with_changes(st) *)
  | Rollback
  | RollbackBefore (st : N).

  Definition unit_res (r : cvs * res cverr unit) : cvs * res cverr bool :=
    match r with
    | (s, Ok _) => (s, Ok false)
    | (s, Err e) => (s, Err e)
    | (s, Panic) => (s, Panic)
    end.

  Definition cv_step (s : cvs) (o : op) : cvs * res cverr bool :=
    match o with
    | Push vs => (set_pushed s (s_pushed s ++ vs), Ok false)
    | Trunc n => (cv_truncate s n, Ok false)
    | Write h | Flush h => cv_write s h
    | Reset => (cv_reset s, Ok false)
    | Reimport =>
        match cv_import_k (s_ssc s) (s_changes s) (s_data s) (pg_disk (s_pg s)) with
        | Ok s' => (s', Ok false)
        | Err e => (s, Err e)
        | Panic => (s, Panic)
        end
    | StampedWrite st h => cv_commit s st h
    | Rollback => unit_res (cv_rollback s)
    | RollbackBefore st => unit_res (cv_rollback_before s st)
    end.

  Definition cv_run (s : cvs) (h : list op) : cvs := fold_left (fun s o => fst (cv_step s o)) h s.

  (* the regime taken by a write, for the distribution tags and C07_regime_total *)
  Inductive regime := RNoop | RFast | RReencode | RFresh | RTruncOnly | RError.
  Definition write_regime (s : cvs) : regime :=
    match write_plan (pg_vec (s_pg s)) (pages_has_changes (s_pg s)) (s_stored_len s) (len (s_pushed s)) with
    | Ok PlanNoop => RNoop
    | Ok (PlanGo _ _ partial) =>
        match fast_path partial (len (s_pushed s)) with
        | Some _ => RFast
        | None => match partial with
                  | Some _ => RReencode
                  | None => match s_pushed s with [] => RTruncOnly | _ => RFresh end
                  end
        end
    | _ => RError
    end.
End CompVec.

Arguments s_hdr {T} c.
Arguments s_hdr_mod {T} c.
Arguments s_data {T} c.
Arguments s_pg {T} c.
Arguments s_stored_len {T} c.
Arguments s_pushed {T} c.
Arguments s_prev_pushed {T} c.
Arguments s_prev_stored_len {T} c.
Arguments mkCvs {T}.
Arguments set_hdr {T}.
Arguments set_data {T}.
Arguments set_pg {T}.
Arguments set_stored_len {T}.
Arguments set_pushed {T}.
Arguments cv_len {T}.
Arguments cv_stamp {T}.
Arguments update_stamp {T}.
Arguments cv_truncate {T}.
Arguments cv_reset {T}.
Arguments Push {T}.
Arguments Trunc {T}.
Arguments Write {T}.
Arguments Flush {T}.
Arguments Reset {T}.
Arguments Reimport {T}.
Arguments StampedWrite {T}.
Arguments Rollback {T}.
Arguments RollbackBefore {T}.
Arguments s_ssc {T} c.
Arguments s_changes {T} c.
Arguments set_prev {T}.
Arguments set_roll {T}.
