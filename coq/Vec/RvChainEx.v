(* Vec/RvChainEx.v — the hypotheses of the unbounded C04 / C16 theorems are satisfiable: on a concrete history over
   u64 elements (edits incl. a deletion and updates; two commits; three rollbacks, the last refused) the records built
   at both commits satisfy valid_record, the stamps increase, the rollbacks start from committed states; model and
   reference agree on it step by step.  Second history (ex_len): a rollback that LENGTHENS the vector (it undoes a
   truncating commit; the class of the repaired findings 3/4), then a deletion of a restored slot, a push and an update,
   then a commit whose record satisfies valid_record: such histories are in the strict class of C04_continuation. *)
From Anydb Require Import Common.Base Common.LE Vec.RegionSpec Vec.RvBase Vec.RvChange Vec.RvChangeProofs
  Vec.RvModel Vec.RvRollback Vec.RvSpec Vec.RvInst Vec.RvFindings.

Definition ex_h1 : list w_op := [Push 5; Push 6; Push 4; Delete 0].
Definition ex_h2 : list w_op := ex_h1 ++ [Commit 1; Update 0 9; Push 7; Update 1 8].
Definition ex_hist : list w_op := ex_h2 ++ [Commit 2; Rollback; Rollback; Rollback].

Ltac valid_rec :=
  match goal with |- valid_record _ ?r => let r' := eval vm_compute in r in change r with r' end;
  unfold valid_record;
  cbn [r_stamp r_prev_stored_len r_stored_len r_trunc r_prev_pushed r_pushed r_mod_idx r_mod_vals r_prev_holes];
  repeat match goal with |- _ /\ _ => split end;
  try (intros i H; cbn [In] in H; repeat (destruct H as [<-|H]; [vm_compute; reflexivity|]); destruct H);
  try (vm_compute; first [reflexivity | discriminate]).

Example ex_valid1 : valid_record (w_enc 8) (fst (build_record (w_size 8) w_dec (u64_run (w_init 3) ex_h1))).
Proof. valid_rec. Qed.
Example ex_valid2 : valid_record (w_enc 8) (fst (build_record (w_size 8) w_dec (u64_run (w_init 3) ex_h2))).
Proof. valid_rec. Qed.
Example ex_agrees : disciplined 3 ex_hist = true /\ agree 3 ex_hist = true.
Proof. vm_compute. auto. Qed.

Definition ex_l1 : list w_op := pushes 10.
Definition ex_l2 : list w_op := ex_l1 ++ [Commit 1; Truncate 5].
Definition ex_l3 : list w_op := ex_l2 ++ [Commit 2; Rollback; Delete 6; Push 7; Update 8 1].
Definition ex_len : list w_op := ex_l3 ++ [Commit 2; Rollback; Rollback].
Example ex_len_valid1 : valid_record (w_enc 8) (fst (build_record (w_size 8) w_dec (u64_run (w_init 3) ex_l1))).
Proof. valid_rec. Qed.
Example ex_len_valid2 : valid_record (w_enc 8) (fst (build_record (w_size 8) w_dec (u64_run (w_init 3) ex_l2))).
Proof. valid_rec. Qed.
Example ex_len_valid3 : valid_record (w_enc 8) (fst (build_record (w_size 8) w_dec (u64_run (w_init 3) ex_l3))).
Proof. valid_rec. Qed.
Example ex_len_agrees :
  disciplined 3 ex_len = true /\ Class_rollback_of_truncation 3 ex_len = true /\ agree 3 ex_len = true /\
  real_stored_len (u64_run (w_init 3) (ex_l2 ++ [Commit 2; Rollback])) <? stored_len (u64_run (w_init 3) (ex_l2 ++ [Commit 2; Rollback])) = true.
Proof. vm_compute. auto. Qed.
