(* Vec/RvChainEx.v — the hypotheses of the unbounded C04 / C16 theorems are satisfiable: on a concrete history over
   u64 elements (edits incl. a deletion and updates; two commits; three rollbacks, the last refused) the records built
   at both commits satisfy valid_record, the stamps increase, the rollbacks start from committed states and do not
   lengthen the vector; model and reference agree on it step by step. *)
From Anydb Require Import Common.Base Common.LE Vec.RegionSpec Vec.RvBase Vec.RvChange Vec.RvChangeProofs
  Vec.RvModel Vec.RvRollback Vec.RvSpec Vec.RvInst Vec.RvFindings.

Definition ex_h1 : list w_op := [Push 5; Push 6; Push 4; Delete 0].
Definition ex_h2 : list w_op := ex_h1 ++ [Commit 1; Update 0 9; Push 7; Update 1 8].
Definition ex_hist : list w_op := ex_h2 ++ [Commit 2; Rollback; Rollback; Rollback].

Ltac valid_rec :=
  match goal with |- valid_record _ ?r => let r' := eval vm_compute in r in change r with r' end;
  unfold valid_record;
  cbn [r_stamp r_prev_stored_len r_stored_len r_trunc r_prev_pushed r_pushed r_mod_idx r_mod_vals r_prev_holes];
  repeat match goal with |- _ /\ _ => split end;
  try (intros i H; cbn [In] in H; repeat (destruct H as [<-|H]; [vm_compute; reflexivity|]); destruct H);
  try (vm_compute; first [reflexivity | discriminate]).

Example ex_valid1 : valid_record (w_enc 8) (fst (build_record (w_size 8) w_dec (u64_run (w_init 3) ex_h1))).
Proof. valid_rec. Qed.
Example ex_valid2 : valid_record (w_enc 8) (fst (build_record (w_size 8) w_dec (u64_run (w_init 3) ex_h2))).
Proof. valid_rec. Qed.
Example ex_agrees : disciplined 3 ex_hist = true /\ KnownClass_rollback_of_truncation 3 ex_hist = false /\ agree 3 ex_hist = true.
Proof. vm_compute. auto. Qed.
