(* Vec/RdCursor.v — the generic layers on top of a vector's own read paths, parameterised by the
   vector's `len` and its `read_into_at` stream: Cursor::{get, next, advance, fold} with
   ensure_buffered_at (cursor.rs), the default read_sorted_into_at (traits/readable.rs:338),
   collect_signed_range / i64_to_usize, min / max / sum, and CachedVec (variants/cached).
   Definitions only. *)
From Anydb Require Import Common.Base Gen.Consts Gen.Sizes Vec.RdModel.

(* a vector as the generic code sees it *)
Record rvec : Type := {
  v_len : N;
  v_read_into : N -> N -> stream;       (* ReadableVec::read_into_at *)
}.

Record cursor : Type := { cu_buf : list N; cu_start : N; cu_pos : N }.
Definition cursor_new : cursor := {| cu_buf := []; cu_start := 0; cu_pos := 0 |}.

Inductive cout : Type :=
| COpt (o : option N)
| CList (l : list N)
| CNum (n : N)
| CUnit
| CPanic
| CGarbage
| CHang.

Definition sat_add (a b : N) : N := N.min (a + b) u64_max.

(* ensure_buffered_at, cursor.rs:134.  Result: None = the refill itself panicked / read garbage
   (second component says which), Some (local, cursor') otherwise. *)
Inductive ens : Type :=
| EOut                               (* `None`: out of bounds or nothing could be buffered *)
| ELocal (local : N) (c : cursor)
| EFail (o : cout).
Definition ensure (v : rvec) (c : cursor) (at_ : N) : ens * cursor * list acc :=
  if v_len v <=? at_ then (EOut, c, [])
  else
    let buf_end := cu_start c + len (cu_buf c) in
    if (cu_start c <=? at_) && (at_ <? buf_end) then (ELocal (at_ - cu_start c) c, c, [])
    else
      let aligned := (at_ / READ_CHUNK_SIZE) * READ_CHUNK_SIZE in
      let end_ := N.min (aligned + READ_CHUNK_SIZE) (v_len v) in
      let '(r, a) := run (v_read_into v aligned end_) in
      match r with
      | RPanic => (EFail CPanic, c, a)
      | RGarbage => (EFail CGarbage, c, a)
      | ROk l =>
        let c' := {| cu_buf := l; cu_start := aligned; cu_pos := cu_pos c |} in
        match l with
        | [] => (EOut, c', a)
        | _ => (ELocal (at_ - aligned) c', c', a)
        end
      end.

(* Cursor::get, cursor.rs:78: `self.buf[local]` is an indexing expression *)
Definition cursor_get (v : rvec) (c : cursor) (i : N) : cout * cursor * list acc :=
  if v_len v <=? i then (COpt None, c, [])
  else
    let '(e, c1, a) := ensure v c i in
    match e with
    | EOut => (COpt None, c1, a)
    | EFail o => (o, c1, a)
    | ELocal l c2 => (match nth_n (cu_buf c2) l with Some x => COpt (Some x) | None => CPanic end, c2, a)
    end.

(* Cursor::next, cursor.rs:89 *)
Definition cursor_next (v : rvec) (c : cursor) : cout * cursor * list acc :=
  let '(e, c1, a) := ensure v c (cu_pos c) in
  match e with
  | EOut => (COpt None, c1, a)
  | EFail o => (o, c1, a)
  | ELocal l c2 =>
    match nth_n (cu_buf c2) l with
    | Some x => (COpt (Some x), {| cu_buf := cu_buf c2; cu_start := cu_start c2; cu_pos := cu_pos c2 + 1 |}, a)
    | None => (CPanic, c2, a)
    end
  end.

Definition cursor_advance (v : rvec) (c : cursor) (n : N) : cursor :=
  {| cu_buf := cu_buf c; cu_start := cu_start c; cu_pos := N.min (sat_add (cu_pos c) n) (v_len v) |}.

(* Cursor::fold, cursor.rs:103.  `fuel` bounds the number of loop iterations; running out of fuel
   is the observation "does not terminate" (an iteration that neither advances `pos` nor leaves the
   loop repeats for ever: the state it starts from is the state it ends in). *)
Fixpoint cursor_fold_loop (fuel : nat) (v : rvec) (c : cursor) (target : N) (out : list N) (a : list acc)
  : cout * cursor * list acc :=
  match fuel with
  | O => (CHang, c, a)
  | S fuel' =>
    if target <=? cu_pos c then (CList out, c, a)
    else
      let '(e, c1, a1) := ensure v c (cu_pos c) in
      match e with
      | EOut => (CList out, c1, a ++ a1)
      | EFail o => (o, c1, a ++ a1)
      | ELocal _ c2 =>
        let local := cu_pos c2 - cu_start c2 in
        let local_end := N.min (target - cu_start c2) (len (cu_buf c2)) in
        if local_end <? local then (CPanic, c2, a ++ a1)          (* slice index order *)
        else
          cursor_fold_loop fuel' v
            {| cu_buf := cu_buf c2; cu_start := cu_start c2; cu_pos := cu_start c2 + local_end |}
            target (out ++ slice local local_end (cu_buf c2)) (a ++ a1)
      end
  end.
Definition cursor_fold (v : rvec) (c : cursor) (n : N) : cout * cursor * list acc :=
  let target := N.min (sat_add (cu_pos c) n) (v_len v) in
  cursor_fold_loop (S (S (N.to_nat ((target - cu_pos c) / READ_CHUNK_SIZE + 2)))) v c target [] [].

Inductive cop : Type := OGet (i : N) | ONext | OAdvance (n : N) | OFold (n : N) | OPos | ORemaining.

(* a script of cursor operations; a panic / garbage / non-termination ends it *)
Fixpoint cursor_script (v : rvec) (c : cursor) (ops : list cop) : list cout * list acc :=
  match ops with
  | [] => ([], [])
  | o :: r =>
    let '(out, c', a) :=
      match o with
      | OGet i => cursor_get v c i
      | ONext => cursor_next v c
      | OAdvance n => (CUnit, cursor_advance v c n, [])
      | OFold n => cursor_fold v c n
      | OPos => (CNum (cu_pos c), c, [])
      | ORemaining => (CNum (v_len v - cu_pos c), c, [])
      end in
    match out with
    | CPanic | CGarbage | CHang => ([out], a)
    | _ => let '(outs, a') := cursor_script v c' r in (out :: outs, a ++ a')
    end
  end.

(* default read_sorted_into_at, traits/readable.rs:338 *)
Fixpoint read_sorted_loop (v : rvec) (c : cursor) (idx : list N) (out : list N) (a : list acc)
  : rres * list acc :=
  match idx with
  | [] => (ROk out, a)
  | i :: r =>
    let '(o, c', a1) := cursor_get v c i in
    match o with
    | COpt (Some x) => read_sorted_loop v c' r (out ++ [x]) (a ++ a1)
    | COpt None => read_sorted_loop v c' r out (a ++ a1)
    | CPanic => (RPanic, a ++ a1)
    | _ => (RGarbage, a ++ a1)
    end
  end.
Definition read_sorted (v : rvec) (idx : list N) : rres * list acc := read_sorted_loop v cursor_new idx [] [].

(* i64_to_usize (traits/any.rs) and collect_signed_range, traits/readable.rs:302 *)
Definition i64_to_usize (vlen : N) (i : Z) : N :=
  if (0 <=? i)%Z then Z.to_N i else Z.to_N (Z.max 0 (Z.of_N vlen + i)).
Definition signed_range (vlen : N) (from to : option Z) : N * N :=
  (match from with Some i => i64_to_usize vlen i | None => 0 end,
   match to with Some i => i64_to_usize vlen i | None => vlen end).

(* min / max / sum over what a fold yields (traits/readable.rs:375-441) *)
Definition fold_min (l : list N) : option N :=
  fold_left (fun acc v => match acc with Some cur => if cur <=? v then Some cur else Some v | None => Some v end) l None.
Definition fold_max (l : list N) : option N :=
  fold_left (fun acc v => match acc with Some cur => if v <=? cur then Some cur else Some v | None => Some v end) l None.
Definition fold_sum (modulus : N) (l : list N) : option N :=
  match l with [] => None | _ => Some (fold_left (fun acc v => (acc + v) mod modulus) l 0) end.

(* ------------------------------------------------------------------ CachedVec, variants/cached.
   The cache key is (len, version); the version never changes in a vector's life here, so a cache
   entry is (len at fill time, snapshot).  `None` = the initial (0, Version::ZERO, []) entry, which
   no stored vector's version matches. *)
Definition cache := option (N * list N).

(* materialize, cached/mod.rs:103 (NoBudget): hit on equal key, else collect_range_dyn(0, len) *)
Definition materialize (v : rvec) (k : cache) : rres * cache * list acc :=
  match k with
  | Some (l, d) => if l =? v_len v then (ROk d, k, []) else
      let '(r, a) := run (v_read_into v 0 (v_len v)) in
      (r, match r with ROk d' => Some (v_len v, d') | _ => k end, a)
  | None =>
      let '(r, a) := run (v_read_into v 0 (v_len v)) in
      (r, match r with ROk d' => Some (v_len v, d') | _ => k end, a)
  end.

(* cached read_into_at (readable.rs:7): `if from < to { &data[from..to] }` *)
Definition cached_read_into (d : list N) (from to : N) : list N :=
  let t := N.min to (len d) in if from <? t then slice from t d else [].
(* cached fold / try_fold / for_each_range_dyn (readable.rs:19-77): from.min(to) *)
Definition cached_fold (d : list N) (from to : N) : list N :=
  let t := N.min to (len d) in let f := N.min from t in slice f t d.
Definition cached_one (d : list N) (i : N) : option N := nth_n d i.
Definition cached_sorted (d : list N) (idx : list N) : list N := flat_map (fun i => opt_list (nth_n d i)) idx.

(* the cached vector as an rvec (for cursors over a CachedVec): len is the INNER len *)
Definition cached_rvec (v : rvec) (d : list N) : rvec :=
  {| v_len := v_len v; v_read_into := fun f t => map Yield (cached_read_into d f t) |}.

(* ------------------------------------------------------------------ the raw vector and its clone as rvecs *)
Definition raw_rvec (c : rstate) : rvec := {| v_len := rlen c; v_read_into := read_into_at c |}.
Definition ro_rvec (c : rstate) : rvec := {| v_len := r_stored c; v_read_into := ro_read_into c |}.
