(* Vec/RvSmallScope.v — bounded theorem closed by vm_compute: EVERY history up to length 5 over a fixed
   alphabet of 11 operations (177 156 histories), for retention 1 and 2, that is disciplined — no class
   is excluded any more, rollbacks of truncating commits included — agrees with the reference vector after
   every step (results, contents incl. deleted slots, length, stamp).  It covers the commit / rollback / rollback_before / re-import
   interleavings for which the unbounded induction (R5/R6 of DESIGN.md B.1) is not closed. *)
From Anydb Require Import Common.Base Vec.RvModel Vec.RvRollback Vec.RvSpec Vec.RvInst Vec.RvFindings.

Lemma small_c04_k1 : forallb (ok_hist 1) (all_hist alpha_c04 5) = true. Proof. vm_compute. reflexivity. Qed.
Lemma small_c04_k2 : forallb (ok_hist 2) (all_hist alpha_c04 5) = true. Proof. vm_compute. reflexivity. Qed.

Theorem C04_small_scope k0 h :
  (k0 = 1 \/ k0 = 2) -> In h (all_hist alpha_c04 5) -> disciplined k0 h = true -> agree k0 h = true.
Proof.
  intros [-> | ->] Hin D.
  - pose proof small_c04_k1 as H. rewrite forallb_forall in H. specialize (H h Hin). unfold ok_hist in H. now rewrite D in H.
  - pose proof small_c04_k2 as H. rewrite forallb_forall in H. specialize (H h Hin). unfold ok_hist in H. now rewrite D in H.
Qed.
