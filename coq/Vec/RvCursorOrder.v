(* Vec/RvCursorOrder.v — ChangeCursor::read_values as an interpreter over the step list that
   tools/gen_cursor.py regenerates from cursor.rs on every run (Gen/CursorOrder.v).  MODEL file:
   definitions only.  Besides the result, the interpreter tracks the largest single allocation
   request (in bytes) the steps make, so that "a decoder never allocates beyond the size of its
   input" (C17) is a statement about the code's own order of steps:
     SMul         total = size_of_t.checked_mul(count)            (Overflow)
     SCheck       check_remaining(total)                          (Overflow / WrongLength)
     SAllocCount  Vec::with_capacity(count): count * w bytes, panics ("capacity overflow") above isize::MAX
     SCollect     bytes[pos..pos+total].chunks(w).map(read).collect(): the slice panics when it is
                  out of range; the collect allocates the exact number of chunks
     SAdvance     pos += total
     SRet         Ok(vals)                                                                        *)
From Anydb Require Import Common.Base Common.LE Vec.RegionSpec Vec.RvBase Vec.RvChange Gen.CursorOrder.

Definition two63 : N := 9223372036854775808.

Record rv_state {A} := mkRvS {
  rs_total : option N;           (* the product, once computed *)
  rs_vals : list A;
  rs_cur : cursor;
  rs_alloc : N }.                (* largest allocation request so far, in bytes *)
Arguments rv_state : clear implicits.
Arguments mkRvS {A}.

Fixpoint rv_interp {A} (steps : list rv_step) (count w : N) (rd : list N -> A) (s : rv_state A)
  : res verr (list A * cursor) * N :=
  match steps with
  | [] => (Panic, rs_alloc s)                        (* falling off the end is not a shape the translator accepts *)
  | st :: rest =>
    match st with
    | SMul =>
        match checked_mul64 w count with
        | None => (Err EOverflow, rs_alloc s)
        | Some t => rv_interp rest count w rd (mkRvS (Some t) (rs_vals s) (rs_cur s) (rs_alloc s))
        end
    | SCheck =>
        match rs_total s with
        | None => (Panic, rs_alloc s)
        | Some t =>
            match check_remaining (rs_cur s) t with
            | Ok _ => rv_interp rest count w rd s
            | Err e => (Err e, rs_alloc s)
            | Panic => (Panic, rs_alloc s)
            end
        end
    | SAllocCount =>
        let req := count * w in
        if two63 <=? req then (Panic, N.max (rs_alloc s) req)
        else rv_interp rest count w rd (mkRvS (rs_total s) (rs_vals s) (rs_cur s) (N.max (rs_alloc s) req))
    | SCollect =>
        match rs_total s with
        | None => (Panic, rs_alloc s)
        | Some t =>
            let c := rs_cur s in
            if len (c_bytes c) <? c_pos c + t then (Panic, rs_alloc s)      (* slice index out of range *)
            else
              let body := slice (c_pos c) (c_pos c + t) (c_bytes c) in
              let vals := map rd (chunks (N.to_nat count) (N.to_nat w) body) in
              rv_interp rest count w rd (mkRvS (Some t) vals c (N.max (rs_alloc s) (len vals * w)))
        end
    | SAdvance =>
        match rs_total s with
        | None => (Panic, rs_alloc s)
        | Some t => rv_interp rest count w rd
                      (mkRvS (Some t) (rs_vals s) (mkCur (c_bytes (rs_cur s)) (c_pos (rs_cur s) + t)) (rs_alloc s))
        end
    | SRet => (Ok (rs_vals s, rs_cur s), rs_alloc s)
    end
  end.

(* read_values as the source orders it today *)
Definition read_values_src {A} (c : cursor) (count w : N) (rd : list N -> A) : res verr (list A * cursor) * N :=
  rv_interp read_values_steps count w rd (mkRvS None [] c 0).
