(* Vec/RvStatements.v — the statements of C04 / C16 in terms of the executable agreement checker, the
   bounded retention count, and the directory theorem for a whole commit.  (The `_refuted` witnesses of
   findings 3/4 are gone: on the model of the repaired write() they agree, RvFindings.wit34_agree.) *)
From Anydb Require Import Common.Base Common.LE Vec.RegionSpec Vec.RvBase Vec.RvChange Vec.RvChangeProofs Vec.RvModel
  Vec.RvRollback Vec.RvSpec Vec.RvInst Vec.RvFindings Vec.RvSmallScope.

(* C04: every disciplined commit/rollback history (RvFindings.op_disciplined) agrees with the reference *)
Definition C04_stmt : Prop := forall k0 h, disciplined k0 h = true -> agree k0 h = true.
(* the class of the repaired findings 3/4 is inhabited by disciplined histories, and they agree *)
Lemma C04_rollback_of_truncation_covered :
  exists k0 h, disciplined k0 h = true /\ Class_rollback_of_truncation k0 h = true /\ agree k0 h = true.
Proof. exists 3, wit34. exact (proj2 (proj2 (proj2 wit34_agree))). Qed.

(* C16_count, bounded: n commits with increasing stamps (one push before each) under retention k, then
   n + 1 rollbacks: exactly min k n succeed, the next is refused, and every step agrees with the reference *)
Fixpoint commits (n : nat) (from : N) : list w_op :=
  match n with O => [] | S m => Push from :: Commit from :: commits m (from + 1) end.
Fixpoint count_ok_from (s : w_rv) (left_ok : nat) (tries : nat) : bool :=
  match tries with
  | O => true
  | S t =>
    let '(s', r) := u64_step s Rollback in
    match left_ok, r with
    | S l, RUnit => count_ok_from s' l t
    | O, RErr _ => true
    | _, _ => false
    end
  end.
Definition count_ok (k0 : N) (n : nat) : bool :=
  let h := commits n 1 in
  agree k0 (h ++ repeat Rollback (S n)) &&
  count_ok_from (u64_run (w_init k0) h) (Nat.min (N.to_nat k0) n) (S n).
Lemma C16_count_bounded :
  forallb (fun k0 => forallb (count_ok k0) (seq 0 9)) [0; 1; 2; 3; 4; 5; 6; 10] = true.
Proof. vm_compute. reflexivity. Qed.

(* ---- write() and the commit leave the change directory to save_change_file ------------------------------------- *)
Section DIR.
Context {T : Type} (tsize : N) (enc : T -> list N) (dec : list N -> T).
Notation rv := (@rv T).

Lemma write_extend_changes (s : rv) :
  changes (fst (write_extend tsize dec s)) = changes s /\ k (fst (write_extend tsize dec s)) = k s.
Proof.
  unfold write_extend. destruct (real_stored_len s <? stored_len s); [|cbn; auto].
  destruct (vr_truncate_write _ _ _); cbn; auto.
Qed.
Lemma write_data_changes (s : rv) : changes (fst (write_data s)) = changes s /\ k (fst (write_data s)) = k s.
Proof.
  unfold write_data. destruct (negb (len (pushed s) =? 0)).
  - destruct (vr_truncate_write _ _ _); cbn; auto.
  - destruct (stored_len s <? real_stored_len s); [destruct (vr_truncate _ _)|]; cbn; auto.
Qed.
Lemma write_updates_changes b (s : rv) : changes (fst (write_updates b s)) = changes s /\ k (fst (write_updates b s)) = k s.
Proof.
  unfold write_updates. destruct (updated s) eqn:Eu; [cbn; auto|]. destruct b.
  - destruct (write_at_each _ _) as [r' []]; cbn; auto.
  - destruct (batch_write_each _ _); cbn; auto.
Qed.
Lemma write_holes_changes b (s : rv) : changes (fst (write_holes b s)) = changes s /\ k (fst (write_holes b s)) = k s.
Proof.
  unfold write_holes. destruct (holes s); [|cbn; auto]. destruct b; [|cbn; auto].
  cbn [holes_region set_hsh]. destruct (holes_region s); cbn; auto.
Qed.
Lemma rv_write_changes (s : rv) : changes (fst (rv_write tsize dec s)) = changes s /\ k (fst (rv_write tsize dec s)) = k s.
Proof.
  unfold rv_write.
  assert (H0 : changes (write_header_if_needed s) = changes s /\ k (write_header_if_needed s) = k s)
    by (unfold write_header_if_needed; destruct (hdr_modified s); cbn; auto).
  set (s0 := write_header_if_needed s) in *. cbv zeta.
  match goal with |- context [if ?c then _ else _] => destruct c end; [cbn; auto|].
  pose proof (write_extend_changes s0) as H0'. destruct (write_extend tsize dec s0) as [se [e|]]; cbn [fst] in *; [intuition congruence|].
  pose proof (write_data_changes se) as H1. destruct (write_data se) as [s1 [e|]]; cbn [fst] in *; [intuition congruence|].
  pose proof (write_updates_changes (real_stored_len s0 <? stored_len s0) s1) as H2.
  destruct (write_updates _ s1) as [s2 [u|e|]]; cbn [fst] in *; try (intuition congruence).
  pose proof (write_holes_changes (has_stored_holes s0) s2) as H3. intuition congruence.
Qed.

(* C16_dir / C16_abandoned_future for a whole commit: with retention k > 0 the directory afterwards holds at
   most k records; the new one is there; every other record is older than the new stamp AND not above the
   stamp the commit started from — whatever a rolled-back future left behind is gone — and was there before *)
Theorem commit_directory (s : rv) st : 0 < k s ->
  exists l, changes (fst (rv_commit tsize enc dec st s)) = Some l /\ len l <= k s /\
    nm_get st l = Some (fst (serialize_raw_changes tsize enc dec s)) /\
    forall x b, In (x, b) l -> (x = st) \/ (x < st /\ x <= stamp s /\ exists l0, changes s = Some l0 /\ In (x, b) l0).
Proof.
  intros Hk. unfold rv_commit. destruct (k s =? 0) eqn:Ek; [lia|].
  destruct (serialize_raw_changes tsize enc dec s) as [data stl] eqn:Es. cbn [fst].
  destruct (save_change_file_bound (changes s) (k s) (stamp s) st data Hk) as (l & Hs & Hl & Hin & Hg).
  set (s1 := set_changes _ (add_stale stl s)).
  assert (Hc1 : changes s1 = Some l) by (unfold s1; cbn; exact Hs).
  unfold stamped_write.
  pose proof (rv_write_changes (update_stamp st s1)) as [Hw _].
  assert (Hu : changes (update_stamp st s1) = changes s1) by (unfold update_stamp; destruct (stamp s1 =? st); reflexivity).
  destruct (rv_write tsize dec (update_stamp st s1)) as [s2 r] eqn:Ew. cbn [fst] in Hw.
  exists l. split.
  - destruct r as [b|e|]; cbn [fst]; cbn; congruence.
  - split; [exact Hl|]. split; [exact Hg|]. intros x b Hx. destruct (Hin x b Hx) as [[-> _]|(H1 & H2 & H3)]; [now left|right; auto].
Qed.
(* k = 0 disables recording: a commit is a plain stamped write and leaves the change directory alone *)
Theorem commit_k0_is_stamped_write (s : rv) st : k s = 0 -> rv_commit tsize enc dec st s = stamped_write tsize dec st s.
Proof. unfold rv_commit. intros ->. reflexivity. Qed.
End DIR.
