(* Vec/RvCursorOrderProofs.v — the regenerated step order of ChangeCursor::read_values (a) computes
   exactly the hand-written model cur_read_values that every C16/C04 parser theorem is about, and
   (b) never asks for more memory than the input holds. *)
From Anydb Require Import Common.Base Common.LE Vec.RegionSpec Vec.RvBase Vec.RvChange Gen.CursorOrder Vec.RvCursorOrder.

Lemma length_chunks {A} fuel w (l : list A) : (length (chunks fuel w l) <= fuel)%nat.
Proof.
  revert l; induction fuel as [|f IH]; intros l; cbn [chunks length]; [lia|].
  destruct l as [|x l]; cbn [length]; [lia|]. specialize (IH (skipn w (x :: l))). lia.
Qed.

Lemma read_values_src_is_model {A} (c : cursor) (count w : N) (rd : list N -> A) :
  fst (read_values_src c count w rd) = cur_read_values c count w rd.
Proof.
  unfold read_values_src, read_values_steps, cur_read_values. cbn [rv_interp rs_total rs_vals rs_cur rs_alloc].
  destruct (checked_mul64 w count) as [t|] eqn:Hm; [|reflexivity].
  cbn [rv_interp rs_total rs_vals rs_cur rs_alloc].
  unfold check_remaining.
  destruct (two64 <=? c_pos c + t) eqn:H1; [reflexivity|].
  destruct (len (c_bytes c) <? c_pos c + t) eqn:H2; [reflexivity|].
  cbn [bind rv_interp rs_total rs_vals rs_cur rs_alloc]. reflexivity.
Qed.

Lemma read_values_src_alloc_bounded {A} (c : cursor) (count w : N) (rd : list N -> A) :
  snd (read_values_src c count w rd) <= len (c_bytes c) - c_pos c.
Proof.
  unfold read_values_src, read_values_steps. cbn [rv_interp rs_total rs_vals rs_cur rs_alloc].
  destruct (checked_mul64 w count) as [t|] eqn:Hm; [|cbn [snd]; lia].
  cbn [rv_interp rs_total rs_vals rs_cur rs_alloc].
  unfold check_remaining.
  destruct (two64 <=? c_pos c + t) eqn:H1; [cbn [snd]; lia|].
  destruct (len (c_bytes c) <? c_pos c + t) eqn:H2; [cbn [snd]; lia|].
  cbn [bind rv_interp rs_total rs_vals rs_cur rs_alloc snd].
  unfold checked_mul64 in Hm. destruct (two64 <=? w * count) eqn:H3; [discriminate|]. injection Hm as <-.
  unfold len at 1. rewrite map_length.
  pose proof (length_chunks (N.to_nat count) (N.to_nat w)
                (slice (c_pos c) (c_pos c + w * count) (c_bytes c))) as Hl.
  assert (N.of_nat (length (chunks (N.to_nat count) (N.to_nat w)
            (slice (c_pos c) (c_pos c + w * count) (c_bytes c)))) <= count) by lia.
  nia.
Qed.

(* an order that sizes the buffer from the count BEFORE the bounds check does not have the property:
   a 16-byte input can make it ask for 2^40 bytes *)
Lemma alloc_before_check_unbounded :
  exists (c : cursor) (count w : N),
    len (c_bytes c) - c_pos c < snd (rv_interp [SMul; SAllocCount; SCheck; SCollect; SAdvance; SRet] count w
                                      (fun _ : list N => tt) (mkRvS None [] c 0)).
Proof. exists (mkCur (repeat 0 16) 0), 137438953472, 8. vm_compute. reflexivity. Qed.
