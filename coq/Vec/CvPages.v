(* Vec/CvPages.v — MODEL of `Pages` (crates/vecdb/src/variants/compressed/inner/pages.rs): the
   in-memory page index, its on-disk image in the `<name>_pages` region, and `change_at`.
   Definitions only (executable, extracted); proofs are in CvPagesProofs.v. *)
From Anydb Require Import Common.Base Common.LE Gen.Consts Gen.Sizes Codec.Vecdb Vec.CvRegion.

Inductive cverr :=
| ECorruptedRegion | EUnexpectedIndex | EExpectVecToHaveIndex | EDecompressionMismatch
| EWrongLength | EDifferentVersion | EDifferentFormat | EInvalidFormat | EUnderflow | EOverflow
| EIo                      (* change file / directory missing *)
| EIndexTooHigh | EStampMismatch
| ERawdb (e : rerr).

Definition lift_r {A} (r : res rerr A) : res cverr A :=
  match r with Ok a => Ok a | Err e => Err (ERawdb e) | Panic => Panic end.

Definition lift_v {A} (r : res verr A) : res cverr A :=
  match r with
  | Ok a => Ok a
  | Err WrongLength => Err EWrongLength
  | Err InvalidFormat => Err EInvalidFormat
  | Err Overflow => Err EOverflow
  | Err Underflow => Err EUnderflow
  | Panic => Panic
  end.

(* pages.rs:15 *)
Record pages := mkPages {
  pg_vec : list page;            (* in memory *)
  pg_change_at : option N;       (* first entry that must be rewritten *)
  pg_disk : list N;              (* bytes of the `<name>_pages` region *)
}.

(* slice::chunks(n): fuelled by the list length *)
Fixpoint chunks_f {A} (fuel : nat) (n : N) (l : list A) : list (list A) :=
  match fuel with
  | O => []
  | S k => match l with
           | [] => []
           | _ => take n l :: chunks_f k n (drop n l)
           end
  end.
Definition chunks {A} (n : N) (l : list A) : list (list A) := chunks_f (length l) n l.

Fixpoint collect_res {E A} (l : list (res E A)) : res E (list A) :=
  match l with
  | [] => Ok []
  | r :: t => let! a := r in let! rest := collect_res t in Ok (a :: rest)
  end.

(* pages.rs:25 import: read_all().chunks(16).map(Page::from_bytes).collect::<Result<_>>() *)
Definition decode_pages (bs : list N) : res cverr (list page) :=
  collect_res (map (fun c => lift_v (page_from_bytes c)) (chunks SIZE_OF_PAGE bs)).

Definition pages_import (disk : list N) : res cverr pages :=
  let! v := decode_pages disk in Ok (mkPages v None disk).

Definition encode_pages (l : list page) : list N := flat_map page_to_bytes l.

(* pages.rs:44 flush.  `change_at.take()` happens first; `&self.vec[change_at..]` panics when
   change_at > len.  Returns the (possibly partially updated) pages and the outcome. *)
Definition pages_flush (p : pages) : pages * res cverr unit :=
  match pg_change_at p with
  | None => (p, Ok tt)
  | Some c =>
      let p1 := mkPages (pg_vec p) None (pg_disk p) in
      if len (pg_vec p) <? c then (p1, Panic) else
      let bytes := encode_pages (drop c (pg_vec p)) in
      match lift_r (r_truncate_write (pg_disk p) (c * SIZE_OF_PAGE) bytes) with
      | Ok d => (mkPages (pg_vec p) None d, Ok tt)
      | Err e => (p1, Err e)
      | Panic => (p1, Panic)
      end
  end.

(* pages.rs:90 set_changed_at *)
Definition set_changed_at (ca : option N) (pi : N) : option N :=
  match ca with
  | None => Some pi
  | Some c => if pi <? c then Some pi else Some c
  end.

(* pages.rs:72 checked_push *)
Definition pages_checked_push (p : pages) (pi : N) (pg : page) : pages * res cverr unit :=
  if negb (pi =? len (pg_vec p)) then (p, Err EUnexpectedIndex)
  else (mkPages (pg_vec p ++ [pg]) (set_changed_at (pg_change_at p) pi) (pg_disk p), Ok tt).

(* pages.rs:104 truncate (the returned page is not used by any caller in the write path) *)
Definition pages_truncate (p : pages) (pi : N) : pages :=
  mkPages (take pi (pg_vec p)) (set_changed_at (pg_change_at p) pi) (pg_disk p).

(* pages.rs:99 has_changes *)
Definition pages_has_changes (p : pages) : bool :=
  match pg_change_at p with Some _ => true | None => false end.

(* pages.rs:100 reset *)
Definition pages_reset (p : pages) : pages := pages_truncate p 0.

Fixpoint last_opt {A} (l : list A) : option A :=
  match l with
  | [] => None
  | [x] => Some x
  | _ :: t => last_opt t
  end.

(* pages.rs:111 next_start *)
Definition pages_next_start (v : list page) : N :=
  match last_opt v with
  | None => HEADER_OFFSET
  | Some pg => page_end pg
  end.

(* pages.rs:115 stored_len *)
Definition pages_stored_len (per_page : N) (v : list page) : N :=
  match last_opt v with
  | Some l => (len v - 1) * per_page + page_values_count l
  | None => 0
  end.

(* page/mod.rs:24,33 constructors (debug_assert on values & RAW_FLAG == 0 not modelled: counts are <= 16384) *)
Definition page_compressed (start bytes values : N) : page := mkPage start bytes values.
Definition page_raw (start bytes values : N) : page := mkPage start bytes (values + RAW_FLAG).
