(* Vec/RdComp.v — READ side of the compressed vector (PcoVec / LZ4Vec / ZstdVec and their read-only
   clones): read_stored_pages_into, CompressedMmapSource, CompressedIoSource (refill_buffer,
   decode_from_buffer), fold_source dispatch, read_into_at / fold_range_at / try_fold_range_at,
   fold_stored_{io,mmap}.  Definitions only.
   Source: crates/vecdb/src/variants/compressed/inner/read_write/{mod.rs, readable.rs},
   compressed/inner/read_only/{mod.rs, readable.rs}, compressed/sources/{mmap,io}.rs. *)
From Anydb Require Import Common.Base Gen.Consts Gen.Sizes Vec.RdModel Vec.RdCursor.

Record page : Type := {
  pg_raw : bool;
  pg_start : N;               (* offset of the page's bytes in the region *)
  pg_bytes : N;
  pg_vals : list N;           (* what the page decodes to (values_count = length) *)
}.
Record cstate : Type := {
  c_sz : N;
  c_xo : N;                   (* MMAP_CROSSOVER_BYTES *)
  c_rlen : N;                 (* region length *)
  c_stored : N;
  c_pushed : list N;
  c_pages : list page;
}.
Definition per_page (c : cstate) : N := MAX_UNCOMPRESSED_PAGE_SIZE / c_sz c.
Definition clen (c : cstate) : N := c_stored c + len (c_pushed c).
Definition page_fetch (p : page) : ev := Fetch (pg_start p) (pg_bytes p).

(* logical contents *)
Definition cview (c : cstate) (i : N) : option N :=
  if i <? c_stored c then
    match nth_n (c_pages c) (i / per_page c) with
    | Some p => nth_n (pg_vals p) (i mod per_page c)
    | None => None
    end
  else nth_n (c_pushed c) (i - c_stored c).
Definition cexpected (c : cstate) (from to : N) : list N :=
  let f := N.min from (clen c) in
  let t := N.min to (clen c) in
  flat_map (fun i => opt_list (cview c i)) (seqN f (N.to_nat (t - f))).

(* every page but the last is full, pages lie inside the region and follow one another, and
   stored_len does not exceed what the pages hold (DESIGN appendix B.2: P1, P2) *)
Fixpoint pages_ok (pp rl : N) (ps : list page) : bool :=
  match ps with
  | [] => true
  | p :: r =>
    (pg_start p + pg_bytes p <=? rl)
    && match r with
       | [] => (len (pg_vals p) <=? pp)
       | q :: _ => (len (pg_vals p) =? pp) && (pg_start q =? pg_start p + pg_bytes p)
       end
    && pages_ok pp rl r
  end.
Definition total_vals (ps : list page) : N := fold_right (fun p a => len (pg_vals p) + a) 0 ps.
Definition cwf_b (c : cstate) : bool :=
  (0 <? c_sz c) && (c_sz c <=? MAX_UNCOMPRESSED_PAGE_SIZE)
  && pages_ok (per_page c) (c_rlen c) (c_pages c)
  && (c_stored c <=? total_vals (c_pages c)).

(* read_stored_pages_into, mod.rs:153 (callers guarantee from < to) *)
Fixpoint pages_into (c : cstate) (from to : N) (pidx : N) (ps : list (option page)) : stream :=
  match ps with
  | [] => []
  | None :: _ => [Boom]                                       (* .expect("page should exist") *)
  | Some p :: r =>
    let page_start := pidx * per_page c in
    let count := len (pg_vals p) in
    let local_from := from - page_start in                    (* saturating_sub *)
    let local_to := N.min (to - page_start) count in
    page_fetch p ::
    (if negb (pg_raw p) && (local_from =? 0)
     then map Yield (take local_to (pg_vals p))               (* decompress_append + truncate *)
     else if local_to <? local_from then [Boom]               (* &page_buf[local_from..local_to] *)
          else map Yield (slice local_from local_to (pg_vals p)))
    ++ pages_into c from to (pidx + 1) r
  end.
Definition page_opts (c : cstate) (first last : N) : list (option page) :=
  map (fun i => nth_n (c_pages c) i) (seqN first (N.to_nat (last + 1 - first))).
Definition read_stored_pages_into (c : cstate) (from to : N) : stream :=
  let sp := from / per_page c in
  let ep := (to - 1) / per_page c in
  pages_into c from to sp (page_opts c sp ep).

Definition cpushed_slice (c : cstate) (from to : N) : stream :=
  if c_stored c <? to then
    let a := N.max from (c_stored c) - c_stored c in
    let b := N.min (to - c_stored c) (len (c_pushed c)) in
    if b <? a then [Boom] else map Yield (slice a b (c_pushed c))
  else [].
(* read_into_at, readable.rs:12 *)
Definition cread_into_at (c : cstate) (from to : N) : stream :=
  let f := N.min from (clen c) in
  let t := N.min to (clen c) in
  if t <=? f then []
  else (if f <? c_stored c then read_stored_pages_into c f (N.min t (c_stored c)) else [])
       ++ cpushed_slice c f t.

(* CompressedMmapSource::{fold, try_fold}, sources/mmap.rs:85,114.  `strict` = the try_fold variant,
   whose `&page_buf[in_page_offset..page_end]` panics when the offset exceeds the end. *)
Fixpoint cmmap_loop (fuel : nat) (strict : bool) (c : cstate) (pos end_ pidx page_start in_off : N) : stream :=
  match fuel with
  | O => []
  | S fuel' =>
    if end_ <=? pos then []
    else match nth_n (c_pages c) pidx with
         | None => []                                          (* ensure_page_decoded -> None: break *)
         | Some p =>
           let page_end := N.min (end_ - page_start) (len (pg_vals p)) in
           page_fetch p ::
           (if strict && (page_end <? in_off) then [Boom]
            else map Yield (slice in_off page_end (pg_vals p))
                 ++ cmmap_loop fuel' strict c (page_start + page_end) end_ (pidx + 1) (page_start + per_page c) 0)
         end
  end.
Definition cmmap_src (strict : bool) (c : cstate) (stored from to : N) : stream :=
  let f := N.min from stored in
  let t := N.min to stored in
  let pidx := f / per_page c in
  cmmap_loop (S (length (c_pages c))) strict c f t pidx (pidx * per_page c) (f - pidx * per_page c).

(* CompressedIoSource, sources/io.rs.  Buffer state: (buffer_start_offset, buffer_len). *)
Fixpoint refill_total (ps : list page) (total : N) : N :=       (* io.rs:104-111 *)
  match ps with
  | [] => total
  | p :: r => if BUFFER_SIZE <? total + pg_bytes p then total else refill_total r (total + pg_bytes p)
  end.
Fixpoint cio_loop (fuel : nat) (strict : bool) (c : cstate) (pos end_ pidx page_start in_off bstart blen : N) : stream :=
  match fuel with
  | O => []
  | S fuel' =>
    if end_ <=? pos then []
    else match nth_n (c_pages c) pidx with
         | None => []                                          (* decode_page: page_index >= pages.len() *)
         | Some p =>
           let in_buf := (0 <? blen) && (bstart <=? pg_start p) && (pg_start p + pg_bytes p <=? bstart + blen) in
           let last_needed := if end_ =? 0 then 0 else (end_ - 1) / per_page c in
           let max_page := N.min last_needed (len (c_pages c) - 1) in
           let total := refill_total (slice pidx (max_page + 1) (c_pages c)) 0 in
           if negb in_buf && (total =? 0) then []              (* refill_buffer -> None: break *)
           else
             let bstart' := if in_buf then bstart else pg_start p in
             let blen' := if in_buf then blen else total in
             let page_end := N.min (end_ - page_start) (len (pg_vals p)) in
             (if in_buf then [] else [Fetch (pg_start p) total])
             ++ (if strict && (page_end <? in_off) then [Boom]
                 else map Yield (slice in_off page_end (pg_vals p))
                      ++ cio_loop fuel' strict c (page_start + page_end) end_ (pidx + 1)
                           (page_start + per_page c) 0 bstart' blen')
         end
  end.
Definition cio_src (strict : bool) (c : cstate) (stored from to : N) : stream :=
  let f := N.min from stored in
  let t := N.min to stored in
  let pidx := f / per_page c in
  cio_loop (S (length (c_pages c))) strict c f t pidx (pidx * per_page c) (f - pidx * per_page c) 0 0.

Definition cfold_source (strict : bool) (c : cstate) (stored from to : N) : stream :=
  if to <? from then [Boom]
  else if c_xo c <? (to - from) * c_sz c then cio_src strict c stored from to
  else cmmap_src strict c stored from to.

Definition cfold_pushed (strict : bool) (c : cstate) (from to : N) : stream :=
  let start := N.max from (c_stored c) in
  if to <=? start then []
  else
    let a := start - c_stored c in
    let b := N.min (to - c_stored c) (len (c_pushed c)) in
    if strict && (b <? a) then [Boom] else map Yield (slice a b (c_pushed c)).

(* fold_range_at / try_fold_range_at, readable.rs:43,70 *)
Definition cfold_range_at (strict : bool) (c : cstate) (from to : N) : stream :=
  let f := N.min from (clen c) in
  let t := N.min to (clen c) in
  if t <=? f then []
  else if t <=? c_stored c then cfold_source strict c (c_stored c) f t
  else (if f <? c_stored c then cfold_source strict c (c_stored c) f (c_stored c) else [])
       ++ cfold_pushed strict c f t.

(* default collect_one_at, traits/readable.rs:273 *)
Definition ccollect_one_at (c : cstate) (i : N) : stream :=
  if clen c <=? i then [] else cfold_range_at false c i (i + 1).

Definition cfold_stored (io : bool) (c : cstate) (from to : N) : stream :=
  let f := N.min from (c_stored c) in
  let t := N.min to (c_stored c) in
  if t <=? f then [] else if io then cio_src false c (c_stored c) f t else cmmap_src false c (c_stored c) f t.

(* read-only clone: len = stored_len *)
Definition cro_read_into (c : cstate) (from to : N) : stream :=
  let f := N.min from (c_stored c) in
  let t := N.min to (c_stored c) in
  if t <=? f then [] else read_stored_pages_into c f t.
Definition cro_fold_range (strict : bool) (c : cstate) (from to : N) : stream :=
  let f := N.min from (c_stored c) in
  let t := N.min to (c_stored c) in
  if t <=? f then [] else cfold_source strict c (c_stored c) f t.
Definition cro_collect_one (c : cstate) (i : N) : stream :=
  if c_stored c <=? i then [] else cro_fold_range false c i (i + 1).

Definition comp_rvec (c : cstate) : rvec := {| v_len := clen c; v_read_into := cread_into_at c |}.
Definition cro_rvec (c : cstate) : rvec := {| v_len := c_stored c; v_read_into := cro_read_into c |}.
