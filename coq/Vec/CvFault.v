(* Vec/CvFault.v — MODEL: single-file faults on the change directory of a compressed vector
   (C16 / C17 fault stream of engine `compvec`).  Definitions only; proofs are in CvFaultProofs.v.

   The three faults act on the bytes of ONE file of the directory `changes/<name>/<index>`
   (CvModel.s_changes: stamp -> bytes), exactly as harness/src/eng_compvec.rs applies them to the
   real directory:
     FDelete st          fs::remove_file(<dir>/<st>)
     FTruncate st n      the file keeps its first n bytes
     FOverwrite st o v   bytes [o, o+8) := v as a little-endian u64 (nothing when the file is shorter)
   Everything else (which record rollback() reads, what the parser makes of it, what is applied) is
   CvModel.cv_rollback / cv_rollback_before unchanged: the extended alphabet `xop` = the operations
   of CvModel.op plus the faults, `cv_xstep` = cv_step plus cv_fault. *)
From Anydb Require Import Common.Base Common.LE Gen.Consts Gen.Sizes Codec.Vecdb
  Vec.CvRegion Vec.CvPages Vec.CvModel Vec.CvInst.

Inductive fop :=
| FDelete (st : N)
| FTruncate (st : N) (n : N)
| FOverwrite (st : N) (off : N) (v : N).

Definition fop_stamp (f : fop) : N :=
  match f with FDelete st | FTruncate st _ | FOverwrite st _ _ => st end.

(* the new content of the file (None = the file is gone) *)
Definition fault_bytes (f : fop) (b : list N) : option (list N) :=
  match f with
  | FDelete _ => None
  | FTruncate _ n => Some (take n b)
  | FOverwrite _ off v =>
      if len b <? off + 8 then Some b
      else Some (take off b ++ u64b v ++ drop (off + 8) b)
  end.

(* the directory listing keeps its order (stamps are the keys; BTreeMap in the code) *)
Fixpoint dir_fault (dir : list (N * list N)) (st : N) (g : list N -> option (list N)) : list (N * list N) :=
  match dir with
  | [] => []
  | (k, b) :: t =>
      if k =? st then match g b with None => t | Some b' => (k, b') :: t end
      else (k, b) :: dir_fault t st g
  end.

Definition cv_fault {T : Type} (s : cvs T) (f : fop) : cvs T :=
  match s_changes s with
  | None => s
  | Some dir => set_roll s (s_ssc s) (Some (dir_fault dir (fop_stamp f) (fault_bytes f)))
  end.

Section XStep.
  Variable T : Type.
  Variable size : N.
  Variable enc : T -> list N.
  Variable dec : list N -> T.
  Variable compress : N -> list T -> list cell.
  Variable decompress : list cell -> N -> option (list T).
  Variable fmt : N.
  Variable vver : N.

  (* the extended alphabet *)
  Inductive xop :=
  | XOp (o : op T)
  | XFault (f : fop).

  Definition cv_xstep (s : cvs T) (x : xop) : cvs T * res cverr bool :=
    match x with
    | XOp o => cv_step T size enc dec compress decompress fmt vver s o
    | XFault f => (cv_fault s f, Ok false)
    end.

  Definition cv_xrun (s : cvs T) (h : list xop) : cvs T := fold_left (fun s x => fst (cv_xstep s x)) h s.

  (* ---- what the refusal theorems speak about ------------------------------------------------
     the four u64 header fields of a record and its three value blocks, as serialize_changes
     lays them out (base/rollback.rs:18): stamp, prev_stored_len, stored_len, truncated count,
     truncated values, prev_pushed count + values, pushed count + values *)
  Definition record_bytes (stamp psl sl : N) (tv pp pu : list T) : list N :=
    u64b stamp ++ u64b psl ++ u64b sl ++ u64b (len tv) ++ values_to_bytes T enc tv
    ++ u64b (len pp) ++ values_to_bytes T enc pp ++ u64b (len pu) ++ values_to_bytes T enc pu.

  (* the state an accepted record leaves (compressed rollback.rs:41-52 + base apply_rollback): what
     CvModel.cv_undo builds from the parsed fields *)
  Definition undo_applied (s : cvs T) (stamp psl : N) (tv pp : list T) : cvs T :=
    let '(sl', pushed) :=
      match tv with
      | [] => (psl, pp)
      | _ => (N.min (psl - len tv) (real_stored_len T size s), tv ++ pp)
      end in
    let s1 := update_stamp s stamp in
    set_prev (set_pushed (set_stored_len s1 sl') pushed) pushed (s_prev_stored_len s1).

  (* the full statement one would like: a record whose prev_stored_len field was altered is never
     applied.  False of the model and of the code (no checksum): CvFaultProofs.damaged_record_refuted *)
  Definition C16_comp_damaged_refused_full : Prop :=
    forall (s : cvs T) (stamp psl psl' sl : N) (tv pp pu : list T),
      psl' <> psl -> psl' < two64 ->
      exists e, snd (cv_undo T size dec s (record_bytes stamp psl' sl tv pp pu)) = Err e.
End XStep.

Arguments XOp {T}.
Arguments XFault {T}.

(* the executable instance (extraction) *)
Definition x_fault (w : nat) (s : x_cvs w) (f : fop) : x_cvs w := cv_fault s f.
