(* Vec/RvChangeProofs.v — theorems about the change-record codec and the change directory:
   round trip, every strict prefix of a record is rejected, accepted length fields fit the
   input, the parser never panics, save_change_file keeps at most k records.  PROOF file. *)
From Anydb Require Import Common.Base Common.LE Vec.RegionSpec Vec.RvBase Vec.RvChange.

(* ---- list helpers -------------------------------------------------------------------------- *)
Lemma slice_take {A} (l : list A) p q m : q <= m -> slice p q (take m l) = slice p q l.
Proof.
  intros H. unfold slice, take, drop.
  destruct (N.le_gt_cases p q) as [Hpq|Hpq].
  - rewrite skipn_firstn_comm, firstn_firstn. f_equal. lia.
  - replace (N.to_nat (q - p)) with O by lia. reflexivity.
Qed.

Lemma skipn_skipn' {A} a b (l : list A) : skipn a (skipn b l) = skipn (b + a) l.
Proof.
  revert l; induction b; intros l; cbn [skipn Nat.add]; auto.
  destruct l; [now rewrite !skipn_nil|]. apply IHb.
Qed.

Lemma app_eq_len {A} (a b c d : list A) : length a = length c -> a ++ b = c ++ d -> a = c /\ b = d.
Proof.
  revert c; induction a as [|x a IH]; intros [|y c] Hl H; cbn in *; try discriminate; auto.
  injection H as -> H. injection Hl as Hl. destruct (IH _ Hl H) as [-> ->]. auto.
Qed.

Lemma slice_app_split {A} (b e1 e2 : list A) p :
  slice p (p + len (e1 ++ e2)) b = e1 ++ e2 ->
  slice p (p + len e1) b = e1 /\ slice (p + len e1) (p + len e1 + len e2) b = e2.
Proof.
  unfold slice, take, drop. rewrite len_app.
  replace (p + (len e1 + len e2) - p) with (len e1 + len e2) by lia.
  replace (p + len e1 - p) with (len e1) by lia.
  replace (p + len e1 + len e2 - (p + len e1)) with (len e2) by lia.
  set (t := skipn (N.to_nat p) b). intros H.
  assert (Hl : (length e1 + length e2 <= length t)%nat).
  { apply (f_equal (@length A)) in H. rewrite firstn_length, app_length in H. unfold len in H. lia. }
  replace (skipn (N.to_nat (p + len e1)) b) with (skipn (length e1) t).
  2:{ unfold t. rewrite skipn_skipn'. f_equal. unfold len. lia. }
  rewrite <- (firstn_skipn (length e1) t) in H at 1.
  replace (N.to_nat (len e1 + len e2)) with (length e1 + length e2)%nat in H by (unfold len; lia).
  rewrite firstn_app in H. rewrite firstn_length in H.
  replace (Nat.min (length e1) (length t)) with (length e1) in H by lia.
  rewrite firstn_firstn in H. replace (Nat.min (length e1 + length e2) (length e1)) with (length e1) in H by lia.
  replace (length e1 + length e2 - length e1)%nat with (length e2) in H by lia.
  apply app_eq_len in H.
  - unfold len. rewrite !Nat2N.id. exact H.
  - rewrite firstn_length. lia.
Qed.

(* ---- cursor operations as combinators --------------------------------------------------------- *)
Definition cop (A : Type) := cursor -> res verr (A * cursor).

(* truncation behaviour of a cursor operation that succeeded on [b] at position [p], ending at
   [p']: on [take m b] it gives the same answer when p' <= m and an error otherwise; it never
   moves backwards and never ends behind the input *)
Definition tr_ok {A} (f : cop A) : Prop :=
  forall b p m v c', p <= len b -> f (mkCur b p) = Ok (v, c') ->
  exists p', c' = mkCur b p' /\ p <= p' /\ p' <= len b /\
    (p' <= m -> f (mkCur (take m b) p) = Ok (v, mkCur (take m b) p')) /\
    (p <= m -> m < p' -> exists e, f (mkCur (take m b) p) = Err e).

Lemma check_remaining_ok c n : check_remaining c n = Ok tt -> c_pos c + n < two64 /\ c_pos c + n <= len (c_bytes c).
Proof.
  unfold check_remaining. destruct (two64 <=? c_pos c + n) eqn:E1; [discriminate|].
  destruct (len (c_bytes c) <? c_pos c + n) eqn:E2; [discriminate|]. lia.
Qed.
Lemma check_remaining_intro c n : c_pos c + n < two64 -> c_pos c + n <= len (c_bytes c) -> check_remaining c n = Ok tt.
Proof.
  intros. unfold check_remaining.
  destruct (two64 <=? c_pos c + n) eqn:E1; [lia|]. destruct (len (c_bytes c) <? c_pos c + n) eqn:E2; [lia|]. reflexivity.
Qed.
Lemma check_remaining_short b p m n : p + n < two64 -> m < p + n -> check_remaining (mkCur (take m b) p) n = Err EWrongLength.
Proof.
  intros. unfold check_remaining. cbn [c_pos c_bytes]. rewrite len_take.
  destruct (two64 <=? p + n) eqn:E1; [lia|]. destruct (N.min m (len b) <? p + n) eqn:E2; [reflexivity|lia].
Qed.
Lemma check_remaining_never_panics c n : check_remaining c n <> Panic.
Proof. unfold check_remaining. destruct (two64 <=? _); [discriminate|]. destruct (_ <? _); discriminate. Qed.

Lemma tr_read_u64 : tr_ok cur_read_u64.
Proof.
  intros b p m v c' Hp H. unfold cur_read_u64 in *.
  destruct (check_remaining (mkCur b p) 8) as [[]| |] eqn:E; cbn [bind] in H; try discriminate.
  injection H as <- <-. apply check_remaining_ok in E. cbn [c_pos c_bytes] in *.
  exists (p + 8). repeat split; try lia.
  - intros Hm. rewrite check_remaining_intro; cbn [c_pos c_bytes bind]; [|lia|rewrite len_take; lia].
    now rewrite slice_take.
  - intros Hpm Hm. exists EWrongLength. rewrite check_remaining_short by lia. reflexivity.
Qed.

Lemma tr_skip n : tr_ok (fun c => let! c' := cur_skip c n in Ok (tt, c')).
Proof.
  intros b p m v c' Hp H. unfold cur_skip in *.
  destruct (check_remaining (mkCur b p) n) as [[]| |] eqn:E; cbn [bind] in H; try discriminate.
  injection H as <- <-. apply check_remaining_ok in E. cbn [c_pos c_bytes] in *.
  exists (p + n). repeat split; try lia.
  - intros Hm. rewrite check_remaining_intro; cbn [c_pos c_bytes bind]; [reflexivity|lia|rewrite len_take; lia].
  - intros Hpm Hm. exists EWrongLength. rewrite check_remaining_short by lia. reflexivity.
Qed.

Lemma tr_read_values {A} count w (rd : list N -> A) : tr_ok (fun c => cur_read_values c count w rd).
Proof.
  intros b p m v c' Hp H. unfold cur_read_values in *.
  destruct (checked_mul64 w count) as [total|] eqn:Em; [|discriminate].
  destruct (check_remaining (mkCur b p) total) as [[]| |] eqn:E; cbn [bind] in H; try discriminate.
  injection H as <- <-. apply check_remaining_ok in E. cbn [c_pos c_bytes] in *.
  exists (p + total). repeat split; try lia.
  - intros Hm. rewrite check_remaining_intro; cbn [c_pos c_bytes bind]; [|lia|rewrite len_take; lia].
    now rewrite slice_take.
  - intros Hpm Hm. exists EWrongLength. rewrite check_remaining_short by lia. reflexivity.
Qed.

Lemma tr_ret {A} (x : A) : tr_ok (fun c => Ok (x, c)).
Proof.
  intros b p m v c' Hp H. injection H as <- <-. exists p. repeat split; try lia; auto.
Qed.
Lemma tr_err {A} e : tr_ok (fun _ => @Err verr (A * cursor) e).
Proof. intros b p m v c' Hp H. discriminate. Qed.

Lemma tr_bind {A B} (f : cop A) (k : A * cursor -> res verr (B * cursor)) :
  tr_ok f -> (forall a, tr_ok (fun c => k (a, c))) -> tr_ok (fun c => bind (f c) k).
Proof.
  intros Hf Hk b p m v c' Hp H.
  destruct (f (mkCur b p)) as [[a c1]| |] eqn:E1; cbn [bind] in H; try discriminate.
  destruct (Hf b p m a c1 Hp E1) as (p1 & -> & Hpp1 & Hp1 & Hle & Hgt).
  destruct (Hk a b p1 m v c' Hp1 H) as (p2 & -> & Hp12 & Hp2 & Hle2 & Hgt2).
  exists p2. repeat split; try lia.
  - intros Hm. rewrite Hle by lia. cbn [bind]. apply Hle2. exact Hm.
  - intros Hpm Hm. destruct (N.le_gt_cases p1 m) as [H1|H1].
    + rewrite Hle by lia. cbn [bind]. apply Hgt2; assumption.
    + destruct (Hgt Hpm H1) as [e ->]. exists e. reflexivity.
Qed.

Lemma tr_if {A} (cond : bool) (f g : cop A) : tr_ok f -> tr_ok g -> tr_ok (fun c => if cond then f c else g c).
Proof. destruct cond; auto. Qed.
Lemma tr_opt {A X} (o : option X) (f : cop A) (g : X -> cop A) :
  tr_ok f -> (forall x, tr_ok (g x)) -> tr_ok (fun c => match o with None => f c | Some x => g x c end).
Proof. destruct o; auto. Qed.

Lemma tr_bind_skip {B} n (k : cursor -> res verr (B * cursor)) :
  tr_ok k -> tr_ok (fun c => bind (cur_skip c n) k).
Proof.
  intros Hk.
  assert (E : forall c, bind (cur_skip c n) k = bind (let! c' := cur_skip c n in Ok (tt, c')) (fun p => k (snd p))).
  { intros c. destruct (cur_skip c n); reflexivity. }
  intros b p m v c' Hp H. rewrite E in H.
  destruct (tr_bind (fun c => let! c' := cur_skip c n in Ok (tt, c')) (fun p => k (snd p)) (tr_skip n) (fun _ => Hk) b p m v c' Hp H)
    as (p' & ? & ? & ? & H1 & H2).
  exists p'. repeat split; auto.
  - intros Hm. rewrite E. auto.
  - intros Hpm Hm. rewrite E. auto.
Qed.

Ltac tr_step := first
 [ apply tr_ret | apply tr_err
 | apply (tr_bind cur_read_u64); [apply tr_read_u64|intros ?; cbn beta iota]
 | eapply (tr_bind (fun c => cur_read_values c _ _ _)); [apply tr_read_values|intros ?; cbn beta iota]
 | apply tr_bind_skip
 | apply tr_if; [apply tr_err|]
 | apply tr_opt; [apply tr_err|intros ?] ].

Section REC.
Context {T : Type} (tsize : N) (enc : T -> list N) (dec : list N -> T).

Lemma tr_parse_change_data : tr_ok (parse_change_data tsize dec).
Proof. unfold parse_change_data. repeat tr_step. Qed.

Lemma tr_parse_raw_change_cur : tr_ok (parse_raw_change_cur tsize dec).
Proof.
  unfold parse_raw_change_cur.
  apply (tr_bind (parse_change_data tsize dec)); [apply tr_parse_change_data|intros ?; cbn beta iota].
  repeat tr_step.
Qed.

(* C16_prefix, general form: if a record parses and the parser ends at position p', every
   truncation of the input to fewer than p' bytes is rejected with an error (not a panic). *)
Lemma parse_truncated_fails bytes x c' m :
  parse_raw_change_cur tsize dec (mkCur bytes 0) = Ok (x, c') -> m < c_pos c' ->
  exists e, parse_raw_change_data tsize dec (take m bytes) = Err e.
Proof.
  intros H Hm. destruct (tr_parse_raw_change_cur bytes 0 m x c' ltac:(lia) H) as (p' & -> & _ & _ & _ & Hgt).
  cbn [c_pos] in Hm. destruct (Hgt ltac:(lia) Hm) as [e He]. exists e.
  unfold parse_raw_change_data. rewrite He. reflexivity.
Qed.

(* what an accepted input looks like: the cursor parse succeeded and ended exactly at the end *)
Lemma parse_ok_inv bytes x :
  parse_raw_change_data tsize dec bytes = Ok x ->
  parse_raw_change_cur tsize dec (mkCur bytes 0) = Ok (x, mkCur bytes (len bytes)).
Proof.
  unfold parse_raw_change_data, expect_end. intros H.
  destruct (parse_raw_change_cur tsize dec (mkCur bytes 0)) as [[y c]| |] eqn:E; cbn [bind] in H; try discriminate.
  destruct (tr_parse_raw_change_cur bytes 0 0 y c ltac:(lia) E) as (p' & -> & _). cbn [c_pos c_bytes] in H.
  destruct (p' =? len bytes) eqn:Ep; cbn [bind] in H; [|discriminate]. apply N.eqb_eq in Ep. subst p'. now injection H as ->.
Qed.

(* every strict prefix of ANY accepted input is rejected *)
Lemma accepted_prefix_rejected bytes x m :
  parse_raw_change_data tsize dec bytes = Ok x -> m < len bytes ->
  exists e, parse_raw_change_data tsize dec (take m bytes) = Err e.
Proof. intros H Hm. eapply parse_truncated_fails; [apply parse_ok_inv; exact H|exact Hm]. Qed.

(* the parser never ends behind its input: the length fields it accepted fit the bytes *)
Lemma parse_pos_bound bytes x c' :
  parse_raw_change_cur tsize dec (mkCur bytes 0) = Ok (x, c') -> c_pos c' <= len bytes.
Proof.
  intros H. destruct (tr_parse_raw_change_cur bytes 0 0 x c' ltac:(lia) H) as (p' & -> & _ & Hb & _). exact Hb.
Qed.
End REC.

(* ---- the parser never panics ---------------------------------------------------------------------- *)
Definition np {A} (f : cop A) : Prop := forall c, f c <> Panic.
Lemma np_read_u64 : np cur_read_u64.
Proof.
  intros c. unfold cur_read_u64. pose proof (check_remaining_never_panics c 8).
  destruct (check_remaining c 8) as [[]| |]; cbn; congruence.
Qed.
Lemma np_read_values {A} n w (rd : list N -> A) : np (fun c => cur_read_values c n w rd).
Proof.
  intros c. unfold cur_read_values. destruct (checked_mul64 w n); [|discriminate].
  pose proof (check_remaining_never_panics c n0). destruct (check_remaining c n0) as [[]| |]; cbn; congruence.
Qed.
Lemma np_bind {A B} (f : cop A) (k : A * cursor -> res verr (B * cursor)) :
  np f -> (forall a, np (fun c => k (a, c))) -> np (fun c => bind (f c) k).
Proof. intros Hf Hk c. specialize (Hf c). destruct (f c) as [[a c1]| |]; cbn; try congruence; try apply Hk. Qed.
Lemma np_bind_skip {B} n (k : cursor -> res verr (B * cursor)) : np k -> np (fun c => bind (cur_skip c n) k).
Proof.
  intros Hk c. unfold cur_skip. pose proof (check_remaining_never_panics c n).
  destruct (check_remaining c n) as [[]| |]; cbn; try congruence; try apply Hk.
Qed.
Lemma np_ret {A} (x : A) : np (fun c => Ok (x, c)). Proof. intros c; discriminate. Qed.
Lemma np_err {A} e : np (fun _ => @Err verr (A * cursor) e). Proof. intros c; discriminate. Qed.
Lemma np_if {A} (cond : bool) (f g : cop A) : np f -> np g -> np (fun c => if cond then f c else g c).
Proof. destruct cond; auto. Qed.
Lemma np_opt {A X} (o : option X) (f : cop A) (g : X -> cop A) :
  np f -> (forall x, np (g x)) -> np (fun c => match o with None => f c | Some x => g x c end).
Proof. destruct o; auto. Qed.
Ltac np_step := first
 [ apply np_ret | apply np_err
 | apply (np_bind cur_read_u64); [apply np_read_u64|intros ?; cbn beta iota]
 | eapply (np_bind (fun c => cur_read_values c _ _ _)); [apply np_read_values|intros ?; cbn beta iota]
 | apply np_bind_skip
 | apply np_if; [apply np_err|]
 | apply np_opt; [apply np_err|intros ?] ].

(* ---- round trip ------------------------------------------------------------------------------------ *)
Definition reads {A} (f : cop A) (e : list N) (v : A) : Prop :=
  forall b p, slice p (p + len e) b = e -> p + len e <= len b -> len b < two64 ->
  f (mkCur b p) = Ok (v, mkCur b (p + len e)).

Lemma reads_u64 v : v < two64 -> reads cur_read_u64 (enc_u64 v) v.
Proof.
  intros Hv b p Hs Hl Hb. unfold cur_read_u64. unfold enc_u64 in *. rewrite le_enc_len in *.
  change (N.of_nat 8) with 8 in *.
  rewrite check_remaining_intro; cbn [c_pos c_bytes bind]; try lia.
  rewrite Hs. pose proof (dec_enc_u64 v Hv) as D. unfold enc_u64 in D. now rewrite D.
Qed.

Lemma reads_ret {A} (x : A) : reads (fun c => Ok (x, c)) [] x.
Proof. intros b p _ _ _. cbn. now rewrite N.add_0_r. Qed.

Lemma reads_bind {A B} (f : cop A) (k : A * cursor -> res verr (B * cursor)) e1 e2 a v :
  reads f e1 a -> reads (fun c => k (a, c)) e2 v -> reads (fun c => bind (f c) k) (e1 ++ e2) v.
Proof.
  intros Hf Hk b p Hs Hl Hb. destruct (slice_app_split b e1 e2 p Hs) as [H1 H2].
  rewrite len_app in *. rewrite (Hf b p H1) by lia. cbn [bind].
  rewrite (Hk b (p + len e1) H2) by lia. now rewrite N.add_assoc.
Qed.

Lemma reads_bind_skip {B} n (k : cursor -> res verr (B * cursor)) e1 e2 v :
  len e1 = n -> reads k e2 v -> reads (fun c => bind (cur_skip c n) k) (e1 ++ e2) v.
Proof.
  intros Hn Hk b p Hs Hl Hb. destruct (slice_app_split b e1 e2 p Hs) as [H1 H2].
  rewrite len_app in *. unfold cur_skip. rewrite check_remaining_intro; cbn [c_pos c_bytes bind]; try lia.
  rewrite <- Hn. rewrite (Hk b (p + len e1) H2) by lia. now rewrite N.add_assoc.
Qed.

Lemma reads_if_false {A} (cond : bool) (f g : cop A) e v :
  cond = false -> reads g e v -> reads (fun c => if cond then f c else g c) e v.
Proof. intros ->. auto. Qed.
Lemma reads_opt_some {A X} (o : option X) x (f : cop A) (g : X -> cop A) e v :
  o = Some x -> reads (g x) e v -> reads (fun c => match o with None => f c | Some y => g y c end) e v.
Proof. intros ->. auto. Qed.

Lemma flat_map_len {X} (en : X -> list N) w (vs : list X) :
  (forall v, In v vs -> len (en v) = w) -> len (flat_map en vs) = w * len vs.
Proof.
  induction vs as [|v t IH]; intros H; cbn [flat_map]; [unfold len; cbn [length]; lia|].
  rewrite len_app, len_cons, IH by (intros; apply H; now right). rewrite (H v) by now left. lia.
Qed.

Lemma chunks_flat_map {X} (en : X -> list N) (w : nat) (vs : list X) :
  (0 < w)%nat -> (forall v, In v vs -> length (en v) = w) ->
  chunks (length vs) w (flat_map en vs) = map en vs.
Proof.
  intros Hw. induction vs as [|v t IH]; intros H; cbn [length chunks flat_map map]; auto.
  assert (Hv : length (en v) = w) by (apply H; now left).
  destruct (en v ++ flat_map en t) eqn:E.
  - apply (f_equal (@length N)) in E. rewrite app_length in E. cbn in E. lia.
  - rewrite <- E. rewrite firstn_app, Hv, Nat.sub_diag, firstn_all2 by lia. cbn [firstn]. rewrite app_nil_r.
    rewrite skipn_app, Hv, Nat.sub_diag, skipn_all2 by lia. cbn [skipn app].
    rewrite IH by (intros; apply H; now right). reflexivity.
Qed.

Lemma reads_values {X} (en : X -> list N) (rd : list N -> X) w (vs : list X) :
  0 < w -> (forall v, In v vs -> len (en v) = w /\ rd (en v) = v) ->
  reads (fun c => cur_read_values c (len vs) w rd) (flat_map en vs) vs.
Proof.
  intros Hw H b p Hs Hl Hb. unfold cur_read_values.
  assert (El : len (flat_map en vs) = w * len vs) by (apply flat_map_len; intros; now apply H).
  rewrite El in *.
  unfold checked_mul64. destruct (two64 <=? w * len vs) eqn:E; [lia|].
  rewrite check_remaining_intro; cbn [c_pos c_bytes bind]; try lia.
  rewrite Hs. f_equal. f_equal.
  unfold len at 1. rewrite Nat2N.id. rewrite chunks_flat_map.
  - rewrite map_map. rewrite <- (map_id vs) at 2. apply map_ext_in. intros v Hv. now apply H.
  - lia.
  - intros v Hv. destruct (H v Hv) as [Hlen _]. unfold len in Hlen. lia.
Qed.

Section RT.
Context {T : Type} (tsize : N) (enc : T -> list N) (dec : list N -> T).
Hypothesis tsize_pos : 0 < tsize.
Hypothesis enc_len : forall v, len (enc v) = tsize.
Hypothesis dec_enc : forall v, dec (enc v) = v.

Definition valid_record (r : @crecord T) : Prop :=
  r_stamp r < two64 /\ r_prev_stored_len r < two64 /\ r_stored_len r < two64 /\
  len (r_trunc r) <= r_prev_stored_len r /\
  len (r_mod_idx r) = len (r_mod_vals r) /\
  (forall i, In i (r_mod_idx r) -> i < two64) /\ (forall i, In i (r_prev_holes r) -> i < two64) /\
  len (serialize_record enc r) < two64.

Lemma np_parse_raw_change_cur : np (parse_raw_change_cur tsize dec).
Proof.
  unfold parse_raw_change_cur, parse_change_data.
  apply np_bind; [repeat np_step|intros ?; cbn beta iota]. repeat np_step.
Qed.

Lemma enc_vals_len (vs : list T) : len (enc_vals enc vs) = tsize * len vs.
Proof. apply flat_map_len. intros; apply enc_len. Qed.
Lemma enc_idx_len (l : list N) : len (enc_idx l) = 8 * len l.
Proof. apply flat_map_len. intros. unfold enc_u64. now rewrite le_enc_len. Qed.

Lemma reads_tvals (vs : list T) : reads (fun c => cur_read_values c (len vs) tsize dec) (enc_vals enc vs) vs.
Proof. apply reads_values; auto. Qed.
Lemma reads_idx (l : list N) : (forall i, In i l -> i < two64) -> reads (fun c => cur_read_values c (len l) 8 le_dec) (enc_idx l) l.
Proof.
  intros H. apply reads_values; [lia|]. intros v Hv. split.
  - unfold enc_u64. now rewrite le_enc_len.
  - apply dec_enc_u64. auto.
Qed.

Lemma len_lt_of_total (a b : N) : tsize * a <= b -> b < two64 -> a < two64.
Proof. intros. nia. Qed.

Lemma reads_tvals' n (vs : list T) : n = len vs -> reads (fun c => cur_read_values c n tsize dec) (enc_vals enc vs) vs.
Proof. intros ->. apply reads_tvals. Qed.
Lemma reads_idx' n (l : list N) : n = len l -> (forall i, In i l -> i < two64) ->
  reads (fun c => cur_read_values c n 8 le_dec) (enc_idx l) l.
Proof. intros ->. apply reads_idx. Qed.

Definition base_part (r : @crecord T) : list N :=
  enc_u64 (r_stamp r) ++ enc_u64 (r_prev_stored_len r) ++ enc_u64 (r_stored_len r)
  ++ enc_u64 (len (r_trunc r)) ++ enc_vals enc (r_trunc r)
  ++ enc_u64 (len (r_prev_pushed r)) ++ enc_vals enc (r_prev_pushed r)
  ++ enc_u64 (len (r_pushed r)) ++ enc_vals enc (r_pushed r) ++ [].
Definition raw_part (r : @crecord T) : list N :=
  enc_u64 (len (r_mod_idx r)) ++ enc_idx (r_mod_idx r) ++ enc_vals enc (r_mod_vals r)
  ++ enc_u64 (len (r_prev_holes r)) ++ enc_idx (r_prev_holes r) ++ [].
Lemma ser_split r : serialize_record enc r = base_part r ++ raw_part r.
Proof. unfold serialize_record, base_part, raw_part. rewrite !app_nil_r. repeat rewrite <- app_assoc. reflexivity. Qed.

Lemma ser_len r : len (serialize_record enc r) =
  64 + tsize * len (r_trunc r) + tsize * len (r_prev_pushed r) + tsize * len (r_pushed r)
  + 8 * len (r_mod_idx r) + tsize * len (r_mod_vals r) + 8 * len (r_prev_holes r).
Proof.
  unfold serialize_record. rewrite !len_app, !enc_vals_len, !enc_idx_len. unfold enc_u64. rewrite !le_enc_len.
  change (N.of_nat 8) with 8. lia.
Qed.

Lemma reads_base r : valid_record r ->
  reads (parse_change_data tsize dec) (base_part r)
        (mkCD (r_stamp r) (r_prev_stored_len r) (r_prev_stored_len r - len (r_trunc r)) (r_trunc r) (r_prev_pushed r)).
Proof.
  intros (Hst & Hpsl & Hsl & Htr & Hmod & Hidx & Hph & Htot). rewrite ser_len in Htot.
  unfold parse_change_data, base_part.
  apply (reads_bind cur_read_u64 _ _ _ (r_stamp r)); [now apply reads_u64|cbn beta iota].
  apply (reads_bind cur_read_u64 _ _ _ (r_prev_stored_len r)); [now apply reads_u64|cbn beta iota].
  apply reads_bind_skip; [unfold enc_u64; now rewrite le_enc_len|].
  apply (reads_bind cur_read_u64 _ _ _ (len (r_trunc r))); [apply reads_u64; nia|cbn beta iota].
  apply reads_if_false; [lia|].
  eapply (reads_bind (fun c => cur_read_values c _ _ _)); [now apply reads_tvals'|cbn beta iota].
  apply (reads_bind cur_read_u64 _ _ _ (len (r_prev_pushed r))); [apply reads_u64; nia|cbn beta iota].
  eapply (reads_bind (fun c => cur_read_values c _ _ _)); [now apply reads_tvals'|cbn beta iota].
  apply (reads_bind cur_read_u64 _ _ _ (len (r_pushed r))); [apply reads_u64; nia|cbn beta iota].
  apply (reads_opt_some _ (tsize * len (r_pushed r))).
  { unfold checked_mul64. destruct (two64 <=? tsize * len (r_pushed r)) eqn:E; [nia|reflexivity]. }
  apply reads_bind_skip; [apply enc_vals_len|]. apply reads_ret.
Qed.

Theorem parse_serialize_cur r : valid_record r ->
  parse_raw_change_cur tsize dec (mkCur (serialize_record enc r) 0)
  = Ok (project_record r, mkCur (serialize_record enc r) (len (serialize_record enc r))).
Proof.
  intros Hv. pose proof Hv as (Hst & Hpsl & Hsl & Htr & Hmod & Hidx & Hph & Htot).
  assert (Hreads : reads (parse_raw_change_cur tsize dec) (serialize_record enc r) (project_record r)).
  2:{ specialize (Hreads (serialize_record enc r) 0). rewrite N.add_0_l in Hreads. apply Hreads; try lia.
      apply slice_all. reflexivity. }
  rewrite ser_len in Htot. rewrite ser_split. unfold parse_raw_change_cur, project_record.
  eapply (reads_bind (parse_change_data tsize dec)); [now apply reads_base|cbn beta iota].
  unfold raw_part.
  apply (reads_bind cur_read_u64 _ _ _ (len (r_mod_idx r))); [apply reads_u64; nia|cbn beta iota].
  eapply (reads_bind (fun c => cur_read_values c _ _ _)); [now apply reads_idx'|cbn beta iota].
  eapply (reads_bind (fun c => cur_read_values c _ _ _)); [now apply reads_tvals'|cbn beta iota].
  apply (reads_bind cur_read_u64 _ _ _ (len (r_prev_holes r))); [apply reads_u64; nia|cbn beta iota].
  eapply (reads_bind (fun c => cur_read_values c _ _ _)); [now apply reads_idx'|cbn beta iota].
  apply reads_ret.
Qed.

(* change-record round trip *)
Theorem parse_serialize r : valid_record r ->
  parse_raw_change_data tsize dec (serialize_record enc r) = Ok (project_record r).
Proof.
  intros Hv. unfold parse_raw_change_data, expect_end. rewrite parse_serialize_cur by exact Hv. cbn [bind c_pos c_bytes].
  now rewrite N.eqb_refl.
Qed.

(* C16_prefix: every strict prefix of a valid record is rejected (with an error, not a panic) *)
Theorem prefix_rejected r n : valid_record r -> n < len (serialize_record enc r) ->
  exists e, parse_raw_change_data tsize dec (take n (serialize_record enc r)) = Err e.
Proof.
  intros Hv Hn. eapply parse_truncated_fails; [apply parse_serialize_cur; exact Hv|]. exact Hn.
Qed.

(* the parser is total: Ok or Err, never a panic, on every byte string *)
Theorem parse_never_panics bytes : parse_raw_change_data tsize dec bytes <> Panic.
Proof.
  unfold parse_raw_change_data, expect_end. pose proof (np_parse_raw_change_cur (mkCur bytes 0)).
  destruct (parse_raw_change_cur tsize dec (mkCur bytes 0)) as [[x c]| |]; cbn; try congruence.
  destruct (c_pos c =? len (c_bytes c)); cbn; discriminate.
Qed.

(* an input with anything appended to an accepted record is rejected (expect_end) *)
Theorem trailing_bytes_rejected bytes x extra :
  parse_raw_change_data tsize dec bytes = Ok x -> extra <> [] ->
  exists e, parse_raw_change_data tsize dec (bytes ++ extra) = Err e.
Proof.
  intros H Hx. pose proof (parse_ok_inv tsize dec bytes x H) as Hc.
  assert (Hl : len bytes < len (bytes ++ extra)).
  { rewrite len_app. destruct extra; [congruence|]. rewrite len_cons. lia. }
  unfold parse_raw_change_data.
  destruct (parse_raw_change_cur tsize dec (mkCur (bytes ++ extra) 0)) as [[y c]|e|] eqn:E; cbn [bind].
  - destruct (tr_parse_raw_change_cur tsize dec (bytes ++ extra) 0 (len bytes) y c ltac:(lia) E) as (p' & -> & _ & Hb & Hle & Hgt).
    rewrite (take_app_exact bytes extra (len bytes) eq_refl) in Hle, Hgt.
    destruct (N.le_gt_cases p' (len bytes)) as [H1|H1].
    + rewrite Hc in Hle. specialize (Hle H1). injection Hle as _ Hp. unfold expect_end. cbn [c_pos c_bytes].
      destruct (p' =? len (bytes ++ extra)) eqn:Ep; [lia|]. cbn. eauto.
    + destruct (Hgt ltac:(lia) H1) as [e He]. congruence.
  - eauto.
  - exfalso. apply (np_parse_raw_change_cur (mkCur (bytes ++ extra) 0)). exact E.
Qed.
End RT.

(* ---- the change directory: save_change_file keeps at most k records, none newer than the new one --- *)
Lemma cd_ins_len s b l : len (cd_ins s b l) <= 1 + len l.
Proof.
  induction l as [|[k w] t IH]; cbn [cd_ins]; [rewrite len_cons; lia|].
  destruct (s <? k); [rewrite !len_cons; lia|]. destruct (s =? k); rewrite !len_cons in *; lia.
Qed.
Lemma cd_ins_in s b l x : In x (cd_ins s b l) -> x = (s, b) \/ In x l.
Proof.
  induction l as [|[k w] t IH]; cbn [cd_ins In]; [intuition|].
  destruct (s <? k); cbn [In]; [intuition|]. destruct (s =? k); cbn [In]; intuition.
Qed.
Lemma cd_ins_get s b l : nm_get s (cd_ins s b l) = Some b.
Proof.
  induction l as [|[k w] t IH]; cbn [cd_ins nm_get]; [now rewrite N.eqb_refl|].
  destruct (s <? k) eqn:E1; cbn [nm_get]; [now rewrite N.eqb_refl|].
  destruct (s =? k) eqn:E2; cbn [nm_get]; [now rewrite N.eqb_refl|]. now rewrite E2.
Qed.
Lemma in_drop {A} n (l : list A) x : In x (drop n l) -> In x l.
Proof. unfold drop. intros H. rewrite <- (firstn_skipn (N.to_nat n) l). apply in_or_app. now right. Qed.

Theorem save_change_file_bound d k cur st data :
  0 < k ->
  exists l, save_change_file d k cur st data = Some l /\ len l <= k /\
            (forall s b, In (s, b) l -> (s = st /\ b = data) \/ (s < st /\ s <= cur /\
                                         exists l0, d = Some l0 /\ In (s, b) l0)) /\
            nm_get st l = Some data.
Proof.
  intros Hk. unfold save_change_file. eexists. split; [reflexivity|].
  set (files := match d with None => [] | Some l => l end).
  set (kept := filter (fun p => (fst p <? st) && (fst p <=? cur)) files). repeat split.
  - eapply N.le_trans; [apply cd_ins_len|]. rewrite len_drop. lia.
  - intros s b H. apply cd_ins_in in H as [H|H]; [injection H as -> ->; now left|]. right.
    apply in_drop in H. unfold kept in H. apply filter_In in H as [Hin H]. cbn [fst] in H.
    apply andb_true_iff in H as [H1 H2]. repeat split; try lia.
    unfold files in Hin. destruct d as [l0|]; [exists l0; auto|destruct Hin].
  - apply cd_ins_get.
Qed.
