(* Vec/RvChange.v — byte-exact change (undo) records of raw vectors and the change directory.
   MODEL file: definitions only.
   Sources: crates/vecdb/src/base/change/cursor.rs (ChangeCursor),
            crates/vecdb/src/base/rollback.rs:18-80 (serialize_changes, parse_change_data),
            crates/vecdb/src/base/rollback.rs:94-149 (save_change_file, read_current_change_file,
            find_rollback_files),
            crates/vecdb/src/variants/raw/inner/read_write/rollback.rs:16-79
            (serialize_raw_changes, parse_raw_change_data). *)
From Anydb Require Import Common.Base Common.LE Vec.RegionSpec Vec.RvBase.

Inductive verr :=
| EWrongLength | EOverflow | EUnderflow | EIndexTooHigh | EStampMismatch | EIO
| EWriteOutOfBounds | ETruncateInvalid | ERegionNotFound.

(* ---- ChangeCursor ----------------------------------------------------------------------- *)
Record cursor := mkCur { c_bytes : list N; c_pos : N }.

(* cursor.rs:51 check_remaining: pos.checked_add(len) -> Overflow; end > bytes.len() -> WrongLength.
   [n] is a usize, i.e. < 2^64; checked_add fails exactly when the sum does not fit 64 bits. *)
Definition check_remaining (c : cursor) (n : N) : res verr unit :=
  let e := c_pos c + n in
  if two64 <=? e then Err EOverflow
  else if len (c_bytes c) <? e then Err EWrongLength
  else Ok tt.

(* cursor.rs:15 read_u64 / :22 read_stamp *)
Definition cur_read_u64 (c : cursor) : res verr (N * cursor) :=
  let! _ := check_remaining c 8 in
  Ok (le_dec (slice (c_pos c) (c_pos c + 8) (c_bytes c)), mkCur (c_bytes c) (c_pos c + 8)).

(* cursor.rs:29 skip *)
Definition cur_skip (c : cursor) (n : N) : res verr cursor :=
  let! _ := check_remaining c n in
  Ok (mkCur (c_bytes c) (c_pos c + n)).

(* checked_mul on usize: None when the product needs more than 64 bits (the wrap, explicit) *)
Definition checked_mul64 (a b : N) : option N := let p := a * b in if two64 <=? p then None else Some p.

Fixpoint chunks {A} (fuel : nat) (w : nat) (l : list A) : list (list A) :=
  match fuel with
  | O => []
  | S f => match l with [] => [] | _ => firstn w l :: chunks f w (skipn w l) end
  end.

Section REC.
Context {T : Type} (tsize : N) (enc : T -> list N) (dec : list N -> T).

(* cursor.rs:35 read_values: total = size_of_t.checked_mul(count) -> Overflow; check_remaining;
   chunks(size_of_t).map(read) *)
Definition cur_read_values {A} (c : cursor) (count : N) (w : N) (rd : list N -> A) : res verr (list A * cursor) :=
  match checked_mul64 w count with
  | None => Err EOverflow
  | Some total =>
    let! _ := check_remaining c total in
    let body := slice (c_pos c) (c_pos c + total) (c_bytes c) in
    Ok (map rd (chunks (N.to_nat count) (N.to_nat w) body), mkCur (c_bytes c) (c_pos c + total))
  end.

Record change_data := mkCD {
  cd_prev_stamp : N; cd_prev_stored_len : N; cd_trunc_start : N;
  cd_trunc_vals : list T; cd_prev_pushed : list T }.
Record raw_change_data := mkRCD {
  rcd_base : change_data; rcd_mods : list (N * T); rcd_prev_holes : nset }.

(* the full content of a record as serialize_raw_changes lays it out *)
Record crecord := mkRec {
  r_stamp : N; r_prev_stored_len : N; r_stored_len : N;
  r_trunc : list T;            (* truncated values, count written before them *)
  r_prev_pushed : list T; r_pushed : list T;
  r_mod_idx : list N; r_mod_vals : list T;     (* same length *)
  r_prev_holes : list N }.

Definition enc_vals (vs : list T) : list N := flat_map enc vs.
Definition enc_idx (l : list N) : list N := flat_map enc_u64 l.

(* base/rollback.rs:18 serialize_changes + raw/.../rollback.rs:16 serialize_raw_changes *)
Definition serialize_record (r : crecord) : list N :=
  enc_u64 (r_stamp r) ++ enc_u64 (r_prev_stored_len r) ++ enc_u64 (r_stored_len r)
  ++ enc_u64 (len (r_trunc r)) ++ enc_vals (r_trunc r)
  ++ enc_u64 (len (r_prev_pushed r)) ++ enc_vals (r_prev_pushed r)
  ++ enc_u64 (len (r_pushed r)) ++ enc_vals (r_pushed r)
  ++ enc_u64 (len (r_mod_idx r)) ++ enc_idx (r_mod_idx r) ++ enc_vals (r_mod_vals r)
  ++ enc_u64 (len (r_prev_holes r)) ++ enc_idx (r_prev_holes r).

(* base/rollback.rs:52 parse_change_data *)
Definition parse_change_data (c : cursor) : res verr (change_data * cursor) :=
  let! (prev_stamp, c) := cur_read_u64 c in
  let! (prev_stored_len, c) := cur_read_u64 c in
  let! c := cur_skip c 8 in
  let! (truncated_count, c) := cur_read_u64 c in
  if prev_stored_len <? truncated_count then Err EUnderflow else
  let truncated_start := prev_stored_len - truncated_count in
  let! (tvals, c) := cur_read_values c truncated_count tsize dec in
  let! (ppl, c) := cur_read_u64 c in
  let! (pp, c) := cur_read_values c ppl tsize dec in
  let! (pl, c) := cur_read_u64 c in
  match checked_mul64 tsize pl with
  | None => Err EOverflow
  | Some sk =>
    let! c := cur_skip c sk in
    Ok (mkCD prev_stamp prev_stored_len truncated_start tvals pp, c)
  end.

(* raw/.../rollback.rs:58 parse_raw_change_data (the cursor it ends on is kept for the theorems) *)
Definition parse_raw_change_cur (c : cursor) : res verr (raw_change_data * cursor) :=
  let! (base, c) := parse_change_data c in
  let! (modified_len, c) := cur_read_u64 c in
  let! (indices, c) := cur_read_values c modified_len 8 le_dec in
  let! (values, c) := cur_read_values c modified_len tsize dec in
  let! (phl, c) := cur_read_u64 c in
  let! (ph, c) := cur_read_values c phl 8 le_dec in
  Ok (mkRCD base (combine indices values) (ns_of_list ph), c).
(* cursor.rs expect_end (fix 397122a): a change record must be consumed exactly *)
Definition expect_end (c : cursor) : res verr unit :=
  if c_pos c =? len (c_bytes c) then Ok tt else Err EWrongLength.
Definition parse_raw_change_data (bytes : list N) : res verr raw_change_data :=
  let! (x, c) := parse_raw_change_cur (mkCur bytes 0) in
  let! _ := expect_end c in Ok x.

(* what a valid record parses to *)
Definition project_record (r : crecord) : raw_change_data :=
  mkRCD (mkCD (r_stamp r) (r_prev_stored_len r) (r_prev_stored_len r - len (r_trunc r)) (r_trunc r) (r_prev_pushed r))
        (combine (r_mod_idx r) (r_mod_vals r)) (ns_of_list (r_prev_holes r)).
End REC.

(* ---- change directory ---------------------------------------------------------------------- *)
Fixpoint cd_ins (s : N) (b : list N) (l : list (N * list N)) : list (N * list N) :=
  match l with
  | [] => [(s, b)]
  | (k, w) :: t => if s <? k then (s, b) :: l else if s =? k then (s, b) :: t else (k, w) :: cd_ins s b t
  end.

(* base/rollback.rs:94 save_change_file: create_dir_all; keep the files with stamp < new AND
   stamp <= the vector's current stamp (fix 84e80e2: records above the state being committed from
   were left behind by rolled-back commits), remove the others; excess =
   files.len().saturating_sub(k - 1); remove the `excess` smallest; write.
   The directory listing is kept sorted by stamp (BTreeMap in the code). *)
Definition save_change_file (d : cdir) (k : N) (cur : N) (stamp : N) (data : list N) : cdir :=
  let files := match d with None => [] | Some l => l end in
  let kept := filter (fun p => (fst p <? stamp) && (fst p <=? cur)) files in
  let excess := len kept - (k - 1) in
  Some (cd_ins stamp data (drop excess kept)).

(* base/rollback.rs:133 read_current_change_file: fs::read of <dir>/<stamp> *)
Definition read_change_file (d : cdir) (stamp : N) : res verr (list N) :=
  match d with
  | None => Err EIO
  | Some l => match nm_get stamp l with Some b => Ok b | None => Err EIO end
  end.

(* base/rollback.rs:140 find_rollback_files: read_dir fails when the directory is missing *)
Definition find_rollback_files (d : cdir) : res verr (list N) :=
  match d with None => Err EIO | Some l => Ok (map fst l) end.
